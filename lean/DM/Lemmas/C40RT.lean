import DM.Lemmas.EdiRT
/-
Data-level round trip for a message planned entirely in C40 or Text.
-/
namespace DM.Lemmas.C40RT
open DM.Model DM.Model.Enc DM.Model.Dec DM.Gen DM.Lemmas DM.Lemmas.DecRun DM.Lemmas.AsciiRT DM.Lemmas.Complete
open DM.Lemmas.EncRT DM.Lemmas.X12RT DM.Lemmas.EdiRT DM.Spec.Build

def st0 : CSt := { shift := 0, upper := false }

/-! ### decoder: values that do not complete a character, and the fill values -/

/-- every proper prefix of the values of a byte is consumed without output and without error -/
def prefixOK (text : Bool) (b : Nat) : Bool :=
  (List.range (c40Vals text b).length).all fun k =>
    match c40Values (tabs text).1 (tabs text).2 ((c40Vals text b).take k) st0 [] with
    | .ok (_, o) => o == []
    | .error _ => false

theorem prefixes_ok : (List.range 256).all (fun b => prefixOK false b && prefixOK true b) = true := by
  decide +kernel

/-- the encoder's value function agrees with the reference builder's on every byte -/
def valsAgree (text : Bool) (b : Nat) : Bool :=
  match toVals text [] b with
  | .ok v => v == c40Vals text b
  | .error _ => false

theorem vals_agree : (List.range 256).all (fun b => valsAgree false b && valsAgree true b) = true := by
  decide +kernel

theorem prefix_ok (text : Bool) (b : Nat) (hb : b < 256) (k : Nat) (hk : k < (c40Vals text b).length) :
    ∃ st, ∀ out, c40Values (tabs text).1 (tabs text).2 ((c40Vals text b).take k) st0 out = .ok (st, out) := by
  have h := prefixes_ok
  rw [List.all_eq_true] at h
  have hb' := h b (List.mem_range.mpr hb)
  simp only [Bool.and_eq_true] at hb'
  have hp : prefixOK text b = true := by cases text; exact hb'.1; exact hb'.2
  unfold prefixOK at hp
  rw [List.all_eq_true] at hp
  have := hp k (List.mem_range.mpr hk)
  cases hc : c40Values (tabs text).1 (tabs text).2 ((c40Vals text b).take k) st0 [] with
  | error e => rw [hc] at this; simp at this
  | ok r =>
    obtain ⟨st, o⟩ := r
    rw [hc] at this
    simp only [beq_iff_eq] at this
    subst this
    refine ⟨st, fun out => ?_⟩
    rw [c40Values_prefix, hc]
    simp

theorem toVals_eq (text : Bool) (buf : List Nat) (b : Nat) (hb : b < 256) :
    toVals text buf b = if (buf ++ c40Vals text b).length > 6 then .error (.panic "ArrayVec capacity")
      else .ok (buf ++ c40Vals text b) := by
  have h := vals_agree
  rw [List.all_eq_true] at h
  have hb' := h b (List.mem_range.mpr hb)
  simp only [Bool.and_eq_true] at hb'
  have hp : valsAgree text b = true := by cases text; exact hb'.1; exact hb'.2
  unfold valsAgree at hp
  unfold toVals at hp ⊢
  simp only [] at hp ⊢
  generalize (if b ≤ 127 then (if text = true then textLow else c40Low) b
    else match (if text = true then textLow else c40Low) (b - 128) with
      | .ok v => .ok ([1, 30] ++ v)
      | .error e => .error e) = r at hp ⊢
  cases r with
  | error e => simp at hp
  | ok v =>
    simp only [List.nil_append] at hp
    split at hp
    · rename_i v2 heq
      simp only [beq_iff_eq] at hp
      have hv2 : v = v2 := by
        split at heq
        · cases heq
        · simpa using heq
      subst hv2
      subst hp
      rfl
    · simp at hp

/-- the decoder on a C40 / Text run given by its value list -/
theorem seg_c40_vals (text : Bool) (V chars : List Nat) (st' : CSt) (n : Nat) (hl : V.length = 3 * n)
    (hlt : ∀ v ∈ V, v < 40)
    (hv : ∀ out, c40Values (tabs text).1 (tabs text).2 V st0 out = .ok (st', out ++ chars))
    (un : Bool) (tail : List Nat) (ht : TripleTail un tail) (e : Nat) (out : List Nat) :
    decRun .ascii { rest := [if text then 239 else 230] ++ packTriples V ++ (if un then [254] else []) ++ tail,
                    eaten := e, out := out, ecis := [] } =
    decRun .ascii { rest := tail, eaten := e + (1 + 2 * n + (if un then 1 else 0)), out := out ++ chars, ecis := [] } := by
  have hpl := packTriples_length n V hl
  rw [decRun_ascii _ (by simp)]
  simp only [List.singleton_append, List.cons_append]
  rw [decodeAscii]
  by_cases hnil : packTriples V ++ ((if un then [254] else []) ++ tail) = []
  · have h1 := (List.append_eq_nil_iff.mp hnil)
    have h2 := (List.append_eq_nil_iff.mp h1.2)
    have hn0 : n = 0 := by rw [h1.1] at hpl; simp at hpl; omega
    have hun : un = false := by
      cases un with
      | true => simp at h2
      | false => rfl
    have hV : V = [] := List.length_eq_zero_iff.mp (by omega)
    have hchars : chars = [] := by
      have := hv []
      rw [hV] at this
      simp only [c40Values, List.nil_append, Except.ok.injEq, Prod.mk.injEq] at this
      exact this.2.symm
    subst hun hV hchars hn0
    cases text <;>
    · simp only [ne_eq, not_true_eq_false, ↓reduceIte, Bool.false_eq_true, false_and, Nat.reduceLeDiff, and_false,
        Nat.reduceEqDiff, List.nil_append]
      rw [decRun_nil _ _ (by simpa using hnil), h2.2, decRun_nil _ _ rfl]
      simp [packTriples]
  · cases text with
    | false =>
      simp only [ne_eq, not_true_eq_false, ↓reduceIte, Bool.false_eq_true, false_and, Nat.reduceLeDiff, and_false,
        Nat.reduceEqDiff, List.nil_append]
      rw [decRun_c40 _ (by simpa using hnil)]
      simp only [List.append_assoc]
      rw [decodeC40_triples baseC40 shift3C40 n _ hl hlt]
      have := hv out
      simp only [tabs, Bool.false_eq_true, ↓reduceIte, st0] at this
      rw [this]
      simp only []
      rw [decodeC40_end _ _ un tail ht]
      simp only []
      congr 2
      omega
    | true =>
      simp only [ne_eq, not_true_eq_false, ↓reduceIte, Bool.false_eq_true, false_and, Nat.reduceLeDiff, and_false,
        Nat.reduceEqDiff, List.nil_append]
      rw [decRun_text _ (by simpa using hnil)]
      simp only [List.append_assoc]
      rw [decodeC40_triples baseText shift3Text n _ hl hlt]
      have := hv out
      simp only [tabs, ↓reduceIte, st0] at this
      rw [this]
      simp only []
      rw [decodeC40_end _ _ un tail ht]
      simp only []
      congr 2
      omega

/-! ### encoder: flushing complete triples -/

theorem flush_spec : ∀ (f : Nat) (s : St) (buf : List Nat), buf.length < 3 * f + 3 → (∀ v ∈ buf, v < 40) →
    ∃ k, 3 * k ≤ buf.length ∧ buf.length - 3 * k < 3 ∧
      flushTriples f s buf = ({ s with cw := s.cw ++ packTriples (buf.take (3 * k)) }, buf.drop (3 * k)) := by
  intro f
  induction f with
  | zero =>
    intro s buf hl _
    exact ⟨0, by omega, by omega, by simp [flushTriples, packTriples]⟩
  | succ f ih =>
    intro s buf hl hlt
    match buf, hl, hlt with
    | a :: b :: c :: t, hl, hlt =>
      have ha := hlt a (by simp)
      have hb := hlt b (by simp)
      have hc := hlt c (by simp)
      obtain ⟨w1, w2, w3, w4, w5, w6, w7⟩ := writeThree_cw s a b c ha hb hc
      obtain ⟨k, k1, k2, k3⟩ := ih (writeThree s a b c) t (by simp only [List.length_cons] at hl; omega)
        (fun v hv => hlt v (by simp [hv]))
      refine ⟨k + 1, by simp only [List.length_cons]; omega, by simp only [List.length_cons]; omega, ?_⟩
      simp only [flushTriples]
      rw [k3]
      have h3 : 3 * (k + 1) = 3 * k + 3 := by omega
      rw [h3]
      simp only [List.take_succ_cons, List.drop_succ_cons, packTriples, Prod.mk.injEq, and_true]
      apply St_ext <;> simp [w1, w2, w3, w4, w5, w6, w7, packTriples, List.append_assoc]
    | [], _, _ => exact ⟨0, by simp, by simp, by simp [flushTriples, packTriples]⟩
    | [_], _, _ => exact ⟨0, by simp, by simp, by simp [flushTriples, packTriples]⟩
    | [_, _], _, _ => exact ⟨0, by simp, by simp, by simp [flushTriples, packTriples]⟩

/-! ### encoder: loop invariant and outcomes -/

def latchOf (text : Bool) : Nat := if text then 239 else 230
def modeOf (text : Bool) : EMode := if text then .text else .c40

/-- all C40 / Text values of the first `p` characters -/
def W (text : Bool) (body : List Nat) (p : Nat) : List Nat := (body.take p).flatMap (c40Vals text)

theorem W_succ (text : Bool) (body : List Nat) (p : Nat) (h : p < body.length) :
    W text body (p + 1) = W text body p ++ c40Vals text body[p] := by
  unfold W
  have : body.take (p + 1) = body.take p ++ [body[p]] := by
    rw [List.take_succ]; simp [List.getElem?_eq_getElem h]
  rw [this, List.flatMap_append]
  simp [List.flatMap]

theorem W_lt (text : Bool) (body : List Nat) (hb : ByteList body) (p : Nat) : ∀ v ∈ W text body p, v < 40 :=
  c40_vals_lt text (body.take p) (fun x hx => hb x (List.mem_of_mem_take hx))

theorem W_dec (text : Bool) (body : List Nat) (hb : ByteList body) (p : Nat) (rest out : List Nat) :
    c40Values (tabs text).1 (tabs text).2 (W text body p ++ rest) st0 out =
      c40Values (tabs text).1 (tabs text).2 rest st0 (out ++ body.take p) :=
  c40_bytes text (body.take p) (fun x hx => hb x (List.mem_of_mem_take hx)) rest out

structure C40Inv (text : Bool) (list : List Sym) (body : List Nat) (s : St) (buf : List Nat) (lastCh m : Nat) : Prop where
  input : s.input = body
  list : s.list = list
  mode : s.mode = modeOf text
  plan : s.plan = [(0, modeOf text)]
  newMode : s.newMode = none
  le : s.pos ≤ body.length
  m3 : 3 * m ≤ (W text body s.pos).length
  bufEq : buf = (W text body s.pos).drop (3 * m)
  short : buf.length ≤ 2
  cw : s.cw = latchOf text :: packTriples ((W text body s.pos).take (3 * m))
  last : 0 < s.pos → lastCh = body.getD (s.pos - 1) 0

/-- what `c40::encode` leaves behind: a run given by its values `V` (decoding to the first `p`
characters), UNLATCH or not, and — without UNLATCH — an exact fit of the rest into the symbol -/
structure C40End (text : Bool) (list : List Sym) (body : List Nat) (s' : St) : Prop where
  out : ∃ (V : List Nat) (n p : Nat) (un : Bool) (st' : CSt),
    V.length = 3 * n ∧ (∀ v ∈ V, v < 40) ∧
    (∀ out, c40Values (tabs text).1 (tabs text).2 V st0 out = .ok (st', out ++ body.take p)) ∧ p ≤ body.length ∧
    s'.cw = latchOf text :: packTriples V ++ (if un then [254] else []) ∧ s'.pos = p ∧ s'.input = body ∧
    s'.list = list ∧ s'.newMode = none ∧
    ((s'.mode = .ascii ∧ s'.plan = [(0, .ascii)]) ∨ (p = body.length ∧ un = false)) ∧
    (un = false → asciiSize (body.drop p) ≤ 1 ∧
      ∃ S, firstBigEnough list (s'.cw.length + asciiSize (body.drop p)) = some S ∧
        dataCw S = s'.cw.length + asciiSize (body.drop p))

theorem vals_ne (text : Bool) (b : Nat) (hb : b < 256) : c40Vals text b ≠ [] := by
  intro h
  have := (c40_byte text b hb).1
  rw [h] at this
  simp [c40Values] at this

/-- the values written so far, minus the last one (the last character will be re-encoded in ASCII) -/
theorem dec_drop_last (text : Bool) (body : List Nat) (hb : ByteList body) (p : Nat) (hp : p < body.length) :
    ∃ st', ∀ out, c40Values (tabs text).1 (tabs text).2
      ((W text body (p + 1)).take ((W text body (p + 1)).length - 1)) st0 out = .ok (st', out ++ body.take p) := by
  have hx : body[p] < 256 := hb _ (List.getElem_mem hp)
  have hne := vals_ne text body[p] hx
  have hlen : 0 < (c40Vals text body[p]).length := List.length_pos_iff.mpr hne
  obtain ⟨st, hst⟩ := prefix_ok text body[p] hx ((c40Vals text body[p]).length - 1) (by omega)
  refine ⟨st, fun out => ?_⟩
  rw [W_succ text body p hp]
  have : (W text body p ++ c40Vals text body[p]).length - 1 = (W text body p).length + ((c40Vals text body[p]).length - 1) := by
    simp only [List.length_append]; omega
  rw [this, List.take_append, Nat.add_sub_cancel_left, List.take_of_length_le (by omega), W_dec text body hb, hst]

theorem fill_ok (text : Bool) (pad : List Nat) (hp : pad = [0] ∨ pad = [1] ∨ pad = [1, 30]) :
    ∃ st, ∀ out, c40Values (tabs text).1 (tabs text).2 pad st0 out = .ok (st, out) := by
  rcases hp with rfl | rfl | rfl
  · exact ⟨{ shift := 1, upper := false }, fun out => by simp [c40Values, c40Value, st0]⟩
  · exact ⟨{ shift := 2, upper := false }, fun out => by simp [c40Values, c40Value, st0]⟩
  · exact ⟨{ shift := 0, upper := true }, fun out => by simp [c40Values, c40Value, st0]⟩

theorem sizeLeft_eq (s : St) (k sl : Nat) (h : s.sizeLeft k = some sl) :
    ∃ S, firstBigEnough s.list (s.cw.length + k) = some S ∧ dataCw S = s.cw.length + k + sl := by
  unfold St.sizeLeft at h
  cases hf : firstBigEnough s.list (s.cw.length + k) with
  | none => rw [hf] at h; cases h
  | some S =>
    rw [hf] at h
    simp only [Option.some.injEq] at h
    have := firstBigEnough_le _ _ _ hf
    exact ⟨S, rfl, by omega⟩

/-- the end of `handle_end` when all characters are consumed: UNLATCH if there is room, else exact fit -/
theorem finish_atEnd (text : Bool) (list : List Sym) (body : List Nat) (s1 s' : St) (V : List Nat) (n : Nat) (st' : CSt)
    (hVl : V.length = 3 * n) (hVlt : ∀ v ∈ V, v < 40)
    (hdec : ∀ out, c40Values (tabs text).1 (tabs text).2 V st0 out = .ok (st', out ++ body.take body.length))
    (hcw : s1.cw = latchOf text :: packTriples V) (hpos : s1.pos = body.length) (hin : s1.input = body)
    (hli : s1.list = list) (hnm : s1.newMode = none)
    (h : (match s1.sizeLeftE 0 with
      | .error e => .error e
      | .ok left => if left > 0 then .ok ((s1.push 254).setAscii) else .ok s1) = Except.ok s') :
    C40End text list body s' := by
  unfold St.sizeLeftE at h
  cases hsl : s1.sizeLeft 0 with
  | none => rw [hsl] at h; cases h
  | some left =>
    rw [hsl] at h
    simp only [] at h
    obtain ⟨S, hS, hScap⟩ := sizeLeft_eq s1 0 left hsl
    rw [hli] at hS
    by_cases hl : left > 0
    · rw [if_pos hl] at h
      simp only [Except.ok.injEq] at h
      subst h
      exact ⟨V, n, body.length, true, st', hVl, hVlt, hdec, Nat.le_refl _, by simp [St.push, St.setAscii, hcw],
        by simp [St.push, St.setAscii, hpos], by simp [St.push, St.setAscii, hin], by simp [St.push, St.setAscii, hli],
        by simp [St.push, St.setAscii, hnm], Or.inl ⟨rfl, rfl⟩, by simp⟩
    · rw [if_neg hl] at h
      simp only [Except.ok.injEq] at h
      subst h
      refine ⟨V, n, body.length, false, st', hVl, hVlt, hdec, Nat.le_refl _, by simp [hcw], hpos, hin, hli, hnm,
        Or.inr ⟨rfl, rfl⟩, fun _ => ?_⟩
      have hd : body.drop body.length = [] := List.drop_eq_nil_of_le (Nat.le_refl _)
      rw [hd]
      simp only [asciiSize, Nat.add_zero, Nat.zero_le, true_and]
      exact ⟨S, by simpa using hS, by omega⟩

theorem handleEnd_atEnd (text : Bool) (list : List Sym) (body : List Nat) (hb : ByteList body) (s s' : St)
    (buf : List Nat) (lastCh m : Nat) (inv : C40Inv text list body s buf lastCh m) (hend : s.hasMore = false)
    (h : c40HandleEnd s lastCh buf = .ok s') : C40End text list body s' := by
  have h1 := of_decide_eq_false hend
  rw [inv.input] at h1
  have hpos : s.pos = body.length := by have := inv.le; omega
  have hW : W text body s.pos = (W text body s.pos).take (3 * m) ++ buf := by
    rw [inv.bufEq, List.take_append_drop]
  have hWlen : (W text body s.pos).length = 3 * m + buf.length := by
    rw [inv.bufEq, List.length_drop]; have := inv.m3; omega
  have hWlt := W_lt text body hb s.pos
  have hbuflt : ∀ v ∈ buf, v < 40 := fun v hv => hWlt v (by rw [hW]; exact List.mem_append_right _ hv)
  have hVlt : ∀ v ∈ (W text body s.pos).take (3 * m), v < 40 := fun v hv => hWlt v (List.mem_of_mem_take hv)
  have hVlen : ((W text body s.pos).take (3 * m)).length = 3 * m := by rw [List.length_take]; have := inv.m3; omega
  have hcharsLeft : s.charsLeft = 0 := by simp [St.charsLeft, inv.input, hpos]
  unfold c40HandleEnd at h
  rw [if_neg (by have := inv.short; omega)] at h
  simp only [hend, Bool.not_false, ↓reduceIte, Bool.false_eq_true] at h
  unfold St.sizeLeftE at h
  cases hsl : s.sizeLeft buf.length with
  | none => rw [hsl] at h; cases h
  | some sl =>
    rw [hsl] at h
    simp only [] at h
    obtain ⟨S, hS, hScap⟩ := sizeLeft_eq s buf.length sl hsl
    rw [inv.list] at hS
    by_cases c1 : sl + buf.length = 2 ∧ buf.length = 2
    · -- two values left and exactly one codeword pair of room: fill with 0, no UNLATCH
      rw [if_pos c1] at h
      simp only [Except.ok.injEq] at h
      subst h
      match hbuf : buf, c1.2 with
      | [b0, b1], _ =>
        obtain ⟨w1, w2, w3, w4, w5, w6, w7⟩ := writeThree_cw s b0 b1 0 (hbuflt b0 (by simp)) (hbuflt b1 (by simp)) (by omega)
        obtain ⟨stf, hstf⟩ := fill_ok text [0] (Or.inl rfl)
        have hgd : writeThree s ([b0, b1].getD 0 0) ([b0, b1].getD 1 0) 0 = writeThree s b0 b1 0 := rfl
        rw [hgd]
        refine ⟨(W text body s.pos) ++ [0], m + 1, body.length, false, stf, by simp [hWlen]; omega, ?_, ?_, Nat.le_refl _,
          ?_, by rw [w2]; exact hpos, by rw [w3]; exact inv.input, by rw [w4]; exact inv.list, by rw [w7]; exact inv.newMode,
          Or.inr ⟨rfl, rfl⟩, fun _ => ?_⟩
        · intro v hv
          rcases List.mem_append.mp hv with hv | hv
          · exact hWlt v hv
          · simp only [List.mem_singleton] at hv; omega
        · intro out
          rw [W_dec text body hb, hstf, hpos]
        · simp only [Bool.false_eq_true, ↓reduceIte, List.append_nil]
          rw [w1, inv.cw]
          conv => rhs; rw [hW, List.append_assoc, packTriples_append m _ _ hVlen]
          simp [packTriples]
        · have hd : body.drop body.length = [] := List.drop_eq_nil_of_le (Nat.le_refl _)
          rw [hd]
          simp only [asciiSize, Nat.add_zero, Nat.zero_le, true_and]
          refine ⟨S, ?_, ?_⟩
          · rw [w1]; simp only [List.length_append, packTriples, List.length_cons, List.length_nil]
            simpa using hS
          · rw [w1]; simp only [List.length_append, packTriples, List.length_cons, List.length_nil]
            simp only [List.length_cons, List.length_nil] at hScap
            omega
    · rw [if_neg c1] at h
      have hW0 : W text body 0 = [] := by simp [W]
      have hpos1 : buf.length = 1 → 1 ≤ s.pos := by
        intro hb1
        by_cases h0 : s.pos = 0
        · rw [h0, hW0] at hWlen; simp at hWlen; omega
        · omega
      by_cases c2 : sl + buf.length = 2 ∧ buf.length = 1
      · -- one value left, room for UNLATCH + one codeword: drop the value, UNLATCH, last character in ASCII
        rw [if_pos c2] at h
        have hp1 := hpos1 c2.2
        have hbk : ((s.push 254).setAscii).backup 1 = .ok { (s.push 254).setAscii with pos := s.pos - 1 } := by
          unfold St.backup
          rw [if_pos (by simpa [St.push, St.setAscii] using hp1)]
          rfl
        rw [hbk] at h
        simp only [Except.ok.injEq] at h
        subst h
        have hp : s.pos - 1 < body.length := by omega
        obtain ⟨st', hdec⟩ := dec_drop_last text body hb (s.pos - 1) hp
        have hpp : s.pos - 1 + 1 = s.pos := by omega
        rw [hpp] at hdec
        have h3m : 3 * m = (W text body s.pos).length - 1 := by omega
        rw [← h3m] at hdec
        exact ⟨_, m, s.pos - 1, true, st', hVlen, hVlt, hdec, by omega, by simp [St.push, St.setAscii, inv.cw],
          rfl, by simp [St.push, St.setAscii, inv.input], by simp [St.push, St.setAscii, inv.list],
          by simp [St.push, St.setAscii, inv.newMode], Or.inl ⟨rfl, rfl⟩, by simp⟩
      · rw [if_neg c2] at h
        by_cases c3 : sl + buf.length = 1 ∧ buf.length = 1 ∧ asciiSize [lastCh] = 1
        · -- one value left, exactly one codeword of room, last character is one ASCII codeword: no UNLATCH
          rw [if_pos c3] at h
          have hp1 := hpos1 c3.2.1
          have hbk : s.setAscii.backup 1 = .ok { s.setAscii with pos := s.pos - 1 } := by
            unfold St.backup
            rw [if_pos (by simpa [St.setAscii] using hp1)]
            rfl
          rw [hbk] at h
          simp only [Except.ok.injEq] at h
          subst h
          have hp : s.pos - 1 < body.length := by omega
          obtain ⟨st', hdec⟩ := dec_drop_last text body hb (s.pos - 1) hp
          have hpp : s.pos - 1 + 1 = s.pos := by omega
          rw [hpp] at hdec
          have h3m : 3 * m = (W text body s.pos).length - 1 := by omega
          rw [← h3m] at hdec
          refine ⟨_, m, s.pos - 1, false, st', hVlen, hVlt, hdec, by omega, by simp [St.setAscii, inv.cw],
            rfl, by simp [St.setAscii, inv.input], by simp [St.setAscii, inv.list],
            by simp [St.setAscii, inv.newMode], Or.inl ⟨rfl, rfl⟩, fun _ => ?_⟩
          have hlast : lastCh = body[s.pos - 1] := by
            rw [inv.last (by omega)]
            simp [List.getD, List.getElem?_eq_getElem hp]
          have hdrop : body.drop (s.pos - 1) = [lastCh] := by
            rw [List.drop_eq_getElem_cons hp, ← hlast, List.drop_eq_nil_of_le (by omega)]
          simp only [St.setAscii, hdrop, c3.2.2]
          refine ⟨Nat.le_refl _, S, ?_, ?_⟩
          · rw [c3.2.1] at hS; exact hS
          · omega
        · rw [if_neg c3] at h
          simp only [] at h
          -- fill the last triple (if any values are left), then UNLATCH if there is room
          match hbuf : buf, inv.short with
          | [], _ =>
            simp only [List.isEmpty_nil, Bool.not_true, Bool.false_eq_true, ↓reduceIte, hcharsLeft, Nat.lt_irrefl] at h
            have hV : (W text body s.pos).take (3 * m) = W text body s.pos := by
              have := hW
              rw [List.append_nil] at this
              exact this.symm
            refine finish_atEnd text list body s s' _ m st0 hVlen hVlt ?_ inv.cw hpos inv.input inv.list inv.newMode ?_
            · intro out
              rw [hV]
              have := W_dec text body hb s.pos [] out
              simp only [List.append_nil, c40Values] at this
              rw [this, hpos]
            · exact h
          | [b0], _ =>
            obtain ⟨w1, w2, w3, w4, w5, w6, w7⟩ := writeThree_cw s b0 1 30 (hbuflt b0 (by simp)) (by omega) (by omega)
            obtain ⟨stf, hstf⟩ := fill_ok text [1, 30] (Or.inr (Or.inr rfl))
            have hcl : ((writeThree s b0 1 30).setAscii).charsLeft = 0 := by
              simp [St.charsLeft, St.setAscii, w2, w3, inv.input, hpos]
            simp only [List.isEmpty_cons, Bool.not_false, ↓reduceIte, List.cons_append, List.nil_append, List.length_cons,
              List.length_nil, List.getD_cons_zero, List.getD_cons_succ, Bool.false_eq_true, Nat.reduceAdd, hcl,
              Nat.lt_irrefl] at h
            refine finish_atEnd text list body _ s' (W text body s.pos ++ [1, 30]) (m + 1) stf (by simp [hWlen]; omega) ?_ ?_ ?_
              (by simp [St.setAscii, w2, hpos]) (by simp [St.setAscii, w3, inv.input]) (by simp [St.setAscii, w4, inv.list])
              (by simp [St.setAscii, w7, inv.newMode]) h
            · intro v hv
              rcases List.mem_append.mp hv with hv | hv
              · exact hWlt v hv
              · simp only [List.mem_cons, List.not_mem_nil, or_false] at hv; omega
            · intro out
              rw [W_dec text body hb, hstf, hpos]
            · simp only [St.setAscii]
              rw [w1, inv.cw]
              conv => rhs; rw [hW, List.append_assoc, packTriples_append m _ _ hVlen]
              simp [packTriples]
          | [b0, b1], _ =>
            obtain ⟨w1, w2, w3, w4, w5, w6, w7⟩ := writeThree_cw s b0 b1 1 (hbuflt b0 (by simp)) (hbuflt b1 (by simp)) (by omega)
            obtain ⟨stf, hstf⟩ := fill_ok text [1] (Or.inr (Or.inl rfl))
            have hcl : ((writeThree s b0 b1 1).setAscii).charsLeft = 0 := by
              simp [St.charsLeft, St.setAscii, w2, w3, inv.input, hpos]
            simp only [List.isEmpty_cons, Bool.not_false, ↓reduceIte, List.cons_append, List.nil_append, List.length_cons,
              List.length_nil, List.getD_cons_zero, List.getD_cons_succ, Bool.false_eq_true, Nat.reduceAdd, hcl,
              Nat.lt_irrefl, Nat.reduceEqDiff] at h
            refine finish_atEnd text list body _ s' (W text body s.pos ++ [1]) (m + 1) stf (by simp [hWlen]; omega) ?_ ?_ ?_
              (by simp [St.setAscii, w2, hpos]) (by simp [St.setAscii, w3, inv.input]) (by simp [St.setAscii, w4, inv.list])
              (by simp [St.setAscii, w7, inv.newMode]) h
            · intro v hv
              rcases List.mem_append.mp hv with hv | hv
              · exact hWlt v hv
              · simp only [List.mem_singleton] at hv; omega
            · intro out
              rw [W_dec text body hb, hstf, hpos]
            · simp only [St.setAscii]
              rw [w1, inv.cw]
              conv => rhs; rw [hW, List.append_assoc, packTriples_append m _ _ hVlen]
              simp [packTriples]
          | _ :: _ :: _ :: _, hs => simp at hs

/-- `handle_end` reached with an empty buffer and exactly two digits left: they go to ASCII as one pair -/
theorem handleEnd_digits (text : Bool) (list : List Sym) (body : List Nat) (hb : ByteList body) (s s' : St)
    (lastCh m : Nat) (inv : C40Inv text list body s [] lastCh m) (hcl : s.charsLeft = 2)
    (htd : twoDigitsComing s.rest = true) (h : c40HandleEnd s lastCh [] = .ok s') : C40End text list body s' := by
  have hmore : s.hasMore = true := by
    simp only [St.hasMore, St.charsLeft] at hcl ⊢
    simp; omega
  have hWlen : (W text body s.pos).length = 3 * m := by
    have := inv.bufEq
    have h2 := congrArg List.length this
    simp only [List.length_nil, List.length_drop] at h2
    have := inv.m3; omega
  have hV : (W text body s.pos).take (3 * m) = W text body s.pos := List.take_of_length_le (by omega)
  unfold c40HandleEnd at h
  simp only [List.length_nil, Nat.not_lt_zero, ↓reduceIte, hmore, Bool.not_true, Bool.false_eq_true, List.isEmpty_nil,
    hcl, Nat.lt_add_one, Nat.zero_lt_succ, htd, and_self, gt_iff_lt, Nat.reduceLT] at h
  unfold St.sizeLeftE at h
  cases hsl : s.sizeLeft 1 with
  | none => rw [hsl] at h; cases h
  | some sp =>
    rw [hsl] at h
    simp only [Except.ok.injEq] at h
    obtain ⟨S, hS, hScap⟩ := sizeLeft_eq s 1 sp hsl
    rw [inv.list] at hS
    have hdec : ∀ out, c40Values (tabs text).1 (tabs text).2 (W text body s.pos) st0 out = .ok (st0, out ++ body.take s.pos) := by
      intro out
      have := W_dec text body hb s.pos [] out
      simp only [List.append_nil, c40Values] at this
      exact this
    have hasz : asciiSize (body.drop s.pos) = 1 := by
      have hr : s.rest = body.drop s.pos := by simp [St.rest, inv.input]
      rw [← hr]
      have hl : s.rest.length = 2 := by rw [hr, List.length_drop]; simp only [St.charsLeft, inv.input] at hcl; exact hcl
      match hrr : s.rest, hl, htd with
      | [a, b], _, htd =>
        simp only [twoDigitsComing] at htd
        simp [asciiSize, htd]
    by_cases hsp : sp ≥ 1
    · rw [if_pos hsp] at h
      subst h
      exact ⟨W text body s.pos, m, s.pos, true, st0, hWlen, W_lt text body hb s.pos, hdec, inv.le,
        by simp [St.push, St.setAscii, inv.cw, hV], rfl, by simp [St.push, St.setAscii, inv.input],
        by simp [St.push, St.setAscii, inv.list], by simp [St.push, St.setAscii, inv.newMode], Or.inl ⟨rfl, rfl⟩, by simp⟩
    · rw [if_neg hsp] at h
      subst h
      refine ⟨W text body s.pos, m, s.pos, false, st0, hWlen, W_lt text body hb s.pos, hdec, inv.le,
        by simp [St.setAscii, inv.cw, hV], rfl, by simp [St.setAscii, inv.input],
        by simp [St.setAscii, inv.list], by simp [St.setAscii, inv.newMode], Or.inl ⟨rfl, rfl⟩, fun _ => ?_⟩
      rw [hasz]
      exact ⟨Nat.le_refl _, S, by simpa [St.setAscii] using hS, by simp only [St.setAscii]; omega⟩

theorem take_len_add (A B : List Nat) (k : Nat) : (A ++ B).take (A.length + k) = A ++ B.take k := by
  induction A with
  | nil => simp
  | cons a t ih => simp only [List.cons_append, List.length_cons]; rw [show t.length + 1 + k = (t.length + k) + 1 by omega]; simp [ih]

theorem drop_len_add (A B : List Nat) (k : Nat) : (A ++ B).drop (A.length + k) = B.drop k := by
  induction A with
  | nil => simp
  | cons a t ih => simp only [List.cons_append, List.length_cons]; rw [show t.length + 1 + k = (t.length + k) + 1 by omega]; simp [ih]

theorem c40Loop_spec (text : Bool) (list : List Sym) (body : List Nat) (hb : ByteList body) :
    ∀ (n f : Nat) (s : St) (buf : List Nat) (lastCh m : Nat) (s' : St), body.length - s.pos = n → n < f →
      C40Inv text list body s buf lastCh m → c40Loop text f s buf lastCh = .ok s' → C40End text list body s' := by
  intro n
  induction n with
  | zero =>
    intro f s buf lastCh m s' hn hf inv h
    cases f with
    | zero => omega
    | succ f =>
      unfold c40Loop at h
      have hmore : s.hasMore = false := by
        simp only [St.hasMore, inv.input]
        have := inv.le
        simp; omega
      have hnone : s.eat = none := by
        simp only [St.eat]
        rw [List.getElem?_eq_none (by rw [inv.input]; have := inv.le; omega)]
      rw [hnone] at h
      exact handleEnd_atEnd text list body hb s s' buf lastCh m inv hmore h
  | succ n ih =>
    intro f s buf lastCh m s' hn hf inv h
    cases f with
    | zero => omega
    | succ f =>
      unfold c40Loop at h
      have hlt : s.pos < body.length := by omega
      have he : s.eat = some (body[s.pos], { s with pos := s.pos + 1 }) := by
        simp only [St.eat]
        rw [List.getElem?_eq_getElem (by rw [inv.input]; exact hlt)]
        simp [inv.input]
      rw [he] at h
      simp only [] at h
      have hchlt : body[s.pos] < 256 := hb _ (List.getElem_mem hlt)
      -- the ordinary step: values of the character, complete triples flushed
      have normal : (match toVals text buf body[s.pos] with
          | .error e => .error e
          | .ok buf1 =>
            let (s2, buf2) := flushTriples 3 { s with pos := s.pos + 1 } buf1
            match s2.maybeSwitch with
            | .error e => .error e
            | .ok (true, s3) => c40HandleEnd s3 body[s.pos] buf2
            | .ok (false, s3) => c40Loop text f s3 buf2 body[s.pos]) = Except.ok s' → C40End text list body s' := by
        intro h
        rw [toVals_eq text buf body[s.pos] hchlt] at h
        by_cases hcap : (buf ++ c40Vals text body[s.pos]).length > 6
        · rw [if_pos hcap] at h
          cases h
        · rw [if_neg hcap] at h
          simp only [] at h
          have hWlt := W_lt text body hb (s.pos + 1)
          have hWs : W text body (s.pos + 1) = W text body s.pos ++ c40Vals text body[s.pos] := W_succ text body s.pos hlt
          have hWsplit : W text body s.pos = (W text body s.pos).take (3 * m) ++ buf := by
            rw [inv.bufEq, List.take_append_drop]
          have hW' : W text body (s.pos + 1) = (W text body s.pos).take (3 * m) ++ (buf ++ c40Vals text body[s.pos]) := by
            rw [hWs]
            conv => lhs; rw [hWsplit]
            rw [List.append_assoc]
          have hVlen : ((W text body s.pos).take (3 * m)).length = 3 * m := by
            rw [List.length_take]; have := inv.m3; omega
          have hb1lt : ∀ v ∈ buf ++ c40Vals text body[s.pos], v < 40 := by
            intro v hv
            exact hWlt v (by rw [hW']; exact List.mem_append_right _ hv)
          obtain ⟨k, k1, k2, k3⟩ := flush_spec 3 { s with pos := s.pos + 1 } (buf ++ c40Vals text body[s.pos])
            (by omega) hb1lt
          rw [k3] at h
          simp only [] at h
          have inv' : C40Inv text list body
              { { s with pos := s.pos + 1 } with cw := s.cw ++ packTriples ((buf ++ c40Vals text body[s.pos]).take (3 * k)) }
              ((buf ++ c40Vals text body[s.pos]).drop (3 * k)) body[s.pos] (m + k) := by
            refine ⟨inv.input, inv.list, inv.mode, inv.plan, inv.newMode, by simp only []; omega, ?_, ?_, ?_, ?_, ?_⟩
            · simp only []
              rw [hW', List.length_append, hVlen]
              omega
            · simp only []
              rw [hW']
              have : 3 * (m + k) = ((W text body s.pos).take (3 * m)).length + 3 * k := by rw [hVlen]; omega
              rw [this, drop_len_add]
            · rw [List.length_drop]; omega
            · simp only []
              rw [inv.cw, hW']
              have : 3 * (m + k) = ((W text body s.pos).take (3 * m)).length + 3 * k := by rw [hVlen]; omega
              rw [this, take_len_add, packTriples_append m _ _ hVlen]
              simp
            · intro _
              simp [List.getD, List.getElem?_eq_getElem hlt]
          rw [maybeSwitch_pure _ (modeOf text) inv'.plan inv'.mode] at h
          simp only [] at h
          exact ih f _ _ _ (m + k) s' (by simp only []; omega) (by omega) inv' h
      have hrest1 : ({ s with pos := s.pos + 1 } : St).rest = body.drop (s.pos + 1) := by simp [St.rest, inv.input]
      split at h
      · rename_i d hr
        rw [hrest1] at hr
        by_cases hc : (buf.isEmpty && isDigit body[s.pos] && isDigit d) = true
        · -- empty buffer and only two digits remain
          rw [if_pos hc] at h
          simp only [Bool.and_eq_true] at hc
          obtain ⟨⟨hbe, hd1⟩, hd2⟩ := hc
          have hb0 : buf = [] := by simpa using hbe
          subst hb0
          have hbk : ({ s with pos := s.pos + 1 } : St).backup 1 = .ok s := by
            unfold St.backup
            rw [if_pos (by simp)]
            simp
          rw [hbk] at h
          simp only [] at h
          have hlen2 : body.length = s.pos + 2 := by
            have := congrArg List.length hr
            simp only [List.length_drop, List.length_singleton] at this
            omega
          have hcl : s.charsLeft = 2 := by simp [St.charsLeft, inv.input]; omega
          have htd : twoDigitsComing s.rest = true := by
            have : s.rest = [body[s.pos], d] := by
              simp only [St.rest, inv.input]
              rw [List.drop_eq_getElem_cons hlt, hr]
            rw [this]
            simp [twoDigitsComing, hd1, hd2]
          exact handleEnd_digits text list body hb s s' lastCh m inv hcl htd h
        · rw [if_neg hc] at h
          exact normal h
      · simp only [Bool.and_false, Bool.false_eq_true, ↓reduceIte] at h
        exact normal h

/-! ### the whole run -/

def c0 (text : Bool) (list : List Sym) (body : List Nat) : St :=
  { input := body, pos := 0, mode := .ascii, plan := [(body.length, modeOf text), (0, modeOf text)], newMode := none,
    cw := [], list := list }

def c1 (text : Bool) (list : List Sym) (body : List Nat) : St :=
  { input := body, pos := 0, mode := modeOf text, plan := [(0, modeOf text)], newMode := some (latchOf text),
    cw := [], list := list }

def cL (text : Bool) (list : List Sym) (body : List Nat) : St :=
  { input := body, pos := 0, mode := modeOf text, plan := [(0, modeOf text)], newMode := none,
    cw := [latchOf text], list := list }

theorem c_iter1 (text : Bool) (list : List Sym) (body : List Nat) (hne : body ≠ []) (f : Nat) :
    asciiLoop (f + 1) (c0 text list body) = .ok (c1 text list body) := by
  have hpos : 0 < body.length := List.length_pos_iff.mpr hne
  rw [asciiLoop]
  have : (c0 text list body).maybeSwitch = .ok (true, c1 text list body) := by
    cases text <;>
    simp only [St.maybeSwitch, c0, c1, modeOf, latchOf, St.charsLeft, Nat.sub_zero, Nat.lt_irrefl, ↓reduceIte, hpos,
      and_self, ne_eq, reduceCtorEq, not_false_eq_true, EMode.latch, Bool.false_eq_true]
  rw [this]

theorem addPadding_exact (cw : List Nat) (b : Bool) (cap : Nat) (h : cw.length = cap) : addPadding cw b cap = some cw := by
  unfold addPadding
  rw [if_neg (by omega)]
  simp [h]

theorem pure_c40_roundtrip (text : Bool) (list : List Sym) (body cw : List Nat) (sym : Sym) (hb : ByteList body)
    (h : run list [] body [(body.length, modeOf text), (0, modeOf text)] = .ok (cw, sym)) : decodeData cw = .ok body := by
  by_cases hne : body = []
  · subst hne
    have : run list [] [] [(([] : List Nat).length, modeOf text), (0, modeOf text)] = run list [] [] [(0, .ascii)] := by
      unfold run
      simp only [List.length_nil]
      rw [Enc.mainLoop, Enc.mainLoop]
      simp [St.hasMore]
    rw [this] at h
    obtain ⟨hle, hcw⟩ := run_ascii list [] cw sym h
    rw [hcw]
    exact decodeData_ascii [] hb (dataCw sym) hle
  obtain ⟨sE, hmain, hsym, hpad⟩ := run_unfold list body _ cw sym h
  have hlen : 0 < body.length := List.length_pos_iff.mpr hne
  have hs0 : (c0 text list body).hasMore = true := by simp [St.hasMore, c0, hlen]
  obtain ⟨s1, k1, he1, hm1⟩ := mainLoop_step (2 * body.length + 7) (c0 text list body) sE 0 hmain hs0
  have hl0 : latched (c0 text list body) = c0 text list body := rfl
  rw [hl0] at he1
  have hmode0 : (c0 text list body).mode = .ascii := rfl
  simp only [encodeMode, hmode0] at he1
  rw [c_iter1 text list body hne (St.charsLeft (c0 text list body) + 1)] at he1
  simp only [Except.ok.injEq] at he1
  subst he1
  obtain ⟨s3, k2, he2, hm2⟩ := mainLoop_step (2 * body.length + 6) _ sE k1 hm1 (by simp [St.hasMore, c1, hlen])
  have hl1 : latched (c1 text list body) = cL text list body := rfl
  rw [hl1] at he2
  have hloop : c40Loop text ((cL text list body).charsLeft + 2) (cL text list body) [] 0 = .ok s3 := by
    cases text <;> simpa [encodeMode, cL, modeOf, c40Encode] using he2
  have inv0 : C40Inv text list body (cL text list body) [] 0 0 :=
    ⟨rfl, rfl, rfl, rfl, rfl, Nat.zero_le _, by simp, by simp [W, cL], by simp, by simp [W, cL, packTriples], by simp [cL]⟩
  obtain ⟨V, n, p, un, st', hVl, hVlt, hdec, hp, hcw3, hpos3, hin3, hli3, hnm3, hmode3, hexact⟩ :=
    (c40Loop_spec text list body hb body.length _ (cL text list body) [] 0 0 s3 (by simp [cL]) (by simp [St.charsLeft, cL])
      inv0 hloop).out
  have hbeq : (EMode.ascii == EMode.ascii) = true := by decide
  have hsplit : body.take p ++ body.drop p = body := List.take_append_drop _ _
  have hrest : ByteList (body.drop p) := hb.drop _
  have hseg := asciiSeg_asciiEnc _ hrest
  have haszlen : (asciiEnc (body.drop p)).length = asciiSize (body.drop p) := asciiEnc_length _ _ (Nat.le_refl _)
  -- the rest (at most two characters) goes to ASCII
  have hE : sE.cw = s3.cw ++ asciiEnc (body.drop p) ∧ (un = true → sE.mode = .ascii) := by
    by_cases hmore : s3.hasMore = true
    · have hasc : s3.mode = .ascii ∧ s3.plan = [(0, .ascii)] := by
        rcases hmode3 with hA | ⟨hB, _⟩
        · exact hA
        · exfalso
          have := of_decide_eq_true hmore
          rw [hpos3, hin3, hB] at this
          omega
      obtain ⟨s4, k3, he3, hm3⟩ := mainLoop_step (2 * body.length + 5) _ sE k2 hm2 hmore
      have hl3 : latched s3 = s3 := by simp [latched, hnm3]
      rw [hl3] at he3
      simp only [encodeMode, hasc.1] at he3
      rw [asciiLoop_rest s3 hasc.2 hasc.1 (by rw [hpos3, hin3]; exact hp)] at he3
      simp only [Except.ok.injEq] at he3
      subst he3
      rw [mainLoop_end _ _ _ (by simp [St.hasMore])] at hm3
      simp only [Except.ok.injEq] at hm3
      subst hm3
      exact ⟨by simp [St.rest, hpos3, hin3], fun _ => hasc.1⟩
    · have hmf : s3.hasMore = false := by simpa using hmore
      rw [mainLoop_end _ _ _ hmf] at hm2
      simp only [Except.ok.injEq] at hm2
      subst hm2
      have hnil : body.drop p = [] := by
        have := of_decide_eq_false hmf
        rw [hpos3, hin3] at this
        exact List.drop_eq_nil_of_le (by omega)
      refine ⟨by simp [hnil, asciiEnc], fun hu => ?_⟩
      rcases hmode3 with hA | ⟨_, hB⟩
      · exact hA.1
      · rw [hu] at hB; cases hB
  obtain ⟨e1c, e2c⟩ := hE
  rw [e1c] at hsym hpad
  cases un with
  | true =>
    rw [e2c rfl] at hpad
    have hcap := firstBigEnough_le list _ sym hsym
    rw [hbeq, addPadding_ascii_pads _ _ hcap] at hpad
    simp only [Option.some.injEq] at hpad
    subst hpad
    obtain ⟨ef, hpads⟩ := DM.Props.C04.decRun_pads (s3.cw ++ asciiEnc (body.drop p)).length
      (dataCw sym - (s3.cw ++ asciiEnc (body.drop p)).length) body []
    have hpadhead : (DM.Props.C04.padsOf (s3.cw ++ asciiEnc (body.drop p)).length
        (dataCw sym - (s3.cw ++ asciiEnc (body.drop p)).length)).head? ≠ some 254 := by
      unfold DM.Props.C04.padsOf
      split <;> simp
    have hl3 : (s3.cw ++ asciiEnc (body.drop p)).length = 0 + (1 + 2 * n + 1) + (asciiEnc (body.drop p)).length := by
      rw [hcw3]
      have := packTriples_length n V hVl
      simp [this]; omega
    generalize DM.Props.C04.padsOf (s3.cw ++ asciiEnc (body.drop p)).length
      (dataCw sym - (s3.cw ++ asciiEnc (body.drop p)).length) = P at hpads hpadhead ⊢
    rw [hl3] at hpads
    apply decodeData_of_decRun _ body ef
    · rw [hcw3]; intro c hc; cases text <;> simp [latchOf] at hc <;> omega
    · rw [hcw3]
      have htail : TripleTail true (asciiEnc (body.drop p) ++ P) := by
        refine ⟨?_, by simp⟩
        cases hx : asciiEnc (body.drop p) with
        | nil => simpa using hpadhead
        | cons x xs =>
          simp only [List.cons_append, List.head?_cons, ne_eq, Option.some.injEq]
          exact (hseg.1 x (by rw [hx]; simp)).1
      have := seg_c40_vals text V (body.take p) st' n hVl hVlt hdec true _ htail 0 []
      simp only [↓reduceIte, List.nil_append, latchOf, List.append_assoc, List.singleton_append, List.cons_append] at this ⊢
      rw [this, decRun_asciiSeg hseg, hsplit]
      exact hpads
  | false =>
    obtain ⟨hasz1, S, hS, hScap⟩ := hexact rfl
    have hl2 : (s3.cw ++ asciiEnc (body.drop p)).length = s3.cw.length + asciiSize (body.drop p) := by simp [haszlen]
    rw [hl2, hS] at hsym
    simp only [Option.some.injEq] at hsym
    subst hsym
    rw [addPadding_exact _ _ _ (by rw [hl2]; exact hScap.symm)] at hpad
    simp only [Option.some.injEq] at hpad
    subst hpad
    apply decodeData_of_decRun _ body (0 + (1 + 2 * n + 0) + (asciiEnc (body.drop p)).length)
    · rw [hcw3]; intro c hc; cases text <;> simp [latchOf] at hc <;> omega
    · rw [hcw3]
      have htail : TripleTail false (asciiEnc (body.drop p)) := by
        refine ⟨?_, fun _ => by omega⟩
        cases hx : asciiEnc (body.drop p) with
        | nil => simp
        | cons x xs =>
          simp only [List.head?_cons, ne_eq, Option.some.injEq]
          exact (hseg.1 x (by rw [hx]; simp)).1
      have := seg_c40_vals text V (body.take p) st' n hVl hVlt hdec false _ htail 0 []
      simp only [Bool.false_eq_true, ↓reduceIte, List.nil_append, latchOf, List.append_nil, List.singleton_append,
        List.cons_append] at this ⊢
      rw [this]
      have h2 := decRun_asciiSeg hseg [] (0 + (1 + 2 * n + 0)) (body.take p)
      simp only [List.append_nil] at h2
      rw [h2, decRun_nil _ _ rfl, hsplit]

end DM.Lemmas.C40RT
