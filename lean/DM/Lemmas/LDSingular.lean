import DM.Lemmas.LDRegular
import Mathlib.Algebra.BigOperators.Group.Finset.Sigma
/-
The algebra of the singular case of the Levinson–Durbin iteration.
-/
namespace DM.Lemmas.LD
set_option linter.unusedSimpArgs false
set_option linter.unusedVariables false
open DM.Model DM.Model.RS DM.Lemmas DM.Lemmas.RSTotal

variable {A : String → Prop}

/-- row `i` of the (infinite) Hankel matrix applied to `[w, 1]` -/
def tau (syn w : List Nat) (v i : Nat) : GF := H syn i (v + 1) (V (w ++ [1]))

/-- `[w, 1]` placed at offset `off` -/
def Psh (w : List Nat) (off q : Nat) : GF := if off ≤ q then V (w ++ [1]) (q - off) else 0

theorem H_sum (syn : List Nat) (a L k : Nat) (g : Nat → Nat → GF) :
    H syn a L (fun q => ∑ i ∈ Finset.range k, g i q) = ∑ i ∈ Finset.range k, H syn a L (g i) := by
  unfold H
  rw [Finset.sum_comm]
  exact Finset.sum_congr rfl fun j _ => Finset.mul_sum _ _ _

theorem H_Psh (syn w : List Nat) (v r M off : Nat) (hw : w.length = v) (hM : off + (v + 1) ≤ M) :
    H syn r M (Psh w off) = tau syn w v (r + off) := by
  obtain ⟨L, rfl⟩ : ∃ L, M = off + L := ⟨M - off, by omega⟩
  unfold Psh tau
  rw [H_shift]
  exact H_extend syn _ (v + 1) L _ (by omega) (fun j hj => V_of_ge (by lens))

/-- the step `w^k → w^{k+1}` -/
theorem tk_step (syn w y tk tk' : List Nat) (v k : Nat) (rho eta : GF) (hv : 1 ≤ v)
    (h3 : Eq3 syn v y) (h4 : Eq4 syn v w)
    (hTK : ∀ i, i < v → H syn i v (V tk) = V syn (v + k + i))
    (hrho : rho = V syn (2 * v + k) + H syn v v (V tk)) (heta : eta = V tk (v - 1))
    (hTK' : ∀ j, j < v → V tk' j = (if j = 0 then 0 else V tk (j - 1)) + (rho * V y j + eta * V w j)) :
    ∀ i, i < v → H syn i v (V tk') = V syn (v + (k + 1) + i) := by
  obtain ⟨u, rfl⟩ : ∃ u, v = u + 1 := ⟨v - 1, by omega⟩
  intro i hi
  rw [H_congr hTK', H_add, H_add, H_smul, H_smul, H_shift_one, h3 i hi, h4 i hi]
  have hs : H syn (i + 1) (u + 1) (V tk) = H syn (i + 1) u (V tk) + V syn (i + 1 + u) * V tk u :=
    H_succ _ _ _ _
  simp only [Nat.add_sub_cancel] at heta ⊢
  by_cases hl : i = u
  · subst hl
    rw [if_pos rfl]
    rw [show i + 1 + (k + 1) + i = 2 * (i + 1) + k by omega, show i + 1 + i = i + 1 + i from rfl]
    rw [hs] at hrho
    rw [← heta] at hrho
    linear_combination hrho + (eta * V syn (i + 1 + i) + H syn (i + 1) i (V tk)) * two_eq_zero
  · rw [if_neg hl]
    have := hTK (i + 1) (by omega)
    rw [hs, ← heta] at this
    rw [show u + 1 + (k + 1) + i = u + 1 + k + (i + 1) by omega,
      show u + 1 + i = i + 1 + u by omega]
    linear_combination this

theorem sing_eq3 (syn w y' : List Nat) (v n : Nat) (sInv : GF) (hw : w.length = v) (hvn : v ≤ n)
    (hY : ∀ j, V y' j = V (w ++ [1]) j * sInv)
    (hτ : ∀ i, i < n → tau syn w v i = 0) (hn : tau syn w v n * sInv = 1) :
    Eq3 syn (n + 1) y' := by
  intro i hi
  rw [H_congr (fun j _ => hY j), H_smul_right, Nat.add_sub_cancel,
    H_extend syn i (v + 1) (n + 1) _ (by omega) (fun j hj => V_of_ge (by lens))]
  by_cases h : i = n
  · subst h; rw [if_pos rfl]; exact hn
  · rw [if_neg h]
    have := hτ i (by omega)
    unfold tau at this
    rw [this, zero_mul]

theorem sing_eq4 (syn w tk tw : List Nat) (v m : Nat) (Γ : Nat → GF) (hw : w.length = v)
    (htk : tk.length = v)
    (hTK : ∀ i, i < v → H syn i v (V tk) = V syn (v + m + 1 + i))
    (hτ : ∀ i, i < m + v → tau syn w v i = 0)
    (hΓ : ∀ i, i < m + 1 → ∑ j ∈ Finset.range (i + 1), tau syn w v (m + v + i - j) * Γ j
      = V syn (m + v + v + 1 + i) + H syn (v + i) v (V tk))
    (hTW : ∀ q, V tw q = V tk q + ∑ i' ∈ Finset.range (m + 1), Γ i' * Psh w (m - i') q) :
    Eq4 syn (m + v + 1) tw := by
  intro r hr
  have e0 : H syn r (m + v + 1) (V tw) = H syn r v (V tk)
      + ∑ i' ∈ Finset.range (m + 1), Γ i' * tau syn w v (r + (m - i')) := by
    rw [H_congr (fun q _ => hTW q), H_add, H_sum,
      H_extend syn r v (m + v + 1) _ (by omega) (fun j hj => V_of_ge (by omega))]
    congr 1
    apply Finset.sum_congr rfl
    intro i' hi'
    have := Finset.mem_range.mp hi'
    rw [H_smul, H_Psh syn w v r _ _ hw (by omega)]
  rw [e0]
  by_cases hlt : r < v
  · rw [hTK r hlt, Finset.sum_eq_zero, add_zero]
    · congr 1; omega
    · intro i' hi'
      have := Finset.mem_range.mp hi'
      rw [hτ _ (by omega), mul_zero]
  · obtain ⟨i, rfl⟩ : ∃ i, r = v + i := ⟨r - v, by omega⟩
    have hi : i < m + 1 := by omega
    have e1 : ∑ i' ∈ Finset.range (m + 1), Γ i' * tau syn w v (v + i + (m - i'))
        = ∑ j ∈ Finset.range (i + 1), tau syn w v (m + v + i - j) * Γ j := by
      rw [← Finset.sum_subset (s₁ := Finset.range (i + 1))]
      · apply Finset.sum_congr rfl
        intro j hj
        have := Finset.mem_range.mp hj
        rw [show v + i + (m - j) = m + v + i - j by omega]
        ring
      · intro x hx; exact Finset.mem_range.mpr (by have := Finset.mem_range.mp hx; omega)
      · intro x hx hx'
        have h1 := Finset.mem_range.mp hx
        have h2 : ¬ x < i + 1 := fun h => hx' (Finset.mem_range.mpr h)
        rw [hτ _ (by omega), mul_zero]
    rw [e1, hΓ i hi, show m + v + 1 + (v + i) = m + v + v + 1 + i by omega]
    linear_combination H syn (v + i) v (V tk) * two_eq_zero


/-! ### the lists of the singular case -/

theorem zipIdx_swap (gam : List Nat) :
    gam.zipIdx.map (fun p => (p.2, p.1)) = (List.range gam.length).map (fun i => (i, gam.getD i 0)) := by
  apply List.ext_getElem?
  intro i
  simp only [List.getElem?_map, List.getElem?_zipIdx, Option.map_map, List.getD_eq_getElem?_getD]
  by_cases h : i < gam.length
  · rw [List.getElem?_range h, List.getElem?_eq_getElem h]
    simp [h]
  · rw [List.getElem?_eq_none (by omega), List.getElem?_eq_none (by simp only [List.length_range]; omega)]
    rfl

theorem V_replicate_zero (k j : Nat) : V (List.replicate k 0) j = 0 := by
  unfold V
  rw [List.getD_eq_getElem?_getD, List.getElem?_replicate]
  split <;> rfl

theorem V_dropLast (l : List Nat) (j : Nat) (h : j + 1 < l.length) : V l.dropLast j = V l j := by
  unfold V
  rw [List.dropLast_eq_take, getD_take', if_pos (by omega)]

/-- the model's new `y` -/
def singY (w : List Nat) (n sInv : Nat) : List Nat :=
  (List.range (n + 1)).map fun i =>
    if i < w.length then gmul (w.getD i 0) sInv else if i = w.length then sInv else 0

theorem singY_V (w : List Nat) (v n sInv : Nat) (hw : w.length = v) (hn : v ≤ n) (hbw : Bytes w)
    (hs : sInv < 256) (j : Nat) :
    V (singY w n sInv) j = V (w ++ [1]) j * GF.ofNat sInv := by
  unfold singY
  rw [V_map_range, V_tmp, hw]
  by_cases h1 : j < v
  · rw [if_pos (by omega), if_pos h1, if_pos h1, GF.ofNat_gmul (getD_lt hbw j) hs]; rfl
  · by_cases h2 : j = v
    · rw [if_pos (by omega), if_neg h1, if_pos h2, if_neg h1, if_pos h2, one_mul]
    · rw [if_neg h1, if_neg h2, if_neg h1, if_neg h2, zero_mul]
      split <;> rfl

theorem singY_bytes (w : List Nat) (n sInv : Nat) (hs : sInv < 256) : Bytes (singY w n sInv) := by
  unfold singY
  apply bytes_map_range
  intro j _
  split
  · exact gmul_lt' _ _
  · split <;> omega

/-- one pass of the model's `w` update: add `gi · [w, 1]` at offset `off` -/
def twStep (w tw : List Nat) (v off gi : Nat) : List Nat :=
  let tw1 := (List.range tw.length).map fun q =>
    if q ≥ off ∧ q - off < w.length then gadd (tw.getD q 0) (gmul gi (w.getD (q - off) 0))
    else tw.getD q 0
  tw1.set (off + v) (gadd (tw1.getD (off + v) 0) gi)

theorem twStep_length (w tw : List Nat) (v off gi : Nat) : (twStep w tw v off gi).length = tw.length := by
  unfold twStep; lens

theorem twStep_bytes (w tw : List Nat) (v off gi : Nat) (hbt : Bytes tw) (hg : gi < 256) :
    Bytes (twStep w tw v off gi) := by
  unfold twStep
  have : Bytes ((List.range tw.length).map fun q =>
      if q ≥ off ∧ q - off < w.length then gadd (tw.getD q 0) (gmul gi (w.getD (q - off) 0))
      else tw.getD q 0) := by
    apply bytes_map_range
    intro j _
    split
    · exact xor_lt_256 (getD_lt hbt j) (gmul_lt' _ _)
    · exact getD_lt hbt j
  exact bytes_set this _ _ (xor_lt_256 (getD_lt this _) hg)

theorem twStep_V (w tw : List Nat) (v off gi : Nat) (hw : w.length = v) (hbw : Bytes w)
    (hbt : Bytes tw) (hg : gi < 256) (hoff : off + v < tw.length) (q : Nat) :
    V (twStep w tw v off gi) q = V tw q + GF.ofNat gi * Psh w off q := by
  subst hw
  have h1 : ∀ q, V ((List.range tw.length).map fun q =>
      if q ≥ off ∧ q - off < w.length then gadd (tw.getD q 0) (gmul gi (w.getD (q - off) 0))
      else tw.getD q 0) q
      = V tw q + (if off ≤ q ∧ q - off < w.length then GF.ofNat gi * V w (q - off) else 0) := by
    intro q
    rw [V_map_range]
    by_cases hq : q < tw.length
    · rw [if_pos hq]
      by_cases hc : off ≤ q ∧ q - off < w.length
      · rw [if_pos hc, if_pos hc, GF.ofNat_xor, GF.ofNat_gmul hg (getD_lt hbw _)]; rfl
      · rw [if_neg hc, if_neg hc, add_zero]; rfl
    · rw [if_neg hq, V_of_ge (by omega), if_neg (by omega), add_zero]
  unfold twStep
  simp only []
  rw [V_set, List.length_map, List.length_range]
  unfold Psh
  rw [V_tmp]
  by_cases hq : q = off + w.length
  · subst hq
    rw [if_pos ⟨rfl, hoff⟩, GF.ofNat_xor]
    have := h1 (off + w.length)
    unfold V at this
    rw [this, if_neg (by omega), if_pos (by omega), if_neg (by omega), if_pos (by omega)]
    unfold V
    ring
  · rw [if_neg (by tauto), h1]
    by_cases hc : off ≤ q ∧ q - off < w.length
    · rw [if_pos hc, if_pos hc.1, if_pos hc.2]
    · rw [if_neg hc]
      by_cases ho : off ≤ q
      · rw [if_pos ho, if_neg (by tauto), if_neg (by omega), mul_zero]
      · rw [if_neg ho, mul_zero]

end DM.Lemmas.LD
