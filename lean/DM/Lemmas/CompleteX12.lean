import DM.Lemmas.DecRun
import DM.Spec.Build
/-
Decoder completeness, X12 runs: the decoder model inverts the reference builder's X12 item.
-/
namespace DM.Lemmas.Complete
open DM.Model.Dec DM.Gen DM.Lemmas DM.Lemmas.DecRun DM.Spec.Build

theorem tuple_pack (c1 c2 c3 : Nat) (h1 : c1 < 40) (h2 : c2 < 40) (h3 : c3 < 40) :
    c40Tuple ((1600 * c1 + 40 * c2 + c3 + 1) / 256) ((1600 * c1 + 40 * c2 + c3 + 1) % 256) = (c1, c2, c3) ∧
    (1600 * c1 + 40 * c2 + c3 + 1) / 256 ≠ 254 := by
  unfold c40Tuple
  simp only [Prod.mk.injEq]
  generalize hv : 1600 * c1 + 40 * c2 + c3 + 1 = v
  have e1 : v / 256 * 256 + v % 256 = v := Nat.div_add_mod' v 256
  rw [e1]
  have e2 : (v + 65535) % 65536 = v - 1 := by omega
  rw [e2]
  refine ⟨⟨?_, ?_, ?_⟩, ?_⟩ <;> omega

theorem x12Val_lt (b v : Nat) (h : x12Val b = some v) : v < 40 ∧ decX12 v = .ok b := by
  unfold x12Val at h
  unfold decX12
  by_cases c1 : b = 13
  · rw [if_pos c1] at h; cases h; subst c1; exact ⟨by omega, by simp⟩
  rw [if_neg c1] at h
  by_cases c2 : b = 42
  · rw [if_pos c2] at h; cases h; subst c2; exact ⟨by omega, by simp⟩
  rw [if_neg c2] at h
  by_cases c3 : b = 62
  · rw [if_pos c3] at h; cases h; subst c3; exact ⟨by omega, by simp⟩
  rw [if_neg c3] at h
  by_cases c4 : b = 32
  · rw [if_pos c4] at h; cases h; subst c4; exact ⟨by omega, by simp⟩
  rw [if_neg c4] at h
  by_cases c5 : 48 ≤ b ∧ b ≤ 57
  · rw [if_pos c5] at h; cases h
    refine ⟨by omega, ?_⟩
    rw [if_neg (by omega), if_neg (by omega), if_neg (by omega), if_neg (by omega), if_pos (by omega)]
    congr 1; omega
  rw [if_neg c5] at h
  by_cases c6 : 65 ≤ b ∧ b ≤ 90
  · rw [if_pos c6] at h; cases h
    refine ⟨by omega, ?_⟩
    rw [if_neg (by omega), if_neg (by omega), if_neg (by omega), if_neg (by omega), if_neg (by omega), if_pos (by omega)]
    congr 1; omega
  rw [if_neg c6] at h
  cases h

/-- the X12 values of a run of native characters -/
def X12Native (b : List Nat) : Prop := ∀ x ∈ b, (x12Val x).isSome = true

theorem decodeX12_triples : ∀ (n : Nat) (b : List Nat), b.length = 3 * n → X12Native b →
    ∀ (tail : List Nat) (e : Nat) (out : List Nat),
      decodeX12 (packTriples (b.filterMap x12Val) ++ tail) e out = decodeX12 tail (e + 2 * n) (out ++ b) := by
  intro n
  induction n with
  | zero =>
    intro b hl _ tail e out
    have : b = [] := List.length_eq_zero_iff.mp (by omega)
    subst this
    simp [packTriples]
  | succ n ih =>
    intro b hl hn tail e out
    match b, hl, hn with
    | x :: y :: z :: t, hl, hn =>
      have hx := hn x (by simp)
      have hy := hn y (by simp)
      have hz := hn z (by simp)
      obtain ⟨vx, hvx⟩ := Option.isSome_iff_exists.mp hx
      obtain ⟨vy, hvy⟩ := Option.isSome_iff_exists.mp hy
      obtain ⟨vz, hvz⟩ := Option.isSome_iff_exists.mp hz
      have ⟨lx, dx⟩ := x12Val_lt x vx hvx
      have ⟨ly, dy⟩ := x12Val_lt y vy hvy
      have ⟨lz, dz⟩ := x12Val_lt z vz hvz
      have ht : X12Native t := fun w hw => hn w (by simp [hw])
      have hlt : t.length = 3 * n := by simp only [List.length_cons] at hl; omega
      have hfm : (x :: y :: z :: t).filterMap x12Val = vx :: vy :: vz :: t.filterMap x12Val := by
        simp [List.filterMap_cons, hvx, hvy, hvz]
      rw [hfm]
      simp only [packTriples, List.cons_append]
      obtain ⟨htup, hne⟩ := tuple_pack vx vy vz lx ly lz
      rw [decodeX12, if_neg hne]
      simp only [htup, dx, dy, dz]
      rw [ih t hlt ht]
      simp only [List.append_assoc, List.cons_append, List.nil_append]
      congr 1
      omega
    | [], hl, _ => simp at hl
    | [_], hl, _ => simp at hl; omega
    | [_, _], hl, _ => simp at hl; omega

theorem packTriples_length : ∀ (n : Nat) (v : List Nat), v.length = 3 * n → (packTriples v).length = 2 * n := by
  intro n
  induction n with
  | zero => intro v h; have : v = [] := List.length_eq_zero_iff.mp (by omega); subst this; rfl
  | succ n ih =>
    intro v h
    match v, h with
    | a :: b :: c :: t, h =>
      simp only [packTriples, List.length_cons]
      rw [ih t (by simp only [List.length_cons] at h; omega)]
      omega
    | [], h => simp at h
    | [_], h => simp at h; omega
    | [_, _], h => simp at h; omega

theorem filterMap_native_length (b : List Nat) (h : X12Native b) : (b.filterMap x12Val).length = b.length := by
  induction b with
  | nil => rfl
  | cons x t ih =>
    obtain ⟨v, hv⟩ := Option.isSome_iff_exists.mp (h x (by simp))
    rw [List.filterMap_cons, hv]
    simp only [List.length_cons]
    rw [ih (fun w hw => h w (by simp [hw]))]

/-- what may follow a C40 / Text / X12 run: after UNLATCH anything but a second UNLATCH, without
UNLATCH the end of the symbol or a single trailing ASCII codeword -/
def TripleTail (un : Bool) (tail : List Nat) : Prop :=
  tail.head? ≠ some 254 ∧ (un = false → tail.length ≤ 1)

/-- the end of a C40 / Text / X12 run as the decoder's triple loops see it -/
theorem decodeX12_end (un : Bool) (tail : List Nat) (ht : TripleTail un tail) (e : Nat) (out : List Nat) :
    decodeX12 ((if un then [254] else []) ++ tail) e out = .ok (tail, e + (if un then 1 else 0), out) := by
  cases un with
  | true =>
    simp only [↓reduceIte, List.singleton_append]
    match tail, ht with
    | [], _ => simp [decodeX12]
    | c :: t, ht =>
      have hc : c ≠ 254 := fun hc => ht.1 (by simp [hc])
      rw [decodeX12]
      simp [hc]
  | false =>
    simp only [Bool.false_eq_true, ↓reduceIte, List.nil_append, Nat.add_zero]
    match tail, ht with
    | [], _ => simp [decodeX12]
    | [c], ht =>
      have hc : c ≠ 254 := fun hc => ht.1 (by simp [hc])
      rw [decodeX12]
      simp [hc]
    | _ :: _ :: _, ht => have := ht.2 rfl; simp at this

theorem seg_x12 (b : List Nat) (un : Bool) (tail : List Nat) (e : Nat) (out : List Nat) (ecis : List (Nat × Nat))
    (n : Nat) (hl : b.length = 3 * n) (hn : X12Native b) (ht : TripleTail un tail) :
    decRun .ascii { rest := [238] ++ packTriples (b.filterMap x12Val) ++ (if un then [254] else []) ++ tail,
                    eaten := e, out := out, ecis := ecis } =
    decRun .ascii { rest := tail, eaten := e + (1 + 2 * n + (if un then 1 else 0)), out := out ++ b, ecis := ecis } := by
  rw [decRun_ascii _ (by simp)]
  simp only [List.singleton_append, List.cons_append]
  rw [decodeAscii]
  simp only [ne_eq, not_true_eq_false, ↓reduceIte, Bool.false_eq_true, false_and, Nat.reduceLeDiff, and_false,
    Nat.reduceEqDiff]
  by_cases hnil : packTriples (b.filterMap x12Val) ++ ((if un then [254] else []) ++ tail) = []
  · have h1 := (List.append_eq_nil_iff.mp hnil)
    have h2 := (List.append_eq_nil_iff.mp h1.2)
    have hn0 : n = 0 := by
      have := packTriples_length n (b.filterMap x12Val) (by rw [filterMap_native_length b hn, hl])
      rw [h1.1] at this
      simp at this
      omega
    have hb : b = [] := List.length_eq_zero_iff.mp (by omega)
    have hun : un = false := by
      cases un with
      | true => simp at h2
      | false => rfl
    subst hb hun hn0
    rw [decRun_nil _ _ (by simpa using hnil), h2.2, decRun_nil _ _ rfl]
    simp [packTriples]
  · rw [decRun_x12 _ (by simpa using hnil)]
    simp only [List.append_assoc, List.nil_append]
    rw [decodeX12_triples n b hl hn, decodeX12_end un tail ht]
    simp only []
    congr 2
    omega

end DM.Lemmas.Complete
