import DM.Lemmas.Trace
/-
The exact sequence of latches (C18, encoder side).

`plannedLatches plan`: walk through the entries of the plan that get at least one character
(position > 0), starting in ASCII mode; every entry whose mode differs from the current one is a
mode change, and a change to a non-ASCII mode contributes that mode's latch codeword.
-/
namespace DM.Lemmas.LatchSeq
open DM.Model DM.Model.Enc DM.Gen DM.Lemmas
open DM.Lemmas.EncRT DM.Lemmas.C40Gen DM.Lemmas.PlanProv DM.Lemmas.Trace

/-- latches caused by running through the modes `ms` when the current mode is `cur` -/
def latchSeq (cur : EMode) : List EMode → List Nat
  | [] => []
  | m :: t => if m = cur then latchSeq cur t else m.latch.toList ++ latchSeq m t

/-- the modes of the entries that are assigned at least one character -/
def plannedModes (plan : List (Nat × EMode)) : List EMode := (plan.filter (fun e => 0 < e.1)).map (·.2)

/-- latches still to come when the encoder is in mode `cur` with `plan` left -/
def latchesFrom (cur : EMode) (plan : List (Nat × EMode)) : List Nat := latchSeq cur (plannedModes plan)

/-- the latch codewords of the non-ASCII modes the plan assigns at least one character to, in plan
order, consecutive entries of the same mode merged -/
def plannedLatches (plan : List (Nat × EMode)) : List Nat := latchesFrom .ascii plan

theorem latchesFrom_nil (cur : EMode) : latchesFrom cur [] = [] := rfl

theorem latchesFrom_cons_zero (cur m : EMode) (t : List (Nat × EMode)) :
    latchesFrom cur ((0, m) :: t) = latchesFrom cur t := by
  simp [latchesFrom, plannedModes]

theorem latchesFrom_cons_same (cur : EMode) (p : Nat) (t : List (Nat × EMode)) (hp : 0 < p) :
    latchesFrom cur ((p, cur) :: t) = latchesFrom cur t := by
  simp [latchesFrom, plannedModes, hp, latchSeq]

theorem latchesFrom_cons_ne (cur m : EMode) (p : Nat) (t : List (Nat × EMode)) (hp : 0 < p) (hm : m ≠ cur) :
    latchesFrom cur ((p, m) :: t) = m.latch.toList ++ latchesFrom m t := by
  simp [latchesFrom, plannedModes, hp, latchSeq, hm]

/-- entries that are ASCII or never popped cause no latch -/
theorem latchesFrom_ineff : ∀ (R : List (Nat × EMode)) (cur : EMode), (∀ e ∈ R, e.2 = .ascii ∨ e.1 = 0) →
    latchesFrom cur R = [] := by
  intro R
  induction R with
  | nil => intro cur _; rfl
  | cons e t ih =>
    intro cur h
    obtain ⟨p, m⟩ := e
    have ht : ∀ e ∈ t, e.2 = .ascii ∨ e.1 = 0 := fun e he => h e (List.mem_cons_of_mem _ he)
    by_cases hp : p = 0
    · subst hp
      rw [latchesFrom_cons_zero]; exact ih cur ht
    · have hm : m = .ascii := by
        rcases h (p, m) (by simp) with h1 | h1
        · exact h1
        · exact absurd h1 hp
      subst hm
      by_cases hc : EMode.ascii = cur
      · subst hc
        rw [latchesFrom_cons_same _ _ _ (by omega)]; exact ih _ ht
      · rw [latchesFrom_cons_ne _ _ _ _ (by omega) hc, ih _ ht]
        rfl

/-- within `PlanOK`, entries for the last four characters cause no latch -/
theorem latchesFrom_small (R : List (Nat × EMode)) (cur : EMode) (hok : PlanOK R) (h : ∀ e ∈ R, e.1 ≤ 4) :
    latchesFrom cur R = [] := by
  apply latchesFrom_ineff
  intro e he
  by_cases hm : e.2 = .ascii
  · exact Or.inl hm
  · right
    rcases (hok e he).1 hm with h0 | h0
    · exact h0
    · have := h e he; omega

/-! ### the control part of the state -/

abbrev Sorted (plan : List (Nat × EMode)) : Prop := plan.Pairwise (fun a b => a.1 ≥ b.1)

/-- static facts: side condition of the round trip, positions never increase, EDIFACT is not the mode -/
structure G (k : Key) : Prop where
  ok : PlanOK k.1
  sorted : Sorted k.1
  noEdi : k.2.1 ≠ .edifact

/-- before a mode change: no latch pending, `L` are the latches still to come -/
def Ctl0 (L : List Nat) (k : Key) : Prop := G k ∧ k.2.2 = none ∧ latchesFrom k.2.1 k.1 = L

/-- in general: the pending latch followed by the latches of the rest of the plan -/
def Ctl1 (L : List Nat) (k : Key) : Prop := G k ∧ k.2.2.toList ++ latchesFrom k.2.1 k.1 = L

/-- no entry still planned lies behind the current position -/
def Tight (s : St) : Prop := ∀ e ∈ s.plan, e.1 ≤ s.charsLeft

/-- a latch is pending only if more than four characters are left -/
def NoLate (s : St) : Prop := s.newMode ≠ none → 4 < s.charsLeft

def Post (L : List Nat) (s : St) : Prop := Ctl1 L (key s) ∧ Tight s ∧ NoLate s

theorem ctl1_of_ctl0 {L : List Nat} {k : Key} (h : Ctl0 L k) : Ctl1 L k := by
  obtain ⟨g, hn, hl⟩ := h
  exact ⟨g, by rw [hn]; simpa using hl⟩

theorem post_of_ctl0 {L : List Nat} {s : St} (h : Ctl0 L (key s)) (ht : Tight s) : Post L s :=
  ⟨ctl1_of_ctl0 h, ht, fun hne => absurd h.2.1 hne⟩

theorem post_congr {L : List Nat} {s s' : St} (h : Post L s) (hk : key s' = key s) (hc : s'.charsLeft = s.charsLeft) :
    Post L s' := by
  obtain ⟨h1, h2, h3⟩ := h
  have hp : s'.plan = s.plan := congrArg (·.1) hk
  have hn : s'.newMode = s.newMode := congrArg (·.2.2) hk
  refine ⟨by rw [hk]; exact h1, ?_, ?_⟩
  · intro e he; rw [hc]; exact h2 e (by rw [← hp]; exact he)
  · intro hne; rw [hc]; exact h3 (by rw [← hn]; exact hne)

theorem g_ascii : G ([(0, EMode.ascii)], EMode.ascii, (none : Option Nat)) :=
  ⟨by intro e he; simp at he; subst he; simp, by simp [Sorted], by simp⟩

/-- `set_ascii_until_end` when the entries dropped lie within the last four characters -/
theorem post_ascii {L : List Nat} {k : Key} {s' : St} (hk : Ctl1 L k) (hsmall : ∀ e ∈ k.1, e.1 ≤ 4)
    (hnm : k.2.2 = none) (hs : key s' = asciiKey k) : Post L s' := by
  obtain ⟨g, hl⟩ := hk
  have hL : L = [] := by
    rw [← hl, hnm, latchesFrom_small _ _ g.ok hsmall]; rfl
  have hkey : key s' = ([(0, EMode.ascii)], EMode.ascii, (none : Option Nat)) := by
    rw [hs]; simp [asciiKey, hnm]
  have hp : s'.plan = [(0, EMode.ascii)] := congrArg (·.1) hkey
  have hn : s'.newMode = none := congrArg (·.2.2) hkey
  refine ⟨⟨by rw [hkey]; exact g_ascii, ?_⟩, ?_, fun hne => absurd hn hne⟩
  · rw [hkey, hL]
    simp [latchesFrom, plannedModes, latchSeq]
  · intro e he
    rw [hp] at he
    simp only [List.mem_singleton] at he
    subst he
    exact Nat.zero_le _

/-- the two ways a handler can end: control part unchanged, or `set_ascii_until_end` with at most
two characters left -/
theorem post_handler {L : List Nat} {s s' : St} (h : Post L s)
    (hr : (key s' = key s ∧ s'.charsLeft = s.charsLeft) ∨ (key s' = asciiKey (key s) ∧ s.charsLeft ≤ 4)) : Post L s' := by
  rcases hr with ⟨hk, hc⟩ | ⟨hk, hc⟩
  · exact post_congr h hk hc
  · obtain ⟨h1, h2, h3⟩ := h
    have hnm : s.newMode = none := by
      cases hn : s.newMode with
      | none => rfl
      | some l => have := h3 (by rw [hn]; simp); omega
    exact post_ascii h1 (fun e he => Nat.le_trans (h2 e he) hc) hnm hk

/-! ### `maybe_switch_mode` -/

theorem switch_ctl {L : List Nat} (s s1 : St) (b : Bool) (h : s.maybeSwitch = .ok (b, s1)) (hc : Ctl0 L (key s)) :
    Tight s1 ∧ (b = false → Ctl0 L (key s1)) ∧ (b = true → Post L s1) := by
  obtain ⟨g, hn, hl⟩ := hc
  simp only [key] at hn hl
  have gok : PlanOK s.plan := g.ok
  have gso : Sorted s.plan := g.sorted
  have ged : s.mode ≠ .edifact := g.noEdi
  unfold St.maybeSwitch at h
  split at h
  · cases h
  · rename_i at_ m restPlan hp
    rw [hp] at gok gso hl
    have hso := List.pairwise_cons.mp gso
    have hrest_ok : PlanOK restPlan := fun e he => gok e (List.mem_cons_of_mem _ he)
    dsimp only at h
    split at h
    · cases h
    · rename_i hge
      by_cases hcnd : s.charsLeft > 0 ∧ s.charsLeft = at_
      · rw [if_pos hcnd] at h
        dsimp only at h
        have htight : ∀ e ∈ restPlan, e.1 ≤ s.charsLeft := fun e he => by
          have := hso.1 e he; simp only [] at this; omega
        split at h
        · rename_i hne
          simp only [Except.ok.injEq, Prod.mk.injEq] at h
          obtain ⟨hb, hs⟩ := h
          subst hb hs
          have hmed : m ≠ .edifact := (gok (at_, m) (by simp)).2
          rw [latchesFrom_cons_ne _ _ _ _ (by omega) hne] at hl
          refine ⟨htight, by simp, fun _ => ⟨⟨⟨hrest_ok, hso.2, hmed⟩, ?_⟩, htight, ?_⟩⟩
          · simp only [key]
            rw [← hl, hn]
            cases m.latch <;> rfl
          · intro hne2
            simp only [hn] at hne2
            have hma : m ≠ .ascii := by
              intro hm; subst hm; simp [EMode.latch] at hne2
            have := (gok (at_, m) (by simp)).1 hma
            simp only [] at this
            show 4 < s.charsLeft
            omega
        · rename_i hne
          have hm : m = s.mode := by simpa using hne
          simp only [Except.ok.injEq, Prod.mk.injEq] at h
          obtain ⟨hb, hs⟩ := h
          subst hb hs
          refine ⟨htight, fun _ => ⟨⟨hrest_ok, hso.2, ged⟩, hn, ?_⟩, by simp⟩
          simp only [key]
          rw [← hl, hm, latchesFrom_cons_same _ _ _ (by omega)]
      · rw [if_neg hcnd] at h
        dsimp only at h
        split at h
        · rename_i hne; exact absurd rfl hne
        · simp only [Except.ok.injEq, Prod.mk.injEq] at h
          obtain ⟨hb, hs⟩ := h
          subst hb hs
          have htight : Tight { s with plan := s.plan } := by
            intro e he
            show e.1 ≤ s.charsLeft
            have he' : e ∈ (at_, m) :: restPlan := by rw [← hp]; exact he
            rcases List.mem_cons.mp he' with rfl | he2
            · simp only []; omega
            · have := hso.1 e he2; simp only [] at this; omega
          refine ⟨htight, fun _ => ⟨g, hn, ?_⟩, by simp⟩
          simp only [key]
          rw [hp]; exact hl

/-! ### small facts about the primitives -/

theorem eat_spec {s s1 : St} {ch : Nat} (h : s.eat = some (ch, s1)) :
    s1 = { s with pos := s.pos + 1 } ∧ s.pos < s.input.length := by
  unfold St.eat at h
  split at h
  · rename_i c hc
    simp only [Option.some.injEq, Prod.mk.injEq] at h
    exact ⟨h.2.symm, (List.getElem?_eq_some_iff.mp hc).1⟩
  · cases h

theorem eat_none {s : St} (h : s.eat = none) : s.charsLeft = 0 := by
  unfold St.eat at h
  split at h
  · cases h
  · rename_i hn
    have := List.getElem?_eq_none_iff.mp hn
    simp only [St.charsLeft]; omega

theorem noMore_charsLeft {s : St} (h : s.hasMore = false) : s.charsLeft = 0 := by
  simp only [St.hasMore, decide_eq_false_iff_not] at h
  simp only [St.charsLeft]; omega

theorem b256WriteLength_same {s s' : St} {start : Nat} (h : b256WriteLength s start = .ok s') :
    key s' = key s ∧ s'.pos = s.pos ∧ s'.input = s.input := by
  unfold b256WriteLength at h
  dsimp only at h
  repeat' split at h
  all_goals first | (cases h; done) | (cases h; exact ⟨rfl, rfl, rfl⟩)

/-! ### ASCII -/

theorem asciiLoop_ctl {L : List Nat} : ∀ (f : Nat) (s s' : St), Ctl0 L (key s) → asciiLoop f s = .ok s' → Post L s' := by
  intro f
  induction f with
  | zero => intro s s' _ h; cases h
  | succ f ih =>
    intro s s' hc h
    unfold asciiLoop at h
    cases hm : s.maybeSwitch with
    | error e => rw [hm] at h; cases h
    | ok r =>
      obtain ⟨b, s1⟩ := r
      rw [hm] at h
      obtain ⟨ht, hf, htr⟩ := switch_ctl s s1 b hm hc
      cases b with
      | true =>
        simp only [Except.ok.injEq] at h
        subst h
        exact htr rfl
      | false =>
        simp only [] at h
        have hc1 := hf rfl
        split at h
        · split at h
          · exact ih _ _ (by exact hc1) h
          · cases h
        · split at h
          · simp only [Except.ok.injEq] at h
            subst h
            exact post_of_ctl0 hc1 ht
          · rename_i ch s2 he
            have hk : key s2 = key s1 := key_eat he
            split at h
            · exact ih _ _ (by rw [key_push, hk]; exact hc1) h
            · exact ih _ _ (by rw [key_push, key_push, hk]; exact hc1) h

/-! ### C40 / Text -/

theorem c40HandleEnd_ctl (s s' : St) (lastCh : Nat) (buf : List Nat) (h : c40HandleEnd s lastCh buf = .ok s') :
    (key s' = key s ∧ s'.charsLeft = s.charsLeft) ∨ (key s' = asciiKey (key s) ∧ s.charsLeft ≤ 4) := by
  unfold c40HandleEnd at h
  dsimp only at h
  split at h
  · cases h
  split at h
  · cases h
  · cases h
    rename_i heq
    split at heq
    · rename_i hnm
      have hcl : s.charsLeft = 0 := noMore_charsLeft (by simpa using hnm)
      repeat' split at heq
      all_goals first
        | (cases heq; done)
        | (cases heq; left; exact ⟨rfl, rfl⟩)
        | (cases heq; right; rename_i hb; exact ⟨by rw [key_backup hb]; rfl, by omega⟩)
    · cases heq
  · repeat' split at h
    all_goals first
      | (cases h; done)
      | (cases h; left; exact ⟨rfl, rfl⟩)
      | (cases h; right; refine ⟨rfl, ?_⟩
         first
           | (have h0 : s.charsLeft = 0 := noMore_charsLeft (by simpa using ‹(!s.hasMore) = true›)
              omega)
           | (have h2 : s.charsLeft = 2 := (‹_ = 2 ∧ _›).1
              omega))

theorem c40Loop_ctl {L : List Nat} (text : Bool) : ∀ (f : Nat) (s : St) (buf : List Nat) (lastCh : Nat) (s' : St),
    Ctl0 L (key s) → Tight s → c40Loop text f s buf lastCh = .ok s' → Post L s' := by
  intro f
  induction f with
  | zero => intro s buf lastCh s' _ _ h; cases h
  | succ f ih =>
    intro s buf lastCh s' hc ht h
    unfold c40Loop at h
    cases he : s.eat with
    | none =>
      rw [he] at h
      exact post_handler (post_of_ctl0 hc ht) (c40HandleEnd_ctl _ _ _ _ h)
    | some r =>
      obtain ⟨ch, s1⟩ := r
      rw [he] at h
      dsimp only at h
      obtain ⟨hs1, hlt⟩ := eat_spec he
      subst hs1
      have hbk : ({ s with pos := s.pos + 1 } : St).backup 1 = .ok s := by
        unfold St.backup
        rw [if_pos (by simp)]
        simp
      rw [hbk] at h
      dsimp only at h
      have normal : (match toVals text buf ch with
          | .error e => .error e
          | .ok buf1 =>
            match (flushTriples 3 { s with pos := s.pos + 1 } buf1).1.maybeSwitch with
            | .error e => .error e
            | .ok (true, s3) => c40HandleEnd s3 ch (flushTriples 3 { s with pos := s.pos + 1 } buf1).2
            | .ok (false, s3) => c40Loop text f s3 (flushTriples 3 { s with pos := s.pos + 1 } buf1).2 ch) =
          Except.ok s' → Post L s' := by
        intro h
        split at h
        · cases h
        · rename_i buf1 _
          have hk2 : key (flushTriples 3 { s with pos := s.pos + 1 } buf1).1 = key s := by
            rw [key_flush]; rfl
          cases hm : (flushTriples 3 { s with pos := s.pos + 1 } buf1).1.maybeSwitch with
          | error e => rw [hm] at h; cases h
          | ok r =>
            obtain ⟨b, s3⟩ := r
            rw [hm] at h
            obtain ⟨ht3, hf, htr⟩ := switch_ctl _ s3 b hm (by rw [hk2]; exact hc)
            cases b with
            | true =>
              dsimp only at h
              exact post_handler (htr rfl) (c40HandleEnd_ctl _ _ _ _ h)
            | false =>
              dsimp only at h
              exact ih _ _ _ _ (hf rfl) ht3 h
      have back : c40HandleEnd s lastCh buf = .ok s' → Post L s' := fun h =>
        post_handler (post_of_ctl0 hc ht) (c40HandleEnd_ctl _ _ _ _ h)
      split at h
      · split at h
        · exact back h
        · exact normal h
      · simp only [Bool.and_false, Bool.false_eq_true, ↓reduceIte] at h
        exact normal h

/-! ### X12 -/

theorem x12Loop_ctl {L : List Nat} : ∀ (f : Nat) (s s' : St) (sw : Bool), Ctl0 L (key s) → Tight s →
    x12Loop f s = .ok (s', sw) →
    Tight s' ∧ (sw = false → Ctl0 L (key s') ∧ s'.charsLeft < 3) ∧ (sw = true → Post L s') := by
  intro f
  induction f with
  | zero => intro s s' sw _ _ h; cases h
  | succ f ih =>
    intro s s' sw hc ht h
    unfold x12Loop at h
    split at h
    · split at h
      · split at h
        · dsimp only at h
          rename_i v1 v2 v3 _ _ _
          cases hm : (writeThree { s with pos := s.pos + 3 } v1 v2 v3).maybeSwitch with
          | error e => rw [hm] at h; cases h
          | ok r =>
            obtain ⟨b, s3⟩ := r
            rw [hm] at h
            obtain ⟨ht3, hf, htr⟩ := switch_ctl _ s3 b hm (by rw [key_writeThree, key_pos]; exact hc)
            cases b with
            | true =>
              simp only [Except.ok.injEq, Prod.mk.injEq] at h
              obtain ⟨h1, h2⟩ := h
              subst h1 h2
              exact ⟨ht3, by simp, fun _ => htr rfl⟩
            | false =>
              dsimp only at h
              exact ih _ _ _ (hf rfl) ht3 h
        · cases h
        · cases h
        · cases h
      · cases h
    · rename_i hlt
      simp only [Except.ok.injEq, Prod.mk.injEq] at h
      obtain ⟨h1, h2⟩ := h
      subst h1 h2
      exact ⟨ht, fun _ => ⟨hc, by omega⟩, by simp⟩

theorem x12Encode_ctl {L : List Nat} (s s' : St) (hc : Ctl0 L (key s)) (ht : Tight s) (h : x12Encode s = .ok s') :
    Post L s' := by
  unfold x12Encode at h
  split at h
  · cases h
  · rename_i s2 sw hl
    obtain ⟨ht2, hf, htr⟩ := x12Loop_ctl _ _ _ _ hc ht hl
    have hp2 : Post L s2 := by
      cases sw with
      | false => exact post_of_ctl0 (hf rfl).1 ht2
      | true => exact htr rfl
    have hasc : (s2.charsLeft ≤ 2 ∨ sw = false) → ∀ sA, key sA = asciiKey (key s2) → Post L sA := by
      intro hor sA hk
      apply post_handler hp2
      right
      refine ⟨hk, ?_⟩
      rcases hor with h1 | h1
      · omega
      · have := (hf h1).2; omega
    dsimp only at h
    split at h
    · cases h
    · rename_i heq
      cases h
      split at heq
      · exact hasc (Or.inl (‹_ ≤ 2 ∧ _›).1) _ rfl
      · cases heq
    · repeat' split at h
      all_goals first
        | (cases h; done)
        | (cases h; exact post_congr hp2 rfl rfl)
        | (cases h; exact hasc (Or.inr (by simpa using ‹(!sw) = true›)) _ rfl)

/-! ### Base 256 -/

theorem b256Loop_ctl {L : List Nat} (start : Nat) : ∀ (f : Nat) (s s' : St), Ctl0 L (key s) → Tight s →
    b256Loop start f s = .ok s' → Post L s' := by
  intro f
  induction f with
  | zero => intro s s' _ _ h; cases h
  | succ f ih =>
    intro s s' hc ht h
    unfold b256Loop at h
    dsimp only at h
    have cont : ∀ se : St, key se = key s → s.charsLeft ≤ se.charsLeft + 1 →
        (if (!se.hasMore) = true then
          match b256WriteLength se start with
          | .error e => .error e
          | .ok s => .ok s.setAscii
        else
          match se.maybeSwitch with
          | .error e => .error e
          | .ok (true, s) =>
            match b256WriteLength s start with
            | .error e => .error e
            | .ok s => .ok (if (!s.hasMore) = true then s.setAscii else s)
          | .ok (false, s) => b256Loop start f s) = Except.ok s' → Post L s' := by
      intro se hke hcle h
      have hce : Ctl0 L (key se) := by rw [hke]; exact hc
      split at h
      · rename_i hnm
        have h0 : se.charsLeft = 0 := noMore_charsLeft (by simpa using hnm)
        split at h
        · cases h
        · rename_i sw hw
          simp only [Except.ok.injEq] at h
          subst h
          obtain ⟨wk, _, _⟩ := b256WriteLength_same hw
          refine post_ascii (ctl1_of_ctl0 hc) ?_ hc.2.1 (by rw [key_setAscii, wk, hke])
          intro e he
          have := ht e he
          omega
      · rename_i hmore
        cases hm : se.maybeSwitch with
        | error e => rw [hm] at h; cases h
        | ok r =>
          obtain ⟨b, s1⟩ := r
          rw [hm] at h
          obtain ⟨ht1, hf, htr⟩ := switch_ctl se s1 b hm hce
          cases b with
          | false =>
            dsimp only at h
            exact ih _ _ (hf rfl) ht1 h
          | true =>
            dsimp only at h
            split at h
            · cases h
            · rename_i sw hw
              simp only [Except.ok.injEq] at h
              subst h
              obtain ⟨wk, wp, wi⟩ := b256WriteLength_same hw
              have hcl : sw.charsLeft = s1.charsLeft := by simp only [St.charsLeft, wp, wi]
              have hpw : Post L sw := post_congr (htr rfl) wk hcl
              split
              · rename_i hnm
                have h0 : sw.charsLeft = 0 := noMore_charsLeft (by simpa using hnm)
                exact post_handler hpw (Or.inr ⟨rfl, by omega⟩)
              · exact hpw
    cases he : s.eat with
    | none =>
      rw [he] at h
      exact cont s rfl (by omega) h
    | some r =>
      obtain ⟨ch, s1⟩ := r
      rw [he] at h
      obtain ⟨hs1, hlt⟩ := eat_spec he
      subst hs1
      exact cont (({ s with pos := s.pos + 1 } : St).push ch) rfl (by simp only [St.charsLeft, St.push]; omega) h

/-! ### any mode -/

theorem encodeMode_ctl {L : List Nat} (s s' : St) (hc : Ctl0 L (key s)) (ht : Tight s) (h : encodeMode s = .ok s') :
    Post L s' := by
  unfold encodeMode at h
  split at h
  · exact asciiLoop_ctl _ _ _ hc h
  · exact c40Loop_ctl false _ _ _ _ _ hc ht h
  · exact c40Loop_ctl true _ _ _ _ _ hc ht h
  · exact x12Encode_ctl _ _ hc ht h
  · rename_i hm; exact absurd hm hc.1.noEdi
  · exact b256Loop_ctl _ _ _ _ (by rw [key_push]; exact hc) (by exact ht) h

/-! ### the main loop -/

/-- invariant of the main loop: the latches written so far, the pending latch and the latches the
rest of the plan will cause make up the target sequence -/
def LI (target : List Nat) (s : St) (segs : List Seg) : Prop :=
  ∃ L, segs.filterMap (·.latch) ++ L = target ∧ Post L s

theorem li_init (list : List Sym) (pre body : List Nat) (plan : List (Nat × EMode)) (hplan : PlanOK plan)
    (hsorted : plan.Pairwise (fun a b => a.1 ≥ b.1)) (hfit : ∀ e ∈ plan, e.1 ≤ body.length) :
    LI (plannedLatches plan)
      { input := body, pos := 0, mode := .ascii, plan := plan, newMode := none, cw := pre, list := list } [] := by
  refine ⟨plannedLatches plan, by simp, ⟨⟨hplan, hsorted, by simp [key]⟩, ?_⟩, ?_, fun hne => absurd rfl hne⟩
  · simp [key, plannedLatches]
  · intro e he
    simpa [St.charsLeft] using hfit e he

/-- one iteration: the pending latch (if any) opens the new segment -/
theorem step_LI (target : List Nat) (s s' : St) (segs : List Seg) (X : List Nat) (h : LI target s segs)
    (he : encodeMode (latched s) = .ok s') : LI target s' (segs ++ [(⟨s.pos, s.newMode, X⟩ : Seg)]) := by
  obtain ⟨L, hL, ⟨g, hl⟩, ht, _⟩ := h
  simp only [key] at hl
  cases hnm : s.newMode with
  | none =>
    have hlat : latched s = s := by simp [latched, hnm]
    rw [hlat] at he
    rw [hnm] at hl
    have hc : Ctl0 L (key s) := ⟨g, hnm, by simpa [key] using hl⟩
    refine ⟨L, ?_, encodeMode_ctl s s' hc ht he⟩
    rw [List.filterMap_append]
    simpa using hL
  | some l =>
    have hlat : latched s = { s with newMode := none }.push l := by simp [latched, hnm]
    rw [hlat] at he
    rw [hnm] at hl
    have hc : Ctl0 (latchesFrom s.mode s.plan) (key ({ s with newMode := none }.push l)) :=
      ⟨⟨g.ok, g.sorted, g.noEdi⟩, rfl, rfl⟩
    refine ⟨latchesFrom s.mode s.plan, ?_, encodeMode_ctl _ s' hc (by exact ht) he⟩
    rw [List.filterMap_append, ← hL, ← hl]
    simp

/-- at the end of the data nothing is pending and nothing in the rest of the plan counts -/
theorem li_end (target : List Nat) (s : St) (segs : List Seg) (h : LI target s segs) (hmf : s.hasMore = false) :
    segs.filterMap (·.latch) = target := by
  obtain ⟨L, hL, ⟨g, hl⟩, ht, hn⟩ := h
  have h0 := noMore_charsLeft hmf
  have hnm : s.newMode = none := by
    cases hq : s.newMode with
    | none => rfl
    | some l => have := hn (by rw [hq]; simp); omega
  have hz : latchesFrom s.mode s.plan = [] := by
    apply latchesFrom_ineff
    intro e he
    right
    have := ht e he
    omega
  simp only [key, hnm, hz] at hl
  rw [← hL, ← hl]
  simp

end DM.Lemmas.LatchSeq
