import DM.Spec.Stream
namespace DM.Lemmas.SpecStep
open DM.Spec.Stream

theorem idx {cw : Array Nat} {i c : Nat} (h : cw[i]? = some c) : i < cw.size ∧ cw[i]! = c := by
  have := Array.getElem?_eq_some_iff.mp h
  obtain ⟨h1, h2⟩ := this
  exact ⟨h1, by simp [h1, h2]⟩

theorem step_end (cw : Array Nat) (s : St) (h : cw.size ≤ s.i) : step cw s = .ok none := by
  unfold step
  simp [h]
  rfl

theorem step_ascii_char (cw : Array Nat) (s : St) (c : Nat) (hc : cw[s.i]? = some c) (hm : s.mode = .ascii)
    (hr : 1 ≤ c ∧ c ≤ 128) :
    step cw s = .ok (some { push s (c - 1) .ascii with i := s.i + 1 }) := by
  obtain ⟨h, hc⟩ := idx hc
  have hn : ¬ cw.size ≤ s.i := by omega
  unfold step
  simp only [hm, hc]
  simp [hn, hr]
  rfl

theorem step_ascii_pair (cw : Array Nat) (s : St) (c : Nat) (hc : cw[s.i]? = some c) (hm : s.mode = .ascii)
    (hr : 130 ≤ c ∧ c ≤ 229) :
    step cw s = .ok (some { push (push s (48 + (c - 130) / 10) .ascii) (48 + (c - 130) % 10) .ascii with i := s.i + 1 }) := by
  obtain ⟨h, hc⟩ := idx hc
  have hn : ¬ cw.size ≤ s.i := by omega
  unfold step
  simp only [hm, hc]
  have h1 : ¬ (1 ≤ c ∧ c ≤ 128) := by omega
  have h2 : ¬ c = 129 := by omega
  simp [hn, hr, h1, h2]
  rfl

theorem step_upper_shift (cw : Array Nat) (s : St) (d : Nat) (hc : cw[s.i]? = some 235) (hd : cw[s.i + 1]? = some d)
    (hm : s.mode = .ascii) (hr : 1 ≤ d ∧ d ≤ 128) :
    step cw s = .ok (some { push s (d - 1 + 128) .ascii with i := s.i + 2 }) := by
  obtain ⟨h, hc⟩ := idx hc
  have hn : ¬ cw.size ≤ s.i := by omega
  obtain ⟨h', hd⟩ := idx hd
  unfold step
  simp only [hm, hc, hd]
  simp [hn, hr, h']
  rfl

theorem step_latch (cw : Array Nat) (s : St) (c : Nat) (m : Mode) (hc : cw[s.i]? = some c) (hm : s.mode = .ascii)
    (hr : (c = 230 ∧ m = .c40) ∨ (c = 231 ∧ m = .base256) ∨ (c = 238 ∧ m = .x12) ∨ (c = 239 ∧ m = .text) ∨
      (c = 240 ∧ m = .edifact)) :
    step cw s = .ok (some (latch s m)) := by
  obtain ⟨h, hc⟩ := idx hc
  have hn : ¬ cw.size ≤ s.i := by omega
  unfold step
  simp only [hm, hc]
  rcases hr with ⟨rfl, rfl⟩ | ⟨rfl, rfl⟩ | ⟨rfl, rfl⟩ | ⟨rfl, rfl⟩ | ⟨rfl, rfl⟩ <;> simp [hn] <;> rfl

theorem padLoop_ok (cw : Array Nat) (l : List Nat) (hl : ∀ j ∈ l, unrand253 cw[j]! (j + 1) = 129) :
    (forIn l PUnit.unit (fun j (_ : PUnit) =>
      if unrand253 cw[j]! (j + 1) = 129 then (pure (ForInStep.yield PUnit.unit) : Except String _)
      else (fun _ => ForInStep.yield PUnit.unit) <$> (throw (toString "bad pad at " ++ j.repr) : Except String PUnit))) = pure PUnit.unit := by
  induction l with
  | nil => rfl
  | cons a t ih =>
    rw [List.forIn_cons]
    simp only [hl a (by simp), if_true]
    simp only [pure_bind]
    exact ih (fun j hj => hl j (by simp [hj]))

theorem step_pad (cw : Array Nat) (s : St) (hc : cw[s.i]? = some 129) (hm : s.mode = .ascii)
    (hp : ∀ j, s.i < j → j < cw.size → unrand253 cw[j]! (j + 1) = 129) :
    step cw s = .ok (some { s with i := cw.size, padAt := some s.i }) := by
  obtain ⟨h, hc⟩ := idx hc
  have hn : ¬ cw.size ≤ s.i := by omega
  unfold step
  simp only [hm, hc]
  simp [hn]
  rw [padLoop_ok]
  · cases s; subst hm; rfl
  · intro j hj
    simp only [List.mem_range'_1] at hj
    exact hp j (by omega) (by omega)

theorem run_step (cw : Array Nat) (f : Nat) (s s' : St) (h : step cw s = .ok (some s')) :
    run cw (f + 1) s = run cw f s' := by
  rw [run, h]; rfl

theorem run_done (cw : Array Nat) (f : Nat) (s : St) (h : step cw s = .ok none) :
    run cw (f + 1) s = .ok s := by
  rw [run, h]; rfl


/-! ### runs -/

/-- `n` decoding steps lead from `s` to `s'` -/
def Steps (cw : Array Nat) (n : Nat) (s s' : St) : Prop := ∀ f, run cw (n + f) s = run cw f s'

theorem Steps.refl (cw : Array Nat) (s : St) : Steps cw 0 s s := by intro f; simp

theorem Steps.one {cw : Array Nat} {s s' : St} (h : step cw s = .ok (some s')) : Steps cw 1 s s' := by
  intro f; rw [Nat.add_comm]; exact run_step cw f s s' h

theorem Steps.trans {cw : Array Nat} {a b : Nat} {s s1 s2 : St} (h1 : Steps cw a s s1) (h2 : Steps cw b s1 s2) :
    Steps cw (a + b) s s2 := by
  intro f; rw [Nat.add_assoc, h1, h2]

theorem Steps.finish {cw : Array Nat} {n fuel : Nat} {s s' : St} (h : Steps cw n s s') (hd : step cw s' = .ok none)
    (hf : n < fuel) : run cw fuel s = .ok s' := by
  have : fuel = n + ((fuel - n - 1) + 1) := by omega
  rw [this, h, run_done cw _ s' hd]

/-! ### `decode` -/

def macOf : List Nat → Nat
  | 236 :: _ => 5
  | 237 :: _ => 6
  | _ => 0

def mkDecoded (s : St) (mac : Nat) (f1 : Bool) : Decoded :=
  { bytes := if mac = 0 then s.out.toList else macroHead mac ++ s.out.toList ++ macroTrail,
    body := s.out.toList, trace := s.trace.toList, latches := s.latches.toList,
    ecis := s.ecis.toList, padAt := s.padAt, «macro» := mac, fnc1 := f1 }

theorem decode_eq (cwl : List Nat) : decode cwl =
    (fun s => mkDecoded s (macOf cwl) (decide (macOf cwl = 0 ∧ cwl.toArray.getD 0 0 = 232))) <$>
      run cwl.toArray (3 * cwl.toArray.size + 4)
        { i := if macOf cwl = 0 ∧ cwl.toArray.getD 0 0 = 232 then 1 else if macOf cwl = 0 then 0 else 1 } := rfl

theorem decode_plain (cwl : List Nat) (s : St) (hh : ∀ c ∈ cwl.head?, c ≠ 232 ∧ c ≠ 236 ∧ c ≠ 237)
    (h : run cwl.toArray (3 * cwl.length + 4) { i := 0 } = .ok s) : decode cwl = .ok (mkDecoded s 0 false) := by
  rw [decode_eq]
  match cwl, hh with
  | [], _ => simp [macOf] at h ⊢; rw [h]; rfl
  | c :: t, hh =>
    have := hh c (by simp)
    have hm : macOf (c :: t) = 0 := by
      unfold macOf; split <;> simp_all
    simp [hm, this.1] at h ⊢
    rw [h]; rfl

theorem decode_fnc1 (t : List Nat) (s : St)
    (h : run (232 :: t).toArray (3 * (232 :: t).length + 4) { i := 1 } = .ok s) :
    decode (232 :: t) = .ok (mkDecoded s 0 true) := by
  rw [decode_eq]
  simp [macOf] at h ⊢
  rw [h]; rfl

theorem decode_macro5 (t : List Nat) (s : St)
    (h : run (236 :: t).toArray (3 * (236 :: t).length + 4) { i := 1 } = .ok s) :
    decode (236 :: t) = .ok (mkDecoded s 5 false) := by
  rw [decode_eq]
  simp [macOf] at h ⊢
  rw [h]; rfl

theorem decode_macro6 (t : List Nat) (s : St)
    (h : run (237 :: t).toArray (3 * (237 :: t).length + 4) { i := 1 } = .ok s) :
    decode (237 :: t) = .ok (mkDecoded s 6 false) := by
  rw [decode_eq]
  simp [macOf] at h ⊢
  rw [h]; rfl


/-! ### codewords at a position, output of a stretch -/

/-- the codewords `X` stand at position `i` of the stream -/
def Occurs (cw : Array Nat) (i : Nat) (X : List Nat) : Prop := ∀ k, k < X.length → cw[i + k]? = X[k]?

theorem Occurs.head {cw : Array Nat} {i x : Nat} {X : List Nat} (h : Occurs cw i (x :: X)) : cw[i]? = some x := by
  have := h 0 (by simp)
  simpa using this

theorem Occurs.tail {cw : Array Nat} {i x : Nat} {X : List Nat} (h : Occurs cw i (x :: X)) : Occurs cw (i + 1) X := by
  intro k hk
  have := h (k + 1) (by simp; omega)
  rw [List.getElem?_cons_succ] at this
  rw [← this]; congr 1; omega

theorem Occurs.left {cw : Array Nat} {i : Nat} {X Y : List Nat} (h : Occurs cw i (X ++ Y)) : Occurs cw i X := by
  intro k hk
  have := h k (by simp; omega)
  rw [List.getElem?_append_left hk] at this
  exact this

theorem Occurs.right {cw : Array Nat} {i : Nat} {X Y : List Nat} (h : Occurs cw i (X ++ Y)) :
    Occurs cw (i + X.length) Y := by
  intro k hk
  have := h (X.length + k) (by simp; omega)
  rw [List.getElem?_append_right (by omega)] at this
  rw [Nat.add_assoc, this]; congr 1; omega

theorem occurs_of_take (cwl A X : List Nat) (h : cwl.take (A.length + X.length) = A ++ X) :
    Occurs cwl.toArray A.length X := by
  intro k hk
  have h1 : (cwl.take (A.length + X.length))[A.length + k]? = cwl[A.length + k]? :=
    List.getElem?_take_of_lt (by omega)
  rw [h, List.getElem?_append_right (by omega)] at h1
  simp only [List.getElem?_toArray]
  rw [← h1]; congr 1; omega

/-- `n` codewords consumed, `chunk` produced in mode `m` -/
def emit (s : St) (n : Nat) (chunk : List Nat) (m : Mode) : St :=
  { s with i := s.i + n, out := s.out ++ chunk.toArray, trace := s.trace ++ Array.replicate chunk.length m }

@[simp] theorem emit_mode (s : St) (n : Nat) (chunk : List Nat) (m : Mode) : (emit s n chunk m).mode = s.mode := rfl
@[simp] theorem emit_i (s : St) (n : Nat) (chunk : List Nat) (m : Mode) : (emit s n chunk m).i = s.i + n := rfl

theorem emit_emit (s : St) (a b : Nat) (c d : List Nat) (m : Mode) :
    emit (emit s a c m) b d m = emit s (a + b) (c ++ d) m := by
  simp [emit, Nat.add_assoc, ← Array.replicate_append_replicate]

theorem emit_zero (s : St) (m : Mode) : emit s 0 [] m = s := by
  simp [emit]

theorem push_emit (s : St) (b n : Nat) (m : Mode) : { push s b m with i := s.i + n } = emit s n [b] m := by
  simp [emit, push]

theorem push2_emit (s : St) (a b n : Nat) (m : Mode) : { push (push s a m) b m with i := s.i + n } = emit s n [a, b] m := by
  have h1 : ∀ (o : Array Nat) (a b : Nat), (o.push a).push b = o ++ #[a, b] := by
    intro o a b; apply Array.ext'; simp
  have h2 : ∀ (o : Array Mode) (a b : Mode), (o.push a).push b = o ++ #[a, b] := by
    intro o a b; apply Array.ext'; simp
  have h3 : Array.replicate 2 m = #[m, m] := rfl
  simp [emit, push, h1, h2, h3]

/-! ### Base 256 -/

theorem foldl_push (g : Nat → Nat) (m : Mode) : ∀ (l : List Nat) (s : St),
    List.foldl (fun b a => push b (g a) m) s l =
      { s with out := s.out ++ (l.map g).toArray, trace := s.trace ++ Array.replicate l.length m } := by
  intro l
  induction l with
  | nil => intro s; simp
  | cons a t ih =>
    intro s
    rw [List.foldl_cons, ih]
    have h1 : ∀ (o : Array Nat) (a : Nat) (l : List Nat), o.push a ++ l.toArray = o ++ (a :: l).toArray := by
      intro o a l; apply Array.ext'; simp
    have h2 : ∀ (o : Array Mode) (n : Nat), o.push m ++ Array.replicate n m = o ++ Array.replicate (n + 1) m := by
      intro o n; apply Array.ext'; simp [List.replicate_succ]
    simp only [push, List.map_cons, List.length_cons, h1, h2]

/-- the Base 256 field read by one step: data bytes `start .. start + len` -/
def b256Out (cw : Array Nat) (start len : Nat) : List Nat :=
  (List.range' start len).map (fun j => unrand255 cw[j]! (j + 1))

theorem step_b256 (cw : Array Nat) (s : St) (c len start : Nat) (hc : cw[s.i]? = some c) (hm : s.mode = .base256)
    (hcase : (unrand255 c (s.i + 1) = 0 ∧ len = cw.size - (s.i + 1) ∧ start = s.i + 1) ∨
      (1 ≤ unrand255 c (s.i + 1) ∧ unrand255 c (s.i + 1) ≤ 249 ∧ len = unrand255 c (s.i + 1) ∧ start = s.i + 1) ∨
      (250 ≤ unrand255 c (s.i + 1) ∧ s.i + 1 < cw.size ∧
        len = 250 * (unrand255 c (s.i + 1) - 249) + unrand255 cw[s.i + 1]! (s.i + 2) ∧ start = s.i + 2))
    (hfit : start + len ≤ cw.size) :
    step cw s = .ok (some
      { s with i := start + len, mode := .ascii, out := s.out ++ (b256Out cw start len).toArray,
               trace := s.trace ++ Array.replicate len .base256 }) := by
  obtain ⟨h, hc⟩ := idx hc
  have hn : ¬ cw.size ≤ s.i := by omega
  unfold step
  simp only [hm, hc]
  rcases hcase with ⟨h0, rfl, rfl⟩ | ⟨h1, h2, rfl, rfl⟩ | ⟨h1, h2, rfl, rfl⟩
  · have hf : ¬ cw.size < s.i + 1 + (cw.size - (s.i + 1)) := by omega
    simp [hn, h0, hf, foldl_push, b256Out]
    rfl
  · have hf : ¬ cw.size < s.i + 1 + unrand255 c (s.i + 1) := by omega
    have h0 : ¬ unrand255 c (s.i + 1) = 0 := by omega
    simp [hn, h0, h2, hf, foldl_push, b256Out]
    rfl
  · generalize cw[s.i + 1]! = d at *
    have hf : ¬ cw.size < s.i + 2 + (250 * (unrand255 c (s.i + 1) - 249) + unrand255 d (s.i + 2)) := by omega
    have h0 : ¬ unrand255 c (s.i + 1) = 0 := by omega
    have h3 : ¬ unrand255 c (s.i + 1) ≤ 249 := by omega
    simp [hn, h0, h3, h2, hf, foldl_push, b256Out]
    rfl

end DM.Lemmas.SpecStep
