import DM.Lemmas.LDFlow
/-
Companions of `ldStep_flow`: the panic-free `break` path of one Levinson–Durbin iteration,
`ldStep` / `ldInitW` never return a non-panic error, the initial solve for `v = 1`, and the
combination of a `Tot AnySite` statement with a `Safe NoSite` statement.
-/
namespace DM.Lemmas.RSTot
set_option linter.unusedSimpArgs false
set_option linter.unusedVariables false
open DM.Model DM.Model.RS DM.Lemmas DM.Lemmas.RSTotal

variable {A : String → Prop}

/-! ### combining `Tot AnySite` with `Safe NoSite` -/

theorem Tot_Safe_elim {α} {x : R α} {P Q : α → Prop} (h1 : Tot AnySite x P)
    (h2 : Safe NoSite x Q) : ∃ a, x = .ok a ∧ P a ∧ Q a := by
  cases x with
  | ok a => exact ⟨a, rfl, h1, h2⟩
  | error e =>
    cases e with
    | panic s => exact absurd h2 id
    | tooManyErrors => exact absurd h1 id
    | errorsOutsideRange => exact absurd h1 id
    | malfunction => exact absurd h1 id

/-! ### the `break` path -/

/-- `dot (← slice site syn j b) tmp` with all bounds available -/
theorem Tot_sliceDot {site : String} {syn tmp : List Nat} {j b : Nat} {β} {f : Nat → R β}
    {P : β → Prop} (ha : j ≤ b + 1) (hb : b < syn.length) (hlen : b + 1 - j = tmp.length)
    (h : Tot A (f (win syn tmp j)) P) :
    Tot A (slice site syn j b >>= fun s => dot s tmp >>= f) P := by
  refine Tot_bind (Tot_slice ha hb ?_)
  refine Tot_bind (Tot_dot ?_ ?_)
  · simp only [List.length_take, List.length_drop]; omega
  · rw [dotV_slice_win _ _ _ _ hlen]
    exact h

theorem ldStep_break (syn : List Nat) (t : Nat) (st : LDSt) (ht : 2 * t ≤ syn.length)
    (hv1 : 1 ≤ st.v) (hvt : st.v < t) (hw : st.w.length = st.v)
    (heps : win syn (st.w ++ [1]) st.v = 0)
    (hsig : ∀ i, 1 ≤ i → i < t - st.v → win syn (st.w ++ [1]) (st.v + i) = 0) :
    ldStep syn t st = .ok none := by
  suffices H : Tot NoSite (ldStep syn t st) (fun r => r = none) by
    obtain ⟨a, ha, rfl⟩ := Tot_elim H
    exact ha
  obtain ⟨v, w, y⟩ := st
  simp only at hv1 hvt hw heps hsig
  unfold ldStep
  simp only []
  have hlen : ∀ k, 2 * v + k + 1 - (v + k) = (w ++ [1]).length := by
    intro k; simp only [List.length_append, List.length_singleton]; omega
  refine Tot_sliceDot (by omega) (by omega) (by have := hlen 0; simpa using this) ?_
  refine Tot_ite (fun h => absurd heps h) (fun _ => ?_)
  refine Tot_bind ?_
  apply Tot_mono (Tot_forIn_inv _ _ _ (fun found : Option (Nat × Nat) => found = none) rfl ?_)
  · intro found hfound
    subst hfound
    exact Tot_pure rfl
  · intro i hi found hfound
    subst hfound
    simp only [List.mem_filter, List.mem_range, decide_eq_true_eq] at hi
    refine Tot_ite (fun _ => ?_) (fun _ => Tot_pure rfl)
    refine Tot_sliceDot (by omega) (by omega) (hlen i) ?_
    refine Tot_ite (fun h => absurd (hsig i hi.2 hi.1) h) (fun _ => Tot_pure rfl)

/-! ### no non-panic errors -/

theorem ldStep_tot (syn : List Nat) (t : Nat) (st : LDSt) :
    Tot AnySite (ldStep syn t st) (fun _ => True) := by
  obtain ⟨v, w, y⟩ := st
  unfold ldStep
  simp only []
  refine TotAny_sliceDot' fun epsV => ?_
  refine Tot_ite (fun _ => ?_) (fun _ => ?_)
  · refine TotAny_sliceDot' fun b0 => ?_
    refine Tot_bind (TotAny_div' fun beta => ?_)
    refine TotAny_sliceDot' fun gamma => ?_
    refine Tot_bind (TotAny_div' fun epsInv => ?_)
    refine Tot_bind (Tot_mono (TotAny_ldCheck _ _ _ _) fun _ _ => ?_)
    exact Tot_pure trivial
  · refine Tot_bind ?_
    apply Tot_mono (Tot_forIn_inv _ _ _ (fun _ : Option (Nat × Nat) => True) trivial ?_)
    rotate_left
    · intro i hi found _
      refine Tot_ite (fun _ => ?_) (fun _ => Tot_pure trivial)
      refine TotAny_sliceDot' fun sigmaI => ?_
      exact Tot_ite (fun _ => Tot_pure trivial) (fun _ => Tot_pure trivial)
    intro found _
    rcases found with _ | ⟨m, sigmaM⟩
    · exact Tot_pure trivial
    · simp only []
      refine Tot_bind ?_
      apply Tot_mono (Tot_forIn_inv _ _ _ (fun _ : List Nat => True) trivial ?_)
      rotate_left
      · intro k hk sigma _
        refine TotAny_sliceDot' fun x => ?_
        exact Tot_pure trivial
      intro sigma _
      refine Tot_ite (fun _ => Tot_bind TotAny_throw_panic) (fun _ => ?_)
      refine Tot_bind ?_
      apply Tot_mono (Tot_forIn_inv _ _ _ (fun _ : List Nat => True) trivial ?_)
      rotate_left
      · intro k hk tk _
        refine Tot_bind (TotAny_at' fun s2 => ?_)
        refine TotAny_sliceDot' fun x => ?_
        refine Tot_bind (TotAny_at' fun eta => ?_)
        exact Tot_pure trivial
      intro tk _
      refine Tot_bind (TotAny_div' fun sInv => ?_)
      refine Tot_ite (fun _ => Tot_bind TotAny_throw_panic) (fun _ => ?_)
      refine Tot_bind ?_
      apply Tot_mono (Tot_forIn_inv _ _ _ (fun _ : List Nat => True) trivial ?_)
      rotate_left
      · intro i hi gam _
        refine Tot_bind (TotAny_at' fun s3 => ?_)
        refine TotAny_sliceDot' fun x => ?_
        exact Tot_pure trivial
      intro gam _
      refine Tot_bind (TotAny_at' fun sigma0 => ?_)
      refine Tot_bind ?_
      apply Tot_mono (Tot_forIn_inv _ _ _ (fun _ : List Nat => True) trivial ?_)
      rotate_left
      · intro i hi gam _
        refine Tot_bind (TotAny_at' fun gi => ?_)
        refine Tot_bind ?_
        apply Tot_mono (Tot_forIn_inv _ _ _ (fun _ : Nat => True) trivial ?_)
        · intro gi' _
          refine Tot_bind (TotAny_div' fun q => ?_)
          exact Tot_pure trivial
        · intro j hj gi' _
          refine Tot_bind (TotAny_at' fun sg => ?_)
          exact Tot_pure trivial
      intro gam _
      refine Tot_bind ?_
      apply Tot_mono (Tot_forIn_inv _ _ _ (fun _ : List Nat => True) trivial ?_)
      rotate_left
      · intro x hx tw _
        refine Tot_bind (TotAny_sub' fun off => ?_)
        refine Tot_ite (fun _ => Tot_bind TotAny_throw_panic) (fun _ => ?_)
        refine Tot_ite (fun _ => Tot_bind TotAny_throw_panic) (fun _ => ?_)
        exact Tot_pure trivial
      intro tw _
      refine Tot_bind (Tot_mono (TotAny_ldCheck _ _ _ _) fun _ _ => ?_)
      exact Tot_pure trivial

theorem ldInitW_tot (syn : List Nat) (v : Nat) : Tot AnySite (ldInitW syn v) (fun _ => True) := by
  unfold ldInitW
  refine Tot_bind (TotAny_slice fun _ _ => ?_)
  refine Tot_bind (TotAny_at' fun pivot => ?_)
  refine Tot_bind ?_
  apply Tot_mono (Tot_forIn_inv _ _ _ (fun _ : List Nat => True) trivial ?_)
  · intro w _; exact Tot_pure trivial
  · intro i hi w _
    refine Tot_bind (TotAny_at' fun acc => ?_)
    refine Tot_bind ?_
    apply Tot_mono (Tot_forIn_inv _ _ _ (fun _ : Nat => True) trivial ?_)
    · intro acc' _
      refine Tot_bind (TotAny_div' fun q => ?_)
      exact Tot_pure trivial
    · intro j hj acc' _
      refine Tot_bind (TotAny_at' fun wj => ?_)
      refine Tot_bind (TotAny_at' fun s' => ?_)
      exact Tot_pure trivial

/-! ### the initial solve for `v = 1` -/

theorem ldInitW_one (syn : List Nat) (h : 2 ≤ syn.length) (h0 : syn.getD 0 0 ≠ 0) :
    ldInitW syn 1 = .ok [gdivD (syn.getD 1 0) (syn.getD 0 0)] := by
  rcases syn with _ | ⟨a, _ | ⟨b, rest⟩⟩
  · simp at h
  · simp at h
  · simp only [List.getD_cons_zero, List.getD_cons_succ] at h0 ⊢
    unfold ldInitW
    simp [slice, at', div', gdiv_eq_some h0, List.range_succ]
    simp only [bind, Except.bind, List.reverse_singleton, List.getElem?_cons_zero,
      gdiv_eq_some h0, Functor.map, Except.map, List.set_cons_zero]

end DM.Lemmas.RSTot
