import DM.Model.Encode
/-
Plan provenance: the control part of the encoder state — `(planned_switches, encodation, new_mode)` —
is only ever changed by `maybe_switch_mode`, by `set_ascii_until_end` and by the main loop taking
the pending latch.  Every predicate on that triple which is closed under these three operations is
an invariant of the whole encoder model (every mode encoder, every end-of-data handler), for every
plan, EDIFACT included.  Used for C13 / C18: a latch codeword written by the main loop is the
latch of a mode the plan names.
-/
namespace DM.Lemmas.PlanProv
open DM.Model DM.Model.Enc DM.Gen

abbrev Key := List (Nat × EMode) × EMode × Option Nat

def key (s : St) : Key := (s.plan, s.mode, s.newMode)

def asciiKey (k : Key) : Key := ([(0, .ascii)], .ascii, k.2.2)

/-- a predicate on the control triple that the three operations preserve -/
structure Closed (Q : Key → Prop) : Prop where
  ascii : ∀ k, Q k → Q (asciiKey k)
  switch : ∀ (s s1 : St) (b : Bool), s.maybeSwitch = .ok (b, s1) → Q (key s) → Q (key s1)
  clear : ∀ k, Q k → Q (k.1, k.2.1, none)

@[simp] theorem key_push (s : St) (c : Nat) : key (s.push c) = key s := rfl
@[simp] theorem key_setAscii (s : St) : key s.setAscii = asciiKey (key s) := rfl
@[simp] theorem key_writeThree (s : St) (a b c : Nat) : key (writeThree s a b c) = key s := rfl
@[simp] theorem key_pos (s : St) (p : Nat) : key { s with pos := p } = key s := rfl
@[simp] theorem key_cw (s : St) (c : List Nat) : key { s with cw := c } = key s := rfl

@[simp] theorem key_write4 (s : St) (sym : List Nat) : key (write4 s sym) = key s := by
  unfold write4
  dsimp only
  split
  · split <;> rfl
  · rfl

theorem key_eat {s s1 : St} {ch : Nat} (h : s.eat = some (ch, s1)) : key s1 = key s := by
  unfold St.eat at h
  split at h
  · cases h; rfl
  · cases h

theorem key_backup {s s1 : St} {n : Nat} (h : s.backup n = .ok s1) : key s1 = key s := by
  unfold St.backup at h
  split at h
  · cases h; rfl
  · cases h

theorem key_flush : ∀ (f : Nat) (s : St) (buf : List Nat), key (flushTriples f s buf).1 = key s := by
  intro f
  induction f with
  | zero => intro s buf; rfl
  | succ f ih =>
    intro s buf
    unfold flushTriples
    split
    · rw [ih]; rfl
    · rfl


theorem key_b256WriteLength {s s' : St} {start : Nat} (h : b256WriteLength s start = .ok s') : key s' = key s := by
  unfold b256WriteLength at h
  dsimp only at h
  repeat' split at h
  all_goals first | (cases h; done) | (cases h; rfl)

variable {Q : Key → Prop}

/-- work backwards from `Q (key e)` to a hypothesis -/
macro "q_back" hQ:ident : tactic => `(tactic| (
  repeat (first
    | assumption
    | (simp only [key_push, key_setAscii, key_writeThree, key_pos, key_cw, key_write4, key_flush]; done)
    | (rw [key_eat ‹_ = some (_, _)›])
    | (rw [key_backup ‹_ = Except.ok _›])
    | (rw [key_b256WriteLength ‹_ = Except.ok _›])
    | (apply ($hQ).switch _ _ _ ‹_ = Except.ok (_, _)›)
    | (apply ($hQ).ascii)
    | (simp only [key_push, key_setAscii, key_writeThree, key_pos, key_cw, key_write4, key_flush])
    | (split))))

theorem q_asciiLoop (hQ : Closed Q) : ∀ (f : Nat) (s s' : St), asciiLoop f s = .ok s' → Q (key s) → Q (key s') := by
  intro f
  induction f with
  | zero => intro s s' h; cases h
  | succ f ih =>
    intro s s' h hq
    unfold asciiLoop at h
    repeat' split at h
    all_goals first
      | (cases h; done)
      | (apply ih _ _ h; q_back hQ)
      | (cases h; q_back hQ)


theorem q_b256Loop (hQ : Closed Q) (start : Nat) : ∀ (f : Nat) (s s' : St), b256Loop start f s = .ok s' → Q (key s) → Q (key s') := by
  intro f
  induction f with
  | zero => intro s s' h; cases h
  | succ f ih =>
    intro s s' h hq
    unfold b256Loop at h
    dsimp only at h
    repeat' split at h
    all_goals first
      | (cases h; done)
      | (apply ih _ _ h; q_back hQ)
      | (cases h; q_back hQ)


theorem q_c40HandleEnd (hQ : Closed Q) (s s' : St) (lastCh : Nat) (buf : List Nat)
    (h : c40HandleEnd s lastCh buf = .ok s') (hq : Q (key s)) : Q (key s') := by
  unfold c40HandleEnd at h
  dsimp only at h
  split at h
  · cases h
  split at h
  · cases h
  · -- one of the three early forms
    cases h
    rename_i heq
    repeat' split at heq
    all_goals first
      | (cases heq; done)
      | (cases heq; q_back hQ)
  · repeat' split at h
    all_goals first
      | (cases h; done)
      | (cases h; q_back hQ)

theorem q_c40Loop (hQ : Closed Q) (text : Bool) : ∀ (f : Nat) (s : St) (buf : List Nat) (lastCh : Nat) (s' : St),
    c40Loop text f s buf lastCh = .ok s' → Q (key s) → Q (key s') := by
  intro f
  induction f with
  | zero => intro s buf lastCh s' h; cases h
  | succ f ih =>
    intro s buf lastCh s' h hq
    unfold c40Loop at h
    dsimp only at h
    repeat' split at h
    all_goals first
      | (cases h; done)
      | (apply ih _ _ _ _ h; q_back hQ)
      | (apply q_c40HandleEnd hQ _ _ _ _ h; q_back hQ)

theorem q_x12Loop (hQ : Closed Q) : ∀ (f : Nat) (s s' : St) (sw : Bool),
    x12Loop f s = .ok (s', sw) → Q (key s) → Q (key s') := by
  intro f
  induction f with
  | zero => intro s s' sw h; cases h
  | succ f ih =>
    intro s s' sw h hq
    unfold x12Loop at h
    repeat' (split at h <;> try dsimp only at h)
    all_goals first
      | (cases h; done)
      | (apply ih _ _ _ h; q_back hQ)
      | (cases h; q_back hQ)

theorem q_x12Encode (hQ : Closed Q) (s s' : St) (h : x12Encode s = .ok s') (hq : Q (key s)) : Q (key s') := by
  unfold x12Encode at h
  split at h
  · cases h
  · rename_i s2 sw hl
    have h2 := q_x12Loop hQ _ _ _ _ hl hq
    dsimp only at h
    repeat' split at h
    all_goals first
      | (cases h; done)
      | (cases h; q_back hQ)

theorem q_tryAsciiEnd (hQ : Closed Q) (s s' : St) (sym : List Nat)
    (h : edifactTryAsciiEnd s sym = .ok (some s')) (hq : Q (key s)) : Q (key s') := by
  unfold edifactTryAsciiEnd at h
  dsimp only at h
  repeat' split at h
  all_goals first
    | (cases h; done)
    | (cases h; q_back hQ)

theorem q_edifactHandleEnd (hQ : Closed Q) (s s' : St) (sym : List Nat)
    (h : edifactHandleEnd s sym = .ok s') (hq : Q (key s)) : Q (key s') := by
  unfold edifactHandleEnd at h
  split at h
  · cases h
  · cases h; exact q_tryAsciiEnd hQ _ _ _ ‹_› hq
  · repeat' split at h
    all_goals first
      | (cases h; done)
      | (cases h; q_back hQ)

theorem q_edifactLoop (hQ : Closed Q) : ∀ (f : Nat) (s : St) (sym : List Nat) (s' : St),
    edifactLoop f s sym = .ok s' → Q (key s) → Q (key s') := by
  intro f
  induction f with
  | zero => intro s sym s' h; cases h
  | succ f ih =>
    intro s sym s' h hq
    unfold edifactLoop at h
    dsimp only at h
    split at h
    · cases h
    · cases h
      rename_i heq
      split at heq
      · exact q_tryAsciiEnd hQ _ _ _ heq hq
      · cases heq
    · repeat' split at h
      all_goals first
        | (cases h; done)
        | (apply ih _ _ _ h; q_back hQ)
        | (apply q_edifactHandleEnd hQ _ _ _ h; q_back hQ)

theorem q_encodeMode (hQ : Closed Q) (s s' : St) (h : encodeMode s = .ok s') (hq : Q (key s)) : Q (key s') := by
  unfold encodeMode at h
  split at h
  · exact q_asciiLoop hQ _ _ _ h hq
  · exact q_c40Loop hQ _ _ _ _ _ _ h hq
  · exact q_c40Loop hQ _ _ _ _ _ _ h hq
  · exact q_x12Encode hQ _ _ h hq
  · exact q_edifactLoop hQ _ _ _ _ h hq
  · exact q_b256Loop hQ _ _ _ _ h (by simpa using hq)


/-- one iteration of the main loop: take the pending latch, run the mode encoder -/
theorem q_latched (hQ : Closed Q) (s : St) (hq : Q (key s)) :
    Q (key (match s.newMode with | some nm => { s with newMode := none }.push nm | none => s)) := by
  split
  · exact hQ.clear _ hq
  · exact hq

theorem q_mainLoop (hQ : Closed Q) : ∀ (f : Nat) (s : St) (k : Nat) (sE : St),
    Enc.mainLoop f s k = .ok sE → Q (key s) → Q (key sE) := by
  intro f
  induction f with
  | zero => intro s k sE h; cases h
  | succ f ih =>
    intro s k sE h hq
    unfold Enc.mainLoop at h
    dsimp only at h
    split at h
    · cases h; exact hq
    · split at h
      · cases h
      · rename_i s' he
        have hq' := q_encodeMode hQ _ _ he (q_latched hQ s hq)
        repeat' split at h
        all_goals first
          | (cases h; done)
          | exact ih _ _ _ h hq'

/-! ### the instance used for C13 / C18 -/

/-- every entry still planned comes from the original plan (or is the `set_ascii_until_end`
marker), and a pending latch is the latch of a mode the original plan names -/
def PV (plan0 : List (Nat × EMode)) : Key → Prop := fun k =>
  (∀ e ∈ k.1, e ∈ plan0 ∨ e = (0, EMode.ascii)) ∧
  (∀ l, k.2.2 = some l → ∃ p m, (p, m) ∈ plan0 ∧ m.latch = some l)

theorem pv_closed (plan0 : List (Nat × EMode)) : Closed (PV plan0) := by
  refine ⟨?_, ?_, ?_⟩
  · intro k hk
    refine ⟨?_, hk.2⟩
    intro e he
    simp only [asciiKey, List.mem_singleton] at he
    exact Or.inr he
  · intro s s1 b h hk
    obtain ⟨h1, h2⟩ := hk
    simp only [key] at h1 h2 ⊢
    unfold St.maybeSwitch at h
    split at h
    · cases h
    · rename_i at_ m restPlan hp
      dsimp only at h
      split at h
      · cases h
      · have hm : (at_, m) ∈ plan0 ∨ (at_, m) = (0, EMode.ascii) := h1 _ (by rw [hp]; simp)
        have hrest : ∀ e ∈ restPlan, e ∈ plan0 ∨ e = (0, EMode.ascii) := fun e he => h1 e (by rw [hp]; simp [he])
        by_cases hc : s.charsLeft > 0 ∧ s.charsLeft = at_
        · rw [if_pos hc] at h
          dsimp only at h
          split at h
          · cases h
            refine ⟨hrest, ?_⟩
            intro l hl
            dsimp only at hl
            split at hl
            · rename_i l' hlat
              cases hl
              rcases hm with hm | hm
              · exact ⟨at_, m, hm, hlat⟩
              · cases hm; cases hlat
            · exact h2 l hl
          · cases h
            exact ⟨hrest, h2⟩
        · rw [if_neg hc] at h
          dsimp only at h
          split at h
          · rename_i hne; exact absurd rfl hne
          · cases h
            exact ⟨h1, h2⟩
  · intro k hk
    exact ⟨hk.1, by intro l hl; cases hl⟩

theorem pv_init (plan0 : List (Nat × EMode)) (m : EMode) : PV plan0 (plan0, m, none) :=
  ⟨fun e he => Or.inl he, by intro l hl; cases hl⟩

end DM.Lemmas.PlanProv
