import DM.Lemmas.PathMicro
import DM.Lemmas.PathCheck
/-
Facts about the edge graph of `DM.Model.Path`: an abstract view (`has g e`), removal of an
edge, parity of the degree of a node, the number of edges, the scan `edgeLeft`, and the
graph of a bitmap (`bitsToEdgeGraph_spec`, `even_degree`).
-/
namespace DM.Lemmas.PathP
open DM.Model.Path

/-- the two edge arrays have the size of the grid -/
def WF (g : Graph) : Prop :=
  g.leftE.size = (g.width + 1) * (g.height + 1) ∧ g.topE.size = (g.width + 1) * (g.height + 1)

/-- abstract view of the graph -/
def has (g : Graph) (e : Edge) : Bool := if e.1 then g.left e.2.1 e.2.2 else g.top e.2.1 e.2.2

/-- the edge a position stands on -/
def pedge (p : Pos) : Edge :=
  (match p.dir with | .up | .down => true | .left | .right => false, p.i, p.j)

theorem hasEdge_eq (g : Graph) (p : Pos) : g.hasEdge p = has g (pedge p) := by
  unfold Graph.hasEdge has pedge
  cases p.dir <;> rfl

theorem mul_add_inj {n x y x' y' : Nat} (hy : y < n) (hy' : y' < n)
    (h : x * n + y = x' * n + y') : x = x' ∧ y = y' := by
  have hn : 0 < n := by omega
  have h1 : (n * x + y) / n = (n * x' + y') / n := by rw [Nat.mul_comm n x, Nat.mul_comm n x', h]
  have h2 : (n * x + y) % n = (n * x' + y') % n := by rw [Nat.mul_comm n x, Nat.mul_comm n x', h]
  rw [Nat.mul_add_div hn, Nat.mul_add_div hn, Nat.div_eq_of_lt hy, Nat.div_eq_of_lt hy'] at h1
  rw [Nat.mul_add_mod, Nat.mul_add_mod, Nat.mod_eq_of_lt hy, Nat.mod_eq_of_lt hy'] at h2
  omega

theorem idx_inj (g : Graph) {i j a b : Int} (h1 : g.hasCell i j = true) (h2 : g.hasCell a b = true) :
    g.idx i j = g.idx a b ↔ (i = a ∧ j = b) := by
  simp only [Graph.hasCell, Bool.and_eq_true, decide_eq_true_eq] at h1 h2
  constructor
  · intro h
    unfold Graph.idx at h
    have := mul_add_inj (n := g.width + 1) (by omega) (by omega) h
    omega
  · rintro ⟨rfl, rfl⟩; rfl

theorem idx_lt (g : Graph) {i j : Int} (h1 : g.hasCell i j = true) :
    g.idx i j < (g.width + 1) * (g.height + 1) := by
  simp only [Graph.hasCell, Bool.and_eq_true, decide_eq_true_eq] at h1
  unfold Graph.idx
  have h2 : i.toNat ≤ g.height := by omega
  have h3 : j.toNat ≤ g.width := by omega
  calc i.toNat * (g.width + 1) + j.toNat
      < i.toNat * (g.width + 1) + (g.width + 1) := by omega
    _ = (i.toNat + 1) * (g.width + 1) := by rw [Nat.add_mul]; omega
    _ ≤ (g.height + 1) * (g.width + 1) := Nat.mul_le_mul_right _ (by omega)
    _ = (g.width + 1) * (g.height + 1) := Nat.mul_comm _ _

theorem getD_setIfInBounds_false (a : Array Bool) (k m : Nat) :
    (a.setIfInBounds k false).getD m false = (a.getD m false && !(decide (k = m))) := by
  simp only [Array.getD_eq_getD_getElem?, Array.getElem?_setIfInBounds]
  by_cases h : k = m
  · subst h
    by_cases h2 : k < a.size <;> simp [h2]
  · simp [h]

@[simp] theorem removeEdge_width (g : Graph) (p : Pos) : (g.removeEdge p).width = g.width := by
  unfold Graph.removeEdge; split
  · cases p.dir <;> rfl
  · rfl
@[simp] theorem removeEdge_height (g : Graph) (p : Pos) : (g.removeEdge p).height = g.height := by
  unfold Graph.removeEdge; split
  · cases p.dir <;> rfl
  · rfl
@[simp] theorem removeEdge_hint (g : Graph) (p : Pos) : (g.removeEdge p).hint = g.hint := by
  unfold Graph.removeEdge; split
  · cases p.dir <;> rfl
  · rfl

theorem removeEdge_WF (g : Graph) (p : Pos) (h : WF g) : WF (g.removeEdge p) := by
  unfold WF at *
  simp only [removeEdge_width, removeEdge_height]
  unfold Graph.removeEdge; split
  · cases p.dir <;> simp [h.1, h.2]
  · exact h

theorem decide_idx_eq (g : Graph) {i j a b : Int} (h1 : g.hasCell i j = true) (h2 : g.hasCell a b = true) :
    decide (g.idx i j = g.idx a b) = (decide (i = a) && decide (j = b)) := by
  have := idx_inj g h1 h2
  by_cases h : g.idx i j = g.idx a b
  · simp [this.1 h]
  · have h3 : ¬ (i = a ∧ j = b) := fun hh => h (this.2 hh)
    by_cases h4 : i = a <;> by_cases h5 : j = b <;> simp_all

theorem left_removeEdge (g : Graph) (p : Pos) (i j : Int) :
    (g.removeEdge p).left i j =
      (g.left i j && !((pedge p).1 && decide (p.i = i) && decide (p.j = j))) := by
  by_cases hc : g.hasCell p.i p.j = true
  · by_cases hv : (pedge p).1 = true
    · have hre : g.removeEdge p = { g with leftE := g.leftE.setIfInBounds (g.idx p.i p.j) false } := by
        unfold Graph.removeEdge; rw [if_pos hc]
        unfold pedge at hv
        cases hd : p.dir <;> simp [hd] at hv <;> rfl
      rw [hre, hv]
      unfold Graph.left
      by_cases hc2 : g.hasCell i j = true
      · have hc2' : Graph.hasCell { g with leftE := g.leftE.setIfInBounds (g.idx p.i p.j) false } i j = true := hc2
        rw [hc2', hc2]
        simp only [Bool.true_and]
        show (g.leftE.setIfInBounds (g.idx p.i p.j) false).getD (g.idx i j) false = _
        rw [getD_setIfInBounds_false, decide_idx_eq g hc hc2]
      · have hc2' : Graph.hasCell { g with leftE := g.leftE.setIfInBounds (g.idx p.i p.j) false } i j = false := by
          have : g.hasCell i j = false := by simpa using hc2
          exact this
        have hc2'' : g.hasCell i j = false := by simpa using hc2
        rw [hc2', hc2'']; rfl
    · have hv' : (pedge p).1 = false := by simpa using hv
      have hre : (g.removeEdge p).left i j = g.left i j := by
        unfold Graph.removeEdge; rw [if_pos hc]
        unfold pedge at hv'
        cases hd : p.dir <;> simp [hd] at hv' <;> rfl
      rw [hre, hv']; simp
  · have hre : g.removeEdge p = g := by unfold Graph.removeEdge; rw [if_neg hc]
    rw [hre]
    by_cases h : p.i = i ∧ p.j = j
    · obtain ⟨rfl, rfl⟩ := h
      have : g.hasCell p.i p.j = false := by simpa using hc
      simp [Graph.left, this]
    · by_cases h4 : p.i = i <;> by_cases h5 : p.j = j <;> simp_all

theorem top_removeEdge (g : Graph) (p : Pos) (i j : Int) :
    (g.removeEdge p).top i j =
      (g.top i j && !(!(pedge p).1 && decide (p.i = i) && decide (p.j = j))) := by
  by_cases hc : g.hasCell p.i p.j = true
  · by_cases hv : (pedge p).1 = false
    · have hre : g.removeEdge p = { g with topE := g.topE.setIfInBounds (g.idx p.i p.j) false } := by
        unfold Graph.removeEdge; rw [if_pos hc]
        unfold pedge at hv
        cases hd : p.dir <;> simp [hd] at hv <;> rfl
      rw [hre, hv]
      unfold Graph.top
      by_cases hc2 : g.hasCell i j = true
      · have hc2' : Graph.hasCell { g with topE := g.topE.setIfInBounds (g.idx p.i p.j) false } i j = true := hc2
        rw [hc2', hc2]
        simp only [Bool.true_and, Bool.not_false]
        show (g.topE.setIfInBounds (g.idx p.i p.j) false).getD (g.idx i j) false = _
        rw [getD_setIfInBounds_false, decide_idx_eq g hc hc2]
      · have hc2' : Graph.hasCell { g with topE := g.topE.setIfInBounds (g.idx p.i p.j) false } i j = false := by
          have : g.hasCell i j = false := by simpa using hc2
          exact this
        have hc2'' : g.hasCell i j = false := by simpa using hc2
        rw [hc2', hc2'']; rfl
    · have hv' : (pedge p).1 = true := by simpa using hv
      have hre : (g.removeEdge p).top i j = g.top i j := by
        unfold Graph.removeEdge; rw [if_pos hc]
        unfold pedge at hv'
        cases hd : p.dir <;> simp [hd] at hv' <;> rfl
      rw [hre, hv']; simp
  · have hre : g.removeEdge p = g := by unfold Graph.removeEdge; rw [if_neg hc]
    rw [hre]
    by_cases h : p.i = i ∧ p.j = j
    · obtain ⟨rfl, rfl⟩ := h
      have : g.hasCell p.i p.j = false := by simpa using hc
      simp [Graph.top, this]
    · by_cases h4 : p.i = i <;> by_cases h5 : p.j = j <;> simp_all

/-- removing an edge removes exactly that edge -/
theorem has_removeEdge (g : Graph) (p : Pos) (e : Edge) :
    has (g.removeEdge p) e = (has g e && !(e == pedge p)) := by
  obtain ⟨v, i, j⟩ := e
  have hb : (((v, i, j) : Edge) == pedge p) =
      (decide (v = (pedge p).1) && decide (p.i = i) && decide (p.j = j)) := by
    rw [Bool.eq_iff_iff]
    simp only [beq_iff_eq, Bool.and_eq_true, decide_eq_true_eq]
    unfold pedge
    constructor
    · intro h; simp only [Prod.mk.injEq] at h; exact ⟨⟨h.1, h.2.1.symm⟩, h.2.2.symm⟩
    · rintro ⟨⟨h1, h2⟩, h3⟩; simp only [Prod.mk.injEq]; exact ⟨h1, h2.symm, h3.symm⟩
  rw [hb]
  unfold has
  cases v
  · simp only [Bool.false_eq_true, if_false]
    rw [top_removeEdge]
    cases (pedge p).1 <;> simp
  · simp only [if_true]
    rw [left_removeEdge]
    cases (pedge p).1 <;> simp

/-! ### parity of the degree -/

/-- parity of the number of edges at a node -/
def par (g : Graph) (n : Node) : Bool :=
  has g (false, n.1, n.2) ^^ has g (false, n.1, n.2 - 1) ^^ has g (true, n.1, n.2) ^^ has g (true, n.1 - 1, n.2)

theorem bxor4 (a b c d : Bool) : ((a ^^ b ^^ c ^^ d) = true) → a = true ∨ b = true ∨ c = true ∨ d = true := by
  cases a <;> cases b <;> cases c <;> cases d <;> simp

/-- the edges at the end node of a position: its own edge and the three continuations -/
theorem par_endNode (g : Graph) (p : Pos) :
    par g p.endNode = (has g (pedge p) ^^ has g (pedge p.straight) ^^ has g (pedge p.turnLeft)
      ^^ has g (pedge p.turnRight)) := by
  obtain ⟨i, j, d⟩ := p
  cases d <;>
    simp only [par, Pos.endNode, pedge, Pos.straight, Pos.turnLeft, Pos.turnRight, Int.add_sub_cancel] <;>
    generalize has g (false, i, j) = x1 <;> generalize has g (false, i, j - 1) = x2 <;>
    generalize has g (true, i, j) = x3 <;> generalize has g (true, i - 1, j) = x4
  · cases x1 <;> cases x2 <;> cases x3 <;> cases x4 <;> rfl
  · generalize has g (false, i + 1, j) = y1 
    generalize has g (false, i + 1, j - 1) = y2
    generalize has g (true, i + 1, j) = y3
    cases y1 <;> cases y2 <;> cases x3 <;> cases y3 <;> rfl
  · generalize has g (false, i, j + 1) = y1 
    generalize has g (true, i, j + 1) = y3
    generalize has g (true, i - 1, j + 1) = y4
    cases y1 <;> cases x1 <;> cases y3 <;> cases y4 <;> rfl

theorem cand_start (p np : Pos) (h : np ∈ [p.straight, p.turnLeft, p.turnRight]) :
    np.startNode = p.endNode := by
  obtain ⟨i, j, d⟩ := p
  simp only [List.mem_cons, List.mem_nil_iff, or_false] at h
  rcases h with rfl | rfl | rfl <;> cases d <;>
    simp [Pos.startNode, Pos.endNode, Pos.flip, Dir.flip, Pos.straight, Pos.turnLeft, Pos.turnRight] <;> omega

theorem start_ne_end (p : Pos) : p.endNode ≠ p.startNode := by
  obtain ⟨i, j, d⟩ := p
  cases d <;> simp [Pos.startNode, Pos.endNode, Pos.flip, Dir.flip] <;> omega

theorem edgeOf_pos (p : Pos) : edgeOf p.startNode p.endNode = pedge p := by
  obtain ⟨i, j, d⟩ := p
  cases d <;> simp [edgeOf, pedge, Pos.startNode, Pos.endNode, Pos.flip, Dir.flip] <;>
    (try (rw [if_neg (by omega)]; simp)) <;> omega

theorem adj_pos (p : Pos) : adj p.startNode p.endNode := by
  obtain ⟨i, j, d⟩ := p
  cases d <;> simp [adj, Pos.startNode, Pos.endNode, Pos.flip, Dir.flip]

theorem canStep_some (g : Graph) (p np : Pos) (h : g.canStep p = some np) :
    has g (pedge np) = true ∧ np.startNode = p.endNode := by
  unfold Graph.canStep at h
  have hm := List.mem_of_mem_head? h
  rw [List.mem_filter] at hm
  exact ⟨by rw [← hasEdge_eq]; exact hm.2, cand_start p np hm.1⟩

theorem follow_fst (g : Graph) (p : Pos) : (g.follow p).1 = g.canStep p := rfl

/-- at a node of odd degree whose incoming edge is gone, `follow` finds a continuation -/
theorem canStep_of_odd (g : Graph) (p : Pos) (hne : has g (pedge p) = false)
    (hpar : par g p.endNode = true) : ∃ np, g.canStep p = some np := by
  rw [par_endNode, hne, Bool.false_xor] at hpar
  unfold Graph.canStep
  cases hh : ([p.straight, p.turnLeft, p.turnRight].filter g.hasEdge).head? with
  | some np => exact ⟨np, rfl⟩
  | none =>
    exfalso
    rw [List.head?_eq_none_iff, List.filter_eq_nil_iff] at hh
    have h1 := hh p.straight (by simp)
    have h2 := hh p.turnLeft (by simp)
    have h3 := hh p.turnRight (by simp)
    rw [hasEdge_eq] at h1 h2 h3
    simp_all

theorem xor_remove (x1 x2 x3 x4 m1 m2 m3 m4 s e : Bool)
    (h1 : m1 = true → x1 = true) (h2 : m2 = true → x2 = true) (h3 : m3 = true → x3 = true)
    (h4 : m4 = true → x4 = true) (hm : (m1 ^^ m2 ^^ m3 ^^ m4) = (s ^^ e)) :
    ((x1 && !m1) ^^ (x2 && !m2) ^^ (x3 && !m3) ^^ (x4 && !m4)) = (x1 ^^ x2 ^^ x3 ^^ x4 ^^ s ^^ e) := by
  cases m1 <;> cases m2 <;> cases m3 <;> cases m4 <;> cases s <;> cases e <;> simp_all

theorem beq_dec {α : Type} [BEq α] [LawfulBEq α] [DecidableEq α] (a b : α) :
    (a == b) = decide (a = b) := by
  rw [Bool.eq_iff_iff]; simp

theorem at_node (p : Pos) (n : Node) :
    ((((false, n.1, n.2) : Edge) == pedge p) ^^ (((false, n.1, n.2 - 1) : Edge) == pedge p) ^^
      (((true, n.1, n.2) : Edge) == pedge p) ^^ (((true, n.1 - 1, n.2) : Edge) == pedge p)) =
    ((n == p.startNode) ^^ (n == p.endNode)) := by
  obtain ⟨a, b⟩ := n
  obtain ⟨i, j, d⟩ := p
  have e1 : ¬ (i + 1 = i) := by omega
  have e2 : ¬ (i - 1 = i) := by omega
  have e3 : ¬ (i = i + 1) := by omega
  have e4 : ¬ (j + 1 = j) := by omega
  have e5 : ¬ (j - 1 = j) := by omega
  have e6 : ¬ (j = j + 1) := by omega
  cases d <;>
    simp only [pedge, Pos.startNode, Pos.endNode, Pos.flip, Dir.flip, beq_dec, Prod.mk.injEq] <;>
    by_cases h1 : a = i <;> by_cases h2 : b = j <;> by_cases h3 : a = i + 1 <;> by_cases h4 : b = j + 1 <;>
    simp [*] <;> omega

theorem par_removeEdge (g : Graph) (p : Pos) (h : has g (pedge p) = true) (n : Node) :
    par (g.removeEdge p) n = (par g n ^^ (n == p.startNode) ^^ (n == p.endNode)) := by
  have key : ∀ e : Edge, (e == pedge p) = true → has g e = true := fun e he => by
    rw [eq_of_beq he]; exact h
  simp only [par, has_removeEdge]
  exact xor_remove _ _ _ _ _ _ _ _ _ _ (key _) (key _) (key _) (key _) (at_node p n)

/-! ### number of edges -/

def cnt (g : Graph) : Nat := g.leftE.toList.count true + g.topE.toList.count true

theorem count_set_false (l : List Bool) (k : Nat) (h : l.getD k false = true) :
    (l.set k false).count true + 1 = l.count true := by
  have hk : k < l.length := by
    by_cases hk : k < l.length
    · exact hk
    · simp [List.getD_eq_getElem?_getD, List.getElem?_eq_none (Nat.le_of_not_lt hk)] at h
  have hv : l[k] = true := by
    simpa [List.getD_eq_getElem?_getD, List.getElem?_eq_getElem hk] using h
  rw [List.count_set hk, hv]
  have : 0 < l.count true := List.count_pos_iff.mpr (hv ▸ List.getElem_mem hk)
  simp; omega

theorem arr_getD_toList (a : Array Bool) (k : Nat) : a.toList.getD k false = a.getD k false := by
  simp [List.getD_eq_getElem?_getD, Array.getD_eq_getD_getElem?]

theorem has_true_left (g : Graph) (i j : Int) (h : has g (true, i, j) = true) :
    g.hasCell i j = true ∧ g.leftE.getD (g.idx i j) false = true := by
  simpa [has, Graph.left] using h

theorem has_true_top (g : Graph) (i j : Int) (h : has g (false, i, j) = true) :
    g.hasCell i j = true ∧ g.topE.getD (g.idx i j) false = true := by
  simpa [has, Graph.top] using h

theorem cnt_removeEdge (g : Graph) (p : Pos) (h : has g (pedge p) = true) :
    cnt (g.removeEdge p) + 1 = cnt g := by
  obtain ⟨i, j, d⟩ := p
  cases d <;> simp only [pedge] at h
  all_goals
    first
    | (obtain ⟨hc, hv⟩ := has_true_left g _ _ h
       simp only [Graph.removeEdge, hc, if_true, cnt, Array.toList_setIfInBounds]
       have := count_set_false g.leftE.toList (g.idx i j) (by rw [arr_getD_toList]; exact hv)
       omega)
    | (obtain ⟨hc, hv⟩ := has_true_top g _ _ h
       simp only [Graph.removeEdge, hc, if_true, cnt, Array.toList_setIfInBounds]
       have := count_set_false g.topE.toList (g.idx i j) (by rw [arr_getD_toList]; exact hv)
       omega)

theorem cnt_le (g : Graph) (h : WF g) : cnt g ≤ 2 * ((g.width + 1) * (g.height + 1)) := by
  unfold cnt
  have h1 := List.count_le_length (a := true) (l := g.leftE.toList)
  have h2 := List.count_le_length (a := true) (l := g.topE.toList)
  simp only [Array.length_toList] at h1 h2
  rw [h.1] at h1; rw [h.2] at h2
  omega

/-! ### edges stay inside the grid -/

def InBoxG (g : Graph) : Prop :=
  ∀ i j, (has g (true, i, j) = true → 0 ≤ i ∧ i < g.height ∧ 0 ≤ j ∧ j ≤ g.width) ∧
         (has g (false, i, j) = true → 0 ≤ i ∧ i ≤ g.height ∧ 0 ≤ j ∧ j < g.width)

theorem has_of_removeEdge (g : Graph) (p : Pos) (e : Edge) (h : has (g.removeEdge p) e = true) :
    has g e = true := by
  rw [has_removeEdge] at h
  simp only [Bool.and_eq_true] at h
  exact h.1

theorem removeEdge_InBoxG (g : Graph) (p : Pos) (h : InBoxG g) : InBoxG (g.removeEdge p) := by
  intro i j
  simp only [removeEdge_width, removeEdge_height]
  exact ⟨fun hh => (h i j).1 (has_of_removeEdge g p _ hh), fun hh => (h i j).2 (has_of_removeEdge g p _ hh)⟩

theorem inBox_of_has (g : Graph) (h : InBoxG g) (p : Pos) (hp : has g (pedge p) = true) :
    inBoxN g.width g.height p.startNode ∧ inBoxN g.width g.height p.endNode := by
  obtain ⟨i, j, d⟩ := p
  cases d <;> simp only [pedge] at hp
  · have := (h i j).1 hp
    simp only [inBoxN, Pos.startNode, Pos.endNode, Pos.flip, Dir.flip]; omega
  · have := (h i j).1 hp
    simp only [inBoxN, Pos.startNode, Pos.endNode, Pos.flip, Dir.flip]; omega
  · have := (h i j).2 hp
    simp only [inBoxN, Pos.startNode, Pos.endNode, Pos.flip, Dir.flip]; omega
  · have := (h i j).2 hp
    simp only [inBoxN, Pos.startNode, Pos.endNode, Pos.flip, Dir.flip]; omega

/-! ### the scan `edgeLeft` -/

def cellEdge (g : Graph) (m : Nat) : Bool := g.leftE.getD m false || g.topE.getD m false

/-- no edge before the scan hint -/
def HintInv (g : Graph) : Prop := ∀ m, m < g.hint → cellEdge g m = false

theorem go_some (g : Graph) (n : Nat) : ∀ f idx k, Graph.edgeLeft.go g n f idx = some k →
    idx ≤ k ∧ k < n ∧ cellEdge g k = true ∧ ∀ m, idx ≤ m → m < k → cellEdge g m = false := by
  intro f
  induction f with
  | zero => intro idx k h; simp [Graph.edgeLeft.go] at h
  | succ f ih =>
    intro idx k h
    unfold Graph.edgeLeft.go at h
    split at h
    · simp at h
    · rename_i hlt
      split at h
      · rename_i hc
        injection h with h
        subst h
        exact ⟨Nat.le_refl _, by omega, hc, fun m h1 h2 => by omega⟩
      · rename_i hc
        obtain ⟨h1, h2, h3, h4⟩ := ih (idx + 1) k h
        refine ⟨by omega, h2, h3, fun m hm1 hm2 => ?_⟩
        by_cases hm : m = idx
        · subst hm; simpa [cellEdge] using hc
        · exact h4 m (by omega) hm2

theorem go_none (g : Graph) (n : Nat) : ∀ f idx, Graph.edgeLeft.go g n f idx = none → n < f + idx →
    ∀ m, idx ≤ m → m < n → cellEdge g m = false := by
  intro f
  induction f with
  | zero => intro idx _ h m h1 h2; omega
  | succ f ih =>
    intro idx h hf m hm1 hm2
    unfold Graph.edgeLeft.go at h
    split at h
    · omega
    · split at h
      · simp at h
      · rename_i hc
        by_cases hm : m = idx
        · subst hm; simpa [cellEdge] using hc
        · exact ih (idx + 1) h (by omega) m (by omega) hm2

theorem div_mod_idx (w k : Nat) : k / (w + 1) * (w + 1) + k % (w + 1) = k := by
  rw [Nat.mul_comm]; exact Nat.div_add_mod k (w + 1)

/-- `edgeLeft` finds an existing edge and only moves the hint -/
theorem edgeLeft_some (g : Graph) (hwf : WF g) (hh : HintInv g) (p : Pos) (g' : Graph)
    (h : g.edgeLeft = (some p, g')) :
    has g (pedge p) = true ∧ (∃ k, g' = { g with hint := k } ∧ HintInv { g with hint := k }) := by
  unfold Graph.edgeLeft at h
  simp only [] at h
  split at h
  · rename_i k hk
    obtain ⟨h1, h2, h3, h4⟩ := go_some g _ _ _ _ hk
    simp only [Prod.mk.injEq, Option.some.injEq] at h
    obtain ⟨hp, hg⟩ := h
    refine ⟨?_, k, hg.symm, ?_⟩
    · have hkn : k < (g.width + 1) * (g.height + 1) := by rw [← hwf.1]; exact h2
      have hcell : g.hasCell ((k / (g.width + 1) : Nat) : Int) ((k % (g.width + 1) : Nat) : Int) = true := by
        simp only [Graph.hasCell, Bool.and_eq_true, decide_eq_true_eq]
        have hq : k / (g.width + 1) < g.height + 1 := by
          rw [Nat.div_lt_iff_lt_mul (by omega)]; rw [Nat.mul_comm]; exact hkn
        have hr : k % (g.width + 1) < g.width + 1 := Nat.mod_lt _ (by omega)
        generalize k / (g.width + 1) = q at hq ⊢
        generalize k % (g.width + 1) = r at hr ⊢
        omega
      have hidx : g.idx ((k / (g.width + 1) : Nat) : Int) ((k % (g.width + 1) : Nat) : Int) = k := by
        simp only [Graph.idx, Int.toNat_natCast]; exact div_mod_idx _ _
      subst hp
      by_cases ht : g.topE.getD k false = true
      · simp only [pedge, ht, if_true, has, Graph.top, hcell, hidx, Bool.true_and, Bool.false_eq_true, if_false]
      · have ht' : g.topE.getD k false = false := by simpa using ht
        have hl : g.leftE.getD k false = true := by simpa [cellEdge, ht'] using h3
        simp only [pedge, ht', Bool.false_eq_true, if_false, has, Graph.left, hcell, hidx, Bool.true_and, if_true, hl]
    · intro m hm
      by_cases hm2 : m < g.hint
      · exact hh m hm2
      · exact h4 m (by omega) hm
  · simp at h

theorem edgeLeft_none (g : Graph) (hwf : WF g) (hh : HintInv g) (g' : Graph)
    (h : g.edgeLeft = (none, g')) : ∀ e, has g e = false := by
  unfold Graph.edgeLeft at h
  simp only [] at h
  split at h
  · simp at h
  · rename_i hk
    have hn := go_none g _ _ _ hk (by omega)
    have hall : ∀ m, cellEdge g m = false := by
      intro m
      by_cases hm : m < g.hint
      · exact hh m hm
      · by_cases hm2 : m < g.leftE.size
        · exact hn m (by omega) hm2
        · have h1 : g.leftE.size ≤ m := by omega
          have h2 : g.topE.size ≤ m := by rw [hwf.2, ← hwf.1]; exact h1
          simp [cellEdge, Array.getD_eq_getD_getElem?, Array.getElem?_eq_none h1, Array.getElem?_eq_none h2]
    intro e
    obtain ⟨v, i, j⟩ := e
    have := hall (g.idx i j)
    simp only [cellEdge, Bool.or_eq_false_iff] at this
    cases v <;> simp [has, Graph.left, Graph.top, this.1, this.2]

theorem removeEdge_HintInv (g : Graph) (p : Pos) (h : HintInv g) : HintInv (g.removeEdge p) := by
  intro m hm
  simp only [removeEdge_hint] at hm
  have := h m hm
  simp only [cellEdge, Bool.or_eq_false_iff] at this ⊢
  unfold Graph.removeEdge
  split
  · cases p.dir <;> simp only [getD_setIfInBounds_false, this.1, this.2, Bool.false_and] <;> simp
  · exact this

/-! ### the graph of a bitmap -/

open DM.Lemmas in
theorem darkAt_bmGet (bits : List Bool) (w h a b : Nat) :
    darkAt bits.toArray w h a b = bmGet bits w h (b : Int) (a : Int) := by
  unfold darkAt bmGet
  by_cases h1 : a < h <;> by_cases h2 : b < w
  · have : (0 : Int) ≤ b ∧ (b : Int) < w ∧ (0 : Int) ≤ a ∧ (a : Int) < h := by omega
    simp [h1, h2, this, List.getD_eq_getElem?_getD, Array.getD_eq_getD_getElem?]
  · have : ¬ ((0 : Int) ≤ b ∧ (b : Int) < w ∧ (0 : Int) ≤ a ∧ (a : Int) < h) := by omega
    simp [h2]
  · simp [h1]
  · simp [h1]

open DM.Lemmas in
theorem bmGet_neg (bits : List Bool) (w h : Nat) (x y : Int) (hx : x < 0 ∨ (w : Int) ≤ x ∨ y < 0 ∨ (h : Int) ≤ y) :
    bmGet bits w h x y = false := by
  unfold bmGet
  rw [if_neg (by omega)]

theorem getD_ofFn {n : Nat} (f : Fin n → Bool) (k : Nat) (hk : k < n) :
    (Array.ofFn f).getD k false = f ⟨k, hk⟩ := by
  simp [Array.getD_eq_getD_getElem?, hk]

theorem idx_div (w a b : Nat) (hb : b ≤ w) : (a * (w + 1) + b) / (w + 1) = a := by
  rw [Nat.mul_comm, Nat.mul_add_div (by omega), Nat.div_eq_of_lt (by omega)]; rfl

theorem idx_mod (w a b : Nat) (hb : b ≤ w) : (a * (w + 1) + b) % (w + 1) = b := by
  rw [Nat.mul_comm, Nat.mul_add_mod, Nat.mod_eq_of_lt (by omega)]

open DM.Lemmas in
/-- the vertical edges of the graph are exactly the dark/light changes within a row
(`i` row, `j` column; all integers, no edge outside the grid) -/
theorem g0_left (bits : List Bool) (w h : Nat) (i j : Int) :
    (bitsToEdgeGraph bits.toArray w h).left i j = (bmGet bits w h (j - 1) i != bmGet bits w h j i) := by
  by_cases hc : 0 ≤ i ∧ i ≤ h ∧ 0 ≤ j ∧ j ≤ w
  · obtain ⟨a, rfl⟩ := Int.eq_ofNat_of_zero_le hc.1
    obtain ⟨b, rfl⟩ := Int.eq_ofNat_of_zero_le hc.2.2.1
    have ha : a ≤ h := by omega
    have hb : b ≤ w := by omega
    have hcell : (bitsToEdgeGraph bits.toArray w h).hasCell (a : Int) (b : Int) = true := by
      simp [Graph.hasCell, bitsToEdgeGraph]; omega
    have hlt : a * (w + 1) + b < (w + 1) * (h + 1) := by
      have := idx_lt _ hcell
      simpa [Graph.idx, bitsToEdgeGraph] using this
    unfold Graph.left
    rw [hcell, Bool.true_and]
    show (Array.ofFn _).getD ((a : Int).toNat * (w + 1) + (b : Int).toNat) false = _
    simp only [Int.toNat_natCast]
    rw [getD_ofFn _ _ hlt]
    simp only [idx_div w a b hb, idx_mod w a b hb, darkAt_bmGet]
    cases b with
    | zero =>
      rw [bmGet_neg bits w h ((0 : Nat) - 1 : Int) a (by omega)]
      simp
    | succ b =>
      have : ((b + 1 : Nat) : Int) - 1 = (b : Int) := by omega
      rw [this]
      simp
  · have hcell : (bitsToEdgeGraph bits.toArray w h).hasCell i j = false := by
      have : (bitsToEdgeGraph bits.toArray w h).hasCell i j =
          (decide (0 ≤ i) && decide (i ≤ (h : Int)) && decide (0 ≤ j) && decide (j ≤ (w : Int))) := rfl
      rw [this, Bool.eq_false_iff]
      simp only [ne_eq, Bool.and_eq_true, decide_eq_true_eq]
      omega
    unfold Graph.left
    rw [hcell, bmGet_neg bits w h (j - 1) i (by omega), bmGet_neg bits w h j i (by omega)]
    rfl

open DM.Lemmas in
theorem g0_top (bits : List Bool) (w h : Nat) (i j : Int) :
    (bitsToEdgeGraph bits.toArray w h).top i j = (bmGet bits w h j (i - 1) != bmGet bits w h j i) := by
  by_cases hc : 0 ≤ i ∧ i ≤ h ∧ 0 ≤ j ∧ j ≤ w
  · obtain ⟨a, rfl⟩ := Int.eq_ofNat_of_zero_le hc.1
    obtain ⟨b, rfl⟩ := Int.eq_ofNat_of_zero_le hc.2.2.1
    have ha : a ≤ h := by omega
    have hb : b ≤ w := by omega
    have hcell : (bitsToEdgeGraph bits.toArray w h).hasCell (a : Int) (b : Int) = true := by
      simp [Graph.hasCell, bitsToEdgeGraph]; omega
    have hlt : a * (w + 1) + b < (w + 1) * (h + 1) := by
      have := idx_lt _ hcell
      simpa [Graph.idx, bitsToEdgeGraph] using this
    unfold Graph.top
    rw [hcell, Bool.true_and]
    show (Array.ofFn _).getD ((a : Int).toNat * (w + 1) + (b : Int).toNat) false = _
    simp only [Int.toNat_natCast]
    rw [getD_ofFn _ _ hlt]
    simp only [idx_div w a b hb, idx_mod w a b hb, darkAt_bmGet]
    cases a with
    | zero =>
      rw [bmGet_neg bits w h b ((0 : Nat) - 1 : Int) (by omega)]
      simp
    | succ a =>
      have : ((a + 1 : Nat) : Int) - 1 = (a : Int) := by omega
      rw [this]
      simp
  · have hcell : (bitsToEdgeGraph bits.toArray w h).hasCell i j = false := by
      have : (bitsToEdgeGraph bits.toArray w h).hasCell i j =
          (decide (0 ≤ i) && decide (i ≤ (h : Int)) && decide (0 ≤ j) && decide (j ≤ (w : Int))) := rfl
      rw [this, Bool.eq_false_iff]
      simp only [ne_eq, Bool.and_eq_true, decide_eq_true_eq]
      omega
    unfold Graph.top
    rw [hcell, bmGet_neg bits w h j (i - 1) (by omega), bmGet_neg bits w h j i (by omega)]
    rfl

open DM.Lemmas in
/-- **(a)** the graph built from a bitmap has exactly the boundary edges of `PathCheck.lean` -/
theorem bitsToEdgeGraph_spec (bits : List Bool) (w h x y : Nat) :
    (bitsToEdgeGraph bits.toArray w h).left y x = vBoundary bits w h x y ∧
    (bitsToEdgeGraph bits.toArray w h).top y x = hBoundary bits w h x y :=
  ⟨g0_left bits w h y x, g0_top bits w h y x⟩

/-- **(b)** every grid node has even degree in the boundary graph -/
theorem even_degree (bits : List Bool) (w h : Nat) (n : Node) :
    par (bitsToEdgeGraph bits.toArray w h) n = false := by
  simp only [par, has, if_true, Bool.false_eq_true, if_false, g0_left, g0_top]
  generalize DM.Lemmas.bmGet bits w h n.2 n.1 = a
  generalize DM.Lemmas.bmGet bits w h n.2 (n.1 - 1) = b
  generalize DM.Lemmas.bmGet bits w h (n.2 - 1) n.1 = c
  generalize DM.Lemmas.bmGet bits w h (n.2 - 1) (n.1 - 1) = d
  cases a <;> cases b <;> cases c <;> cases d <;> rfl

theorem g0_WF (bits : Array Bool) (w h : Nat) : WF (bitsToEdgeGraph bits w h) := by
  simp [WF, bitsToEdgeGraph]

open DM.Lemmas in
theorem bmGet_true (bits : List Bool) (w h : Nat) (x y : Int) (hx : bmGet bits w h x y = true) :
    0 ≤ x ∧ x < w ∧ 0 ≤ y ∧ y < h := by
  unfold bmGet at hx
  split at hx
  · assumption
  · simp at hx

open DM.Lemmas in
theorem g0_InBoxG (bits : List Bool) (w h : Nat) : InBoxG (bitsToEdgeGraph bits.toArray w h) := by
  intro i j
  have hw : (bitsToEdgeGraph bits.toArray w h).width = w := rfl
  have hh : (bitsToEdgeGraph bits.toArray w h).height = h := rfl
  rw [hw, hh]
  constructor
  · intro hl
    have hl' : (bitsToEdgeGraph bits.toArray w h).left i j = true := hl
    rw [g0_left] at hl'
    by_cases h1 : bmGet bits w h (j - 1) i = true
    · have := bmGet_true _ _ _ _ _ h1; omega
    · by_cases h2 : bmGet bits w h j i = true
      · have := bmGet_true _ _ _ _ _ h2; omega
      · simp_all
  · intro hl
    have hl' : (bitsToEdgeGraph bits.toArray w h).top i j = true := hl
    rw [g0_top] at hl'
    by_cases h1 : bmGet bits w h j (i - 1) = true
    · have := bmGet_true _ _ _ _ _ h1; omega
    · by_cases h2 : bmGet bits w h j i = true
      · have := bmGet_true _ _ _ _ _ h2; omega
      · simp_all

/-- with a dark top-left module the scan starts at cell 0 -/
theorem g0_hint (bits : List Bool) (w h : Nat) (hpos : 0 < w * h) (htl : bits.head? = some true) :
    (bitsToEdgeGraph bits.toArray w h).hint = 0 := by
  obtain ⟨m, hm⟩ : ∃ m, w * h = m + 1 := ⟨w * h - 1, by omega⟩
  have h0 : bits.toArray.getD 0 false = true := by
    cases bits with
    | nil => simp at htl
    | cons b r => simp at htl; simp [htl]
  simp only [bitsToEdgeGraph, hm, List.range_succ_eq_map, List.find?_cons_of_pos (p := fun idx => bits.toArray.getD idx false) h0]
  simp

end DM.Lemmas.PathP
