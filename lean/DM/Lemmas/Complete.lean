import DM.Lemmas.CompleteAscii
import DM.Lemmas.CompleteC40
import DM.Lemmas.CompleteB256
import DM.Lemmas.CompleteEdifact
/-
Decoder completeness: composition of the per-item segment lemmas over a whole script of the
reference builder (`DM/Spec/Build.lean`).
-/
namespace DM.Lemmas.Complete
open DM.Model.Dec DM.Gen DM.Lemmas DM.Lemmas.DecRun DM.Spec.Build DM.Lemmas.AsciiRT

/-- the codewords `emit` appends for an item when `pos` codewords precede it -/
def emitAt (pos : Nat) : Item → List Nat
  | .ascii pair b => asciiCw pair b
  | .c40 text b un => [if text then 239 else 230] ++ packTriples (b.flatMap (c40Vals text)) ++ (if un then [254] else [])
  | .x12 b un => [238] ++ packTriples (b.filterMap x12Val) ++ (if un then [254] else [])
  | .edifact b un => [240] ++ ediCw b un
  | .base256 b toEnd => [231] ++ randFrom (pos + 2) (b256Hdr b toEnd ++ b)

/-- legality of an item given the codewords that follow it in the symbol -/
def ItemOK (it : Item) (tail : List Nat) : Prop :=
  match it with
  | .ascii _ b => ByteList b
  | .c40 text b un => C40OK text b un tail
  | .x12 b un => X12Native b ∧ b.length % 3 = 0 ∧ TripleTail un tail
  | .edifact b un => EdiOK b un tail
  | .base256 b toEnd => B256OK b toEnd tail

theorem emit_eq (cw : List Nat) (it : Item) (tail : List Nat) (h : ItemOK it tail) :
    emit cw it = cw ++ emitAt cw.length it := by
  cases it with
  | ascii pair b => rfl
  | c40 text b un => simp [emit, emitAt, List.append_assoc]
  | x12 b un => simp [emit, emitAt, List.append_assoc]
  | edifact b un =>
    have hun : un = false → b.length % 4 = 0 := by
      intro hu
      have := h.2
      rw [hu] at this
      exact this.1
    have := ediEmit_eq b un hun
    simp only [emit, emitAt]
    cases un with
    | true =>
      simp only [↓reduceIte] at this ⊢
      rw [this, List.append_assoc]
    | false =>
      simp only [Bool.false_eq_true, ↓reduceIte] at this ⊢
      rw [this, List.append_assoc]
  | base256 b toEnd =>
    simp only [emit, emitAt, b256Hdr]
    rw [List.append_assoc]
    congr 2
    have := zipIdx_rand (cw.length + 1) ((if toEnd = true then [0]
      else if b.length ≤ 249 then [b.length] else [b.length / 250 + 249, b.length % 250]) ++ b) 0
    rw [← this]

theorem item_seg (pos : Nat) (it : Item) (tail : List Nat) (out : List Nat) (ecis : List (Nat × Nat))
    (h : ItemOK it tail) :
    decRun .ascii { rest := emitAt pos it ++ tail, eaten := pos, out := out, ecis := ecis } =
    decRun .ascii { rest := tail, eaten := pos + (emitAt pos it).length, out := out ++ it.bytes, ecis := ecis } := by
  cases it with
  | ascii pair b => exact seg_ascii pair b tail h pos out ecis
  | c40 text b un =>
    have := seg_c40 text b un tail pos out ecis h
    simp only [emitAt, Item.bytes]
    rw [this]
    simp only [List.length_append, List.length_singleton]
    congr 2
    cases un <;> simp <;> omega
  | x12 b un =>
    obtain ⟨h1, h2, h3⟩ := h
    have hl : b.length = 3 * (b.length / 3) := by omega
    have := seg_x12 b un tail pos out ecis (b.length / 3) hl h1 h3
    simp only [emitAt, Item.bytes]
    rw [this]
    have hpl := packTriples_length (b.length / 3) (b.filterMap x12Val) (by rw [filterMap_native_length b h1]; exact hl)
    simp only [List.length_append, List.length_singleton, hpl]
    congr 2
    cases un <;> simp <;> omega
  | edifact b un =>
    have := seg_edifact b un tail pos out ecis h
    simp only [emitAt, Item.bytes]
    rw [this]
    simp only [List.length_append, List.length_singleton]
  | base256 b toEnd =>
    have := seg_b256 b tail toEnd pos out ecis h
    simp only [emitAt, Item.bytes]
    rw [this]
    simp only [List.length_append, List.length_singleton, randFrom_length]
    congr 2
    omega

/-- all items, each placed after the previous ones -/
def emitAll : Nat → List Item → List Nat
  | _, [] => []
  | pos, it :: rest => emitAt pos it ++ emitAll (pos + (emitAt pos it).length) rest

/-- every item is legal in front of what follows it (`pads` = the padding area) -/
def ItemsOK : Nat → List Item → List Nat → Prop
  | _, [], _ => True
  | pos, it :: rest, pads =>
    ItemOK it (emitAll (pos + (emitAt pos it).length) rest ++ pads) ∧ ItemsOK (pos + (emitAt pos it).length) rest pads

theorem foldl_emit : ∀ (items : List Item) (cw pads : List Nat), ItemsOK cw.length items pads →
    items.foldl emit cw = cw ++ emitAll cw.length items := by
  intro items
  induction items with
  | nil => intro cw pads _; simp [emitAll]
  | cons it rest ih =>
    intro cw pads h
    obtain ⟨h1, h2⟩ := h
    rw [List.foldl_cons, emit_eq cw it _ h1]
    have hlen : (cw ++ emitAt cw.length it).length = cw.length + (emitAt cw.length it).length := by simp
    rw [ih (cw ++ emitAt cw.length it) pads (by rw [hlen]; exact h2), hlen]
    simp [emitAll, List.append_assoc]

theorem items_seg : ∀ (items : List Item) (pos : Nat) (pads out : List Nat) (ecis : List (Nat × Nat)),
    ItemsOK pos items pads →
    decRun .ascii { rest := emitAll pos items ++ pads, eaten := pos, out := out, ecis := ecis } =
    decRun .ascii { rest := pads, eaten := pos + (emitAll pos items).length,
                    out := out ++ items.flatMap Item.bytes, ecis := ecis } := by
  intro items
  induction items with
  | nil => intro pos pads out ecis _; simp [emitAll]
  | cons it rest ih =>
    intro pos pads out ecis h
    obtain ⟨h1, h2⟩ := h
    simp only [emitAll, List.append_assoc]
    rw [item_seg pos it _ out ecis h1, ih _ pads _ ecis h2]
    simp only [List.length_append, List.flatMap_cons, List.append_assoc]
    congr 2
    omega

end DM.Lemmas.Complete
