import Mathlib.Algebra.Field.Defs
import Mathlib.Algebra.BigOperators.Ring.Finset
/-
The Björck–Pereyra algorithm for the system  Σ_l y_l · x_l^(i+1) = b_i  (i < e), written on
functions `ℕ → F` over an arbitrary field: the three stages of `find_error_values_bp`
as simultaneous updates.  (Definitions only; correctness is in `BPAlg.lean`, the connection with
the list-based model in `BPBridge.lean`.)
-/
namespace DM.Lemmas.BP

variable {F : Type} [Field F]

/-- stage 1, step `k`:  b_j := b_j − x_k·b_{j−1}  for  k+1 ≤ j < e  (all from the old values) -/
def s1Step (e : ℕ) (x : ℕ → F) (k : ℕ) (b : ℕ → F) : ℕ → F :=
  fun j => if k + 1 ≤ j ∧ j < e then b j - x k * b (j - 1) else b j

/-- stage 2, step `k`, first sweep:  b_j := b_j / (x_j − x_{j−k−1})  for  k+1 ≤ j < e -/
def s2Div (e : ℕ) (x : ℕ → F) (k : ℕ) (b : ℕ → F) : ℕ → F :=
  fun j => if k + 1 ≤ j ∧ j < e then b j / (x j - x (j - k - 1)) else b j

/-- stage 2, step `k`, second sweep:  b_j := b_j − b_{j+1}  for  k ≤ j < e−1  (old values) -/
def s2Sub (e : ℕ) (k : ℕ) (b : ℕ → F) : ℕ → F :=
  fun j => if k ≤ j ∧ j + 1 < e then b j - b (j + 1) else b j

/-- stage 1 with steps k = 0, 1, …, n−1 (in this order) -/
def stage1 (e : ℕ) (x : ℕ → F) : ℕ → (ℕ → F) → (ℕ → F)
  | 0, b => b
  | n + 1, b => s1Step e x n (stage1 e x n b)

/-- stage 2 with steps k = n−1, n−2, …, 0 (in this order) -/
def stage2 (e : ℕ) (x : ℕ → F) : ℕ → (ℕ → F) → (ℕ → F)
  | 0, b => b
  | n + 1, b => stage2 e x n (s2Sub e n (s2Div e x n b))

/-- the whole algorithm: stage 1 and 2 with `e − 1` steps each, then division by the node -/
def bp (e : ℕ) (x : ℕ → F) (b : ℕ → F) : ℕ → F :=
  fun l => stage2 e x (e - 1) (stage1 e x (e - 1) b) l / x l

end DM.Lemmas.BP
