import DM.Lemmas.RSTot
/-
`bjorckPereyra` for a single error location, by computation; a list fact about `zipWith`.
-/
namespace DM.Lemmas.RSTot
set_option linter.unusedSimpArgs false
set_option linter.unusedVariables false
open DM.Model DM.Model.RS DM.Lemmas DM.Lemmas.RSTotal

theorem zipWith_take_left {α β γ} (f : α → β → γ) (l : List α) (b : List β) :
    List.zipWith f (l.take b.length) b = List.zipWith f l b := by
  induction l generalizing b with
  | nil => simp
  | cons x l ih =>
    cases b with
    | nil => simp
    | cons y b => simp only [List.length_cons, List.take_succ_cons, List.zipWith_cons_cons, ih]

theorem bjorckPereyra_one (z : Nat) (syn : List Nat) (hz : z ≠ 0) (hlen : 1 ≤ syn.length) :
    bjorckPereyra [z] syn = .ok ([gdivD 1 z], syn.set 0 (gdivD (syn.getD 0 0) (gdivD 1 z))) := by
  have hx : gdivD 1 z ≠ 0 := gdivD_ne_zero (by decide) hz
  rcases syn with _ | ⟨a, rest⟩
  · simp at hlen
  · unfold bjorckPereyra
    simp [at', div', gdiv_eq_some hz, gdiv_eq_some hx, List.range_succ]
    simp only [bind, Except.bind, List.getElem?_cons_zero, Option.getD_some,
      gdiv_eq_some hx, Functor.map, Except.map]

end DM.Lemmas.RSTot
