import DM.Model.Finder
import DM.Spec.FinderSpec
import DM.Lemmas.WriteRead
/-
Per-size certificate for rendering/parsing, and bit set lemmas.
-/
namespace DM.Lemmas
open DM.Model DM.Spec

def toStdRow (r : DM.Gen.SizeRow) : StdRow :=
  ⟨r.height, r.width, r.extraH + 1, r.extraV + 1, r.dataCw, r.blocks * r.eccPer, r.blocks⟩

theorem testBit_setBits (ps : List Nat) (m q : Nat) :
    (setBits m ps).testBit q = (m.testBit q || ps.contains q) := by
  induction ps generalizing m with
  | nil => simp [setBits]
  | cons p ps ih =>
    have : setBits m (p :: ps) = setBits (m ||| (1 <<< p)) ps := rfl
    rw [this, ih, testBit_or_shift]
    simp only [List.contains_cons, Bool.or_assoc]
    congr 1
    by_cases h : p = q
    · subst h; simp
    · have h' : ¬ q = p := fun e => h e.symm
      simp [h, h']

/-- One pass over the three cell lists (render order, parse order, specification order):
they are equal element by element, in range, without repetition. Returns the bit set of the
cells and their number through the continuation (so that the kernel computes them once). -/
def cellsPass (n : Nat) (k : Nat → Nat → Bool) : List Nat → List Nat → List Nat → Nat → Nat → Bool
  | [], [], [], bits, len => k bits len
  | a :: as, b :: bs, c :: cs, bits, len =>
    a == b && a == c && decide (a < n) && !bits.testBit a && cellsPass n k as bs cs (bits ||| (1 <<< a)) (len + 1)
  | _, _, _, _, _ => false

/-- evaluate a natural number once (the kernel reduces the scrutinee of a match to a literal) -/
def forceNat (n : Nat) (k : Nat → Bool) : Bool :=
  match n with
  | 0 => k 0
  | m + 1 => k (m + 1)

theorem forceNat_eq (n : Nat) (k : Nat → Bool) : forceNat n k = k n := by
  cases n <;> rfl

/-- the certificate the kernel evaluates for each size -/
def finderOK (s : Sym) : Bool :=
  let d := fdims s
  let r := toStdRow (row s)
  let n := d.H * d.W
  forceNat (constHigh s) fun ch =>
  cellsPass n (fun cellBits len =>
      len == d.w * d.h
      && (alignChecks s).all (fun q =>
            decide (q.1 < n) && !cellBits.testBit q.1 && (ch.testBit q.1 == q.2))
      && setBits cellBits ((alignChecks s).map Prod.fst) == 2 ^ n - 1)
    (cellPos s) (takes s) (finderCells r) 0 0
  && ch == finderDark r
  && sizeByDims d.W d.H == some s
  && decide (0 < d.W)

end DM.Lemmas
