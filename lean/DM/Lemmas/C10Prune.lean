import DM.Lemmas.C10Live
/-!
What pruning (`remove_hopeless_cases`) does to an ASCII candidate (used by `DM/Props/C10Ascii.lean`): the
logged permutation is onto and sorts by cost; a candidate in ASCII mode is only ever removed in favour of
a plan that is kept and is either an ASCII plan of at most its cost (deduplication, dominance by a plan of
the same mode) or a plan of another mode whose `switchCost` is below its cost (dominance). `prune_ascii`
states this for an arbitrary property `Q` that is inherited along these two relations.  Also: the
cheapest candidate survives, and `pickBest` returns a plan of minimal `ceil12 cost`.
-/
namespace DM.Lemmas.C10Prune
open DM.Model DM.Model.Plan DM.Model.Enc DM.Lemmas.PlanInv DM.Lemmas.PlanLoop

/-! ### the sort permutation -/

theorem nodup_subset_length : ∀ (l L : List Nat), l.Nodup → (∀ x ∈ l, x ∈ L) → l.length ≤ L.length := by
  intro l
  induction l with
  | nil => intro L _ _; simp
  | cons a t ih =>
    intro L hn hs
    have ha : a ∈ L := hs a (List.mem_cons_self ..)
    have hnd := List.nodup_cons.mp hn
    have h1 := ih (L.erase a) hnd.2 (fun x hx =>
      (List.mem_erase_of_ne (by intro h; subst h; exact hnd.1 hx)).mpr (hs x (List.mem_cons_of_mem _ hx)))
    rw [List.length_erase_of_mem ha] at h1
    have : 0 < L.length := List.length_pos_of_mem ha
    simp only [List.length_cons]
    omega

theorem perm_surj (perm : List Nat) (n : Nat) (hlen : perm.length = n) (hall : ∀ x ∈ perm, x < n)
    (hnd : perm.Nodup) : ∀ i, i < n → i ∈ perm := by
  intro i hi
  apply Classical.byContradiction
  intro hni
  have h1 := nodup_subset_length perm ((List.range n).erase i) hnd (fun x hx =>
    (List.mem_erase_of_ne (by intro h; subst h; exact hni hx)).mpr (List.mem_range.mpr (hall x hx)))
  rw [List.length_erase_of_mem (List.mem_range.mpr hi), List.length_range] at h1
  omega

theorem chain_pairwise : ∀ l : List Nat, ((l.zip l.tail).all fun (a, b) => decide (a ≤ b)) = true →
    l.Pairwise (· ≤ ·) := by
  intro l
  induction l with
  | nil => intro _; exact List.Pairwise.nil
  | cons a t ih =>
    intro h
    cases t with
    | nil => simp
    | cons b t =>
      simp only [List.tail_cons, List.zip_cons_cons, List.all_cons, Bool.and_eq_true, decide_eq_true_eq] at h
      have hp := ih (by simpa using h.2)
      rw [List.pairwise_cons] at hp ⊢
      refine ⟨?_, List.pairwise_cons.mpr hp⟩
      intro x hx
      rcases List.mem_cons.mp hx with rfl | hx
      · exact h.1
      · exact Nat.le_trans h.1 (hp.1 x hx)

theorem applyPerm_spec {cands sorted : List GPlan} {perm : List Nat} (h : applyPerm cands perm = .ok sorted) :
    (∀ c ∈ cands, c ∈ sorted) ∧ (∀ c ∈ sorted, c ∈ cands) ∧ sorted.Pairwise (fun a b => a.cost ≤ b.cost) := by
  unfold applyPerm at h
  split at h
  · cases h
  · rename_i hlen
    split at h
    · cases h
    · rename_i hall
      simp only [] at h
      split at h
      · rename_i hsorted
        cases h
        simp only [ne_eq, Decidable.not_not] at hlen
        simp only [Bool.not_eq_eq_eq_not, Bool.not_true, not_or, Bool.not_eq_false,
          List.all_eq_true, decide_eq_true_eq] at hall
        have hnd : perm.Nodup := by simpa using hall.2
        refine ⟨?_, ?_, ?_⟩
        · intro c hc
          obtain ⟨i, hi, rfl⟩ := List.mem_iff_getElem.mp hc
          exact List.mem_filterMap.mpr ⟨i, perm_surj perm cands.length hlen hall.1 hnd i hi,
            List.getElem?_eq_getElem hi⟩
        · intro c hc
          obtain ⟨i, _, hi⟩ := List.mem_filterMap.mp hc
          exact List.mem_of_getElem? hi
        · have := chain_pairwise _ hsorted
          exact List.pairwise_map.mp this
      · cases h

/-! ### deduplication -/

theorem pkey_current {f c : GPlan} (h : pkey f = pkey c) : f.current = c.current := by
  unfold pkey at h
  have a := modeIndex_lt f.current
  have b := modeIndex_lt c.current
  have : modeIndex f.current = modeIndex c.current := by omega
  revert this
  cases f.current <;> cases c.current <;> simp [modeIndex]

theorem dedup_chain : ∀ (l : List GPlan) (seen : List Nat), l.Pairwise (fun a b => a.cost ≤ b.cost) →
    ∀ c ∈ l, pkey c ∉ seen → ∃ f ∈ dedupPlans l seen, pkey f = pkey c ∧ f.cost ≤ c.cost := by
  intro l
  induction l with
  | nil => intro seen _ c hc; cases hc
  | cons p ps ih =>
    intro seen hpw c hc hns
    rw [List.pairwise_cons] at hpw
    unfold dedupPlans
    simp only []
    have hk : modeIndex p.startMode * 6 + modeIndex p.current = pkey p := rfl
    rw [hk]
    by_cases hseen : seen.contains (pkey p) = true
    · rw [if_pos hseen]
      rcases List.mem_cons.mp hc with rfl | hc
      · exact absurd (by simpa using hseen) hns
      · exact ih seen hpw.2 c hc hns
    · rw [if_neg hseen]
      rcases List.mem_cons.mp hc with rfl | hc
      · exact ⟨c, List.mem_cons_self .., rfl, Nat.le_refl _⟩
      · by_cases hkc : pkey c = pkey p
        · exact ⟨p, List.mem_cons_self .., hkc.symm, hpw.1 c hc⟩
        · obtain ⟨f, hf, h1, h2⟩ := ih (pkey p :: seen) hpw.2 c hc (by
            intro hm
            rcases List.mem_cons.mp hm with hm | hm
            · exact hkc hm
            · exact hns hm)
          exact ⟨f, List.mem_cons_of_mem _ hf, h1, h2⟩

theorem dedup_head (p : GPlan) (ps : List GPlan) : p ∈ dedupPlans (p :: ps) [] := by
  simp [dedupPlans]

/-! ### dominance -/

theorem dominance_chain (first : GPlan) : ∀ (l : List GPlan), ∀ c ∈ l,
    c ∈ (dominancePlans first l).1 ∨ ∃ x, first.costForSwitchingTo c.current = some x ∧ x < c.cost := by
  intro l
  induction l with
  | nil => intro c hc; cases hc
  | cons s rest ih =>
    intro c hc
    unfold dominancePlans
    split
    · rename_i x hx
      simp only
      rcases List.mem_cons.mp hc with rfl | hc
      · by_cases hlt : x < c.cost
        · exact Or.inr ⟨x, hx, hlt⟩
        · rw [if_neg hlt]; exact Or.inl (List.mem_cons_self ..)
      · rcases ih c hc with h | h
        · left
          split
          · exact h
          · exact List.mem_cons_of_mem _ h
        · exact Or.inr h
    · exact Or.inl hc

theorem phase2_pre : ∀ (f : Nat) (pre l : List GPlan), ∀ x ∈ pre, x ∈ phase2Plans f pre l := by
  intro f
  induction f with
  | zero => intro pre l x hx; unfold phase2Plans; exact List.mem_append_left _ hx
  | succ f ih =>
    intro pre l x hx
    unfold phase2Plans
    cases l with
    | nil => exact hx
    | cons first rest =>
      simp only
      split
      · exact List.mem_append_left _ hx
      · split
        · exact ih _ _ x (List.mem_append_left _ hx)
        · exact List.mem_append_left _ hx

theorem phase2_head (f : Nat) (pre : List GPlan) (first : GPlan) (rest : List GPlan) :
    first ∈ phase2Plans f pre (first :: rest) := by
  cases f with
  | zero => unfold phase2Plans; simp
  | succ f =>
    unfold phase2Plans
    simp only
    split
    · simp
    · split
      · exact phase2_pre _ _ _ first (by simp)
      · simp

/-- `Q` is inherited by whatever removes an ASCII plan -/
structure Inherit (cands : List GPlan) (Q : GPlan → Prop) : Prop where
  same : ∀ f ∈ cands, ∀ c ∈ cands, Q c → c.current = .ascii → f.current = .ascii → f.cost ≤ c.cost → Q f
  other : ∀ f ∈ cands, ∀ c ∈ cands, Q c → c.current = .ascii → f.current ≠ .ascii →
    ∀ s, f.switchCost = some s → s < c.cost → Q f

theorem phase2_chain {cands : List GPlan} {Q : GPlan → Prop} (hQ : Inherit cands Q) :
    ∀ (f : Nat) (pre l : List GPlan), (∀ x ∈ l, x ∈ cands) →
      ∀ d ∈ l, Q d → d.current = .ascii → ∃ d' ∈ phase2Plans f pre l, Q d' := by
  intro f
  induction f with
  | zero =>
    intro pre l _ d hd hq _
    unfold phase2Plans
    exact ⟨d, List.mem_append_right _ hd, hq⟩
  | succ f ih =>
    intro pre l hl d hd hq hda
    cases l with
    | nil => cases hd
    | cons first rest =>
      rcases List.mem_cons.mp hd with rfl | hdr
      · exact ⟨d, phase2_head _ _ _ _, hq⟩
      · have hfirst : Q first → ∃ d' ∈ phase2Plans (f + 1) pre (first :: rest), Q d' :=
          fun h => ⟨first, phase2_head _ _ _ _, h⟩
        rcases dominance_chain first rest d hdr with hk | ⟨x, hx, hlt⟩
        · unfold phase2Plans
          simp only
          split
          · exact ⟨d, List.mem_append_right _ hd, hq⟩
          · split
            · exact ih _ _ (fun x hx => hl x (List.mem_cons_of_mem _
                ((dominancePlans_sublist first rest).subset hx))) d hk hq hda
            · exact ⟨d, List.mem_append_right _ (List.mem_cons_of_mem _ hk), hq⟩
        · apply hfirst
          have hfc := hl first (List.mem_cons_self ..)
          have hdc := hl d hd
          unfold GPlan.costForSwitchingTo at hx
          rw [hda] at hx
          by_cases hfa : first.current = .ascii
          · rw [if_pos hfa] at hx
            simp only [Option.some.injEq] at hx
            exact hQ.same first hfc d hdc hq hda hfa (by omega)
          · rw [if_neg hfa] at hx
            simp only [] at hx
            exact hQ.other first hfc d hdc hq hda hfa x hx hlt

/-- an ASCII candidate with property `Q` leaves a live plan with property `Q` -/
theorem prune_ascii {cands live : List GPlan} {perm : List Nat} {Q : GPlan → Prop} (hQ : Inherit cands Q)
    (h : removeHopelessPlans cands perm = .ok live) :
    ∀ c ∈ cands, Q c → c.current = .ascii → ∃ c' ∈ live, Q c' := by
  intro c hc hq hca
  unfold removeHopelessPlans at h
  cases ha : applyPerm cands perm with
  | error e => rw [ha] at h; cases h
  | ok sorted =>
    rw [ha] at h
    simp only [Except.ok.injEq] at h
    subst h
    obtain ⟨h1, h2, h3⟩ := applyPerm_spec ha
    obtain ⟨f, hf, hk, hle⟩ := dedup_chain sorted [] h3 c (h1 c hc) (by simp)
    have hsub : ∀ x ∈ dedupPlans sorted [], x ∈ cands :=
      fun x hx => h2 x ((dedupPlans_sublist sorted []).subset hx)
    have hfa : f.current = .ascii := by rw [pkey_current hk]; exact hca
    exact phase2_chain hQ _ [] _ hsub f hf (hQ.same f (hsub f hf) c hc hq hca hfa hle) hfa

/-- the cheapest candidate survives -/
theorem prune_cheapest {cands live : List GPlan} {perm : List Nat}
    (h : removeHopelessPlans cands perm = .ok live) :
    ∀ c ∈ cands, ∃ c' ∈ live, c'.cost ≤ c.cost := by
  intro c hc
  unfold removeHopelessPlans at h
  cases ha : applyPerm cands perm with
  | error e => rw [ha] at h; cases h
  | ok sorted =>
    rw [ha] at h
    simp only [Except.ok.injEq] at h
    subst h
    obtain ⟨h1, _, h3⟩ := applyPerm_spec ha
    have hcs := h1 c hc
    cases sorted with
    | nil => cases hcs
    | cons p ps =>
      have hd : dedupPlans (p :: ps) [] = p :: dedupPlans ps [pkey p] := by simp [dedupPlans, pkey]
      refine ⟨p, ?_, ?_⟩
      · rw [hd]; exact phase2_head _ _ _ _
      · rcases List.mem_cons.mp hcs with rfl | hcs
        · exact Nat.le_refl _
        · exact (List.pairwise_cons.mp h3).1 c hcs

/-! ### `pickBest` -/

theorem pickBest_min (l : List GPlan) (b : GPlan) (h : pickBest l = some b) :
    ∀ c ∈ l, ceil12 b.cost ≤ ceil12 c.cost := by
  cases l with
  | nil => simp [pickBest] at h
  | cons p ps =>
    simp only [pickBest, Option.some.injEq] at h
    subst h
    suffices ∀ (ps : List GPlan) (p : GPlan),
        (∀ c ∈ p :: ps, ceil12 (ps.foldl (fun best g =>
          if ((ceil12 g.cost < ceil12 best.cost) || (ceil12 g.cost == ceil12 best.cost &&
            (maxIndex g.switches < maxIndex best.switches || (maxIndex g.switches == maxIndex best.switches &&
              decide (g.switches.length < best.switches.length))))) = true then g else best) p).cost ≤ ceil12 c.cost) by
      simpa using this ps p
    intro ps
    induction ps with
    | nil => intro p c hc; simp only [List.mem_singleton] at hc; subst hc; simp
    | cons q qs ih =>
      intro p c hc
      simp only [List.foldl_cons]
      split
      · rename_i hlt
        have hqp : ceil12 q.cost ≤ ceil12 p.cost := by
          simp only [Bool.or_eq_true, decide_eq_true_eq, Bool.and_eq_true, beq_iff_eq] at hlt
          rcases hlt with h | h
          · omega
          · omega
        rcases List.mem_cons.mp hc with rfl | hc
        · exact Nat.le_trans (ih q q (List.mem_cons_self ..)) hqp
        · exact ih q c hc
      · rename_i hlt
        have hpq : ceil12 p.cost ≤ ceil12 q.cost := by
          simp only [Bool.or_eq_true, decide_eq_true_eq, Bool.and_eq_true, beq_iff_eq, not_or] at hlt
          omega
        rcases List.mem_cons.mp hc with rfl | hc
        · exact ih c c (List.mem_cons_self ..)
        · rcases List.mem_cons.mp hc with rfl | hc
          · exact Nat.le_trans (ih p p (List.mem_cons_self ..)) hpq
          · exact ih p c (List.mem_cons_of_mem _ hc)

end DM.Lemmas.C10Prune
