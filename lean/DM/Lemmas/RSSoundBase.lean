import DM.Lemmas.RSTotal
import DM.Lemmas.RSDist
/-
Infrastructure for the soundness proof of the Reed–Solomon decoder model:
partial-correctness triples (`Post`), bytes, and the translation of the model's
`gadd`/`gmul`/`gdiv` expressions on `Nat` lists into sums in the field `GF`.
-/
namespace DM.Lemmas.RSSound
set_option linter.unusedSimpArgs false
open DM.Model DM.Model.RS DM.Lemmas DM.Lemmas.RSTotal

/-! ### partial correctness: `Post x P` — if `x` returns a value, it satisfies `P` -/

abbrev Post {α} (x : R α) (P : α → Prop) : Prop := Safe (fun _ => True) x P

theorem Post_val {α} {x : R α} {P : α → Prop} (h : Post x P) {a : α} (he : x = .ok a) : P a :=
  Safe_val h he

theorem Post_error {α} {e : RErr} {P : α → Prop} : Post (.error e : R α) P := by
  cases e <;> trivial

theorem Post_throw {α} {e : RErr} {P : α → Prop} : Post (throw e : R α) P :=
  Safe_throw (fun _ _ => trivial)

theorem Post_of_ok {α} {x : R α} {P : α → Prop} (h : ∀ a, x = .ok a → P a) : Post x P := by
  cases x with
  | ok a => exact h a rfl
  | error e => exact Post_error

theorem Post_at' {site : String} {l : List Nat} {i : Nat} {P : Nat → Prop}
    (h : ∀ x, i < l.length → x = l.getD i 0 → P x) : Post (at' site l i) P := by
  by_cases hi : i < l.length
  · exact Safe_at' hi (fun x hx => h x hi hx)
  · unfold at'
    rw [List.getElem?_eq_none (by omega)]
    trivial

theorem Post_sub' {site : String} {a b : Nat} {P : Nat → Prop}
    (h : b ≤ a → P (a - b)) : Post (sub' site a b) P := by
  unfold sub'
  split
  · exact h ‹_›
  · trivial

theorem Post_slice {site : String} {l : List Nat} {a b : Nat} {P : List Nat → Prop}
    (h : a ≤ b + 1 → b < l.length → P ((l.drop a).take (b + 1 - a))) :
    Post (slice site l a b) P := by
  unfold slice
  split
  · rename_i hc; exact h hc.1 hc.2
  · trivial

theorem Post_dot {a b : List Nat} {P : Nat → Prop}
    (h : a.length = b.length → P ((List.zipWith gmul a b).foldl gadd 0)) : Post (dot a b) P := by
  unfold dot
  split
  · trivial
  · rename_i hc; exact h (by simpa using hc)

theorem Post_div' {site : String} {a b : Nat} {P : Nat → Prop}
    (h : b ≠ 0 → P (gdivD a b)) : Post (div' site a b) P := by
  by_cases hb : b = 0
  · subst hb
    unfold div' gdiv
    simp only [↓reduceIte]
    trivial
  · exact Safe_div' hb (h hb)

/-! ### bytes -/

theorem gmul_lt' (a b : Nat) : gmul a b < 256 := by
  unfold gmul
  split
  · omega
  · exact (alog_pos _ (Nat.mod_lt _ (by omega))).2

theorem foldl_gadd_lt (L : List Nat) (a : Nat) (ha : a < 256) (hL : Bytes L) :
    L.foldl gadd a < 256 := by
  induction L generalizing a with
  | nil => exact ha
  | cons b L ih =>
    exact ih _ (xor_lt_256 ha (hL b (List.mem_cons_self ..)))
      (fun x hx => hL x (List.mem_cons_of_mem _ hx))

theorem bytes_zipWith_gmul (a b : List Nat) : Bytes (List.zipWith gmul a b) := by
  apply bytes_zipWith
  intro x _ y _
  exact gmul_lt' x y

theorem dotv_lt (a b : List Nat) : (List.zipWith gmul a b).foldl gadd 0 < 256 :=
  foldl_gadd_lt _ _ (by omega) (bytes_zipWith_gmul a b)

theorem _root_.DM.Lemmas.Bytes.getD {l : List Nat} (h : Bytes l) (i : Nat) : l.getD i 0 < 256 := getD_lt h i

theorem _root_.DM.Lemmas.Bytes.set {l : List Nat} (h : Bytes l) (i : Nat) {a : Nat} (ha : a < 256) :
    Bytes (l.set i a) := by
  intro x hx
  rcases List.mem_or_eq_of_mem_set hx with h' | h'
  · exact h x h'
  · rw [h']; exact ha

theorem _root_.DM.Lemmas.Bytes.take {l : List Nat} (h : Bytes l) (n : Nat) : Bytes (l.take n) :=
  fun x hx => h x (List.mem_of_mem_take hx)

theorem _root_.DM.Lemmas.Bytes.drop {l : List Nat} (h : Bytes l) (n : Nat) : Bytes (l.drop n) :=
  fun x hx => h x (List.mem_of_mem_drop hx)

theorem _root_.DM.Lemmas.Bytes.reverse {l : List Nat} (h : Bytes l) : Bytes l.reverse :=
  fun x hx => h x (List.mem_reverse.mp hx)

theorem _root_.DM.Lemmas.Bytes.dropLast {l : List Nat} (h : Bytes l) : Bytes l.dropLast :=
  fun x hx => h x (List.mem_of_mem_dropLast hx)

theorem _root_.DM.Lemmas.Bytes.map_range (n : Nat) (f : Nat → Nat) (hf : ∀ i, i < n → f i < 256) :
    Bytes ((List.range n).map f) := by
  intro x hx
  simp only [List.mem_map, List.mem_range] at hx
  obtain ⟨i, hi, rfl⟩ := hx
  exact hf i hi

theorem _root_.DM.Lemmas.Bytes.one : Bytes [1] := by
  intro x hx; simp at hx; omega

theorem bytes_syndromes (l : List Nat) (k : Nat) : Bytes (syndromes l k) := by
  intro x hx
  unfold syndromes at hx
  simp only [List.mem_map, List.mem_range] at hx
  obtain ⟨j, _, rfl⟩ := hx
  apply foldl_gadd_lt _ _ (by omega)
  intro y hy
  simp only [List.mem_map, List.mem_range] at hy
  obtain ⟨i, _, rfl⟩ := hy
  exact gmul_lt' _ _

/-! ### reading lists in the field -/

/-- entry `i` of a list as a field element (`0` outside) -/
def gf (l : List Nat) (i : Nat) : GF := GF.ofNat (l.getD i 0)

theorem gf_of_le {l : List Nat} {i : Nat} (h : l.length ≤ i) : gf l i = 0 := by
  unfold gf
  rw [List.getD_eq_getElem?_getD, List.getElem?_eq_none h]
  rfl

theorem gf_cons_zero (a : Nat) (l : List Nat) : gf (a :: l) 0 = GF.ofNat a := rfl
theorem gf_cons_succ (a : Nat) (l : List Nat) (i : Nat) : gf (a :: l) (i + 1) = gf l i := rfl

theorem gf_append_left {l₁ l₂ : List Nat} {i : Nat} (h : i < l₁.length) :
    gf (l₁ ++ l₂) i = gf l₁ i := by
  unfold gf
  rw [List.getD_eq_getElem?_getD, List.getD_eq_getElem?_getD, List.getElem?_append_left h]

theorem gf_append_right {l₁ l₂ : List Nat} {i : Nat} (h : l₁.length ≤ i) :
    gf (l₁ ++ l₂) i = gf l₂ (i - l₁.length) := by
  unfold gf
  rw [List.getD_eq_getElem?_getD, List.getD_eq_getElem?_getD, List.getElem?_append_right h]

theorem gf_snoc_one (w : List Nat) : gf (w ++ [1]) w.length = 1 := by
  rw [gf_append_right (Nat.le_refl _), Nat.sub_self]
  rfl

theorem gf_drop (l : List Nat) (a i : Nat) : gf (l.drop a) i = gf l (a + i) := by
  unfold gf
  rw [List.getD_eq_getElem?_getD, List.getD_eq_getElem?_getD, List.getElem?_drop]

theorem gf_take {l : List Nat} {n i : Nat} (h : i < n) : gf (l.take n) i = gf l i := by
  unfold gf
  rw [List.getD_eq_getElem?_getD, List.getD_eq_getElem?_getD, List.getElem?_take_of_lt h]

theorem gf_set_eq {l : List Nat} {i : Nat} (a : Nat) (h : i < l.length) :
    gf (l.set i a) i = GF.ofNat a := by
  unfold gf
  rw [List.getD_eq_getElem?_getD, List.getElem?_set_self h]
  rfl

theorem gf_set_ne {l : List Nat} {i j : Nat} (a : Nat) (h : i ≠ j) :
    gf (l.set i a) j = gf l j := by
  unfold gf
  rw [List.getD_eq_getElem?_getD, List.getD_eq_getElem?_getD, List.getElem?_set_ne h]

theorem gf_reverse {l : List Nat} {i : Nat} (h : i < l.length) :
    gf l.reverse i = gf l (l.length - 1 - i) := by
  unfold gf
  rw [List.getD_eq_getElem?_getD, List.getD_eq_getElem?_getD, List.getElem?_reverse h]

theorem ofNat_zero' : GF.ofNat 0 = 0 := rfl
theorem ofNat_one : GF.ofNat 1 = 1 := rfl

theorem ofNat_eq_zero_iff {a : Nat} (ha : a < 256) : GF.ofNat a = 0 ↔ a = 0 := GF.ofNat_eq_zero ha

theorem ofNat_gmul' {a b : Nat} (ha : a < 256) (hb : b < 256) :
    GF.ofNat (gmul a b) = GF.ofNat a * GF.ofNat b := GF.ofNat_gmul ha hb

theorem ofNat_gadd (a b : Nat) : GF.ofNat (gadd a b) = GF.ofNat a + GF.ofNat b := GF.ofNat_xor a b

/-- division in the field -/
theorem ofNat_gdivD {a b : Nat} (ha : a < 256) (hb : b < 256) (h0 : b ≠ 0) :
    GF.ofNat (gdivD a b) = GF.ofNat a / GF.ofNat b := by
  have h := gdiv_eq ha hb h0
  have hv : gdivD a b = gmul a (ginv b) := by
    unfold gdivD; rw [h]; rfl
  rw [hv, GF.ofNat_gmul ha (ginv_lt b), div_eq_mul_inv]
  congr 1
  apply GF.ext
  simp [GF.ofNat, Nat.mod_eq_of_lt hb, Nat.mod_eq_of_lt (ginv_lt b)]

theorem ofNat_ne_zero {a : Nat} (ha : a < 256) (h0 : a ≠ 0) : GF.ofNat a ≠ 0 :=
  fun h => h0 ((GF.ofNat_eq_zero ha).mp h)

/-- characteristic two -/
theorem gf_add_self (a : GF) : a + a = 0 := GF.add_self a

theorem gf_eq_of_add_eq_zero {a b : GF} (h : a + b = 0) : a = b := by
  have := congrArg (· + b) h
  simp only [add_assoc, GF.add_self, add_zero, zero_add] at this
  exact this

theorem gf_add_eq_zero_of_eq {a b : GF} (h : a = b) : a + b = 0 := by
  rw [h]; exact GF.add_self b

/-! ### dot products -/

theorem list_sum_zipWith (a b : List Nat) (ha : Bytes a) (hb : Bytes b) :
    ((List.zipWith gmul a b).map GF.ofNat).sum
      = ∑ i ∈ Finset.range (min a.length b.length), gf a i * gf b i := by
  induction a generalizing b with
  | nil => simp
  | cons x a ih =>
    cases b with
    | nil => simp
    | cons y b =>
      simp only [List.zipWith_cons_cons, List.map_cons, List.sum_cons, List.length_cons]
      rw [ih b ha.tail hb.tail, Nat.succ_min_succ, Finset.sum_range_succ', add_comm]
      simp only [gf_cons_succ, gf_cons_zero]
      rw [GF.ofNat_gmul ha.head hb.head]

/-- the value computed by `dot` (and by the malfunction test) in the field -/
theorem ofNat_dotv (a b : List Nat) (ha : Bytes a) (hb : Bytes b) :
    GF.ofNat ((List.zipWith gmul a b).foldl gadd 0)
      = ∑ i ∈ Finset.range (min a.length b.length), gf a i * gf b i := by
  rw [ofNat_foldl_xor, ofNat_zero, zero_add, list_sum_zipWith a b ha hb]

/-- `window syn lam j` = Σ_{i < |lam|} syn[j+i]·lam[i] -/
def window (syn lam : List Nat) (j : Nat) : GF :=
  ∑ i ∈ Finset.range lam.length, gf syn (j + i) * gf lam i

/-- a slice of the syndromes against the locator coefficients -/
theorem ofNat_dot_slice (syn lam : List Nat) (hs : Bytes syn) (hl : Bytes lam) (a n : Nat)
    (hn : n = lam.length) (hlen : a + n ≤ syn.length) :
    GF.ofNat ((List.zipWith gmul ((syn.drop a).take n) lam).foldl gadd 0) = window syn lam a := by
  rw [ofNat_dotv _ _ ((hs.drop a).take n) hl]
  have hmin : min ((syn.drop a).take n).length lam.length = lam.length := by
    simp only [List.length_take, List.length_drop]; omega
  rw [hmin]
  unfold window
  apply Finset.sum_congr rfl
  intro i hi
  have hi' := Finset.mem_range.mp hi
  rw [gf_take (by omega), gf_drop]

/-! ### loops that accumulate a sum -/

theorem Post_forIn_acc {α} (l : List α) (init : Nat) (f : α → Nat → R (ForInStep Nat))
    (term : α → GF) (hinit : init < 256)
    (hstep : ∀ a, a ∈ l → ∀ b, b < 256 →
      Post (f a b) (fun r => ∃ b', r = .yield b' ∧ b' < 256 ∧ GF.ofNat b' = GF.ofNat b + term a)) :
    Post (forIn l init f) (fun b => b < 256 ∧ GF.ofNat b = GF.ofNat init + (l.map term).sum) := by
  apply Safe_forIn l init f
    (fun rest b => b < 256 ∧ GF.ofNat b + (rest.map term).sum = GF.ofNat init + (l.map term).sum)
  · exact ⟨hinit, rfl⟩
  · intro a rest b ha hI
    apply Safe_mono (hstep a ha b hI.1)
    intro r hr
    obtain ⟨b', rfl, hb', he⟩ := hr
    refine ⟨hb', ?_⟩
    rw [he, ← hI.2]
    simp only [List.map_cons, List.sum_cons]
    ring
  · intro b hI
    refine ⟨hI.1, ?_⟩
    simpa using hI.2

theorem list_sum_range' (f : ℕ → GF) (n : ℕ) :
    ((List.range n).map f).sum = ∑ i ∈ Finset.range n, f i := list_sum_range f n

end DM.Lemmas.RSSound
