import DM.Lemmas.SpecAscii
import DM.Lemmas.C40RT
import DM.Lemmas.SpecC40Enc
/-
The reference decoder (`DM.Spec.Stream`) in C40 / Text mode (one development, generic in
`text : Bool`): a pair of codewords = three values through `c40Value`, UNLATCH, the end-of-symbol
rule; the values of one byte decode to that byte; whole runs (`steps_c40`); the stream the encoder
writes for a message planned entirely in C40 / Text (`run_c40_shape`) and the reference decoder's
run on it (`spec_run_c40`).
-/
namespace DM.Lemmas.SpecC40
open DM.Model DM.Lemmas DM.Lemmas.AsciiRT DM.Lemmas.SpecStep DM.Lemmas.SpecAscii DM.Lemmas.Complete
open DM.Spec.Stream
open DM.Spec.Build (packTriples c40Vals)
open DM.Lemmas.C40RT (latchOf modeOf)

def cmode (text : Bool) : Mode := if text then .text else .c40

/-- the reference decoder's value function on a list of values: final shift state, bytes produced -/
def cvals (text : Bool) : List Nat → CState → Except String (CState × List Nat)
  | [], st => .ok (st, [])
  | v :: vs, st =>
    match c40Value text st v with
    | .error e => .error e
    | .ok (st', ob) =>
      match cvals text vs st' with
      | .error e => .error e
      | .ok (st'', o) => .ok (st'', ob.toList ++ o)

/-- `n` codewords consumed in C40 / Text mode: `chunk` produced (carried by the current mode),
shift state `cst` -/
def emitC (s : St) (n : Nat) (cst : CState) (chunk : List Nat) : St :=
  { s with i := s.i + n, cst := cst, out := s.out ++ chunk.toArray,
           trace := s.trace ++ Array.replicate chunk.length s.mode }

@[simp] theorem emitC_mode (s : St) (n : Nat) (cst : CState) (chunk : List Nat) : (emitC s n cst chunk).mode = s.mode := rfl
@[simp] theorem emitC_i (s : St) (n : Nat) (cst : CState) (chunk : List Nat) : (emitC s n cst chunk).i = s.i + n := rfl
@[simp] theorem emitC_cst (s : St) (n : Nat) (cst : CState) (chunk : List Nat) : (emitC s n cst chunk).cst = cst := rfl

theorem emitC_emitC (s : St) (a b : Nat) (c1 c2 : CState) (x y : List Nat) :
    emitC (emitC s a c1 x) b c2 y = emitC s (a + b) c2 (x ++ y) := by
  simp [emitC, Nat.add_assoc, ← Array.replicate_append_replicate]

theorem emitC_zero (s : St) : emitC s 0 s.cst [] = s := by
  simp [emitC]

/-! ### single steps -/

/-- **A pair of codewords in C40 / Text mode**: three values through `c40Value`. -/
theorem step_c40_pair (text : Bool) (cw : Array Nat) (s : St) (c d : Nat) (hc : cw[s.i]? = some c) (hd : cw[s.i+1]? = some d)
    (hm : s.mode = cmode text) (h254 : c ≠ 254) (h0 : c*256+d ≠ 0) (hbig : (c*256+d-1)/1600 < 40)
    (cst : CState) (chunk : List Nat)
    (hv : cvals text [(c*256+d-1)/1600, ((c*256+d-1)/40) % 40, (c*256+d-1) % 40] s.cst = .ok (cst, chunk)) :
    step cw s = .ok (some (emitC s 2 cst chunk)) := by
  obtain ⟨h, hc⟩ := idx hc
  obtain ⟨h', hd⟩ := idx hd
  have hn : ¬ cw.size ≤ s.i := by omega
  have hr : ¬ cw.size - s.i = 1 := by omega
  have hbig' : ¬ 40 ≤ (c*256+d-1)/1600 := by omega
  have h0' : ¬ (c * 256 = 0 ∧ d = 0) := by omega
  have hmt : (s.mode == Mode.text) = text := by rw [hm]; cases text <;> rfl
  simp only [cvals] at hv
  cases h1 : c40Value text s.cst ((c*256+d-1)/1600) with
  | error e => rw [h1] at hv; cases hv
  | ok r1 =>
    obtain ⟨c1, o1⟩ := r1
    rw [h1] at hv
    simp only [] at hv
    cases h2 : c40Value text c1 (((c*256+d-1)/40) % 40) with
    | error e => rw [h2] at hv; cases hv
    | ok r2 =>
      obtain ⟨c2, o2⟩ := r2
      rw [h2] at hv
      simp only [] at hv
      cases h3 : c40Value text c2 ((c*256+d-1) % 40) with
      | error e => rw [h3] at hv; cases hv
      | ok r3 =>
        obtain ⟨c3, o3⟩ := r3
        rw [h3] at hv
        simp only [Except.ok.injEq, Prod.mk.injEq] at hv
        obtain ⟨rfl, rfl⟩ := hv
        have e1 : c40Value text s.cst ((c*256+d-1)/1600) = pure (c1, o1) := h1
        have e2 : c40Value text c1 (((c*256+d-1)/40) % 40) = pure (c2, o2) := h2
        have e3 : c40Value text c2 ((c*256+d-1) % 40) = pure (c3, o3) := h3
        unfold step
        rcases (by cases text; exact Or.inl hm; exact Or.inr hm : s.mode = .c40 ∨ s.mode = .text) with hm' | hm' <;>
        · simp only [hm', hc, hd]
          simp only [hm'] at hmt
          cases o1 <;> cases o2 <;> cases o3 <;>
            simp [hn, hr, h254, h0', hbig', hmt, e1, e2, e3, push, emitC, hm']
          all_goals first
            | rfl
            | (show Except.ok _ = Except.ok _
               congr 2
               simp only [St.mk.injEq, true_and, and_true]
               constructor <;> (apply Array.ext'; simp [List.replicate]))

/-- **UNLATCH** (254) in C40 / Text mode, wherever it stands -/
theorem step_c40_unlatch (text : Bool) (cw : Array Nat) (s : St) (hc : cw[s.i]? = some 254) (hm : s.mode = cmode text) :
    step cw s = .ok (some { s with i := s.i + 1, mode := .ascii }) := by
  obtain ⟨h, hc⟩ := idx hc
  have hn : ¬ cw.size ≤ s.i := by omega
  unfold step
  cases text <;>
  · simp only [cmode] at hm
    simp only [hm, hc]
    by_cases hr : cw.size - s.i = 1 <;> simp [hn, hr] <;> rfl

/-- **the end-of-symbol rule**: one codeword left, not UNLATCH: back to ASCII without consuming it -/
theorem step_c40_last (text : Bool) (cw : Array Nat) (s : St) (c : Nat) (hc : cw[s.i]? = some c) (hm : s.mode = cmode text)
    (hr : cw.size = s.i + 1) (h254 : c ≠ 254) :
    step cw s = .ok (some { s with mode := .ascii }) := by
  obtain ⟨h, hc⟩ := idx hc
  have hn : ¬ cw.size ≤ s.i := by omega
  have hr' : cw.size - s.i = 1 := by omega
  unfold step
  cases text <;>
  · simp only [cmode] at hm
    simp only [hm, hc]
    simp [hn, hr', h254]
    rfl

/-! ### values -/

theorem cvals_append (text : Bool) : ∀ (V1 V2 : List Nat) (st : CState),
    cvals text (V1 ++ V2) st =
      match cvals text V1 st with
      | .error e => .error e
      | .ok (st1, o1) =>
        match cvals text V2 st1 with
        | .error e => .error e
        | .ok (st2, o2) => .ok (st2, o1 ++ o2) := by
  intro V1
  induction V1 with
  | nil =>
    intro V2 st
    simp only [List.nil_append, cvals]
    cases cvals text V2 st with
    | error e => rfl
    | ok r => simp
  | cons v t ih =>
    intro V2 st
    simp only [List.cons_append, cvals]
    cases c40Value text st v with
    | error e => rfl
    | ok r =>
      obtain ⟨st', ob⟩ := r
      simp only []
      rw [ih]
      cases cvals text t st' with
      | error e => rfl
      | ok r1 =>
        obtain ⟨st1, o1⟩ := r1
        simp only []
        cases cvals text V2 st1 with
        | error e => rfl
        | ok r2 => simp

/-- the values of every byte, as the encoder computes them (`to_vals`), are read back by the
reference decoder's value function from a clean shift state as exactly that byte, and leave a
clean shift state: all 512 (mode, byte) pairs by kernel evaluation -/
def byteOK (text : Bool) (b : Nat) : Bool :=
  match Enc.toVals text [] b with
  | .ok v =>
    (match cvals text v {} with
     | .ok (st, o) => st.shift == 0 && !st.upper && o == [b]
     | .error _ => false) && v.all (· < 40)
  | .error _ => false

theorem bytes_ok : (List.range 256).all (fun b => byteOK false b && byteOK true b) = true := by
  decide +kernel

theorem cvals_byte (text : Bool) (b : Nat) (hb : b < 256) :
    ∃ v, Enc.toVals text [] b = .ok v ∧ cvals text v {} = .ok ({}, [b]) ∧ ∀ x ∈ v, x < 40 := by
  have h := bytes_ok
  rw [List.all_eq_true] at h
  have hb' := h b (List.mem_range.mpr hb)
  simp only [Bool.and_eq_true] at hb'
  have hk : byteOK text b = true := by cases text; exact hb'.1; exact hb'.2
  unfold byteOK at hk
  cases hv : Enc.toVals text [] b with
  | error e => rw [hv] at hk; simp at hk
  | ok v =>
    rw [hv] at hk
    simp only [Bool.and_eq_true, List.all_eq_true, decide_eq_true_eq] at hk
    refine ⟨v, rfl, ?_, hk.2⟩
    cases hc : cvals text v {} with
    | error e => rw [hc] at hk; simp at hk
    | ok r =>
      obtain ⟨st, o⟩ := r
      rw [hc] at hk
      simp only [Bool.and_eq_true, beq_iff_eq, Bool.not_eq_true'] at hk
      obtain ⟨⟨⟨h1, h2⟩, h3⟩, _⟩ := hk
      cases st
      simp only [] at h1 h2
      subst h1 h2 h3
      rfl

/-- the values the encoder computes for one byte (`[]` where `to_vals` fails, i.e. never for a byte) -/
def valsOf (text : Bool) (b : Nat) : List Nat :=
  match Enc.toVals text [] b with
  | .ok v => v
  | .error _ => []

/-- a whole string of bytes: its values, read from a clean shift state, give the string back -/
theorem cvals_bytes (text : Bool) : ∀ (bs : List Nat), ByteList bs →
    cvals text (bs.flatMap (valsOf text)) {} = .ok ({}, bs) ∧ ∀ x ∈ bs.flatMap (valsOf text), x < 40 := by
  intro bs
  induction bs with
  | nil => intro _; exact ⟨rfl, by simp⟩
  | cons b t ih =>
    intro hb
    obtain ⟨v, h1, h2, h3⟩ := cvals_byte text b hb.head
    obtain ⟨i1, i2⟩ := ih hb.tail
    have hv : valsOf text b = v := by simp [valsOf, h1]
    rw [List.flatMap_cons, hv]
    refine ⟨?_, ?_⟩
    · rw [cvals_append, h2]
      simp only []
      rw [i1]
      rfl
    · intro x hx
      rcases List.mem_append.mp hx with hx | hx
      · exact h3 x hx
      · exact i2 x hx

/-! ### the crate's value function and the reference decoder's agree

Whenever the decoder model of the crate (`DM.Model.Dec.c40Value`, with the crate's tables) accepts
a value, the reference decoder (Tables 3 / 4 of the standard, built by `List.range`) accepts it
with the same result. This carries the closed forms of the encoder analysis (`C40RT`), which are
stated with the crate's value function, over to the reference decoder. -/

def toS (st : Dec.CSt) : CState := { shift := st.shift, upper := st.upper }

def valueAgree (text : Bool) (sh : Nat) (up : Bool) (v : Nat) : Bool :=
  match Dec.c40Value (tabs text).1 (tabs text).2 { shift := sh, upper := up } v with
  | .ok (st', ob) =>
    (match c40Value text { shift := sh, upper := up } v with
     | .ok (st2, ob2) => st2.shift == st'.shift && st2.upper == st'.upper && ob2 == ob
     | .error _ => false)
  | .error _ => true

theorem values_agree : (List.range 4).all (fun sh => (List.range 40).all fun v =>
    valueAgree false sh false v && valueAgree false sh true v && valueAgree true sh false v && valueAgree true sh true v) = true := by
  decide +kernel

theorem crate_lt (b s3 : List Nat) (st st' : Dec.CSt) (v : Nat) (ob : Option Nat)
    (h : Dec.c40Value b s3 st v = .ok (st', ob)) : v < 40 := by
  apply Classical.byContradiction
  intro hv
  have h1 : ¬ v ≤ 2 := by omega
  have h2 : ¬ v ≤ 39 := by omega
  have h3 : ¬ v ≤ 31 := by omega
  have h4 : ¬ v ≤ 26 := by omega
  have h5 : ¬ v = 27 := by omega
  have h6 : ¬ v = 30 := by omega
  unfold Dec.c40Value at h
  simp only [h1, h2, h3, h4, h5, h6, if_false] at h
  split at h
  · cases h
  · split at h
    · cases h
    · split at h <;> cases h

theorem crate_sh (b s3 : List Nat) (n : Nat) (up : Bool) (v : Nat) :
    Dec.c40Value b s3 { shift := n + 3, upper := up } v = Dec.c40Value b s3 { shift := 3, upper := up } v := by
  unfold Dec.c40Value
  have a1 : ¬ n + 3 = 0 := by omega
  have a2 : ¬ n + 3 = 1 := by omega
  have a3 : ¬ n + 3 = 2 := by omega
  simp [a2, a3]

theorem spec_sh (text : Bool) (n : Nat) (up : Bool) (v : Nat) :
    c40Value text { shift := n + 3, upper := up } v = c40Value text { shift := 3, upper := up } v := by
  rfl

theorem value_bridge (text : Bool) (st st' : Dec.CSt) (v : Nat) (ob : Option Nat)
    (h : Dec.c40Value (tabs text).1 (tabs text).2 st v = .ok (st', ob)) :
    c40Value text (toS st) v = .ok (toS st', ob) := by
  have hv := crate_lt _ _ _ _ _ _ h
  obtain ⟨sh, up⟩ := st
  have key : ∀ sh, sh < 4 → Dec.c40Value (tabs text).1 (tabs text).2 { shift := sh, upper := up } v = .ok (st', ob) →
      c40Value text { shift := sh, upper := up } v = .ok (toS st', ob) := by
    intro sh hsh h
    have ha := values_agree
    rw [List.all_eq_true] at ha
    have := ha sh (List.mem_range.mpr hsh)
    rw [List.all_eq_true] at this
    have := this v (List.mem_range.mpr hv)
    simp only [Bool.and_eq_true] at this
    have hk : valueAgree text sh up v = true := by
      cases text <;> cases up
      · exact this.1.1.1
      · exact this.1.1.2
      · exact this.1.2
      · exact this.2
    unfold valueAgree at hk
    rw [h] at hk
    simp only [] at hk
    cases hc : c40Value text { shift := sh, upper := up } v with
    | error e => rw [hc] at hk; simp at hk
    | ok r =>
      obtain ⟨st2, ob2⟩ := r
      rw [hc] at hk
      simp only [Bool.and_eq_true, beq_iff_eq] at hk
      obtain ⟨⟨h1, h2⟩, h3⟩ := hk
      cases st2
      simp only [] at h1 h2
      subst h1 h2 h3
      rfl
  by_cases hsh : sh < 3
  · exact key sh (by omega) h
  · obtain ⟨n, rfl⟩ : ∃ n, sh = n + 3 := ⟨sh - 3, by omega⟩
    rw [crate_sh] at h
    show c40Value text { shift := n + 3, upper := up } v = _
    rw [spec_sh]
    exact key 3 (by omega) h

/-- lists of values: the crate's accumulating `c40Values` and `cvals` -/
theorem values_bridge (text : Bool) : ∀ (V : List Nat) (st st' : Dec.CSt) (out out' : List Nat),
    Dec.c40Values (tabs text).1 (tabs text).2 V st out = .ok (st', out') →
    ∃ chunk, out' = out ++ chunk ∧ cvals text V (toS st) = .ok (toS st', chunk) := by
  intro V
  induction V with
  | nil =>
    intro st st' out out' h
    simp only [Dec.c40Values, Except.ok.injEq, Prod.mk.injEq] at h
    obtain ⟨rfl, rfl⟩ := h
    exact ⟨[], by simp, rfl⟩
  | cons v t ih =>
    intro st st' out out' h
    simp only [Dec.c40Values] at h
    cases hc : Dec.c40Value (tabs text).1 (tabs text).2 st v with
    | error e => rw [hc] at h; cases h
    | ok r =>
      obtain ⟨st1, ob⟩ := r
      rw [hc] at h
      have hb := value_bridge text st st1 v ob hc
      cases ob with
      | none =>
        simp only [] at h
        obtain ⟨chunk, e1, e2⟩ := ih st1 st' out out' h
        refine ⟨chunk, e1, ?_⟩
        simp [cvals, hb, e2]
      | some b =>
        simp only [] at h
        obtain ⟨chunk, e1, e2⟩ := ih st1 st' (out ++ [b]) out' h
        refine ⟨b :: chunk, by rw [e1]; simp, ?_⟩
        simp [cvals, hb, e2]

/-! ### whole runs -/

/-- **whole triples**: `n` steps read the `2 n` codewords of `3 n` values -/
theorem steps_triples (text : Bool) (cw : Array Nat) : ∀ (n : Nat) (V : List Nat), V.length = 3 * n → (∀ v ∈ V, v < 40) →
    ∀ (s : St) (cst : CState) (chunk : List Nat), s.mode = cmode text → Occurs cw s.i (packTriples V) →
      cvals text V s.cst = .ok (cst, chunk) → Steps cw n s (emitC s (2 * n) cst chunk) := by
  intro n
  induction n with
  | zero =>
    intro V hl _ s cst chunk _ _ hv
    have : V = [] := List.length_eq_zero_iff.mp (by omega)
    subst this
    simp only [cvals, Except.ok.injEq, Prod.mk.injEq] at hv
    obtain ⟨rfl, rfl⟩ := hv
    rw [emitC_zero]
    exact Steps.refl cw s
  | succ n ih =>
    intro V hl hlt s cst chunk hm ho hv
    match V, hl, hlt, ho, hv with
    | a :: b :: c :: t, hl, hlt, ho, hv =>
      have ha := hlt a (by simp)
      have hb := hlt b (by simp)
      have hc := hlt c (by simp)
      have hsplit : a :: b :: c :: t = [a, b, c] ++ t := rfl
      rw [hsplit, cvals_append] at hv
      cases h1 : cvals text [a, b, c] s.cst with
      | error e => rw [h1] at hv; cases hv
      | ok r1 =>
        obtain ⟨c1, o1⟩ := r1
        rw [h1] at hv
        simp only [] at hv
        cases h2 : cvals text t c1 with
        | error e => rw [h2] at hv; cases hv
        | ok r2 =>
          obtain ⟨c2, o2⟩ := r2
          rw [h2] at hv
          simp only [Except.ok.injEq, Prod.mk.injEq] at hv
          obtain ⟨rfl, rfl⟩ := hv
          simp only [packTriples] at ho
          have e0 : (1600 * a + 40 * b + c + 1) / 256 * 256 + (1600 * a + 40 * b + c + 1) % 256 = 1600 * a + 40 * b + c + 1 := by
            omega
          have hs1 := step_c40_pair text cw s _ _ ho.head ho.tail.head hm (by omega) (by omega) (by rw [e0]; omega) c1 o1
            (by
              rw [e0]
              have x1 : (1600 * a + 40 * b + c + 1 - 1) / 1600 = a := by omega
              have x2 : (1600 * a + 40 * b + c + 1 - 1) / 40 % 40 = b := by omega
              have x3 : (1600 * a + 40 * b + c + 1 - 1) % 40 = c := by omega
              rw [x1, x2, x3]; exact h1)
          have hs2 := ih t (by simp only [List.length_cons] at hl; omega) (fun v hv => hlt v (by simp [hv]))
            (emitC s 2 c1 o1) c2 o2 (by simpa using hm) (by simpa using ho.tail.tail) (by simpa using h2)
          have := (Steps.one hs1).trans hs2
          rw [emitC_emitC] at this
          have e1 : 1 + n = n + 1 := by omega
          have e2 : 2 + 2 * n = 2 * (n + 1) := by omega
          rw [e1, e2] at this
          exact this

/-- **latch and whole triples** -/
theorem steps_c40 (text : Bool) (cw : Array Nat) (n : Nat) (V : List Nat) (hl : V.length = 3 * n) (hlt : ∀ v ∈ V, v < 40)
    (s : St) (cst : CState) (chunk : List Nat) (hm : s.mode = .ascii) (ho : Occurs cw s.i (latchOf text :: packTriples V))
    (hv : cvals text V {} = .ok (cst, chunk)) :
    Steps cw (1 + n) s (emitC (latch s (cmode text)) (2 * n) cst chunk) := by
  have h1 : step cw s = .ok (some (latch s (cmode text))) :=
    step_latch cw s (latchOf text) (cmode text) ho.head hm (by cases text <;> simp [latchOf, cmode])
  exact (Steps.one h1).trans (steps_triples text cw n V hl hlt (latch s (cmode text)) cst chunk rfl (by simpa [latch] using ho.tail)
    (by simpa [latch] using hv))

/-- **an ASCII tail and the padding area**: from an ASCII-mode state in front of `asciiEnc rest`
followed by nothing or by the pad codeword and randomised pads, the reference decoder reads
`rest` and stops at the end of the stream -/
theorem steps_ascii_tail (cwl rest : List Nat) (hb : ByteList rest) (s : St) (hm : s.mode = .ascii) (L : Nat)
    (hL : L = s.i + (asciiEnc rest).length) (hlen : L ≤ cwl.length)
    (ho : Occurs cwl.toArray s.i (asciiEnc rest))
    (h129 : L < cwl.length → cwl.getD L 0 = 129)
    (hpads : ∀ i, L < i → i < cwl.length → unrand253 (cwl.getD i 0) (i + 1) = 129) :
    ∃ k, k ≤ (asciiEnc rest).length + 1 ∧
      Steps cwl.toArray k s { emit s (asciiEnc rest).length rest .ascii with
        i := cwl.length, padAt := if L = cwl.length then s.padAt else some L } ∧
      step cwl.toArray { emit s (asciiEnc rest).length rest .ascii with
        i := cwl.length, padAt := if L = cwl.length then s.padAt else some L } = .ok none := by
  subst hL
  obtain ⟨k, hk, hsteps⟩ := steps_asciiEnc cwl.toArray rest.length rest (Nat.le_refl _) hb s hm ho
  by_cases hfull : s.i + (asciiEnc rest).length = cwl.length
  · rw [if_pos hfull]
    have : ({ emit s (asciiEnc rest).length rest .ascii with i := cwl.length, padAt := s.padAt } : St) =
        emit s (asciiEnc rest).length rest .ascii := by
      simp [emit, hfull]
    rw [this]
    exact ⟨k, by omega, hsteps, step_end _ _ (by simp; omega)⟩
  · rw [if_neg hfull]
    have hlt : s.i + (asciiEnc rest).length < cwl.length := by omega
    have hpad : step cwl.toArray (emit s (asciiEnc rest).length rest .ascii) =
        .ok (some { emit s (asciiEnc rest).length rest .ascii with
          i := cwl.length, padAt := some (s.i + (asciiEnc rest).length) }) := by
      have hc : cwl.toArray[(emit s (asciiEnc rest).length rest .ascii).i]? = some 129 := by
        simp only [emit_i, List.getElem?_toArray]
        have := h129 hlt
        rw [List.getD_eq_getElem?_getD, List.getElem?_eq_getElem hlt] at this
        rw [List.getElem?_eq_getElem hlt]
        simpa using this
      rw [step_pad _ _ hc (by simpa using hm)]
      · simp
      · intro j h1 h2
        rw [getBang_toArray]
        exact hpads j (by simpa using h1) (by simpa using h2)
    exact ⟨k + 1, by omega, hsteps.trans (Steps.one hpad), step_end _ _ (by simp)⟩

open DM.Model.Enc DM.Lemmas.EncRT DM.Lemmas.X12RT DM.Lemmas.C40RT in
/-- **the stream of a message planned entirely in C40 / Text**: latch, whole triples of values
`V` that the reference decoder's value function reads as the first `p` characters, UNLATCH or not,
the remaining characters in ASCII, padding. Without UNLATCH the rest is at most one ASCII codeword
and the symbol is filled exactly. -/
theorem run_c40_shape (text : Bool) (list : List Sym) (body cw : List Nat) (sym : Sym) (hne : body ≠ [])
    (h : Enc.run list [] body [(body.length, modeOf text), (0, modeOf text)] = .ok (cw, sym)) :
    ∃ (V : List Nat) (n p : Nat) (un : Bool) (cst : CState) (L : Nat),
      V.length = 3 * n ∧ (∀ v ∈ V, v < 40) ∧ cvals text V {} = .ok (cst, body.take p) ∧ p ≤ body.length ∧
      L = 1 + 2 * n + (if un then 1 else 0) + (asciiEnc (body.drop p)).length ∧
      cw.length = dataCw sym ∧ L ≤ dataCw sym ∧
      cw.take L = latchOf text :: packTriples V ++ (if un then [254] else []) ++ asciiEnc (body.drop p) ∧
      (un = false → L = dataCw sym ∧ (asciiEnc (body.drop p)).length ≤ 1) ∧
      (L < dataCw sym → cw.getD L 0 = 129) ∧
      (∀ i, L < i → i < dataCw sym → unrand253 (cw.getD i 0) (i + 1) = 129) ∧
      ByteList body ∧ body.length ≤ p + 2 := by
  obtain ⟨sE, hmain, hsym, hpad⟩ := run_unfold list body _ cw sym h
  have hlen : 0 < body.length := List.length_pos_iff.mpr hne
  have hs0 : (c0 text list body).hasMore = true := by simp [St.hasMore, c0, hlen]
  obtain ⟨s1, k1, he1, hm1⟩ := mainLoop_step (2 * body.length + 7) (c0 text list body) sE 0 hmain hs0
  have hl0 : latched (c0 text list body) = c0 text list body := rfl
  rw [hl0] at he1
  have hmode0 : (c0 text list body).mode = .ascii := rfl
  simp only [encodeMode, hmode0] at he1
  rw [c_iter1 text list body hne (St.charsLeft (c0 text list body) + 1)] at he1
  simp only [Except.ok.injEq] at he1
  subst he1
  obtain ⟨s3, k2, he2, hm2⟩ := mainLoop_step (2 * body.length + 6) _ sE k1 hm1 (by simp [St.hasMore, c1, hlen])
  have hl1 : latched (c1 text list body) = cL text list body := rfl
  rw [hl1] at he2
  have hloop : c40Loop text ((cL text list body).charsLeft + 2) (cL text list body) [] 0 = .ok s3 := by
    cases text <;> simpa [encodeMode, cL, modeOf, c40Encode] using he2
  obtain ⟨hb, _, hpos2⟩ := DM.Lemmas.SpecC40Enc.c40Loop_bytes text (modeOf text) _ (cL text list body) [] 0 s3 rfl rfl
    (by simp [cL]) hloop
  have hb : ByteList body := by
    intro b hbm
    exact hb b (by simpa [cL] using hbm)
  have hpos2 : body.length ≤ s3.pos + 2 := by simpa [cL] using hpos2
  have inv0 : C40Inv text list body (cL text list body) [] 0 0 :=
    ⟨rfl, rfl, rfl, rfl, rfl, Nat.zero_le _, by simp, by simp [W, cL], by simp, by simp [W, cL, packTriples], by simp [cL]⟩
  obtain ⟨V, n, p, un, st', hVl, hVlt, hdec, hp, hcw3, hpos3, hin3, hli3, hnm3, hmode3, hexact⟩ :=
    (c40Loop_spec text list body hb body.length _ (cL text list body) [] 0 0 s3 (by simp [cL]) (by simp [St.charsLeft, cL])
      inv0 hloop).out
  have hbeq : (EMode.ascii == EMode.ascii) = true := by decide
  have haszlen : (asciiEnc (body.drop p)).length = asciiSize (body.drop p) := asciiEnc_length _ _ (Nat.le_refl _)
  -- the rest (at most two characters) goes to ASCII
  have hE : sE.cw = s3.cw ++ asciiEnc (body.drop p) ∧ (un = true → sE.mode = .ascii) := by
    by_cases hmore : s3.hasMore = true
    · have hasc : s3.mode = .ascii ∧ s3.plan = [(0, .ascii)] := by
        rcases hmode3 with hA | ⟨hB, _⟩
        · exact hA
        · exfalso
          have := of_decide_eq_true hmore
          rw [hpos3, hin3, hB] at this
          omega
      obtain ⟨s4, k3, he3, hm3⟩ := mainLoop_step (2 * body.length + 5) _ sE k2 hm2 hmore
      have hl3 : latched s3 = s3 := by simp [latched, hnm3]
      rw [hl3] at he3
      simp only [encodeMode, hasc.1] at he3
      rw [asciiLoop_rest s3 hasc.2 hasc.1 (by rw [hpos3, hin3]; exact hp)] at he3
      simp only [Except.ok.injEq] at he3
      subst he3
      rw [mainLoop_end _ _ _ (by simp [St.hasMore])] at hm3
      simp only [Except.ok.injEq] at hm3
      subst hm3
      exact ⟨by simp [St.rest, hpos3, hin3], fun _ => hasc.1⟩
    · have hmf : s3.hasMore = false := by simpa using hmore
      rw [mainLoop_end _ _ _ hmf] at hm2
      simp only [Except.ok.injEq] at hm2
      subst hm2
      have hnil : body.drop p = [] := by
        have := of_decide_eq_false hmf
        rw [hpos3, hin3] at this
        exact List.drop_eq_nil_of_le (by omega)
      refine ⟨by simp [hnil, asciiEnc], fun hu => ?_⟩
      rcases hmode3 with hA | ⟨_, hB⟩
      · exact hA.1
      · rw [hu] at hB; cases hB
  obtain ⟨e1c, e2c⟩ := hE
  obtain ⟨chunk, hch1, hch2⟩ := values_bridge text V C40RT.st0 st' [] _ (hdec [])
  simp only [List.nil_append] at hch1
  subst hch1
  have hst0 : toS C40RT.st0 = {} := rfl
  rw [hst0] at hch2
  have hpl := packTriples_length n V hVl
  have hLlen : (s3.cw ++ asciiEnc (body.drop p)).length =
      1 + 2 * n + (if un then 1 else 0) + (asciiEnc (body.drop p)).length := by
    rw [hcw3]
    cases un <;> simp [hpl] <;> omega
  have hcwE : s3.cw ++ asciiEnc (body.drop p) =
      latchOf text :: packTriples V ++ (if un then [254] else []) ++ asciiEnc (body.drop p) := by
    rw [hcw3]
  rw [e1c] at hsym hpad
  have hcap := firstBigEnough_le list _ sym hsym
  cases un with
  | true =>
    rw [e2c rfl, hbeq] at hpad
    obtain ⟨out, hout, holen, htake, _, hrest⟩ := DM.Props.C02.padding_conformant _ true (dataCw sym) hcap
    rw [hpad] at hout
    cases hout
    obtain ⟨h129, hpads⟩ := hrest (s3.cw ++ asciiEnc (body.drop p)).length (by simp)
    rw [hLlen] at hcap htake h129 hpads
    rw [hcwE] at htake
    exact ⟨V, n, p, true, _, _, hVl, hVlt, hch2, hp, rfl, holen, hcap, htake, by simp, h129, hpads, hb, by omega⟩
  | false =>
    obtain ⟨hasz1, S, hS, hScap⟩ := hexact rfl
    have hl2 : (s3.cw ++ asciiEnc (body.drop p)).length = s3.cw.length + asciiSize (body.drop p) := by simp [haszlen]
    rw [hl2, hS] at hsym
    simp only [Option.some.injEq] at hsym
    subst hsym
    rw [addPadding_exact _ _ _ (by rw [hl2]; exact hScap.symm)] at hpad
    simp only [Option.some.injEq] at hpad
    subst hpad
    have hfull : 1 + 2 * n + (if false = true then 1 else 0) + (asciiEnc (body.drop p)).length = dataCw S := by
      rw [← hLlen, hl2]; exact hScap.symm
    refine ⟨V, n, p, false, _, _, hVl, hVlt, hch2, hp, rfl, by rw [hl2]; exact hScap.symm, by omega, ?_,
      fun _ => ⟨hfull, by omega⟩, fun hlt => absurd hlt (by omega), fun i h1 h2 => absurd h2 (by omega), hb, by omega⟩
    rw [← hLlen, List.take_length, hcwE]

theorem asciiEnc_nil_iff (l : List Nat) (h : asciiEnc l = []) : l = [] := by
  match l, h with
  | [], _ => rfl
  | [a], h => simp [asciiEnc, enc1] at h; split at h <;> simp at h
  | a :: b :: t, h =>
    simp only [asciiEnc] at h
    split at h
    · simp at h
    · have := congrArg List.length h
      simp [enc1] at this
      split at this <;> simp at this

/-- **The reference decoder on a pure C40 / Text stream** of the shape of `run_c40_shape`. -/
theorem spec_run_c40 (text : Bool) (cwl body : List Nat) (hb : ByteList body) (V : List Nat) (n p : Nat) (un : Bool)
    (cst : CState) (L : Nat) (hVl : V.length = 3 * n) (hVlt : ∀ v ∈ V, v < 40)
    (hv : cvals text V {} = .ok (cst, body.take p)) (hp : p ≤ body.length)
    (hL : L = 1 + 2 * n + (if un then 1 else 0) + (asciiEnc (body.drop p)).length) (hlen : L ≤ cwl.length)
    (htake : cwl.take L = latchOf text :: packTriples V ++ (if un then [254] else []) ++ asciiEnc (body.drop p))
    (hun : un = false → L = cwl.length ∧ (asciiEnc (body.drop p)).length ≤ 1)
    (h129 : L < cwl.length → cwl.getD L 0 = 129)
    (hpads : ∀ i, L < i → i < cwl.length → unrand253 (cwl.getD i 0) (i + 1) = 129) :
    ∃ sF, run cwl.toArray (3 * cwl.length + 4) { i := 0 } = .ok sF ∧
      sF.out = body.toArray ∧
      sF.trace = Array.replicate p (cmode text) ++ Array.replicate (body.length - p) .ascii ∧
      sF.latches = #[(0, cmode text)] ∧ sF.ecis = #[] ∧
      sF.padAt = (if L = cwl.length then none else some L) := by
  have hpl := packTriples_length n V hVl
  have hrb : ByteList (body.drop p) := hb.drop _
  have hsplit : body.take p ++ body.drop p = body := List.take_append_drop _ _
  have htl : (body.take p).length = p := by rw [List.length_take]; omega
  have hdl : (body.drop p).length = body.length - p := List.length_drop
  -- the stream in two parts
  have hXlen : (latchOf text :: packTriples V ++ (if un then [254] else []) ++ asciiEnc (body.drop p)).length = L := by
    cases un <;> simp [hpl, hL] <;> omega
  have ho := occurs_of_take cwl [] (latchOf text :: packTriples V ++ (if un then [254] else []) ++ asciiEnc (body.drop p))
    (by simp only [List.length_nil, Nat.zero_add, List.nil_append]; rw [hXlen]; exact htake)
  simp only [List.length_nil] at ho
  have ho1 : Occurs cwl.toArray 0 (latchOf text :: packTriples V) := by
    have := ho.left.left
    simpa using this
  have hs1 := steps_c40 text cwl.toArray n V hVl hVlt { i := 0 } cst (body.take p) rfl ho1 hv
  generalize hS1 : emitC (latch ({ i := 0 } : St) (cmode text)) (2 * n) cst (body.take p) = S1 at hs1
  have hS1i : S1.i = 1 + 2 * n := by rw [← hS1]; simp [latch]
  have hS1m : S1.mode = cmode text := by rw [← hS1]; simp [latch]
  have hS1o : S1.out = (body.take p).toArray := by rw [← hS1]; simp [emitC, latch]
  have hS1t : S1.trace = Array.replicate p (cmode text) := by rw [← hS1]; simp [emitC, latch, htl]
  have hS1l : S1.latches = #[(0, cmode text)] := by rw [← hS1]; simp [emitC, latch]
  have hS1e : S1.ecis = #[] := by rw [← hS1]; simp [emitC, latch]
  have hS1p : S1.padAt = none := by rw [← hS1]; simp [emitC, latch]
  -- the common end: an ASCII-mode state `S2` standing in front of the ASCII rest
  have fin : ∀ (S2 : St) (k0 : Nat), k0 ≤ 1 → Steps cwl.toArray k0 S1 S2 → S2.mode = .ascii →
      S2.i = 1 + 2 * n + (if un then 1 else 0) → S2.out = S1.out → S2.trace = S1.trace → S2.latches = S1.latches →
      S2.ecis = S1.ecis → S2.padAt = S1.padAt →
      ∃ sF, run cwl.toArray (3 * cwl.length + 4) { i := 0 } = .ok sF ∧
        sF.out = body.toArray ∧
        sF.trace = Array.replicate p (cmode text) ++ Array.replicate (body.length - p) .ascii ∧
        sF.latches = #[(0, cmode text)] ∧ sF.ecis = #[] ∧
        sF.padAt = (if L = cwl.length then none else some L) := by
    intro S2 k0 hk0 hst hm2 hi2 e1 e2 e3 e4 e5
    have ho2 : Occurs cwl.toArray S2.i (asciiEnc (body.drop p)) := by
      have := ho.right
      rw [hi2]
      have hl : (latchOf text :: packTriples V ++ if un = true then [254] else []).length =
          1 + 2 * n + (if un then 1 else 0) := by
        cases un <;> simp [hpl] <;> omega
      rw [hl, Nat.zero_add] at this
      exact this
    obtain ⟨k, hk, hsteps, hend⟩ := steps_ascii_tail cwl (body.drop p) hrb S2 hm2 L (by rw [hL, hi2]) hlen ho2 h129 hpads
    refine ⟨_, ((hs1.trans hst).trans hsteps).finish hend (by omega), ?_, ?_, ?_, ?_, ?_⟩
    · simp only [emit, e1, hS1o]
      rw [← hsplit]; simp
    · simp only [emit, e2, hS1t, hdl]
    · simp only [emit, e3, hS1l]
    · simp only [emit, e4, hS1e]
    · simp only [e5, hS1p]
  cases un with
  | true =>
    have hc : cwl.toArray[S1.i]? = some 254 := by
      have := ho.left.right
      simp only [List.length_cons, hpl, Nat.zero_add] at this
      have := this.head
      rw [hS1i]
      rw [← this]; congr 1; omega
    have h2 := step_c40_unlatch text cwl.toArray S1 hc hS1m
    exact fin _ 1 (Nat.le_refl _) (Steps.one h2) rfl (by simp [hS1i]) rfl rfl rfl rfl rfl
  | false =>
    obtain ⟨hfull, hle1⟩ := hun rfl
    simp only [Bool.false_eq_true, ↓reduceIte, Nat.add_zero, List.append_nil] at hL htake ho fin
    match hx : asciiEnc (body.drop p), hle1 with
    | [], _ =>
      have hnil := asciiEnc_nil_iff _ hx
      rw [hx] at hL
      simp only [List.length_nil, Nat.add_zero] at hL
      refine ⟨S1, hs1.finish (step_end _ _ (by simp; omega)) (by omega), ?_, ?_, hS1l, hS1e, ?_⟩
      · have : body.take p = body := by
          have := hsplit
          rw [hnil, List.append_nil] at this
          exact this
        rw [hS1o, this]
      · have : body.length - p = 0 := by rw [← hdl, hnil]; rfl
        rw [hS1t, this]; simp
      · rw [hS1p, if_pos hfull]
    | [x], _ =>
      rw [hx] at hL ho
      simp only [List.length_singleton] at hL
      have hc : cwl.toArray[S1.i]? = some x := by
        have := ho.right.head
        simp only [List.length_cons, hpl, Nat.zero_add] at this
        rw [hS1i]
        rw [← this]; congr 1; omega
      have hx254 : x ≠ 254 := by
        have := (DM.Lemmas.X12RT.asciiSeg_asciiEnc _ hrb).1 x (by rw [hx]; simp)
        exact this.1
      have h2 := step_c40_last text cwl.toArray S1 x hc hS1m (by simp; omega) hx254
      exact fin _ 1 (Nat.le_refl _) (Steps.one h2) rfl (by simp [hS1i]) rfl rfl rfl rfl rfl
end DM.Lemmas.SpecC40
