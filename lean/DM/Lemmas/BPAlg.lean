import DM.Lemmas.BPDefs
import Mathlib.LinearAlgebra.Vandermonde
import Mathlib.Tactic.Ring
import Mathlib.Tactic.FieldSimp
import Mathlib.Tactic.Linarith
/-
Correctness of the Björck–Pereyra algorithm of `BPDefs.lean` (dual Vandermonde system).
-/
namespace DM.Lemmas.BP

open Finset

variable {F : Type} [Field F]

/-! ### Newton basis -/

/-- Newton basis polynomial `N_j(t) = Π_{i<j} (t − x_i)` (as a function) -/
def newton (x : ℕ → F) (j : ℕ) (t : F) : F := ∏ i ∈ range j, (t - x i)

theorem newton_zero (x : ℕ → F) (t : F) : newton x 0 t = 1 := by simp [newton]

theorem newton_succ (x : ℕ → F) (j : ℕ) (t : F) :
    newton x (j + 1) t = newton x j t * (t - x j) := prod_range_succ _ _

theorem newton_eq_zero (x : ℕ → F) {l j : ℕ} (h : l < j) : newton x j (x l) = 0 :=
  prod_eq_zero (mem_range.2 h) (sub_self _)

/-! ### (1) existence of a solution of the dual Vandermonde system -/

theorem exists_sol (e : ℕ) (x : ℕ → F)
    (hinj : ∀ i, i < e → ∀ j, j < e → x i = x j → i = j) (b : ℕ → F) :
    ∃ y : ℕ → F, ∀ i, i < e → ∑ l ∈ range e, y l * x l ^ i = b i := by
  classical
  let v : Fin e → F := fun i => x i
  have hv : Function.Injective v := fun i j h => Fin.ext (hinj i i.2 j j.2 h)
  have hdet : (Matrix.vandermonde v).det ≠ 0 := Matrix.det_vandermonde_ne_zero_iff.2 hv
  let bb : Fin e → F := fun i => b i
  let y := Matrix.vecMul bb (Matrix.vandermonde v)⁻¹
  have hy : Matrix.vecMul y (Matrix.vandermonde v) = bb := by
    rw [Matrix.vecMul_vecMul, Matrix.nonsing_inv_mul _ (isUnit_iff_ne_zero.2 hdet),
      Matrix.vecMul_one]
  refine ⟨fun l => if h : l < e then y ⟨l, h⟩ else 0, fun i hi => ?_⟩
  have := congrFun hy ⟨i, hi⟩
  simp only [Matrix.vecMul, dotProduct, Matrix.vandermonde_apply] at this
  rw [Finset.sum_range]
  simpa [v, bb] using this

/-! ### (2) stage 1 -/

/-- the polynomial carried by position `j` after `n` steps of stage 1 -/
def P (x : ℕ → F) (n j : ℕ) (t : F) : F :=
  if n ≤ j then t ^ (j - n) * newton x n t else newton x j t

theorem P_of_le (x : ℕ → F) {n j : ℕ} (h : j ≤ n) (t : F) : P x n j t = newton x j t := by
  unfold P
  split_ifs with h'
  · have : j = n := by omega
    subst this
    simp
  · rfl

theorem stage1_track (e : ℕ) (x : ℕ → F) (y' b : ℕ → F)
    (hb : ∀ i, i < e → b i = ∑ l ∈ range e, y' l * x l ^ i) :
    ∀ n j, j < e → stage1 e x n b j = ∑ l ∈ range e, y' l * P x n j (x l)
  | 0, j, hj => by simp [stage1, P, newton, hb j hj]
  | n + 1, j, hj => by
    simp only [stage1, s1Step]
    split_ifs with h
    · rw [stage1_track e x y' b hb n j hj, stage1_track e x y' b hb n (j - 1) (by omega),
        mul_sum, ← sum_sub_distrib]
      refine sum_congr rfl fun l _ => ?_
      have h1 : n ≤ j := by omega
      have h2 : n ≤ j - 1 := by omega
      have h3 : n + 1 ≤ j := h.1
      simp only [P, h1, h2, h3, if_true, newton_succ]
      have e1 : j - n = (j - (n + 1)) + 1 := by omega
      have e2 : j - 1 - n = j - (n + 1) := by omega
      rw [e1, e2, pow_succ]
      ring
    · rw [stage1_track e x y' b hb n j hj]
      refine sum_congr rfl fun l _ => ?_
      have h1 : j ≤ n := by omega
      rw [P_of_le x h1, P_of_le x (by omega : j ≤ n + 1)]

theorem stage1_final (e : ℕ) (x : ℕ → F) (y' b : ℕ → F)
    (hb : ∀ i, i < e → b i = ∑ l ∈ range e, y' l * x l ^ i) (j : ℕ) (hj : j < e) :
    stage1 e x (e - 1) b j = ∑ l ∈ range e, y' l * newton x j (x l) := by
  rw [stage1_track e x y' b hb (e - 1) j hj]
  refine sum_congr rfl fun l _ => ?_
  rw [P_of_le x (by omega)]

/-! ### (3) stage 2 is the transpose of the divided-difference table -/

/-- one column step of the divided-difference table -/
def Estep (x : ℕ → F) (k : ℕ) (h : ℕ → F) : ℕ → F :=
  fun j => if k + 1 ≤ j then (h j - h (j - 1)) / (x j - x (j - k - 1)) else h j

/-- the divided-difference table: `D x g m j = g[x_{j-m}, …, x_j]` for `m ≤ j`,
and `g[x_0, …, x_j]` for `m ≥ j` -/
def D (x : ℕ → F) (g : ℕ → F) : ℕ → ℕ → F
  | 0 => g
  | m + 1 => Estep x m (D x g m)

theorem sum_shift (e k : ℕ) (f : ℕ → ℕ → F) :
    ∑ j ∈ range e, (if k ≤ j ∧ j + 1 < e then f (j + 1) j else 0)
      = ∑ j ∈ range e, (if k + 1 ≤ j then f j (j - 1) else 0) := by
  cases e with
  | zero => simp
  | succ e =>
    rw [sum_range_succ, sum_range_succ']
    simp only [Nat.add_lt_add_iff_right, lt_irrefl, and_false, if_false, add_zero,
      Nat.add_le_add_iff_right, Nat.add_sub_cancel, Nat.le_zero, Nat.add_one_ne_zero]
    refine sum_congr rfl fun j hj => ?_
    have := mem_range.1 hj
    simp [this]

theorem step_dual (e : ℕ) (x : ℕ → F) (k : ℕ) (b h : ℕ → F) :
    ∑ j ∈ range e, s2Sub e k (s2Div e x k b) j * h j
      = ∑ j ∈ range e, b j * Estep x k h j := by
  have hL : ∑ j ∈ range e, s2Sub e k (s2Div e x k b) j * h j
      = ∑ j ∈ range e, s2Div e x k b j * h j
        - ∑ j ∈ range e, (if k ≤ j ∧ j + 1 < e then s2Div e x k b (j + 1) * h j else 0) := by
    rw [← sum_sub_distrib]
    refine sum_congr rfl fun j _ => ?_
    simp only [s2Sub]
    split_ifs <;> ring
  have hR : ∑ j ∈ range e, b j * Estep x k h j
      = ∑ j ∈ range e, s2Div e x k b j * h j
        - ∑ j ∈ range e, (if k + 1 ≤ j then s2Div e x k b j * h (j - 1) else 0) := by
    rw [← sum_sub_distrib]
    refine sum_congr rfl fun j hj => ?_
    have hj' := mem_range.1 hj
    simp only [s2Div, Estep, hj', and_true]
    split_ifs <;> ring
  rw [hL, hR, sum_shift e k (fun a c => s2Div e x k b a * h c)]

theorem stage2_dual (e : ℕ) (x : ℕ → F) :
    ∀ (n : ℕ) (c g : ℕ → F),
      ∑ j ∈ range e, stage2 e x n c j * g j = ∑ j ∈ range e, c j * D x g n j
  | 0, c, g => rfl
  | n + 1, c, g => by
    simp only [stage2, D]
    rw [stage2_dual e x n, step_dual]

theorem D_stable (x : ℕ → F) (g : ℕ → F) (j : ℕ) : ∀ m, j ≤ m → D x g m j = D x g j j := by
  intro m hm
  induction m with
  | zero =>
    have : j = 0 := by omega
    subst this; rfl
  | succ m ih =>
    rcases Nat.eq_or_lt_of_le hm with h | h
    · subst h; rfl
    · have h' : j ≤ m := by omega
      rw [← ih h']
      simp only [D, Estep]
      rw [if_neg (by omega)]

/-! ### (4) Newton interpolation at the nodes -/

theorem newton_tele (d Q z : ℕ → F) (L xa : F) (hQ : ∀ i, Q (i + 1) = (L - z i) * Q i) :
    ∀ m, ∑ i ∈ range m, (d i + d (i + 1) * (z i - xa)) * Q i
      = d 0 * Q 0 - d m * Q m + ∑ i ∈ range m, d (i + 1) * ((L - xa) * Q i) := by
  intro m
  induction m with
  | zero => simp
  | succ m ih =>
    rw [sum_range_succ, sum_range_succ, ih, hQ m]
    ring

theorem D_table (e : ℕ) (x : ℕ → F)
    (hinj : ∀ i, i < e → ∀ j, j < e → x i = x j → i = j) (g : ℕ → F) (a i : ℕ)
    (h : a + 1 + i < e) :
    D x g i (a + 1 + i) = D x g i (a + i) + D x g (i + 1) (a + 1 + i) * (x (a + 1 + i) - x a) := by
  have hne : x (a + 1 + i) - x a ≠ 0 := by
    intro h0
    have := hinj (a + 1 + i) h a (by omega) (sub_eq_zero.1 h0)
    omega
  have e1 : a + 1 + i - 1 = a + i := by omega
  have e2 : a + 1 + i - i - 1 = a := by omega
  simp only [D, Estep]
  rw [if_pos (by omega), e1, e2]
  field_simp
  ring

theorem newton_interp_gen (e : ℕ) (x : ℕ → F)
    (hinj : ∀ i, i < e → ∀ j, j < e → x i = x j → i = j) (g : ℕ → F) :
    ∀ n a, a + n < e →
      g (a + n) = ∑ i ∈ range (n + 1), D x g i (a + i) * ∏ r ∈ range i, (x (a + n) - x (a + r))
  | 0, a, _ => by simp [D]
  | n + 1, a, h => by
    have ih := newton_interp_gen e x hinj g n (a + 1) (by omega)
    have e0 : a + 1 + n = a + (n + 1) := by omega
    rw [e0] at ih
    rw [ih, sum_range_succ' _ (n + 1)]
    set L := x (a + (n + 1)) with hL
    have hQ : ∀ i, (∏ r ∈ range (i + 1), (L - x (a + 1 + r)))
        = (L - x (a + 1 + i)) * ∏ r ∈ range i, (L - x (a + 1 + r)) := by
      intro i; rw [prod_range_succ, mul_comm]
    have hQ0 : (∏ r ∈ range (n + 1), (L - x (a + 1 + r))) = 0 := by
      refine prod_eq_zero (mem_range.2 (Nat.lt_succ_self n)) ?_
      rw [hL, e0, sub_self]
    have key := newton_tele (fun i => D x g i (a + i))
      (fun i => ∏ r ∈ range i, (L - x (a + 1 + r))) (fun i => x (a + 1 + i)) L (x a) hQ (n + 1)
    simp only [hQ0, mul_zero, sub_zero, range_zero, prod_empty, mul_one] at key
    have lhs : ∑ i ∈ range (n + 1), D x g i (a + 1 + i) * ∏ r ∈ range i, (L - x (a + 1 + r))
        = ∑ i ∈ range (n + 1), (D x g i (a + i) + D x g (i + 1) (a + (i + 1)) * (x (a + 1 + i) - x a))
            * ∏ r ∈ range i, (L - x (a + 1 + r)) := by
      refine sum_congr rfl fun i hi => ?_
      have hi' := mem_range.1 hi
      rw [D_table e x hinj g a i (by omega)]
      have : a + 1 + i = a + (i + 1) := by omega
      rw [this]
    rw [lhs, key]
    simp only [range_zero, prod_empty, mul_one, add_zero]
    rw [add_comm]
    congr 1
    refine sum_congr rfl fun i _ => ?_
    rw [prod_range_succ']
    simp only [add_zero]
    have hp : ∏ r ∈ range i, (L - x (a + (r + 1))) = ∏ r ∈ range i, (L - x (a + 1 + r)) :=
      prod_congr rfl fun r _ => by rw [show a + (r + 1) = a + 1 + r by omega]
    rw [hp]
    ring

theorem newton_interp (e : ℕ) (x : ℕ → F)
    (hinj : ∀ i, i < e → ∀ j, j < e → x i = x j → i = j) (g : ℕ → F) (l : ℕ) (hl : l < e) :
    g l = ∑ j ∈ range e, D x g j j * newton x j (x l) := by
  have h := newton_interp_gen e x hinj g l 0 (by omega)
  simp only [zero_add] at h
  rw [h]
  have hle : l + 1 ≤ e := by omega
  refine sum_subset (range_subset_range.2 hle) fun j _ hj => ?_
  have : l < j := by
    have := mt mem_range.2 hj
    omega
  show D x g j j * newton x j (x l) = 0
  rw [newton_eq_zero x this, mul_zero]

/-! ### (5) the algorithm -/

theorem bp_pairing (e : ℕ) (x : ℕ → F)
    (hinj : ∀ i, i < e → ∀ j, j < e → x i = x j → i = j) (y' b : ℕ → F)
    (hb : ∀ i, i < e → b i = ∑ l ∈ range e, y' l * x l ^ i) (g : ℕ → F) :
    ∑ l ∈ range e, stage2 e x (e - 1) (stage1 e x (e - 1) b) l * g l
      = ∑ l ∈ range e, y' l * g l := by
  rw [stage2_dual]
  have h1 : ∑ j ∈ range e, stage1 e x (e - 1) b j * D x g (e - 1) j
      = ∑ j ∈ range e, ∑ l ∈ range e, y' l * (D x g j j * newton x j (x l)) := by
    refine sum_congr rfl fun j hj => ?_
    have hj' := mem_range.1 hj
    rw [stage1_final e x y' b hb j hj', D_stable x g j (e - 1) (by omega), sum_mul]
    refine sum_congr rfl fun l _ => ?_
    ring
  rw [h1, sum_comm]
  refine sum_congr rfl fun l hl => ?_
  rw [← mul_sum, ← newton_interp e x hinj g l (mem_range.1 hl)]

theorem bp_solves (e : ℕ) (x : ℕ → F)
    (hinj : ∀ i, i < e → ∀ j, j < e → x i = x j → i = j) (b : ℕ → F) :
    ∀ i, i < e →
      ∑ l ∈ Finset.range e, stage2 e x (e - 1) (stage1 e x (e - 1) b) l * x l ^ i = b i := by
  intro i hi
  obtain ⟨y', hy'⟩ := exists_sol e x hinj b
  rw [bp_pairing e x hinj y' b (fun i hi => (hy' i hi).symm) (fun l => x l ^ i)]
  exact hy' i hi

theorem bp_correct (e : ℕ) (x : ℕ → F)
    (hinj : ∀ i, i < e → ∀ j, j < e → x i = x j → i = j) (hx0 : ∀ i, i < e → x i ≠ 0)
    (b : ℕ → F) :
    ∀ i, i < e → ∑ l ∈ Finset.range e, bp e x b l * x l ^ (i + 1) = b i := by
  intro i hi
  rw [← bp_solves e x hinj b i hi]
  refine sum_congr rfl fun l hl => ?_
  have := hx0 l (mem_range.1 hl)
  simp only [bp]
  rw [pow_succ]
  field_simp

end DM.Lemmas.BP
