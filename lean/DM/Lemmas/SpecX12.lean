import DM.Lemmas.SpecAscii
import DM.Lemmas.CompleteX12
import DM.Lemmas.X12RT
import DM.Props.C02
/-
The reference decoder (`DM.Spec.Stream`) in X12 mode: a pair of codewords is three Table 5 values,
UNLATCH 254, the end-of-symbol rules (one codeword left: back to ASCII without consuming it unless it
is UNLATCH; nothing left: the decoder stops in X12 mode); a whole segment `238, triples, ending` from
any position (`steps_x12`); the ASCII rest and the padding area behind it (`steps_ascii_tail`).
-/
namespace DM.Lemmas.SpecX12
open DM.Model DM.Lemmas DM.Lemmas.AsciiRT DM.Lemmas.SpecStep DM.Lemmas.SpecAscii DM.Spec.Stream
open DM.Spec.Build (packTriples x12Val)
open DM.Lemmas.Complete (X12Native packTriples_length filterMap_native_length)
open DM.Lemmas.EncRT DM.Lemmas.MainRT DM.Lemmas.X12RT

theorem step_x12_unlatch (cw : Array Nat) (s : St) (hc : cw[s.i]? = some 254) (hm : s.mode = .x12) :
    step cw s = .ok (some { s with i := s.i + 1, mode := .ascii }) := by
  obtain ⟨h, hc⟩ := idx hc
  have hn : ¬ cw.size ≤ s.i := by omega
  unfold step
  simp only [hm, hc]
  simp [hn]
  rfl

theorem step_x12_last (cw : Array Nat) (s : St) (c : Nat) (hc : cw[s.i]? = some c) (hm : s.mode = .x12)
    (hlast : s.i + 1 = cw.size) (h254 : c ≠ 254) :
    step cw s = .ok (some { s with mode := .ascii }) := by
  obtain ⟨h, hc⟩ := idx hc
  have hn : ¬ cw.size ≤ s.i := by omega
  have hr : cw.size - s.i = 1 := by omega
  unfold step
  simp only [hm, hc]
  simp [hn, hr, h254]
  rfl

theorem step_x12_triple (cw : Array Nat) (s : St) (c d b1 b2 b3 : Nat) (hc : cw[s.i]? = some c) (hd : cw[s.i + 1]? = some d)
    (hm : s.mode = .x12) (h254 : c ≠ 254) (h0 : c * 256 + d ≠ 0) (hbig : (c * 256 + d - 1) / 1600 < 40)
    (h1 : x12Value ((c * 256 + d - 1) / 1600) = .ok b1) (h2 : x12Value ((c * 256 + d - 1) / 40 % 40) = .ok b2)
    (h3 : x12Value ((c * 256 + d - 1) % 40) = .ok b3) :
    step cw s = .ok (some { push (push (push s b1 .x12) b2 .x12) b3 .x12 with i := s.i + 2 }) := by
  obtain ⟨h, hc⟩ := idx hc
  obtain ⟨h', hd⟩ := idx hd
  have hn : ¬ cw.size ≤ s.i := by omega
  have hr : ¬ cw.size - s.i = 1 := by omega
  have hbig' : ¬ 40 ≤ (c * 256 + d - 1) / 1600 := by omega
  have h0' : ¬ (c * 256 = 0 ∧ d = 0) := by omega
  unfold step
  simp only [hm, hc, hd]
  simp [hn, hr, h254, h0', hbig', h1, h2, h3]
  rfl


theorem push3_emit (s : St) (a b c n : Nat) (m : Mode) :
    { push (push (push s a m) b m) c m with i := s.i + n } = emit s n [a, b, c] m := by
  have h1 : ∀ (o : Array Nat) (a b c : Nat), ((o.push a).push b).push c = o ++ #[a, b, c] := by
    intro o a b c; apply Array.ext'; simp
  have h2 : ∀ (o : Array Mode) (a b c : Mode), ((o.push a).push b).push c = o ++ #[a, b, c] := by
    intro o a b c; apply Array.ext'; simp
  have h3 : Array.replicate 3 m = #[m, m, m] := rfl
  simp [emit, push, h1, h2, h3]

/-- Table 5 read in both directions: the encoder's value of a native character is decoded to it -/
theorem x12Val_value (b v : Nat) (h : x12Val b = some v) : v < 40 ∧ x12Value v = .ok b := by
  unfold x12Val at h
  unfold x12Value
  by_cases c1 : b = 13
  · rw [if_pos c1] at h; cases h; subst c1; exact ⟨by omega, by simp⟩
  rw [if_neg c1] at h
  by_cases c2 : b = 42
  · rw [if_pos c2] at h; cases h; subst c2; exact ⟨by omega, by simp⟩
  rw [if_neg c2] at h
  by_cases c3 : b = 62
  · rw [if_pos c3] at h; cases h; subst c3; exact ⟨by omega, by simp⟩
  rw [if_neg c3] at h
  by_cases c4 : b = 32
  · rw [if_pos c4] at h; cases h; subst c4; exact ⟨by omega, by simp⟩
  rw [if_neg c4] at h
  by_cases c5 : 48 ≤ b ∧ b ≤ 57
  · rw [if_pos c5] at h; cases h
    refine ⟨by omega, ?_⟩
    rw [if_neg (by omega), if_neg (by omega), if_neg (by omega), if_neg (by omega), if_pos (by omega)]
    congr 1; omega
  rw [if_neg c5] at h
  by_cases c6 : 65 ≤ b ∧ b ≤ 90
  · rw [if_pos c6] at h; cases h
    refine ⟨by omega, ?_⟩
    rw [if_neg (by omega), if_neg (by omega), if_neg (by omega), if_neg (by omega), if_neg (by omega), if_pos (by omega)]
    congr 1; omega
  rw [if_neg c6] at h
  cases h

/-- one packed triple of native characters: one step, two codewords, three bytes carried by X12 -/
theorem steps_x12_one (cw : Array Nat) (s : St) (x y z vx vy vz : Nat) (hx : x12Val x = some vx) (hy : x12Val y = some vy)
    (hz : x12Val z = some vz) (hm : s.mode = .x12) (ho : Occurs cw s.i (packTriples [vx, vy, vz])) :
    Steps cw 1 s (emit s 2 [x, y, z] .x12) := by
  obtain ⟨lx, dx⟩ := x12Val_value x vx hx
  obtain ⟨ly, dy⟩ := x12Val_value y vy hy
  obtain ⟨lz, dz⟩ := x12Val_value z vz hz
  simp only [packTriples] at ho
  generalize hv : 1600 * vx + 40 * vy + vz + 1 = v at ho
  have e1 : v / 256 * 256 + v % 256 = v := Nat.div_add_mod' v 256
  have e2 : (v - 1) / 1600 = vx := by omega
  have e3 : (v - 1) / 40 % 40 = vy := by omega
  have e4 : (v - 1) % 40 = vz := by omega
  apply Steps.one
  rw [step_x12_triple cw s (v / 256) (v % 256) x y z ho.head ho.tail.head hm (by omega) (by omega)
    (by rw [e1, e2]; exact lx) (by rw [e1, e2]; exact dx) (by rw [e1, e3]; exact dy) (by rw [e1, e4]; exact dz), push3_emit]

/-- `n` packed triples -/
theorem steps_x12_triples (cw : Array Nat) : ∀ (n : Nat) (b : List Nat), b.length = 3 * n → X12Native b → ∀ (s : St),
    s.mode = .x12 → Occurs cw s.i (packTriples (b.filterMap x12Val)) → Steps cw n s (emit s (2 * n) b .x12) := by
  intro n
  induction n with
  | zero =>
    intro b hl _ s _ _
    have : b = [] := List.length_eq_zero_iff.mp (by omega)
    subst this
    rw [emit_zero]; exact Steps.refl cw s
  | succ n ih =>
    intro b hl hn s hm ho
    match b, hl, hn with
    | x :: y :: z :: t, hl, hn =>
      obtain ⟨vx, hvx⟩ := Option.isSome_iff_exists.mp (hn x (by simp))
      obtain ⟨vy, hvy⟩ := Option.isSome_iff_exists.mp (hn y (by simp))
      obtain ⟨vz, hvz⟩ := Option.isSome_iff_exists.mp (hn z (by simp))
      have ht : X12Native t := fun w hw => hn w (by simp [hw])
      have hlt : t.length = 3 * n := by simp only [List.length_cons] at hl; omega
      have hfm : (x :: y :: z :: t).filterMap x12Val = vx :: vy :: vz :: t.filterMap x12Val := by
        simp [hvx, hvy, hvz]
      rw [hfm] at ho
      have hsplit : packTriples (vx :: vy :: vz :: t.filterMap x12Val) =
          packTriples [vx, vy, vz] ++ packTriples (t.filterMap x12Val) := by simp [packTriples]
      rw [hsplit] at ho
      have h1 := steps_x12_one cw s x y z vx vy vz hvx hvy hvz hm ho.left
      have h2 := ih t hlt ht (emit s 2 [x, y, z] .x12) (by simpa using hm) (by simpa [packTriples] using ho.right)
      have := h1.trans h2
      rw [emit_emit] at this
      have e : 2 + 2 * n = 2 * (n + 1) := by omega
      have e' : 1 + n = n + 1 := by omega
      rw [e, e'] at this
      simpa using this
    | [], hl, _ => simp at hl
    | [_], hl, _ => simp at hl; omega
    | [_, _], hl, _ => simp at hl; omega


/-! ### a whole X12 segment: latch, triples, the way it ends -/

/-- the decoder's state behind an X12 segment entered at `s`: the latch recorded at `s.i`, the bytes
`b` (from `n` triples) carried by X12, `k` further codewords consumed, mode `m` -/
def x12Done (s : St) (n : Nat) (b : List Nat) (k : Nat) (m : Mode) : St :=
  { s with i := s.i + 1 + 2 * n + k, mode := m, cst := {}, out := s.out ++ b.toArray,
           trace := s.trace ++ Array.replicate b.length .x12, latches := s.latches.push (s.i, .x12) }

/-- latch 238 and `n` whole triples, from any position reached in ASCII mode -/
theorem steps_x12_body (cw : Array Nat) (n : Nat) (b : List Nat) (hl : b.length = 3 * n) (hn : X12Native b) (s : St)
    (hm : s.mode = .ascii) (ho : Occurs cw s.i (238 :: packTriples (b.filterMap x12Val))) :
    Steps cw (1 + n) s (x12Done s n b 0 .x12) := by
  have h1 := Steps.one (step_latch cw s 238 .x12 ho.head hm (by simp))
  have h2 := steps_x12_triples cw n b hl hn (latch s .x12) rfl ho.tail
  have := h1.trans h2
  have e : emit (latch s .x12) (2 * n) b .x12 = x12Done s n b 0 .x12 := by
    simp [emit, latch, x12Done]
  rw [e] at this
  exact this

/-- the three ways an X12 segment ends, as the reference decoder sees them at position `p` (behind
the triples): `E` the codewords standing there that belong to the ending, `k` how many of them the
X12 rules consume, `m` the mode afterwards -/
inductive X12Tail (cw : Array Nat) (p : Nat) : List Nat → Nat → Mode → Prop
  /-- UNLATCH (also when it is the last codeword of the symbol) -/
  | unlatch : X12Tail cw p [254] 1 .ascii
  /-- exactly one codeword is left and it is not UNLATCH: it is an ASCII codeword, not consumed here -/
  | single (c : Nat) (hc : c ≠ 254) (hsz : cw.size = p + 1) : X12Tail cw p [c] 0 .ascii
  /-- the triples end with the symbol: the decoder stops in X12 mode -/
  | exact (hsz : cw.size = p) : X12Tail cw p [] 0 .x12

/-- **X12 segment**: latch 238 + whole triples + the way the run ends, from any position -/
theorem steps_x12 (cw : Array Nat) (n : Nat) (b : List Nat) (hl : b.length = 3 * n) (hn : X12Native b) (s : St)
    (hm : s.mode = .ascii) (E : List Nat) (k : Nat) (m : Mode) (ht : X12Tail cw (s.i + 1 + 2 * n) E k m)
    (ho : Occurs cw s.i (238 :: packTriples (b.filterMap x12Val) ++ E)) :
    ∃ j, j ≤ 1 + n + 1 ∧ Steps cw j s (x12Done s n b k m) ∧
      (m = .x12 → step cw (x12Done s n b k m) = .ok none) := by
  have hpl : (238 :: packTriples (b.filterMap x12Val)).length = 1 + 2 * n := by
    rw [List.length_cons, packTriples_length n _ (by rw [filterMap_native_length b hn, hl])]; omega
  have hbody := steps_x12_body cw n b hl hn s hm ho.left
  have hE : Occurs cw (s.i + 1 + 2 * n) E := by
    have := ho.right; rw [hpl] at this
    rw [Nat.add_assoc]; exact this
  cases ht with
  | unlatch =>
    refine ⟨1 + n + 1, Nat.le_refl _, ?_, fun h => by cases h⟩
    have h2 := step_x12_unlatch cw (x12Done s n b 0 .x12) (by simpa [x12Done] using hE.head) rfl
    exact hbody.trans (Steps.one h2)
  | single c hc hsz =>
    refine ⟨1 + n + 1, Nat.le_refl _, ?_, fun h => by cases h⟩
    have h2 := step_x12_last cw (x12Done s n b 0 .x12) c (by simpa [x12Done] using hE.head) rfl
      (by simp [x12Done]; omega) hc
    exact hbody.trans (Steps.one h2)
  | exact hsz =>
    exact ⟨1 + n, by omega, hbody, fun _ => step_end _ _ (by simp [x12Done]; omega)⟩

/-! ### what follows the segment: the ASCII rest and the padding area -/

/-- from a state in ASCII mode: the codewords `asciiEnc rest`, then the end of the symbol or the pad
codeword 129 and randomised pads up to the end; the run is complete afterwards -/
theorem steps_ascii_tail (cwl : List Nat) (s : St) (rest : List Nat) (hb : ByteList rest) (hm : s.mode = .ascii)
    (L : Nat) (hL : L = s.i + (asciiEnc rest).length) (hlen : L ≤ cwl.length)
    (ho : Occurs cwl.toArray s.i (asciiEnc rest))
    (h129 : L < cwl.length → cwl.getD L 0 = 129)
    (hpads : ∀ i, L < i → i < cwl.length → unrand253 (cwl.getD i 0) (i + 1) = 129) :
    ∃ k sF, k ≤ (asciiEnc rest).length + 1 ∧ Steps cwl.toArray k s sF ∧ step cwl.toArray sF = .ok none ∧
      sF = { emit s (asciiEnc rest).length rest .ascii with
             i := cwl.length, padAt := if L = cwl.length then s.padAt else some L } := by
  subst hL
  obtain ⟨k, hk, hsteps⟩ := steps_asciiEnc cwl.toArray rest.length rest (Nat.le_refl _) hb s hm ho
  by_cases hfull : s.i + (asciiEnc rest).length = cwl.length
  · refine ⟨k, _, by omega, hsteps, step_end _ _ (by simp; omega), ?_⟩
    rw [if_pos hfull]
    simp [emit, hfull]
  · have hlt : s.i + (asciiEnc rest).length < cwl.length := by omega
    have hpad : step cwl.toArray (emit s (asciiEnc rest).length rest .ascii) =
        .ok (some { emit s (asciiEnc rest).length rest .ascii with
                    i := cwl.length, padAt := some (s.i + (asciiEnc rest).length) }) := by
      have hc : cwl.toArray[(emit s (asciiEnc rest).length rest .ascii).i]? = some 129 := by
        simp only [emit_i, List.getElem?_toArray]
        have := h129 hlt
        rw [List.getD_eq_getElem?_getD, List.getElem?_eq_getElem hlt] at this
        rw [List.getElem?_eq_getElem hlt]
        simpa using this
      rw [step_pad _ _ hc (by simpa using hm)]
      · simp
      · intro j h1 h2
        rw [getBang_toArray]
        exact hpads j (by simpa using h1) (by simpa using h2)
    refine ⟨k + 1, _, by omega, hsteps.trans (Steps.one hpad), step_end _ _ (by simp), ?_⟩
    rw [if_neg hfull]

/-! ### encoder side: the pure X12 plan behind any prefix -/

def q0 (list : List Sym) (pre body : List Nat) : Enc.St :=
  { input := body, pos := 0, mode := .ascii, plan := [(body.length, .x12), (0, .x12)], newMode := none, cw := pre, list := list }

def q1 (list : List Sym) (pre body : List Nat) : Enc.St :=
  { input := body, pos := 0, mode := .x12, plan := [(0, .x12)], newMode := some 238, cw := pre, list := list }

def qL (list : List Sym) (pre body : List Nat) : Enc.St :=
  { input := body, pos := 0, mode := .x12, plan := [(0, .x12)], newMode := none, cw := pre ++ [238], list := list }

theorem q_iter1 (list : List Sym) (pre body : List Nat) (hne : body ≠ []) (f : Nat) :
    Enc.asciiLoop (f + 1) (q0 list pre body) = .ok (q1 list pre body) := by
  have hpos : 0 < body.length := List.length_pos_iff.mpr hne
  rw [Enc.asciiLoop]
  have : (q0 list pre body).maybeSwitch = .ok (true, q1 list pre body) := by
    simp only [Enc.St.maybeSwitch, q0, q1, Enc.St.charsLeft, Nat.sub_zero, Nat.lt_irrefl, ↓reduceIte, hpos, and_self, ne_eq,
      reduceCtorEq, not_false_eq_true, Enc.EMode.latch]
  rw [this]

theorem x12_partP (list : List Sym) (pre body : List Nat) (s2 : Enc.St) (n : Nat) (run : X12Run (qL list pre body) s2 false n) :
    s2.cw = pre ++ [238] ++ packTriples ((body.take (3 * n)).filterMap x12Val) ∧ s2.pos = 3 * n ∧ 3 * n ≤ body.length ∧
    s2.input = body ∧ s2.list = list ∧ s2.mode = .x12 ∧ s2.newMode = none ∧ X12Native (body.take (3 * n)) ∧
    (body.take (3 * n)).length = 3 * n ∧ body.length < 3 * n + 3 := by
  have hpos := run.pos
  have hle := run.le (Nat.zero_le _)
  have hcw := run.cw
  have hnat := run.native
  obtain ⟨a1, a2, a3⟩ := run.stay rfl
  have hin := run.same.1
  simp only [qL, List.drop_zero, Nat.zero_add] at hpos hle hcw hnat a2 a3 hin
  refine ⟨hcw, hpos, by omega, hin, run.same.2, a2, a3, hnat, ?_, ?_⟩
  · rw [List.length_take]; omega
  · simp only [Enc.St.charsLeft, hin, hpos] at a1; omega

/-- **What the encoder writes under the pure X12 plan**, behind the prefix codewords `pre`: the latch,
`n = body.length / 3` packed triples, and one of three endings. -/
theorem run_x12_shape (list : List Sym) (pre body cw : List Nat) (sym : Sym) (hne : body ≠ [])
    (h : Enc.run list pre body [(body.length, .x12), (0, .x12)] = .ok (cw, sym)) :
    ∃ n, 3 * n ≤ body.length ∧ body.length < 3 * n + 3 ∧ X12Native (body.take (3 * n)) ∧ cw.length = dataCw sym ∧
      ∀ T, T = pre ++ [238] ++ packTriples ((body.take (3 * n)).filterMap x12Val) →
        (3 * n = body.length ∧ cw = T) ∨
        ((asciiEnc (body.drop (3 * n))).length = 1 ∧ cw = T ++ asciiEnc (body.drop (3 * n))) ∨
        (∃ L, L = T.length + 1 + (asciiEnc (body.drop (3 * n))).length ∧ L ≤ dataCw sym ∧
          cw.take L = T ++ [254] ++ asciiEnc (body.drop (3 * n)) ∧ (L < dataCw sym → cw.getD L 0 = 129) ∧
          ∀ i, L < i → i < dataCw sym → unrand253 (cw.getD i 0) (i + 1) = 129) := by
  obtain ⟨sE, hmain, hsym, hpad⟩ := run_unfoldP list pre body cw _ sym h
  have hlen : 0 < body.length := List.length_pos_iff.mpr hne
  -- iteration 1
  have hs0 : (q0 list pre body).hasMore = true := by simp [Enc.St.hasMore, q0, hlen]
  obtain ⟨s1, k1, he1, hm1⟩ := mainLoop_step (2 * body.length + 7) (q0 list pre body) sE 0 hmain hs0
  have hl0 : latched (q0 list pre body) = q0 list pre body := rfl
  rw [hl0] at he1
  have hmode0 : (q0 list pre body).mode = .ascii := rfl
  simp only [Enc.encodeMode, hmode0] at he1
  rw [q_iter1 list pre body hne (Enc.St.charsLeft (q0 list pre body) + 1)] at he1
  simp only [Except.ok.injEq] at he1
  subst he1
  -- iteration 2
  obtain ⟨s3, k2, he2, hm2⟩ := mainLoop_step (2 * body.length + 6) _ sE k1 hm1 (by simp [Enc.St.hasMore, q1, hlen])
  have hl1 : latched (q1 list pre body) = qL list pre body := rfl
  rw [hl1] at he2
  have hmodeL : (qL list pre body).mode = .x12 := rfl
  simp only [Enc.encodeMode, hmodeL] at he2
  have hcases := x12Encode_cases (qL list pre body) s3 rfl rfl he2
  cases hcases with
  | exact s2 n run done fit eq =>
    subst eq
    obtain ⟨c1, c2, c3, c4, c5, c6, c7, c8, c9, c10⟩ := x12_partP list pre body s3 n run
    rw [mainLoop_end _ _ _ done] at hm2
    simp only [Except.ok.injEq] at hm2
    subst hm2
    obtain ⟨sym0, f1, f2⟩ := sizeLeft_zero _ 0 fit
    simp only [Nat.add_zero, c5] at f1 f2
    rw [f1] at hsym
    simp only [Option.some.injEq] at hsym
    subst hsym
    have hfull : 3 * n = body.length := by
      simp only [Enc.St.hasMore, c2, c4] at done
      simp at done; omega
    have hpadv : addPadding s3.cw (s3.mode == .ascii) (dataCw sym0) = some s3.cw := by
      unfold addPadding
      rw [if_neg (by omega)]
      simp [f2]
    rw [hpadv] at hpad
    cases hpad
    refine ⟨n, c3, c10, c8, f2.symm, ?_⟩
    intro T hT
    exact Or.inl ⟨hfull, by rw [hT, c1]⟩
  | unlatch s2 n run eq =>
    obtain ⟨c1, c2, c3, c4, c5, c6, c7, c8, c9, c10⟩ := x12_partP list pre body s2 n run
    have hend : sE.cw = s2.cw ++ [254] ++ asciiEnc (body.drop (3 * n)) ∧ sE.mode = .ascii ∧ sE.list = list := by
      subst eq
      by_cases hmore : (s2.setAscii.push 254).hasMore = true
      · obtain ⟨s4, k3, he3, hm3⟩ := mainLoop_step (2 * body.length + 5) _ sE k2 hm2 hmore
        have hl3 : latched (s2.setAscii.push 254) = s2.setAscii.push 254 := by
          simp [latched, Enc.St.setAscii, Enc.St.push, c7]
        rw [hl3] at he3
        have hmode3 : (s2.setAscii.push 254).mode = .ascii := rfl
        simp only [Enc.encodeMode, hmode3] at he3
        rw [asciiLoop_rest _ rfl rfl (by simp [Enc.St.setAscii, Enc.St.push, c2, c4]; omega)] at he3
        simp only [Except.ok.injEq] at he3
        subst he3
        rw [mainLoop_end _ _ _ (by simp [Enc.St.hasMore, Enc.St.setAscii, Enc.St.push])] at hm3
        cases hm3
        simp [Enc.St.setAscii, Enc.St.push, Enc.St.rest, c2, c4, c5]
      · rw [mainLoop_end _ _ _ (by simpa using hmore)] at hm2
        cases hm2
        have : body.drop (3 * n) = [] := by
          simp only [Enc.St.hasMore, Enc.St.setAscii, Enc.St.push, c2, c4] at hmore
          exact List.drop_eq_nil_of_le (by simp at hmore; omega)
        simp [Enc.St.setAscii, Enc.St.push, this, asciiEnc, c5]
    obtain ⟨e1, e2, e3⟩ := hend
    have hcap := firstBigEnough_le list _ sym hsym
    obtain ⟨out, hout, hlen', htake, _, hrest⟩ := DM.Props.C02.padding_conformant sE.cw (sE.mode == .ascii) (dataCw sym) hcap
    rw [hpad] at hout
    cases hout
    have hasc : (sE.mode == Enc.EMode.ascii) = true := by rw [e2]; decide
    obtain ⟨h129, hpads⟩ := hrest sE.cw.length (by simp [hasc])
    refine ⟨n, c3, c10, c8, hlen', ?_⟩
    intro T hT
    refine Or.inr (Or.inr ⟨sE.cw.length, ?_, hcap, ?_, h129, hpads⟩)
    · rw [e1, c1, hT]; simp only [List.length_append, List.length_singleton]
    · rw [htake, e1, c1, hT]
  | early s2 n run few one fit eq =>
    obtain ⟨c1, c2, c3, c4, c5, c6, c7, c8, c9, c10⟩ := x12_partP list pre body s2 n run
    subst eq
    have hrestne : s2.rest ≠ [] := by
      intro hnil; rw [hnil] at one; simp [Enc.asciiSize] at one
    have hmore : s2.setAscii.hasMore = true := by
      simp only [Enc.St.hasMore, Enc.St.setAscii]
      simp only [Enc.St.rest] at hrestne
      have : s2.pos < s2.input.length := by
        by_cases hlt : s2.pos < s2.input.length
        · exact hlt
        · exact absurd (List.drop_eq_nil_of_le (by omega)) hrestne
      simp [this]
    obtain ⟨s4, k3, he3, hm3⟩ := mainLoop_step (2 * body.length + 5) _ sE k2 hm2 hmore
    have hl3 : latched s2.setAscii = s2.setAscii := by simp [latched, Enc.St.setAscii, c7]
    rw [hl3] at he3
    have hmode3 : s2.setAscii.mode = .ascii := rfl
    simp only [Enc.encodeMode, hmode3] at he3
    rw [asciiLoop_rest _ rfl rfl (by simp [Enc.St.setAscii, c2, c4]; omega)] at he3
    simp only [Except.ok.injEq] at he3
    subst he3
    rw [mainLoop_end _ _ _ (by simp [Enc.St.hasMore, Enc.St.setAscii])] at hm3
    cases hm3
    have hrest2 : s2.rest = body.drop (3 * n) := by simp [Enc.St.rest, c2, c4]
    have hone : (asciiEnc (body.drop (3 * n))).length = 1 := by
      rw [asciiEnc_length _ _ (Nat.le_refl _), ← hrest2]; exact one
    obtain ⟨sym0, f1, f2⟩ := sizeLeft_zero _ 1 fit
    simp only [c5] at f1 f2
    have hcwlen : (s2.cw ++ asciiEnc (body.drop (3 * n))).length = s2.cw.length + 1 := by
      simp [hone]
    simp only [Enc.St.setAscii, Enc.St.rest, c2, c4, c5] at hsym hpad
    rw [hcwlen, f1] at hsym
    simp only [Option.some.injEq] at hsym
    subst hsym
    have hbeq : (Enc.EMode.ascii == Enc.EMode.ascii) = true := by decide
    have hpadv : addPadding (s2.cw ++ asciiEnc (body.drop (3 * n))) true (dataCw sym0) =
        some (s2.cw ++ asciiEnc (body.drop (3 * n))) := by
      unfold addPadding
      rw [if_neg (by omega)]
      simp [f2, hcwlen]
    rw [hbeq, hpadv] at hpad
    cases hpad
    refine ⟨n, c3, c10, c8, by rw [hcwlen, f2], ?_⟩
    intro T hT
    exact Or.inr (Or.inl ⟨hone, by rw [hT, c1]⟩)


/-! ### encoder and reference decoder together -/

/-- the final state of the reference decoder on a pure X12 stream whose latch stands at `p` -/
def x12Final (p size : Nat) (body : List Nat) (n : Nat) (m : Mode) (padAt : Option Nat) : DM.Spec.Stream.St :=
  { i := size, mode := m, out := body.toArray,
    trace := Array.replicate (3 * n) .x12 ++ Array.replicate (body.length - 3 * n) .ascii,
    latches := #[(p, .x12)], padAt := padAt }

/-- the three endings of a pure X12 stream -/
inductive X12Ending | exact | single | unlatch
  deriving DecidableEq, Repr

theorem occurs_of_eq (pre X : List Nat) : Occurs (pre ++ X).toArray pre.length X :=
  occurs_of_take (pre ++ X) pre X (by rw [← List.length_append, List.take_length])

/-- encoder and reference decoder on the pure X12 plan behind the prefix codewords `pre` -/
theorem x12_core (list : List Sym) (pre body cw : List Nat) (sym : Sym) (hb : ByteList body) (hne : body ≠ [])
    (h : Enc.run list pre body [(body.length, .x12), (0, .x12)] = .ok (cw, sym)) :
    ∃ (n : Nat) (e : X12Ending) (m : Mode) (pad : Option Nat) (T rest : List Nat), n = body.length / 3 ∧ X12Native (body.take (3 * n)) ∧ cw.length = dataCw sym ∧
      T = pre ++ [238] ++ packTriples ((body.take (3 * n)).filterMap x12Val) ∧ T.length = pre.length + 1 + 2 * n ∧
      rest = asciiEnc (body.drop (3 * n)) ∧
      ((e = .exact ∧ m = .x12 ∧ pad = none ∧ 3 * n = body.length ∧ cw = T) ∨
       (e = .single ∧ m = .ascii ∧ pad = none ∧ rest.length = 1 ∧ cw = T ++ rest) ∨
       (e = .unlatch ∧ m = .ascii ∧ cw.take (T.length + 1 + rest.length) = T ++ [254] ++ rest ∧
          T.length + 1 + rest.length ≤ dataCw sym ∧
          pad = (if T.length + 1 + rest.length = dataCw sym then none else some (T.length + 1 + rest.length)))) ∧
      (∃ Y, cw = T ++ Y) ∧
      DM.Spec.Stream.run cw.toArray (3 * cw.length + 4) { i := pre.length } =
        .ok (x12Final pre.length cw.length body n m pad) := by
  obtain ⟨n, hn1, hn2, hnat, hlen, hshape⟩ := run_x12_shape list pre body cw sym hne h
  have hn : n = body.length / 3 := by omega
  have hbl : (body.take (3 * n)).length = 3 * n := by rw [List.length_take]; omega
  have hTl : (pre ++ [238] ++ packTriples ((body.take (3 * n)).filterMap x12Val)).length = pre.length + 1 + 2 * n := by
    rw [List.length_append, List.length_append, packTriples_length n _ (by rw [filterMap_native_length _ hnat, hbl])]
    simp
  have hrestb : ByteList (body.drop (3 * n)) := hb.drop _
  have hseg := asciiSeg_asciiEnc _ hrestb
  have hsplit : body.take (3 * n) ++ body.drop (3 * n) = body := List.take_append_drop _ _
  have hdl : (body.drop (3 * n)).length = body.length - 3 * n := List.length_drop
  obtain ⟨T, hT⟩ : ∃ T, T = pre ++ [238] ++ packTriples ((body.take (3 * n)).filterMap x12Val) := ⟨_, rfl⟩
  obtain ⟨P, hP⟩ : ∃ P, packTriples ((body.take (3 * n)).filterMap x12Val) = P := ⟨_, rfl⟩
  rw [← hT] at hTl
  have hTe : T = pre ++ (238 :: P) := by rw [hT, hP]; simp
  have hPl : P.length = 2 * n := by rw [hTe] at hTl; simp at hTl; omega
  rcases hshape T hT with ⟨hfull, hcw⟩ | ⟨hone, hcw⟩ | ⟨L, hL, hLle, htake, h129, hpads⟩
  · -- the triples end with the symbol
    refine ⟨n, .exact, .x12, none, T, _, hn, hnat, hlen, hT, hTl, rfl, Or.inl ⟨rfl, rfl, rfl, hfull, hcw⟩, ⟨[], by simp [hcw]⟩, ?_⟩
    have ho : Occurs cw.toArray pre.length (238 :: P ++ []) := by
      rw [hcw, hTe, List.append_nil]; exact occurs_of_eq pre _
    obtain ⟨j, hj, hst, hfin⟩ := steps_x12 cw.toArray n (body.take (3 * n)) hbl hnat { i := pre.length } rfl [] 0 .x12
      (.exact (by simp [hcw, hTl])) (by rw [hP]; exact ho)
    rw [hst.finish (hfin rfl) (by rw [hcw, hTl]; omega)]
    congr 1
    have : body.drop (3 * n) = [] := List.drop_eq_nil_of_le (by omega)
    rw [this, List.append_nil] at hsplit
    simp [x12Done, x12Final, hcw, hTl, hfull]
  · -- one ASCII codeword fills the symbol, no UNLATCH
    refine ⟨n, .single, .ascii, none, T, _, hn, hnat, hlen, hT, hTl, rfl, Or.inr (Or.inl ⟨rfl, rfl, rfl, hone, hcw⟩), ⟨_, hcw⟩, ?_⟩
    obtain ⟨c, hc⟩ := List.length_eq_one_iff.mp hone
    have hc254 : c ≠ 254 := (hseg.1 c (by rw [hc]; simp)).1
    have ho : Occurs cw.toArray pre.length (238 :: P ++ [c]) := by
      rw [hcw, hTe, hc, List.append_assoc]; exact occurs_of_eq pre _
    have hsize : cw.length = pre.length + 1 + 2 * n + 1 := by rw [hcw, List.length_append, hTl, hone]
    obtain ⟨j, hj, hst, _⟩ := steps_x12 cw.toArray n (body.take (3 * n)) hbl hnat { i := pre.length } rfl [c] 0 .ascii
      (.single c hc254 (by simp [hsize])) (by rw [hP]; exact ho)
    have ho2 : Occurs cw.toArray (pre.length + 1 + 2 * n) (asciiEnc (body.drop (3 * n))) := by
      have := ho.right
      rw [hc]
      have e : pre.length + (238 :: P).length = pre.length + 1 + 2 * n := by
        simp only [List.length_cons, hPl]; omega
      rw [e] at this; exact this
    obtain ⟨k, sF, hk, hst2, hfin, hsF⟩ := steps_ascii_tail cw (x12Done { i := pre.length } n (body.take (3 * n)) 0 .ascii)
      (body.drop (3 * n)) hrestb rfl cw.length (by simp [x12Done, hone, hsize]) (Nat.le_refl _) (by simpa [x12Done] using ho2)
      (fun hlt => absurd hlt (Nat.lt_irrefl _)) (fun i h1 h2 => absurd (Nat.lt_trans h1 h2) (Nat.lt_irrefl _))
    rw [(hst.trans hst2).finish hfin (by rw [hone] at hk; omega), hsF]
    congr 1
    simp [x12Done, x12Final, emit, hsplit, hbl, hdl]
  · -- UNLATCH, the ASCII rest, padding
    have hL' : L = T.length + 1 + (asciiEnc (body.drop (3 * n))).length := hL
    refine ⟨n, .unlatch, .ascii, _, T, _, hn, hnat, hlen, hT, hTl, rfl,
      Or.inr (Or.inr ⟨rfl, rfl, by rw [← hL']; exact htake, by rw [← hL']; exact hLle, rfl⟩),
      ⟨[254] ++ asciiEnc (body.drop (3 * n)) ++ cw.drop L, by
        rw [← List.append_assoc, ← List.append_assoc, ← htake, List.take_append_drop]⟩, ?_⟩
    have ho : Occurs cw.toArray pre.length ((238 :: P ++ [254]) ++ asciiEnc (body.drop (3 * n))) := by
      apply occurs_of_take cw pre
      rw [hTe] at htake hL
      have e : pre.length + (238 :: P ++ [254] ++ asciiEnc (body.drop (3 * n))).length = L := by
        rw [hL]; simp only [List.length_append, List.length_cons, List.length_nil]; omega
      rw [e, htake]; simp
    obtain ⟨j, hj, hst, _⟩ := steps_x12 cw.toArray n (body.take (3 * n)) hbl hnat { i := pre.length } rfl [254] 1 .ascii
      .unlatch (by rw [hP]; exact ho.left)
    have ho2 : Occurs cw.toArray (pre.length + 1 + 2 * n + 1) (asciiEnc (body.drop (3 * n))) := by
      have := ho.right
      have e : pre.length + (238 :: P ++ [254]).length = pre.length + 1 + 2 * n + 1 := by
        simp only [List.length_append, List.length_cons, List.length_nil, hPl]; omega
      rw [e] at this; exact this
    rw [hlen]
    obtain ⟨k, sF, hk, hst2, hfin, hsF⟩ := steps_ascii_tail cw (x12Done { i := pre.length } n (body.take (3 * n)) 1 .ascii)
      (body.drop (3 * n)) hrestb rfl L (by simp [x12Done, hL', hTl]) (by omega) (by simpa [x12Done] using ho2)
      (by rw [hlen]; exact h129) (by rw [hlen]; exact hpads)
    rw [← hlen, (hst.trans hst2).finish hfin (by omega), hsF]
    congr 1
    simp [x12Done, x12Final, emit, hsplit, hbl, hdl, ← hL', hlen]


end DM.Lemmas.SpecX12
