import DM.Model.Planner
/-!
Invariants of the planner model: what every live plan satisfies at iteration `k` of `optimize`
(it has read exactly `k` characters of the same data, its mode-local state is consistent), and
what one `step()` / `add_switches` does to it. Used for the totality, plan-shape and linear-work
theorems (`DM/Props/Planner.lean`).
-/
namespace DM.Lemmas.PlanInv
open DM.Model DM.Model.Plan DM.Model.Enc

def pctx : PlanImpl → Ctx
  | .ascii p => p.ctx | .c40 p => p.ctx | .x12 p => p.ctx | .edifact p => p.ctx | .base256 p => p.ctx

/-- the context belongs to this planning run and has read `k` characters -/
def CtxAt (data : List Nat) (list : List Sym) (k : Nat) (c : Ctx) : Prop :=
  c.data = data ∧ c.list = list ∧ c.pos = k

def digitsFrom (data : List Nat) (k : Nat) : Nat := ((data.drop k).takeWhile isDigit).length

def Local (data : List Nat) (k : Nat) : PlanImpl → Prop
  | .ascii p => p.digitsAhead ≤ digitsFrom data k
  | .c40 p => p.values ≤ 2
  | _ => True

def Core (data : List Nat) (list : List Sym) (k : Nat) (pl : PlanImpl) : Prop :=
  CtxAt data list k (pctx pl) ∧ k ≤ data.length ∧ Local data k pl

/-- `add_switches` may be called on the plan (its `write_unlatch` assertions hold) -/
def Allowed : PlanImpl → Prop
  | .ascii p => p.digitsAhead = 0
  | .x12 p => p.asciiEnd = none
  | .edifact p => p.asciiEnd = none
  | _ => True

/-- characters read after one more `step()` -/
def nxt (data : List Nat) (k : Nat) : Nat := if k < data.length then k + 1 else k

theorem ctxAt_write {data list k c} (h : CtxAt data list k c) (n : Nat) : CtxAt data list k (c.write n) := h

theorem ctxAt_eat {data list k c} (h : CtxAt data list k c) : CtxAt data list (k + 1) c.eat := by
  obtain ⟨a, b, c'⟩ := h
  exact ⟨a, b, by simp [Ctx.eat, c']⟩

theorem hasMore_iff {data list k c} (h : CtxAt data list k c) : c.hasMore = decide (k < data.length) := by
  obtain ⟨a, _, c'⟩ := h
  simp [Ctx.hasMore, a, c']

theorem rest_eq {data list k c} (h : CtxAt data list k c) : c.rest = data.drop k := by
  obtain ⟨a, _, c'⟩ := h
  simp [Ctx.rest, a, c']

theorem charsLeft_eq {data list k c} (h : CtxAt data list k c) : c.charsLeft = data.length - k := by
  obtain ⟨a, _, c'⟩ := h
  simp [Ctx.charsLeft, a, c']

theorem peek_eq {data list k c} (h : CtxAt data list k c) : c.peek = data.getD k 0 := by
  obtain ⟨a, _, c'⟩ := h
  simp [Ctx.peek, a, c']

theorem digitsFrom_pos {data : List Nat} {k : Nat} (hk : k < data.length) (h : 0 < digitsFrom data k) :
    isDigit (data.getD k 0) = true ∧ digitsFrom data (k + 1) = digitsFrom data k - 1 := by
  unfold digitsFrom at *
  rw [List.drop_eq_getElem_cons hk] at h ⊢
  rw [List.takeWhile_cons] at h ⊢
  have hg : data.getD k 0 = data[k] := by simp [List.getD, List.getElem?_eq_getElem hk]
  rw [hg]
  by_cases hd : isDigit data[k] = true
  · simp [hd]
  · simp [hd] at h

/-! ### ASCII -/

theorem asciiStep_spec {data list k} (p : AsciiP) (hc : CtxAt data list k p.ctx)
    (hl : p.digitsAhead ≤ digitsFrom data k) :
    ∃ p' r, asciiStep p = .ok (p', r) ∧ CtxAt data list (nxt data k) p'.ctx ∧
      p'.digitsAhead ≤ digitsFrom data (nxt data k) ∧ r.end = decide (¬ k < data.length) ∧
      (p.digitsAhead ≠ 0 → r.unbeatable = true) := by
  unfold asciiStep
  -- the state after the look-ahead
  generalize hq : (if p.digitsAhead = 0 then
      ({ p with digitsAhead := (p.ctx.rest.takeWhile isDigit).length / 2 * 2,
                ctx := p.ctx.write ((p.ctx.rest.takeWhile isDigit).length / 2 * 2 / 2) } : AsciiP) else p) = q
  have hqc : CtxAt data list k q.ctx := by
    rw [← hq]; split
    · exact ctxAt_write hc _
    · exact hc
  have hql : q.digitsAhead ≤ digitsFrom data k := by
    rw [← hq]; split
    · simp only [rest_eq hc, digitsFrom]; omega
    · exact hl
  have hqu : p.digitsAhead ≠ 0 → q.digitsAhead > 0 := by
    intro h; rw [← hq, if_neg h]; omega
  simp only []
  rw [hasMore_iff hqc]
  by_cases hlt : k < data.length
  · have hn : nxt data k = k + 1 := by simp [nxt, hlt]
    simp only [hlt, decide_true, Bool.not_true, Bool.false_eq_true, ↓reduceIte, hn]
    by_cases hd : q.digitsAhead > 0
    · have := digitsFrom_pos hlt (by omega : 0 < digitsFrom data k)
      rw [if_pos hd, peek_eq hqc, this.1]
      simp only [Bool.not_true, Bool.false_eq_true, ↓reduceIte]
      refine ⟨_, _, rfl, ctxAt_eat hqc, ?_, by simp, fun _ => by simp [hd]⟩
      simp only [this.2]; omega
    · rw [if_neg hd]
      have h0 : q.digitsAhead = 0 := by omega
      split
      · exact ⟨_, _, rfl, ctxAt_write (ctxAt_eat hqc) _, by simp [h0], by simp, fun h => absurd (hqu h) hd⟩
      · exact ⟨_, _, rfl, ctxAt_write (ctxAt_eat hqc) _, by simp [h0], by simp, fun h => absurd (hqu h) hd⟩
  · have hn : nxt data k = k := by simp [nxt, hlt]
    simp only [hlt, decide_false, Bool.not_false, ↓reduceIte, hn]
    exact ⟨_, _, rfl, hqc, hql, by simp, fun h => by simpa using hqu h⟩

/-! ### C40 / Text -/

theorem c40TwoDigit_spec {data list k} (p q : C40P) (hc : CtxAt data list k p.ctx) (h : c40TwoDigit p = some q) :
    CtxAt data list k q.ctx ∧ q.values = p.values ∧ q.text = p.text := by
  unfold c40TwoDigit at h
  split at h
  · split at h
    · split at h
      · exact absurd h (by simp)
      · split at h
        · cases h; exact ⟨ctxAt_write hc _, rfl, rfl⟩
        · split at h
          · cases h; exact ⟨ctxAt_write hc _, rfl, rfl⟩
          · cases h; exact ⟨hc, rfl, rfl⟩
    · cases h; exact ⟨hc, rfl, rfl⟩
  · cases h; exact ⟨hc, rfl, rfl⟩

theorem c40Strike_spec {data list k} (p : C40P) (hc : CtxAt data list k p.ctx) :
    CtxAt data list k (c40Strike p).ctx ∧ (c40Strike p).values = p.values ∧ (c40Strike p).text = p.text := by
  unfold c40Strike
  split
  · exact ⟨ctxAt_write hc _, rfl, rfl⟩
  · exact ⟨hc, rfl, rfl⟩

theorem c40Init_spec {data list k} (p q : C40P) (hc : CtxAt data list k p.ctx) (h : c40Init p = some q) :
    CtxAt data list k q.ctx ∧ q.values = p.values ∧ q.text = p.text := by
  unfold c40Init at h
  split at h
  · cases h2 : c40TwoDigit p with
    | none => rw [h2] at h; cases h
    | some p1 =>
      rw [h2] at h
      simp only [Option.map_some, Option.some.injEq] at h
      have h1 := c40TwoDigit_spec p p1 hc h2
      have h3 := c40Strike_spec p1 h1.1
      rw [h] at h3
      exact ⟨h3.1, h3.2.1.trans h1.2.1, h3.2.2.trans h1.2.2⟩
  · cases h; exact ⟨hc, rfl, rfl⟩

theorem c40Init_end {data list k} (p : C40P) (hc : CtxAt data list k p.ctx) (hk : ¬ k < data.length) :
    ∃ q, c40Init p = some q := by
  have hr : p.ctx.rest = [] := by rw [rest_eq hc]; exact List.drop_eq_nil_of_le (by omega)
  unfold c40Init
  split
  · have : c40TwoDigit p = some p := by unfold c40TwoDigit; rw [hr]
    rw [this]; exact ⟨_, rfl⟩
  · exact ⟨_, rfl⟩

theorem c40Flush_spec {data list k} (u : Bool) : ∀ (f : Nat) (p : C40P), CtxAt data list k p.ctx →
    p.values ≤ 3 * f + 2 → CtxAt data list k (c40Flush u f p).ctx ∧ (c40Flush u f p).values ≤ 2 ∧
      (c40Flush u f p).text = p.text := by
  intro f
  induction f with
  | zero => intro p hc hv; exact ⟨hc, by simpa [c40Flush] using hv, rfl⟩
  | succ f ih =>
    intro p hc hv
    unfold c40Flush
    split
    · apply ih
      · simp only []; split
        · exact ctxAt_write hc _
        · exact hc
      · simp only []; omega
    · exact ⟨hc, by omega, rfl⟩

theorem c40ValSize_le (t : Bool) (ch : Nat) : c40ValSize t ch ≤ 4 := by
  unfold c40ValSize
  simp only []
  split <;> split <;> omega

theorem c40Step_spec {data list k} (p : C40P) (hc : CtxAt data list k p.ctx) (hv : p.values ≤ 2) :
    (c40Step p = none ∧ k < data.length) ∨
    ∃ p' r, c40Step p = some (p', r) ∧ CtxAt data list (nxt data k) p'.ctx ∧ p'.values ≤ 2 ∧
      p'.text = p.text ∧ r.end = decide (¬ k < data.length) := by
  unfold c40Step
  cases hi : c40Init p with
  | none =>
    left
    refine ⟨rfl, ?_⟩
    by_cases hlt : k < data.length
    · exact hlt
    · obtain ⟨q, hq⟩ := c40Init_end p hc hlt
      rw [hq] at hi; cases hi
  | some q =>
    right
    obtain ⟨hqc, hqv, hqt⟩ := c40Init_spec p q hc hi
    simp only []
    rw [hasMore_iff hqc]
    by_cases hlt : k < data.length
    · have hn : nxt data k = k + 1 := by simp [nxt, hlt]
      simp only [hlt, decide_true, Bool.not_true, Bool.false_eq_true, ↓reduceIte, hn]
      refine ⟨_, _, rfl, ?_⟩
      have key : ∀ (u : Bool) (q2 : C40P), CtxAt data list (k + 1) q2.ctx → q2.values ≤ 6 → q2.text = p.text →
          CtxAt data list (k + 1) (c40Flush u 3 q2).ctx ∧ (c40Flush u 3 q2).values ≤ 2 ∧
            (c40Flush u 3 q2).text = p.text ∧
            ({ «end» := false, unbeatable := u } : StepResult).end = !decide True := by
        intro u q2 h1 h2 h3
        have := c40Flush_spec u 3 q2 h1 (by omega)
        exact ⟨this.1, this.2.1, by rw [this.2.2]; exact h3, by simp⟩
      have hcv := c40ValSize_le q.text q.ctx.peek
      apply key
      · split
        · split
          · exact ctxAt_eat hqc
          · exact ctxAt_eat hqc
        · exact ctxAt_eat hqc
      · split
        · split
          · simp only []; omega
          · simp only []; omega
        · simp only []; omega
      · split
        · split
          · exact hqt
          · exact hqt
        · exact hqt
    · have hn : nxt data k = k := by simp [nxt, hlt]
      simp only [hlt, decide_false, Bool.not_false, ↓reduceIte, hn]
      exact ⟨_, _, rfl, hqc, by omega, hqt, by simp⟩

/-! ### X12 -/

theorem frac_ok (num denum : Nat) (h : denum = 1 ∨ denum = 2 ∨ denum = 3 ∨ denum = 4) :
    ∃ f, frac num denum = .ok f := by
  unfold frac
  rcases h with rfl | rfl | rfl | rfl <;> simp

theorem x12Init_spec {data list k} (p : X12P) (hc : CtxAt data list k p.ctx) (hlt : k < data.length) :
    x12Init p = .ok none ∨
    ∃ q, x12Init p = .ok (some q) ∧ CtxAt data list k q.ctx ∧ (p.asciiEnd ≠ none → q.asciiEnd ≠ none) := by
  unfold x12Init
  split
  · rename_i h
    have hcl : p.ctx.charsLeft = 1 ∨ p.ctx.charsLeft = 2 ∨ p.ctx.charsLeft = 3 ∨ p.ctx.charsLeft = 4 := by
      have := charsLeft_eq hc
      omega
    obtain ⟨f, hf⟩ := frac_ok (asciiSize p.ctx.rest) p.ctx.charsLeft hcl
    simp only [hf]
    split
    · split
      · left; rfl
      · split
        · right; exact ⟨_, rfl, hc, by simp⟩
        · split
          · right; exact ⟨_, rfl, hc, by simp⟩
          · right; exact ⟨_, rfl, hc, by simp⟩
    · right; exact ⟨_, rfl, hc, by simp⟩
  · right; exact ⟨_, rfl, hc, fun h => h⟩

theorem x12Step_spec {data list k} (p : X12P) (hc : CtxAt data list k p.ctx) :
    (x12Step p = .ok none ∧ k < data.length ∧ p.asciiEnd = none) ∨
    ∃ p' r, x12Step p = .ok (some (p', r)) ∧ CtxAt data list (nxt data k) p'.ctx ∧
      r.end = decide (¬ k < data.length) ∧ (p.asciiEnd ≠ none → r.unbeatable = true) := by
  unfold x12Step
  simp only []
  rw [hasMore_iff hc]
  by_cases hlt : k < data.length
  · have hn : nxt data k = k + 1 := by simp [nxt, hlt]
    simp only [hlt, decide_true, Bool.not_true, Bool.false_eq_true, ↓reduceIte, hn]
    rcases x12Init_spec p hc hlt with h | ⟨q, hq, hqc, hqa⟩
    · rw [h]
      by_cases ha : p.asciiEnd = none
      · left; exact ⟨rfl, trivial, ha⟩
      · -- with an ASCII end the look-ahead is skipped
        exfalso
        unfold x12Init at h
        have : ¬ (p.values = 0 ∧ p.ctx.charsLeft ≤ 2 ∧ p.asciiEnd.isNone = true) := by
          intro h3; exact ha (by simpa using h3.2.2)
        rw [if_neg this] at h
        cases h
    · rw [hq]
      simp only []
      cases hqe : q.asciiEnd with
      | none =>
        simp only []
        split
        · left
          refine ⟨rfl, trivial, ?_⟩
          by_cases ha : p.asciiEnd = none
          · exact ha
          · exact absurd hqe (hqa ha)
        · right
          refine ⟨_, _, rfl, ?_, by simp, ?_⟩
          · split
            · exact ctxAt_write (ctxAt_eat hqc) _
            · exact ctxAt_eat hqc
          · intro ha; exact absurd hqe (hqa ha)
      | some portion =>
        right
        exact ⟨_, _, rfl, ctxAt_eat hqc, by simp, fun _ => by simp⟩
  · have hn : nxt data k = k := by simp [nxt, hlt]
    simp only [hlt, decide_false, Bool.not_false, ↓reduceIte, hn]
    right
    exact ⟨_, _, rfl, hc, by simp, fun h => by simpa [Option.isSome_iff_ne_none] using h⟩

/-! ### EDIFACT -/

theorem ediInit_spec {data list k} (p : EdiP) (hc : CtxAt data list k p.ctx) (hlt : k < data.length) :
    (ediInit p = .ok none ∧ p.asciiEnd = none) ∨
    ∃ q, ediInit p = .ok (some q) ∧ CtxAt data list k q.ctx ∧ (p.asciiEnd ≠ none → q.asciiEnd ≠ none) := by
  unfold ediInit
  split
  · rename_i h
    have hcl : p.ctx.charsLeft = 1 ∨ p.ctx.charsLeft = 2 ∨ p.ctx.charsLeft = 3 ∨ p.ctx.charsLeft = 4 := by
      have := charsLeft_eq hc
      omega
    obtain ⟨f, hf⟩ := frac_ok (asciiSize p.ctx.rest) p.ctx.charsLeft hcl
    simp only [hf]
    split
    · split
      · left; exact ⟨rfl, by simpa using h.2.2⟩
      · split
        · right; exact ⟨_, rfl, hc, by simp⟩
        · right; exact ⟨_, rfl, hc, fun h => h⟩
    · right; exact ⟨_, rfl, hc, fun h => h⟩
  · right; exact ⟨_, rfl, hc, fun h => h⟩

theorem ediStep_spec {data list k} (p : EdiP) (hc : CtxAt data list k p.ctx) :
    (ediStep p = .ok none ∧ k < data.length ∧ p.asciiEnd = none) ∨
    ∃ p' r, ediStep p = .ok (some (p', r)) ∧ CtxAt data list (nxt data k) p'.ctx ∧
      r.end = decide (¬ k < data.length) ∧ (p.asciiEnd ≠ none → r.unbeatable = true) := by
  unfold ediStep
  simp only []
  rw [hasMore_iff hc]
  by_cases hlt : k < data.length
  · have hn : nxt data k = k + 1 := by simp [nxt, hlt]
    simp only [hlt, decide_true, Bool.not_true, Bool.false_eq_true, ↓reduceIte, hn]
    rcases ediInit_spec p hc hlt with ⟨h, ha⟩ | ⟨q, hq, hqc, hqa⟩
    · rw [h]; left; exact ⟨rfl, trivial, ha⟩
    · rw [hq]
      simp only []
      cases hqe : q.asciiEnd with
      | none =>
        simp only []
        have hpa : p.asciiEnd = none := by
          by_cases ha : p.asciiEnd = none
          · exact ha
          · exact absurd hqe (hqa ha)
        split
        · left; exact ⟨rfl, trivial, hpa⟩
        · right
          refine ⟨_, _, rfl, ?_, by simp, fun ha => absurd hpa ha⟩
          split
          · exact ctxAt_write (ctxAt_eat hqc) _
          · exact ctxAt_eat hqc
      | some portion =>
        right
        exact ⟨_, _, rfl, ctxAt_eat hqc, by simp, fun _ => rfl⟩
  · have hn : nxt data k = k := by simp [nxt, hlt]
    simp only [hlt, decide_false, Bool.not_false, ↓reduceIte, hn]
    right
    exact ⟨_, _, rfl, hc, by simp, fun h => by simpa [Option.isSome_iff_ne_none] using h⟩

/-! ### Base 256 -/

theorem b256Step_spec {data list k} (p : B256P) (hc : CtxAt data list k p.ctx) :
    (b256Step p = none ∧ k < data.length) ∨
    ∃ p' r, b256Step p = some (p', r) ∧ CtxAt data list (nxt data k) p'.ctx ∧
      r.end = decide (¬ k < data.length) := by
  unfold b256Step
  simp only []
  rw [hasMore_iff hc]
  by_cases hlt : k < data.length
  · have hn : nxt data k = k + 1 := by simp [nxt, hlt]
    simp only [hlt, decide_true, Bool.not_true, Bool.false_eq_true, ↓reduceIte, hn]
    split
    · left; exact ⟨rfl, trivial⟩
    · right; exact ⟨_, _, rfl, ctxAt_write (ctxAt_eat hc) _, by simp⟩
  · have hn : nxt data k = k := by simp [nxt, hlt]
    simp only [hlt, decide_false, Bool.not_false, ↓reduceIte, hn]
    right
    exact ⟨_, _, rfl, hc, by simp⟩

/-! ### `GenericPlan::step` -/

theorem nxt_le {data : List Nat} {k : Nat} (h : k ≤ data.length) : nxt data k ≤ data.length := by
  unfold nxt; split <;> omega

theorem step_spec {data list k} (g : GPlan) (h : Core data list k g.plan) :
    (g.step = .ok none ∧ k < data.length ∧ Allowed g.plan) ∨
    ∃ g' r, g.step = .ok (some (g', r)) ∧ g'.switches = g.switches ∧ g'.extra = g.extra ∧
      g'.current = g.current ∧ Core data list (nxt data k) g'.plan ∧
      r.end = decide (¬ k < data.length) ∧ (¬ Allowed g.plan → r.unbeatable = true) := by
  obtain ⟨hc, hk, hl⟩ := h
  unfold GPlan.step
  cases hp : g.plan with
  | ascii p =>
    rw [hp] at hc hl
    obtain ⟨p', r, h1, h2, h3, h4, h5⟩ := asciiStep_spec p hc hl
    right
    simp only [h1]
    exact ⟨_, _, rfl, rfl, rfl, by simp [GPlan.current, PlanImpl.mode, hp], ⟨h2, nxt_le hk, h3⟩, h4,
      fun hna => h5 hna⟩
  | c40 p =>
    rw [hp] at hc hl
    rcases c40Step_spec p hc hl with ⟨h1, h2⟩ | ⟨p', r, h1, h2, h3, h4, h5⟩
    · left; simp only [h1]; exact ⟨trivial, h2, trivial⟩
    · right
      simp only [h1]
      exact ⟨_, _, rfl, rfl, rfl, by simp [GPlan.current, PlanImpl.mode, hp, h4], ⟨h2, nxt_le hk, h3⟩, h5,
        fun hna => absurd trivial hna⟩
  | x12 p =>
    rw [hp] at hc
    rcases x12Step_spec p hc with ⟨h1, h2, h3⟩ | ⟨p', r, h1, h2, h3, h4⟩
    · left; simp only [h1]; exact ⟨trivial, h2, h3⟩
    · right
      simp only [h1]
      exact ⟨_, _, rfl, rfl, rfl, by simp [GPlan.current, PlanImpl.mode, hp], ⟨h2, nxt_le hk, trivial⟩, h3,
        fun hna => h4 hna⟩
  | edifact p =>
    rw [hp] at hc
    rcases ediStep_spec p hc with ⟨h1, h2, h3⟩ | ⟨p', r, h1, h2, h3, h4⟩
    · left; simp only [h1]; exact ⟨trivial, h2, h3⟩
    · right
      simp only [h1]
      exact ⟨_, _, rfl, rfl, rfl, by simp [GPlan.current, PlanImpl.mode, hp], ⟨h2, nxt_le hk, trivial⟩, h3,
        fun hna => h4 hna⟩
  | base256 p =>
    rw [hp] at hc
    rcases b256Step_spec p hc with ⟨h1, h2⟩ | ⟨p', r, h1, h2, h3⟩
    · left; simp only [h1]; exact ⟨trivial, h2, trivial⟩
    · right
      simp only [h1]
      exact ⟨_, _, rfl, rfl, rfl, by simp [GPlan.current, PlanImpl.mode, hp], ⟨h2, nxt_le hk, trivial⟩, h3,
        fun hna => absurd trivial hna⟩

/-! ### `add_switches` -/

theorem unlatch_spec {data list k} (g : GPlan) (h : Core data list k g.plan) (ha : Allowed g.plan)
    (c : Nat) (hs : g.switchCost = some c) : ∃ ctx, g.unlatch = .ok ctx ∧ CtxAt data list k ctx := by
  obtain ⟨hc, _, hl⟩ := h
  unfold GPlan.unlatch
  unfold GPlan.switchCost at hs
  cases hp : g.plan with
  | ascii p =>
    rw [hp] at hc ha
    have : p.digitsAhead = 0 := ha
    simp only [this]
    exact ⟨_, rfl, hc⟩
  | c40 p =>
    rw [hp] at hc hl
    have hv : p.values ≤ 2 := hl
    simp only [c40Unlatch]
    split
    · rw [if_neg (by omega)]; exact ⟨_, rfl, ctxAt_write (ctxAt_write hc _) _⟩
    · exact ⟨_, rfl, ctxAt_write hc _⟩
  | x12 p =>
    rw [hp] at hc ha hs
    have hae : p.asciiEnd = none := ha
    simp only [] at hs
    have hv : p.values = 0 := by
      by_cases hv : p.values = 0
      · exact hv
      · rw [if_neg hv] at hs; cases hs
    simp only [x12Unlatch, hv, hae]
    exact ⟨_, rfl, ctxAt_write hc _⟩
  | edifact p =>
    rw [hp] at hc ha
    have hae : p.asciiEnd = none := ha
    simp only [ediUnlatch, hae]
    exact ⟨_, rfl, ctxAt_write hc _⟩
  | base256 p =>
    rw [hp] at hc
    simp only [b256Unlatch]
    split
    · exact ⟨_, rfl, ctxAt_write hc _⟩
    · exact ⟨_, rfl, hc⟩

theorem newPlan_core {data list k} (m : EMode) (ctx : Ctx) (hc : CtxAt data list k ctx) (hk : k ≤ data.length) :
    Core data list k (newPlan m ctx) ∧ (newPlan m ctx).mode = m := by
  cases m <;> exact ⟨⟨hc, hk, by simp [Local, newPlan]⟩, rfl⟩

/-- what `add_switches` promises of every plan it pushes -/
def NewOK (data : List Nat) (list : List Sym) (k : Nat) (modes : Nat) (g : GPlan) (restLen : Nat)
    (asStart : Bool) (c : GPlan) : Prop :=
  Core data list (nxt data k) c.plan ∧ enabledMode modes c.current = true ∧
  c.switches = (if asStart then [(restLen, c.current)] else g.switches ++ [(restLen, c.current)])

theorem addSwitchesGo_spec {data list k} (g : GPlan) (restLen : Nat) (asStart : Bool) (modes asciiCost : Nat)
    (ctx : Ctx) (hc : CtxAt data list k ctx) (hk : k ≤ data.length) :
    ∀ (t : List (EMode × Nat)) (acc : List GPlan) (n : Nat),
      (∀ c ∈ acc, NewOK data list k modes g restLen asStart c) →
      ∃ l n', addSwitchesGo g restLen asStart modes asciiCost ctx t acc n = .ok (l, n') ∧
        n' ≤ n + (t.filter fun e => decide (g.current ≠ e.1)).length ∧ l.length + n ≤ acc.length + n' ∧
        ∀ c ∈ l, NewOK data list k modes g restLen asStart c := by
  intro t
  induction t with
  | nil =>
    intro acc n hacc
    exact ⟨_, _, rfl, by simp, by simp, fun c hc' => hacc c (List.mem_reverse.mp hc')⟩
  | cons e t ih =>
    intro acc n hacc
    obtain ⟨m, ce⟩ := e
    unfold addSwitchesGo
    by_cases hcond : g.current ≠ m ∧ enabledMode modes m = true
    · rw [if_pos hcond]
      simp only []
      have hnp := newPlan_core (data := data) (list := list) m (ctx.write ce) (ctxAt_write hc _) hk
      have hflt : (List.filter (fun e => decide (g.current ≠ e.1)) ((m, ce) :: t)).length =
          (List.filter (fun e => decide (g.current ≠ e.1)) t).length + 1 := by
        rw [List.filter_cons_of_pos (by simpa using hcond.1)]; rfl
      rcases step_spec (data := data) (list := list) (k := k)
          ({ extra := asciiCost + ce * 12,
             switches := if asStart = true then [(restLen, m)] else g.switches ++ [(restLen, m)],
             plan := newPlan m (ctx.write ce) } : GPlan) hnp.1 with ⟨h1, _, _⟩ | ⟨g', r, h1, h2, _, h4, h5, _, _⟩
      · rw [h1]
        obtain ⟨l, n', e1, e2, e4, e3⟩ := ih acc (n + 1) hacc
        exact ⟨l, n', e1, by omega, by omega, e3⟩
      · rw [h1]
        have hcur : g'.current = m := by rw [h4]; simp [GPlan.current, hnp.2]
        obtain ⟨l, n', e1, e2, e4, e3⟩ := ih (g' :: acc) (n + 1) (by
          intro c hc'
          rcases List.mem_cons.mp hc' with rfl | hc'
          · exact ⟨h5, by rw [hcur]; exact hcond.2, by rw [h2, hcur]⟩
          · exact hacc c hc')
        exact ⟨l, n', e1, by omega, by simp only [List.length_cons] at e4; omega, e3⟩
    · rw [if_neg hcond]
      obtain ⟨l, n', e1, e2, e4, e3⟩ := ih acc n hacc
      refine ⟨l, n', e1, ?_, e4, e3⟩
      have : (List.filter (fun e => decide (g.current ≠ e.1)) t).length ≤
          (List.filter (fun e => decide (g.current ≠ e.1)) ((m, ce) :: t)).length :=
        ((List.sublist_cons_self _ _).filter _).length_le
      omega

theorem targets_le_five (m : EMode) : (switchTargets.filter fun e => decide (m ≠ e.1)).length ≤ 5 := by
  cases m <;> decide

theorem addSwitches_spec {data list k} (g : GPlan) (h : Core data list k g.plan) (ha : Allowed g.plan)
    (restLen : Nat) (asStart : Bool) (modes : Nat) (hst : asStart = true → g.switches.length = 1) :
    ∃ l n, g.addSwitches restLen asStart modes = .ok (l, n) ∧ n ≤ 5 ∧ l.length ≤ n ∧
      ∀ c ∈ l, NewOK data list k modes g restLen asStart c := by
  unfold GPlan.addSwitches
  cases hs : g.switchCost with
  | none => exact ⟨[], 0, rfl, by omega, by simp, by simp⟩
  | some c =>
    obtain ⟨ctx, hu, hctx⟩ := unlatch_spec g h ha c hs
    simp only [hu]
    have hnot : ¬ (asStart = true ∧ g.switches.length ≠ 1) := fun h2 => h2.2 (hst h2.1)
    rw [if_neg hnot]
    obtain ⟨l, n', e1, e2, e4, e3⟩ := addSwitchesGo_spec g restLen asStart modes c ctx hctx h.2.1 switchTargets [] 0 (by simp)
    exact ⟨l, n', e1, by have := targets_le_five g.current; omega, by simpa using e4, e3⟩

/-! ### live plans -/

/-- the switch list of a plan that has read `k` characters -/
def SwOK (modes len k : Nat) (g : GPlan) : Prop :=
  enabledMode modes g.current = true ∧
  (∀ e ∈ g.switches, enabledMode modes e.2 = true ∧ len - k ≤ e.1 ∧ e.1 ≤ len) ∧
  g.switches.Pairwise (fun a b => a.1 ≥ b.1) ∧ g.switches ≠ []

def Live (data : List Nat) (list : List Sym) (modes k : Nat) (g : GPlan) : Prop :=
  Core data list k g.plan ∧ SwOK modes data.length k g

theorem nxt_ge (data : List Nat) (k : Nat) : k ≤ nxt data k := by unfold nxt; split <;> omega
theorem nxt_le_succ (data : List Nat) (k : Nat) : nxt data k ≤ k + 1 := by unfold nxt; split <;> omega

theorem swOK_mono {modes len k k' : Nat} {g g' : GPlan} (h : SwOK modes len k g) (hk : k ≤ k')
    (hs : g'.switches = g.switches) (hc : g'.current = g.current) : SwOK modes len k' g' := by
  obtain ⟨h1, h2, h3, h4⟩ := h
  refine ⟨by rw [hc]; exact h1, ?_, by rw [hs]; exact h3, by rw [hs]; exact h4⟩
  intro e he
  rw [hs] at he
  have := h2 e he
  exact ⟨this.1, by omega, this.2.2⟩

theorem newOK_live {data list k modes} {g c : GPlan} {asStart : Bool}
    (h : NewOK data list k modes g (data.length - k) asStart c)
    (hp : asStart = false → SwOK modes data.length k g) :
    Live data list modes (nxt data k) c := by
  obtain ⟨h1, h2, h3⟩ := h
  refine ⟨h1, h2, ?_⟩
  have hn := nxt_ge data k
  cases asStart with
  | true =>
    simp only [↓reduceIte] at h3
    rw [h3]
    refine ⟨?_, by simp, by simp⟩
    intro e he
    simp only [List.mem_singleton] at he
    subst he
    exact ⟨h2, by simp only []; omega, by simp only []; omega⟩
  | false =>
    simp only [Bool.false_eq_true, ↓reduceIte] at h3
    obtain ⟨_, p2, p3, _⟩ := hp rfl
    rw [h3]
    refine ⟨?_, ?_, by simp⟩
    · intro e he
      rcases List.mem_append.mp he with he | he
      · have := p2 e he
        exact ⟨this.1, by omega, this.2.2⟩
      · simp only [List.mem_singleton] at he
        subst he
        exact ⟨h2, by simp only []; omega, by simp only []; omega⟩
    · rw [List.pairwise_append]
      refine ⟨p3, by simp, ?_⟩
      intro a ha b hb
      simp only [List.mem_singleton] at hb
      subst hb
      have := p2 a ha
      simp only []; omega

/-- one pass over the live plans (`for mut plan in plans.drain(0..)`) -/
theorem iterate_spec {data list modes k} (hk : k ≤ data.length) :
    ∀ (plans acc : List GPlan) (steps : Nat) (atEnd : Bool),
      (∀ g ∈ plans, Live data list modes k g) → ((k == 0) = true → ∀ g ∈ plans, g.switches.length = 1) →
      (∀ g ∈ acc, Live data list modes (nxt data k) g) → (atEnd = true → ¬ k < data.length) →
      ∃ acc' steps' atEnd',
        iteratePlans (data.length - k) (k == 0) modes plans acc steps atEnd = .ok (acc', steps', atEnd') ∧
        (∀ g ∈ acc', Live data list modes (nxt data k) g) ∧ steps' ≤ steps + 6 * plans.length ∧
        (atEnd' = true → ¬ k < data.length) ∧
        ((plans ≠ [] ∨ atEnd = true) → ¬ k < data.length → atEnd' = true) := by
  intro plans
  induction plans with
  | nil =>
    intro acc steps atEnd _ _ hacc hat
    exact ⟨acc, steps, atEnd, rfl, hacc, by simp, hat, fun h _ => by simpa using h⟩
  | cons plan rest ih =>
    intro acc steps atEnd hpl hst hacc hat
    have hlive := hpl plan (List.mem_cons_self ..)
    have hrest : ∀ g ∈ rest, Live data list modes k g := fun g hg => hpl g (List.mem_cons_of_mem _ hg)
    have hst' : (k == 0) = true → ∀ g ∈ rest, g.switches.length = 1 :=
      fun h0 g hg => hst h0 g (List.mem_cons_of_mem _ hg)
    have hst1 : (k == 0) = true → plan.switches.length = 1 := fun h0 => hst h0 plan (List.mem_cons_self ..)
    have hsw : (k == 0) = false → SwOK modes data.length k plan := fun _ => hlive.2
    unfold iteratePlans
    rcases step_spec plan hlive.1 with ⟨h1, hlt, hal⟩ | ⟨g', r, h1, h2, _, h4, h5, h6, h7⟩
    · rw [h1]
      simp only []
      obtain ⟨l, n, e1, e2, _, e3⟩ := addSwitches_spec plan hlive.1 hal (data.length - k) (k == 0) modes hst1
      rw [e1]
      simp only []
      obtain ⟨acc', steps', atEnd', f1, f2, f3, f4, f5⟩ := ih (acc ++ l) (steps + 1 + n) atEnd hrest hst' (by
        intro g hg
        rcases List.mem_append.mp hg with hg | hg
        · exact hacc g hg
        · exact newOK_live (e3 g hg) hsw) hat
      refine ⟨acc', steps', atEnd', f1, f2, by simp only [List.length_cons]; omega, f4, ?_⟩
      intro _ hnl
      exact absurd hlt hnl
    · rw [h1]
      simp only []
      have hg'live : Live data list modes (nxt data k) g' := ⟨h5, swOK_mono hlive.2 (nxt_ge data k) h2 h4⟩
      by_cases hcond : (!r.unbeatable) = true ∧ (!r.end) = true
      · rw [if_pos hcond]
        have hal : Allowed plan.plan := by
          by_cases hal : Allowed plan.plan
          · exact hal
          · have := h7 hal
            simp [this] at hcond
        obtain ⟨l, n, e1, e2, _, e3⟩ := addSwitches_spec plan hlive.1 hal (data.length - k) (k == 0) modes hst1
        rw [e1]
        simp only []
        have hre : r.end = false := by simpa using hcond.2
        have hlt : k < data.length := by
          rw [h6] at hre
          simpa using hre
        have hne : ¬ ((r.end ≠ (atEnd || r.end))) := by
          rw [hre]
          cases hA : atEnd with
          | true => exact absurd hlt (hat hA)
          | false => simp
        rw [if_neg hne]
        obtain ⟨acc', steps', atEnd', f1, f2, f3, f4, f5⟩ := ih (acc ++ [g'] ++ l) (steps + 1 + n) (atEnd || r.end) hrest hst' (by
          intro g hg
          rcases List.mem_append.mp hg with hg | hg
          · rcases List.mem_append.mp hg with hg | hg
            · exact hacc g hg
            · simp only [List.mem_singleton] at hg; subst hg; exact hg'live
          · exact newOK_live (e3 g hg) hsw) (by
          intro hA
          rw [hre] at hA
          exact hat (by simpa using hA))
        refine ⟨acc', steps', atEnd', f1, f2, by simp only [List.length_cons]; omega, f4, ?_⟩
        intro _ hnl
        exact absurd hlt hnl
      · rw [if_neg hcond]
        simp only []
        have hne : ¬ ((r.end ≠ (atEnd || r.end))) := by
          cases hre : r.end with
          | true => simp
          | false =>
            cases hA : atEnd with
            | true =>
              have := hat hA
              rw [h6] at hre
              simp [this] at hre
            | false => simp
        rw [if_neg hne]
        obtain ⟨acc', steps', atEnd', f1, f2, f3, f4, f5⟩ := ih (acc ++ [g'] ++ []) (steps + 1 + 0) (atEnd || r.end) hrest hst' (by
          intro g hg
          simp only [List.append_nil] at hg
          rcases List.mem_append.mp hg with hg | hg
          · exact hacc g hg
          · simp only [List.mem_singleton] at hg; subst hg; exact hg'live) (by
          intro hA
          rcases Bool.or_eq_true _ _ ▸ hA with hA | hA
          · exact hat hA
          · rw [h6] at hA; simpa using hA)
        refine ⟨acc', steps', atEnd', f1, f2, by simp only [List.length_cons]; omega, f4, ?_⟩
        intro _ hnl
        apply f5 _ hnl
        right
        rw [h6]
        simp [hnl]

end DM.Lemmas.PlanInv
