import DM.Lemmas.C40RT
/-
C40 / Text encoder from an arbitrary position with an arbitrary plan: the run starts at character
`p0` after the codewords `c0`; it may end with the data or with a planned switch.
-/
namespace DM.Lemmas.C40Gen
open DM.Model DM.Model.Enc DM.Model.Dec DM.Gen DM.Lemmas DM.Lemmas.DecRun DM.Lemmas.AsciiRT DM.Lemmas.Complete
open DM.Lemmas.EncRT DM.Lemmas.X12RT DM.Lemmas.EdiRT DM.Lemmas.C40RT DM.Spec.Build

/-- the characters `p0 .. p` of the message -/
def seg (body : List Nat) (p0 p : Nat) : List Nat := (body.drop p0).take (p - p0)

theorem seg_self (body : List Nat) (p : Nat) : seg body p p = [] := by simp [seg]

theorem seg_succ (body : List Nat) (p0 p : Nat) (h0 : p0 ≤ p) (h : p < body.length) :
    seg body p0 (p + 1) = seg body p0 p ++ [body[p]] := by
  unfold seg
  have : p + 1 - p0 = (p - p0) + 1 := by omega
  rw [this, take_succ_drop body p0 (p - p0) (by omega)]
  congr 2
  have : p0 + (p - p0) = p := by omega
  simp only [this]

theorem take_seg (body : List Nat) (p0 p : Nat) (h0 : p0 ≤ p) : body.take p0 ++ seg body p0 p = body.take p := by
  unfold seg
  have : p = p0 + (p - p0) := by omega
  conv => rhs; rw [this, List.take_add]

theorem seg_bytes (body : List Nat) (hb : ByteList body) (p0 p : Nat) : ByteList (seg body p0 p) :=
  fun x hx => hb x (List.mem_of_mem_drop (List.mem_of_mem_take hx))

/-- all C40 / Text values of the characters `p0 .. p` -/
def Wb (text : Bool) (body : List Nat) (p0 p : Nat) : List Nat := (seg body p0 p).flatMap (c40Vals text)

theorem Wb_succ (text : Bool) (body : List Nat) (p0 p : Nat) (h0 : p0 ≤ p) (h : p < body.length) :
    Wb text body p0 (p + 1) = Wb text body p0 p ++ c40Vals text body[p] := by
  unfold Wb
  rw [seg_succ body p0 p h0 h, List.flatMap_append]
  simp [List.flatMap]

theorem Wb_lt (text : Bool) (body : List Nat) (hb : ByteList body) (p0 p : Nat) : ∀ v ∈ Wb text body p0 p, v < 40 :=
  c40_vals_lt text _ (seg_bytes body hb p0 p)

theorem Wb_dec (text : Bool) (body : List Nat) (hb : ByteList body) (p0 p : Nat) (rest out : List Nat) :
    c40Values (tabs text).1 (tabs text).2 (Wb text body p0 p ++ rest) st0 out =
      c40Values (tabs text).1 (tabs text).2 rest st0 (out ++ seg body p0 p) :=
  c40_bytes text _ (seg_bytes body hb p0 p) rest out

theorem dec_drop_lastG (text : Bool) (body : List Nat) (hb : ByteList body) (p0 p : Nat) (h0 : p0 ≤ p) (hp : p < body.length) :
    ∃ st', ∀ out, c40Values (tabs text).1 (tabs text).2
      ((Wb text body p0 (p + 1)).take ((Wb text body p0 (p + 1)).length - 1)) st0 out = .ok (st', out ++ seg body p0 p) := by
  have hx : body[p] < 256 := hb _ (List.getElem_mem hp)
  have hne := vals_ne text body[p] hx
  have hlen : 0 < (c40Vals text body[p]).length := List.length_pos_iff.mpr hne
  obtain ⟨st, hst⟩ := prefix_ok text body[p] hx ((c40Vals text body[p]).length - 1) (by omega)
  refine ⟨st, fun out => ?_⟩
  rw [Wb_succ text body p0 p h0 hp]
  have : (Wb text body p0 p ++ c40Vals text body[p]).length - 1 = (Wb text body p0 p).length + ((c40Vals text body[p]).length - 1) := by
    simp only [List.length_append]; omega
  rw [this, take_len_add, Wb_dec text body hb, hst]

structure Inv (text : Bool) (list : List Sym) (body : List Nat) (p0 : Nat) (c0 : List Nat) (s : St) (buf : List Nat)
    (lastCh m : Nat) : Prop where
  input : s.input = body
  list : s.list = list
  mode : s.mode = modeOf text
  newMode : s.newMode = none
  base : p0 ≤ s.pos
  le : s.pos ≤ body.length
  m3 : 3 * m ≤ (Wb text body p0 s.pos).length
  bufEq : buf = (Wb text body p0 s.pos).drop (3 * m)
  short : buf.length ≤ 2
  cw : s.cw = c0 ++ latchOf text :: packTriples ((Wb text body p0 s.pos).take (3 * m))
  last : p0 < s.pos → lastCh = body.getD (s.pos - 1) 0

/-- no latch to a non-ASCII mode is planned for the last four characters, and EDIFACT is not used -/
def PlanOK (plan : List (Nat × EMode)) : Prop := ∀ e ∈ plan, (e.2 ≠ .ascii → e.1 = 0 ∨ e.1 > 4) ∧ e.2 ≠ .edifact

/-- like `PlanOK`, but EDIFACT may be used for the final stretch of the message: the plan is a front
part without EDIFACT followed by EDIFACT entries only, and the characters an EDIFACT entry covers
(the last `e.1` characters of the message) are EDIFACT characters -/
def PlanOKE (body : List Nat) (plan : List (Nat × EMode)) : Prop :=
  ∃ front edis, plan = front ++ edis ∧
    (∀ e ∈ front, (e.2 ≠ .ascii → e.1 = 0 ∨ e.1 > 4) ∧ e.2 ≠ .edifact) ∧
    (∀ e ∈ edis, e.2 = .edifact ∧ (e.1 = 0 ∨ e.1 > 4) ∧ EdiChars (body.drop (body.length - e.1)))

theorem planOKE_of_planOK (body : List Nat) {plan : List (Nat × EMode)} (h : PlanOK plan) : PlanOKE body plan :=
  ⟨plan, [], by simp, h, by intro e he; simp at he⟩

theorem planOKE_ascii (body : List Nat) : PlanOKE body [(0, .ascii)] :=
  planOKE_of_planOK body (by intro e he; simp at he; subst he; simp)

theorem planOKE_tail {body : List Nat} {a : Nat × EMode} {t : List (Nat × EMode)} (h : PlanOKE body (a :: t)) :
    PlanOKE body t := by
  obtain ⟨front, edis, h1, h2, h3⟩ := h
  cases front with
  | nil =>
    cases edis with
    | nil => simp at h1
    | cons x xs =>
      simp only [List.nil_append, List.cons.injEq] at h1
      exact ⟨[], xs, by simp [h1.2], by intro e he; simp at he, fun e he => h3 e (by simp [he])⟩
  | cons x xs =>
    simp only [List.cons_append, List.cons.injEq] at h1
    exact ⟨xs, edis, h1.2, fun e he => h2 e (by simp [he]), h3⟩

theorem planOKE_mem {body : List Nat} {plan : List (Nat × EMode)} (h : PlanOKE body plan) (e : Nat × EMode) (he : e ∈ plan) :
    (e.2 ≠ .ascii → e.1 = 0 ∨ e.1 > 4) ∧ (e.2 = .edifact → EdiChars (body.drop (body.length - e.1))) := by
  obtain ⟨front, edis, h1, h2, h3⟩ := h
  rw [h1] at he
  rcases List.mem_append.mp he with he | he
  · exact ⟨(h2 e he).1, fun hm => absurd hm (h2 e he).2⟩
  · exact ⟨fun _ => (h3 e he).2.1, fun _ => (h3 e he).2.2⟩

/-- once the plan has reached an EDIFACT entry, only EDIFACT entries follow -/
theorem planOKE_head_edi {body : List Nat} {a : Nat × EMode} {t : List (Nat × EMode)} (h : PlanOKE body (a :: t))
    (ha : a.2 = .edifact) : ∀ e ∈ t, e.2 = .edifact := by
  obtain ⟨front, edis, h1, h2, h3⟩ := h
  cases front with
  | nil =>
    simp only [List.nil_append] at h1
    intro e he
    exact (h3 e (by rw [← h1]; simp [he])).1
  | cons x xs =>
    simp only [List.cons_append, List.cons.injEq] at h1
    exact absurd ha (by rw [h1.1]; exact (h2 x (by simp)).2)

/-- an executable form of `PlanOKE`: split the plan at its first EDIFACT entry -/
def planOKEb (body : List Nat) (plan : List (Nat × EMode)) : Bool :=
  (plan.takeWhile (fun e => e.2 != .edifact)).all (fun e => e.2 == .ascii || e.1 == 0 || decide (e.1 > 4)) &&
  (plan.dropWhile (fun e => e.2 != .edifact)).all (fun e => e.2 == .edifact && (e.1 == 0 || decide (e.1 > 4)) &&
    (body.drop (body.length - e.1)).all (fun x => decide (32 ≤ x) && decide (x ≤ 94)))

theorem mem_takeWhile_true {α : Type} (p : α → Bool) : ∀ (l : List α) (x : α), x ∈ l.takeWhile p → p x = true := by
  intro l
  induction l with
  | nil => intro x hx; simp at hx
  | cons a t ih =>
    intro x hx
    rw [List.takeWhile_cons] at hx
    split at hx
    · rcases List.mem_cons.mp hx with rfl | hx
      · assumption
      · exact ih x hx
    · simp at hx

theorem planOKE_of_check (body : List Nat) (plan : List (Nat × EMode)) (h : planOKEb body plan = true) : PlanOKE body plan := by
  unfold planOKEb at h
  rw [Bool.and_eq_true, List.all_eq_true, List.all_eq_true] at h
  obtain ⟨h1, h2⟩ := h
  refine ⟨plan.takeWhile (fun e => e.2 != .edifact), plan.dropWhile (fun e => e.2 != .edifact),
    (List.takeWhile_append_dropWhile).symm, ?_, ?_⟩
  · intro e he
    have hp := mem_takeWhile_true _ _ e he
    have h1e := h1 e he
    simp only [Bool.or_eq_true, beq_iff_eq, decide_eq_true_eq] at h1e
    simp only [bne_iff_ne, ne_eq] at hp
    refine ⟨fun hne => ?_, hp⟩
    rcases h1e with (h0 | h0) | h0
    · exact absurd h0 hne
    · exact Or.inl h0
    · exact Or.inr h0
  · intro e he
    have h2e := h2 e he
    simp only [Bool.and_eq_true, Bool.or_eq_true, beq_iff_eq, decide_eq_true_eq, List.all_eq_true] at h2e
    obtain ⟨⟨a, b⟩, c⟩ := h2e
    exact ⟨a, b, fun x hx => c x hx⟩

/-- a pending latch is consistent with the mode; a pending EDIFACT latch means EDIFACT until the end:
the remaining plan names EDIFACT only and the remaining characters are EDIFACT characters -/
def Pending (s : St) : Prop :=
  (s.mode = .ascii ∧ s.newMode = none) ∨
  (∃ l, s.mode.latch = some l ∧ s.newMode = some l ∧
    (s.mode = .edifact → (∀ e ∈ s.plan, e.2 = .edifact) ∧ EdiChars (s.input.drop (s.input.length - s.charsLeft))))

theorem Pending.congr {s t : St} (h : Pending s) (h1 : t.mode = s.mode) (h2 : t.newMode = s.newMode) (h3 : t.plan = s.plan)
    (h4 : t.input = s.input) (h5 : t.pos = s.pos) : Pending t := by
  unfold Pending St.charsLeft at *
  rw [h1, h2, h3, h4, h5]
  exact h

/-- what `c40::encode` leaves behind (see `C40RT.C40End`), relative to the start of the run -/
structure End (text : Bool) (list : List Sym) (body : List Nat) (p0 : Nat) (c0 : List Nat) (s' : St) : Prop where
  out : ∃ (V : List Nat) (n p : Nat) (un : Bool) (st' : CSt),
    V.length = 3 * n ∧ (∀ v ∈ V, v < 40) ∧
    (∀ out, c40Values (tabs text).1 (tabs text).2 V st0 out = .ok (st', out ++ seg body p0 p)) ∧ p0 ≤ p ∧ p ≤ body.length ∧
    s'.cw = c0 ++ latchOf text :: packTriples V ++ (if un then [254] else []) ∧ s'.pos = p ∧ s'.input = body ∧
    s'.list = list ∧
    ((s'.mode = .ascii ∧ s'.plan = [(0, .ascii)] ∧ s'.newMode = none) ∨
     (un = true ∧ s'.hasMore = true ∧ Pending s' ∧ PlanOKE body s'.plan) ∨ (p = body.length ∧ un = false)) ∧
    (un = false → asciiSize (body.drop p) ≤ 1 ∧
      ∃ S, firstBigEnough list (s'.cw.length + asciiSize (body.drop p)) = some S ∧
        dataCw S = s'.cw.length + asciiSize (body.drop p))

/-- the end of `handle_end` when all characters are consumed: UNLATCH if there is room, else exact fit -/
theorem finish_atEnd (text : Bool) (list : List Sym) (body : List Nat) (p0 : Nat) (c0 : List Nat) (hp0 : p0 ≤ body.length) (s1 s' : St) (V : List Nat) (n : Nat) (st' : CSt)
    (hVl : V.length = 3 * n) (hVlt : ∀ v ∈ V, v < 40)
    (hdec : ∀ out, c40Values (tabs text).1 (tabs text).2 V st0 out = .ok (st', out ++ seg body p0 body.length))
    (hcw : s1.cw = c0 ++ latchOf text :: packTriples V) (hpos : s1.pos = body.length) (hin : s1.input = body)
    (hli : s1.list = list) (hnm : s1.newMode = none)
    (h : (match s1.sizeLeftE 0 with
      | .error e => .error e
      | .ok left => if left > 0 then .ok ((s1.push 254).setAscii) else .ok s1) = Except.ok s') :
    End text list body p0 c0 s' := by
  unfold St.sizeLeftE at h
  cases hsl : s1.sizeLeft 0 with
  | none => rw [hsl] at h; cases h
  | some left =>
    rw [hsl] at h
    simp only [] at h
    obtain ⟨S, hS, hScap⟩ := sizeLeft_eq s1 0 left hsl
    rw [hli] at hS
    by_cases hl : left > 0
    · rw [if_pos hl] at h
      simp only [Except.ok.injEq] at h
      subst h
      exact ⟨V, n, body.length, true, st', hVl, hVlt, hdec, hp0, Nat.le_refl _, by simp [St.push, St.setAscii, hcw],
        by simp [St.push, St.setAscii, hpos], by simp [St.push, St.setAscii, hin], by simp [St.push, St.setAscii, hli],
        Or.inl ⟨rfl, rfl, by simp [St.push, St.setAscii, hnm]⟩, by simp⟩
    · rw [if_neg hl] at h
      simp only [Except.ok.injEq] at h
      subst h
      refine ⟨V, n, body.length, false, st', hVl, hVlt, hdec, hp0, Nat.le_refl _, by simp [hcw], hpos, hin, hli,
        Or.inr (Or.inr ⟨rfl, rfl⟩), fun _ => ?_⟩
      have hd : body.drop body.length = [] := List.drop_eq_nil_of_le (Nat.le_refl _)
      rw [hd]
      simp only [asciiSize, Nat.add_zero, Nat.zero_le, true_and]
      exact ⟨S, by simpa using hS, by omega⟩

theorem handleEnd_atEnd (text : Bool) (list : List Sym) (body : List Nat) (hb : ByteList body) (p0 : Nat) (c0 : List Nat) (s s' : St)
    (buf : List Nat) (lastCh m : Nat) (inv : Inv text list body p0 c0 s buf lastCh m) (hend : s.hasMore = false)
    (h : c40HandleEnd s lastCh buf = .ok s') : End text list body p0 c0 s' := by
  have h1 := of_decide_eq_false hend
  rw [inv.input] at h1
  have hpos : s.pos = body.length := by have := inv.le; omega
  have hW : Wb text body p0 s.pos = (Wb text body p0 s.pos).take (3 * m) ++ buf := by
    rw [inv.bufEq, List.take_append_drop]
  have hWlen : (Wb text body p0 s.pos).length = 3 * m + buf.length := by
    rw [inv.bufEq, List.length_drop]; have := inv.m3; omega
  have hWlt := Wb_lt text body hb p0 s.pos
  have hbuflt : ∀ v ∈ buf, v < 40 := fun v hv => hWlt v (by rw [hW]; exact List.mem_append_right _ hv)
  have hVlt : ∀ v ∈ (Wb text body p0 s.pos).take (3 * m), v < 40 := fun v hv => hWlt v (List.mem_of_mem_take hv)
  have hVlen : ((Wb text body p0 s.pos).take (3 * m)).length = 3 * m := by rw [List.length_take]; have := inv.m3; omega
  have hcharsLeft : s.charsLeft = 0 := by simp [St.charsLeft, inv.input, hpos]
  have hp0l : p0 ≤ body.length := by have := inv.base; omega
  unfold c40HandleEnd at h
  rw [if_neg (by have := inv.short; omega)] at h
  simp only [hend, Bool.not_false, ↓reduceIte, Bool.false_eq_true] at h
  unfold St.sizeLeftE at h
  cases hsl : s.sizeLeft buf.length with
  | none => rw [hsl] at h; cases h
  | some sl =>
    rw [hsl] at h
    simp only [] at h
    obtain ⟨S, hS, hScap⟩ := sizeLeft_eq s buf.length sl hsl
    rw [inv.list] at hS
    by_cases c1 : sl + buf.length = 2 ∧ buf.length = 2
    · -- two values left and exactly one codeword pair of room: fill with 0, no UNLATCH
      rw [if_pos c1] at h
      simp only [Except.ok.injEq] at h
      subst h
      match hbuf : buf, c1.2 with
      | [b0, b1], _ =>
        obtain ⟨w1, w2, w3, w4, w5, w6, w7⟩ := writeThree_cw s b0 b1 0 (hbuflt b0 (by simp)) (hbuflt b1 (by simp)) (by omega)
        obtain ⟨stf, hstf⟩ := fill_ok text [0] (Or.inl rfl)
        have hgd : writeThree s ([b0, b1].getD 0 0) ([b0, b1].getD 1 0) 0 = writeThree s b0 b1 0 := rfl
        rw [hgd]
        refine ⟨(Wb text body p0 s.pos) ++ [0], m + 1, body.length, false, stf, by simp [hWlen]; omega, ?_, ?_, hp0l, Nat.le_refl _,
          ?_, by rw [w2]; exact hpos, by rw [w3]; exact inv.input, by rw [w4]; exact inv.list,
          Or.inr (Or.inr ⟨rfl, rfl⟩), fun _ => ?_⟩
        · intro v hv
          rcases List.mem_append.mp hv with hv | hv
          · exact hWlt v hv
          · simp only [List.mem_singleton] at hv; omega
        · intro out
          rw [Wb_dec text body hb p0, hstf, hpos]
        · simp only [Bool.false_eq_true, ↓reduceIte, List.append_nil]
          rw [w1, inv.cw]
          conv => rhs; rw [hW, List.append_assoc, packTriples_append m _ _ hVlen]
          simp [packTriples, List.append_assoc]
        · have hd : body.drop body.length = [] := List.drop_eq_nil_of_le (Nat.le_refl _)
          rw [hd]
          simp only [asciiSize, Nat.add_zero, Nat.zero_le, true_and]
          refine ⟨S, ?_, ?_⟩
          · rw [w1]; simp only [List.length_append, packTriples, List.length_cons, List.length_nil]
            simpa using hS
          · rw [w1]; simp only [List.length_append, packTriples, List.length_cons, List.length_nil]
            simp only [List.length_cons, List.length_nil] at hScap
            omega
    · rw [if_neg c1] at h
      have hpos1 : buf.length = 1 → p0 < s.pos := by
        intro hb1
        by_cases h0 : s.pos = p0
        · rw [h0] at hWlen; simp [Wb, seg_self] at hWlen; omega
        · have := inv.base; omega
      by_cases c2 : sl + buf.length = 2 ∧ buf.length = 1
      · -- one value left, room for UNLATCH + one codeword: drop the value, UNLATCH, last character in ASCII
        rw [if_pos c2] at h
        have hp1 := hpos1 c2.2
        have hbk : ((s.push 254).setAscii).backup 1 = .ok { (s.push 254).setAscii with pos := s.pos - 1 } := by
          unfold St.backup
          rw [if_pos (by simp only [St.push, St.setAscii]; omega)]
          rfl
        rw [hbk] at h
        simp only [Except.ok.injEq] at h
        subst h
        have hp : s.pos - 1 < body.length := by omega
        obtain ⟨st', hdec⟩ := dec_drop_lastG text body hb p0 (s.pos - 1) (by omega) hp
        have hpp : s.pos - 1 + 1 = s.pos := by omega
        rw [hpp] at hdec
        have h3m : 3 * m = (Wb text body p0 s.pos).length - 1 := by omega
        rw [← h3m] at hdec
        exact ⟨_, m, s.pos - 1, true, st', hVlen, hVlt, hdec, by omega, by omega, by simp [St.push, St.setAscii, inv.cw],
          rfl, by simp [St.push, St.setAscii, inv.input], by simp [St.push, St.setAscii, inv.list],
          Or.inl ⟨rfl, rfl, by simp [St.push, St.setAscii, inv.newMode]⟩, by simp⟩
      · rw [if_neg c2] at h
        by_cases c3 : sl + buf.length = 1 ∧ buf.length = 1 ∧ asciiSize [lastCh] = 1
        · -- one value left, exactly one codeword of room, last character is one ASCII codeword: no UNLATCH
          rw [if_pos c3] at h
          have hp1 := hpos1 c3.2.1
          have hbk : s.setAscii.backup 1 = .ok { s.setAscii with pos := s.pos - 1 } := by
            unfold St.backup
            rw [if_pos (by simp only [St.setAscii]; omega)]
            rfl
          rw [hbk] at h
          simp only [Except.ok.injEq] at h
          subst h
          have hp : s.pos - 1 < body.length := by omega
          obtain ⟨st', hdec⟩ := dec_drop_lastG text body hb p0 (s.pos - 1) (by omega) hp
          have hpp : s.pos - 1 + 1 = s.pos := by omega
          rw [hpp] at hdec
          have h3m : 3 * m = (Wb text body p0 s.pos).length - 1 := by omega
          rw [← h3m] at hdec
          refine ⟨_, m, s.pos - 1, false, st', hVlen, hVlt, hdec, by omega, by omega, by simp [St.setAscii, inv.cw],
            rfl, by simp [St.setAscii, inv.input], by simp [St.setAscii, inv.list],
            Or.inl ⟨rfl, rfl, by simp [St.setAscii, inv.newMode]⟩, fun _ => ?_⟩
          have hlast : lastCh = body[s.pos - 1] := by
            rw [inv.last (by omega)]
            simp [List.getD, List.getElem?_eq_getElem hp]
          have hdrop : body.drop (s.pos - 1) = [lastCh] := by
            rw [List.drop_eq_getElem_cons hp, ← hlast, List.drop_eq_nil_of_le (by omega)]
          simp only [St.setAscii, hdrop, c3.2.2]
          refine ⟨Nat.le_refl _, S, ?_, ?_⟩
          · rw [c3.2.1] at hS; exact hS
          · omega
        · rw [if_neg c3] at h
          simp only [] at h
          -- fill the last triple (if any values are left), then UNLATCH if there is room
          match hbuf : buf, inv.short with
          | [], _ =>
            simp only [List.isEmpty_nil, Bool.not_true, Bool.false_eq_true, ↓reduceIte, hcharsLeft, Nat.lt_irrefl] at h
            have hV : (Wb text body p0 s.pos).take (3 * m) = Wb text body p0 s.pos := by
              have := hW
              rw [List.append_nil] at this
              exact this.symm
            refine finish_atEnd text list body p0 c0 hp0l s s' _ m st0 hVlen hVlt ?_ inv.cw hpos inv.input inv.list inv.newMode ?_
            · intro out
              rw [hV]
              have := Wb_dec text body hb p0 s.pos [] out
              simp only [List.append_nil, c40Values] at this
              rw [this, hpos]
            · exact h
          | [b0], _ =>
            obtain ⟨w1, w2, w3, w4, w5, w6, w7⟩ := writeThree_cw s b0 1 30 (hbuflt b0 (by simp)) (by omega) (by omega)
            obtain ⟨stf, hstf⟩ := fill_ok text [1, 30] (Or.inr (Or.inr rfl))
            have hcl : ((writeThree s b0 1 30).setAscii).charsLeft = 0 := by
              simp [St.charsLeft, St.setAscii, w2, w3, inv.input, hpos]
            simp only [List.isEmpty_cons, Bool.not_false, ↓reduceIte, List.cons_append, List.nil_append, List.length_cons,
              List.length_nil, List.getD_cons_zero, List.getD_cons_succ, Bool.false_eq_true, Nat.reduceAdd, hcl,
              Nat.lt_irrefl] at h
            refine finish_atEnd text list body p0 c0 hp0l _ s' (Wb text body p0 s.pos ++ [1, 30]) (m + 1) stf (by simp [hWlen]; omega) ?_ ?_ ?_
              (by simp [St.setAscii, w2, hpos]) (by simp [St.setAscii, w3, inv.input]) (by simp [St.setAscii, w4, inv.list])
              (by simp [St.setAscii, w7, inv.newMode]) h
            · intro v hv
              rcases List.mem_append.mp hv with hv | hv
              · exact hWlt v hv
              · simp only [List.mem_cons, List.not_mem_nil, or_false] at hv; omega
            · intro out
              rw [Wb_dec text body hb p0, hstf, hpos]
            · simp only [St.setAscii]
              rw [w1, inv.cw]
              conv => rhs; rw [hW, List.append_assoc, packTriples_append m _ _ hVlen]
              simp [packTriples, List.append_assoc]
          | [b0, b1], _ =>
            obtain ⟨w1, w2, w3, w4, w5, w6, w7⟩ := writeThree_cw s b0 b1 1 (hbuflt b0 (by simp)) (hbuflt b1 (by simp)) (by omega)
            obtain ⟨stf, hstf⟩ := fill_ok text [1] (Or.inr (Or.inl rfl))
            have hcl : ((writeThree s b0 b1 1).setAscii).charsLeft = 0 := by
              simp [St.charsLeft, St.setAscii, w2, w3, inv.input, hpos]
            simp only [List.isEmpty_cons, Bool.not_false, ↓reduceIte, List.cons_append, List.nil_append, List.length_cons,
              List.length_nil, List.getD_cons_zero, List.getD_cons_succ, Bool.false_eq_true, Nat.reduceAdd, hcl,
              Nat.lt_irrefl, Nat.reduceEqDiff] at h
            refine finish_atEnd text list body p0 c0 hp0l _ s' (Wb text body p0 s.pos ++ [1]) (m + 1) stf (by simp [hWlen]; omega) ?_ ?_ ?_
              (by simp [St.setAscii, w2, hpos]) (by simp [St.setAscii, w3, inv.input]) (by simp [St.setAscii, w4, inv.list])
              (by simp [St.setAscii, w7, inv.newMode]) h
            · intro v hv
              rcases List.mem_append.mp hv with hv | hv
              · exact hWlt v hv
              · simp only [List.mem_singleton] at hv; omega
            · intro out
              rw [Wb_dec text body hb p0, hstf, hpos]
            · simp only [St.setAscii]
              rw [w1, inv.cw]
              conv => rhs; rw [hW, List.append_assoc, packTriples_append m _ _ hVlen]
              simp [packTriples]
          | _ :: _ :: _ :: _, hs => simp at hs


/-- `handle_end` with characters left: reached at a planned switch, or (empty buffer) with exactly
two digits left. `s0` is the state the invariant speaks about; `s` differs from it at most in the
control fields (mode, plan, pending latch). -/
theorem handleEnd_more (text : Bool) (list : List Sym) (body : List Nat) (hb : ByteList body) (p0 : Nat) (c0 : List Nat)
    (s0 s s' : St) (buf : List Nat) (lastCh m : Nat) (inv : Inv text list body p0 c0 s0 buf lastCh m)
    (hin : s.input = s0.input) (hpos : s.pos = s0.pos) (hcw : s.cw = s0.cw) (hli : s.list = s0.list)
    (hmore : s.hasMore = true)
    (hpend : ¬ (s.charsLeft = 2 ∧ twoDigitsComing s.rest = true) → Pending s)
    (hlate : s.charsLeft = 2 → s.newMode = none) (hplS : PlanOKE body s.plan)
    (h : c40HandleEnd s lastCh buf = .ok s') : End text list body p0 c0 s' := by
  have hW : Wb text body p0 s0.pos = (Wb text body p0 s0.pos).take (3 * m) ++ buf := by
    rw [inv.bufEq, List.take_append_drop]
  have hWlen : (Wb text body p0 s0.pos).length = 3 * m + buf.length := by
    rw [inv.bufEq, List.length_drop]; have := inv.m3; omega
  have hWlt := Wb_lt text body hb p0 s0.pos
  have hbuflt : ∀ v ∈ buf, v < 40 := fun v hv => hWlt v (by rw [hW]; exact List.mem_append_right _ hv)
  have hVlen : ((Wb text body p0 s0.pos).take (3 * m)).length = 3 * m := by rw [List.length_take]; have := inv.m3; omega
  have hlt : s0.pos < body.length := by
    have := of_decide_eq_true hmore
    rw [hin, hpos, inv.input] at this
    exact this
  have hcl : 0 < s.charsLeft := by simp only [St.charsLeft, hin, hpos, inv.input]; omega
  -- the state after the (possible) fill triple
  have hfill : ∃ (s1 : St) (V : List Nat) (n : Nat) (stf : CSt), V.length = 3 * n ∧ (∀ v ∈ V, v < 40) ∧
      (∀ out, c40Values (tabs text).1 (tabs text).2 V st0 out = .ok (stf, out ++ seg body p0 s0.pos)) ∧
      s1.cw = c0 ++ latchOf text :: packTriples V ∧ s1.pos = s.pos ∧ s1.input = s.input ∧ s1.list = s.list ∧
      s1.plan = s.plan ∧ s1.mode = s.mode ∧ s1.newMode = s.newMode ∧
      (if s1.charsLeft > 0 then
        if s1.charsLeft = 2 ∧ twoDigitsComing s1.rest = true then
          match s1.sizeLeftE 1 with
          | .error e => .error e
          | .ok spaceLeft => .ok (if spaceLeft ≥ 1 then s1.setAscii.push 254 else s1.setAscii)
        else .ok (s1.push 254)
       else
        match s1.sizeLeftE 0 with
        | .error e => .error e
        | .ok left => if left > 0 then .ok (if !true then (s1.push 254).setAscii else s1.push 254) else .ok s1) = Except.ok s' := by
    unfold c40HandleEnd at h
    rw [if_neg (by have := inv.short; omega)] at h
    simp only [hmore, Bool.not_true, Bool.false_eq_true, ↓reduceIte] at h
    match hbuf : buf, inv.short with
    | [], _ =>
      simp only [List.isEmpty_nil, Bool.not_true, Bool.false_eq_true, ↓reduceIte] at h
      have hV : (Wb text body p0 s0.pos).take (3 * m) = Wb text body p0 s0.pos := by
        have := hW
        rw [List.append_nil] at this
        exact this.symm
      refine ⟨s, Wb text body p0 s0.pos, m, st0, by rw [← hV]; exact hVlen, hWlt, ?_, by rw [hcw, inv.cw, hV], rfl, rfl, rfl,
        rfl, rfl, rfl, h⟩
      intro out
      have := Wb_dec text body hb p0 s0.pos [] out
      simp only [List.append_nil, c40Values] at this
      exact this
    | [b0], _ =>
      obtain ⟨w1, w2, w3, w4, w5, w6, w7⟩ := writeThree_cw s b0 1 30 (hbuflt b0 (by simp)) (by omega) (by omega)
      obtain ⟨stf, hstf⟩ := fill_ok text [1, 30] (Or.inr (Or.inr rfl))
      simp only [List.isEmpty_cons, Bool.not_false, ↓reduceIte, List.cons_append, List.nil_append, List.length_cons,
        List.length_nil, List.getD_cons_zero, List.getD_cons_succ, Bool.false_eq_true, Nat.reduceAdd] at h
      refine ⟨writeThree s b0 1 30, Wb text body p0 s0.pos ++ [1, 30], m + 1, stf, by simp [hWlen]; omega, ?_, ?_, ?_,
        w2, w3, w4, w5, w6, w7, h⟩
      · intro v hv
        rcases List.mem_append.mp hv with hv | hv
        · exact hWlt v hv
        · simp only [List.mem_cons, List.not_mem_nil, or_false] at hv; omega
      · intro out
        rw [Wb_dec text body hb p0, hstf]
      · rw [w1, hcw, inv.cw]
        conv => rhs; rw [hW, List.append_assoc, packTriples_append m _ _ hVlen]
        simp [packTriples, List.append_assoc]
    | [b0, b1], _ =>
      obtain ⟨w1, w2, w3, w4, w5, w6, w7⟩ := writeThree_cw s b0 b1 1 (hbuflt b0 (by simp)) (hbuflt b1 (by simp)) (by omega)
      obtain ⟨stf, hstf⟩ := fill_ok text [1] (Or.inr (Or.inl rfl))
      simp only [List.isEmpty_cons, Bool.not_false, ↓reduceIte, List.cons_append, List.nil_append, List.length_cons,
        List.length_nil, List.getD_cons_zero, List.getD_cons_succ, Bool.false_eq_true, Nat.reduceAdd, Nat.reduceEqDiff] at h
      refine ⟨writeThree s b0 b1 1, Wb text body p0 s0.pos ++ [1], m + 1, stf, by simp [hWlen]; omega, ?_, ?_, ?_,
        w2, w3, w4, w5, w6, w7, h⟩
      · intro v hv
        rcases List.mem_append.mp hv with hv | hv
        · exact hWlt v hv
        · simp only [List.mem_singleton] at hv; omega
      · intro out
        rw [Wb_dec text body hb p0, hstf]
      · rw [w1, hcw, inv.cw]
        conv => rhs; rw [hW, List.append_assoc, packTriples_append m _ _ hVlen]
        simp [packTriples, List.append_assoc]
    | _ :: _ :: _ :: _, hs => simp at hs
  obtain ⟨s1, V, n, stf, hVl, hVlt', hdec, hcw1, hp1, hi1, hl1, hpl1, hm1, hn1, h⟩ := hfill
  have hcl1 : s1.charsLeft = s.charsLeft := by simp [St.charsLeft, hp1, hi1]
  have hrest1 : s1.rest = s.rest := by simp [St.rest, hp1, hi1]
  have hmore1 : s1.hasMore = true := by simp only [St.hasMore, hp1, hi1]; exact hmore
  rw [hcl1, hrest1, if_pos hcl] at h
  by_cases htwo : s.charsLeft = 2 ∧ twoDigitsComing s.rest = true
  · rw [if_pos htwo] at h
    unfold St.sizeLeftE at h
    cases hsl : s1.sizeLeft 1 with
    | none => rw [hsl] at h; cases h
    | some sp =>
      rw [hsl] at h
      simp only [Except.ok.injEq] at h
      obtain ⟨S, hS, hScap⟩ := sizeLeft_eq s1 1 sp hsl
      rw [hl1, hli, inv.list] at hS
      have hnm : s1.newMode = none := by rw [hn1]; exact hlate htwo.1
      have hasz : asciiSize (body.drop s0.pos) = 1 := by
        have hr : s.rest = body.drop s0.pos := by simp [St.rest, hin, hpos, inv.input]
        rw [← hr]
        have hl : s.rest.length = 2 := by
          rw [hr, List.length_drop]
          have := htwo.1
          simp only [St.charsLeft, hin, hpos, inv.input] at this
          exact this
        match hrr : s.rest, hl, htwo.2 with
        | [a, b], _, htd =>
          simp only [twoDigitsComing] at htd
          simp [asciiSize, htd]
      by_cases hsp : sp ≥ 1
      · rw [if_pos hsp] at h
        subst h
        exact ⟨V, n, s0.pos, true, stf, hVl, hVlt', hdec, inv.base, inv.le, by simp [St.push, St.setAscii, hcw1],
          by simp [St.push, St.setAscii, hp1, hpos], by simp [St.push, St.setAscii, hi1, hin, inv.input],
          by simp [St.push, St.setAscii, hl1, hli, inv.list], Or.inl ⟨rfl, rfl, by simp [St.push, St.setAscii, hnm]⟩, by simp⟩
      · rw [if_neg hsp] at h
        subst h
        refine ⟨V, n, s0.pos, false, stf, hVl, hVlt', hdec, inv.base, inv.le, by simp [St.setAscii, hcw1],
          by simp [St.setAscii, hp1, hpos], by simp [St.setAscii, hi1, hin, inv.input],
          by simp [St.setAscii, hl1, hli, inv.list], Or.inl ⟨rfl, rfl, by simp [St.setAscii, hnm]⟩, fun _ => ?_⟩
        rw [hasz]
        exact ⟨Nat.le_refl _, S, by simpa [St.setAscii] using hS, by simp only [St.setAscii]; omega⟩
  · rw [if_neg htwo] at h
    simp only [Except.ok.injEq] at h
    subst h
    have hp := hpend htwo
    refine ⟨V, n, s0.pos, true, stf, hVl, hVlt', hdec, inv.base, inv.le, by simp [St.push, hcw1],
      by simp [St.push, hp1, hpos], by simp [St.push, hi1, hin, inv.input], by simp [St.push, hl1, hli, inv.list],
      Or.inr (Or.inl ⟨rfl, by simp only [St.hasMore, St.push, hp1, hi1]; exact hmore, ?_, by simp only [St.push, hpl1]; exact hplS⟩), by simp⟩
    exact hp.congr (by simp only [St.push, hm1]) (by simp only [St.push, hn1]) (by simp only [St.push, hpl1])
      (by simp only [St.push, hi1]) (by simp only [St.push, hp1])

theorem maybeSwitch_at (s s1 : St) (h : s.maybeSwitch = .ok (true, s1)) : (s.charsLeft, s1.mode) ∈ s.plan := by
  unfold St.maybeSwitch at h
  split at h
  · cases h
  · rename_i at_ m restPlan hp
    simp only [] at h
    split at h
    · cases h
    · by_cases hc : s.charsLeft > 0 ∧ s.charsLeft = at_
      · rw [if_pos hc] at h
        simp only [] at h
        by_cases hne : m ≠ s.mode
        · rw [if_pos hne] at h
          simp only [Except.ok.injEq, Prod.mk.injEq, true_and] at h
          subst h
          rw [hp, hc.2]
          simp
        · rw [if_neg hne] at h
          simp at h
      · rw [if_neg hc] at h
        simp at h

theorem maybeSwitch_true (s s1 : St) (h : s.maybeSwitch = .ok (true, s1)) : s.plan = (s.charsLeft, s1.mode) :: s1.plan := by
  unfold St.maybeSwitch at h
  split at h
  · cases h
  · rename_i at_ m restPlan hp
    simp only [] at h
    split at h
    · cases h
    · by_cases hc : s.charsLeft > 0 ∧ s.charsLeft = at_
      · rw [if_pos hc] at h
        simp only [] at h
        by_cases hne : m ≠ s.mode
        · rw [if_pos hne] at h
          simp only [Except.ok.injEq, Prod.mk.injEq, true_and] at h
          subst h
          rw [hp, hc.2]
        · rw [if_neg hne] at h
          simp at h
      · rw [if_neg hc] at h
        simp at h

theorem maybeSwitch_plan (s s1 : St) (b : Bool) (h : s.maybeSwitch = .ok (b, s1)) :
    s1.plan = s.plan ∨ ∃ e, s.plan = e :: s1.plan := by
  unfold St.maybeSwitch at h
  split at h
  · cases h
  · rename_i at_ m restPlan hp
    simp only [] at h
    split at h
    · cases h
    · by_cases hc : s.charsLeft > 0 ∧ s.charsLeft = at_
      · rw [if_pos hc] at h
        simp only [] at h
        split at h
        · simp only [Except.ok.injEq, Prod.mk.injEq] at h
          obtain ⟨_, hs⟩ := h
          subst hs
          exact Or.inr ⟨_, hp⟩
        · simp only [Except.ok.injEq, Prod.mk.injEq] at h
          obtain ⟨_, hs⟩ := h
          subst hs
          exact Or.inr ⟨_, hp⟩
      · rw [if_neg hc] at h
        simp only [ne_eq, not_true_eq_false, ↓reduceIte, Except.ok.injEq, Prod.mk.injEq] at h
        obtain ⟨_, hs⟩ := h
        subst hs
        exact Or.inl rfl

theorem planOKE_maybeSwitch {body : List Nat} (s s1 : St) (b : Bool) (h : s.maybeSwitch = .ok (b, s1))
    (hok : PlanOKE body s.plan) : PlanOKE body s1.plan := by
  rcases maybeSwitch_plan s s1 b h with he | ⟨e, he⟩
  · rw [he]; exact hok
  · rw [he] at hok; exact planOKE_tail hok

/-- after a planned switch the pending latch is consistent, and none is pending near the end -/
theorem switched_ok (s s3 : St) (hnm : s.newMode = none) (hok : PlanOKE s.input s.plan) (h : s.maybeSwitch = .ok (true, s3)) :
    Pending s3 ∧ (s3.charsLeft ≤ 4 → s3.newMode = none) ∧ PlanOKE s.input s3.plan := by
  obtain ⟨m1, m2, m3, m4, m5, m6⟩ := maybeSwitch_spec s s3 true h
  obtain ⟨t1, t2, t3, t4⟩ := m6 rfl
  have hat := maybeSwitch_at s s3 h
  have hpl := maybeSwitch_true s s3 h
  have hcl3 : s3.charsLeft = s.charsLeft := by simp [St.charsLeft, m1.1, m2]
  have hclpos : 0 < s.charsLeft := by
    have := of_decide_eq_true t2
    simp only [St.charsLeft]; omega
  rw [hnm] at t4
  refine ⟨?_, ?_, planOKE_maybeSwitch s s3 true h hok⟩
  · unfold Pending
    cases hl : s3.mode.latch with
    | none =>
      left
      rw [hl] at t4
      refine ⟨?_, t4⟩
      cases hm : s3.mode <;> simp [hm, EMode.latch] at hl
      rfl
    | some l =>
      right
      rw [hl] at t4
      refine ⟨l, rfl, t4, fun hm => ⟨?_, ?_⟩⟩
      · rw [hpl] at hok
        exact planOKE_head_edi hok hm
      · have := (planOKE_mem hok _ hat).2 hm
        rw [hcl3, m1.1]
        exact this
  · intro h4
    cases hl : s3.mode.latch with
    | none => rw [hl] at t4; exact t4
    | some l =>
      exfalso
      have hne : s3.mode ≠ .ascii := by
        intro hm; rw [hm] at hl; simp [EMode.latch] at hl
      rcases (planOKE_mem hok _ hat).1 hne with h0 | h0
      · simp only [] at h0; omega
      · simp only [] at h0; omega

theorem c40Loop_gen (text : Bool) (list : List Sym) (body : List Nat) (hb : ByteList body) (p0 : Nat) (c0 : List Nat) :
    ∀ (n f : Nat) (s : St) (buf : List Nat) (lastCh m : Nat) (s' : St), body.length - s.pos = n → n < f →
      Inv text list body p0 c0 s buf lastCh m → PlanOKE body s.plan →
      c40Loop text f s buf lastCh = .ok s' → End text list body p0 c0 s' := by
  intro n
  induction n with
  | zero =>
    intro f s buf lastCh m s' hn hf inv _ h
    cases f with
    | zero => omega
    | succ f =>
      unfold c40Loop at h
      have hmore : s.hasMore = false := by
        simp only [St.hasMore, inv.input]
        have := inv.le
        simp; omega
      have hnone : s.eat = none := by
        simp only [St.eat]
        rw [List.getElem?_eq_none (by rw [inv.input]; have := inv.le; omega)]
      rw [hnone] at h
      exact handleEnd_atEnd text list body hb p0 c0 s s' buf lastCh m inv hmore h
  | succ n ih =>
    intro f s buf lastCh m s' hn hf inv hplan h
    cases f with
    | zero => omega
    | succ f =>
      unfold c40Loop at h
      have hlt : s.pos < body.length := by omega
      have he : s.eat = some (body[s.pos], { s with pos := s.pos + 1 }) := by
        simp only [St.eat]
        rw [List.getElem?_eq_getElem (by rw [inv.input]; exact hlt)]
        simp [inv.input]
      rw [he] at h
      simp only [] at h
      have hchlt : body[s.pos] < 256 := hb _ (List.getElem_mem hlt)
      have normal : (match toVals text buf body[s.pos] with
          | .error e => .error e
          | .ok buf1 =>
            let (s2, buf2) := flushTriples 3 { s with pos := s.pos + 1 } buf1
            match s2.maybeSwitch with
            | .error e => .error e
            | .ok (true, s3) => c40HandleEnd s3 body[s.pos] buf2
            | .ok (false, s3) => c40Loop text f s3 buf2 body[s.pos]) = Except.ok s' → End text list body p0 c0 s' := by
        intro h
        rw [toVals_eq text buf body[s.pos] hchlt] at h
        by_cases hcap : (buf ++ c40Vals text body[s.pos]).length > 6
        · rw [if_pos hcap] at h
          cases h
        · rw [if_neg hcap] at h
          simp only [] at h
          have hWlt := Wb_lt text body hb p0 (s.pos + 1)
          have hWs : Wb text body p0 (s.pos + 1) = Wb text body p0 s.pos ++ c40Vals text body[s.pos] :=
            Wb_succ text body p0 s.pos inv.base hlt
          have hWsplit : Wb text body p0 s.pos = (Wb text body p0 s.pos).take (3 * m) ++ buf := by
            rw [inv.bufEq, List.take_append_drop]
          have hW' : Wb text body p0 (s.pos + 1) = (Wb text body p0 s.pos).take (3 * m) ++ (buf ++ c40Vals text body[s.pos]) := by
            rw [hWs]
            conv => lhs; rw [hWsplit]
            rw [List.append_assoc]
          have hVlen : ((Wb text body p0 s.pos).take (3 * m)).length = 3 * m := by
            rw [List.length_take]; have := inv.m3; omega
          have hb1lt : ∀ v ∈ buf ++ c40Vals text body[s.pos], v < 40 := by
            intro v hv
            exact hWlt v (by rw [hW']; exact List.mem_append_right _ hv)
          obtain ⟨k, k1, k2, k3⟩ := flush_spec 3 { s with pos := s.pos + 1 } (buf ++ c40Vals text body[s.pos])
            (by omega) hb1lt
          rw [k3] at h
          simp only [] at h
          have inv' : Inv text list body p0 c0
              { { s with pos := s.pos + 1 } with cw := s.cw ++ packTriples ((buf ++ c40Vals text body[s.pos]).take (3 * k)) }
              ((buf ++ c40Vals text body[s.pos]).drop (3 * k)) body[s.pos] (m + k) := by
            refine ⟨inv.input, inv.list, inv.mode, inv.newMode, by simp only []; have := inv.base; omega,
              by simp only []; omega, ?_, ?_, ?_, ?_, ?_⟩
            · simp only []
              rw [hW', List.length_append, hVlen]
              omega
            · simp only []
              rw [hW']
              have : 3 * (m + k) = ((Wb text body p0 s.pos).take (3 * m)).length + 3 * k := by rw [hVlen]; omega
              rw [this, drop_len_add]
            · rw [List.length_drop]; omega
            · simp only []
              rw [inv.cw, hW']
              have : 3 * (m + k) = ((Wb text body p0 s.pos).take (3 * m)).length + 3 * k := by rw [hVlen]; omega
              rw [this, take_len_add, packTriples_append m _ _ hVlen]
              simp [List.append_assoc]
            · intro _
              simp [List.getD, List.getElem?_eq_getElem hlt]
          generalize hs2 : ({ { s with pos := s.pos + 1 } with
              cw := s.cw ++ packTriples ((buf ++ c40Vals text body[s.pos]).take (3 * k)) } : St) = s2 at h inv'
          have hplan2 : PlanOKE body s2.plan := by rw [← hs2]; exact hplan
          cases hm : s2.maybeSwitch with
          | error e => rw [hm] at h; cases h
          | ok r =>
            obtain ⟨bsw, s3⟩ := r
            rw [hm] at h
            obtain ⟨m1, m2, m3, m4, m5, m6⟩ := maybeSwitch_spec s2 s3 bsw hm
            cases bsw with
            | true =>
              simp only [] at h
              obtain ⟨hP, hL, hPl3⟩ := switched_ok s2 s3 inv'.newMode (by rw [inv'.input]; exact hplan2) hm
              rw [inv'.input] at hPl3
              obtain ⟨_, t2, _, _⟩ := m6 rfl
              have hmore3 : s3.hasMore = true := by simpa [St.hasMore, m1.1, m2] using t2
              exact handleEnd_more text list body hb p0 c0 s2 s3 s' _ body[s.pos] (m + k) inv' m1.1 m2 m3 m1.2 hmore3
                (fun _ => hP) (fun h2 => hL (by omega)) hPl3 h
            | false =>
              simp only [] at h
              obtain ⟨f1, f2⟩ := m5 rfl
              have inv3 : Inv text list body p0 c0 s3 ((buf ++ c40Vals text body[s.pos]).drop (3 * k)) body[s.pos] (m + k) :=
                ⟨m1.1.trans inv'.input, m1.2.trans inv'.list, f1.trans inv'.mode, f2.trans inv'.newMode,
                  by rw [m2]; exact inv'.base, by rw [m2]; exact inv'.le, by rw [m2]; exact inv'.m3,
                  by rw [m2]; exact inv'.bufEq, inv'.short, by rw [m2, m3]; exact inv'.cw, by rw [m2]; exact inv'.last⟩
              exact ih f s3 _ _ (m + k) s' (by rw [m2, ← hs2]; simp only []; omega) (by omega) inv3
                (planOKE_maybeSwitch s2 s3 false hm hplan2) h
      have hrest1 : ({ s with pos := s.pos + 1 } : St).rest = body.drop (s.pos + 1) := by simp [St.rest, inv.input]
      split at h
      · rename_i d hr
        rw [hrest1] at hr
        by_cases hc : (buf.isEmpty && isDigit body[s.pos] && isDigit d) = true
        · -- empty buffer and only two digits remain
          rw [if_pos hc] at h
          simp only [Bool.and_eq_true] at hc
          obtain ⟨⟨hbe, hd1⟩, hd2⟩ := hc
          have hb0 : buf = [] := by simpa using hbe
          subst hb0
          have hbk : ({ s with pos := s.pos + 1 } : St).backup 1 = .ok s := by
            unfold St.backup
            rw [if_pos (by simp)]
            simp
          rw [hbk] at h
          simp only [] at h
          have hlen2 : body.length = s.pos + 2 := by
            have := congrArg List.length hr
            simp only [List.length_drop, List.length_singleton] at this
            omega
          have hcl : s.charsLeft = 2 := by simp [St.charsLeft, inv.input]; omega
          have hmore : s.hasMore = true := by simp [St.hasMore, inv.input, hlt]
          exact handleEnd_more text list body hb p0 c0 s s s' [] lastCh m inv rfl rfl rfl rfl hmore
            (fun hn2 => absurd ⟨hcl, by
              have : s.rest = [body[s.pos], d] := by
                simp only [St.rest, inv.input]
                rw [List.drop_eq_getElem_cons hlt, hr]
              rw [this]
              simp [twoDigitsComing, hd1, hd2]⟩ hn2) (fun _ => inv.newMode) hplan h
        · rw [if_neg hc] at h
          exact normal h
      · simp only [Bool.and_false, Bool.false_eq_true, ↓reduceIte] at h
        exact normal h

end DM.Lemmas.C40Gen
