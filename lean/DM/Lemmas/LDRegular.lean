import DM.Lemmas.LDCore
/-
The regular case of the Levinson–Durbin iteration preserves equations (3) and (4).
-/
namespace DM.Lemmas.LD
set_option linter.unusedSimpArgs false
set_option linter.unusedVariables false
open DM.Model DM.Model.RS DM.Lemmas DM.Lemmas.RSTotal

variable {A : String → Prop}

theorem getD_drop' (l : List Nat) (n j : Nat) : (l.drop n).getD j 0 = l.getD (n + j) 0 := by
  rw [List.getD_eq_getElem?_getD, List.getD_eq_getElem?_getD, List.getElem?_drop]

theorem getD_take' (l : List Nat) (n j : Nat) :
    (l.take n).getD j 0 = if j < n then l.getD j 0 else 0 := by
  rw [List.getD_eq_getElem?_getD, List.getD_eq_getElem?_getD, List.getElem?_take]
  split <;> rfl

theorem getD_of_ge (l : List Nat) (j : Nat) (h : l.length ≤ j) : l.getD j 0 = 0 := by
  rw [List.getD_eq_getElem?_getD, List.getElem?_eq_none h]; rfl

theorem getD_zipWith_append (f : Nat → Nat → Nat) (a b c : List Nat) (j : Nat) :
    (List.zipWith f a b ++ c).getD j 0 =
      if j < min a.length b.length then f (a.getD j 0) (b.getD j 0)
      else c.getD (j - min a.length b.length) 0 := by
  rw [List.getD_eq_getElem?_getD, List.getElem?_append, List.length_zipWith]
  split
  · rename_i h
    have h1 : j < a.length := by omega
    have h2 : j < b.length := by omega
    rw [List.getElem?_zipWith, List.getD_eq_getElem?_getD, List.getD_eq_getElem?_getD,
      List.getElem?_eq_getElem h1, List.getElem?_eq_getElem h2]
    rfl
  · rw [List.getD_eq_getElem?_getD]

theorem getD_append' (l₁ l₂ : List Nat) (j : Nat) :
    (l₁ ++ l₂).getD j 0 = if j < l₁.length then l₁.getD j 0 else l₂.getD (j - l₁.length) 0 := by
  rw [List.getD_eq_getElem?_getD, List.getD_eq_getElem?_getD, List.getD_eq_getElem?_getD,
    List.getElem?_append]
  split <;> rfl

theorem gadd_zero (a : Nat) : gadd a 0 = a := Nat.xor_zero a

/-- the model's `w3` -/
def regW (w y : List Nat) (v epsV bg : Nat) : List Nat :=
  let tmp := w ++ [1]
  let w1 := 0 :: w
  let w2 := (List.zipWith (fun wi yi => gadd wi (gmul epsV yi)) (w1.take v) y) ++ w1.drop (min v y.length)
  (List.zipWith (fun wi ti => gadd wi (gmul bg ti)) w2 tmp) ++ w2.drop tmp.length

/-- the model's `y2` -/
def regY (w y : List Nat) (epsInv : Nat) : List Nat :=
  let tmp := w ++ [1]
  ((List.zipWith (fun _ ti => gmul ti epsInv) y tmp) ++ y.drop tmp.length) ++ [epsInv]

theorem regW_length (w y : List Nat) (v epsV bg : Nat) (hw : w.length = v) (hy : y.length = v) :
    (regW w y v epsV bg).length = v + 1 := by
  unfold regW
  lens

theorem regY_length (w y : List Nat) (v epsInv : Nat) (hw : w.length = v) (hy : y.length = v) :
    (regY w y epsInv).length = v + 1 := by
  unfold regY
  lens

theorem regW_getD (w y : List Nat) (v epsV bg : Nat) (hw : w.length = v) (hy : y.length = v)
    (j : Nat) : (regW w y v epsV bg).getD j 0 =
      gadd (gadd ((0 :: w).getD j 0) (gmul epsV (y.getD j 0))) (gmul bg ((w ++ [1]).getD j 0)) := by
  have h2 : ∀ j, ((List.zipWith (fun wi yi => gadd wi (gmul epsV yi)) ((0 :: w).take v) y)
      ++ (0 :: w).drop (min v y.length)).getD j 0
      = gadd ((0 :: w).getD j 0) (gmul epsV (y.getD j 0)) := by
    intro j
    rw [getD_zipWith_append, getD_take', getD_drop']
    have : min ((0 :: w).take v).length y.length = v := by lens
    rw [this, hy, Nat.min_self]
    split
    · rfl
    · rw [getD_of_ge y j (by omega), gmul_zero_right, gadd_zero]
      congr 1; omega
  unfold regW
  simp only []
  rw [getD_zipWith_append, getD_drop', h2, h2]
  have : min ((List.zipWith (fun wi yi => gadd wi (gmul epsV yi)) ((0 :: w).take v) y)
      ++ (0 :: w).drop (min v y.length)).length (w ++ [1]).length = v + 1 := by lens
  rw [this]
  split
  · rfl
  · rw [getD_of_ge (0 :: w) _ (by lens), getD_of_ge y _ (by omega),
      getD_of_ge (0 :: w) j (by lens), getD_of_ge y j (by omega),
      getD_of_ge (w ++ [1]) j (by lens)]
    simp [gmul_zero_right]

theorem regY_getD (w y : List Nat) (v epsInv : Nat) (hw : w.length = v) (hy : y.length = v)
    (he : epsInv < 256) (j : Nat) :
    (regY w y epsInv).getD j 0 = gmul ((w ++ [1]).getD j 0) epsInv := by
  unfold regY
  simp only []
  rw [getD_append', getD_zipWith_append]
  have h1 : (List.zipWith (fun _ ti => gmul ti epsInv) y (w ++ [1]) ++ y.drop (w ++ [1]).length).length
      = v := by lens
  have h2 : min y.length (w ++ [1]).length = v := by lens
  rw [h1, h2]
  split
  · rfl
  · by_cases hj : j = v
    · subst hj
      have : (w ++ [1]).getD w.length 0 = 1 := by
        rw [List.getD_eq_getElem?_getD]; simp
      rw [Nat.sub_self, hw.symm, this, gmul_one_left he]
      rfl
    · rw [getD_of_ge (w ++ [1]) j (by lens), gmul_zero_left]
      exact getD_of_ge _ _ (by simp only [List.length_singleton]; omega)


/-! ### the algebra -/

theorem V_tmp (w : List Nat) (j : Nat) :
    V (w ++ [1]) j = if j < w.length then V w j else if j = w.length then 1 else 0 := by
  rw [V_append]
  split
  · rfl
  · split
    · rename_i h; rw [h, Nat.sub_self]; rfl
    · exact V_of_ge (by simp only [List.length_singleton]; omega)

theorem H_tmp (syn w : List Nat) (v a : Nat) (hw : w.length = v) :
    H syn a (v + 1) (V (w ++ [1])) = H syn a v (V w) + V syn (a + v) := by
  rw [H_succ, V_tmp, if_neg (by omega), if_pos hw.symm, mul_one]
  congr 1
  apply H_congr
  intro j hj
  rw [V_tmp, if_pos (by omega)]

/-- rows `i < v` of `H_{v+1} [w, 1]` vanish (equation (4)) -/
theorem P_rows (syn w : List Nat) (v : Nat) (hw : w.length = v) (h4 : Eq4 syn v w) (i : Nat)
    (hi : i < v) : H syn i (v + 1) (V (w ++ [1])) = 0 := by
  rw [H_tmp syn w v i hw, h4 i hi, Nat.add_comm i v]
  linear_combination V syn (v + i) * two_eq_zero

theorem regular_eq3 (syn w y' : List Nat) (v : Nat) (eps epsInv : GF) (hw : w.length = v)
    (h4 : Eq4 syn v w) (hY : ∀ j, V y' j = V (w ++ [1]) j * epsInv)
    (heps : eps = H syn v (v + 1) (V (w ++ [1]))) (hinv : eps * epsInv = 1) :
    Eq3 syn (v + 1) y' := by
  intro i hi
  rw [H_congr (fun j _ => hY j), H_smul_right, Nat.add_sub_cancel]
  by_cases h : i = v
  · subst h
    rw [if_pos rfl, ← heps, hinv]
  · rw [if_neg h, P_rows syn w v hw h4 i (by omega), zero_mul]

theorem regular_eq4 (syn w y w' : List Nat) (v : Nat) (eps beta gamma : GF) (hv : 1 ≤ v)
    (hw : w.length = v) (hy : y.length = v) (h3 : Eq3 syn v y) (h4 : Eq4 syn v w)
    (hW : ∀ j, V w' j = V (0 :: w) j + eps * V y j + (beta + gamma) * V (w ++ [1]) j)
    (heps : eps = H syn v (v + 1) (V (w ++ [1])))
    (hbeta : beta * eps = H syn (v + 1) (v + 1) (V (w ++ [1])))
    (hgamma : gamma = H syn v v (V y)) : Eq4 syn (v + 1) w' := by
  intro i hi
  have e1 : H syn i (v + 1) (V (0 :: w)) = H syn (i + 1) v (V w) := by
    rw [← H_shift_one]
    exact H_congr (fun j _ => V_cons 0 w j)
  have e2 : H syn i (v + 1) (V y) = H syn i v (V y) :=
    H_extend syn i v (v + 1) _ (by omega) (fun j hj => V_of_ge (by omega))
  have e0 : H syn i (v + 1) (V w') = H syn (i + 1) v (V w) + eps * H syn i v (V y)
      + (beta + gamma) * H syn i (v + 1) (V (w ++ [1])) := by
    rw [H_congr (fun j _ => hW j), H_add, H_add, H_smul, H_smul, e1, e2]
  rw [e0]
  rw [H_tmp syn w v v hw] at heps
  rw [H_tmp syn w v (v + 1) hw] at hbeta
  by_cases hlt : i < v
  · rw [P_rows syn w v hw h4 i hlt, h3 i hlt]
    by_cases hl : i = v - 1
    · rw [if_pos hl]
      have : i + 1 = v := by omega
      rw [this]
      rw [show v + 1 + i = v + v by omega]
      linear_combination (-1 : GF) * heps + (eps - V syn (v + v)) * two_eq_zero
    · rw [if_neg hl, h4 (i + 1) (by omega), show v + (i + 1) = v + 1 + i by omega]
      ring
  · have : i = v := by omega
    subst this
    rw [H_tmp syn w i i hw, ← heps, ← hgamma]
    linear_combination hbeta + (eps * gamma + H syn (i + 1) i (V w)) * two_eq_zero

end DM.Lemmas.LD
