import DM.Lemmas.SpecEdi
import DM.Lemmas.EdiGen
/-
The EDIFACT encoder under arbitrary plans, from an arbitrary position `p0` behind arbitrary
codewords `c0` (latch written): the closed form of what it appends and the four ways it returns —
the three ends of the data (`EdiGen.EEnd`) and the planned switch to another mode, where the group
under construction is closed with the UNLATCH value. With `SpecEdi.specSegE_unlatch` /
`steps_edi_short` this gives what the reference decoder reads there.
-/
namespace DM.Lemmas.SpecEdiGen
open DM.Model DM.Model.Enc DM.Lemmas DM.Lemmas.AsciiRT DM.Lemmas.Complete
open DM.Lemmas.EncRT DM.Lemmas.X12RT DM.Lemmas.EdiRT DM.Lemmas.EdiGen
open DM.Spec.Build (packEdifact)

/-- `write4` on a complete group, for arbitrary byte values (the encoder masks with `% 64`) -/
theorem write4_quad' (s : St) (x0 x1 x2 x3 : Nat) :
    (write4 s [x0, x1, x2, x3]).cw = s.cw ++ packEdifact ([x0, x1, x2, x3].map (· % 64)) := by
  simp only [write4, List.getD_cons_zero, List.getD_cons_succ, List.length_cons, List.length_nil, St.push, List.map_cons, List.map_nil, packEdifact, List.append_assoc,
    List.cons_append, List.nil_append]
  have e0 : (x0 * 4) % 256 = (x0 % 64) * 4 := by omega
  rw [e0, or4 _ _ (by omega), w2 (x1 % 64) (x2 % 64) (by omega) (by omega),
    w3 (x2 % 64) (x3 % 64) (by omega) (by omega)]
  have : (x0 % 64 * 4 + x1 % 64 / 16) % 256 = x0 % 64 * 4 + x1 % 64 / 16 := by omega
  simp [this]

theorem write4_last' (s : St) (br : List Nat) (hr : br.length ≤ 3) :
    (write4 s (br ++ [31])).cw = s.cw ++ ediLast br := by
  have e0 : ∀ x0 s1, s1 < 64 → (x0 * 4) % 256 ||| (s1 / 16) = (x0 % 64 * 4 + s1 / 16) % 256 := by
    intro x0 s1 h1
    have : (x0 * 4) % 256 = (x0 % 64) * 4 := by omega
    rw [this, or4 _ _ (by omega)]
    omega
  match br, hr with
  | [], _ =>
    simp only [write4, List.nil_append, List.getD_cons_zero, List.length_cons, List.length_nil, St.push, ediLast]
    simp
  | [x1], _ =>
    simp only [write4, List.cons_append, List.nil_append, List.getD_cons_zero, List.getD_cons_succ,
      List.length_cons, List.length_nil, St.push, ediLast,
      List.append_assoc]
    rw [e0 x1 (31 % 64) (by omega)]
    simp
  | [x1, x2], _ =>
    simp only [write4, List.cons_append, List.nil_append, List.getD_cons_zero, List.getD_cons_succ,
      List.length_cons, List.length_nil, St.push, ediLast,
      List.append_assoc]
    rw [e0 x1 (x2 % 64) (by omega), w2 (x2 % 64) (31 % 64) (by omega) (by omega)]
    simp
  | [x1, x2, x3], _ =>
    simp only [write4, List.cons_append, List.nil_append, List.getD_cons_zero, List.getD_cons_succ,
      List.length_cons, List.length_nil, St.push, ediLast,
      List.append_assoc]
    rw [e0 x1 (x2 % 64) (by omega), w2 (x2 % 64) (x3 % 64) (by omega) (by omega),
      w3 (x3 % 64) (31 % 64) (by omega) (by omega)]
    simp
  | _ :: _ :: _ :: _ :: _, h => simp at h

/-- the loop invariant, without any assumption on the plan (`plan0` = the plan at the start) -/
structure GInv (list : List Sym) (body : List Nat) (p0 : Nat) (c0 : List Nat) (plan0 : List (Nat × EMode))
    (s : St) (sym : List Nat) (q : Nat) : Prop where
  input : s.input = body
  list : s.list = list
  mode : s.mode = .edifact
  plan : ∀ e ∈ s.plan, e ∈ plan0
  newMode : s.newMode = none
  pos : s.pos = p0 + 4 * q + sym.length
  le : s.pos ≤ body.length
  symEq : sym = (restE body p0 q).take sym.length
  short : sym.length ≤ 3
  cw : s.cw = cwE body p0 c0 q

/-- the four ways `edifact::encode` returns under an arbitrary plan -/
inductive GEnd (list : List Sym) (body : List Nat) (p0 : Nat) (c0 : List Nat) (plan0 : List (Nat × EMode))
    (s' : St) : Prop where
  /-- the rest of the message (at most four characters, at most two codewords) goes to the ASCII end
  game; the plan is abandoned -/
  | ascii (q : Nat) (hq : p0 + 4 * q ≤ body.length)
      (ok : AsciiEndOK list (cwE body p0 c0 q).length (restE body p0 q))
      (eq : s' = stAscii list body (p0 + 4 * q) (cwE body p0 c0 q))
  /-- the same at a planned switch to the mode `m`: the plan is abandoned, but `new_mode` keeps the
  latch codeword of `m` (`set_ascii_until_end` does not clear it): unless `m` is ASCII the main loop
  then writes that latch in front of the ASCII rest, and the stream is not read back
  (body "ABCDA", plan E·5 / C40·1: `[240, 4, 32, 196, 230, 66, 129, 56]`, read as "ABCD9$JA7") -/
  | asciiSwitch (q : Nat) (m : EMode) (hq : p0 + 4 * q < body.length)
      (ok : AsciiEndOK list (cwE body p0 c0 q).length (restE body p0 q)) (hm : m ≠ .edifact)
      (planned : ∃ p, (p, m) ∈ plan0)
      (eq : s' = { stAscii list body (p0 + 4 * q) (cwE body p0 c0 q) with newMode := m.latch })
  /-- end of the data: the last group carries the UNLATCH value -/
  | unlatch (q : Nat) (hq : p0 + 4 * q ≤ body.length) (hr : (restE body p0 q).length ≤ 3)
      (nok : ¬ AsciiEndOK list (cwE body p0 c0 q).length (restE body p0 q))
      (room : ∃ S, firstBigEnough list ((cwE body p0 c0 q).length + (restE body p0 q).length) = some S ∧
        ((restE body p0 q).length = 0 → dataCw S - (cwE body p0 c0 q).length > 2) ∧
        ((restE body p0 q).length ≠ 0 → (restE body p0 q).length = 3 ∨
          dataCw S - ((cwE body p0 c0 q).length + (restE body p0 q).length) > 0))
      (eq : s' = stAscii list body body.length (cwE body p0 c0 q ++ ediLast (restE body p0 q)))
  /-- end of the data: complete groups fill the symbol exactly -/
  | exact (q : Nat) (hq : p0 + 4 * q = body.length)
      (fit : ∃ S, firstBigEnough list (cwE body p0 c0 q).length = some S ∧ dataCw S = (cwE body p0 c0 q).length)
      (cw : s'.cw = cwE body p0 c0 q) (pos : s'.pos = body.length) (inp : s'.input = body) (lst : s'.list = list)
  /-- planned switch to another mode after `4 q + r` characters: the group under construction is
  closed with the UNLATCH value (codeword 124 alone when `r = 0`) -/
  | switch (q r : Nat) (hr : r ≤ 3) (pos : s'.pos = p0 + 4 * q + r) (more : s'.pos < body.length)
      (nok : ¬ AsciiEndOK list (cwE body p0 c0 q).length (restE body p0 q))
      (cw : s'.cw = cwE body p0 c0 q ++ ediLast ((restE body p0 q).take r))
      (inp : s'.input = body) (lst : s'.list = list) (mode : s'.mode ≠ .edifact)
      (planned : ∃ p, (p, s'.mode) ∈ plan0) (plan : ∀ e ∈ s'.plan, e ∈ plan0)
      (newMode : s'.newMode = s'.mode.latch)

theorem gInv_end {list : List Sym} {body : List Nat} {p0 : Nat} {c0 : List Nat} {plan0 : List (Nat × EMode)} {s : St}
    {sym : List Nat} {q : Nat}
    (inv : GInv list body p0 c0 plan0 s sym q) (hend : s.hasMore = false) :
    sym = restE body p0 q ∧ s.rest = [] ∧ s.pos = body.length ∧ p0 + 4 * q ≤ body.length := by
  have h1 := of_decide_eq_false hend
  rw [inv.input] at h1
  have hpl : s.pos = body.length := by have := inv.le; omega
  have hdl : (restE body p0 q).length = sym.length := by
    rw [restE_length]; have := inv.pos; omega
  refine ⟨?_, ?_, hpl, by have := inv.pos; omega⟩
  · have := inv.symEq
    rw [← hdl, List.take_length] at this
    exact this
  · unfold St.rest
    rw [inv.input]
    exact List.drop_eq_nil_of_le (by omega)

/-- `handle_end` at the end of the data -/
theorem handleEnd_last {list : List Sym} {body : List Nat} {p0 : Nat} {c0 : List Nat} {plan0 : List (Nat × EMode)}
    {s s' : St} {sym : List Nat} {q : Nat}
    (inv : GInv list body p0 c0 plan0 s sym q) (hend : s.hasMore = false)
    (hc : s'.pos = body.length → EdiChars (bE body p0))
    (h : edifactHandleEnd s sym = .ok s') : GEnd list body p0 c0 plan0 s' := by
  obtain ⟨hsym, hrest, hpos, hq⟩ := gInv_end inv hend
  unfold edifactHandleEnd at h
  cases ht : edifactTryAsciiEnd s sym with
  | error e => rw [ht] at h; cases h
  | ok r =>
    rw [ht] at h
    have hsp : sym.length ≤ s.pos := by have := inv.pos; omega
    rcases tryAscii_spec s sym hsp r ht with ⟨hok, hr⟩ | ⟨hnok, hr⟩
    · subst hr
      simp only [Except.ok.injEq] at h
      subst h
      rw [hrest, List.append_nil, inv.list, inv.cw, hsym] at hok
      refine .ascii q hq hok ?_
      simp only [St.setAscii, stAscii, inv.input, inv.list, inv.newMode, inv.cw]
      congr 1
      have := inv.pos; omega
    · subst hr
      simp only [] at h
      rw [hrest, List.append_nil, inv.list, inv.cw, hsym] at hnok
      have hdl : (restE body p0 q).length = sym.length := by rw [hsym]
      by_cases hemp : sym.isEmpty = true
      · rw [if_pos hemp] at h
        simp only [hend, Bool.not_false, ↓reduceIte] at h
        have hs0 : sym = [] := by simpa using hemp
        unfold St.sizeLeftE St.sizeLeft at h
        rw [inv.list, inv.cw] at h
        cases hf : firstBigEnough list (cwE body p0 c0 q).length with
        | none => simp only [Nat.add_zero, hf] at h; cases h
        | some S =>
          simp only [Nat.add_zero, hf] at h
          by_cases hgt : dataCw S - (cwE body p0 c0 q).length > 0
          · rw [if_pos hgt] at h
            by_cases h2 : dataCw S - (cwE body p0 c0 q).length ≤ 2
            · rw [if_pos h2] at h; cases h
            · rw [if_neg h2] at h
              simp only [Except.ok.injEq] at h
              subst h
              refine .unlatch q hq (by rw [hdl, hs0]; simp) hnok ⟨S, by rw [hdl, hs0]; simpa using hf, ?_, ?_⟩ ?_
              · intro _; omega
              · intro hne; rw [hdl, hs0] at hne; simp at hne
              · rw [← hsym, hs0]
                simp only [St.push, St.setAscii, stAscii, inv.input, inv.list, inv.newMode, inv.cw, ediLast, hpos]
          · rw [if_neg hgt] at h
            simp only [Except.ok.injEq] at h
            subst h
            have hge := firstBigEnough_le _ _ _ hf
            refine .exact q ?_ ⟨S, hf, by omega⟩ inv.cw hpos inv.input inv.list
            have := inv.pos
            rw [hs0] at this
            simp at this
            omega
      · rw [if_neg hemp] at h
        rw [if_neg (by have := inv.short; omega)] at h
        simp only [hend, Bool.not_false, ↓reduceIte] at h
        have hne : sym ≠ [] := by simpa using hemp
        have hlpos : 0 < sym.length := List.length_pos_iff.mpr hne
        unfold St.sizeLeftE St.sizeLeft at h
        rw [inv.list, inv.cw] at h
        cases hf : firstBigEnough list ((cwE body p0 c0 q).length + sym.length) with
        | none => simp only [hf] at h; cases h
        | some S =>
          simp only [hf] at h
          by_cases hcond : dataCw S - ((cwE body p0 c0 q).length + sym.length) > 0 ∨ sym.length = 3
          · rw [if_pos hcond] at h
            simp only [Except.ok.injEq] at h
            subst h
            refine .unlatch q hq (by rw [hdl]; exact inv.short) hnok ⟨S, by rw [hdl]; exact hf, ?_, ?_⟩ ?_
            · intro h0; rw [hdl] at h0; omega
            · intro _; rw [hdl]; rcases hcond with h1 | h1
              · exact Or.inr h1
              · exact Or.inl h1
            · have hw := write4_last' s.setAscii sym inv.short
              obtain ⟨w1, w2, w3, w4, w5, w6⟩ := write4_same s.setAscii (sym ++ [31])
              rw [← hsym]
              apply St_ext
              · rw [w2]; simp [St.setAscii, stAscii, inv.input]
              · rw [w1]; simp [St.setAscii, stAscii, hpos]
              · rw [w5]; simp [St.setAscii, stAscii]
              · rw [w4]; simp [St.setAscii, stAscii]
              · rw [w6]; simp [St.setAscii, stAscii, inv.newMode]
              · rw [hw]; simp [St.setAscii, stAscii, inv.cw]
              · rw [w3]; simp [St.setAscii, stAscii, inv.list]
          · -- `write4` without UNLATCH would need `try_ascii_end` to have failed: impossible
            rw [if_neg hcond] at h
            simp only [Except.ok.injEq] at h
            have hp' : s'.pos = body.length := by rw [← h, (write4_same s sym).1]; exact hpos
            have hcs : EdiChars sym := fun x hx => hc hp' x (by rw [hsym] at hx; exact List.mem_of_mem_drop hx)
            exfalso
            apply hnok
            have hlen12 : sym.length ≤ 2 := by have := inv.short; omega
            have hcap : dataCw S = (cwE body p0 c0 q).length + sym.length := by
              have := firstBigEnough_le _ _ _ hf; omega
            have hasz : asciiSize sym ≤ sym.length := by
              match sym, hlen12 with
              | [], _ => simp [asciiSize]
              | [a], _ =>
                have := (hcs a (by simp)).2
                simp only [asciiSize, List.length_singleton]
                split <;> omega
              | [a, b], _ =>
                have ha := (hcs a (by simp)).2
                have hb := (hcs b (by simp)).2
                simp only [asciiSize, List.length_cons, List.length_nil]
                split
                · omega
                · split <;> split <;> omega
              | _ :: _ :: _ :: _, h => simp at h
            obtain ⟨S', hS', hle⟩ := fbe_weaker list _ ((cwE body p0 c0 q).length + asciiSize sym) S hf (by omega)
            rw [← hsym]
            exact ⟨by omega, by omega, S', hS', by omega⟩


/-- `handle_end` at a planned switch to another mode (`s3` = the state `maybe_switch_mode` returned) -/
theorem handleEnd_switch {list : List Sym} {body : List Nat} {p0 : Nat} {c0 : List Nat} {plan0 : List (Nat × EMode)}
    {s3 s' : St} {sym : List Nat} {q : Nat}
    (hin : s3.input = body) (hli : s3.list = list) (hmode : s3.mode ≠ .edifact) (hplanned : ∃ p, (p, s3.mode) ∈ plan0)
    (hplan : ∀ e ∈ s3.plan, e ∈ plan0) (hnm : s3.newMode = s3.mode.latch)
    (hpos : s3.pos = p0 + 4 * q + sym.length) (hlt : s3.pos < body.length)
    (hsymEq : sym = (restE body p0 q).take sym.length) (hshort : sym.length ≤ 3) (hcw : s3.cw = cwE body p0 c0 q)
    (h : edifactHandleEnd s3 sym = .ok s') : GEnd list body p0 c0 plan0 s' := by
  have hmore : s3.hasMore = true := by simp [St.hasMore, hin, hlt]
  have hrestEq : sym ++ s3.rest = restE body p0 q := by
    have e1 : s3.rest = (restE body p0 q).drop sym.length := by
      simp [St.rest, hin, hpos, restE_eq, List.drop_drop]
    rw [e1]
    conv => lhs; lhs; rw [hsymEq]
    exact List.take_append_drop _ _
  unfold edifactHandleEnd at h
  cases ht : edifactTryAsciiEnd s3 sym with
  | error e => rw [ht] at h; cases h
  | ok r =>
    rw [ht] at h
    have hsp : sym.length ≤ s3.pos := by omega
    rcases tryAscii_spec s3 sym hsp r ht with ⟨hok, hr⟩ | ⟨hnok, hr⟩
    · subst hr
      simp only [Except.ok.injEq] at h
      subst h
      rw [hrestEq, hli, hcw] at hok
      refine .asciiSwitch q s3.mode (by omega) hok hmode hplanned ?_
      simp [St.setAscii, stAscii, hin, hli, hcw, hpos, hnm]
    · subst hr
      simp only [] at h
      rw [hrestEq, hli, hcw] at hnok
      by_cases hemp : sym.isEmpty = true
      · rw [if_pos hemp] at h
        simp only [hmore, Bool.not_true, Bool.false_eq_true, ↓reduceIte, Except.ok.injEq] at h
        have hs0 : sym = [] := by simpa using hemp
        subst h
        refine .switch q 0 (by omega) (by simp [St.push, hpos, hs0]) (by simpa [St.push] using hlt) hnok ?_ hin hli hmode
          hplanned hplan hnm
        simp [St.push, hcw, ediLast]
      · rw [if_neg hemp] at h
        rw [if_neg (by omega)] at h
        simp only [hmore, Bool.not_true, Bool.false_eq_true, ↓reduceIte, Except.ok.injEq] at h
        subst h
        obtain ⟨w1, w2, w3, w4, w5, w6⟩ := write4_same s3 (sym ++ [31])
        refine .switch q sym.length hshort (by rw [w1]; exact hpos) (by rw [w1]; exact hlt) hnok ?_ (by rw [w2]; exact hin)
          (by rw [w3]; exact hli) (by rw [w5]; exact hmode) (by rw [w5]; exact hplanned) (by rw [w4]; exact hplan)
          (by rw [w6, w5]; exact hnm)
        rw [write4_last' s3 sym hshort, hcw, ← hsymEq]


/-- **The EDIFACT encoder loop under an arbitrary plan.** `hc` (the characters are EDIFACT
characters) is only needed when the loop runs to the end of the data. -/
theorem ediLoop_specGen (list : List Sym) (body : List Nat) (p0 : Nat) (c0 : List Nat) (plan0 : List (Nat × EMode)) :
    ∀ (n f : Nat) (s : St) (sym : List Nat) (q : Nat) (s' : St), body.length - s.pos = n → n < f →
      GInv list body p0 c0 plan0 s sym q → edifactLoop f s sym = .ok s' →
      (s'.pos = body.length → EdiChars (bE body p0)) → GEnd list body p0 c0 plan0 s' := by
  intro n
  induction n with
  | zero =>
    intro f s sym q s' hn hf inv h hc
    cases f with
    | zero => omega
    | succ f =>
      unfold edifactLoop at h
      have hmore : s.hasMore = false := by
        simp only [St.hasMore, inv.input]
        have := inv.le
        simp; omega
      simp only [hmore, Bool.false_eq_true, and_false, ↓reduceIte] at h
      have hnone : s.eat = none := by
        simp only [St.eat]
        rw [List.getElem?_eq_none (by rw [inv.input]; have := inv.le; omega)]
      rw [hnone] at h
      exact handleEnd_last inv hmore hc h
  | succ n ih =>
    intro f s sym q s' hn hf inv h hc
    cases f with
    | zero => omega
    | succ f =>
      unfold edifactLoop at h
      have hlt : s.pos < body.length := by omega
      have hmore : s.hasMore = true := by simp [St.hasMore, inv.input, hlt]
      have hcont : (match s.eat with
            | none => edifactHandleEnd s sym
            | some (ch, s1) =>
              let sym1 := sym ++ [ch]
              let (s2, sym2) := if sym1.length = 4 then (write4 s1 sym1, []) else (s1, sym1)
              match s2.maybeSwitch with
              | .error e => .error e
              | .ok (true, s3) => edifactHandleEnd s3 sym2
              | .ok (false, s3) => edifactLoop f s3 sym2) = .ok s' → GEnd list body p0 c0 plan0 s' := by
        intro h
        have he : s.eat = some (body[s.pos], { s with pos := s.pos + 1 }) := by
          simp only [St.eat]
          rw [List.getElem?_eq_getElem (by rw [inv.input]; exact hlt)]
          simp [inv.input]
        rw [he] at h
        simp only [] at h
        have hblen : 4 * q + sym.length < (bE body p0).length := by
          simp only [bE, List.length_drop]; have := inv.pos; omega
        have hget : (bE body p0)[4 * q + sym.length] = body[s.pos] := by
          simp only [bE, List.getElem_drop]
          congr 1
          have := inv.pos; omega
        have hsym1 : sym ++ [body[s.pos]] = (restE body p0 q).take (sym.length + 1) := by
          have := take_succ_drop (bE body p0) (4 * q) sym.length hblen
          unfold restE
          rw [this, ← hget]
          congr 1
          exact inv.symEq
        have hstep : ∀ (s2 : St) (sym2 : List Nat) (q2 : Nat), GInv list body p0 c0 plan0 s2 sym2 q2 → s2.pos = s.pos + 1 →
            (match s2.maybeSwitch with
              | .error e => .error e
              | .ok (true, s3) => edifactHandleEnd s3 sym2
              | .ok (false, s3) => edifactLoop f s3 sym2) = Except.ok s' → GEnd list body p0 c0 plan0 s' := by
          intro s2 sym2 q2 inv2 hp2 h
          cases hm : s2.maybeSwitch with
          | error e => rw [hm] at h; cases h
          | ok r =>
            obtain ⟨b, s3⟩ := r
            rw [hm] at h
            obtain ⟨m1, m2, m3, m4, m5, m6⟩ := maybeSwitch_spec s2 s3 b hm
            cases b with
            | false =>
              obtain ⟨f1, f2⟩ := m5 rfl
              simp only [] at h
              have inv3 : GInv list body p0 c0 plan0 s3 sym2 q2 :=
                ⟨m1.1.trans inv2.input, m1.2.trans inv2.list, f1.trans inv2.mode, fun e he => inv2.plan e (m4 e he),
                  f2.trans inv2.newMode, by rw [m2]; exact inv2.pos, by rw [m2]; exact inv2.le, inv2.symEq, inv2.short,
                  by rw [m3]; exact inv2.cw⟩
              exact ih f s3 sym2 q2 s' (by rw [m2, hp2]; omega) (by omega) inv3 h hc
            | true =>
              obtain ⟨t1, t2, ⟨p, t3⟩, t4⟩ := m6 rfl
              simp only [] at h
              have hlt3 : s3.pos < body.length := by
                rw [m2]
                have := of_decide_eq_true t2
                rw [inv2.input] at this
                exact this
              exact handleEnd_switch (m1.1.trans inv2.input) (m1.2.trans inv2.list) (by rw [inv2.mode] at t1; exact t1)
                ⟨p, inv2.plan _ t3⟩ (fun e he => inv2.plan e (m4 e he))
                (by rw [t4, inv2.newMode]; cases s3.mode.latch <;> rfl)
                (by rw [m2]; exact inv2.pos) hlt3 inv2.symEq inv2.short (by rw [m3]; exact inv2.cw) h
        by_cases h4 : (sym ++ [body[s.pos]]).length = 4
        · rw [if_pos h4] at h
          simp only [] at h
          have hl3 : sym.length = 3 := by simpa using h4
          rw [hl3] at hsym1
          have hquad : ∃ x0 x1 x2 x3, sym ++ [body[s.pos]] = [x0, x1, x2, x3] := by
            match hs : sym ++ [body[s.pos]], h4 with
            | [x0, x1, x2, x3], _ => exact ⟨x0, x1, x2, x3, rfl⟩
          obtain ⟨x0, x1, x2, x3, hq4⟩ := hquad
          obtain ⟨w1, w2, w3, w4, w5, w6⟩ := write4_same { s with pos := s.pos + 1 } (sym ++ [body[s.pos]])
          have hcw : (write4 { s with pos := s.pos + 1 } (sym ++ [body[s.pos]])).cw = cwE body p0 c0 (q + 1) := by
            rw [hq4, write4_quad' _ x0 x1 x2 x3, ← hq4, hsym1]
            simp only []
            rw [inv.cw, cwE_succ body p0 c0 q (by have := inv.pos; omega)]
          have inv' : GInv list body p0 c0 plan0 (write4 { s with pos := s.pos + 1 } (sym ++ [body[s.pos]])) [] (q + 1) :=
            ⟨by rw [w2]; exact inv.input, by rw [w3]; exact inv.list, by rw [w5]; exact inv.mode, by rw [w4]; exact inv.plan,
              by rw [w6]; exact inv.newMode, by rw [w1]; simp only []; have := inv.pos; simp; omega,
              by rw [w1]; simp only []; omega, by simp, by simp, hcw⟩
          exact hstep _ [] (q + 1) inv' (by rw [w1]) h
        · rw [if_neg h4] at h
          simp only [] at h
          have hl : sym.length + 1 ≤ 3 := by have := inv.short; simp at h4; omega
          have inv' : GInv list body p0 c0 plan0 { s with pos := s.pos + 1 } (sym ++ [body[s.pos]]) q :=
            ⟨inv.input, inv.list, inv.mode, inv.plan, inv.newMode, by simp; have := inv.pos; omega,
              by simp only []; omega, by simp only [List.length_append, List.length_singleton]; exact hsym1,
              by simpa using hl, inv.cw⟩
          exact hstep _ _ q inv' rfl h
      by_cases hearly : sym.isEmpty = true ∧ s.hasMore = true
      · rw [if_pos hearly] at h
        cases ht : edifactTryAsciiEnd s sym with
        | error e => rw [ht] at h; cases h
        | ok r =>
          rw [ht] at h
          have hs0 : sym = [] := by simpa using hearly.1
          rcases tryAscii_spec s sym (by rw [hs0]; simp) r ht with ⟨hok, hr⟩ | ⟨_, hr⟩
          · subst hr
            simp only [Except.ok.injEq] at h
            subst h
            have hp4 : s.pos = p0 + 4 * q := by have := inv.pos; rw [hs0] at this; simpa using this
            have hrest : s.rest = restE body p0 q := by simp [St.rest, inv.input, hp4, restE_eq]
            rw [hs0, List.nil_append, hrest, inv.list, inv.cw] at hok
            refine .ascii q (by omega) hok ?_
            simp [St.setAscii, stAscii, inv.input, inv.list, inv.newMode, inv.cw, hs0, hp4]
          · subst hr
            simp only [] at h
            exact hcont h
      · rw [if_neg hearly] at h
        simp only [] at h
        exact hcont h

/-- `edifact::encode` on the state the main loop hands over (latch written), any plan -/
theorem edifactEncode_specGen (list : List Sym) (body : List Nat) (p0 : Nat) (c0 : List Nat) (sL s' : St)
    (hin : sL.input = body) (hli : sL.list = list) (hpos : sL.pos = p0) (hle : p0 ≤ body.length)
    (hmode : sL.mode = .edifact) (hnm : sL.newMode = none) (hcw : sL.cw = c0 ++ [240])
    (h : edifactEncode sL = .ok s') (hc : s'.pos = body.length → EdiChars (body.drop p0)) :
    GEnd list body p0 c0 sL.plan s' := by
  unfold edifactEncode at h
  have inv0 : GInv list body p0 c0 sL.plan sL [] 0 :=
    ⟨hin, hli, hmode, fun e he => he, hnm, by simp [hpos], by rw [hpos]; exact hle, by simp, by simp,
      by simp [cwE, ediC, packEdifact, hcw]⟩
  exact ediLoop_specGen list body p0 c0 sL.plan (body.length - sL.pos) _ sL [] 0 s' rfl
    (by simp [St.charsLeft, hin]) inv0 h hc


/-! ### what the reference decoder reads there -/

open DM.Lemmas.SpecEdi in
theorem cwE_seg (body : List Nat) (p0 : Nat) (c0 : List Nat) (q r : Nat) (hr : r ≤ 3)
    (hn : 4 * q + r ≤ (bE body p0).length) :
    cwE body p0 c0 q ++ ediLast ((restE body p0 q).take r) = c0 ++ ediSegCw ((bE body p0).take (4 * q + r)) := by
  have hl : ((bE body p0).take (4 * q + r)).length = 4 * q + r := by rw [List.length_take]; omega
  have hq : (4 * q + r) / 4 = q := by omega
  unfold cwE ediSegCw
  rw [hl, hq, List.append_assoc]
  congr 2
  · unfold ediC
    rw [List.take_take, Nat.min_eq_left (by omega)]
  · unfold restE
    rw [List.drop_take]
    congr 2
    omega

theorem cwE_groups (body : List Nat) (p0 : Nat) (c0 : List Nat) (q : Nat) :
    cwE body p0 c0 q = c0 ++ ediC ((bE body p0).take (4 * q)) q := by
  unfold cwE ediC
  rw [List.take_take, Nat.min_self]

open DM.Lemmas.SpecEdi in
/-- **Encoder exit and reference decoder, any plan.** `chunk` = the characters the EDIFACT encoder
consumed (from `p0` to the position it returns). Either it appended `ediSegCw chunk` — latch,
groups, UNLATCH — which the reference decoder reads as `chunk` wherever it stands (`SpecSegE`,
given the codewords the last group still needs), or `chunk` is a whole number of groups and it
appended the latch and the groups only (`ediC`): the ASCII end game and the exact fit, where the
decoder returns to ASCII by the rule "at most two codewords left" (`steps_edi_short`). -/
theorem gEnd_seg {list : List Sym} {body : List Nat} {p0 : Nat} {c0 : List Nat} {plan0 : List (Nat × EMode)} {s' : St}
    (h : GEnd list body p0 c0 plan0 s') (hc : EdiChars ((bE body p0).take (s'.pos - p0))) :
    p0 ≤ s'.pos ∧ s'.pos ≤ body.length ∧ s'.input = body ∧ s'.list = list ∧
    ((s'.cw = c0 ++ ediSegCw ((bE body p0).take (s'.pos - p0)) ∧
        SpecSegE (ediSegCw ((bE body p0).take (s'.pos - p0))) ((bE body p0).take (s'.pos - p0))
          (ediNeed ((bE body p0).take (s'.pos - p0)))) ∨
     (∃ q, ((bE body p0).take (s'.pos - p0)).length = 4 * q ∧
        s'.cw = c0 ++ ediC ((bE body p0).take (s'.pos - p0)) q)) := by
  have hbl : (bE body p0).length = body.length - p0 := by simp [bE]
  cases h with
  | ascii q hq ok eq =>
    subst eq
    simp only [stAscii] at hc ⊢
    have e : p0 + 4 * q - p0 = 4 * q := by omega
    rw [e] at hc ⊢
    refine ⟨by omega, hq, trivial, trivial, Or.inr ⟨q, by rw [List.length_take]; omega, cwE_groups body p0 c0 q⟩⟩
  | asciiSwitch q m hq ok hm planned eq =>
    subst eq
    simp only [stAscii] at hc ⊢
    have e : p0 + 4 * q - p0 = 4 * q := by omega
    rw [e] at hc ⊢
    refine ⟨by omega, by omega, trivial, trivial, Or.inr ⟨q, by rw [List.length_take]; omega, cwE_groups body p0 c0 q⟩⟩
  | unlatch q hq hr nok room eq =>
    subst eq
    simp only [stAscii] at hc ⊢
    rw [restE_length] at hr
    have e : body.length - p0 = 4 * q + (body.length - (p0 + 4 * q)) := by omega
    have hcw := cwE_seg body p0 c0 q (body.length - (p0 + 4 * q)) hr (by omega)
    have ht : (restE body p0 q).take (body.length - (p0 + 4 * q)) = restE body p0 q := by
      rw [← restE_length, List.take_length]
    rw [ht, ← e] at hcw
    exact ⟨by omega, Nat.le_refl _, trivial, trivial, Or.inl ⟨hcw, specSegE_unlatch _ hc⟩⟩
  | exact q hq fit cw pos inp lst =>
    rw [pos] at hc ⊢
    have e : body.length - p0 = 4 * q := by omega
    rw [e] at hc ⊢
    refine ⟨by omega, Nat.le_refl _, inp, lst, Or.inr ⟨q, by rw [List.length_take]; omega, ?_⟩⟩
    rw [cw, cwE_groups]
  | switch q r hr pos more nok cw inp lst mode planned plan newMode =>
    rw [pos] at hc ⊢
    have e : p0 + 4 * q + r - p0 = 4 * q + r := by omega
    rw [e] at hc ⊢
    have hcw := cwE_seg body p0 c0 q r hr (by omega)
    refine ⟨by omega, by omega, inp, lst, Or.inl ⟨by rw [cw, hcw], specSegE_unlatch _ hc⟩⟩


/-- Non-vacuity: "ABCD" in EDIFACT, then "ABC" in C40 (switch with an empty group: codeword 124
alone); "ABCDAB" in EDIFACT then "abc" in Text (UNLATCH in the third slot). The reference decoder
reads both streams back. -/
example : DM.Lemmas.SpecEdi.ediSegCw [65, 66, 67, 68] = [240, 4, 32, 196, 124] := by decide
example : DM.Lemmas.SpecEdi.ediSegCw [65, 66, 67, 68, 65, 66] = [240, 4, 32, 196, 4, 39, 192] := by decide
example : (match Enc.run (symbolList (List.range 30)) [] [65, 66, 67, 68, 65, 66, 67] [(7, .edifact), (3, .c40), (0, .c40)] with
    | .ok (cw, _) => cw == [240, 4, 32, 196, 124, 230, 89, 233] &&
        (DM.Spec.Stream.decode cw).toOption.map (fun d => d.body) == some [65, 66, 67, 68, 65, 66, 67]
    | .error _ => false) = true := by decide +kernel
example : (match Enc.run (symbolList (List.range 30)) [] [65, 66, 67, 68, 65, 66, 97, 98, 99]
      [(9, .edifact), (3, .text), (0, .text)] with
    | .ok (cw, _) => cw == [240, 4, 32, 196, 4, 39, 192, 239, 89, 233] &&
        (DM.Spec.Stream.decode cw).toOption.map (fun d => d.body) == some [65, 66, 67, 68, 65, 66, 97, 98, 99]
    | .error _ => false) = true := by decide +kernel

/-- The `asciiSwitch` exit with a non-ASCII target is a defect of the encoder under such plans (the
stale latch 230 is written in front of the ASCII rest): the reference decoder reads something else. -/
example : (match Enc.run (symbolList (List.range 30)) [] [65, 66, 67, 68, 65] [(5, .edifact), (1, .c40), (0, .c40)] with
    | .ok (cw, _) => cw == [240, 4, 32, 196, 230, 66, 129, 56] &&
        (DM.Spec.Stream.decode cw).toOption.map (fun d => d.body) == some [65, 66, 67, 68, 57, 36, 74, 65, 55]
    | .error _ => false) = true := by decide +kernel

end DM.Lemmas.SpecEdiGen
