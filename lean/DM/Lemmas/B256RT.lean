import DM.Lemmas.X12RT
/-
Data-level round trip for a message planned entirely in Base 256 (length field of one or two
codewords, or "to the end of the symbol").
-/
namespace DM.Lemmas.B256RT
open DM.Model DM.Model.Enc DM.Model.Dec DM.Lemmas DM.Lemmas.DecRun DM.Lemmas.AsciiRT DM.Lemmas.Complete
open DM.Lemmas.EncRT DM.Lemmas.X12RT DM.Spec.Build

theorem rand_eq (v p : Nat) (hv : v < 256) : Enc.randomize255 v p = DM.Spec.Build.randomize255 v p := by
  unfold Enc.randomize255 DM.Spec.Build.randomize255 DM.Spec.Stream.rand255
  have : (149 * p) % 255 < 255 := Nat.mod_lt _ (by omega)
  simp only []
  split <;> omega

/-- the loop of `base256::encode` without a planned switch: it copies the rest of the input -/
theorem b256Loop_copy (start : Nat) : ∀ (n f : Nat) (s s' : St), s.input.length - s.pos = n → n < f →
    s.plan = [(0, .base256)] → s.mode = .base256 → s.pos ≤ s.input.length →
    b256Loop start f s = .ok s' →
    ∃ s2, b256WriteLength { s with pos := s.input.length, cw := s.cw ++ s.rest } start = .ok s2 ∧ s' = s2.setAscii := by
  intro n
  induction n with
  | zero =>
    intro f s s' hn hf hp hm hpos h
    cases f with
    | zero => omega
    | succ f =>
      unfold b256Loop at h
      have hnone : s.eat = none := by
        simp only [St.eat]
        rw [List.getElem?_eq_none (by omega)]
      have hmore : s.hasMore = false := by simp [St.hasMore]; omega
      have hrest : s.rest = [] := List.drop_eq_nil_of_le (by omega)
      simp only [hnone, hmore, Bool.not_false, ↓reduceIte] at h
      have hs : ({ s with pos := s.input.length, cw := s.cw ++ s.rest } : St) = s := by
        have hpe : s.input.length = s.pos := by omega
        rw [hrest, List.append_nil, hpe]
      rw [hs]
      cases hw : b256WriteLength s start with
      | error e => rw [hw] at h; cases h
      | ok s2 => rw [hw] at h; simp only [Except.ok.injEq] at h; exact ⟨s2, rfl, h.symm⟩
  | succ n ih =>
    intro f s s' hn hf hp hm hpos h
    cases f with
    | zero => omega
    | succ f =>
      unfold b256Loop at h
      have hlt : s.pos < s.input.length := by omega
      have he : s.eat = some (s.input[s.pos], { s with pos := s.pos + 1 }) := by
        simp [St.eat, List.getElem?_eq_getElem hlt]
      simp only [he] at h
      have hrest : s.rest = s.input[s.pos] :: s.input.drop (s.pos + 1) := rest_cons s hlt
      by_cases hmore : ({ s with pos := s.pos + 1 }.push s.input[s.pos]).hasMore = true
      · simp only [hmore, Bool.not_true, Bool.false_eq_true, ↓reduceIte] at h
        have hms : ({ s with pos := s.pos + 1 }.push s.input[s.pos]).maybeSwitch =
            .ok (false, { s with pos := s.pos + 1 }.push s.input[s.pos]) := by
          simp only [St.hasMore, St.push] at hmore
          simp only [St.maybeSwitch, St.push, hp, Nat.not_lt_zero, ↓reduceIte, St.charsLeft, hm, ne_eq,
            not_true_eq_false]
          have : ¬ (s.input.length - (s.pos + 1) > 0 ∧ s.input.length - (s.pos + 1) = 0) := by omega
          simp only [this, ↓reduceIte, ne_eq, not_true_eq_false]
        rw [hms] at h
        simp only [] at h
        obtain ⟨s2, h1, h2⟩ := ih f _ s' (by simp [St.push]; omega) (by omega) (by simp [St.push, hp])
          (by simp [St.push, hm]) (by simp [St.push]; omega) h
        refine ⟨s2, ?_, h2⟩
        rw [← h1]
        have e : ({ s with pos := s.pos + 1 }.push s.input[s.pos]).cw ++ ({ s with pos := s.pos + 1 }.push s.input[s.pos]).rest
            = s.cw ++ s.rest := by
          rw [hrest]; simp only [St.push, St.rest, List.append_assoc, List.singleton_append]
        rw [e]
        rfl
      · have hmf : ({ s with pos := s.pos + 1 }.push s.input[s.pos]).hasMore = false := by simpa using hmore
        simp only [hmf, Bool.not_false, ↓reduceIte] at h
        have hlast : s.pos + 1 = s.input.length := by
          have h4 := of_decide_eq_false hmf
          simp only [St.push] at h4
          omega
        have hdrop : s.input.drop (s.pos + 1) = [] := List.drop_eq_nil_of_le (by omega)
        have hs : ({ s with pos := s.pos + 1 }.push s.input[s.pos]) =
            ({ s with pos := s.input.length, cw := s.cw ++ s.rest } : St) := by
          rw [hrest, hdrop, ← hlast]
          rfl
        rw [hs] at h
        cases hw : b256WriteLength { s with pos := s.input.length, cw := s.cw ++ s.rest } start with
        | error e => rw [hw] at h; cases h
        | ok s2 => rw [hw] at h; simp only [Except.ok.injEq] at h; exact ⟨s2, rfl, h.symm⟩

theorem range_map_getD (g : Nat → Nat → Nat) : ∀ (L : List Nat) (k : Nat),
    (List.range L.length).map (fun i => g (i + k) (L.getD i 0)) = (L.zipIdx k).map (fun p => g p.2 p.1) := by
  intro L
  induction L with
  | nil => intro k; rfl
  | cons x t ih =>
    intro k
    rw [List.length_cons, List.range_succ_eq_map, List.map_cons, List.map_map, List.zipIdx_cons, List.map_cons]
    simp only [List.getD_cons_zero, Nat.zero_add]
    congr 1
    have := ih (k + 1)
    rw [← this]
    apply List.map_congr_left
    intro i _
    simp only [Function.comp, List.getD_cons_succ]
    congr 1
    omega

/-- the final pass of `write_length`: randomise the field behind the latch -/
theorem randomize_field (F : List Nat) (hF : ByteList F) :
    (List.range (231 :: F).length).map (fun i =>
      if 1 ≤ i ∧ i < 1 + F.length then Enc.randomize255 ((231 :: F).getD i 0) (i + 1) else (231 :: F).getD i 0) =
    [231] ++ randFrom 2 F := by
  have := range_map_getD (fun i v => if 1 ≤ i ∧ i < 1 + F.length then Enc.randomize255 v (i + 1) else v) (231 :: F) 0
  simp only [Nat.add_zero] at this
  rw [this, List.zipIdx_cons, List.map_cons]
  simp only [Nat.not_succ_le_zero, false_and, ↓reduceIte, Nat.zero_add, List.singleton_append]
  congr 1
  have hz := zipIdx_rand 0 F 1
  simp only [Nat.zero_add] at hz
  rw [← hz]
  apply List.map_congr_left
  intro p hp
  obtain ⟨v, i⟩ := p
  have hm := List.mem_zipIdx hp
  simp only [] at hm ⊢
  have hv : v < 256 := by
    obtain ⟨h1, h2, h3⟩ := hm
    rw [h3]; exact hF _ (List.getElem_mem _)
  rw [if_pos (by omega), rand_eq v (i + 1) hv]

/-- `write_length` at the end of the data: the field gets its header and is randomised -/
theorem writeLength_end (s s2 : St) (body : List Nat) (hcw : s.cw = 231 :: 0 :: body) (hb : ByteList body)
    (hne : body ≠ []) (hmore : s.hasMore = false) (h : b256WriteLength s 1 = .ok s2) :
    ∃ toEnd, s2 = { s with cw := [231] ++ randFrom 2 (b256Hdr body toEnd ++ body) } ∧
      (toEnd = true → s.sizeLeft 0 = some 0) ∧ (toEnd = false → body.length ≤ 1555) := by
  have hlen : 0 < body.length := List.length_pos_iff.mpr hne
  unfold b256WriteLength at h
  unfold St.sizeLeftE at h
  cases hs : s.sizeLeft 0 with
  | none => rw [hs] at h; cases h
  | some spaceLeft =>
    rw [hs] at h
    simp only [hcw, List.length_cons] at h
    rw [if_neg (by omega)] at h
    simp only [hmore, Bool.false_eq_true, false_or] at h
    by_cases hsp : spaceLeft > 0
    · simp only [hsp, ↓reduceIte] at h
      rw [if_neg (by omega)] at h
      have hcount : body.length + 1 + 1 - 1 - 1 = body.length := by omega
      simp only [hcount] at h
      by_cases h249 : body.length ≤ 249
      · simp only [h249, ↓reduceIte] at h
        refine ⟨false, ?_, by simp, fun _ => by omega⟩
        simp only [Except.ok.injEq] at h
        rw [← h]
        congr 1
        have hset : (231 :: 0 :: body).set 1 body.length = 231 :: (body.length :: body) := rfl
        rw [hset]
        have hF : ByteList (body.length :: body) := by
          intro x hx
          rcases List.mem_cons.mp hx with rfl | hx
          · omega
          · exact hb x hx
        have := randomize_field (body.length :: body) hF
        simp only [List.length_cons, List.singleton_append] at this ⊢
        simp only [b256Hdr, Bool.false_eq_true, ↓reduceIte, h249, List.singleton_append]
        rw [← this]
        apply List.map_congr_left
        intro i _
        have : (1 ≤ i ∧ i < 1 + (body.length + 1 + 1 - 1)) ↔ (1 ≤ i ∧ i < 1 + (body.length + 1)) := by omega
        simp only [this]
      · simp only [h249, ↓reduceIte] at h
        by_cases h1555 : body.length ≤ 1555
        · simp only [h1555, ↓reduceIte] at h
          refine ⟨false, ?_, by simp, fun _ => h1555⟩
          simp only [Except.ok.injEq] at h
          rw [← h]
          congr 1
          have hset : ((231 :: 0 :: body).set 1 (body.length / 250 + 249)) = 231 :: (body.length / 250 + 249) :: body := rfl
          rw [hset]
          have hins : List.take (1 + 1) (231 :: (body.length / 250 + 249) :: body) ++ [body.length % 250] ++
              List.drop (1 + 1) (231 :: (body.length / 250 + 249) :: body) =
              231 :: ((body.length / 250 + 249) :: body.length % 250 :: body) := rfl
          rw [hins]
          have hF : ByteList ((body.length / 250 + 249) :: body.length % 250 :: body) := by
            intro x hx
            rcases List.mem_cons.mp hx with rfl | hx
            · omega
            · rcases List.mem_cons.mp hx with rfl | hx
              · omega
              · exact hb x hx
          have := randomize_field _ hF
          simp only [List.length_cons, List.singleton_append] at this ⊢
          simp only [b256Hdr, Bool.false_eq_true, ↓reduceIte, h249, List.cons_append, List.nil_append]
          rw [← this]
          apply List.map_congr_left
          intro i _
          have : (1 ≤ i ∧ i < 1 + (body.length + 1 + 1 - 1 + 1)) ↔ (1 ≤ i ∧ i < 1 + (body.length + 1 + 1)) := by omega
          simp only [this]
        · simp only [h1555, ↓reduceIte] at h
          cases h
    · simp only [hsp, ↓reduceIte] at h
      refine ⟨true, ?_, fun _ => by congr 1; omega, by simp⟩
      simp only [Except.ok.injEq] at h
      rw [← h]
      congr 1
      have hF : ByteList (0 :: body) := by
        intro x hx
        rcases List.mem_cons.mp hx with rfl | hx
        · omega
        · exact hb x hx
      have := randomize_field (0 :: body) hF
      simp only [List.length_cons, List.singleton_append] at this ⊢
      simp only [b256Hdr, ↓reduceIte, List.singleton_append]
      rw [← this]
      apply List.map_congr_left
      intro i _
      have : (1 ≤ i ∧ i < 1 + (body.length + 1 + 1 - 1)) ↔ (1 ≤ i ∧ i < 1 + (body.length + 1)) := by omega
      simp only [this]

def b0 (list : List Sym) (body : List Nat) : St :=
  { input := body, pos := 0, mode := .ascii, plan := [(body.length, .base256), (0, .base256)], newMode := none, cw := [], list := list }

def b1 (list : List Sym) (body : List Nat) : St :=
  { input := body, pos := 0, mode := .base256, plan := [(0, .base256)], newMode := some 231, cw := [], list := list }

def bL (list : List Sym) (body : List Nat) : St :=
  { input := body, pos := 0, mode := .base256, plan := [(0, .base256)], newMode := none, cw := [231], list := list }

def bW (list : List Sym) (body : List Nat) : St :=
  { input := body, pos := body.length, mode := .base256, plan := [(0, .base256)], newMode := none,
    cw := 231 :: 0 :: body, list := list }

theorem b_iter1 (list : List Sym) (body : List Nat) (hne : body ≠ []) (f : Nat) :
    asciiLoop (f + 1) (b0 list body) = .ok (b1 list body) := by
  have hpos : 0 < body.length := List.length_pos_iff.mpr hne
  rw [asciiLoop]
  have : (b0 list body).maybeSwitch = .ok (true, b1 list body) := by
    simp only [St.maybeSwitch, b0, b1, St.charsLeft, Nat.sub_zero, Nat.lt_irrefl, ↓reduceIte, hpos, and_self, ne_eq,
      reduceCtorEq, not_false_eq_true, EMode.latch]
  rw [this]

theorem pure_b256_roundtrip (list : List Sym) (body cw : List Nat) (sym : Sym) (hb : ByteList body)
    (h : run list [] body [(body.length, .base256), (0, .base256)] = .ok (cw, sym)) : decodeData cw = .ok body := by
  by_cases hne : body = []
  · subst hne
    have : run list [] [] [(([] : List Nat).length, EMode.base256), (0, .base256)] = run list [] [] [(0, .ascii)] := by
      unfold run
      simp only [List.length_nil]
      rw [Enc.mainLoop, Enc.mainLoop]
      simp [St.hasMore]
    rw [this] at h
    obtain ⟨hle, hcw⟩ := run_ascii list [] cw sym h
    rw [hcw]
    exact decodeData_ascii [] hb (dataCw sym) hle
  obtain ⟨sE, hmain, hsym, hpad⟩ := run_unfold list body _ cw sym h
  have hlen : 0 < body.length := List.length_pos_iff.mpr hne
  -- iteration 1: the planned switch
  have hs0 : (b0 list body).hasMore = true := by simp [St.hasMore, b0, hlen]
  obtain ⟨s1, k1, he1, hm1⟩ := mainLoop_step (2 * body.length + 7) (b0 list body) sE 0 hmain hs0
  have hl0 : latched (b0 list body) = b0 list body := rfl
  rw [hl0] at he1
  have hmode0 : (b0 list body).mode = .ascii := rfl
  simp only [encodeMode, hmode0] at he1
  rw [b_iter1 list body hne (St.charsLeft (b0 list body) + 1)] at he1
  simp only [Except.ok.injEq] at he1
  subst he1
  -- iteration 2: the whole message in Base 256
  obtain ⟨s3, k2, he2, hm2⟩ := mainLoop_step (2 * body.length + 6) _ sE k1 hm1 (by simp [St.hasMore, b1, hlen])
  have hl1 : latched (b1 list body) = bL list body := rfl
  rw [hl1] at he2
  have hmodeL : (bL list body).mode = .base256 := rfl
  simp only [encodeMode, hmodeL, b256Encode] at he2
  obtain ⟨s2, hw, hs3⟩ := b256Loop_copy (bL list body).cw.length body.length _ ((bL list body).push 0) s3
    (by simp [St.push, bL]) (by simp [St.charsLeft, bL]) rfl rfl (by simp [St.push, bL]) he2
  simp only [St.push, bL, St.rest, List.drop_zero, List.singleton_append, List.cons_append, List.nil_append,
    List.length_cons, List.length_nil, Nat.zero_add] at hw
  have hw' : b256WriteLength (bW list body) 1 = .ok s2 := hw
  obtain ⟨toEnd, hs2, hfit, hmax⟩ := writeLength_end (bW list body) s2 body rfl hb hne (by simp [St.hasMore, bW]) hw'
  subst hs2 hs3
  rw [mainLoop_end _ _ _ (by simp [St.hasMore, St.setAscii, bW])] at hm2
  simp only [Except.ok.injEq] at hm2
  subst hm2
  simp only [St.setAscii, bW] at hsym hpad
  have hcap := firstBigEnough_le list _ sym hsym
  have hbeq : (EMode.ascii == EMode.ascii) = true := by decide
  rw [hbeq, addPadding_ascii_pads _ _ hcap] at hpad
  simp only [Option.some.injEq] at hpad
  subst hpad
  have hcwlen : ([231] ++ randFrom 2 (b256Hdr body toEnd ++ body)).length = 0 + 1 + (b256Hdr body toEnd).length + body.length := by
    simp [randFrom_length]; omega
  -- the padding area (empty in the "to the end" form)
  have hpadsnil : toEnd = true →
      DM.Props.C04.padsOf ([231] ++ randFrom 2 (b256Hdr body toEnd ++ body)).length
        (dataCw sym - ([231] ++ randFrom 2 (b256Hdr body toEnd ++ body)).length) = [] := by
    intro ht
    obtain ⟨sym0, f1, f2⟩ := sizeLeft_zero _ 0 (hfit ht)
    simp only [Nat.add_zero, List.length_cons, bW] at f1 f2
    have hl2 : ([231] ++ randFrom 2 (b256Hdr body toEnd ++ body)).length = body.length + 1 + 1 := by
      rw [hcwlen, ht]; simp [b256Hdr]; omega
    rw [hl2] at hsym ⊢
    rw [f1] at hsym
    simp only [Option.some.injEq] at hsym
    subst hsym
    unfold DM.Props.C04.padsOf
    rw [if_pos (by omega)]
  obtain ⟨ef, hpads⟩ := DM.Props.C04.decRun_pads ([231] ++ randFrom 2 (b256Hdr body toEnd ++ body)).length
    (dataCw sym - ([231] ++ randFrom 2 (b256Hdr body toEnd ++ body)).length) body []
  have hok : B256OK body toEnd (DM.Props.C04.padsOf ([231] ++ randFrom 2 (b256Hdr body toEnd ++ body)).length
      (dataCw sym - ([231] ++ randFrom 2 (b256Hdr body toEnd ++ body)).length)) := by
    refine ⟨hb, ?_⟩
    cases toEnd with
    | true => simp only [↓reduceIte]; exact hpadsnil rfl
    | false => simp only [Bool.false_eq_true, ↓reduceIte]; exact ⟨hlen, hmax rfl⟩
  generalize DM.Props.C04.padsOf ([231] ++ randFrom 2 (b256Hdr body toEnd ++ body)).length
      (dataCw sym - ([231] ++ randFrom 2 (b256Hdr body toEnd ++ body)).length) = P at hpads hok ⊢
  apply decodeData_of_decRun _ body ef
  · intro c hc; simp at hc; omega
  · have := seg_b256 body P toEnd 0 [] [] hok
    simp only [Nat.zero_add, List.nil_append] at this
    rw [this]
    rw [hcwlen] at hpads
    simp only [Nat.zero_add] at hpads
    exact hpads

end DM.Lemmas.B256RT
