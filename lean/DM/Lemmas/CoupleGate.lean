import DM.Lemmas.CoupleMain
import DM.Lemmas.CoupleAscii
import DM.Lemmas.CoupleB256
import DM.Lemmas.CoupleX12
import DM.Lemmas.CoupleEdi
import DM.Lemmas.CoupleC40
/-!
# The encoder's early-exit gate and the planner's prediction

`GenericDataEncoder::codewords` answers `TooMuchData` before it looks at the plan when the message has
more characters than `SymbolList::max_capacity()` (the largest number of digits any listed symbol holds:
twice its data codewords).  `Props/C18Couple.predicted_size_suffices_planOK` lists this as a case of its own.
Here: in that case the planner's prediction fits no listed symbol either (`gate_prediction_none`), so the
early exit never rejects a message the planner predicted to fit.

Proof: every mode charges at least 6 twelfths of a codeword per character (ASCII digit pairs 6 each,
C40 / Text at least 8 per value, X12 8, EDIFACT 9, Base 256 12; the ASCII ends of X12 and EDIFACT spread
`asciiSize rest ≥ ⌈rest.length / 2⌉` codewords over the characters left).  Along the history of the plan
`optimize` returns (`CoupleReach.optimize_final`) the accumulated cost is therefore at least
`6 * body.length` (`final_cost_ge`), rounded up to whole codewords at least `⌈body.length / 2⌉`, which
exceeds the data codewords of every listed symbol when `maxCapacity list < body.length`.
-/
namespace DM.Lemmas.CoupleGate
open DM.Model DM.Model.Plan DM.Model.Enc DM.Lemmas.PlanInv DM.Lemmas.Couple DM.Lemmas.CoupleReach DM.Lemmas.CoupleMain

/-! ### `max_capacity` -/

/-- `capacity().max` is twice the number of data codewords, for every catalogue row (and the default row) -/
theorem capMax_row (s : Sym) : (row s).capMax = 2 * dataCw s := by
  by_cases h : s < 48
  · have hall : ∀ s < 48, (row s).capMax = 2 * dataCw s := by decide +kernel
    exact hall s h
  · have hlen : DM.Gen.sizes.length = 48 := by decide +kernel
    have hge : 48 ≤ s := Nat.le_of_not_lt h
    have hle : DM.Gen.sizes.length ≤ s := by rw [hlen]; exact hge
    have hnone : DM.Gen.sizes[s]? = none := List.getElem?_eq_none hle
    have hr : row s = default := by
      unfold row
      rw [List.getD_eq_getElem?_getD, hnone]
      rfl
    unfold dataCw
    rw [hr]
    rfl

theorem foldl_max_ge : ∀ (L : List Nat) (a : Nat), a ≤ L.foldl max a ∧ ∀ x ∈ L, x ≤ L.foldl max a := by
  intro L
  induction L with
  | nil => intro a; simp
  | cons y t ih =>
    intro a
    obtain ⟨h1, h2⟩ := ih (max a y)
    simp only [List.foldl_cons, List.mem_cons]
    refine ⟨by omega, ?_⟩
    rintro x (rfl | hx)
    · omega
    · exact h2 x hx

/-- a listed symbol holds at most `maxCapacity list / 2` data codewords -/
theorem dataCw_le_maxCapacity (list : List Sym) (s : Sym) (h : s ∈ list) : 2 * dataCw s ≤ maxCapacity list := by
  unfold maxCapacity
  rw [← capMax_row s]
  exact (foldl_max_ge _ 0).2 _ (List.mem_map.mpr ⟨s, h, rfl⟩)

/-! ### ASCII needs at least one codeword for two characters -/

theorem asciiSize_ge : ∀ (n : Nat) (l : List Nat), l.length ≤ n → l.length ≤ 2 * asciiSize l := by
  intro n
  induction n with
  | zero => intro l h; have : l = [] := List.length_eq_zero_iff.mp (by omega); subst this; simp
  | succ n ih =>
    intro l h
    match l, h with
    | [], _ => simp
    | [a], _ => unfold asciiSize; split <;> simp
    | a :: b :: t, h =>
      unfold asciiSize
      simp only [List.length_cons] at h ⊢
      split
      · have := ih t (by omega); omega
      · have := ih (b :: t) (by simp only [List.length_cons]; omega)
        simp only [List.length_cons] at this
        split <;> omega

/-! ### per-mode lower bounds: a segment of `k` characters costs at least `6 * k` twelfths -/

/-- a segment that ends with a switch: `add_switches` charges the new plan at least `6 * k` more -/
def SwitchLB (m : EMode) : Prop :=
  ∀ (body : List Nat) (list : List Sym) (p w k : Nat) (g0 gk : GPlan) (ac : Nat) (ctx' : Ctx),
    p + k < body.length → 1 ≤ k → g0.plan = newPlan m (ctxAt body list p w) →
    StepsTo k g0 gk → SwitchPoint gk → gk.switchCost = some ac → gk.unlatch = .ok ctx' →
    g0.extra + 6 * k ≤ ac

/-- the segment that runs to the end of the data -/
def EndLB (m : EMode) : Prop :=
  ∀ (body : List Nat) (list : List Sym) (p w k : Nat) (g0 gk gE : GPlan) (r : StepResult),
    p + k = body.length → 1 ≤ k → g0.plan = newPlan m (ctxAt body list p w) →
    StepsTo k g0 gk → gk.step = .ok (some (gE, r)) → r.end = true →
    g0.extra + 6 * k ≤ gE.cost

/-! #### ASCII -/

theorem asciiStep_cost_le (P P1 : AsciiP) (r : StepResult) (hs : asciiStep P = .ok (P1, r)) : P.cost ≤ P1.cost := by
  unfold asciiStep at hs
  generalize hq : (if P.digitsAhead = 0 then
      ({ P with digitsAhead := (P.ctx.rest.takeWhile isDigit).length / 2 * 2,
                ctx := P.ctx.write ((P.ctx.rest.takeWhile isDigit).length / 2 * 2 / 2) } : AsciiP) else P) = q at hs
  have hqc : q.cost = P.cost := by rw [← hq]; split <;> rfl
  simp only [] at hs
  split at hs
  · cases hs; omega
  · split at hs
    · split at hs
      · cases hs
      · cases hs; simp only []; omega
    · split at hs
      · cases hs; simp only []; omega
      · cases hs; simp only []; omega

theorem ascii_steps_cost {body : List Nat} {list : List Sym} : ∀ (k : Nat) (g gk : GPlan) (P : AsciiP) (q : Nat),
    g.plan = .ascii P → CtxAt body list q P.ctx → P.digitsAhead ≤ digitsFrom body q → StepsTo k g gk →
    ∃ Pk, gk.plan = .ascii Pk ∧ gk.extra = g.extra ∧ P.cost + 6 * k ≤ Pk.cost := by
  intro k
  induction k with
  | zero =>
    intro g gk P q hp hc hl hst
    have : g = gk := hst
    subst this
    exact ⟨P, hp, rfl, by omega⟩
  | succ k ih =>
    intro g gk P q hp hc hl hst
    obtain ⟨g1, r, hs, he, hrest⟩ := hst
    obtain ⟨P1, hs1, hp1, hx1⟩ := CoupleAscii.gstep_ascii hp hs
    obtain ⟨hlt, hc1, hl1, hcase⟩ := CoupleAscii.asciiStep_elim P P1 r hc hl hs1 he
    obtain ⟨Pk, a1, a2, a3⟩ := ih g1 gk P1 (q + 1) hp1 hc1 hl1 hrest
    refine ⟨Pk, a1, a2.trans hx1, ?_⟩
    rcases hcase with ⟨_, _, _, _, h5⟩ | ⟨_, _, _, _, h5⟩ | ⟨_, _, _, h5⟩
    · split at h5 <;> omega
    · omega
    · omega

theorem ascii_fresh_cost {body : List Nat} {list : List Sym} {p w k : Nat} {g0 gk : GPlan}
    (h0 : g0.plan = newPlan .ascii (ctxAt body list p w)) (hst : StepsTo k g0 gk) :
    ∃ Pk, gk.plan = .ascii Pk ∧ gk.extra = g0.extra ∧ 6 * k ≤ Pk.cost := by
  obtain ⟨Pk, a1, a2, a3⟩ := ascii_steps_cost (body := body) (list := list) k g0 gk
    { ctx := ctxAt body list p w, digitsAhead := 0, cost := 0 } p h0 ⟨rfl, rfl, rfl⟩ (Nat.zero_le _) hst
  exact ⟨Pk, a1, a2, by simpa using a3⟩

theorem switchLB_ascii : SwitchLB .ascii := by
  intro body list p w k g0 gk ac ctx' _ _ h0 hst _ hsc _
  obtain ⟨Pk, a1, a2, a3⟩ := ascii_fresh_cost h0 hst
  unfold GPlan.switchCost at hsc
  rw [a1] at hsc
  simp only [Option.some.injEq] at hsc
  have := (ceil12_facts Pk.cost).1
  omega

theorem endLB_ascii : EndLB .ascii := by
  intro body list p w k g0 gk gE r _ _ h0 hst hstep _
  obtain ⟨Pk, a1, a2, a3⟩ := ascii_fresh_cost h0 hst
  obtain ⟨P1, b1, b2, b3⟩ := CoupleAscii.gstep_ascii a1 hstep
  have := asciiStep_cost_le Pk P1 r b1
  unfold GPlan.cost
  rw [b2]
  simp only []
  omega

/-! #### Base 256 -/

theorem switchLB_base256 : SwitchLB .base256 := by
  intro body list p w k g0 gk ac ctx' hlt _ h0 hst _ hsc _
  obtain ⟨Pk, a1, a2, _, _, _, _, _, a8, _⟩ := CoupleB256.b256_fresh h0 (by omega) hst
  unfold GPlan.switchCost at hsc
  rw [a1] at hsc
  simp only [Option.some.injEq, b256SwitchCost] at hsc
  split at hsc <;> omega

theorem endLB_base256 : EndLB .base256 := by
  intro body list p w k g0 gk gE r hpk _ h0 hst hstep hre
  obtain ⟨Pk, a1, a2, a3, _, a5, _, _, a8, _⟩ := CoupleB256.b256_fresh h0 (by omega) hst
  obtain ⟨P1, b1, b2, b3⟩ := CoupleB256.gstep_b256 a1 hstep
  have hm : Pk.ctx.hasMore = false := by simp [Ctx.hasMore, a3, a5]; omega
  unfold b256Step at b1
  simp only [hm, Bool.not_false, ↓reduceIte, Option.some.injEq, Prod.mk.injEq] at b1
  obtain ⟨rfl, _⟩ := b1
  unfold GPlan.cost
  rw [b2]
  simp only [b256Cost]
  split
  · split <;> omega
  · omega

/-! #### X12 -/

theorem x12_cost_lb {body : List Nat} {list : List Sym} {p w i : Nat} {q : X12P}
    (h : CoupleX12.FInv body list p w i q) : 6 * i ≤ q.cost := by
  cases ha : q.asciiEnd with
  | none =>
    obtain ⟨_, h2, _⟩ := h.nat ha
    omega
  | some f =>
    obtain ⟨j, t, c0, h1, h2, h3, _, _, h6, h7, _⟩ := h.asc f ha
    have hlen : (body.drop (p + 3 * j)).length = t := by rw [List.length_drop]; omega
    have hsz := asciiSize_ge _ (body.drop (p + 3 * j)) (Nat.le_refl _)
    rw [hlen] at hsz
    have hf : 6 ≤ f := by
      rcases h3 with rfl | rfl
      · rw [h6]; simp only [Nat.div_one]; omega
      · rw [h6]; simp only [Nat.reduceDiv]; omega
    have hmul : 6 * (i - 3 * j) ≤ f * (i - 3 * j) := Nat.mul_le_mul_right _ hf
    omega

theorem x12_fresh {body : List Nat} {list : List Sym} {p w k : Nat} {g0 gk : GPlan}
    (h0 : g0.plan = newPlan .x12 (ctxAt body list p w)) (hst : StepsTo k g0 gk) :
    ∃ qk, gk.plan = .x12 qk ∧ CoupleX12.FInv body list p w k qk ∧ gk.extra = g0.extra := by
  have := CoupleX12.stepsTo_FInv k 0 g0 gk _ h0 (CoupleX12.fresh_FInv body list p w) hst
  simpa using this

theorem switchLB_x12 : SwitchLB .x12 := by
  intro body list p w k g0 gk ac ctx' _ _ h0 hst _ hsc _
  obtain ⟨qk, a1, a2, a3⟩ := x12_fresh h0 hst
  have := x12_cost_lb a2
  unfold GPlan.switchCost at hsc
  rw [a1] at hsc
  simp only [] at hsc
  split at hsc
  · simp only [Option.some.injEq] at hsc; omega
  · cases hsc

theorem endLB_x12 : EndLB .x12 := by
  intro body list p w k g0 gk gE r hpk _ h0 hst hstep _
  obtain ⟨qk, a1, a2, a3⟩ := x12_fresh h0 hst
  have := x12_cost_lb a2
  have hm : qk.ctx.hasMore = false := by simp [Ctx.hasMore, a2.hdata, a2.hpos]; omega
  rw [CoupleX12.endStep_x12 gk gE qk r a1 hm hstep]
  omega

/-! #### EDIFACT -/

theorem edi_cost_lb {body : List Nat} {list : List Sym} {p w t : Nat} {q : EdiP}
    (h : CoupleEdi.PS body list p w t q) (hle : p + t ≤ body.length) : 6 * t ≤ q.cost := by
  cases h with
  | normal hn _ => have := hn.cost; omega
  | ascii j u ht hu hpa _ fire =>
    obtain ⟨h4, h2, _⟩ := CoupleEdi.aeB_true fire
    have hsz := asciiSize_ge _ (body.drop (p + 4 * j)) (Nat.le_refl _)
    rw [List.length_drop] at h4 hsz
    have hc := hpa.cost
    generalize asciiSize (body.drop (p + 4 * j)) = asz at hc hsz h2
    generalize hcc : body.length - (p + 4 * j) = c at hc hsz h4
    have hX : 6 ≤ asz * (12 / c) := by
      have hc1 : c = 1 ∨ c = 2 ∨ c = 3 ∨ c = 4 := by omega
      rcases hc1 with rfl | rfl | rfl | rfl <;> simp only [Nat.div_one, Nat.reduceDiv] <;> omega
    have hmul : u * 6 ≤ u * (asz * (12 / c)) := Nat.mul_le_mul_left _ hX
    omega

theorem switchLB_edifact : SwitchLB .edifact := by
  intro body list p w k g0 gk ac ctx' hlt _ h0 hst _ hsc _
  obtain ⟨qk, a1, a2, a3⟩ := CoupleEdi.steps_fresh g0 gk h0 hst
  have := edi_cost_lb a3 (by omega)
  unfold GPlan.switchCost at hsc
  rw [a1] at hsc
  simp only [Option.some.injEq, ediSwitchCost] at hsc
  have c1 := (ceil12_facts qk.cost).1
  have c2 := (ceil12_facts (qk.cost + 9)).1
  split at hsc <;> omega

theorem ps_hasMore {body : List Nat} {list : List Sym} {p w t : Nat} {q : EdiP}
    (h : CoupleEdi.PS body list p w t q) : q.ctx.hasMore = decide (p + t < body.length) := by
  cases h with
  | normal hn _ => exact CoupleEdi.hasMore_PN hn
  | ascii j u ht _ hpa _ _ => rw [CoupleEdi.hasMore_PA hpa, ht, Nat.add_assoc]

theorem endLB_edifact : EndLB .edifact := by
  intro body list p w k g0 gk gE r hpk _ h0 hst hstep _
  obtain ⟨qk, a1, a2, a3⟩ := CoupleEdi.steps_fresh g0 gk h0 hst
  have := edi_cost_lb a3 (by omega)
  obtain ⟨q1, b1, b2, b3⟩ := CoupleEdi.gstep_some gk gE r qk a1 hstep
  have hm : qk.ctx.hasMore = false := by rw [ps_hasMore a3]; simp; omega
  rw [CoupleEdi.ediStep_end qk hm] at b1
  simp only [Except.ok.injEq, Option.some.injEq, Prod.mk.injEq] at b1
  obtain ⟨rfl, _⟩ := b1
  unfold GPlan.cost
  rw [b2]
  simp only []
  omega

/-! #### C40 / Text -/

theorem NV_ge (text : Bool) (body : List Nat) (p : Nat) : ∀ k, p + k ≤ body.length → k ≤ CoupleC40.NV text body p k := by
  intro k
  induction k with
  | zero => intro _; exact Nat.zero_le _
  | succ d ih =>
    intro h
    rw [CoupleC40.NV_succ text body p d (by omega)]
    have := CoupleC40.valSize_pos text body[p + d]
    have := ih (by omega)
    omega

theorem endExtra_ge (list : List Sym) (L v ch : Nat) (hv : v ≤ 2) : v ≤ CoupleC40.endExtra list L v ch := by
  unfold CoupleC40.endExtra
  rcases CoupleC40.asciiSize_one ch with h | h <;> rw [h] <;> (repeat' split) <;> omega

theorem switchLB_cmode (text : Bool) : SwitchLB (CoupleC40.cmode text) := by
  intro body list p w k g0 gk ac ctx' hlt hk h0 hst hsp hsc hun
  obtain ⟨h1, h2, _⟩ := CoupleC40.plan_switch text body list p w k g0 gk ac ctx' hlt hk h0 hst hsp hsc hun
  have hN := NV_ge text body p k (by omega)
  generalize CoupleC40.NV text body p k = N at h1 hN
  split at h1 <;> omega

theorem endLB_cmode (text : Bool) : EndLB (CoupleC40.cmode text) := by
  intro body list p w k g0 gk gE r hpk hk h0 hst hstep _
  rcases CoupleC40.plan_end text body list p w k g0 gk gE r hpk hk h0 hst hstep with h | ⟨j0, sp, X, hj, hd, _, _, hX, h⟩
  · have hN := NV_ge text body p k (by omega)
    have hE := endExtra_ge list (w + 2 * (CoupleC40.NV text body p k / 3)) (CoupleC40.NV text body p k % 3)
      (body.getD (body.length - 1) 0) (by omega)
    generalize CoupleC40.endExtra _ _ _ _ = E at h hE
    generalize CoupleC40.NV text body p k = N at h hN hE
    omega
  · obtain ⟨d1, _, d3⟩ := hd
    have hN := NV_ge text body p j0 (by omega)
    generalize CoupleC40.NV text body p j0 = N at h hN d3
    omega

/-! #### all modes -/

theorem switchLB_all : ∀ m, SwitchLB m
  | .ascii => switchLB_ascii
  | .c40 => switchLB_cmode false
  | .text => switchLB_cmode true
  | .x12 => switchLB_x12
  | .edifact => switchLB_edifact
  | .base256 => switchLB_base256

theorem endLB_all : ∀ m, EndLB m
  | .ascii => endLB_ascii
  | .c40 => endLB_cmode false
  | .text => endLB_cmode true
  | .x12 => endLB_x12
  | .edifact => endLB_edifact
  | .base256 => endLB_base256

/-! ### along the history -/

variable {body : List Nat} {list : List Sym} {W : Nat}

/-- a freshly created plan whose first character is `p` has been charged at least `6 * p` -/
theorem hist_extra_ge {g0 : GPlan} {p w : Nat} {m : EMode} (h : Hist body list W g0 p w m) : 6 * p ≤ g0.extra := by
  induction h with
  | start => exact Nat.zero_le _
  | first => exact Nat.zero_le _
  | switch hh hlt hk hst hsp hsc hun _ ih =>
    have := switchLB_all _ body list _ _ _ _ _ _ _ hlt hk (hist_plan hh) hst hsp hsc hun
    simp only []
    omega

/-- **Every complete plan costs at least half a codeword per character.** -/
theorem final_cost_ge {g : GPlan} (h : Final body list W g) : 6 * body.length ≤ g.cost := by
  obtain ⟨g0, p, w, m, j, gk, r, hh, hst, hpj, hj, hstep, hre⟩ := h
  have h1 := hist_extra_ge hh
  have h2 := endLB_all m body list p w j g0 gk g r hpj hj (hist_plan hh) hst hstep hre
  omega

/-! ### the gate -/

/-- the predicted cost of the plan `optimize` returns is at least `6 * body.length` twelfths -/
theorem optimize_cost_ge {modes : Nat} {perms : List (List Nat)} {o : Outcome} {plan : List (Nat × EMode)}
    (hne : body ≠ []) (h : optimize body W list modes perms = .ok o) (hp : o.plan = some plan) :
    6 * body.length ≤ o.cost12 ∧ o.cost12 % 12 = 0 := by
  obtain ⟨best, hfin, _, hc⟩ := optimize_final hne h hp
  have := final_cost_ge hfin
  obtain ⟨c1, c2⟩ := ceil12_facts best.cost
  rw [hc]
  exact ⟨by omega, c2⟩

/-- **The early exit agrees with the planner.**  If the message has more characters than
`max_capacity()` of the symbol list (so that the encoder answers `TooMuchData` without looking at the
plan), then the codewords the planner predicts for the plan it returns — after `w` codewords already
written — fit no listed symbol. -/
theorem gate_prediction_none (body : List Nat) (w : Nat) (list : List Sym) (modes : Nat) (perms : List (List Nat))
    (o : Outcome) (plan : List (Nat × EMode))
    (hopt : Plan.optimize body w list modes perms = .ok o) (hp : o.plan = some plan)
    (hgate : maxCapacity list < body.length) :
    firstBigEnough list (w + o.cost12 / 12) = none := by
  have hne : body ≠ [] := by
    intro h; subst h; simp at hgate
  obtain ⟨h1, h2⟩ := optimize_cost_ge hne hopt hp
  cases hf : firstBigEnough list (w + o.cost12 / 12) with
  | none => rfl
  | some ps =>
    exfalso
    have hge := fbe_some_ge list _ ps hf
    have hmem : ps ∈ list := by
      unfold firstBigEnough at hf
      exact List.mem_of_find?_eq_some hf
    have := dataCw_le_maxCapacity list ps hmem
    omega

end DM.Lemmas.CoupleGate
