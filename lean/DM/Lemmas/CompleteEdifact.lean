import DM.Lemmas.DecRun
import DM.Spec.Build
/-
Decoder completeness, EDIFACT runs (complete quadruples; ended by the UNLATCH value, by the end of
the symbol, or by at most two trailing ASCII codewords).
-/
namespace DM.Lemmas.Complete
open DM.Model.Dec DM.Gen DM.Lemmas DM.Lemmas.DecRun DM.Spec.Build

def EdiChars (b : List Nat) : Prop := ∀ x ∈ b, 32 ≤ x ∧ x ≤ 94

theorem edi_char (x : Nat) (h : 32 ≤ x ∧ x ≤ 94) : x % 64 < 64 ∧ x % 64 ≠ 31 ∧ decEdifactChar (x % 64) = x := by
  unfold decEdifactChar
  refine ⟨by omega, by omega, ?_⟩
  split <;> omega

/-- one complete quadruple -/
theorem decodeEdifact_quad (f : Nat) (x1 x2 x3 x4 : Nat) (h1 : 32 ≤ x1 ∧ x1 ≤ 94) (h2 : 32 ≤ x2 ∧ x2 ≤ 94)
    (h3 : 32 ≤ x3 ∧ x3 ≤ 94) (h4 : 32 ≤ x4 ∧ x4 ≤ 94) (tail : List Nat) (e : Nat) (out : List Nat) :
    decodeEdifact (f + 1) (packEdifact [x1 % 64, x2 % 64, x3 % 64, x4 % 64] ++ tail) e out =
      decodeEdifact f tail (e + 3) (out ++ [x1, x2, x3, x4]) := by
  obtain ⟨l1, n1, d1⟩ := edi_char x1 h1
  obtain ⟨l2, n2, d2⟩ := edi_char x2 h2
  obtain ⟨l3, n3, d3⟩ := edi_char x3 h3
  obtain ⟨l4, n4, d4⟩ := edi_char x4 h4
  generalize x1 % 64 = v1 at *
  generalize x2 % 64 = v2 at *
  generalize x3 % 64 = v3 at *
  generalize x4 % 64 = v4 at *
  simp only [packEdifact, List.cons_append, List.nil_append]
  rw [decodeEdifact]
  have e1 : (v1 * 4 + v2 / 16) % 256 / 4 = v1 := by omega
  have e2 : (v1 * 4 + v2 / 16) % 256 % 4 * 16 + (v2 % 16 * 16 + v3 / 4) % 256 / 16 = v2 := by omega
  have e3 : (v2 % 16 * 16 + v3 / 4) % 256 % 16 * 4 + (v3 % 4 * 64 + v4) % 256 / 64 = v3 := by omega
  have e4 : (v3 % 4 * 64 + v4) % 256 % 64 = v4 := by omega
  simp only [e1, e2, e3, e4, n1, n2, n3, n4, ↓reduceIte, d1, d2, d3, d4]
  simp only [List.append_assoc, List.cons_append, List.nil_append]

/-- `q` complete quadruples -/
theorem decodeEdifact_quads : ∀ (q : Nat) (b : List Nat), b.length = 4 * q → EdiChars b →
    ∀ (f : Nat) (tail : List Nat) (e : Nat) (out : List Nat),
      decodeEdifact (f + q) (packEdifact (b.map (· % 64)) ++ tail) e out =
        decodeEdifact f tail (e + 3 * q) (out ++ b) := by
  intro q
  induction q with
  | zero =>
    intro b hl _ f tail e out
    have : b = [] := List.length_eq_zero_iff.mp (by omega)
    subst this
    simp [packEdifact]
  | succ q ih =>
    intro b hl hc f tail e out
    match b, hl, hc with
    | x1 :: x2 :: x3 :: x4 :: t, hl, hc =>
      have h1 := hc x1 (by simp)
      have h2 := hc x2 (by simp)
      have h3 := hc x3 (by simp)
      have h4 := hc x4 (by simp)
      have ht : EdiChars t := fun w hw => hc w (by simp [hw])
      have hlt : t.length = 4 * q := by simp only [List.length_cons] at hl; omega
      have hsplit : packEdifact ((x1 :: x2 :: x3 :: x4 :: t).map (· % 64)) =
          packEdifact [x1 % 64, x2 % 64, x3 % 64, x4 % 64] ++ packEdifact (t.map (· % 64)) := by
        simp [packEdifact]
      rw [hsplit, List.append_assoc, show f + (q + 1) = (f + q) + 1 from rfl,
        decodeEdifact_quad (f + q) x1 x2 x3 x4 h1 h2 h3 h4, ih t hlt ht]
      simp only [List.append_assoc, List.cons_append, List.nil_append]
      congr 1
      omega
    | [], hl, _ => simp at hl
    | [_], hl, _ => simp at hl; omega
    | [_, _], hl, _ => simp at hl; omega
    | [_, _, _], hl, _ => simp at hl; omega

theorem packEdifact_length : ∀ (q : Nat) (v : List Nat), v.length = 4 * q → (packEdifact v).length = 3 * q := by
  intro q
  induction q with
  | zero => intro v h; have : v = [] := List.length_eq_zero_iff.mp (by omega); subst this; rfl
  | succ q ih =>
    intro v h
    match v, h with
    | a :: b :: c :: d :: t, h =>
      simp only [packEdifact, List.length_cons]
      rw [ih t (by simp only [List.length_cons] at h; omega)]
      omega
    | [], h => simp at h
    | [_], h => simp at h; omega
    | [_, _], h => simp at h; omega
    | [_, _, _], h => simp at h; omega

theorem packEdifact_append : ∀ (q : Nat) (v w : List Nat), v.length = 4 * q →
    packEdifact (v ++ w) = packEdifact v ++ packEdifact w := by
  intro q
  induction q with
  | zero => intro v w h; have : v = [] := List.length_eq_zero_iff.mp (by omega); subst this; simp [packEdifact]
  | succ q ih =>
    intro v w h
    match v, h with
    | a :: b :: c :: d :: t, h =>
      simp only [List.cons_append, packEdifact]
      rw [ih t w (by simp only [List.length_cons] at h; omega)]
    | [], h => simp at h
    | [_], h => simp at h; omega
    | [_, _], h => simp at h; omega
    | [_, _, _], h => simp at h; omega

/-- the codewords of the last, incomplete group: the remaining `r ≤ 3` characters, the UNLATCH
value and zero fill, cut after the codeword that holds the UNLATCH value -/
def ediLast : List Nat → List Nat
  | [] => [(31 * 4 + 0 / 16) % 256]
  | [x1] => [(x1 % 64 * 4 + 31 / 16) % 256, (31 % 16 * 16 + 0 / 4) % 256]
  | [x1, x2] => [(x1 % 64 * 4 + x2 % 64 / 16) % 256, (x2 % 64 % 16 * 16 + 31 / 4) % 256, (31 % 4 * 64 + 0) % 256]
  | [x1, x2, x3] =>
    [(x1 % 64 * 4 + x2 % 64 / 16) % 256, (x2 % 64 % 16 * 16 + x3 % 64 / 4) % 256, (x3 % 64 % 4 * 64 + 31) % 256]
  | _ => []

/-- the reference builder's expression for the last group -/
theorem ediLast_eq (br : List Nat) (hr : br.length ≤ 3) :
    (packEdifact (br.map (· % 64) ++ [31] ++ List.replicate ((4 - (br.length + 1) % 4) % 4) 0)).take
      ((6 * (br.length + 1) + 7) / 8) = ediLast br := by
  match br, hr with
  | [], _ => simp [ediLast, packEdifact, List.replicate]
  | [_], _ => simp [ediLast, packEdifact, List.replicate]
  | [_, _], _ => simp [ediLast, packEdifact, List.replicate]
  | [_, _, _], _ => simp [ediLast, packEdifact, List.replicate]
  | _ :: _ :: _ :: _ :: _, h => simp at h

/-- the group with the UNLATCH value: at least three codewords must be there to be looked at -/
theorem decodeEdifact_last (f : Nat) (br tail : List Nat) (hr : br.length ≤ 3) (hc : EdiChars br)
    (hlen : (ediLast br).length + tail.length ≥ 3) (e : Nat) (out : List Nat) :
    decodeEdifact (f + 1) (ediLast br ++ tail) e out = (tail, e + (ediLast br).length, out ++ br) := by
  match br, hr, hc with
  | [], _, _ =>
    simp only [ediLast, List.length_singleton] at hlen ⊢
    match tail, hlen with
    | b :: c :: t, _ => simp [decodeEdifact]
    | [], h => simp at h
    | [_], h => simp at h
  | [x1], _, hc =>
    obtain ⟨l1, n1, d1⟩ := edi_char x1 (hc x1 (by simp))
    simp only [ediLast, List.length_cons, List.length_nil] at hlen ⊢
    generalize x1 % 64 = v1 at *
    match tail, hlen with
    | c :: t, _ =>
      simp only [List.cons_append, List.nil_append]
      rw [decodeEdifact]
      have e1 : (v1 * 4 + 31 / 16) % 256 / 4 = v1 := by omega
      have e2 : (v1 * 4 + 31 / 16) % 256 % 4 * 16 + (31 % 16 * 16 + 0 / 4) % 256 / 16 = 31 := by omega
      simp only [e1, e2, n1, ↓reduceIte, d1]
    | [], h => simp at h
  | [x1, x2], _, hc =>
    obtain ⟨l1, n1, d1⟩ := edi_char x1 (hc x1 (by simp))
    obtain ⟨l2, n2, d2⟩ := edi_char x2 (hc x2 (by simp))
    simp only [ediLast, List.length_cons, List.length_nil]
    generalize x1 % 64 = v1 at *
    generalize x2 % 64 = v2 at *
    simp only [List.cons_append, List.nil_append]
    rw [decodeEdifact]
    have e1 : (v1 * 4 + v2 / 16) % 256 / 4 = v1 := by omega
    have e2 : (v1 * 4 + v2 / 16) % 256 % 4 * 16 + (v2 % 16 * 16 + 31 / 4) % 256 / 16 = v2 := by omega
    have e3 : (v2 % 16 * 16 + 31 / 4) % 256 % 16 * 4 + (31 % 4 * 64 + 0) % 256 / 64 = 31 := by omega
    simp only [e1, e2, e3, n1, n2, ↓reduceIte, d1, d2, List.append_assoc, List.cons_append, List.nil_append]
  | [x1, x2, x3], _, hc =>
    obtain ⟨l1, n1, d1⟩ := edi_char x1 (hc x1 (by simp))
    obtain ⟨l2, n2, d2⟩ := edi_char x2 (hc x2 (by simp))
    obtain ⟨l3, n3, d3⟩ := edi_char x3 (hc x3 (by simp))
    simp only [ediLast, List.length_cons, List.length_nil]
    generalize x1 % 64 = v1 at *
    generalize x2 % 64 = v2 at *
    generalize x3 % 64 = v3 at *
    simp only [List.cons_append, List.nil_append]
    rw [decodeEdifact]
    have e1 : (v1 * 4 + v2 / 16) % 256 / 4 = v1 := by omega
    have e2 : (v1 * 4 + v2 / 16) % 256 % 4 * 16 + (v2 % 16 * 16 + v3 / 4) % 256 / 16 = v2 := by omega
    have e3 : (v2 % 16 * 16 + v3 / 4) % 256 % 16 * 4 + (v3 % 4 * 64 + 31) % 256 / 64 = v3 := by omega
    have e4 : (v3 % 4 * 64 + 31) % 256 % 64 = 31 := by omega
    simp only [e1, e2, e3, e4, n1, n2, n3, ↓reduceIte, d1, d2, d3, List.append_assoc, List.cons_append, List.nil_append]
  | _ :: _ :: _ :: _ :: _, h, _ => simp at h

theorem decodeEdifact_short (f : Nat) (tail : List Nat) (h : tail.length ≤ 2) (e : Nat) (out : List Nat) :
    decodeEdifact f tail e out = (tail, e, out) := by
  cases f with
  | zero => rfl
  | succ f =>
    match tail, h with
    | [], _ => rfl
    | [_], _ => rfl
    | [_, _], _ => rfl
    | _ :: _ :: _ :: _, h => simp at h

/-- the codewords of an EDIFACT run after the latch -/
def ediCw (b : List Nat) (un : Bool) : List Nat :=
  packEdifact ((b.take (4 * (b.length / 4))).map (· % 64)) ++ (if un then ediLast (b.drop (4 * (b.length / 4))) else [])

def EdiOK (b : List Nat) (un : Bool) (tail : List Nat) : Prop :=
  EdiChars b ∧
  (if un then (ediLast (b.drop (4 * (b.length / 4)))).length + tail.length ≥ 3
   else b.length % 4 = 0 ∧ tail.length ≤ 2)

/-- the reference builder's EDIFACT item in the normal form used here -/
theorem ediEmit_eq (b : List Nat) (un : Bool) (hun : un = false → b.length % 4 = 0) :
    (if un then
      (packEdifact (b.map (· % 64) ++ [31] ++
        List.replicate ((4 - (b.map (· % 64) ++ [31]).length % 4) % 4) 0)).take ((6 * (b.map (· % 64) ++ [31]).length + 7) / 8)
     else packEdifact (b.map (· % 64))) = ediCw b un := by
  unfold ediCw
  generalize hq : b.length / 4 = q
  have hsplit : b = b.take (4 * q) ++ b.drop (4 * q) := (List.take_append_drop _ _).symm
  have hlq : (b.take (4 * q)).length = 4 * q := by rw [List.length_take]; omega
  have hlr : (b.drop (4 * q)).length = b.length % 4 := by rw [List.length_drop]; omega
  cases un with
  | false =>
    simp only [Bool.false_eq_true, ↓reduceIte, List.append_nil]
    have h0 := hun rfl
    have : b.drop (4 * q) = [] := List.length_eq_zero_iff.mp (by omega)
    rw [this, List.append_nil] at hsplit
    rw [← hsplit]
  | true =>
    simp only [↓reduceIte]
    generalize hbq : b.take (4 * q) = bq at *
    generalize hbr : b.drop (4 * q) = br at *
    have hr3 : br.length ≤ 3 := by omega
    subst hsplit
    simp only [List.map_append, List.length_append, List.length_map, List.length_singleton, List.append_assoc]
    rw [packEdifact_append q (bq.map (· % 64)) _ (by simpa using hlq)]
    have hl3 : (packEdifact (bq.map (· % 64))).length = 3 * q := packEdifact_length q _ (by simpa using hlq)
    have hcnt : (6 * (bq.length + (br.length + 1)) + 7) / 8 = 3 * q + (6 * (br.length + 1) + 7) / 8 := by omega
    have hmod : (bq.length + (br.length + 1)) % 4 = (br.length + 1) % 4 := by omega
    rw [hcnt, hmod, List.take_append, hl3]
    simp only [Nat.add_sub_cancel_left]
    rw [List.take_of_length_le (by omega)]
    have := ediLast_eq br hr3
    simp only [List.append_assoc] at this
    rw [this]

theorem ediLast_ne (br : List Nat) (hr : br.length ≤ 3) : ediLast br ≠ [] := by
  match br, hr with
  | [], _ => simp [ediLast]
  | [_], _ => simp [ediLast]
  | [_, _], _ => simp [ediLast]
  | [_, _, _], _ => simp [ediLast]
  | _ :: _ :: _ :: _ :: _, h => simp at h

theorem seg_edifact (b : List Nat) (un : Bool) (tail : List Nat) (e : Nat) (out : List Nat) (ecis : List (Nat × Nat))
    (h : EdiOK b un tail) :
    decRun .ascii { rest := [240] ++ ediCw b un ++ tail, eaten := e, out := out, ecis := ecis } =
    decRun .ascii { rest := tail, eaten := e + (1 + (ediCw b un).length), out := out ++ b, ecis := ecis } := by
  obtain ⟨hc, hcond⟩ := h
  rw [decRun_ascii _ (by simp)]
  simp only [List.singleton_append, List.cons_append]
  rw [decodeAscii]
  simp only [ne_eq, not_true_eq_false, ↓reduceIte, Bool.false_eq_true, false_and, Nat.reduceLeDiff, and_false,
    Nat.reduceEqDiff, List.nil_append]
  unfold ediCw
  generalize hq : b.length / 4 = q
  have hsplit : b = b.take (4 * q) ++ b.drop (4 * q) := (List.take_append_drop _ _).symm
  have hlq : (b.take (4 * q)).length = 4 * q := by rw [List.length_take]; omega
  have hlr : (b.drop (4 * q)).length = b.length % 4 := by rw [List.length_drop]; omega
  rw [hq] at hcond
  generalize hbq : b.take (4 * q) = bq at *
  generalize hbr : b.drop (4 * q) = br at *
  have hcq : EdiChars bq := fun x hx => hc x (by rw [hsplit]; simp [hx])
  have hcr : EdiChars br := fun x hx => hc x (by rw [hsplit]; simp [hx])
  have hl3 : (packEdifact (bq.map (· % 64))).length = 3 * q := packEdifact_length q _ (by simpa using hlq)
  by_cases hnil : packEdifact (bq.map (· % 64)) ++ (if un = true then ediLast br else []) ++ tail = []
  · -- nothing after the latch
    have h1 := List.append_eq_nil_iff.mp hnil
    have h2 := List.append_eq_nil_iff.mp h1.1
    have hq0 : q = 0 := by rw [h2.1] at hl3; simp at hl3; omega
    have hun : un = false := by
      cases un with
      | true => exact absurd h2.2 (by simpa using ediLast_ne br (by omega))
      | false => rfl
    subst hun
    simp only [Bool.false_eq_true, ↓reduceIte] at hcond
    have hb : b = [] := List.length_eq_zero_iff.mp (by omega)
    rw [decRun_nil _ _ (by simpa using hnil), h1.2, decRun_nil _ _ rfl, hb]
    simp [h2.1]
  · rw [decRun_edifact _ (by simpa using hnil)]
    simp only []
    cases un with
    | true =>
      simp only [↓reduceIte] at hcond ⊢
      have hr3 : br.length ≤ 3 := by omega
      have hlen : (packEdifact (bq.map (· % 64)) ++ ediLast br ++ tail).length
          = ((ediLast br).length + tail.length - 1 + 2 * q) + 1 + q := by
        simp only [List.length_append, hl3]; omega
      rw [hlen, List.append_assoc, decodeEdifact_quads q bq hlq hcq, decodeEdifact_last _ br tail hr3 hcr hcond]
      simp only [List.length_append, hl3]
      rw [hsplit]
      congr 2
      · omega
      · simp
    | false =>
      simp only [Bool.false_eq_true, ↓reduceIte, List.append_nil] at hcond ⊢
      have hbr0 : br = [] := List.length_eq_zero_iff.mp (by omega)
      have hlen : (packEdifact (bq.map (· % 64)) ++ tail).length = (2 * q + tail.length) + q := by
        simp only [List.length_append, hl3]; omega
      rw [hlen, decodeEdifact_quads q bq hlq hcq, decodeEdifact_short _ tail hcond.2]
      simp only [hl3]
      rw [hsplit, hbr0]
      congr 2
      · omega
      · simp

end DM.Lemmas.Complete
