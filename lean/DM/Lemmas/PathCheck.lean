import DM.Spec.Fill
/-
A checker for vector paths and its soundness: if `pathOK` accepts, the even–odd fill of the
path is exactly the bitmap.
-/
namespace DM.Lemmas
open DM.Spec.Fill

/-- bit of the bitmap (row-major, width `w`), light outside -/
def bmGet (bits : List Bool) (w h : Nat) (x y : Int) : Bool :=
  if 0 ≤ x ∧ x < w ∧ 0 ≤ y ∧ y < h then bits.getD (y.toNat * w + x.toNat) false else false

/-- is the unit vertical edge {x} × [y, y+1] on the boundary between a dark and a light module -/
def vBoundary (bits : List Bool) (w h : Nat) (x y : Nat) : Bool :=
  bmGet bits w h ((x : Int) - 1) y != bmGet bits w h x y

/-- is the unit horizontal edge [x, x+1] × {y} on the boundary -/
def hBoundary (bits : List Bool) (w h : Nat) (x y : Nat) : Bool :=
  bmGet bits w h x ((y : Int) - 1) != bmGet bits w h x y

/-- the checker: the path is well formed and draws every boundary edge exactly once and
nothing else -/
def pathOK (bits : List Bool) (w : Nat) (segs : List Seg) : Bool :=
  let h := if w = 0 then 0 else bits.length / w
  match edges w h segs with
  | none => false
  | some (ve, he) =>
    ((List.range (w + 1)).all fun x => (List.range h).all fun y =>
      ve.count (x, y) == (if vBoundary bits w h x y then 1 else 0)) &&
    ((List.range w).all fun x => (List.range (h + 1)).all fun y =>
      he.count (x, y) == (if hBoundary bits w h x y then 1 else 0)) &&
    ve.all (fun e => decide (e.1 ≤ w) && decide (e.2 < h)) &&
    he.all (fun e => decide (e.1 < w) && decide (e.2 ≤ h))

theorem filter_split {α : Type} [BEq α] [LawfulBEq α] (p q : α → Bool) (a : α)
    (hp : ∀ e, p e = (q e || e == a)) (hq : q a = false) (l : List α) :
    (l.filter p).length = (l.filter q).length + l.count a := by
  induction l with
  | nil => simp
  | cons e l ih =>
    simp only [List.filter_cons, List.count_cons, hp e]
    by_cases he : (e == a) = true
    · have : e = a := by simpa using he
      subst this
      simp [hq, ih]; omega
    · have : (e == a) = false := by simpa using he
      simp only [this, Bool.or_false]
      cases hqe : q e <;> simp [ih] <;> omega

/-- number of edges in row `y` at columns ≤ x, as a sum of counts -/
theorem filter_le_succ (ve : List (Nat × Nat)) (x y : Nat) :
    (ve.filter fun e => e.2 == y && decide (e.1 ≤ x + 1)).length
      = (ve.filter fun e => e.2 == y && decide (e.1 ≤ x)).length + ve.count (x + 1, y) := by
  apply filter_split
  · intro e
    obtain ⟨e1, e2⟩ := e
    have hb : ((e1, e2) == (x + 1, y)) = (decide (e1 = x + 1) && decide (e2 = y)) := by
      rw [Bool.eq_iff_iff]; simp
    rw [hb]
    by_cases h2 : e2 = y <;> by_cases h1 : e1 ≤ x <;> by_cases h3 : e1 = x + 1 <;>
      simp [h2, h1, h3] <;> omega
  · simp

theorem filter_false_length {α : Type} (l : List α) : (l.filter fun _ => false).length = 0 := by
  induction l <;> simp_all

theorem filter_le_zero (ve : List (Nat × Nat)) (y : Nat) :
    (ve.filter fun e => e.2 == y && decide (e.1 ≤ 0)).length = ve.count (0, y) := by
  have := filter_split (fun e : Nat × Nat => e.2 == y && decide (e.1 ≤ 0)) (fun _ => false) (0, y)
    (by
      intro e
      obtain ⟨e1, e2⟩ := e
      have hb : ((e1, e2) == (0, y)) = (decide (e1 = 0) && decide (e2 = y)) := by
        rw [Bool.eq_iff_iff]; simp
      rw [hb]
      by_cases h2 : e2 = y <;> by_cases h1 : e1 = 0 <;> simp [h2, h1])
    rfl ve
  rw [this, filter_false_length]; simp

/-- **boundary parity**: in a row, the number of dark/light changes up to column `x` is odd
iff module `x` is dark. -/
theorem boundary_parity (r : Int → Bool) (hneg : r (-1) = false) (cnt : Nat → Nat) :
    ∀ x : Nat, (∀ x' : Nat, x' ≤ x → cnt x' = if (r ((x' : Int) - 1) != r x') then 1 else 0) →
      ((List.range (x + 1)).map cnt).sum % 2 = if r x then 1 else 0 := by
  intro x
  induction x with
  | zero =>
    intro hc
    simp [hc 0 (Nat.le_refl 0), hneg]
    cases r 0 <;> simp
  | succ x ih =>
    intro hc
    rw [List.range_succ, List.map_append, List.sum_append]
    simp only [List.map_cons, List.map_nil, List.sum_cons, List.sum_nil, Nat.add_zero]
    rw [Nat.add_mod, ih (fun x' hx' => hc x' (by omega)), hc (x + 1) (Nat.le_refl _)]
    have : ((x + 1 : Nat) : Int) - 1 = (x : Int) := by omega
    rw [this]
    cases r x <;> cases r ((x + 1 : Nat) : Int) <;> simp

theorem filter_le_sum (ve : List (Nat × Nat)) (x y : Nat) :
    (ve.filter fun e => e.2 == y && decide (e.1 ≤ x)).length
      = ((List.range (x + 1)).map fun x' => ve.count (x', y)).sum := by
  induction x with
  | zero => exact filter_le_zero ve y
  | succ x ih =>
    rw [filter_le_succ, ih, List.range_succ (n := x + 1), List.map_append, List.sum_append]
    simp

/-- **Soundness of the checker.** -/
theorem checker_sound (bits : List Bool) (w : Nat) (segs : List Seg)
    (hok : pathOK bits w segs = true) :
    ∃ ve he, edges w (if w = 0 then 0 else bits.length / w) segs = some (ve, he) ∧
      ∀ x y, x < w → y < (if w = 0 then 0 else bits.length / w) →
        dark ve x y = bits.getD (y * w + x) false := by
  unfold pathOK at hok
  simp only [] at hok
  generalize hh : (if w = 0 then 0 else bits.length / w) = h at hok ⊢
  split at hok
  · simp at hok
  rename_i ve he hedges
  refine ⟨ve, he, hedges, ?_⟩
  simp only [Bool.and_eq_true, List.all_eq_true, List.mem_range, beq_iff_eq] at hok
  obtain ⟨⟨⟨hv, _⟩, _⟩, _⟩ := hok
  intro x y hx hy
  unfold dark
  rw [filter_le_sum]
  have hpar := boundary_parity (fun i => bmGet bits w h i y) (by simp [bmGet])
    (fun x' => ve.count (x', y)) x (by
      intro x' hx'
      have := hv x' (by omega) y hy
      simp only [vBoundary] at this
      simpa using this)
  rw [hpar]
  have hget : bmGet bits w h (x : Int) (y : Int) = bits.getD (y * w + x) false := by
    unfold bmGet
    have : (0 : Int) ≤ x ∧ (x : Int) < w ∧ (0 : Int) ≤ y ∧ (y : Int) < h := by omega
    simp [this]
  rw [hget]
  cases bits.getD (y * w + x) false <;> simp

end DM.Lemmas
