import DM.Lemmas.RSSoundBase
namespace DM.Lemmas.RSSound
set_option linter.unusedSimpArgs false
open DM.Model DM.Model.RS DM.Lemmas DM.Lemmas.RSTotal

/-- equation (4): the recurrence on the windows 0 … v-1 -/
def Eq4 (syn w : List Nat) (v : Nat) : Prop :=
  ∀ i, i < v → ∑ j ∈ Finset.range v, gf syn (i + j) * gf w j = gf syn (v + i)

theorem ldCheck_post (syn w y : List Nat) (v : Nat) (hs : Bytes syn) (hw : Bytes w) :
    Post (ldCheck syn w y v) (fun _ => w.length = v ∧ Eq4 syn w v) := by
  unfold ldCheck
  by_cases hwl : w.length = v
  swap
  · simp only [ne_eq, hwl, not_false_eq_true, ↓reduceIte]
    exact Safe_bind Post_throw
  by_cases hyl : y.length = v
  swap
  · simp only [ne_eq, hwl, hyl, not_true_eq_false, not_false_eq_true, ↓reduceIte]
    exact Safe_bind Post_throw
  simp only [ne_eq, hwl, hyl, not_true_eq_false, ↓reduceIte]
  refine Safe_bind ?_
  apply Safe_mono (Safe_forIn_inv _ _ _ (fun _ => True) trivial ?_)
  rotate_left
  · intro i _ _ _
    refine Safe_bind ?_
    apply Safe_mono (Safe_forIn_inv _ _ _ (fun _ : Nat => True) trivial ?_)
    · intro row _
      refine Safe_ite (fun _ => Safe_bind Post_throw) (fun _ => Safe_pure trivial)
    · intro j _ _ _
      exact Safe_bind (Post_at' fun s _ _ => Safe_pure trivial)
  intro _ _
  refine Safe_bind ?_
  apply Safe_mono (Safe_forIn _ _ _
    (fun (rest : List Nat) (_ : PUnit) => ∀ i, i < v → i ∉ rest →
      ∑ j ∈ Finset.range v, gf syn (i + j) * gf w j = gf syn (v + i))
    (fun _ => Eq4 syn w v) ?_ ?_ ?_)
  · intro _ h; exact Safe_pure ⟨trivial, h⟩
  · intro i hi hni
    exact absurd (List.mem_range.mpr hi) hni
  · intro i rest _ hi hI
    refine Safe_bind ?_
    apply Safe_mono (Post_forIn_acc _ _ _ (fun j => gf syn (i + j) * gf w j) (by omega) ?_)
    rotate_left
    · intro j hj b hb
      refine Safe_bind (Post_at' fun s _ hs' => Safe_pure ?_)
      refine ⟨_, rfl, xor_lt_256 hb (gmul_lt' _ _), ?_⟩
      rw [ofNat_gadd, ofNat_gmul' (by rw [hs']; exact hs.getD _) (hw.getD _), hs']
      rfl
    intro row hrow
    refine Safe_bind (Post_at' fun target hlt ht => ?_)
    refine Safe_ite (fun _ => Safe_bind Post_throw) (fun heq => Safe_pure ?_)
    intro i' hi' hni'
    by_cases he : i' = i
    · subst he
      have heq' : row = target := Decidable.of_not_not heq
      rw [← list_sum_range', ← zero_add (List.sum _), ← ofNat_zero', ← hrow.2, heq', ht]
      rfl
    · exact hI i' hi' (by simp [he, hni'])
  · intro _ h i hi; exact h i hi (by simp)


/-- loop rule for `for i in List.range n`: the invariant is indexed by the loop counter -/
theorem Safe_forIn_range {A : String → Prop} {β} (n : Nat) (init : β) (f : Nat → β → R (ForInStep β))
    (I : Nat → β → Prop) (Q : β → Prop) (h0 : I 0 init)
    (hstep : ∀ i, i < n → ∀ b, I i b →
      Safe A (f i b) (fun r => match r with | .yield b' => I (i + 1) b' | .done b' => Q b'))
    (hfin : ∀ b, I n b → Q b) : Safe A (forIn (List.range n) init f) Q := by
  apply Safe_forIn (List.range n) init f
    (fun rest b => ∃ i, i ≤ n ∧ rest = List.range' i (n - i) ∧ I i b) Q
  · exact ⟨0, by omega, by simp [List.range_eq_range'], h0⟩
  · intro a rest b _ hI
    obtain ⟨i, hi, hr, hIi⟩ := hI
    have hlt : i < n := by
      by_contra h
      have : n - i = 0 := by omega
      rw [this] at hr
      simp at hr
    have : n - i = (n - i - 1) + 1 := by omega
    rw [this, List.range'_succ] at hr
    simp only [List.cons.injEq] at hr
    obtain ⟨rfl, hr⟩ := hr
    apply Safe_mono (hstep a hlt b hIi)
    intro r hr'
    cases r with
    | done b' => exact hr'
    | yield b' => exact ⟨a + 1, by omega, by rw [hr]; congr 1, hr'⟩
  · intro b hI
    obtain ⟨i, hi, hr, hIi⟩ := hI
    have : i = n := by
      by_contra h
      have : n - i = (n - i - 1) + 1 := by omega
      rw [this, List.range'_succ] at hr
      simp at hr
    subst this
    exact hfin b hIi

theorem list_sum_filter_range (p : ℕ → Bool) (f : ℕ → GF) (n : ℕ) :
    (((List.range n).filter p).map f).sum = ∑ j ∈ (Finset.range n).filter (fun j => p j = true), f j := by
  induction n with
  | zero => simp
  | succ n ih =>
    rw [List.range_succ, List.filter_append, List.map_append, List.sum_append, ih,
      Finset.range_add_one, Finset.filter_insert]
    by_cases hp : p n = true
    · simp [hp, Finset.sum_insert, add_comm]
    · simp [hp]

/-! ### the initial triangular solve -/

theorem ldInitW_post (syn : List Nat) (v : Nat) (hs : Bytes syn) (hv : 1 ≤ v)
    (hz : ∀ m, m < v - 1 → gf syn m = 0) :
    Post (ldInitW syn v) (fun w => w.length = v ∧ Bytes w ∧ Eq4 syn w v) := by
  unfold ldInitW
  refine Safe_bind (Post_slice fun hs1 hs2 => ?_)
  refine Safe_bind (Post_at' fun pivot _ hpiv => ?_)
  have hlen0 : ((syn.drop v).take (2 * v - 1 + 1 - v)).reverse.length = v := by
    simp only [List.length_reverse, List.length_take, List.length_drop]; omega
  refine Safe_bind ?_
  apply Safe_mono (Safe_forIn_range _ _ _
    (fun i (w : List Nat) => w.length = v ∧ Bytes w ∧
      (∀ i', i' < i → ∑ j ∈ Finset.range v, gf syn (i' + j) * gf w j = gf syn (v + i')) ∧
      (∀ p, p < v - i → gf w p = gf syn (2 * v - 1 - p)))
    (fun w => w.length = v ∧ Bytes w ∧ Eq4 syn w v) ?_ ?_ ?_)
  · intro w h; exact Safe_pure h
  · refine ⟨hlen0, ((hs.drop _).take _).reverse, fun i' hi' => absurd hi' (by omega), ?_⟩
    intro p hp
    rw [gf_reverse (by rw [List.length_reverse] at hlen0; omega)]
    rw [List.length_reverse] at hlen0
    rw [hlen0, gf_take (by omega), gf_drop]
    congr 1; omega
  · intro i hi w ⟨hwl, hwb, hrows, hrest⟩
    refine Safe_bind (Post_at' fun acc0 _ hacc0 => ?_)
    refine Safe_bind ?_
    apply Safe_mono (Post_forIn_acc _ _ _ (fun j => gf syn (i + j) * gf w j)
      (by rw [hacc0]; exact hwb.getD _) ?_)
    rotate_left
    · intro j hj b hb
      refine Safe_bind (Post_at' fun wj _ hwj => ?_)
      refine Safe_bind (Post_at' fun s _ hs' => Safe_pure ?_)
      refine ⟨_, rfl, xor_lt_256 hb (gmul_lt' _ _), ?_⟩
      rw [ofNat_gadd, ofNat_gmul' (by rw [hs']; exact hs.getD _) (by rw [hwj]; exact hwb.getD _),
        hs', hwj]
      rfl
    intro acc hacc
    refine Safe_bind (Post_div' fun hp0 => Safe_pure ?_)
    have hpb : pivot < 256 := by rw [hpiv]; exact hs.getD _
    have hq : gf syn (v - 1) * GF.ofNat (gdivD acc pivot) = GF.ofNat acc := by
      rw [ofNat_gdivD hacc.1 hpb hp0]
      have : gf syn (v - 1) = GF.ofNat pivot := by rw [hpiv]; rfl
      rw [this, mul_div_cancel₀ _ (ofNat_ne_zero hpb hp0)]
    refine ⟨by rw [List.length_set]; exact hwl, hwb.set _ (gdivD_lt _ _), ?_, ?_⟩
    · intro i' hi'
      by_cases he : i' = i
      · subst he
        -- the new row
        have hsplit := Finset.sum_filter_add_sum_filter_not (Finset.range v)
          (fun j => decide (j ≥ v - i') = true)
          (fun j => gf syn (i' + j) * gf (w.set (v - 1 - i') (gdivD acc pivot)) j)
        rw [← hsplit]
        have h1 : ∑ j ∈ (Finset.range v).filter (fun j => decide (j ≥ v - i') = true),
            gf syn (i' + j) * gf (w.set (v - 1 - i') (gdivD acc pivot)) j
            = ∑ j ∈ (Finset.range v).filter (fun j => decide (j ≥ v - i') = true),
              gf syn (i' + j) * gf w j := by
          apply Finset.sum_congr rfl
          intro j hj
          simp only [Finset.mem_filter, Finset.mem_range, decide_eq_true_eq] at hj
          rw [gf_set_ne _ (by omega)]
        have h2 : ∑ j ∈ (Finset.range v).filter (fun j => ¬ (decide (j ≥ v - i') = true)),
            gf syn (i' + j) * gf (w.set (v - 1 - i') (gdivD acc pivot)) j = GF.ofNat acc := by
          rw [Finset.sum_eq_single_of_mem (v - 1 - i')]
          · rw [gf_set_eq _ (by omega)]
            have : i' + (v - 1 - i') = v - 1 := by omega
            rw [this, hq]
          · simp only [Finset.mem_filter, Finset.mem_range, decide_eq_true_eq]; omega
          · intro j hj hne
            simp only [Finset.mem_filter, Finset.mem_range, decide_eq_true_eq] at hj
            rw [hz (i' + j) (by omega), zero_mul]
        rw [h1, h2, hacc.2, list_sum_filter_range, hacc0]
        have h3 : gf syn (v + i') = GF.ofNat (w.getD (v - 1 - i') 0) := by
          have := hrest (v - 1 - i') (by omega)
          rw [← show gf w (v - 1 - i') = GF.ofNat (w.getD (v - 1 - i') 0) from rfl, this]
          congr 1; omega
        rw [← h3]
        have hc : ∀ a b : GF, a + (b + a) = b := by
          intro a b; rw [add_comm b a, ← add_assoc, GF.add_self, zero_add]
        exact hc _ _
      · have hlt : i' < i := by omega
        rw [← hrows i' hlt]
        apply Finset.sum_congr rfl
        intro j _
        by_cases hj : j = v - 1 - i
        · subst hj
          rw [hz (i' + (v - 1 - i)) (by omega), zero_mul, zero_mul]
        · rw [gf_set_ne _ (Ne.symm hj)]
    · intro p hp
      rw [gf_set_ne _ (by omega)]
      exact hrest p (by omega)
  · intro w ⟨hwl, hwb, hrows, _⟩
    exact ⟨hwl, hwb, hrows⟩

/-! ### one iteration of the Levinson–Durbin loop -/

theorem bytes_zipWith_gadd_gmul (c : Nat) (A B : List Nat) (hA : Bytes A) :
    Bytes (List.zipWith (fun a b => gadd a (gmul c b)) A B) := by
  apply bytes_zipWith
  intro a ha b _
  exact xor_lt_256 (hA a ha) (gmul_lt' _ _)

theorem _root_.DM.Lemmas.Bytes.cons_zero {l : List Nat} (h : Bytes l) : Bytes (0 :: l) := Bytes.cons (by omega) h

/-- result of one iteration: a new state satisfying equation (4), or `break` with the recurrence
on the remaining windows `v … t-1` -/
def StepPost (syn : List Nat) (t : Nat) (st : LDSt) (r : Option LDSt) : Prop :=
  match r with
  | some st' => st.v < st'.v ∧ st'.v ≤ t ∧ st'.w.length = st'.v ∧ Bytes st'.w ∧ Eq4 syn st'.w st'.v
  | none => ∀ i, i < t - st.v → window syn (st.w ++ [1]) (st.v + i) = 0

theorem ldStep_post (syn : List Nat) (t : Nat) (st : LDSt) (hs : Bytes syn)
    (hvt : st.v < t) (hw : st.w.length = st.v) (hwb : Bytes st.w) :
    Post (ldStep syn t st) (StepPost syn t st) := by
  obtain ⟨v, w, y⟩ := st
  simp only at hvt hw hwb
  have htmpb : Bytes (w ++ [1]) := hwb.append Bytes.one
  unfold ldStep
  simp only []
  refine Safe_bind (Post_slice fun hs0a hs0b => ?_)
  refine Safe_bind (Post_dot fun hd0 => ?_)
  have heps : GF.ofNat ((List.zipWith gmul ((syn.drop v).take (2 * v + 1 - v)) (w ++ [1])).foldl gadd 0)
      = window syn (w ++ [1]) v :=
    ofNat_dot_slice syn (w ++ [1]) hs htmpb v _ (by simp only [List.length_append, List.length_singleton]; omega)
      (by omega)
  refine Safe_ite (fun hepsne => ?_) (fun hepsz => ?_)
  · -- the regular case
    refine Safe_bind (Post_slice fun _ _ => ?_)
    refine Safe_bind (Post_dot fun _ => ?_)
    refine Safe_bind (Post_div' fun _ => ?_)
    refine Safe_bind (Post_slice fun _ _ => ?_)
    refine Safe_bind (Post_dot fun _ => ?_)
    refine Safe_bind (Post_div' fun _ => ?_)
    refine Safe_bind (Safe_mono (ldCheck_post _ _ _ _ hs ?hb) fun _ hc => Safe_pure
      ⟨by simp only; omega, by simp only; omega, hc.1, ?hb, hc.2⟩)
    · apply Bytes.append
      · apply bytes_zipWith_gadd_gmul
        apply Bytes.append
        · apply bytes_zipWith_gadd_gmul
          exact (hwb.cons_zero).take _
        · exact (hwb.cons_zero).drop _
      · apply Bytes.drop
        apply Bytes.append
        · apply bytes_zipWith_gadd_gmul
          exact (hwb.cons_zero).take _
        · exact (hwb.cons_zero).drop _
  · -- the singular case
    have hwin0 : window syn (w ++ [1]) v = 0 := by
      rw [← heps]
      have : (List.zipWith gmul ((syn.drop v).take (2 * v + 1 - v)) (w ++ [1])).foldl gadd 0 = 0 :=
        Decidable.of_not_not hepsz
      rw [this]; rfl
    refine Safe_bind ?_
    apply Safe_mono (Safe_forIn _ _ _
      (fun (rest : List Nat) (found : Option (Nat × Nat)) =>
        (∀ m sM, found = some (m, sM) → m < t - v) ∧
        (found = none → ∀ i, 1 ≤ i → i < t - v → i ∉ rest → window syn (w ++ [1]) (v + i) = 0))
      (fun (found : Option (Nat × Nat)) =>
        (∀ m sM, found = some (m, sM) → m < t - v) ∧
        (found = none → ∀ i, 1 ≤ i → i < t - v → window syn (w ++ [1]) (v + i) = 0)) ?_ ?_ ?_)
    rotate_left
    · refine ⟨(by intro _ _ h; cases h), ?_⟩
      intro _ i hi1 hit hni
      exact absurd (by simp only [List.mem_filter, List.mem_range, decide_eq_true_eq]; omega) hni
    · intro a rest found ha hI
      simp only [List.mem_filter, List.mem_range, decide_eq_true_eq] at ha
      have hkeep : (∀ m sM, found = some (m, sM) → m < t - v) ∧
          (found = none → window syn (w ++ [1]) (v + a) = 0 →
            ∀ i, 1 ≤ i → i < t - v → i ∉ rest → window syn (w ++ [1]) (v + i) = 0) := by
        refine ⟨hI.1, ?_⟩
        intro hn hwa i hi1 hit hni
        by_cases he : i = a
        · rw [he]; exact hwa
        · exact hI.2 hn i hi1 hit (by simp [he, hni])
      refine Safe_ite (fun hnone => ?_) (fun hsome => Safe_pure ⟨hI.1, fun hn => ?_⟩)
      · refine Safe_bind (Post_slice fun hsa hsb => ?_)
        refine Safe_bind (Post_dot fun hda => ?_)
        have hsig := ofNat_dot_slice syn (w ++ [1]) hs htmpb (v + a) (2 * v + a + 1 - (v + a))
          (by simp only [List.length_append, List.length_singleton]; omega) (by omega)
        refine Safe_ite (fun hne => Safe_pure ⟨?_, ?_⟩) (fun hz => Safe_pure ⟨hI.1, fun hn => ?_⟩)
        · intro m sM h; cases h; exact ha.1
        · intro h; cases h
        · apply hkeep.2 hn
          rw [← hsig]
          have := Decidable.of_not_not hz
          rw [this]; rfl
      · rw [hn] at hsome
        exact absurd rfl hsome
    · intro found hI
      exact ⟨hI.1, fun hn i hi1 hit => hI.2 hn i hi1 hit (by simp)⟩
    intro found hfound
    rcases found with _ | ⟨m, sigmaM⟩
    · apply Safe_pure
      intro i hi
      by_cases h0 : i = 0
      · subst h0; exact hwin0
      · exact hfound.2 rfl i (by omega) hi
    · have hmt := hfound.1 m sigmaM rfl
      simp only []
      -- sigma
      refine Safe_bind ?_
      apply Safe_mono (Safe_forIn_inv _ _ _ (fun _ : List Nat => True) trivial ?_)
      rotate_left
      · intro k _ sigma _
        refine Safe_bind (Post_slice fun _ _ => ?_)
        refine Safe_bind (Post_dot fun _ => Safe_pure trivial)
      intro sigma _
      refine Safe_ite (fun _ => Safe_bind Post_throw) (fun _ => ?_)
      -- iterate w^k
      refine Safe_bind ?_
      apply Safe_mono (Safe_forIn_inv _ _ _ (fun tk : List Nat => Bytes tk) hwb ?_)
      rotate_left
      · intro k _ tk htk
        refine Safe_bind (Post_at' fun s2 _ _ => ?_)
        refine Safe_bind (Post_slice fun _ _ => ?_)
        refine Safe_bind (Post_dot fun _ => ?_)
        refine Safe_bind (Post_at' fun eta _ _ => ?_)
        apply Safe_pure
        simp only [ForInStep.value]
        apply Bytes.map_range
        intro i _
        have hsh : Bytes (0 :: tk.dropLast) := htk.dropLast.cons_zero
        split
        · exact xor_lt_256 (hsh.getD _) (xor_lt_256 (gmul_lt' _ _) (gmul_lt' _ _))
        · exact hsh.getD _
      intro tk htk
      refine Safe_bind (Post_div' fun _ => ?_)
      refine Safe_ite (fun _ => Safe_bind Post_throw) (fun _ => ?_)
      -- gamma
      refine Safe_bind ?_
      apply Safe_mono (Safe_forIn_inv _ _ _ (fun gam : List Nat => Bytes gam) Bytes.nil ?_)
      rotate_left
      · intro i _ gam hgam
        refine Safe_bind (Post_at' fun s3 _ hs3 => ?_)
        refine Safe_bind (Post_slice fun _ _ => ?_)
        refine Safe_bind (Post_dot fun _ => ?_)
        apply Safe_pure
        simp only [ForInStep.value]
        exact hgam.append (Bytes.cons (xor_lt_256 (by rw [hs3]; exact hs.getD _) (dotv_lt _ _)) Bytes.nil)
      intro gam hgam
      refine Safe_bind (Post_at' fun sigma0 _ _ => ?_)
      refine Safe_bind ?_
      apply Safe_mono (Safe_forIn_inv _ _ _ (fun gam : List Nat => Bytes gam) hgam ?_)
      rotate_left
      · intro i _ gam hgam
        refine Safe_bind (Post_at' fun gi _ _ => ?_)
        refine Safe_bind ?_
        apply Safe_mono (Safe_forIn_inv _ _ _ (fun _ : Nat => True) trivial ?_)
        · intro gi' _
          refine Safe_bind (Post_div' fun _ => ?_)
          apply Safe_pure
          simp only [ForInStep.value]
          exact hgam.set _ (gdivD_lt _ _)
        · intro j _ gi' _
          refine Safe_bind (Post_at' fun sg _ _ => ?_)
          exact Safe_pure trivial
      intro gam hgam
      -- update w
      refine Safe_bind ?_
      apply Safe_mono (Safe_forIn_inv _ _ _ (fun tw : List Nat => Bytes tw)
        (htk.append (Bytes.replicate_zero _)) ?_)
      rotate_left
      · intro x hx tw htw
        obtain ⟨i, gi⟩ := x
        simp only [List.mem_map] at hx
        obtain ⟨p, hp, hpe⟩ := hx
        obtain ⟨g, j⟩ := p
        have hg : g < 256 := by
          have h := (List.mem_zipIdx hp).2.2
          rw [h]; exact hgam _ (List.getElem_mem _)
        simp only [Prod.mk.injEq] at hpe
        obtain ⟨rfl, rfl⟩ := hpe
        simp only []
        refine Safe_bind (Post_sub' fun _ => ?_)
        refine Safe_ite (fun _ => Safe_bind Post_throw) (fun _ => ?_)
        refine Safe_ite (fun _ => Safe_bind Post_throw) (fun _ => ?_)
        apply Safe_pure
        simp only [ForInStep.value]
        apply Bytes.set
        · apply Bytes.map_range
          intro q _
          split
          · exact xor_lt_256 (htw.getD _) (gmul_lt' _ _)
          · exact htw.getD _
        · refine xor_lt_256 (Bytes.getD ?_ _) hg
          apply Bytes.map_range
          intro q _
          split
          · exact xor_lt_256 (htw.getD _) (gmul_lt' _ _)
          · exact htw.getD _
      intro tw htw
      refine Safe_bind (Safe_mono (ldCheck_post _ _ _ _ hs htw) fun _ hc => Safe_pure ?_)
      exact ⟨by simp only; omega, by simp only; omega, hc.1, htw, hc.2⟩

/-! ### the loop and the whole locator search -/

theorem window_snoc (syn w : List Nat) (j : Nat) :
    window syn (w ++ [1]) j
      = ∑ i ∈ Finset.range w.length, gf syn (j + i) * gf w i + gf syn (j + w.length) := by
  unfold window
  rw [List.length_append, List.length_singleton, Finset.sum_range_succ, gf_snoc_one, mul_one]
  congr 1
  apply Finset.sum_congr rfl
  intro i hi
  rw [gf_append_left (Finset.mem_range.mp hi)]

theorem window_of_eq4 {syn w : List Nat} {v : Nat} (hw : w.length = v) (h : Eq4 syn w v) :
    ∀ j, j < v → window syn (w ++ [1]) j = 0 := by
  intro j hj
  rw [window_snoc, hw, h j hj, Nat.add_comm j v]
  exact GF.add_self _

/-- the loop invariant -/
def LDInv' (syn : List Nat) (t : Nat) (st : LDSt) : Prop :=
  1 ≤ st.v ∧ st.v ≤ t ∧ st.w.length = st.v ∧ Bytes st.w ∧ Eq4 syn st.w st.v

theorem ldLoop_post (syn : List Nat) (t : Nat) (hs : Bytes syn) (fuel : Nat) :
    ∀ st, LDInv' syn t st → t + 1 ≤ fuel + st.v →
      Post (ldLoop syn t fuel st) (fun st' => LDInv' syn t st' ∧
        ∀ j, j < t → window syn (st'.w ++ [1]) j = 0) := by
  induction fuel with
  | zero =>
    intro st hst hf
    have := hst.2.1
    omega
  | succ f ih =>
    intro st hst hf
    unfold ldLoop
    have hfin : st.v = t → ∀ j, j < t → window syn (st.w ++ [1]) j = 0 := by
      intro hv j hj
      exact window_of_eq4 hst.2.2.1 hst.2.2.2.2 j (by omega)
    refine Safe_ite (fun hlt => ?_) (fun hge => Safe_ok ⟨hst, hfin (by have := hst.2.1; omega)⟩)
    have hstep := ldStep_post syn t st hs hlt hst.2.2.1 hst.2.2.2.1
    revert hstep
    cases ldStep syn t st with
    | error e => intro _; exact Post_error
    | ok r =>
      intro hstep
      cases r with
      | none =>
        have hbr : ∀ i, i < t - st.v → window syn (st.w ++ [1]) (st.v + i) = 0 := hstep
        refine Safe_ok ⟨hst, ?_⟩
        intro j hj
        by_cases hjv : j < st.v
        · exact window_of_eq4 hst.2.2.1 hst.2.2.2.2 j hjv
        · have := hbr (j - st.v) (by omega)
          rwa [show st.v + (j - st.v) = j by omega] at this
      | some st' =>
        have h' : st.v < st'.v ∧ st'.v ≤ t ∧ st'.w.length = st'.v ∧ Bytes st'.w ∧
            Eq4 syn st'.w st'.v := hstep
        exact ih st' ⟨by have := hst.1; omega, h'.2.1, h'.2.2.1, h'.2.2.2.1, h'.2.2.2.2⟩ (by omega)

theorem getD_lt_takeWhile (l : List Nat) (m : Nat) (h : m < (l.takeWhile (· == 0)).length) :
    l.getD m 0 = 0 := by
  induction l generalizing m with
  | nil => simp at h
  | cons a l ih =>
    by_cases ha : a = 0
    · subst ha
      simp only [List.takeWhile_cons, beq_self_eq_true, ↓reduceIte, List.length_cons] at h
      cases m with
      | zero => rfl
      | succ m => exact ih m (by omega)
    · have : (a == 0) = false := by simpa using ha
      simp [List.takeWhile_cons, this] at h

/-- **Levinson–Durbin.** A returned locator is `w ++ [1]` with `1 ≤ |w| ≤ t`, and the recurrence
holds on the windows `0 … t-1`. -/
theorem levinsonDurbin_post (syn : List Nat) (hs : Bytes syn) :
    Post (levinsonDurbin syn) (fun lam => ∃ w : List Nat, lam = w ++ [1] ∧ 1 ≤ w.length ∧
      w.length ≤ syn.length / 2 ∧ Bytes w ∧ ∀ j, j < syn.length / 2 → window syn lam j = 0) := by
  unfold levinsonDurbin
  simp only []
  refine Safe_ite (fun _ => Safe_bind Post_throw) (fun hvt => ?_)
  refine Safe_bind (Post_at' fun pivot _ _ => ?_)
  refine Safe_bind (Post_div' fun _ => ?_)
  refine Safe_bind (Safe_mono (ldInitW_post syn _ hs (by omega) ?_) fun w hw => ?_)
  · intro m hm
    unfold gf
    rw [getD_lt_takeWhile syn m (by omega)]
    rfl
  refine Safe_bind (Safe_mono (ldLoop_post syn (syn.length / 2) hs _ _
    ⟨by simp only; omega, by simp only; omega, hw.1, hw.2.1, hw.2.2⟩ (by simp only; omega))
    fun st hst => ?_)
  apply Safe_pure
  exact ⟨st.w, rfl, by have := hst.1.1; have := hst.1.2.2.1; omega,
    by have := hst.1.2.1; have := hst.1.2.2.1; omega, hst.1.2.2.2.1, hst.2⟩

end DM.Lemmas.RSSound
