/- Lists of bytes. -/
namespace DM.Lemmas

def Bytes (l : List Nat) : Prop := ∀ x ∈ l, x < 256

theorem Bytes.nil : Bytes [] := by intro x hx; simp at hx
theorem Bytes.cons {a : Nat} {l : List Nat} (ha : a < 256) (hl : Bytes l) : Bytes (a :: l) := by
  intro x hx
  rcases List.mem_cons.mp hx with rfl | hx
  · exact ha
  · exact hl x hx
theorem Bytes.tail {a : Nat} {l : List Nat} (h : Bytes (a :: l)) : Bytes l :=
  fun x hx => h x (List.mem_cons_of_mem _ hx)
theorem Bytes.head {a : Nat} {l : List Nat} (h : Bytes (a :: l)) : a < 256 :=
  h a (List.mem_cons_self ..)
theorem Bytes.append {l₁ l₂ : List Nat} (h1 : Bytes l₁) (h2 : Bytes l₂) : Bytes (l₁ ++ l₂) := by
  intro x hx
  rcases List.mem_append.mp hx with h | h
  · exact h1 x h
  · exact h2 x h
theorem Bytes.replicate_zero (n : Nat) : Bytes (List.replicate n 0) := by
  intro x hx
  have := (List.mem_replicate.mp hx).2
  omega

end DM.Lemmas
