import DM.Lemmas.SpecAscii
import DM.Lemmas.EdiRT
/-
The reference decoder (`DM.Spec.Stream`) in EDIFACT mode: one step on a group of three codewords
(four 6-bit values, the UNLATCH value 31 in each of the four slots), the rule "two or fewer
codewords left: back to ASCII", and the three ways the output of the EDIFACT encoder ends.
-/
namespace DM.Lemmas.SpecEdi
open DM.Model DM.Lemmas DM.Lemmas.AsciiRT DM.Lemmas.SpecStep DM.Lemmas.SpecAscii DM.Spec.Stream
open DM.Lemmas.Complete
open DM.Spec.Build (packEdifact)

/-- what one step of the reference decoder does with the group `a b d` in EDIFACT mode -/
def ediGroup (s : St) (a b d : Nat) : St :=
  if a / 4 = 31 then { s with i := s.i + 1, mode := .ascii } else
  if (a % 4) * 16 + b / 16 = 31 then { push s (edifactChar (a / 4)) .edifact with i := s.i + 2, mode := .ascii } else
  if (b % 16) * 4 + d / 64 = 31 then
    { push (push s (edifactChar (a / 4)) .edifact) (edifactChar ((a % 4) * 16 + b / 16)) .edifact with
      i := s.i + 3, mode := .ascii } else
  if d % 64 = 31 then
    { push (push (push s (edifactChar (a / 4)) .edifact) (edifactChar ((a % 4) * 16 + b / 16)) .edifact)
        (edifactChar ((b % 16) * 4 + d / 64)) .edifact with i := s.i + 3, mode := .ascii } else
  { push (push (push (push s (edifactChar (a / 4)) .edifact) (edifactChar ((a % 4) * 16 + b / 16)) .edifact)
      (edifactChar ((b % 16) * 4 + d / 64)) .edifact) (edifactChar (d % 64)) .edifact with i := s.i + 3 }

/-- EDIFACT mode, at least three codewords left: one group is read -/
theorem step_edifact (cw : Array Nat) (s : St) (hm : s.mode = .edifact) (h3 : s.i + 2 < cw.size) :
    step cw s = .ok (some (ediGroup s cw[s.i]! cw[s.i + 1]! cw[s.i + 2]!)) := by
  have hn : ¬ cw.size ≤ s.i := by omega
  have hr : ¬ cw.size - s.i ≤ 2 := by omega
  unfold step ediGroup
  simp only [hm]
  generalize cw[s.i]! = a
  generalize cw[s.i + 1]! = b
  generalize cw[s.i + 2]! = d
  by_cases h1 : a / 4 = 31
  · simp [hn, hr, h1]; rfl
  · by_cases h2 : (a % 4) * 16 + b / 16 = 31
    · simp [hn, hr, h1, h2]; rfl
    · by_cases h3 : (b % 16) * 4 + d / 64 = 31
      · simp [hn, hr, h1, h2, h3]; rfl
      · by_cases h4 : d % 64 = 31
        · simp [hn, hr, h1, h2, h3, h4]; rfl
        · simp [hn, hr, h1, h2, h3, h4]; rfl

/-- EDIFACT mode, one or two codewords left: back to ASCII without reading anything -/
theorem step_edifact_short (cw : Array Nat) (s : St) (hm : s.mode = .edifact) (h1 : s.i < cw.size)
    (h2 : cw.size ≤ s.i + 2) : step cw s = .ok (some { s with mode := .ascii }) := by
  have hn : ¬ cw.size ≤ s.i := by omega
  have hr : cw.size - s.i ≤ 2 := by omega
  unfold step
  simp only [hm]
  simp [hn, hr]
  rfl


/-! ### groups written by the encoder -/

theorem occ_get {cw : Array Nat} {i : Nat} {X : List Nat} (h : Occurs cw i X) (k : Nat) (hk : k < X.length) :
    i + k < cw.size ∧ cw[i + k]! = X[k] := by
  have := h k hk
  rw [List.getElem?_eq_getElem hk] at this
  exact idx this

theorem edifactChar_mod (x : Nat) (h : 32 ≤ x ∧ x ≤ 94) : edifactChar (x % 64) = x := by
  unfold edifactChar
  split <;> omega

theorem push3_emit (s : St) (a b c n : Nat) (m : Mode) :
    { push (push (push s a m) b m) c m with i := s.i + n } = emit s n [a, b, c] m := by
  have h1 : ∀ (o : Array Nat) (a b c : Nat), ((o.push a).push b).push c = o ++ #[a, b, c] := by
    intro o a b c; apply Array.ext'; simp
  have h2 : ∀ (o : Array Mode) (a b c : Mode), ((o.push a).push b).push c = o ++ #[a, b, c] := by
    intro o a b c; apply Array.ext'; simp
  have h3 : Array.replicate 3 m = #[m, m, m] := rfl
  simp [emit, push, h1, h2, h3]

theorem push4_emit (s : St) (a b c d n : Nat) (m : Mode) :
    { push (push (push (push s a m) b m) c m) d m with i := s.i + n } = emit s n [a, b, c, d] m := by
  have h1 : ∀ (o : Array Nat) (a b c d : Nat), (((o.push a).push b).push c).push d = o ++ #[a, b, c, d] := by
    intro o a b c d; apply Array.ext'; simp
  have h2 : ∀ (o : Array Mode) (a b c d : Mode), (((o.push a).push b).push c).push d = o ++ #[a, b, c, d] := by
    intro o a b c d; apply Array.ext'; simp
  have h3 : Array.replicate 4 m = #[m, m, m, m] := rfl
  simp [emit, push, h1, h2, h3]

/-- a complete group of four EDIFACT characters -/
theorem ediGroup_quad (s : St) (x0 x1 x2 x3 : Nat) (h0 : 32 ≤ x0 ∧ x0 ≤ 94) (h1 : 32 ≤ x1 ∧ x1 ≤ 94)
    (h2 : 32 ≤ x2 ∧ x2 ≤ 94) (h3 : 32 ≤ x3 ∧ x3 ≤ 94) :
    ediGroup s ((x0 % 64 * 4 + x1 % 64 / 16) % 256) ((x1 % 64 % 16 * 16 + x2 % 64 / 4) % 256)
      ((x2 % 64 % 4 * 64 + x3 % 64) % 256) = emit s 3 [x0, x1, x2, x3] .edifact := by
  have e0 := edifactChar_mod x0 h0
  have e1 := edifactChar_mod x1 h1
  have e2 := edifactChar_mod x2 h2
  have e3 := edifactChar_mod x3 h3
  have n0 : x0 % 64 ≠ 31 := by omega
  have n1 : x1 % 64 ≠ 31 := by omega
  have n2 : x2 % 64 ≠ 31 := by omega
  have n3 : x3 % 64 ≠ 31 := by omega
  have l0 : x0 % 64 < 64 := by omega
  have l1 : x1 % 64 < 64 := by omega
  have l2 : x2 % 64 < 64 := by omega
  have l3 : x3 % 64 < 64 := by omega
  generalize x0 % 64 = v0 at *
  generalize x1 % 64 = v1 at *
  generalize x2 % 64 = v2 at *
  generalize x3 % 64 = v3 at *
  have a1 : (v0 * 4 + v1 / 16) % 256 / 4 = v0 := by omega
  have a2 : (v0 * 4 + v1 / 16) % 256 % 4 * 16 + (v1 % 16 * 16 + v2 / 4) % 256 / 16 = v1 := by omega
  have a3 : (v1 % 16 * 16 + v2 / 4) % 256 % 16 * 4 + (v2 % 4 * 64 + v3) % 256 / 64 = v2 := by omega
  have a4 : (v2 % 4 * 64 + v3) % 256 % 64 = v3 := by omega
  unfold ediGroup
  rw [a1, a2, a3, a4, if_neg n0, if_neg n1, if_neg n2, if_neg n3, e0, e1, e2, e3, push4_emit]

theorem step_edi_quad (cw : Array Nat) (s : St) (x0 x1 x2 x3 : Nat) (hm : s.mode = .edifact)
    (h0 : 32 ≤ x0 ∧ x0 ≤ 94) (h1 : 32 ≤ x1 ∧ x1 ≤ 94) (h2 : 32 ≤ x2 ∧ x2 ≤ 94) (h3 : 32 ≤ x3 ∧ x3 ≤ 94)
    (ho : Occurs cw s.i (packEdifact [x0 % 64, x1 % 64, x2 % 64, x3 % 64])) :
    step cw s = .ok (some (emit s 3 [x0, x1, x2, x3] .edifact)) := by
  simp only [packEdifact] at ho
  obtain ⟨_, g0⟩ := occ_get ho 0 (by simp)
  obtain ⟨_, g1⟩ := occ_get ho 1 (by simp)
  obtain ⟨g, g2⟩ := occ_get ho 2 (by simp)
  rw [step_edifact cw s hm g]
  simp only [Nat.add_zero, List.getElem_cons_zero, List.getElem_cons_succ] at g0 g1 g2
  rw [g0, g1, g2, ediGroup_quad s x0 x1 x2 x3 h0 h1 h2 h3]

/-- the last group, holding the UNLATCH value in the slot behind the remaining `≤ 3` characters:
the decoder reads the characters, leaves EDIFACT and stands behind the codeword that holds the
UNLATCH value. The group must have three codewords (whatever follows `ediLast` is not looked at). -/
theorem step_edi_last (cw : Array Nat) (s : St) (br : List Nat) (hm : s.mode = .edifact) (hr : br.length ≤ 3)
    (hc : EdiChars br) (ho : Occurs cw s.i (ediLast br)) (h3 : s.i + 2 < cw.size) :
    step cw s = .ok (some { emit s (ediLast br).length br .edifact with mode := .ascii }) := by
  rw [step_edifact cw s hm h3]
  match br, hr, hc, ho with
  | [], _, _, ho =>
    obtain ⟨_, g0⟩ := occ_get ho 0 (by simp [ediLast])
    simp only [ediLast, Nat.add_zero, List.getElem_cons_zero] at g0
    rw [g0]
    simp [ediGroup, emit, ediLast]
  | [x1], _, hc, ho =>
    have e1 := edifactChar_mod x1 (hc x1 (by simp))
    have l1 : x1 % 64 < 64 := by omega
    have n1 : x1 % 64 ≠ 31 := by have := hc x1 (by simp); omega
    obtain ⟨_, g0⟩ := occ_get ho 0 (by simp [ediLast])
    obtain ⟨_, g1⟩ := occ_get ho 1 (by simp [ediLast])
    simp only [ediLast, Nat.add_zero, List.getElem_cons_zero, List.getElem_cons_succ] at g0 g1
    rw [g0, g1]
    generalize x1 % 64 = v1 at *
    have a1 : (v1 * 4 + 31 / 16) % 256 / 4 = v1 := by omega
    have a2 : (v1 * 4 + 31 / 16) % 256 % 4 * 16 + (31 % 16 * 16 + 0 / 4) % 256 / 16 = 31 := by omega
    unfold ediGroup
    rw [a1, a2, if_neg n1, if_pos rfl, e1]
    simp [emit, push, ediLast]
  | [x1, x2], _, hc, ho =>
    have e1 := edifactChar_mod x1 (hc x1 (by simp))
    have e2 := edifactChar_mod x2 (hc x2 (by simp))
    have l1 : x1 % 64 < 64 := by omega
    have l2 : x2 % 64 < 64 := by omega
    have n1 : x1 % 64 ≠ 31 := by have := hc x1 (by simp); omega
    have n2 : x2 % 64 ≠ 31 := by have := hc x2 (by simp); omega
    obtain ⟨_, g0⟩ := occ_get ho 0 (by simp [ediLast])
    obtain ⟨_, g1⟩ := occ_get ho 1 (by simp [ediLast])
    obtain ⟨_, g2⟩ := occ_get ho 2 (by simp [ediLast])
    simp only [ediLast, Nat.add_zero, List.getElem_cons_zero, List.getElem_cons_succ] at g0 g1 g2
    rw [g0, g1, g2]
    generalize x1 % 64 = v1 at *
    generalize x2 % 64 = v2 at *
    have a1 : (v1 * 4 + v2 / 16) % 256 / 4 = v1 := by omega
    have a2 : (v1 * 4 + v2 / 16) % 256 % 4 * 16 + (v2 % 16 * 16 + 31 / 4) % 256 / 16 = v2 := by omega
    have a3 : (v2 % 16 * 16 + 31 / 4) % 256 % 16 * 4 + (31 % 4 * 64 + 0) % 256 / 64 = 31 := by omega
    unfold ediGroup
    rw [a1, a2, a3, if_neg n1, if_neg n2, if_pos rfl, e1, e2]
    have := push2_emit s x1 x2 3 .edifact
    simp [emit, push, ediLast] at this ⊢
    exact this
  | [x1, x2, x3], _, hc, ho =>
    have e1 := edifactChar_mod x1 (hc x1 (by simp))
    have e2 := edifactChar_mod x2 (hc x2 (by simp))
    have e3 := edifactChar_mod x3 (hc x3 (by simp))
    have l1 : x1 % 64 < 64 := by omega
    have l2 : x2 % 64 < 64 := by omega
    have l3 : x3 % 64 < 64 := by omega
    have n1 : x1 % 64 ≠ 31 := by have := hc x1 (by simp); omega
    have n2 : x2 % 64 ≠ 31 := by have := hc x2 (by simp); omega
    have n3 : x3 % 64 ≠ 31 := by have := hc x3 (by simp); omega
    obtain ⟨_, g0⟩ := occ_get ho 0 (by simp [ediLast])
    obtain ⟨_, g1⟩ := occ_get ho 1 (by simp [ediLast])
    obtain ⟨_, g2⟩ := occ_get ho 2 (by simp [ediLast])
    simp only [ediLast, Nat.add_zero, List.getElem_cons_zero, List.getElem_cons_succ] at g0 g1 g2
    rw [g0, g1, g2]
    generalize x1 % 64 = v1 at *
    generalize x2 % 64 = v2 at *
    generalize x3 % 64 = v3 at *
    have a1 : (v1 * 4 + v2 / 16) % 256 / 4 = v1 := by omega
    have a2 : (v1 * 4 + v2 / 16) % 256 % 4 * 16 + (v2 % 16 * 16 + v3 / 4) % 256 / 16 = v2 := by omega
    have a3 : (v2 % 16 * 16 + v3 / 4) % 256 % 16 * 4 + (v3 % 4 * 64 + 31) % 256 / 64 = v3 := by omega
    have a4 : (v3 % 4 * 64 + 31) % 256 % 64 = 31 := by omega
    unfold ediGroup
    rw [a1, a2, a3, a4, if_neg n1, if_neg n2, if_neg n3, if_pos rfl, e1, e2, e3]
    have := push3_emit s x1 x2 x3 3 .edifact
    simp [emit, push, ediLast] at this ⊢
    exact this
  | _ :: _ :: _ :: _ :: _, h, _, _ => simp at h


/-! ### runs of groups -/

/-- `q` complete groups are read in `q` steps -/
theorem steps_ediQuads (cw : Array Nat) : ∀ (q : Nat) (l : List Nat), l.length = 4 * q → EdiChars l → ∀ s : St,
    s.mode = .edifact → Occurs cw s.i (packEdifact (l.map (· % 64))) →
    Steps cw q s (emit s (3 * q) l .edifact) := by
  intro q
  induction q with
  | zero =>
    intro l hl _ s _ _
    have : l = [] := List.length_eq_zero_iff.mp (by omega)
    subst this
    rw [emit_zero]
    exact Steps.refl cw s
  | succ q ih =>
    intro l hl hc s hm ho
    match l, hl, hc, ho with
    | x0 :: x1 :: x2 :: x3 :: t, hl, hc, ho =>
      have h0 := hc x0 (by simp)
      have h1 := hc x1 (by simp)
      have h2 := hc x2 (by simp)
      have h3 := hc x3 (by simp)
      have hsplit : packEdifact ((x0 :: x1 :: x2 :: x3 :: t).map (· % 64)) =
          packEdifact [x0 % 64, x1 % 64, x2 % 64, x3 % 64] ++ packEdifact (t.map (· % 64)) := by
        simp [packEdifact]
      rw [hsplit] at ho
      have s1 := Steps.one (step_edi_quad cw s x0 x1 x2 x3 hm h0 h1 h2 h3 ho.left)
      have ho2 := ho.right
      have hl3 : (packEdifact [x0 % 64, x1 % 64, x2 % 64, x3 % 64]).length = 3 := by simp [packEdifact]
      rw [hl3] at ho2
      have s2 := ih t (by simp only [List.length_cons] at hl; omega) (fun x hx => hc x (by simp [hx]))
        (emit s 3 [x0, x1, x2, x3] .edifact) (by simpa using hm) (by simpa using ho2)
      have := s1.trans s2
      rw [emit_emit] at this
      have e1 : 1 + q = q + 1 := by omega
      have e2 : 3 + 3 * q = 3 * (q + 1) := by omega
      rw [e1, e2] at this
      simpa using this
    | [], hl, _, _ => simp at hl
    | [_], hl, _, _ => simp at hl; omega
    | [_, _], hl, _, _ => simp at hl; omega
    | [_, _, _], hl, _, _ => simp at hl; omega

/-- the state behind the latch at position `p` and `q` complete groups -/
def ediMid (p q : Nat) (l : List Nat) : St :=
  { i := p + 1 + 3 * q, mode := .edifact, out := l.toArray, trace := Array.replicate l.length .edifact,
    latches := #[(p, .edifact)] }

/-- latch 240 and the complete groups, from the start state at position `p` -/
theorem steps_edifact (cw : Array Nat) (p q : Nat) (l : List Nat) (hl : l.length = 4 * q) (hc : EdiChars l)
    (ho : Occurs cw p (240 :: packEdifact (l.map (· % 64)))) :
    Steps cw (1 + q) { i := p } (ediMid p q l) := by
  have s1 := Steps.one (step_latch cw { i := p } 240 .edifact ho.head rfl (by simp))
  have s2 := steps_ediQuads cw q l hl hc (latch { i := p } .edifact) rfl ho.tail
  have := s1.trans s2
  have e : emit (latch { i := p } .edifact) (3 * q) l .edifact = ediMid p q l := by
    simp [emit, latch, ediMid]
  rw [e] at this
  exact this

/-- the padding area (or the end of the symbol) behind the encoder's last codeword -/
theorem pad_tail (cwl : List Nat) (s s0 : St) (n fuel : Nat) (hs : Steps cwl.toArray n s0 s) (hf : n + 1 < fuel)
    (hm : s.mode = .ascii) (hle : s.i ≤ cwl.length)
    (h129 : s.i < cwl.length → cwl.getD s.i 0 = 129)
    (hpads : ∀ i, s.i < i → i < cwl.length → unrand253 (cwl.getD i 0) (i + 1) = 129) :
    run cwl.toArray fuel s0 =
      .ok { s with i := cwl.length, padAt := if s.i = cwl.length then s.padAt else some s.i } := by
  by_cases hfull : s.i = cwl.length
  · rw [if_pos hfull]
    have : ({ s with i := cwl.length, padAt := s.padAt } : St) = s := by
      cases s; simp only [] at hfull; subst hfull; rfl
    rw [this]
    exact hs.finish (step_end _ _ (by simp; omega)) (by omega)
  · rw [if_neg hfull]
    have hlt : s.i < cwl.length := by omega
    have hpad : step cwl.toArray s = .ok (some { s with i := cwl.length, padAt := some s.i }) := by
      have hc : cwl.toArray[s.i]? = some 129 := by
        simp only [List.getElem?_toArray]
        have := h129 hlt
        rw [List.getD_eq_getElem?_getD, List.getElem?_eq_getElem hlt] at this
        rw [List.getElem?_eq_getElem hlt]
        simpa using this
      rw [step_pad _ _ hc hm]
      · simp
      · intro j h1 h2
        rw [getBang_toArray]
        exact hpads j h1 (by simpa using h2)
    exact (hs.trans (Steps.one hpad)).finish (step_end _ _ (by simp)) (by omega)

/-! ### the three ends of an EDIFACT run -/

def ediFinalU (p n : Nat) (body : List Nat) (padAt : Option Nat) : St :=
  { i := n, mode := .ascii, out := body.toArray, trace := Array.replicate body.length .edifact,
    latches := #[(p, .edifact)], padAt := padAt }

def ediFinalA (p n q : Nat) (body : List Nat) (m : Mode) (padAt : Option Nat) : St :=
  { i := n, mode := m, out := body.toArray,
    trace := Array.replicate (4 * q) .edifact ++ Array.replicate (body.length - 4 * q) .ascii,
    latches := #[(p, .edifact)], padAt := padAt }

theorem occurs_ediC (cwl pre body X : List Nat) (q L : Nat) (hq : 4 * q ≤ body.length)
    (hL : L = pre.length + (1 + 3 * q) + X.length)
    (htake : cwl.take L = pre ++ EdiRT.ediC body q ++ X) :
    Occurs cwl.toArray pre.length (EdiRT.ediC body q) ∧ Occurs cwl.toArray (pre.length + 1 + 3 * q) X := by
  have hlen := EdiRT.ediC_length body q hq
  have h1 : cwl.take (pre.length + (EdiRT.ediC body q ++ X).length) = pre ++ (EdiRT.ediC body q ++ X) := by
    rw [List.length_append, hlen, ← Nat.add_assoc, ← hL, htake, List.append_assoc]
  have ho := occurs_of_take cwl pre _ h1
  refine ⟨ho.left, ?_⟩
  have := ho.right
  rw [hlen] at this
  simpa [Nat.add_assoc] using this

/-- **UNLATCH end.** `pre ++ 240 ++ groups ++ last group with the UNLATCH value ++ padding`, at least
three codewords from the start of the last group. -/
theorem spec_run_edi_unlatch (cwl pre body : List Nat) (q L : Nat) (hc : EdiChars body) (hq : 4 * q ≤ body.length)
    (hr : body.length - 4 * q ≤ 3)
    (hL : L = pre.length + (1 + 3 * q) + (ediLast (body.drop (4 * q))).length) (hlen : L ≤ cwl.length)
    (htake : cwl.take L = pre ++ EdiRT.ediC body q ++ ediLast (body.drop (4 * q)))
    (hthree : pre.length + 1 + 3 * q + 3 ≤ cwl.length)
    (h129 : L < cwl.length → cwl.getD L 0 = 129)
    (hpads : ∀ i, L < i → i < cwl.length → unrand253 (cwl.getD i 0) (i + 1) = 129) :
    run cwl.toArray (3 * cwl.length + 4) { i := pre.length } =
      .ok (ediFinalU pre.length cwl.length body (if L = cwl.length then none else some L)) := by
  obtain ⟨o1, o2⟩ := occurs_ediC cwl pre body _ q L hq hL htake
  have hcl : EdiChars (body.take (4 * q)) := fun x hx => hc x (List.mem_of_mem_take hx)
  have hcr : EdiChars (body.drop (4 * q)) := fun x hx => hc x (List.mem_of_mem_drop hx)
  have s1 := steps_edifact cwl.toArray pre.length q (body.take (4 * q)) (by simp; omega) hcl o1
  have hstep := step_edi_last cwl.toArray (ediMid pre.length q (body.take (4 * q))) (body.drop (4 * q)) rfl
    (by simp; omega) hcr o2 (by simp [ediMid]; omega)
  have s2 := s1.trans (Steps.one hstep)
  have hfin := pad_tail cwl _ _ _ (3 * cwl.length + 4) s2 (by omega) rfl
    (by simp [ediMid]; omega) (by simp only [emit_i, ediMid]; rw [← Nat.add_assoc] at hL; rw [← hL]; exact h129)
    (by simp only [emit_i, ediMid]; rw [← Nat.add_assoc] at hL; rw [← hL]; exact hpads)
  rw [hfin]
  have hL' : pre.length + 1 + 3 * q + (ediLast (body.drop (4 * q))).length = L := by omega
  simp [ediFinalU, emit, ediMid, hL']
  omega

/-- **ASCII end game / exact fit.** At most two codewords of the symbol are left behind the last
complete group: the decoder is back in ASCII without UNLATCH; the rest of the message stands there
in ASCII encodation (possibly nothing), then padding. -/
theorem spec_run_edi_ascii (cwl pre body : List Nat) (q L : Nat) (hc : EdiChars body) (hq : 4 * q ≤ body.length)
    (hL : L = pre.length + (1 + 3 * q) + (asciiEnc (body.drop (4 * q))).length) (hlen : L ≤ cwl.length)
    (htake : cwl.take L = pre ++ EdiRT.ediC body q ++ asciiEnc (body.drop (4 * q)))
    (htwo : cwl.length ≤ pre.length + 1 + 3 * q + 2)
    (hnil : cwl.length = pre.length + 1 + 3 * q → body.length = 4 * q)
    (h129 : L < cwl.length → cwl.getD L 0 = 129)
    (hpads : ∀ i, L < i → i < cwl.length → unrand253 (cwl.getD i 0) (i + 1) = 129) :
    run cwl.toArray (3 * cwl.length + 4) { i := pre.length } =
      .ok (ediFinalA pre.length cwl.length q body
        (if cwl.length = pre.length + 1 + 3 * q then .edifact else .ascii)
        (if L = cwl.length then none else some L)) := by
  obtain ⟨o1, o2⟩ := occurs_ediC cwl pre body _ q L hq hL htake
  have hcl : EdiChars (body.take (4 * q)) := fun x hx => hc x (List.mem_of_mem_take hx)
  have hb : ByteList (body.drop (4 * q)) := fun x hx => by have := hc x (List.mem_of_mem_drop hx); omega
  have s1 := steps_edifact cwl.toArray pre.length q (body.take (4 * q)) (by simp; omega) hcl o1
  by_cases hex : cwl.length = pre.length + 1 + 3 * q
  · rw [if_pos hex]
    have hbl := hnil hex
    have hLc : L = cwl.length := by omega
    rw [if_pos hLc]
    have := s1.finish (step_end _ _ (by simp [ediMid]; omega)) (fuel := 3 * cwl.length + 4) (by omega)
    rw [this]
    have ht : body.take (4 * q) = body := List.take_of_length_le (by omega)
    simp [ediFinalA, ediMid, ht, hex, hbl]
  · rw [if_neg hex]
    have hstep := step_edifact_short cwl.toArray (ediMid pre.length q (body.take (4 * q))) rfl
      (by simp [ediMid]; omega) (by simp [ediMid]; omega)
    have s2 := s1.trans (Steps.one hstep)
    obtain ⟨k, hk, s3⟩ := steps_asciiEnc cwl.toArray _ (body.drop (4 * q)) (Nat.le_refl _) hb
      { ediMid pre.length q (body.take (4 * q)) with mode := .ascii } rfl o2
    have s4 := s2.trans s3
    have hk2 : k ≤ 2 := by omega
    have hfin := pad_tail cwl _ _ _ (3 * cwl.length + 4) s4 (by omega) rfl
      (by simp [ediMid]; omega) (by simp only [emit_i, ediMid]; rw [← Nat.add_assoc] at hL; rw [← hL]; exact h129)
      (by simp only [emit_i, ediMid]; rw [← Nat.add_assoc] at hL; rw [← hL]; exact hpads)
    rw [hfin]
    have hL' : pre.length + 1 + 3 * q + (asciiEnc (body.drop (4 * q))).length = L := by omega
    simp [ediFinalA, emit, ediMid, hL']
    rw [Nat.min_eq_left hq]


/-! ### EDIFACT stretches inside a message (arbitrary plans)

`SpecSegE X chunk need`: wherever the codewords `X` (the latch 240 included) stand in a stream, the
reference decoder arrives there in ASCII mode and at least `need` further codewords follow, it
reads them as `chunk`, every byte carried by EDIFACT, records the latch, and is back in ASCII mode
behind them. The counterpart of `SpecAscii.SpecSeg`; `need` is what the rule "a group is only read
when three codewords are left" asks for behind the codeword that holds the UNLATCH value. -/

/-- `n` codewords consumed from ASCII mode: latch to EDIFACT, `chunk` produced, back in ASCII -/
def emitE (s : St) (n : Nat) (chunk : List Nat) : St :=
  { s with i := s.i + n, mode := .ascii, cst := {}, out := s.out ++ chunk.toArray,
           trace := s.trace ++ Array.replicate chunk.length .edifact, latches := s.latches.push (s.i, .edifact) }

@[simp] theorem emitE_mode (s : St) (n : Nat) (chunk : List Nat) : (emitE s n chunk).mode = .ascii := rfl
@[simp] theorem emitE_i (s : St) (n : Nat) (chunk : List Nat) : (emitE s n chunk).i = s.i + n := rfl

def SpecSegE (X chunk : List Nat) (need : Nat) : Prop :=
  ∀ (cw : Array Nat) (s : St), s.mode = .ascii → Occurs cw s.i X → s.i + X.length + need ≤ cw.size →
    ∃ k, k ≤ X.length ∧ Steps cw k s (emitE s X.length chunk)

/-- latch 240 and the complete groups, from any ASCII-mode state -/
theorem steps_edifact_from (cw : Array Nat) (s : St) (q : Nat) (l : List Nat) (hm : s.mode = .ascii)
    (hl : l.length = 4 * q) (hc : EdiChars l) (ho : Occurs cw s.i (240 :: packEdifact (l.map (· % 64)))) :
    Steps cw (1 + q) s (emit (latch s .edifact) (3 * q) l .edifact) := by
  have s1 := Steps.one (step_latch cw s 240 .edifact ho.head hm (by simp))
  have s2 := steps_ediQuads cw q l hl hc (latch s .edifact) rfl ho.tail
  exact s1.trans s2

/-- the codewords of an EDIFACT stretch closed by the UNLATCH value: latch, complete groups, last group -/
def ediSegCw (b : List Nat) : List Nat :=
  EdiRT.ediC b (b.length / 4) ++ ediLast (b.drop (4 * (b.length / 4)))

theorem ediSegCw_length (b : List Nat) :
    (ediSegCw b).length = 1 + 3 * (b.length / 4) + (ediLast (b.drop (4 * (b.length / 4)))).length := by
  unfold ediSegCw
  rw [List.length_append, EdiRT.ediC_length b _ (by omega)]

/-- codewords needed behind the last group so that it has three -/
def ediNeed (b : List Nat) : Nat := 3 - (ediLast (b.drop (4 * (b.length / 4)))).length

/-- **An EDIFACT stretch closed by UNLATCH, anywhere in a stream.** -/
theorem specSegE_unlatch (b : List Nat) (hc : EdiChars b) : SpecSegE (ediSegCw b) b (ediNeed b) := by
  intro cw s hm ho hneed
  have hq : 4 * (b.length / 4) ≤ b.length := by omega
  have hlenC := EdiRT.ediC_length b (b.length / 4) hq
  have hcl : EdiChars (b.take (4 * (b.length / 4))) := fun x hx => hc x (List.mem_of_mem_take hx)
  have hcr : EdiChars (b.drop (4 * (b.length / 4))) := fun x hx => hc x (List.mem_of_mem_drop hx)
  have hrl : (b.drop (4 * (b.length / 4))).length ≤ 3 := by simp; omega
  have hlast : 1 ≤ (ediLast (b.drop (4 * (b.length / 4)))).length ∧ (ediLast (b.drop (4 * (b.length / 4)))).length ≤ 3 := by
    match b.drop (4 * (b.length / 4)), hrl with
    | [], _ => simp [ediLast]
    | [_], _ => simp [ediLast]
    | [_, _], _ => simp [ediLast]
    | [_, _, _], _ => simp [ediLast]
    | _ :: _ :: _ :: _ :: _, h => simp at h
  have hlen := ediSegCw_length b
  unfold ediSegCw at ho
  have s1 := steps_edifact_from cw s (b.length / 4) (b.take (4 * (b.length / 4))) hm (by simp; omega) hcl ho.left
  have o2 := ho.right
  rw [hlenC] at o2
  have hstep := step_edi_last cw (emit (latch s .edifact) (3 * (b.length / 4)) (b.take (4 * (b.length / 4))) .edifact)
    (b.drop (4 * (b.length / 4))) rfl hrl hcr (by simpa [latch, Nat.add_assoc] using o2)
    (by simp only [emit_i, latch]; unfold ediNeed at hneed; rw [hlen] at hneed; omega)
  have s2 := s1.trans (Steps.one hstep)
  refine ⟨1 + b.length / 4 + 1, by rw [hlen]; omega, ?_⟩
  have e : ({ emit (emit (latch s .edifact) (3 * (b.length / 4)) (b.take (4 * (b.length / 4))) .edifact)
        (ediLast (b.drop (4 * (b.length / 4)))).length (b.drop (4 * (b.length / 4))) .edifact with mode := .ascii } : St) =
      emitE s (ediSegCw b).length b := by
    rw [emit_emit, List.take_append_drop, hlen]
    simp [emit, emitE, latch, Nat.add_assoc]
  rw [e] at s2
  exact s2

/-- **Complete groups up to two codewords before the end of the symbol** (no UNLATCH): behind the
latch and the groups the decoder is back in ASCII mode, provided one or two codewords follow. -/
theorem steps_edi_short (cw : Array Nat) (s : St) (b : List Nat) (q : Nat) (hm : s.mode = .ascii) (hc : EdiChars b)
    (hb : b.length = 4 * q) (ho : Occurs cw s.i (EdiRT.ediC b q))
    (h1 : s.i + 1 + 3 * q < cw.size) (h2 : cw.size ≤ s.i + 1 + 3 * q + 2) :
    Steps cw (1 + q + 1) s (emitE s (1 + 3 * q) b) := by
  have hq : 4 * q ≤ b.length := by omega
  have ht : b.take (4 * q) = b := List.take_of_length_le (by omega)
  unfold EdiRT.ediC at ho
  rw [ht] at ho
  have s1 := steps_edifact_from cw s q b hm hb hc ho
  have hstep := step_edifact_short cw (emit (latch s .edifact) (3 * q) b .edifact) rfl
    (by simp only [emit_i, latch]; omega) (by simp only [emit_i, latch]; omega)
  have s2 := s1.trans (Steps.one hstep)
  have e : ({ emit (latch s .edifact) (3 * q) b .edifact with mode := .ascii } : St) = emitE s (1 + 3 * q) b := by
    simp [emit, emitE, latch, Nat.add_assoc]
  rw [e] at s2
  exact s2


/-- **Complete groups filling the symbol exactly**: behind the latch and the groups the stream ends;
the decoder stops there, still in EDIFACT mode. -/
theorem steps_edi_exact (cw : Array Nat) (s : St) (b : List Nat) (q : Nat) (hm : s.mode = .ascii) (hc : EdiChars b)
    (hb : b.length = 4 * q) (ho : Occurs cw s.i (EdiRT.ediC b q)) (hx : cw.size = s.i + 1 + 3 * q) :
    Steps cw (1 + q) s (emit (latch s .edifact) (3 * q) b .edifact) ∧
    step cw (emit (latch s .edifact) (3 * q) b .edifact) = .ok none := by
  have ht : b.take (4 * q) = b := List.take_of_length_le (by omega)
  unfold EdiRT.ediC at ho
  rw [ht] at ho
  exact ⟨steps_edifact_from cw s q b hm hb hc ho, step_end _ _ (by simp only [emit_i, latch]; omega)⟩

end DM.Lemmas.SpecEdi
