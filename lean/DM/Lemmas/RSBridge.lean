import DM.Lemmas.RSEncode
import DM.Lemmas.GFSpec
import DM.Model.RSEnc
import DM.Lemmas.Bytes
/-
Bridge between the byte-level model (`Nat` lists, `gadd`/`gmul`), the field-level
algebra (`GF`) and the table-free specification (`Spec.evalS` with `smul`).
-/
namespace DM.Lemmas
open DM.Model DM.Spec

def toG (l : List Nat) : List GF := l.map GF.ofNat

/-- model-level Horner evaluation with table arithmetic -/
def evalN (p : List Nat) (x : Nat) : Nat := p.foldl (fun acc c => gadd (gmul acc x) c) 0

theorem evalN_from_lt (p : List Nat) (x acc : Nat) (hp : Bytes p) (hx : x < 256) (ha : acc < 256) :
    p.foldl (fun acc c => gadd (gmul acc x) c) acc < 256 := by
  induction p generalizing acc with
  | nil => exact ha
  | cons c p ih =>
    exact ih _ hp.tail (xor_lt_256 (gmul_lt ha hx) hp.head)

theorem evalS_eq_evalN_from (p : List Nat) (x acc : Nat) (hp : Bytes p) (hx : x < 256) (ha : acc < 256) :
    p.foldl (fun acc c => smul acc x ^^^ c) acc = p.foldl (fun acc c => gadd (gmul acc x) c) acc := by
  induction p generalizing acc with
  | nil => rfl
  | cons c p ih =>
    simp only [List.foldl_cons]
    rw [← gmul_eq_smul acc ha x hx]
    exact ih _ hp.tail (xor_lt_256 (gmul_lt ha hx) hp.head)

/-- The specification's evaluation agrees with the table arithmetic on bytes. -/
theorem evalS_eq_evalN (p : List Nat) (x : Nat) (hp : Bytes p) (hx : x < 256) :
    evalS p x = evalN p x := evalS_eq_evalN_from p x 0 hp hx (by omega)

theorem ofNat_evalN_from (p : List Nat) (x acc : Nat) (hp : Bytes p) (hx : x < 256) (ha : acc < 256) :
    GF.ofNat (p.foldl (fun acc c => gadd (gmul acc x) c) acc)
      = evalFrom (GF.ofNat acc) (toG p) (GF.ofNat x) := by
  induction p generalizing acc with
  | nil => rfl
  | cons c p ih =>
    have e : toG (c :: p) = GF.ofNat c :: toG p := rfl
    rw [List.foldl_cons, ih _ hp.tail (xor_lt_256 (gmul_lt ha hx) hp.head), e]
    unfold evalFrom
    rw [List.foldl_cons, GF.ofNat_xor, GF.ofNat_gmul ha hx]

theorem ofNat_evalN (p : List Nat) (x : Nat) (hp : Bytes p) (hx : x < 256) :
    GF.ofNat (evalN p x) = evalH (toG p) (GF.ofNat x) :=
  ofNat_evalN_from p x 0 hp hx (by omega)

theorem map_zipWith_of {α β γ δ : Type} (f : γ → δ) (g : α → β → γ) (fa : α → δ) (fb : β → δ)
    (g' : δ → δ → δ) :
    ∀ (A : List α) (B : List β), (∀ a ∈ A, ∀ b ∈ B, f (g a b) = g' (fa a) (fb b)) →
      (List.zipWith g A B).map f = List.zipWith g' (A.map fa) (B.map fb) := by
  intro A
  induction A with
  | nil => intro B _; simp
  | cons a A ih =>
    intro B h
    cases B with
    | nil => simp
    | cons b B =>
      simp only [List.zipWith_cons_cons, List.map_cons]
      rw [h a (List.mem_cons_self ..) b (List.mem_cons_self ..)]
      congr 1
      exact ih B (fun a' ha' b' hb' => h a' (List.mem_cons_of_mem _ ha') b' (List.mem_cons_of_mem _ hb'))

theorem bytes_zipWith (g : Nat → Nat → Nat) (A B : List Nat)
    (h : ∀ a ∈ A, ∀ b ∈ B, g a b < 256) : Bytes (List.zipWith g A B) := by
  induction A generalizing B with
  | nil => simp [Bytes]
  | cons a A ih =>
    cases B with
    | nil => simp [Bytes]
    | cons b B =>
      rw [List.zipWith_cons_cons]
      exact Bytes.cons (h a (List.mem_cons_self ..) b (List.mem_cons_self ..))
        (ih B fun a' ha' b' hb' => h a' (List.mem_cons_of_mem _ ha') b' (List.mem_cons_of_mem _ hb'))

theorem headD_lt {l : List Nat} (h : Bytes l) : l.headD 0 < 256 := by
  cases l with
  | nil => simp
  | cons a l => exact h.head

theorem bytes_tail {l : List Nat} (h : Bytes l) : Bytes l.tail := by
  cases l with
  | nil => exact h
  | cons a l => exact h.tail

theorem eccStep_bytes {gt ecc : List Nat} {a : Nat} (hg : Bytes gt) (he : Bytes ecc) (ha : a < 256) :
    Bytes (eccStep gt ecc a) := by
  unfold eccStep
  apply bytes_zipWith
  intro e hee gj hgj
  have hf : gadd (ecc.headD 0) a < 256 := xor_lt_256 (headD_lt he) ha
  have he' : e < 256 := by
    rcases List.mem_append.mp hee with h | h
    · exact bytes_tail he e h
    · simp at h; omega
  exact xor_lt_256 he' (gmul_lt hf (hg gj hgj))

theorem eccStep_toG {gt ecc : List Nat} {a : Nat} (hg : Bytes gt) (he : Bytes ecc) (ha : a < 256) :
    toG (eccStep gt ecc a) = eccStepG (toG gt) (toG ecc) (GF.ofNat a) := by
  unfold eccStep eccStepG toG
  have hf : gadd (ecc.headD 0) a < 256 := xor_lt_256 (headD_lt he) ha
  have hhead : (List.map GF.ofNat ecc).headD 0 = GF.ofNat (ecc.headD 0) := by
    cases ecc <;> rfl
  have htail : (List.map GF.ofNat ecc).tail ++ [0] = List.map GF.ofNat (ecc.tail ++ [0]) := by
    simp; rfl
  rw [hhead, htail]
  apply map_zipWith_of
  intro e _ gj hgj
  have hf' : ecc.headD 0 ^^^ a < 256 := hf
  rw [GF.ofNat_xor, GF.ofNat_gmul hf' (hg gj hgj), GF.ofNat_xor]

theorem foldl_eccStep {gt : List Nat} (hg : Bytes gt) :
    ∀ (d ecc : List Nat), Bytes d → Bytes ecc →
      Bytes (d.foldl (eccStep gt) ecc) ∧
      toG (d.foldl (eccStep gt) ecc) = (toG d).foldl (eccStepG (toG gt)) (toG ecc) := by
  intro d
  induction d with
  | nil => intro ecc _ he; exact ⟨he, rfl⟩
  | cons a d ih =>
    intro ecc hd he
    have := ih (eccStep gt ecc a) hd.tail (eccStep_bytes hg he hd.head)
    simp only [List.foldl_cons]
    refine ⟨this.1, ?_⟩
    have e : toG (a :: d) = GF.ofNat a :: toG d := rfl
    rw [e, List.foldl_cons, ← eccStep_toG hg he hd.head]
    exact this.2

/-- Byte-level statement: a block `d ++ ecc_block g d` has zero syndrome (computed with the
specification's arithmetic) at every byte `x` which is a root of the monic generator `1 :: gt`. -/
theorem eccBlock_syndrome_zero (gt : List Nat) (hg : Bytes gt) (hk : 0 < gt.length)
    (x : Nat) (hx : x < 256) (hroot : evalN (1 :: gt) x = 0) (d : List Nat) (hd : Bytes d) :
    Bytes (eccBlock (1 :: gt) d) ∧ (eccBlock (1 :: gt) d).length = gt.length ∧
      evalS (d ++ eccBlock (1 :: gt) d) x = 0 := by
  unfold eccBlock
  simp only [List.tail_cons, List.length_cons, Nat.add_sub_cancel]
  have hf := foldl_eccStep hg d (List.replicate gt.length 0) hd (Bytes.replicate_zero _)
  have hlen : (toG gt).length = gt.length := by simp [toG]
  -- root at field level
  have hrootG : (GF.ofNat x) ^ (toG gt).length + evalH (toG gt) (GF.ofNat x) = 0 := by
    have h1 := ofNat_evalN (1 :: gt) x (Bytes.cons (by omega) hg) hx
    rw [hroot] at h1
    have h2 : toG (1 :: gt) = (1 : GF) :: toG gt := rfl
    rw [h2, evalH_cons] at h1
    have h3 : GF.ofNat 0 = 0 := rfl
    rw [h3] at h1
    rw [one_mul] at h1
    exact h1.symm
  have hmain := eccBlockG_root (toG gt) (GF.ofNat x) (by rw [hlen]; exact hk) hrootG (toG d)
  have hz : toG (List.replicate gt.length 0) = List.replicate (toG gt).length 0 := by
    simp only [toG, List.map_replicate, List.length_map]; rfl
  rw [hz] at hf
  refine ⟨hf.1, ?_, ?_⟩
  · have := hmain.1
    rw [← hf.2, hlen] at this
    simpa [toG] using this
  · have hb : Bytes (d ++ d.foldl (eccStep gt) (List.replicate gt.length 0)) := hd.append hf.1
    rw [evalS_eq_evalN _ _ hb hx]
    have h1 := ofNat_evalN _ x hb hx
    have h2 : toG (d ++ d.foldl (eccStep gt) (List.replicate gt.length 0))
        = toG d ++ (toG d).foldl (eccStepG (toG gt)) (List.replicate (toG gt).length 0) := by
      rw [← hf.2]; simp [toG]
    rw [h2, hmain.2] at h1
    have hlt := evalN_from_lt _ x 0 hb hx (by omega)
    exact (GF.ofNat_eq_zero hlt).mp h1

end DM.Lemmas
