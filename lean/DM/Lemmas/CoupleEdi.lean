import DM.Lemmas.Couple
import DM.Lemmas.EdiRT
/-!
# Planner / encoder coupling for EDIFACT

The planner's EDIFACT plan (`EdiP`, stepped by `ediStep` through `GPlan.step`) and the EDIFACT mode encoder
(`edifactEncode` through `encodeMode`) agree:

* `switchSeg_edifact : SwitchSeg .edifact` (and `switchSegP_edifact`, which adds the progress fact
  `w + 2 ≤ ctx'.written`): on a segment that ends with a planned switch the encoder consumes exactly the `k`
  characters the plan was stepped over, writes exactly `ctx'.written - w` codewords, leaves in the planned mode
  with the latch pending, and `switchCost = extra + 12 * codewords`.  The `tooMuch` alternative never occurs.
* `endSeg'_edifact : EndSeg' .edifact`: the segment that runs to the end of the data, in symbol-level form
  (codewords written plus the ASCII size of the tail fit the symbol that holds the priced amount, and exceed the
  priced amount by at most one).  `EndSeg .edifact` as stated in `Couple.lean` is false
  (`endSeg_edifact_false`): `handle_end` appends the UNLATCH value / the codeword 124 whenever the symbol has
  room, and `EdifactPlan::cost` does not price it.  Under the extra hypothesis that the predicted amount fills
  its symbol exactly the original conclusion holds (`endSeg_edifact_exact`).
* `handleEnd_assert_unreachable`: the `assert!(space_left > 2)` of `handle_end` never fires.

Proof shape: `aeB` is the common decision of the planner's look-ahead (`ediInit`) and of `try_ascii_end`;
`PS` describes the plan after `t` steps (`PN`: `ctx.written = w + 3 * (t / 4)`, `EdiP.written = t % 4`, cost `9 t`,
no ASCII end decided at any earlier group boundary; `PA`: ASCII end decided at boundary `4 j`); `EI` is the matching
state of `edifactLoop` (`cw.length = w + 3 * (t / 4)`, `t % 4` symbols buffered).
-/
namespace DM.Lemmas.CoupleEdi
open DM.Model DM.Model.Plan DM.Model.Enc DM.Lemmas.AsciiRT DM.Lemmas.Couple DM.Lemmas.PlanInv

/-- the common decision of `EdifactPlan::step`'s look-ahead and of `try_ascii_end`: the (at most four)
characters `rest` left at a group boundary with `W` codewords written are left to ASCII -/
def aeB (list : List Sym) (W : Nat) (rest : List Nat) : Bool :=
  decide (rest.length ≤ 4) && (decide (asciiSize rest ≤ 2) &&
    match firstBigEnough list (W + asciiSize rest) with
    | some S => decide (dataCw S - (W + asciiSize rest) + asciiSize rest ≤ 2)
    | none => false)

/-! ### encoder side -/

theorem tryAscii_eq (s : St) (sym : List Nat) (hsym : sym.length ≤ s.pos) :
    edifactTryAsciiEnd s sym =
      .ok (if aeB s.list s.cw.length (sym ++ s.rest) = true then some ({ s with pos := s.pos - sym.length }).setAscii else none) := by
  unfold edifactTryAsciiEnd aeB
  have hlen : (sym ++ s.rest).length = sym.length + s.charsLeft := by
    simp [St.rest, St.charsLeft]
  simp only [hlen]
  by_cases h4 : sym.length + s.charsLeft ≤ 4
  · by_cases h2 : asciiSize (sym ++ s.rest) ≤ 2
    · simp only [h4, h2, ↓reduceIte, decide_true, Bool.true_and]
      unfold St.sizeLeft
      cases hf : firstBigEnough s.list (s.cw.length + asciiSize (sym ++ s.rest)) with
      | none => simp
      | some S =>
        simp only []
        by_cases hsp : dataCw S - (s.cw.length + asciiSize (sym ++ s.rest)) + asciiSize (sym ++ s.rest) ≤ 2
        · have h3 : asciiSize (sym ++ s.rest) ≤ dataCw S - (s.cw.length + asciiSize (sym ++ s.rest)) + asciiSize (sym ++ s.rest) := by omega
          simp only [hsp, h3, and_self, ↓reduceIte, decide_true, St.backup, hsym]
        · simp [hsp]
    · simp [h4, h2]
  · simp [h4]

/-! ### planner side -/

/-- the EDIFACT plan after `t` characters, all priced as EDIFACT values -/
structure PN (body : List Nat) (list : List Sym) (p w t : Nat) (q : EdiP) : Prop where
  data : q.ctx.data = body
  lst : q.ctx.list = list
  pos : q.ctx.pos = p + t
  wr : q.ctx.written = w + 3 * (t / 4)
  sym : q.written = t % 4
  ae : q.asciiEnd = none
  cost : q.cost = 9 * t

/-- the EDIFACT plan that decided for an ASCII end at the group boundary `4 * j`, `u` characters later -/
structure PA (body : List Nat) (list : List Sym) (p w j u : Nat) (q : EdiP) : Prop where
  data : q.ctx.data = body
  lst : q.ctx.list = list
  pos : q.ctx.pos = p + 4 * j + u
  wr : q.ctx.written = w + 3 * j
  sym : q.written = 0
  ae : q.asciiEnd = some (asciiSize (body.drop (p + 4 * j)) * (12 / (body.length - (p + 4 * j))))
  cost : q.cost = 36 * j + u * (asciiSize (body.drop (p + 4 * j)) * (12 / (body.length - (p + 4 * j))))

theorem sizeLeft_eq (c : Ctx) (n : Nat) :
    c.sizeLeft n = match firstBigEnough c.list (c.written + n) with
      | some s => some (dataCw s - (c.written + n))
      | none => none := rfl

theorem ediInit_fire {body list p w t} (q : EdiP) (h : PN body list p w t q) (h0 : t % 4 = 0) (hlt : p + t < body.length)
    (hae : aeB list (w + 3 * (t / 4)) (body.drop (p + t)) = true) :
    ediInit q = .ok (some { q with asciiEnd := some (asciiSize (body.drop (p + t)) * (12 / (body.length - (p + t)))) }) := by
  unfold aeB at hae
  simp only [Bool.and_eq_true, decide_eq_true_eq, List.length_drop] at hae
  obtain ⟨h4, h2, h3⟩ := hae
  unfold ediInit
  have hcl : q.ctx.charsLeft = body.length - (p + t) := by simp [Ctx.charsLeft, h.data, h.pos]
  have hrest : q.ctx.rest = body.drop (p + t) := by simp [Ctx.rest, h.data, h.pos]
  have hc : q.written = 0 ∧ q.ctx.charsLeft ≤ 4 ∧ q.asciiEnd.isNone = true := by
    refine ⟨by rw [h.sym]; exact h0, by rw [hcl]; exact h4, by simp [h.ae]⟩
  rw [if_pos hc]
  simp only [hrest, hcl, h2, ↓reduceIte, sizeLeft_eq, h.lst, h.wr]
  cases hf : firstBigEnough list (w + 3 * (t / 4) + asciiSize (body.drop (p + t))) with
  | none => rw [hf] at h3; simp at h3
  | some S =>
    rw [hf] at h3
    simp only [decide_eq_true_eq] at h3
    simp only [h3, ↓reduceIte]
    have hcl4 : body.length - (p + t) = 1 ∨ body.length - (p + t) = 2 ∨ body.length - (p + t) = 3 ∨ body.length - (p + t) = 4 := by
      omega
    unfold frac
    rcases hcl4 with e | e | e | e <;> simp [e]

theorem ediInit_nofire {body list p w t} (q : EdiP) (h : PN body list p w t q)
    (hae : t % 4 = 0 → aeB list (w + 3 * (t / 4)) (body.drop (p + t)) = false) :
    ediInit q = .ok none ∨ ediInit q = .ok (some q) := by
  unfold ediInit
  have hcl : q.ctx.charsLeft = body.length - (p + t) := by simp [Ctx.charsLeft, h.data, h.pos]
  have hrest : q.ctx.rest = body.drop (p + t) := by simp [Ctx.rest, h.data, h.pos]
  by_cases hc : q.written = 0 ∧ q.ctx.charsLeft ≤ 4 ∧ q.asciiEnd.isNone = true
  · rw [if_pos hc]
    have h0 : t % 4 = 0 := by rw [← h.sym]; exact hc.1
    have hae := hae h0
    unfold aeB at hae
    have h4 : (body.drop (p + t)).length ≤ 4 := by simp only [List.length_drop]; rw [← hcl]; exact hc.2.1
    simp only [h4, decide_true, Bool.true_and] at hae
    simp only [hrest, hcl, sizeLeft_eq, h.lst, h.wr]
    by_cases h2 : asciiSize (body.drop (p + t)) ≤ 2
    · simp only [h2, decide_true, Bool.true_and] at hae
      simp only [h2, ↓reduceIte]
      cases hf : firstBigEnough list (w + 3 * (t / 4) + asciiSize (body.drop (p + t))) with
      | none => left; rfl
      | some S =>
        rw [hf] at hae
        simp only [decide_eq_false_iff_not] at hae
        simp only [hae, ↓reduceIte]
        right; trivial
    · simp only [h2, ↓reduceIte]; right; trivial
  · rw [if_neg hc]; right; trivial

theorem ediStep_end (q : EdiP) (h : q.ctx.hasMore = false) :
    ediStep q = .ok (some (q, { «end» := true, unbeatable := q.asciiEnd.isSome })) := by
  unfold ediStep
  simp [h]

theorem ediStep_more_end (q q1 : EdiP) (r : StepResult) (h : q.ctx.hasMore = true) (hs : ediStep q = .ok (some (q1, r))) :
    r.end = false := by
  unfold ediStep at hs
  simp only [h, Bool.not_true, Bool.false_eq_true, ↓reduceIte] at hs
  split at hs
  · cases hs
  · cases hs
  · split at hs
    · cases hs; rfl
    · split at hs
      · cases hs
      · cases hs; rfl

theorem hasMore_PN {body list p w t} {q : EdiP} (h : PN body list p w t q) : q.ctx.hasMore = decide (p + t < body.length) := by
  simp [Ctx.hasMore, h.data, h.pos]

theorem hasMore_PA {body list p w j u} {q : EdiP} (h : PA body list p w j u q) :
    q.ctx.hasMore = decide (p + 4 * j + u < body.length) := by
  simp [Ctx.hasMore, h.data, h.pos]

theorem ediStep_fire {body list p w j} (q : EdiP) (h : PN body list p w (4 * j) q) (hlt : p + 4 * j < body.length)
    (hae : aeB list (w + 3 * j) (body.drop (p + 4 * j)) = true) :
    ∃ q1, ediStep q = .ok (some (q1, { «end» := false, unbeatable := true })) ∧ PA body list p w j 1 q1 := by
  have hj : 4 * j / 4 = j := by omega
  have hi := ediInit_fire q h (by omega) hlt (by rw [hj]; exact hae)
  unfold ediStep
  simp only [hasMore_PN h, hlt, decide_true, Bool.not_true, Bool.false_eq_true, ↓reduceIte, hi]
  refine ⟨_, rfl, ?_⟩
  constructor
  · exact h.data
  · exact h.lst
  · simp [Ctx.eat, h.pos]
  · simp only [Ctx.eat, h.wr, hj]
  · simp only [h.sym]; omega
  · rfl
  · simp only [h.cost]; omega

theorem ediStep_nofire {body list p w t} (q : EdiP) (h : PN body list p w t q) (hlt : p + t < body.length)
    (hae : t % 4 = 0 → aeB list (w + 3 * (t / 4)) (body.drop (p + t)) = false) :
    ediStep q = .ok none ∨
    ∃ q1, ediStep q = .ok (some (q1, { «end» := false, unbeatable := false })) ∧ PN body list p w (t + 1) q1 := by
  unfold ediStep
  simp only [hasMore_PN h, hlt, decide_true, Bool.not_true, Bool.false_eq_true, ↓reduceIte]
  rcases ediInit_nofire q h hae with hi | hi
  · left; rw [hi]
  · rw [hi]
    simp only [h.ae]
    by_cases he : ediEncodable q.ctx.peek = true
    · right
      simp only [he, Bool.not_true, Bool.false_eq_true, ↓reduceIte]
      refine ⟨_, rfl, ?_⟩
      by_cases h3 : (q.written + 1) % 4 = 0
      · simp only [h3, ↓reduceIte]
        have := h.sym
        constructor
        · exact h.data
        · exact h.lst
        · simp [Ctx.eat, Ctx.write, h.pos]; omega
        · simp only [Ctx.eat, Ctx.write, h.wr]; omega
        · simp only []; omega
        · rfl
        · simp only [h.cost]; omega
      · simp only [h3, ↓reduceIte]
        have := h.sym
        constructor
        · exact h.data
        · exact h.lst
        · simp [Ctx.eat, h.pos]; omega
        · simp only [Ctx.eat, h.wr]; omega
        · simp only []; omega
        · rfl
        · simp only [h.cost]; omega
    · left
      simp only [he, Bool.not_false, ↓reduceIte]

theorem ediStep_ascii {body list p w j u} (q : EdiP) (h : PA body list p w j u q) (hlt : p + 4 * j + u < body.length) :
    ∃ q1, ediStep q = .ok (some (q1, { «end» := false, unbeatable := true })) ∧ PA body list p w j (u + 1) q1 := by
  have hi : ediInit q = .ok (some q) := by
    unfold ediInit
    have : ¬ (q.written = 0 ∧ q.ctx.charsLeft ≤ 4 ∧ q.asciiEnd.isNone = true) := by
      rw [h.ae]; simp
    rw [if_neg this]
  unfold ediStep
  simp only [hasMore_PA h, hlt, decide_true, Bool.not_true, Bool.false_eq_true, ↓reduceIte, hi, h.ae]
  refine ⟨_, rfl, ?_⟩
  constructor
  · exact h.data
  · exact h.lst
  · simp [Ctx.eat, h.pos]; omega
  · simp only [Ctx.eat, h.wr]
  · exact h.sym
  · rfl
  · simp only [h.cost, Nat.add_mul, Nat.one_mul]; omega

/-! ### the plan along `StepsTo` -/

/-- no ASCII end was decided at the group boundaries before character `n` -/
def NoFire (body : List Nat) (list : List Sym) (p w n : Nat) : Prop :=
  ∀ j, 4 * j < n → aeB list (w + 3 * j) (body.drop (p + 4 * j)) = false

inductive PS (body : List Nat) (list : List Sym) (p w t : Nat) (q : EdiP) : Prop where
  | normal (h : PN body list p w t q) (nf : NoFire body list p w t)
  | ascii (j u : Nat) (ht : t = 4 * j + u) (hu : 1 ≤ u) (h : PA body list p w j u q) (nf : NoFire body list p w (4 * j))
      (fire : aeB list (w + 3 * j) (body.drop (p + 4 * j)) = true)

theorem gstep_some (g g1 : GPlan) (r : StepResult) (q : EdiP) (hp : g.plan = .edifact q) (h : g.step = .ok (some (g1, r))) :
    ∃ q1, ediStep q = .ok (some (q1, r)) ∧ g1.plan = .edifact q1 ∧ g1.extra = g.extra := by
  unfold GPlan.step at h
  rw [hp] at h
  simp only [] at h
  split at h
  · cases h
  · cases h
  · rename_i q1 r1 hs
    cases h
    exact ⟨q1, hs, rfl, rfl⟩

theorem gstep_none (g : GPlan) (q : EdiP) (hp : g.plan = .edifact q) (h : g.step = .ok none) : ediStep q = .ok none := by
  unfold GPlan.step at h
  rw [hp] at h
  simp only [] at h
  split at h
  · cases h
  · assumption
  · cases h

theorem ps_step {body list p w t} (q q1 : EdiP) (r : StepResult) (hps : PS body list p w t q)
    (hs : ediStep q = .ok (some (q1, r))) (hr : r.end = false) : PS body list p w (t + 1) q1 := by
  have hmore : q.ctx.hasMore = true := by
    cases hm : q.ctx.hasMore with
    | true => rfl
    | false =>
      rw [ediStep_end q hm] at hs
      cases hs
      cases hr
  cases hps with
  | normal h nf =>
    have hlt : p + t < body.length := by simpa [hasMore_PN h] using hmore
    by_cases hf : t % 4 = 0 ∧ aeB list (w + 3 * (t / 4)) (body.drop (p + t)) = true
    · obtain ⟨h0, hf⟩ := hf
      obtain ⟨j, rfl⟩ : ∃ j, t = 4 * j := ⟨t / 4, by omega⟩
      have hj : 4 * j / 4 = j := by omega
      rw [hj] at hf
      obtain ⟨q1', hs', hpa⟩ := ediStep_fire q h hlt hf
      rw [hs] at hs'
      cases hs'
      exact .ascii j 1 rfl (Nat.le_refl _) hpa nf hf
    · have hae : t % 4 = 0 → aeB list (w + 3 * (t / 4)) (body.drop (p + t)) = false := by
        intro h0
        cases hb : aeB list (w + 3 * (t / 4)) (body.drop (p + t)) with
        | false => rfl
        | true => exact absurd ⟨h0, hb⟩ hf
      rcases ediStep_nofire q h hlt hae with hn | ⟨q1', hs', hpn⟩
      · rw [hs] at hn; cases hn
      · rw [hs] at hs'
        cases hs'
        refine .normal hpn ?_
        intro j hj
        by_cases hjt : 4 * j < t
        · exact nf j hjt
        · have : t = 4 * j := by omega
          subst this
          have hj4 : 4 * j / 4 = j := by omega
          have := hae (by omega)
          rw [hj4] at this
          exact this
  | ascii j u ht hu h nf fire =>
    have hlt : p + 4 * j + u < body.length := by simpa [hasMore_PA h] using hmore
    obtain ⟨q1', hs', hpa⟩ := ediStep_ascii q h hlt
    rw [hs] at hs'
    cases hs'
    exact .ascii j (u + 1) (by omega) (by omega) hpa nf fire

theorem steps_ps {body list p w} : ∀ (k t : Nat) (g gk : GPlan) (q : EdiP), g.plan = .edifact q → PS body list p w t q →
    StepsTo k g gk → ∃ qk, gk.plan = .edifact qk ∧ gk.extra = g.extra ∧ PS body list p w (t + k) qk := by
  intro k
  induction k with
  | zero =>
    intro t g gk q hp hps hst
    cases hst
    exact ⟨q, hp, rfl, hps⟩
  | succ k ih =>
    intro t g gk q hp hps hst
    obtain ⟨g1, r, hs, hr, hst'⟩ := hst
    obtain ⟨q1, hs1, hp1, he1⟩ := gstep_some g g1 r q hp hs
    obtain ⟨qk, a, b, c⟩ := ih (t + 1) g1 gk q1 hp1 (ps_step q q1 r hps hs1 hr) hst'
    exact ⟨qk, a, b.trans he1, by rw [show t + (k + 1) = t + 1 + k by omega]; exact c⟩

theorem ps_init (body : List Nat) (list : List Sym) (p w : Nat) :
    PS body list p w 0 { ctx := ctxAt body list p w, written := 0, asciiEnd := none, cost := 0 } :=
  .normal ⟨rfl, rfl, rfl, rfl, rfl, rfl, rfl⟩ (fun j hj => by omega)

/-- the plan of a `StepsTo` run from a fresh EDIFACT plan -/
theorem steps_fresh {body list p w k} (g0 gk : GPlan) (h0 : g0.plan = newPlan .edifact (ctxAt body list p w))
    (hst : StepsTo k g0 gk) : ∃ qk, gk.plan = .edifact qk ∧ gk.extra = g0.extra ∧ PS body list p w k qk := by
  have := steps_ps k 0 g0 gk _ h0 (ps_init body list p w) hst
  simpa using this

/-! ### the encoder loop -/

/-- state of `edifactLoop` after `t` characters of the segment that starts at `p` with `w` codewords -/
structure EI (body : List Nat) (list : List Sym) (p w : Nat) (plan : List (Nat × EMode)) (t : Nat) (s : St) (sym : List Nat) :
    Prop where
  input : s.input = body
  lst : s.list = list
  pos : s.pos = p + t
  le : p + t ≤ body.length
  cw : s.cw.length = w + 3 * (t / 4)
  mode : s.mode = .edifact
  plan : s.plan = plan
  newMode : s.newMode = none
  symEq : sym = (body.drop (p + 4 * (t / 4))).take (t % 4)

theorem EI.symLen {body list p w plan t s sym} (h : EI body list p w plan t s sym) : sym.length = t % 4 := by
  rw [h.symEq, List.length_take, List.length_drop]
  have := h.le
  omega

theorem sym_rest {body : List Nat} {P i : Nat} : (body.drop P).take i ++ body.drop (P + i) = body.drop P := by
  rw [← List.drop_drop, List.take_append_drop]

theorem EI.symRest {body list p w plan t s sym} (h : EI body list p w plan t s sym) :
    sym ++ s.rest = body.drop (p + 4 * (t / 4)) := by
  have : s.rest = body.drop (p + 4 * (t / 4) + t % 4) := by
    simp only [St.rest, h.input, h.pos]
    congr 1
    omega
  rw [this, h.symEq, sym_rest]

theorem write4_len (s : St) (sym : List Nat) :
    (write4 s sym).cw.length = s.cw.length + (if sym.length ≥ 2 then (if sym.length ≥ 3 then 3 else 2) else 1) := by
  unfold write4
  simp only []
  split <;> (try split) <;> simp [St.push]

theorem maybeSwitch_stay (s : St) (at_ : Nat) (m : EMode) (rest : List (Nat × EMode)) (hp : s.plan = (at_, m) :: rest)
    (h : at_ = 0 ∨ at_ < s.charsLeft) : s.maybeSwitch = .ok (false, s) := by
  unfold St.maybeSwitch
  rw [hp]
  simp only []
  have h1 : ¬ s.charsLeft < at_ := by omega
  have h2 : ¬ (s.charsLeft > 0 ∧ s.charsLeft = at_) := by omega
  simp only [h1, h2, ↓reduceIte, ne_eq, not_true_eq_false]
  rw [← hp]

theorem maybeSwitch_go (s : St) (at_ : Nat) (m : EMode) (rest : List (Nat × EMode)) (hp : s.plan = (at_, m) :: rest)
    (hcl : s.charsLeft = at_) (hpos : 0 < at_) (hm : m ≠ s.mode) (hn : s.newMode = none) :
    s.maybeSwitch = .ok (true, { s with mode := m, plan := rest, newMode := m.latch }) := by
  unfold St.maybeSwitch
  rw [hp]
  simp only []
  have h1 : ¬ s.charsLeft < at_ := by omega
  have h2 : s.charsLeft > 0 ∧ s.charsLeft = at_ := by omega
  rw [if_neg h1, if_pos h2]
  simp only [ne_eq, hm, not_false_eq_true, ↓reduceIte, hn]
  cases m.latch <;> rfl

/-- `try_ascii_end` on a loop state -/
theorem tryAscii_EI {body list p w plan t s sym} (h : EI body list p w plan t s sym) (s' : St) (hi : s'.input = s.input)
    (hl : s'.list = s.list) (hp : s'.pos = s.pos) (hc : s'.cw = s.cw) :
    edifactTryAsciiEnd s' sym =
      .ok (if aeB list (w + 3 * (t / 4)) (body.drop (p + 4 * (t / 4))) = true
        then some ({ s' with pos := p + 4 * (t / 4) }).setAscii else none) := by
  have hlen := h.symLen
  rw [tryAscii_eq s' sym (by rw [hp, h.pos, hlen]; omega)]
  have hr : s'.rest = s.rest := by simp only [St.rest, hi, hp]
  rw [hr, h.symRest, hl, h.lst, hc, h.cw, hp, h.pos, hlen]
  have : p + t - t % 4 = p + 4 * (t / 4) := by omega
  rw [this]

/-- one round of the loop that reads a character -/
theorem loop_step {body list p w plan t s sym} (h : EI body list p w plan t s sym) (hlt : p + t < body.length)
    (hae : t % 4 = 0 → aeB list (w + 3 * (t / 4)) (body.drop (p + t)) = false) :
    ∃ s2 sym2, EI body list p w plan (t + 1) s2 sym2 ∧
      ∀ f, edifactLoop (f + 1) s sym =
        (match s2.maybeSwitch with
          | .error e => .error e
          | .ok (true, s3) => edifactHandleEnd s3 sym2
          | .ok (false, s3) => edifactLoop f s3 sym2) := by
  have hlen := h.symLen
  have hmore : s.hasMore = true := by simp [St.hasMore, h.input, h.pos, hlt]
  have he : s.eat = some (body[p + t], { s with pos := s.pos + 1 }) := by
    simp only [St.eat]
    rw [List.getElem?_eq_getElem (by rw [h.input, h.pos]; exact hlt)]
    simp [h.input, h.pos]
  have hearly : (if sym.isEmpty = true ∧ s.hasMore = true then edifactTryAsciiEnd s sym else .ok none) = .ok none := by
    by_cases h0 : sym.isEmpty = true ∧ s.hasMore = true
    · rw [if_pos h0, tryAscii_EI h s rfl rfl rfl rfl]
      have hs0 : sym = [] := by simpa using h0.1
      have ht0 : t % 4 = 0 := by rw [← hlen, hs0]; rfl
      have := hae ht0
      have hpt : p + 4 * (t / 4) = p + t := by omega
      rw [hpt, this]
      rfl
    · rw [if_neg h0]
  have hsym1 : sym ++ [body[p + t]] = (body.drop (p + 4 * (t / 4))).take (t % 4 + 1) := by
    have hb : p + 4 * (t / 4) + t % 4 < body.length := by omega
    rw [List.take_add_one, ← h.symEq]
    congr 1
    rw [List.getElem?_drop, List.getElem?_eq_getElem hb]
    simp only [Option.toList_some]
    congr 2
    omega
  by_cases h3 : t % 4 = 3
  · refine ⟨write4 { s with pos := s.pos + 1 } (sym ++ [body[p + t]]), [], ?_, ?_⟩
    · obtain ⟨w1, w2, w3, w4, w5, w6⟩ := DM.Lemmas.EdiRT.write4_same { s with pos := s.pos + 1 } (sym ++ [body[p + t]])
      constructor
      · rw [w2]; exact h.input
      · rw [w3]; exact h.lst
      · rw [w1]; simp only [h.pos]; omega
      · omega
      · have hl4 : (sym ++ [body[p + t]]).length = 4 := by simp [hlen, h3]
        rw [write4_len, hl4]
        simp only [ge_iff_le, Nat.reduceLeDiff, ↓reduceIte, h.cw]
        omega
      · rw [w5]; exact h.mode
      · rw [w4]; exact h.plan
      · rw [w6]; exact h.newMode
      · have : (t + 1) % 4 = 0 := by omega
        rw [this]; simp
    · intro f
      rw [edifactLoop]
      simp only [hearly, he]
      have h4 : (sym ++ [body[p + t]]).length = 4 := by simp [hlen, h3]
      simp only [h4, ↓reduceIte]
      rfl
  · refine ⟨{ s with pos := s.pos + 1 }, sym ++ [body[p + t]], ?_, ?_⟩
    · constructor
      · exact h.input
      · exact h.lst
      · simp only [h.pos]; omega
      · omega
      · simp only [h.cw]; omega
      · exact h.mode
      · exact h.plan
      · exact h.newMode
      · have e1 : (t + 1) / 4 = t / 4 := by omega
        have e2 : (t + 1) % 4 = t % 4 + 1 := by omega
        rw [e1, e2]; exact hsym1
    · intro f
      rw [edifactLoop]
      simp only [hearly, he]
      have h4 : ¬ (sym ++ [body[p + t]]).length = 4 := by simp [hlen]; omega
      simp only [h4, ↓reduceIte]
      rfl

/-- `n` rounds of the loop in which neither an ASCII end is decided nor a switch is due -/
theorem loop_run {body list p w at_ m rest} : ∀ (n t : Nat) (s : St) (sym : List Nat),
    EI body list p w ((at_, m) :: rest) t s sym → p + t + n ≤ body.length →
    (at_ = 0 ∨ at_ + p + t + n < body.length) →
    (∀ j, t ≤ 4 * j → 4 * j < t + n → aeB list (w + 3 * j) (body.drop (p + 4 * j)) = false) →
    ∃ s' sym', EI body list p w ((at_, m) :: rest) (t + n) s' sym' ∧
      ∀ f, edifactLoop (f + n) s sym = edifactLoop f s' sym' := by
  intro n
  induction n with
  | zero =>
    intro t s sym h _ _ _
    exact ⟨s, sym, h, fun f => rfl⟩
  | succ n ih =>
    intro t s sym h hle hat hnf
    have hae : t % 4 = 0 → aeB list (w + 3 * (t / 4)) (body.drop (p + t)) = false := by
      intro h0
      have := hnf (t / 4) (by omega) (by omega)
      rw [show p + 4 * (t / 4) = p + t by omega] at this
      exact this
    obtain ⟨s2, sym2, h2, e2⟩ := loop_step h (by omega) hae
    have hst : s2.maybeSwitch = .ok (false, s2) := by
      apply maybeSwitch_stay s2 at_ m rest h2.plan
      have : s2.charsLeft = body.length - (p + (t + 1)) := by simp [St.charsLeft, h2.input, h2.pos]
      omega
    obtain ⟨s', sym', h', e'⟩ := ih (t + 1) s2 sym2 h2 (by omega) (by omega)
      (fun j h1 h2 => hnf j (by omega) (by omega))
    refine ⟨s', sym', by rw [show t + (n + 1) = t + 1 + n by omega]; exact h', fun f => ?_⟩
    rw [show f + (n + 1) = (f + n) + 1 by omega, e2 (f + n), hst]
    exact e' f

/-- `handle_end` after a planned switch: the partial group with the UNLATCH value (or the lone `124`) -/
theorem handleEnd_switch {body list p w plan k s sym} (h : EI body list p w plan k s sym) (s3 : St) (hi : s3.input = s.input)
    (hl : s3.list = s.list) (hp : s3.pos = s.pos) (hc : s3.cw = s.cw) (hlt : p + k < body.length)
    (hae : aeB list (w + 3 * (k / 4)) (body.drop (p + 4 * (k / 4))) = false) :
    ∃ s', edifactHandleEnd s3 sym = .ok s' ∧ s'.input = body ∧ s'.list = list ∧ s'.pos = p + k ∧
      s'.cw.length = w + 3 * (k / 4) + min (k % 4 + 1) 3 ∧ s'.mode = s3.mode ∧ s'.plan = s3.plan ∧
      s'.newMode = s3.newMode := by
  have hlen := h.symLen
  have hmore : s3.hasMore = true := by simp [St.hasMore, hi, hp, h.input, h.pos, hlt]
  unfold edifactHandleEnd
  rw [tryAscii_EI h s3 hi hl hp hc, hae]
  simp only [Bool.false_eq_true, ↓reduceIte, hmore, Bool.not_true]
  by_cases h0 : sym.isEmpty = true
  · have hs0 : sym = [] := by simpa using h0
    have hk0 : k % 4 = 0 := by rw [← hlen, hs0]; rfl
    simp only [h0, ↓reduceIte]
    refine ⟨_, rfl, ?_, ?_, ?_, ?_, rfl, rfl, rfl⟩
    · simp only [St.push, hi, h.input]
    · simp only [St.push, hl, h.lst]
    · simp only [St.push, hp, h.pos]
    · simp only [St.push, List.length_append, List.length_singleton, hc, h.cw, hk0]; omega
  · simp only [h0, Bool.false_eq_true, ↓reduceIte]
    have hk0 : k % 4 ≠ 0 := by
      intro hk
      rw [hk] at hlen
      exact h0 (by simp [List.length_eq_zero_iff.mp hlen])
    have h3 : ¬ sym.length > 3 := by omega
    simp only [h3, ↓reduceIte]
    obtain ⟨w1, w2, w3, w4, w5, w6⟩ := DM.Lemmas.EdiRT.write4_same s3 (sym ++ [31])
    refine ⟨_, rfl, ?_, ?_, ?_, ?_, w5, w4, w6⟩
    · rw [w2, hi, h.input]
    · rw [w3, hl, h.lst]
    · rw [w1, hp, h.pos]
    · rw [write4_len, hc, h.cw]
      simp only [List.length_append, List.length_singleton, hlen]
      split <;> (try split) <;> omega

/-! ### segment that ends with a planned switch -/

/-- `SwitchSeg` with the progress fact `w + 2 ≤ ctx'.written` (at least two codewords are written) -/
def SwitchSegP (m : EMode) : Prop :=
  ∀ (body : List Nat) (list : List Sym) (p w k : Nat) (g0 gk : GPlan) (ac : Nat) (ctx' : Ctx) (m' : EMode)
    (rest : List (Nat × EMode)) (s : St),
    ByteList body → p + k < body.length → (1 ≤ k ∨ m = .ascii) →
    g0.plan = newPlan m (ctxAt body list p w) →
    StepsTo k g0 gk → SwitchPoint gk → gk.switchCost = some ac → gk.unlatch = .ok ctx' → m' ≠ m →
    EncAt body list s p w m ((body.length - (p + k), m') :: rest) →
    ac = g0.extra + 12 * (ctx'.written - w) ∧ w ≤ ctx'.written ∧ w + 2 ≤ ctx'.written ∧
    ((∃ s', encodeMode s = .ok s' ∧ s'.input = body ∧ s'.list = list ∧ s'.pos = p + k ∧
        s'.cw.length = ctx'.written ∧ s'.mode = m' ∧ s'.plan = rest ∧ s'.newMode = m'.latch) ∨
     (encodeMode s = .error .tooMuch ∧ firstBigEnough list ctx'.written = none))

theorem switchPoint_nofire {body list p w j} (gk : GPlan) (qk : EdiP) (h : PN body list p w (4 * j) qk)
    (hqk : gk.plan = .edifact qk) (hlt : p + 4 * j < body.length) (hsp : SwitchPoint gk) :
    aeB list (w + 3 * j) (body.drop (p + 4 * j)) = false := by
  cases hb : aeB list (w + 3 * j) (body.drop (p + 4 * j)) with
  | false => rfl
  | true =>
    obtain ⟨q1, hs, _⟩ := ediStep_fire qk h hlt hb
    rcases hsp with hn | ⟨g', r, hs', hu, _⟩
    · have := gstep_none gk qk hqk hn
      rw [hs] at this
      cases this
    · obtain ⟨q1', hs1, _, _⟩ := gstep_some gk g' r qk hqk hs'
      rw [hs] at hs1
      cases hs1
      cases hu

theorem switchSegP_edifact : SwitchSegP .edifact := by
  intro body list p w k g0 gk ac ctx' m' rest s _ hpk hk h0 hst hsp hsc hul hm' henc
  obtain ⟨qk, hqk, hex, hps⟩ := steps_fresh g0 gk h0 hst
  have hul' : ediUnlatch qk = .ok ctx' := by
    unfold GPlan.unlatch at hul
    rw [hqk] at hul
    exact hul
  have hk1 : 1 ≤ k := by
    rcases hk with hk | hk
    · exact hk
    · cases hk
  cases hps with
  | ascii j u ht hu h nf fire =>
    unfold ediUnlatch at hul'
    rw [h.ae] at hul'
    cases hul'
  | normal h nf =>
    -- planner side
    have hctx : ctx' = qk.ctx.write (min (qk.written + 1) 3) := by
      unfold ediUnlatch at hul'
      rw [h.ae] at hul'
      simp only [Option.isSome_none, Bool.false_eq_true, ↓reduceIte, Except.ok.injEq] at hul'
      exact hul'.symm
    have hwr : ctx'.written = w + 3 * (k / 4) + min (k % 4 + 1) 3 := by
      rw [hctx]
      simp only [Ctx.write, h.wr, h.sym]
    have hac : ac = ediSwitchCost qk + g0.extra := by
      unfold GPlan.switchCost at hsc
      rw [hqk] at hsc
      simp only [Option.some.injEq] at hsc
      rw [← hex]
      exact hsc.symm
    have hcost : ediSwitchCost qk = 12 * (3 * (k / 4) + min (k % 4 + 1) 3) := by
      simp only [ediSwitchCost, h.sym, h.cost, ceil12]
      split <;> split <;> omega
    have hnf' : ∀ j, 4 * j ≤ k → aeB list (w + 3 * j) (body.drop (p + 4 * j)) = false := by
      intro j hj
      by_cases hjk : 4 * j < k
      · exact nf j hjk
      · have : k = 4 * j := by omega
        subst this
        exact switchPoint_nofire gk qk h hqk hpk hsp
    refine ⟨by rw [hac, hcost, hwr]; omega, by omega, by omega, Or.inl ?_⟩
    -- encoder side
    obtain ⟨e1, e2, e3, e4, e5, e6, e7⟩ := henc
    obtain ⟨k', rfl⟩ : ∃ k', k = k' + 1 := ⟨k - 1, by omega⟩
    have hEI0 : EI body list p w ((body.length - (p + (k' + 1)), m') :: rest) 0 s [] :=
      ⟨e1, e2, by rw [e3]; rfl, by omega, by rw [e4]; rfl, e5, e6, e7, by simp⟩
    obtain ⟨s1, sym1, h1, r1⟩ := loop_run k' 0 s [] hEI0 (by omega) (Or.inr (by omega))
      (fun j _ hj => hnf' j (by omega))
    rw [Nat.zero_add] at h1
    have hae1 : k' % 4 = 0 → aeB list (w + 3 * (k' / 4)) (body.drop (p + k')) = false := by
      intro hk0
      have := hnf' (k' / 4) (by omega)
      rw [show p + 4 * (k' / 4) = p + k' by omega] at this
      exact this
    obtain ⟨s2, sym2, h2, r2⟩ := loop_step h1 (by omega) hae1
    have hgo := maybeSwitch_go s2 (body.length - (p + (k' + 1))) m' rest h2.plan
      (by simp [St.charsLeft, h2.input, h2.pos]) (by omega) (by rw [h2.mode]; exact hm') h2.newMode
    obtain ⟨s', hs', a1, a2, a3, a4, a5, a6, a7⟩ :=
      handleEnd_switch h2 { s2 with mode := m', plan := rest, newMode := m'.latch } rfl rfl rfl rfl hpk
        (hnf' ((k' + 1) / 4) (by omega))
    refine ⟨s', ?_, a1, a2, a3, by rw [a4, hwr], a5, a6, a7⟩
    unfold encodeMode
    rw [e5]
    simp only []
    unfold edifactEncode
    have hfuel : s.charsLeft + 2 = (body.length - p - k' + 1) + 1 + k' := by
      simp only [St.charsLeft, e1, e3]; omega
    rw [hfuel, r1, r2, hgo]
    exact hs'

theorem switchSeg_edifact : SwitchSeg .edifact := by
  intro body list p w k g0 gk ac ctx' m' rest s hb hpk hk h0 hst hsp hsc hul hm' henc
  obtain ⟨a, b, _, c⟩ := switchSegP_edifact body list p w k g0 gk ac ctx' m' rest s hb hpk hk h0 hst hsp hsc hul hm' henc
  exact ⟨a, b, c⟩

/-! ### segment that runs to the end of the data -/

/-- what `EndSeg` concludes about the state the mode encoder leaves (symbol-level form): `n` is the number
of codewords the planner predicted for the segment -/
def EndOK (body : List Nat) (list : List Sym) (w n : Nat) (s' : St) : Prop :=
  s'.input = body ∧ s'.list = list ∧ s'.pos ≤ body.length ∧ s'.newMode = none ∧
  (s'.hasMore = true → s'.mode = .ascii ∧ s'.plan = [(0, .ascii)]) ∧
  w ≤ s'.cw.length ∧
  (∃ S, firstBigEnough list (w + n) = some S ∧ s'.cw.length + asciiSize s'.rest ≤ dataCw S) ∧
  s'.cw.length + asciiSize s'.rest ≤ w + n + 1

theorem aeB_true {list : List Sym} {W : Nat} {rest : List Nat} (h : aeB list W rest = true) :
    rest.length ≤ 4 ∧ asciiSize rest ≤ 2 ∧
    ∃ S, firstBigEnough list (W + asciiSize rest) = some S ∧ dataCw S - (W + asciiSize rest) + asciiSize rest ≤ 2 := by
  unfold aeB at h
  simp only [Bool.and_eq_true, decide_eq_true_eq] at h
  obtain ⟨h4, h2, h3⟩ := h
  refine ⟨h4, h2, ?_⟩
  cases hf : firstBigEnough list (W + asciiSize rest) with
  | none => rw [hf] at h3; cases h3
  | some S => rw [hf] at h3; exact ⟨S, rfl, by simpa using h3⟩

theorem at_end (s : St) (h : s.input.length ≤ s.pos) : s.rest = [] ∧ s.hasMore = false := by
  constructor
  · simp only [St.rest]; rw [List.drop_eq_nil_iff]; exact h
  · simp only [St.hasMore]; simp; exact h

theorem asciiSize_nil : asciiSize [] = 0 := by simp [asciiSize]

/-- the loop at the end of the data -/
theorem loop_end {body list p w plan t s sym} (h : EI body list p w plan t s sym) (hpt : p + t = body.length) (f : Nat) :
    edifactLoop (f + 1) s sym = edifactHandleEnd s sym := by
  have ⟨_, hmore⟩ := at_end s (by rw [h.input, h.pos]; omega)
  have he : s.eat = none := by
    simp only [St.eat]
    rw [List.getElem?_eq_none (by rw [h.input, h.pos]; omega)]
  rw [edifactLoop]
  simp only [hmore, Bool.false_eq_true, and_false, ↓reduceIte, he]

/-- the loop at a group boundary where the ASCII end is decided -/
theorem loop_fire {body list p w plan j s sym} (h : EI body list p w plan (4 * j) s sym) (hlt : p + 4 * j < body.length)
    (hae : aeB list (w + 3 * j) (body.drop (p + 4 * j)) = true) (f : Nat) :
    edifactLoop (f + 1) s sym = .ok ({ s with pos := p + 4 * j }).setAscii := by
  have hj : 4 * j / 4 = j := by omega
  have hlen := h.symLen
  have hs0 : sym = [] := by
    apply List.length_eq_zero_iff.mp
    rw [hlen]; omega
  have hmore : s.hasMore = true := by simp [St.hasMore, h.input, h.pos, hlt]
  rw [edifactLoop]
  have h0 : sym.isEmpty = true ∧ s.hasMore = true := ⟨by rw [hs0]; rfl, hmore⟩
  rw [if_pos h0, tryAscii_EI h s rfl rfl rfl rfl, hj, hae]
  rfl

theorem ceil12_9 (k : Nat) : ceil12 (9 * k) / 12 = 3 * (k / 4) + k % 4 := by
  unfold ceil12
  split <;> omega

/-- `handle_end` at the end of the data, no ASCII end decided before -/
theorem handleEnd_end {body list p w plan k s sym} (h : EI body list p w plan k s sym) (hpk : p + k = body.length)
    (nf : NoFire body list p w k) :
    (∃ s', edifactHandleEnd s sym = .ok s' ∧ EndOK body list w (3 * (k / 4) + k % 4) s') ∨
    (edifactHandleEnd s sym = .error .tooMuch ∧ firstBigEnough list (w + (3 * (k / 4) + k % 4)) = none) := by
  have hlen := h.symLen
  have ⟨hrest, hmore⟩ := at_end s (by rw [h.input, h.pos]; omega)
  unfold edifactHandleEnd
  rw [tryAscii_EI h s rfl rfl rfl rfl]
  by_cases hk0 : k % 4 = 0
  · -- the data ends at a group boundary
    have hs0 : sym = [] := by
      apply List.length_eq_zero_iff.mp
      rw [hlen]; exact hk0
    have hd : body.drop (p + 4 * (k / 4)) = [] := by rw [List.drop_eq_nil_iff]; omega
    rw [hd, hk0, Nat.add_zero]
    cases hb : aeB list (w + 3 * (k / 4)) [] with
    | true =>
      left
      obtain ⟨_, _, S, hS, _⟩ := aeB_true hb
      rw [asciiSize_nil, Nat.add_zero] at hS
      refine ⟨_, rfl, h.input, h.lst, by simp only [St.setAscii]; omega, h.newMode, fun _ => ⟨rfl, rfl⟩, ?_, ?_, ?_⟩
      · simp only [St.setAscii, h.cw]; omega
      · have hr : (({ s with pos := p + 4 * (k / 4) } : St).setAscii).rest = [] := by
          simp only [St.rest, St.setAscii, h.input]; exact hd
        refine ⟨S, hS, ?_⟩
        rw [hr, asciiSize_nil]
        have := DM.Lemmas.X12RT.firstBigEnough_le _ _ _ hS
        simp only [St.setAscii, h.cw]; omega
      · have hr : (({ s with pos := p + 4 * (k / 4) } : St).setAscii).rest = [] := by
          simp only [St.rest, St.setAscii, h.input]; exact hd
        rw [hr, asciiSize_nil]
        simp only [St.setAscii, h.cw]; omega
    | false =>
      simp only [Bool.false_eq_true, ↓reduceIte, hs0, List.isEmpty_nil, hmore, Bool.not_false, St.sizeLeftE, St.sizeLeft,
        h.lst, h.cw, Nat.add_zero]
      cases hf : firstBigEnough list (w + 3 * (k / 4)) with
      | none => right; exact ⟨rfl, rfl⟩
      | some S =>
        left
        have hge := DM.Lemmas.X12RT.firstBigEnough_le _ _ _ hf
        have hbig : dataCw S - (w + 3 * (k / 4)) > 2 := by
          unfold aeB at hb
          simp only [asciiSize_nil, Nat.add_zero, hf, List.length_nil, Nat.zero_le, decide_true, Bool.true_and,
            decide_eq_false_iff_not] at hb
          omega
        have h1 : dataCw S - (w + 3 * (k / 4)) > 0 := by omega
        have h2 : ¬ dataCw S - (w + 3 * (k / 4)) ≤ 2 := by omega
        simp only [h1, h2, ↓reduceIte]
        have hr : ((s.push 124).setAscii).rest = [] := hrest
        refine ⟨_, rfl, h.input, h.lst, by simp only [St.setAscii, St.push, h.pos]; omega, h.newMode,
          fun _ => ⟨rfl, rfl⟩, ?_, ⟨S, hf, ?_⟩, ?_⟩
        · simp only [St.setAscii, St.push, List.length_append, h.cw]; omega
        · rw [hr, asciiSize_nil]
          simp only [St.setAscii, St.push, List.length_append, List.length_singleton, h.cw]; omega
        · rw [hr, asciiSize_nil]
          simp only [St.setAscii, St.push, List.length_append, List.length_singleton, h.cw]; omega
  · -- a partial group is buffered
    have hb := nf (k / 4) (by omega)
    rw [hb]
    have hne : sym.isEmpty = false := by
      cases sym with
      | nil => simp at hlen; omega
      | cons a t => rfl
    have h3 : ¬ k % 4 > 3 := by omega
    simp only [Bool.false_eq_true, ↓reduceIte, hne, hmore, Bool.not_false, St.sizeLeftE, St.sizeLeft, h.lst, h.cw, hlen, h3]
    have hN : w + 3 * (k / 4) + k % 4 = w + (3 * (k / 4) + k % 4) := by omega
    rw [hN]
    cases hf : firstBigEnough list (w + (3 * (k / 4) + k % 4)) with
    | none => right; exact ⟨rfl, rfl⟩
    | some S =>
      left
      have hge := DM.Lemmas.X12RT.firstBigEnough_le _ _ _ hf
      simp only []
      by_cases hroom : dataCw S - (w + (3 * (k / 4) + k % 4)) > 0 ∨ k % 4 = 3
      · rw [if_pos hroom]
        obtain ⟨w1, w2, w3, w4, w5, w6⟩ := DM.Lemmas.EdiRT.write4_same s.setAscii (sym ++ [31])
        have hr : (write4 s.setAscii (sym ++ [31])).rest = [] := by
          simp only [St.rest, w1, w2]; exact hrest
        have hl : (write4 s.setAscii (sym ++ [31])).cw.length = w + 3 * (k / 4) + min (k % 4 + 1) 3 := by
          rw [write4_len]
          simp only [List.length_append, List.length_singleton, hlen, St.setAscii, h.cw]
          split <;> (try split) <;> omega
        refine ⟨_, rfl, by rw [w2]; exact h.input, by rw [w3]; exact h.lst,
          by rw [w1]; simp only [St.setAscii, h.pos]; omega, by rw [w6]; exact h.newMode,
          fun _ => ⟨by rw [w5]; rfl, by rw [w4]; rfl⟩, by rw [hl]; omega, ⟨S, hf, ?_⟩, ?_⟩
        · rw [hr, asciiSize_nil, hl]; omega
        · rw [hr, asciiSize_nil, hl]; omega
      · rw [if_neg hroom]
        obtain ⟨w1, w2, w3, w4, w5, w6⟩ := DM.Lemmas.EdiRT.write4_same s sym
        have hr : (write4 s sym).rest = [] := by
          simp only [St.rest, w1, w2]; exact hrest
        have hmo : (write4 s sym).hasMore = false := by
          simp only [St.hasMore, w1, w2]; exact hmore
        have hl : (write4 s sym).cw.length = w + 3 * (k / 4) + k % 4 := by
          rw [write4_len]
          simp only [hlen, h.cw]
          split <;> (try split) <;> omega
        refine ⟨_, rfl, by rw [w2]; exact h.input, by rw [w3]; exact h.lst,
          by rw [w1, h.pos]; omega, by rw [w6]; exact h.newMode,
          (fun hm => by rw [hmo] at hm; cases hm), by rw [hl]; omega, ⟨S, hf, ?_⟩, ?_⟩
        · rw [hr, asciiSize_nil, hl]; omega
        · rw [hr, asciiSize_nil, hl]; omega

theorem portion_sum (a u : Nat) (h : u = 1 ∨ u = 2 ∨ u = 3 ∨ u = 4) : u * (a * (12 / u)) = 12 * a := by
  rcases h with rfl | rfl | rfl | rfl <;> simp only [Nat.reduceDiv] <;> omega

theorem ceil12_mul (n : Nat) : ceil12 (12 * n) / 12 = n := by
  unfold ceil12
  split <;> omega

/-- the common core of the end-of-data statements: `encodeMode` either leaves a state that is `EndOK` for the
number of codewords the plan priced (rounded up), or reports `tooMuch` and then no symbol holds the priced amount -/
theorem endSeg_core (body : List Nat) (list : List Sym) (p w k : Nat) (g0 gk gE : GPlan) (r : StepResult) (s : St)
    (hpk : p + k = body.length) (h0 : g0.plan = newPlan .edifact (ctxAt body list p w))
    (hst : StepsTo k g0 gk) (hstep : gk.step = .ok (some (gE, r))) (hend : r.end = true)
    (henc : EncAt body list s p w .edifact [(0, .edifact)]) :
    g0.extra ≤ gE.cost ∧
    ((∃ s', encodeMode s = .ok s' ∧ EndOK body list w (ceil12 (gE.cost - g0.extra) / 12) s') ∨
     (encodeMode s = .error .tooMuch ∧ firstBigEnough list (w + ceil12 (gE.cost - g0.extra) / 12) = none)) := by
  obtain ⟨qk, hqk, hex, hps⟩ := steps_fresh g0 gk h0 hst
  obtain ⟨qE, hsE, hpE, heE⟩ := gstep_some gk gE r qk hqk hstep
  have hmore : qk.ctx.hasMore = false := by
    cases hm : qk.ctx.hasMore with
    | false => rfl
    | true =>
      have := ediStep_more_end qk qE r hm hsE
      rw [hend] at this
      cases this
  rw [ediStep_end qk hmore] at hsE
  simp only [Except.ok.injEq, Option.some.injEq, Prod.mk.injEq] at hsE
  have hqE : qE = qk := hsE.1.symm
  subst hqE
  have hcostE : gE.cost = g0.extra + qE.cost := by
    unfold GPlan.cost
    rw [hpE, heE, hex]
  have hdiff : gE.cost - g0.extra = qE.cost := by omega
  refine ⟨by omega, ?_⟩
  rw [hdiff]
  obtain ⟨e1, e2, e3, e4, e5, e6, e7⟩ := henc
  have hEI0 : EI body list p w ((0, .edifact) :: []) 0 s [] :=
    ⟨e1, e2, by rw [e3]; rfl, by omega, by rw [e4]; rfl, e5, e6, e7, by simp⟩
  have hcl : s.charsLeft = k := by simp only [St.charsLeft, e1, e3]; omega
  have hmode : encodeMode s = edifactLoop (s.charsLeft + 2) s [] := by
    unfold encodeMode
    rw [e5]
    rfl
  rw [hmode, hcl]
  cases hps with
  | normal h nf =>
    rw [h.cost, ceil12_9]
    obtain ⟨s1, sym1, h1, r1⟩ := loop_run k 0 s [] hEI0 (by omega) (Or.inl rfl) (fun j _ hj => nf j (by omega))
    rw [Nat.zero_add] at h1
    rw [show k + 2 = (1 + 1) + k by omega, r1, loop_end h1 hpk 1]
    exact handleEnd_end h1 hpk nf
  | ascii j u ht hu h nf fire =>
    subst ht
    left
    obtain ⟨h4, _, S, hS, _⟩ := aeB_true fire
    rw [List.length_drop] at h4
    have hc : body.length - (p + 4 * j) = u := by omega
    have hcost : qE.cost = 12 * (3 * j + asciiSize (body.drop (p + 4 * j))) := by
      rw [h.cost, hc, portion_sum _ u (by omega)]
      omega
    rw [hcost, ceil12_mul]
    obtain ⟨s1, sym1, h1, r1⟩ := loop_run (4 * j) 0 s [] hEI0 (by omega) (Or.inl rfl) (fun j' _ hj => nf j' (by omega))
    rw [Nat.zero_add] at h1
    rw [show 4 * j + u + 2 = (u + 1 + 1) + 4 * j by omega, r1, loop_fire h1 (by omega) fire (u + 1)]
    have hj : 4 * j / 4 = j := by omega
    have hcw := h1.cw
    rw [hj] at hcw
    have hr : (({ s1 with pos := p + 4 * j } : St).setAscii).rest = body.drop (p + 4 * j) := by
      simp only [St.rest, St.setAscii, h1.input]
    have hge := DM.Lemmas.X12RT.firstBigEnough_le _ _ _ hS
    refine ⟨_, rfl, h1.input, h1.lst, by simp only [St.setAscii]; omega, h1.newMode, fun _ => ⟨rfl, rfl⟩, ?_, ⟨S, ?_, ?_⟩, ?_⟩
    · simp only [St.setAscii, hcw]; omega
    · rw [← hS]; congr 1; omega
    · rw [hr]; simp only [St.setAscii, hcw]; omega
    · rw [hr]; simp only [St.setAscii, hcw]; omega

/-- **Segment that runs to the end of the data**, symbol-level form: `EndSeg` with the codeword-count inequality
replaced by "fits in the symbol the planner predicted", plus `w ≤ s'.cw.length` and "at most one codeword more
than priced". -/
def EndSeg' (m : EMode) : Prop :=
  ∀ (body : List Nat) (list : List Sym) (p w k : Nat) (g0 gk gE : GPlan) (r : StepResult) (s : St),
    ByteList body → p + k = body.length → (1 ≤ k ∨ m = .ascii) →
    g0.plan = newPlan m (ctxAt body list p w) →
    StepsTo k g0 gk → gk.step = .ok (some (gE, r)) → r.end = true →
    EncAt body list s p w m [(0, m)] →
    g0.extra ≤ gE.cost ∧
    ((∃ s', encodeMode s = .ok s' ∧ s'.input = body ∧ s'.list = list ∧ s'.pos ≤ body.length ∧ s'.newMode = none ∧
        (s'.hasMore = true → s'.mode = .ascii ∧ s'.plan = [(0, .ascii)]) ∧
        w ≤ s'.cw.length ∧
        (∀ sym, firstBigEnough list (w + ceil12 (gE.cost - g0.extra) / 12) = some sym →
          s'.cw.length + asciiSize s'.rest ≤ dataCw sym) ∧
        s'.cw.length + asciiSize s'.rest ≤ w + ceil12 (gE.cost - g0.extra) / 12 + 1) ∨
     (encodeMode s = .error .tooMuch ∧ firstBigEnough list (w + ceil12 (gE.cost - g0.extra) / 12) = none))

theorem endSeg'_edifact : EndSeg' .edifact := by
  intro body list p w k g0 gk gE r s _ hpk _ h0 hst hstep hend henc
  obtain ⟨hc, hr⟩ := endSeg_core body list p w k g0 gk gE r s hpk h0 hst hstep hend henc
  refine ⟨hc, ?_⟩
  rcases hr with ⟨s', hs', a1, a2, a3, a4, a5, a6, ⟨S, hS, hle⟩, a8⟩ | hr
  · left
    refine ⟨s', hs', a1, a2, a3, a4, a5, a6, ?_, a8⟩
    intro sym hsym
    rw [hS] at hsym
    cases hsym
    exact hle
  · right; exact hr

/-- `EndSeg'` in the stronger form: when the encoder succeeds, the predicted amount does fit a listed symbol -/
theorem endSeg_edifact_strong (body : List Nat) (list : List Sym) (p w k : Nat) (g0 gk gE : GPlan) (r : StepResult) (s : St)
    (hpk : p + k = body.length) (h0 : g0.plan = newPlan .edifact (ctxAt body list p w))
    (hst : StepsTo k g0 gk) (hstep : gk.step = .ok (some (gE, r))) (hend : r.end = true)
    (henc : EncAt body list s p w .edifact [(0, .edifact)]) :
    g0.extra ≤ gE.cost ∧
    ((∃ s', encodeMode s = .ok s' ∧ EndOK body list w (ceil12 (gE.cost - g0.extra) / 12) s') ∨
     (encodeMode s = .error .tooMuch ∧ firstBigEnough list (w + ceil12 (gE.cost - g0.extra) / 12) = none)) :=
  endSeg_core body list p w k g0 gk gE r s hpk h0 hst hstep hend henc

/-! ### the `assert!(space_left > 2)` site of `handle_end` is unreachable -/

theorem tryAscii_err (s : St) (sym : List Nat) (e : EErr) (h : edifactTryAsciiEnd s sym = .error e) :
    e = .panic "backup: subtract with overflow" := by
  unfold edifactTryAsciiEnd at h
  simp only [] at h
  split at h
  · split at h
    · split at h
      · split at h
        · unfold St.backup at h
          split at h
          · rename_i heq
            split at heq
            · cases heq; cases h
            · cases h
          · rename_i heq
            split at heq
            · cases heq
            · cases heq; cases h; rfl
        · cases h
      · cases h
    · cases h
  · cases h

/-- `try_ascii_end` is tried first and takes every case with at most two codewords of space left, so the
assertion `space_left > 2` of `handle_end` never fires — on any state, with any symbol buffer -/
theorem handleEnd_assert_unreachable (s : St) (sym : List Nat) :
    edifactHandleEnd s sym ≠ .error (.panic "assert space_left > 2") := by
  intro h
  unfold edifactHandleEnd at h
  cases ht : edifactTryAsciiEnd s sym with
  | error e =>
    rw [ht] at h
    have := tryAscii_err s sym e ht
    subst this
    simp at h
  | ok o =>
    rw [ht] at h
    cases o with
    | some s' => cases h
    | none =>
      simp only [] at h
      by_cases hs : sym.isEmpty = true
      · have hs0 : sym = [] := by simpa using hs
        subst hs0
        rw [tryAscii_eq s [] (Nat.zero_le _)] at ht
        simp only [List.isEmpty_nil, ↓reduceIte] at h
        by_cases hm : s.hasMore = true
        · simp only [hm, Bool.not_true, Bool.false_eq_true, ↓reduceIte] at h
          cases h
        · have hm' : s.hasMore = false := by simpa using hm
          have ⟨hrest, _⟩ := at_end s (by simpa [St.hasMore] using hm')
          rw [List.nil_append, hrest] at ht
          cases hb : aeB s.list s.cw.length [] with
          | true => rw [hb] at ht; simp at ht
          | false =>
            simp only [hm', Bool.not_false, ↓reduceIte, St.sizeLeftE, St.sizeLeft] at h
            unfold aeB at hb
            simp only [asciiSize_nil, List.length_nil, Nat.zero_le, decide_true, Bool.true_and] at hb
            cases hf : firstBigEnough s.list (s.cw.length + 0) with
            | none => rw [hf] at h; simp at h
            | some S =>
              rw [hf] at h hb
              simp only [decide_eq_false_iff_not] at hb
              simp only [] at h
              have h1 : dataCw S - (s.cw.length + 0) > 0 := by omega
              have h2 : ¬ dataCw S - (s.cw.length + 0) ≤ 2 := by omega
              simp only [h1, h2, ↓reduceIte] at h
              cases h
      · simp only [hs, Bool.false_eq_true, ↓reduceIte] at h
        split at h
        · simp at h
        · split at h
          · cases hz : s.sizeLeftE sym.length with
            | error e =>
              rw [hz] at h
              unfold St.sizeLeftE at hz
              split at hz
              · cases hz
              · cases hz
                simp at h
            | ok n =>
              rw [hz] at h
              simp only [] at h
              split at h <;> cases h
          · cases h

/-! ### `EndSeg .edifact` as stated in `Couple.lean` is false -/

/-- Counterexample to the codeword-count form of `EndSeg`: the single character `A` as the whole EDIFACT segment in
the 10x10 symbol (3 data codewords), nothing written before.  The plan prices one value, 9/12 → 1 codeword; the
encoder (`handle_end`, one buffered value, two codewords of space left) appends the UNLATCH value and writes 2. -/
theorem endSeg_edifact_false : ¬ EndSeg .edifact := by
  intro h
  let g0 : GPlan := { extra := 0, switches := [], plan := newPlan .edifact (ctxAt [65] [0] 0 0) }
  let q1 : EdiP := { ctx := { data := [65], pos := 1, written := 0, list := [0] }, written := 1, asciiEnd := none, cost := 9 }
  let g1 : GPlan := { extra := 0, switches := [], plan := .edifact q1 }
  let s : St := { input := [65], pos := 0, mode := .edifact, plan := [(0, .edifact)], newMode := none, cw := [], list := [0] }
  have hstep0 : g0.step = .ok (some (g1, { «end» := false, unbeatable := false })) := by rfl
  have hstep1 : g1.step = .ok (some (g1, { «end» := true, unbeatable := false })) := by rfl
  have henc : encodeMode s = .ok { s with pos := 1, mode := .ascii, plan := [(0, .ascii)], cw := [4 * 65 % 256 ||| 31 / 16, 31 * 16 % 256 ||| 0] } := by
    rfl
  obtain ⟨_, hr⟩ := h [65] [0] 0 0 1 g0 g1 g1 { «end» := true, unbeatable := false } s (by intro b hb; simp at hb; omega) rfl
    (Or.inl (Nat.le_refl _)) rfl ⟨g1, _, hstep0, rfl, rfl⟩ hstep1 rfl ⟨rfl, rfl, rfl, rfl, rfl, rfl, rfl⟩
  rcases hr with ⟨s', hs', _, _, _, _, _, hle⟩ | ⟨hs', _⟩
  · rw [henc] at hs'
    cases hs'
    revert hle
    decide
  · rw [henc] at hs'
    cases hs'

theorem ceil12_mod (c : Nat) : ceil12 c % 12 = 0 := by
  unfold ceil12
  split <;> omega

/-- the conclusion of `EndSeg .edifact` as stated in `Couple.lean` holds when the amount the planner priced fills
the symbol it selects exactly (then there is no room for the unpriced UNLATCH) -/
theorem endSeg_edifact_exact (body : List Nat) (list : List Sym) (p w k : Nat) (g0 gk gE : GPlan) (r : StepResult) (s : St)
    (hpk : p + k = body.length) (h0 : g0.plan = newPlan .edifact (ctxAt body list p w))
    (hst : StepsTo k g0 gk) (hstep : gk.step = .ok (some (gE, r))) (hend : r.end = true)
    (henc : EncAt body list s p w .edifact [(0, .edifact)])
    (hexact : ∀ S, firstBigEnough list (w + ceil12 (gE.cost - g0.extra) / 12) = some S →
      dataCw S = w + ceil12 (gE.cost - g0.extra) / 12) :
    g0.extra ≤ gE.cost ∧
    ((∃ s', encodeMode s = .ok s' ∧ s'.input = body ∧ s'.list = list ∧ s'.pos ≤ body.length ∧ s'.newMode = none ∧
        (s'.hasMore = true → s'.mode = .ascii ∧ s'.plan = [(0, .ascii)]) ∧
        12 * (s'.cw.length + asciiSize s'.rest) ≤ 12 * w + ceil12 (gE.cost - g0.extra)) ∨
     (encodeMode s = .error .tooMuch ∧ firstBigEnough list (w + ceil12 (gE.cost - g0.extra) / 12) = none)) := by
  obtain ⟨hc, hr⟩ := endSeg_core body list p w k g0 gk gE r s hpk h0 hst hstep hend henc
  refine ⟨hc, ?_⟩
  rcases hr with ⟨s', hs', a1, a2, a3, a4, a5, _, ⟨S, hS, hle⟩, _⟩ | hr
  · left
    refine ⟨s', hs', a1, a2, a3, a4, a5, ?_⟩
    have := hexact S hS
    have := ceil12_mod (gE.cost - g0.extra)
    omega
  · right; exact hr

end DM.Lemmas.CoupleEdi
