import DM.Lemmas.GFLaws
/-
The table-driven multiplication of the crate is the carry-less multiplication modulo
x^8+x^5+x^3+x^2+1 of the specification, on all 65 536 pairs of bytes.
-/
namespace DM.Lemmas
open DM.Model DM.Spec

set_option maxRecDepth 100000 in
theorem gmul_eq_smul : ∀ a, a < 256 → ∀ b, b < 256 → gmul a b = smul a b := by
  intro a ha b hb
  have h : allBelow 256 (fun a => allBelow 256 fun b => gmul a b == smul a b) = true := by
    decide +kernel
  have h1 := allBelow_spec h a ha
  simpa using allBelow_spec h1 b hb

/-- the spec's powers of x are the ANTI_LOG table -/
theorem spow2_eq_alog : ∀ i, i < 255 → spow2 i = alog i := by
  intro i hi
  induction i with
  | zero => exact alog_zero.symm
  | succ i ih => rw [spow2, ih (by omega), alog_succ i (by omega)]

end DM.Lemmas
