import DM.Lemmas.RSTotal
import DM.Lemmas.RSDist
/-
Total-correctness companion of `DM.Lemmas.RSTotal.Safe`: `Tot A x P` says that `x` returns a
value satisfying `P`, or panics at a site allowed by `A`; it never returns one of the
non-panic errors.  With `A = NoSite` it says `x = .ok a` for some `a` with `P a`.

Also: the bridge from the model's `dot` / `slice` on byte lists to sums in the field `GF`.
-/
namespace DM.Lemmas.RSTot
set_option linter.unusedSimpArgs false
open DM.Model DM.Model.RS DM.Lemmas DM.Lemmas.RSTotal

def Tot (A : String → Prop) {α} (x : R α) (P : α → Prop) : Prop :=
  match x with
  | .ok a => P a
  | .error (.panic s) => A s
  | .error _ => False

def NoSite : String → Prop := fun _ => False

variable {A : String → Prop}

theorem Tot_pure {α} {a : α} {P : α → Prop} (h : P a) : Tot A (pure a : R α) P := h
theorem Tot_ok {α} {a : α} {P : α → Prop} (h : P a) : Tot A (.ok a : R α) P := h

theorem Tot_bind {α β} {x : R α} {f : α → R β} {P : β → Prop}
    (h : Tot A x (fun a => Tot A (f a) P)) : Tot A (x >>= f) P := by
  cases x with
  | ok a => exact h
  | error e => cases e <;> exact h

/-- bind rule that remembers which value the first computation returned -/
theorem Tot_bind_eq {α β} {x : R α} {f : α → R β} {P : β → Prop}
    (h : Tot A x (fun a => x = .ok a → Tot A (f a) P)) : Tot A (x >>= f) P := by
  cases x with
  | ok a => exact h rfl
  | error e => cases e <;> exact h

theorem Tot_mono {α} {x : R α} {P Q : α → Prop} (h : Tot A x P) (hpq : ∀ a, P a → Q a) :
    Tot A x Q := by
  cases x with
  | ok a => exact hpq a h
  | error e => cases e <;> exact h

theorem Tot_and {α} {x : R α} {P Q : α → Prop} (h1 : Tot A x P) (h2 : Tot A x Q) :
    Tot A x (fun a => P a ∧ Q a) := by
  cases x with
  | ok a => exact ⟨h1, h2⟩
  | error e => cases e <;> exact h1

theorem Tot_weaken {B : String → Prop} {α} {x : R α} {P : α → Prop} (h : Tot A x P)
    (hab : ∀ s, A s → B s) : Tot B x P := by
  cases x with
  | ok a => exact h
  | error e =>
    cases e with
    | panic s => exact hab s h
    | _ => exact h

theorem Tot_safe {α} {x : R α} {P : α → Prop} (h : Tot A x P) : Safe A x P := by
  cases x with
  | ok a => exact h
  | error e => cases e <;> first | exact h | trivial

/-- the computation returns a value -/
theorem Tot_elim {α} {x : R α} {P : α → Prop} (h : Tot NoSite x P) : ∃ a, x = .ok a ∧ P a := by
  cases x with
  | ok a => exact ⟨a, rfl, h⟩
  | error e => cases e <;> exact absurd h id

/-- the computation returns a value if it does not panic -/
theorem Tot_elim_of_noPanic {α} {x : R α} {P : α → Prop} (h : Tot A x P)
    (hp : ∀ s, x ≠ .error (.panic s)) : ∃ a, x = .ok a ∧ P a := by
  cases x with
  | ok a => exact ⟨a, rfl, h⟩
  | error e =>
    cases e with
    | panic s => exact absurd rfl (hp s)
    | _ => exact absurd h id

theorem Tot_of_eq {α} {x : R α} {a : α} {P : α → Prop} (he : x = .ok a) (h : P a) : Tot A x P := by
  subst he; exact h

theorem Tot_val {α} {x : R α} {P : α → Prop} (h : Tot A x P) {a : α} (he : x = .ok a) : P a := by
  subst he; exact h

theorem Tot_throw_panic {α} {site : String} {P : α → Prop} (h : A site) :
    Tot A (throw (RErr.panic site) : R α) P := h

theorem Tot_ite {α} {c : Prop} [Decidable c] {t e : R α} {P : α → Prop}
    (ht : c → Tot A t P) (he : ¬c → Tot A e P) : Tot A (if c then t else e) P := by
  split
  · exact ht ‹_›
  · exact he ‹_›

/-- loop rule; the invariant may mention the part of the list that is still to be processed -/
theorem Tot_forIn {α β} (l : List α) (init : β) (f : α → β → R (ForInStep β))
    (I : List α → β → Prop) (Q : β → Prop)
    (h0 : I l init)
    (hstep : ∀ pre a rest b, l = pre ++ a :: rest → I (a :: rest) b →
      Tot A (f a b) (fun r => match r with | .yield b' => I rest b' | .done b' => Q b'))
    (hfin : ∀ b, I [] b → Q b) : Tot A (forIn l init f) Q := by
  suffices H : ∀ suf pre b, l = pre ++ suf → I suf b → Tot A (forIn suf b f) Q from
    H l [] init rfl h0
  intro suf
  induction suf with
  | nil => intro pre b _ hI; exact hfin b hI
  | cons a rest ih =>
    intro pre b hl hI
    rw [List.forIn_cons]
    apply Tot_bind
    apply Tot_mono (hstep pre a rest b hl hI)
    intro r hr
    cases r with
    | done b' => exact hr
    | yield b' => exact ih (pre ++ [a]) b' (by simp [hl]) hr

/-- loop rule with a plain state invariant -/
theorem Tot_forIn_inv {α β} (l : List α) (init : β) (f : α → β → R (ForInStep β))
    (I : β → Prop) (h0 : I init)
    (hstep : ∀ a, a ∈ l → ∀ b, I b → Tot A (f a b) (fun r => I r.value)) :
    Tot A (forIn l init f) I := by
  apply Tot_forIn l init f (fun _ b => I b) I h0
  · intro pre a rest b hl hI
    apply Tot_mono (hstep a (by simp [hl]) b hI)
    intro r hr
    cases r <;> exact hr
  · intro b h; exact h

/-- loop rule for a loop over `List.range n` whose body always yields: the invariant speaks
about the number of iterations done -/
theorem Tot_forIn_range {β} (n : Nat) (init : β) (f : Nat → β → R (ForInStep β))
    (I : Nat → β → Prop) (h0 : I 0 init)
    (hstep : ∀ i, i < n → ∀ b, I i b →
      Tot A (f i b) (fun r => ∃ b', r = .yield b' ∧ I (i + 1) b')) :
    Tot A (forIn (List.range n) init f) (I n) := by
  apply Tot_forIn (List.range n) init f
    (fun rest b => I (n - rest.length) b) (I n) (by simpa using h0)
  · intro pre a rest b hl hI
    have hlen : n = pre.length + (rest.length + 1) := by
      have := congrArg List.length hl
      simpa using this
    have ha : a = pre.length := by
      have h1 : (List.range n)[pre.length]? = some a := by rw [hl]; simp
      rw [List.getElem?_range (by omega)] at h1
      exact (Option.some.inj h1).symm
    have hI' : I a b := by
      have : n - (a :: rest).length = a := by simp only [List.length_cons]; omega
      rwa [this] at hI
    apply Tot_mono (hstep a (by omega) b hI')
    intro r hr
    obtain ⟨b', rfl, hb'⟩ := hr
    have : n - rest.length = a + 1 := by omega
    simp only
    rwa [this]
  · intro b h; simpa using h

/-! ### the elementary partial operations -/

theorem Tot_at' {site : String} {l : List Nat} {i : Nat} {P : Nat → Prop}
    (hi : i < l.length) (h : P (l.getD i 0)) : Tot A (at' site l i) P := by
  unfold at'
  rw [List.getElem?_eq_getElem hi]
  have : l.getD i 0 = l[i] := by simp [List.getD_eq_getElem?_getD, List.getElem?_eq_getElem hi]
  rw [this] at h
  exact h

theorem Tot_sub' {site : String} {a b : Nat} {P : Nat → Prop}
    (hi : b ≤ a) (h : P (a - b)) : Tot A (sub' site a b) P := by
  unfold sub'
  rw [if_pos hi]; exact h

theorem Tot_slice {site : String} {l : List Nat} {a b : Nat} {P : List Nat → Prop}
    (ha : a ≤ b + 1) (hb : b < l.length) (h : P ((l.drop a).take (b + 1 - a))) :
    Tot A (slice site l a b) P := by
  unfold slice
  rw [if_pos ⟨ha, hb⟩]
  exact h

/-- the value of `dot a b` -/
def dotV (a b : List Nat) : Nat := (List.zipWith gmul a b).foldl gadd 0

theorem Tot_dot {a b : List Nat} {P : Nat → Prop}
    (hl : a.length = b.length) (h : P (dotV a b)) : Tot A (dot a b) P := by
  unfold dot
  rw [if_neg (by simpa using hl)]
  exact h

theorem Tot_div' {site : String} {a b : Nat} {P : Nat → Prop}
    (hb : b ≠ 0) (h : P (gdivD a b)) : Tot A (div' site a b) P := by
  unfold div'
  rw [gdiv_eq_some hb]
  exact h

/-! ### bytes and the field -/

/-- the field element of entry `i` of a list of bytes -/
def gF (l : List Nat) (i : Nat) : GF := GF.ofNat (l.getD i 0)

theorem gmul_lt' (a b : Nat) : gmul a b < 256 := by
  unfold gmul
  split
  · omega
  · exact (alog_pos _ (Nat.mod_lt _ (by omega))).2

theorem foldl_gadd_lt (L : List Nat) (a : Nat) (ha : a < 256) (hL : ∀ x ∈ L, x < 256) :
    L.foldl gadd a < 256 := by
  induction L generalizing a with
  | nil => exact ha
  | cons b L ih =>
    exact ih _ (xor_lt_256 ha (hL b (List.mem_cons_self ..)))
      (fun x hx => hL x (List.mem_cons_of_mem _ hx))

theorem dotV_lt (a b : List Nat) : dotV a b < 256 := by
  unfold dotV
  apply foldl_gadd_lt _ _ (by omega)
  intro x hx
  rw [List.mem_iff_getElem] at hx
  obtain ⟨i, hi, rfl⟩ := hx
  rw [List.getElem_zipWith]
  exact gmul_lt' _ _

theorem ofNat_gdivD {a b : Nat} (ha : a < 256) (hb : b < 256) (h0 : b ≠ 0) :
    GF.ofNat (gdivD a b) = GF.ofNat a / GF.ofNat b := by
  unfold gdivD
  rw [gdiv_eq ha hb h0, Option.getD_some, GF.ofNat_gmul ha (ginv_lt b), div_eq_mul_inv]
  congr 1
  apply GF.ext
  simp [GF.ofNat, Nat.mod_eq_of_lt hb, Nat.mod_eq_of_lt (ginv_lt b)]

theorem ofNat_one : GF.ofNat 1 = 1 := rfl

theorem ofNat_eq_iff {a b : Nat} (ha : a < 256) (hb : b < 256) : GF.ofNat a = GF.ofNat b ↔ a = b :=
  ⟨ofNat_inj ha hb, fun h => by rw [h]⟩

theorem gF_append_left (a b : List Nat) (i : Nat) (h : i < a.length) : gF (a ++ b) i = gF a i := by
  unfold gF
  rw [List.getD_eq_getElem?_getD, List.getD_eq_getElem?_getD, List.getElem?_append_left h]

theorem gF_append_right (a b : List Nat) (i : Nat) (h : a.length ≤ i) :
    gF (a ++ b) i = gF b (i - a.length) := by
  unfold gF
  rw [List.getD_eq_getElem?_getD, List.getD_eq_getElem?_getD, List.getElem?_append_right h]

theorem gF_of_le (a : List Nat) (i : Nat) (h : a.length ≤ i) : gF a i = 0 := by
  unfold gF
  rw [List.getD_eq_getElem?_getD, List.getElem?_eq_none h]
  rfl

/-- `dot` in the field -/
theorem ofNat_dotV (a b : List Nat) (ha : Bytes a) (hb : Bytes b) :
    GF.ofNat (dotV a b) = ∑ i ∈ Finset.range (min a.length b.length), gF a i * gF b i := by
  unfold dotV
  rw [ofNat_foldl_xor, ofNat_zero, zero_add]
  induction a generalizing b with
  | nil => simp
  | cons x a ih =>
    cases b with
    | nil => simp
    | cons y b =>
      have hx : x < 256 := ha x (List.mem_cons_self ..)
      have hy : y < 256 := hb y (List.mem_cons_self ..)
      simp only [List.zipWith_cons_cons, List.map_cons, List.sum_cons, List.length_cons]
      rw [ih b (fun z hz => ha z (List.mem_cons_of_mem _ hz)) (fun z hz => hb z (List.mem_cons_of_mem _ hz)),
        Nat.succ_min_succ, Finset.sum_range_succ', GF.ofNat_gmul hx hy]
      simp only [gF, List.getD_cons_succ, List.getD_cons_zero]
      ring

theorem gF_drop (l : List Nat) (a i : Nat) : gF (l.drop a) i = gF l (a + i) := by
  unfold gF
  rw [List.getD_eq_getElem?_getD, List.getD_eq_getElem?_getD, List.getElem?_drop]

theorem gF_take (l : List Nat) (n i : Nat) (h : i < n) : gF (l.take n) i = gF l i := by
  unfold gF
  rw [List.getD_eq_getElem?_getD, List.getD_eq_getElem?_getD, List.getElem?_take_of_lt h]

/-- the window `Σ_{i < lam.length} syn[j+i]·lam[i]` the way the decoder computes it -/
def win (syn lam : List Nat) (j : Nat) : Nat := dotV ((syn.drop j).take lam.length) lam

theorem win_lt (syn lam : List Nat) (j : Nat) : win syn lam j < 256 := dotV_lt _ _

theorem bytes_take {l : List Nat} (h : Bytes l) (n : Nat) : Bytes (l.take n) :=
  fun x hx => h x (List.mem_of_mem_take hx)
theorem bytes_drop {l : List Nat} (h : Bytes l) (n : Nat) : Bytes (l.drop n) :=
  fun x hx => h x (List.mem_of_mem_drop hx)

theorem ofNat_win (syn lam : List Nat) (j : Nat) (hs : Bytes syn) (hl : Bytes lam)
    (hlen : j + lam.length ≤ syn.length) :
    GF.ofNat (win syn lam j) = ∑ i ∈ Finset.range lam.length, gF syn (j + i) * gF lam i := by
  unfold win
  rw [ofNat_dotV _ _ (bytes_take (bytes_drop hs _) _) hl]
  have : min ((syn.drop j).take lam.length).length lam.length = lam.length := by
    simp only [List.length_take, List.length_drop]; omega
  rw [this]
  apply Finset.sum_congr rfl
  intro i hi
  rw [gF_take _ _ _ (Finset.mem_range.mp hi), gF_drop]

theorem win_eq_zero_iff (syn lam : List Nat) (j : Nat) (hs : Bytes syn) (hl : Bytes lam)
    (hlen : j + lam.length ≤ syn.length) :
    win syn lam j = 0 ↔ ∑ i ∈ Finset.range lam.length, gF syn (j + i) * gF lam i = 0 := by
  rw [← ofNat_win syn lam j hs hl hlen]
  exact (GF.ofNat_eq_zero (win_lt _ _ _)).symm

end DM.Lemmas.RSTot
