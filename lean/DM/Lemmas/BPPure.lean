import DM.Lemmas.GFField
import Mathlib.LinearAlgebra.Vandermonde
import Mathlib.LinearAlgebra.Matrix.NonsingularInverse
import Mathlib.Algebra.BigOperators.Intervals
import Mathlib.Algebra.Order.BigOperators.Group.LocallyFinite
import Mathlib.Algebra.BigOperators.Fin
import Mathlib.Tactic.LinearCombination
/-
The Björck–Pereyra algorithm for the dual Vandermonde system as a pure function on vectors
`ℕ → GF`, and its correctness: for pairwise distinct non-zero nodes `x_0 … x_{e-1}`,
`v = bpPure x e f` satisfies `Σ_l v_l x_l^(j+1) = f_j` for all `j < e`.

Proof: write `f_j = Σ_l a_l x_l^j` (the Vandermonde matrix is invertible) and follow the vector
through the three stages with explicit kernels (`K1`, `K2`):
after `k` steps of stage 1 entry `j` is `Σ_l a_l x_l^(j-k) q_k(x_l)` (`j ≥ k`) resp.
`Σ_l a_l q_j(x_l)` (`j < k`), with `q_i(y) = Π_{m<i} (y + x_m)`;
when stage 2 has done the steps `e-2, …, k`, entry `j ≥ k` is
`Σ_l a_l (D_k(j,l) + D_k(j+1,l))` with `D_k(j,l) = [j ≤ l] Π_{j-k ≤ m < j} (x_l + x_m)`,
which for `k = 0` is `a_j`.
-/
namespace DM.Lemmas.BP
open Finset

variable (x : ℕ → GF) (e : ℕ)

/-! ### the pure algorithm -/

/-- stage 1, step `k`: `f_j += x_k f_{j-1}` for `k < j < e` (simultaneously) -/
def s1step (k : ℕ) (f : ℕ → GF) : ℕ → GF :=
  fun j => if k < j ∧ j < e then f j + x k * f (j - 1) else f j

/-- the first `k` steps of stage 1 -/
def s1 : ℕ → (ℕ → GF) → (ℕ → GF)
  | 0, f => f
  | k + 1, f => s1step x e k (s1 k f)

/-- stage 2, step `k`, part (a): `f_j /= x_j + x_{j-k-1}` for `k < j < e` -/
def s2a (k : ℕ) (f : ℕ → GF) : ℕ → GF :=
  fun j => if k < j ∧ j < e then f j / (x j + x (j - k - 1)) else f j

/-- stage 2, step `k`, part (b): `f_j += f_{j+1}` for `k ≤ j ≤ e-2` (simultaneously) -/
def s2b (k : ℕ) (d : ℕ → GF) : ℕ → GF :=
  fun j => if k ≤ j ∧ j + 1 < e then d j + d (j + 1) else d j

/-- the first `m` steps of stage 2: `k = e-2, e-3, …, e-1-m` -/
def s2 : ℕ → (ℕ → GF) → (ℕ → GF)
  | 0, f => f
  | m + 1, f => s2b e (e - 2 - m) (s2a x e (e - 2 - m) (s2 m f))

/-- stage 3: `f_i /= x_i` for `i < e` -/
def s3 (f : ℕ → GF) : ℕ → GF := fun i => if i < e then f i / x i else f i

/-- the whole algorithm -/
def bpPure (f : ℕ → GF) : ℕ → GF := s3 x e (s2 x e (e - 1) (s1 x e (e - 1) f))

theorem s1step_pos {k j : ℕ} (f : ℕ → GF) (h : k < j ∧ j < e) :
    s1step x e k f j = f j + x k * f (j - 1) := if_pos h
theorem s1step_neg {k j : ℕ} (f : ℕ → GF) (h : ¬(k < j ∧ j < e)) :
    s1step x e k f j = f j := if_neg h
theorem s2a_pos {k j : ℕ} (f : ℕ → GF) (h : k < j ∧ j < e) :
    s2a x e k f j = f j / (x j + x (j - k - 1)) := if_pos h
theorem s2a_neg {k j : ℕ} (f : ℕ → GF) (h : ¬(k < j ∧ j < e)) :
    s2a x e k f j = f j := if_neg h
theorem s2b_pos {k j : ℕ} (d : ℕ → GF) (h : k ≤ j ∧ j + 1 < e) :
    s2b e k d j = d j + d (j + 1) := if_pos h
theorem s2b_neg {k j : ℕ} (d : ℕ → GF) (h : ¬(k ≤ j ∧ j + 1 < e)) :
    s2b e k d j = d j := if_neg h
theorem s3_pos {i : ℕ} (f : ℕ → GF) (h : i < e) : s3 x e f i = f i / x i := if_pos h
theorem s3_neg {i : ℕ} (f : ℕ → GF) (h : ¬ i < e) : s3 x e f i = f i := if_neg h

/-! ### the Newton basis polynomials -/

/-- `q_i(y) = Π_{m<i} (y + x_m)` -/
def q (i : ℕ) (y : GF) : GF := ∏ m ∈ range i, (y + x m)

theorem q_zero (y : GF) : q x 0 y = 1 := by simp [q]

theorem q_succ (i : ℕ) (y : GF) : q x (i + 1) y = q x i y * (y + x i) := prod_range_succ _ _

theorem q_self {l i : ℕ} (h : l < i) : q x i (x l) = 0 :=
  prod_eq_zero (mem_range.2 h) (GF.add_self _)

/-! ### stage 1 -/

/-- kernel of the state of stage 1 after `k` steps -/
def K1 (k j l : ℕ) : GF := if k ≤ j then x l ^ (j - k) * q x k (x l) else q x j (x l)

theorem K1_lt {k j : ℕ} (l : ℕ) (h : j < k) : K1 x k j l = q x j (x l) := if_neg (by omega)
theorem K1_ge {k j : ℕ} (l : ℕ) (h : k ≤ j) : K1 x k j l = x l ^ (j - k) * q x k (x l) := if_pos h

theorem s1_spec (a f : ℕ → GF) (hf : ∀ j, j < e → f j = ∑ l ∈ range e, a l * x l ^ j) (k : ℕ) :
    ∀ j, j < e → s1 x e k f j = ∑ l ∈ range e, a l * K1 x k j l := by
  induction k with
  | zero =>
    intro j hj
    rw [s1, hf j hj]
    apply sum_congr rfl
    intro l _
    simp [K1, q]
  | succ k ih =>
    intro j hj
    show s1step x e k (s1 x e k f) j = _
    by_cases h : k < j ∧ j < e
    · rw [s1step_pos x e _ h, ih j hj, ih (j - 1) (by omega), mul_sum, ← sum_add_distrib]
      apply sum_congr rfl
      intro l _
      rw [K1_ge x l (by omega : k ≤ j), K1_ge x l (by omega : k ≤ j - 1),
        K1_ge x l (by omega : k + 1 ≤ j), q_succ]
      obtain ⟨t, rfl⟩ : ∃ t, j = k + 1 + t := ⟨j - (k + 1), by omega⟩
      have e1 : k + 1 + t - k = t + 1 := by omega
      have e2 : k + 1 + t - 1 - k = t := by omega
      have e3 : k + 1 + t - (k + 1) = t := by omega
      rw [e1, e2, e3]
      ring
    · rw [s1step_neg x e _ h, ih j hj]
      apply sum_congr rfl
      intro l _
      rw [K1_lt x l (by omega : j < k + 1)]
      by_cases h2 : k ≤ j
      · have : j = k := by omega
        subst this
        rw [K1_ge x l (le_refl _)]
        simp
      · rw [K1_lt x l (by omega : j < k)]

/-- after stage 1: `c_j = Σ_l a_l q_j(x_l)` -/
theorem s1_final (a f : ℕ → GF) (hf : ∀ j, j < e → f j = ∑ l ∈ range e, a l * x l ^ j) :
    ∀ j, j < e → s1 x e (e - 1) f j = ∑ l ∈ range e, a l * q x j (x l) := by
  intro j hj
  rw [s1_spec x e a f hf (e - 1) j hj]
  apply sum_congr rfl
  intro l _
  by_cases h : e - 1 ≤ j
  · have : j = e - 1 := by omega
    subst this
    rw [K1_ge x l (le_refl _)]
    simp
  · rw [K1_lt x l (by omega)]

/-! ### stage 2 -/

/-- `D_k(j,l) = [j ≤ l] Π_{j-k ≤ m < j} (x_l + x_m)` -/
def Dk (k j l : ℕ) : GF := if j ≤ l then ∏ m ∈ Ico (j - k) j, (x l + x m) else 0

/-- kernel of the state of stage 2 when the steps `e-2, …, k` are done -/
def K2 (k j l : ℕ) : GF := if j < k then q x j (x l) else Dk x k j l + Dk x k (j + 1) l

theorem Dk_diag (k l : ℕ) : Dk x k k l = q x k (x l) := by
  unfold Dk
  rw [Nat.sub_self, ← range_eq_Ico]
  split_ifs with h
  · rfl
  · exact (q_self x (by omega)).symm

theorem Dk_rec (k j l : ℕ) (hkj : k < j) :
    Dk x (k + 1) j l + Dk x (k + 1) (j + 1) l = (x j + x (j - k - 1)) * Dk x k j l := by
  unfold Dk
  have e0 : j - (k + 1) = j - k - 1 := by omega
  have e1 : j + 1 - (k + 1) = j - k := by omega
  have hbot : ∀ y : GF, ∏ m ∈ Ico (j - k - 1) j, (y + x m) =
      (y + x (j - k - 1)) * ∏ m ∈ Ico (j - k) j, (y + x m) := by
    intro y
    rw [prod_eq_prod_Ico_succ_bot (by omega)]
    have : j - k - 1 + 1 = j - k := by omega
    rw [this]
  rw [e0, e1]
  by_cases h1 : j ≤ l
  · by_cases h2 : j + 1 ≤ l
    · simp only [if_pos h1, if_pos h2]
      rw [hbot, prod_Ico_succ_top (by omega)]
      linear_combination (∏ m ∈ Ico (j - k) j, (x l + x m)) * GF.add_self (x l)
    · simp only [if_pos h1, if_neg h2]
      rw [hbot]
      have : l = j := by omega
      subst this
      ring
  · have h2 : ¬ j + 1 ≤ l := by omega
    simp only [if_neg h1, if_neg h2]
    ring

theorem K2_top (j l : ℕ) (hj : j < e) (hl : l < e) : K2 x (e - 1) j l = q x j (x l) := by
  unfold K2
  split_ifs with h
  · rfl
  · have : j = e - 1 := by omega
    subst this
    rw [Dk_diag]
    unfold Dk
    rw [if_neg (by omega), add_zero]

theorem K2_zero (j l : ℕ) : K2 x 0 j l = if l = j then 1 else 0 := by
  unfold K2 Dk
  rw [if_neg (by omega)]
  by_cases h1 : j ≤ l
  · by_cases h2 : j + 1 ≤ l
    · rw [if_pos h1, if_pos h2, if_neg (by omega)]
      simp [GF.add_self]
    · rw [if_pos h1, if_neg h2, if_pos (by omega)]
      simp
  · rw [if_neg h1, if_neg (by omega), if_neg (by omega)]
    simp

theorem add_ne_zero_of_ne {a b : GF} (h : a ≠ b) : a + b ≠ 0 := by
  intro h0
  apply h
  have := add_eq_zero_iff_eq_neg.1 h0
  rwa [GF.neg_eq] at this

theorem K2_lt {k j : ℕ} (l : ℕ) (h : j < k) : K2 x k j l = q x j (x l) := if_pos h
theorem K2_ge {k j : ℕ} (l : ℕ) (h : k ≤ j) : K2 x k j l = Dk x k j l + Dk x k (j + 1) l :=
  if_neg (by omega)

/-- kernel between the parts (a) and (b) of step `k` of stage 2 -/
def K2a (k j l : ℕ) : GF := if j < k then q x j (x l) else Dk x k j l

theorem K2a_lt {k j : ℕ} (l : ℕ) (h : j < k) : K2a x k j l = q x j (x l) := if_pos h
theorem K2a_ge {k j : ℕ} (l : ℕ) (h : k ≤ j) : K2a x k j l = Dk x k j l := if_neg (by omega)

theorem s2a_spec (hinj : ∀ i j, i < j → j < e → x i ≠ x j) (a g : ℕ → GF) (k : ℕ)
    (hg : ∀ j, j < e → g j = ∑ l ∈ range e, a l * K2 x (k + 1) j l) :
    ∀ j, j < e → s2a x e k g j = ∑ l ∈ range e, a l * K2a x k j l := by
  intro j hj
  by_cases h : k < j ∧ j < e
  · rw [s2a_pos x e _ h, hg j hj,
      div_eq_iff (add_ne_zero_of_ne (hinj (j - k - 1) j (by omega) hj).symm), sum_mul]
    apply sum_congr rfl
    intro l _
    rw [K2a_ge x l (by omega : k ≤ j), K2_ge x l (by omega : k + 1 ≤ j), Dk_rec x k j l h.1]
    ring
  · rw [s2a_neg x e _ h, hg j hj]
    apply sum_congr rfl
    intro l _
    rw [K2_lt x l (by omega : j < k + 1)]
    by_cases h2 : j < k
    · rw [K2a_lt x l h2]
    · have : j = k := by omega
      subst this
      rw [K2a_ge x l (le_refl _), Dk_diag]

theorem s2b_spec (a d : ℕ → GF) (k : ℕ)
    (hd : ∀ j, j < e → d j = ∑ l ∈ range e, a l * K2a x k j l) :
    ∀ j, j < e → s2b e k d j = ∑ l ∈ range e, a l * K2 x k j l := by
  intro j hj
  by_cases h : k ≤ j ∧ j + 1 < e
  · rw [s2b_pos e _ h, hd j hj, hd (j + 1) h.2, ← sum_add_distrib]
    apply sum_congr rfl
    intro l _
    rw [K2_ge x l h.1, K2a_ge x l h.1, K2a_ge x l (by omega : k ≤ j + 1)]
    ring
  · rw [s2b_neg e _ h, hd j hj]
    apply sum_congr rfl
    intro l hl
    by_cases h2 : j < k
    · rw [K2_lt x l h2, K2a_lt x l h2]
    · have : Dk x k (j + 1) l = 0 := by
        unfold Dk
        rw [if_neg (by have := mem_range.1 hl; omega)]
      rw [K2_ge x l (by omega), K2a_ge x l (by omega), this, add_zero]

theorem s2_spec (hinj : ∀ i j, i < j → j < e → x i ≠ x j) (a c : ℕ → GF)
    (hc : ∀ j, j < e → c j = ∑ l ∈ range e, a l * q x j (x l)) (m : ℕ) (hm : m ≤ e - 1) :
    ∀ j, j < e → s2 x e m c j = ∑ l ∈ range e, a l * K2 x (e - 1 - m) j l := by
  induction m with
  | zero =>
    intro j hj
    rw [s2, hc j hj]
    apply sum_congr rfl
    intro l hl
    rw [Nat.sub_zero, K2_top x e j l hj (mem_range.1 hl)]
  | succ m ih =>
    have e1 : e - 1 - (m + 1) = e - 2 - m := by omega
    have e2 : e - 1 - m = e - 2 - m + 1 := by omega
    rw [e1]
    simp only [s2]
    apply s2b_spec
    apply s2a_spec x e hinj
    rw [← e2]
    exact ih (by omega)

/-- after stage 2: the coefficients `a` -/
theorem s2_final (hinj : ∀ i j, i < j → j < e → x i ≠ x j) (a c : ℕ → GF)
    (hc : ∀ j, j < e → c j = ∑ l ∈ range e, a l * q x j (x l)) :
    ∀ j, j < e → s2 x e (e - 1) c j = a j := by
  intro j hj
  rw [s2_spec x e hinj a c hc (e - 1) (le_refl _) j hj, Nat.sub_self]
  simp only [K2_zero, mul_ite, mul_one, mul_zero]
  rw [sum_ite_eq' (range e) j a, if_pos (mem_range.2 hj)]

/-! ### every right-hand side is a combination of the columns of the Vandermonde matrix -/

theorem exists_coeffs (hinj : ∀ i j, i < j → j < e → x i ≠ x j) (f : ℕ → GF) :
    ∃ a : ℕ → GF, ∀ j, j < e → f j = ∑ l ∈ range e, a l * x l ^ j := by
  let v : Fin e → GF := fun i => x i
  have hv : Function.Injective v := by
    intro i j hij
    by_contra hne
    rcases lt_or_gt_of_ne (fun h => hne (Fin.ext h)) with h | h
    · exact hinj i j h j.2 hij
    · exact hinj j i h i.2 hij.symm
  let M : Matrix (Fin e) (Fin e) GF := (Matrix.vandermonde v).transpose
  have hdet : IsUnit M.det := by
    rw [Matrix.det_transpose]
    exact isUnit_iff_ne_zero.2 (Matrix.det_vandermonde_ne_zero_iff.2 hv)
  let b : Fin e → GF := fun j => f j
  let a' : Fin e → GF := M⁻¹.mulVec b
  have hM : M.mulVec a' = b := by
    show M.mulVec (M⁻¹.mulVec b) = b
    rw [Matrix.mulVec_mulVec, Matrix.mul_nonsing_inv M hdet, Matrix.one_mulVec]
  refine ⟨fun l => if h : l < e then a' ⟨l, h⟩ else 0, ?_⟩
  intro j hj
  have := congrFun hM ⟨j, hj⟩
  simp only [Matrix.mulVec, dotProduct, M, Matrix.transpose_apply, Matrix.vandermonde_apply,
    b, v] at this
  rw [← this, Finset.sum_range]
  apply sum_congr rfl
  intro i _
  simp only [i.2, dif_pos, Fin.eta]
  ring

/-! ### the main theorem -/

theorem bpPure_correct (hinj : ∀ i j, i < j → j < e → x i ≠ x j) (hnz : ∀ i, i < e → x i ≠ 0)
    (f : ℕ → GF) :
    ∀ j, j < e → ∑ l ∈ range e, bpPure x e f l * x l ^ (j + 1) = f j := by
  obtain ⟨a, ha⟩ := exists_coeffs x e hinj f
  intro j hj
  rw [ha j hj]
  apply sum_congr rfl
  intro l hl
  have hl' := mem_range.1 hl
  unfold bpPure s3
  rw [if_pos hl', s2_final x e hinj a _ (s1_final x e a f ha) l hl', pow_succ]
  field_simp [hnz l hl']

end DM.Lemmas.BP
