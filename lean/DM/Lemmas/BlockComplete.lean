import DM.Lemmas.LDReach
import DM.Lemmas.ChienSpec
import DM.Lemmas.CorrectParts
import DM.Lemmas.BPOne
/-
Completeness of `correctBlock`: on the syndromes of an error pattern with `1 ≤ ν ≤ t` errors
inside the block it answers Ok and adds exactly the error values at the error positions.
Hypotheses: `LDIdentities`, `LDInit` (both proved, `LDReach.ldIdentities`, `LDReach.ldInit`)
and the correctness of the Björck–Pereyra solver for the root list at hand (`BPCorrectAt`).
-/
namespace DM.Lemmas.BlockComplete
set_option linter.unusedSimpArgs false
set_option linter.unusedVariables false
set_option linter.unusedSectionVars false
open DM.Model DM.Model.RS DM.Lemmas DM.Lemmas.RSTotal DM.Lemmas.RSTot DM.Lemmas.Locator
open DM.Lemmas.LDReach

/-- what the Björck–Pereyra solver has to deliver: the locators `1/root`, byte values, and the
equations `Σ_l val_l · loc_l^(j+1) = S_j` for `j < e` -/
def BPPost (roots syn : List Nat) (p : List Nat × List Nat) : Prop :=
  p.1 = roots.map (gdivD 1) ∧ Bytes p.2 ∧ p.2.length = syn.length ∧
  ∀ j, j < roots.length →
    ∑ l ∈ Finset.range roots.length, gF p.2 l * gF p.1 l ^ (j + 1) = gF syn j

def BPCorrectAt (roots syn : List Nat) : Prop :=
  Tot NoSite (bjorckPereyra roots syn) (BPPost roots syn)

/-- **Hypothesis `BPCorrect`**: `bjorckPereyra` solves the Vandermonde system -/
def BPCorrect : Prop :=
  ∀ roots syn : List Nat, roots ≠ [] → roots.Nodup → (∀ r ∈ roots, r ≠ 0 ∧ r < 256) →
    Bytes syn → roots.length ≤ syn.length → BPCorrectAt roots syn

theorem ofNat_val (g : GF) : GF.ofNat g.val = g :=
  GF.ext (GF.ofNat_val g.lt)

theorem ofNat_ne_zero {a : Nat} (ha : a < 256) (h0 : a ≠ 0) : GF.ofNat a ≠ 0 :=
  fun h => h0 ((GF.ofNat_eq_zero ha).mp h)

theorem X_ne_zero (p : ℕ) : X p ≠ 0 := alpha_pow_ne_zero p

theorem X_eq_alog (p : ℕ) (hp : p < 255) : X p = GF.ofNat (alog p) := (ofNat_alog p hp).symm

variable {syn : List Nat} {I : Finset ℕ} {E : ℕ → GF}

section chien
variable (pat : Pattern syn I E)
include pat

/-- the Chien search on the locator returns exactly the inverse locators -/
theorem chien_finds_locators (lam : List Nat) (hlen : lam.length = I.card + 1) (hb : Bytes lam)
    (hlam : ∀ i, i ≤ I.card → gF lam i = (locPoly I X).coeff i) :
    ∃ roots, chienSearch lam = .ok roots ∧ roots.Nodup ∧
      ∀ r, r ∈ roots ↔ (r < 256 ∧ r ≠ 0 ∧ ∃ p ∈ I, X p = (GF.ofNat r)⁻¹) := by
  have key : ∀ y : GF, y ≠ 0 →
      (∑ j ∈ Finset.range lam.length, gF lam (lam.length - 1 - j) * y ^ j = 0
        ↔ ∃ p ∈ I, X p = y⁻¹) := by
    intro y hy
    rw [← rev_root_iff I X y hy, hlen]
    have : ∑ j ∈ Finset.range (I.card + 1), gF lam (I.card + 1 - 1 - j) * y ^ j
        = ∑ j ∈ Finset.range (I.card + 1), (locPoly I X).coeff (I.card - j) * y ^ j := by
      apply Finset.sum_congr rfl
      intro j _
      rw [Nat.add_sub_cancel, hlam _ (Nat.sub_le _ _)]
    rw [this]
  have hpos := pat.card_pos
  have hlast1 : lam.getD I.card 0 = 1 := by
    have h := hlam I.card (le_refl _)
    rw [locPoly_coeff_card] at h
    exact ofNat_inj (getD_lt hb _) (by omega) h
  rcases Nat.lt_or_ge 1 I.card with h2 | h1
  · -- the general search
    have hlast : lam.getLast? ≠ some 0 := by
      rw [List.getLast?_eq_getElem?, hlen, Nat.add_sub_cancel]
      intro h
      rw [List.getD_eq_getElem?_getD, h] at hlast1
      simp at hlast1
    obtain ⟨rs, hrs, hnd, hmem⟩ := ChienSpec.chien_general lam hb (by omega) hlast
    refine ⟨rs, hrs, hnd, ?_⟩
    intro r
    rw [hmem r]
    constructor
    · rintro ⟨h1, h2, h3⟩
      exact ⟨h1, h2, (key _ (ofNat_ne_zero h1 h2)).mp h3⟩
    · rintro ⟨h1, h2, h3⟩
      exact ⟨h1, h2, (key _ (ofNat_ne_zero h1 h2)).mpr h3⟩
  · -- the degree-one shortcut
    have hc1 : I.card = 1 := by omega
    rw [hc1] at hlen hlast1
    match lam, hlen, hb, hlast1, key with
    | [a, b], _, hb, hlast1, key =>
      have hb1 : b = 1 := by simpa using hlast1
      subst hb1
      have ha : a < 256 := hb a (by simp)
      have hS : ∀ y : GF, ∑ j ∈ Finset.range [a, 1].length, gF [a, 1] ([a, 1].length - 1 - j) * y ^ j
          = 1 + GF.ofNat a * y := by
        intro y
        simp [Finset.sum_range_succ, gF, ofNat_one]
      obtain ⟨p0, hp0⟩ := pat.ne
      have ha0 : a ≠ 0 := by
        intro h0
        have := (key (X p0)⁻¹ (inv_ne_zero (X_ne_zero p0))).mpr ⟨p0, hp0, by rw [inv_inv]⟩
        rw [hS, h0, ofNat_zero, zero_mul, add_zero] at this
        exact one_ne_zero this
      have hA := ofNat_ne_zero ha ha0
      refine ⟨[gdivD 1 a], ChienSpec.chien_linear a ha0, by simp, ?_⟩
      intro r
      simp only [List.mem_singleton]
      constructor
      · intro hr
        subst hr
        have hne := gdivD_ne_zero (a := 1) (by decide) ha0
        refine ⟨gdivD_lt _ _, hne, (key _ (ofNat_ne_zero (gdivD_lt _ _) hne)).mp ?_⟩
        rw [hS, ofNat_gdivD (by omega) ha ha0, ofNat_one, mul_one_div_cancel hA]
        exact GF.add_self 1
      · rintro ⟨h1, h2, h3⟩
        have := (key _ (ofNat_ne_zero h1 h2)).mpr h3
        rw [hS] at this
        have h4 : GF.ofNat a * GF.ofNat r = 1 := by
          have h5 := congrArg (· + 1) this
          simp only [zero_add] at h5
          rw [add_comm, ← add_assoc, GF.add_self, zero_add] at h5
          exact h5
        apply ofNat_inj h1 (gdivD_lt _ _)
        rw [ofNat_gdivD (by omega) ha ha0, ofNat_one, eq_div_iff hA, mul_comm]
        exact h4

/-- the byte of the inverse locator of position `p` -/
def invByte (p : ℕ) : ℕ := ((X p)⁻¹).val

theorem mem_roots_iff (roots : List Nat)
    (hmem : ∀ r, r ∈ roots ↔ (r < 256 ∧ r ≠ 0 ∧ ∃ p ∈ I, X p = (GF.ofNat r)⁻¹)) (r : ℕ) :
    r ∈ roots ↔ ∃ p ∈ I, r = invByte p := by
  rw [hmem r]
  constructor
  · rintro ⟨h1, _, p, hp, hx⟩
    refine ⟨p, hp, ?_⟩
    unfold invByte
    rw [hx, inv_inv, GF.ofNat_val h1]
  · rintro ⟨p, hp, rfl⟩
    have hne : (X p)⁻¹ ≠ 0 := inv_ne_zero (X_ne_zero p)
    refine ⟨((X p)⁻¹).lt, ?_, p, hp, ?_⟩
    · intro h0
      apply hne
      exact GF.ext h0
    · unfold invByte
      rw [ofNat_val, inv_inv]

theorem invByte_inj : ∀ p ∈ I, ∀ q ∈ I, invByte p = invByte q → p = q := by
  intro p hp q hq h
  unfold invByte at h
  have : (X p)⁻¹ = (X q)⁻¹ := GF.ext h
  exact pat.inj p hp q hq (inv_injective this)

/-- the Chien search finds exactly `ν` roots -/
theorem roots_length (roots : List Nat) (hnd : roots.Nodup)
    (hmem : ∀ r, r ∈ roots ↔ (r < 256 ∧ r ≠ 0 ∧ ∃ p ∈ I, X p = (GF.ofNat r)⁻¹)) :
    roots.length = I.card := by
  classical
  rw [← List.toFinset_card_of_nodup hnd]
  have : roots.toFinset = I.image invByte := by
    ext r
    rw [List.mem_toFinset, mem_roots_iff pat roots hmem r, Finset.mem_image]
    constructor
    · rintro ⟨p, hp, rfl⟩; exact ⟨p, hp, rfl⟩
    · rintro ⟨p, hp, rfl⟩; exact ⟨p, hp, rfl⟩
  rw [this, Finset.card_image_of_injOn]
  intro p hp q hq h
  exact invByte_inj pat p hp q hq h

/-- the error locator computed from a root: `1/root = α^p`, the position `p` is its logarithm -/
theorem loc_of_root (roots : List Nat)
    (hmem : ∀ r, r ∈ roots ↔ (r < 256 ∧ r ≠ 0 ∧ ∃ p ∈ I, X p = (GF.ofNat r)⁻¹)) (r : ℕ)
    (hr : r ∈ roots) : ∃ p ∈ I, gdivD 1 r = alog p ∧ glog (gdivD 1 r) = p := by
  obtain ⟨h1, h2, p, hp, hx⟩ := (hmem r).mp hr
  have hp255 := pat.pos p hp
  have : gdivD 1 r = alog p := by
    apply ofNat_inj (gdivD_lt _ _) (alog_pos p hp255).2
    rw [ofNat_gdivD (by omega) h1 h2, ofNat_one, one_div, ← hx, X_eq_alog p hp255]
  exact ⟨p, hp, this, by rw [this, log_alog p hp255]⟩

/-- **the malfunction test passes**: the locator recurrence holds on the tested windows -/
theorem malfunction_test_passes (lam : List Nat) (hlen : lam.length = I.card + 1) (hb : Bytes lam)
    (hlam : ∀ i, i ≤ I.card → gF lam i = (locPoly I X).coeff i) (j : Nat)
    (hj : j < syn.length - (lam.length - 1)) :
    lam.length ≤ (syn.drop j).length ∧ (List.zipWith gmul (syn.drop j) lam).foldl gadd 0 = 0 := by
  have hcard := pat.card
  have hjl : j + lam.length ≤ syn.length := by omega
  refine ⟨by rw [List.length_drop]; omega, ?_⟩
  have := locator_windows pat lam hlen hb hlam j hjl
  unfold win dotV at this
  rwa [zipWith_take_left] at this

end chien

section block
variable (pat : Pattern syn I E)
include pat

/-- **Completeness of `correctBlock`.** -/
theorem correctBlock_complete (hLD : LDIdentities) (hInit : LDInit)
    (hBP : ∀ roots : List Nat, roots ≠ [] → roots.Nodup → (∀ r ∈ roots, r ≠ 0 ∧ r < 256) →
      roots.length = I.card → BPCorrectAt roots syn)
    (dataB errB : List Nat) (hpn : ∀ p ∈ I, p < dataB.length + errB.length) :
    ∃ d e, correctBlock dataB errB syn.length syn = .ok (d, e) ∧ d.length = dataB.length ∧
      e.length = errB.length ∧
      ∀ i, i < dataB.length + errB.length →
        (dataB.length + errB.length - 1 - i ∈ I → ∃ v, v < 256 ∧
            GF.ofNat v = E (dataB.length + errB.length - 1 - i) ∧
            (d ++ e).getD i 0 = gadd ((dataB ++ errB).getD i 0) v) ∧
        (dataB.length + errB.length - 1 - i ∉ I →
            (d ++ e).getD i 0 = (dataB ++ errB).getD i 0) := by
  classical
  have hcard := pat.card
  have hpos := pat.card_pos
  obtain ⟨lam, hLDeq, hlen, hb, hlam⟩ := levinsonDurbin_locator pat hLD hInit
  obtain ⟨roots, hCh, hnd, hmem⟩ := chien_finds_locators pat lam hlen hb hlam
  have hrl := roots_length pat roots hnd hmem
  have hnz : ∀ r ∈ roots, r ≠ 0 ∧ r < 256 := fun r hr =>
    ⟨((hmem r).mp hr).2.1, ((hmem r).mp hr).1⟩
  have hne : roots ≠ [] := by
    intro h; rw [h] at hrl; simp at hrl; omega
  obtain ⟨⟨locs, vals⟩, hBPeq, hlocs, hvb, hvl, heqs⟩ := Tot_elim (hBP roots hne hnd hnz hrl)
  simp only at hlocs hvb hvl heqs
  have hll : locs.length = I.card := by rw [hlocs, List.length_map, hrl]
  -- the position of the l-th locator
  let pos : ℕ → ℕ := fun l => glog (locs.getD l 0)
  have hposI : ∀ l, l < I.card → pos l ∈ I ∧ locs.getD l 0 = alog (pos l) := by
    intro l hl
    have hl' : l < roots.length := by omega
    obtain ⟨p, hp, h1, h2⟩ := loc_of_root pat roots hmem roots[l] (List.getElem_mem hl')
    have e : locs.getD l 0 = gdivD 1 roots[l] := by rw [hlocs]; exact getD_map_gdivD roots l hl'
    simp only [pos]
    rw [e, h2]
    exact ⟨hp, h1⟩
  have hposinj : ∀ l, l < I.card → ∀ l', l' < I.card → pos l = pos l' → l = l' := by
    intro l hl l' hl' h
    have h1 := (hposI l hl).2
    have h2 := (hposI l' hl').2
    rw [h] at h1
    have hL : l < roots.length := by omega
    have hL' : l' < roots.length := by omega
    have e : locs.getD l 0 = gdivD 1 roots[l] := by rw [hlocs]; exact getD_map_gdivD roots l hL
    have e' : locs.getD l' 0 = gdivD 1 roots[l'] := by rw [hlocs]; exact getD_map_gdivD roots l' hL'
    have hr := hnz _ (List.getElem_mem hL)
    have hr' := hnz _ (List.getElem_mem hL')
    have := gdivD_one_inj hr.2 hr'.2 hr.1 hr'.1 (by rw [← e, ← e', h1, h2])
    exact (List.Nodup.getElem_inj_iff hnd).mp this
  have himage : (Finset.range I.card).image pos = I := by
    apply Finset.eq_of_subset_of_card_le
    · intro p hp
      obtain ⟨l, hl, rfl⟩ := Finset.mem_image.mp hp
      exact (hposI l (Finset.mem_range.mp hl)).1
    · rw [Finset.card_image_of_injOn]
      · simp
      · intro l hl l' hl' h
        exact hposinj l (Finset.mem_range.mp hl) l' (Finset.mem_range.mp hl') h
  have hgloc : ∀ l, l < I.card → gF locs l = X (pos l) := by
    intro l hl
    unfold gF
    rw [(hposI l hl).2, X_eq_alog _ (pat.pos _ (hposI l hl).1)]
  -- the values are the error values
  have hvals : ∀ l, l < I.card → gF vals l = E (pos l) := by
    let c' : ℕ → GF := fun p => ∑ l ∈ Finset.range I.card with pos l = p, gF vals l
    have hsyn : ∀ j, j < I.card → Locator.synd I c' X j = Locator.synd I E X j := by
      intro j hj
      rw [← pat.synd j (by omega), ← heqs j (by omega), hrl]
      unfold Locator.synd
      rw [← Finset.sum_fiberwise_of_maps_to (s := Finset.range I.card) (t := I) (g := pos)
        (fun l hl => (hposI l (Finset.mem_range.mp hl)).1)]
      apply Finset.sum_congr rfl
      intro p _
      simp only [c']
      rw [Finset.sum_mul]
      apply Finset.sum_congr rfl
      intro l hl
      have hl' := Finset.mem_filter.mp hl
      rw [hgloc l (Finset.mem_range.mp hl'.1), hl'.2]
    have huniq := values_unique I c' E X pat.inj pat.x0 hsyn
    intro l hl
    rw [← huniq (pos l) (hposI l hl).1]
    simp only [c']
    symm
    have hm : l ∈ Finset.filter (fun l' => pos l' = pos l) (Finset.range I.card) :=
      Finset.mem_filter.mpr ⟨Finset.mem_range.mpr hl, rfl⟩
    apply Finset.sum_eq_single_of_mem l hm
    intro l' hl' hne'
    have h' := Finset.mem_filter.mp hl'
    exact absurd (hposinj l' (Finset.mem_range.mp h'.1) l hl h'.2) hne'
  -- pairs of the correction loop
  have hpair : ∀ pr ∈ locs.zip vals, ∃ l, l < I.card ∧ pr = (locs.getD l 0, vals.getD l 0) := by
    intro pr hpr
    obtain ⟨l, hl, rfl⟩ := List.mem_iff_getElem.mp hpr
    have hl1 : l < locs.length := by simp at hl; omega
    have hl2 : l < vals.length := by simp at hl; omega
    refine ⟨l, by omega, ?_⟩
    rw [List.getElem_zip]
    simp [List.getD_eq_getElem?_getD, List.getElem?_eq_getElem hl1, List.getElem?_eq_getElem hl2]
  have hpairmem : ∀ l, l < I.card → (locs.getD l 0, vals.getD l 0) ∈ locs.zip vals := by
    intro l hl
    have hl1 : l < locs.length := by omega
    have hl2 : l < vals.length := by omega
    rw [List.mem_iff_getElem]
    refine ⟨l, by simp; omega, ?_⟩
    rw [List.getElem_zip]
    simp [List.getD_eq_getElem?_getD, List.getElem?_eq_getElem hl1, List.getElem?_eq_getElem hl2]
  have hloc : ∀ pr ∈ locs.zip vals, pr.1 ≠ 0 ∧ glog pr.1 < dataB.length + errB.length := by
    intro pr hpr
    obtain ⟨l, hl, rfl⟩ := hpair pr hpr
    have h := hposI l hl
    refine ⟨?_, hpn _ h.1⟩
    simp only
    rw [h.2]
    exact (alog_pos _ (pat.pos _ h.1)).1
  have hhead : roots.head? ≠ some 0 := by
    intro h
    have : (0 : ℕ) ∈ roots := List.mem_of_mem_head? h
    exact (hnz 0 this).1 rfl
  obtain ⟨d, e, hcb, hdl, hel, hget⟩ := CorrectParts.correctBlock_of_parts dataB errB syn.length syn lam
    roots locs vals hLDeq hCh (by rw [hrl, hlen]; rfl) hhead (by rw [hlen]; simp; omega)
    (fun j _ hj => malfunction_test_passes pat lam hlen hb hlam j hj) hBPeq hloc
  have hndp : ((locs.zip vals).map fun p => glog p.1).Nodup := by
    have e1 : ((locs.zip vals).map fun p => glog p.1) = ((locs.zip vals).map Prod.fst).map glog := by
      rw [List.map_map]; rfl
    rw [e1, List.map_fst_zip (by omega)]
    rw [List.nodup_iff_injective_getElem]
    intro a b hab
    have ha : a.val < I.card := by have := a.isLt; simp at this; omega
    have hb' : b.val < I.card := by have := b.isLt; simp at this; omega
    apply Fin.ext
    apply hposinj a.val ha b.val hb'
    simp only [pos]
    have h1 : locs.getD a.val 0 = locs[a.val]'(by omega) := by
      simp [List.getD_eq_getElem?_getD, List.getElem?_eq_getElem (show a.val < locs.length by omega)]
    have h2 : locs.getD b.val 0 = locs[b.val]'(by omega) := by
      simp [List.getD_eq_getElem?_getD, List.getElem?_eq_getElem (show b.val < locs.length by omega)]
    rw [h1, h2]
    simpa using hab
  refine ⟨d, e, hcb, hdl, hel, ?_⟩
  intro i hi
  have hfold := CorrectParts.foldl_hit (dataB.length + errB.length) i (locs.zip vals)
    ((dataB ++ errB).getD i 0) hndp (fun pr hpr => (hloc pr hpr).2)
  rw [hget i hi]
  constructor
  · intro hin
    rw [← himage] at hin
    obtain ⟨l, hl, hpl⟩ := Finset.mem_image.mp hin
    have hl' := Finset.mem_range.mp hl
    refine ⟨vals.getD l 0, getD_lt hvb l, ?_, ?_⟩
    · rw [← hpl]; exact hvals l hl'
    · apply hfold.1 _ (hpairmem l hl')
      show dataB.length + errB.length - pos l - 1 = i
      rw [hpl]; omega
  · intro hnin
    apply hfold.2
    intro pr hpr heq
    obtain ⟨l, hl, rfl⟩ := hpair pr hpr
    have h := hposI l hl
    have hlt := hpn _ h.1
    apply hnin
    have : dataB.length + errB.length - 1 - i = pos l := by
      have heq' : dataB.length + errB.length - pos l - 1 = i := heq
      omega
    rw [this]; exact h.1

end block

end DM.Lemmas.BlockComplete
