import DM.Model.Encode
import DM.Lemmas.DecStr
import DM.Props.C02
/-
Data-level round trip for ASCII encodation: the decoder model inverts the encoder model's ASCII
loop (digit pairs, upper shift) and accepts the padding `add_padding` writes.
-/
namespace DM.Lemmas.AsciiRT
open DM.Model DM.Model.Enc DM.Model.Dec DM.Lemmas DM.Props.C02

/-- the ASCII codewords of a message (specification of `ascii::encode` without mode switches) -/
def enc1 (ch : Nat) : List Nat := if ch ≤ 127 then [ch + 1] else [235, ch - 128 + 1]

def asciiEnc : List Nat → List Nat
  | a :: b :: t =>
    if isDigit a && isDigit b then ((a - 48) * 10 + (b - 48) + 130) :: asciiEnc t
    else enc1 a ++ asciiEnc (b :: t)
  | [a] => enc1 a
  | [] => []

/-! ### the encoder's ASCII loop computes `asciiEnc` -/

theorem maybeSwitch_ascii_end (s : St) (hp : s.plan = [(0, .ascii)]) (hm : s.mode = .ascii) :
    s.maybeSwitch = .ok (false, s) := by
  unfold St.maybeSwitch
  rw [hp]
  simp only [Nat.not_lt_zero, ↓reduceIte]
  have : ¬ (s.charsLeft > 0 ∧ s.charsLeft = 0) := by omega
  simp only [this, ↓reduceIte, hm, ne_eq, not_true_eq_false]
  cases s
  simp only [] at hm hp
  subst hm
  subst hp
  rfl

theorem rest_cons (s : St) (h : s.pos < s.input.length) : s.rest = s.input[s.pos] :: s.input.drop (s.pos + 1) := by
  unfold St.rest
  exact List.drop_eq_getElem_cons h

theorem asciiLoop_spec : ∀ (n f : Nat) (s : St), s.plan = [(0, .ascii)] → s.mode = .ascii →
    s.pos ≤ s.input.length → s.input.length - s.pos ≤ n → n < f →
    asciiLoop f s = .ok { s with pos := s.input.length, cw := s.cw ++ asciiEnc s.rest } := by
  intro n
  induction n using Nat.strongRecOn with
  | _ n ih =>
    intro f s hp hm hpos hn hf
    cases f with
    | zero => omega
    | succ f =>
      unfold asciiLoop
      rw [maybeSwitch_ascii_end s hp hm]
      simp only []
      by_cases hlt : s.pos < s.input.length
      · have hr := rest_cons s hlt
        by_cases h2 : s.pos + 1 < s.input.length
        · have hr2 : s.rest = s.input[s.pos] :: s.input[s.pos + 1] :: s.input.drop (s.pos + 2) := by
            rw [hr, List.drop_eq_getElem_cons h2]
          by_cases hd : (isDigit s.input[s.pos] && isDigit s.input[s.pos + 1]) = true
          · have htd : twoDigitsComing s.rest = true := by rw [hr2]; simpa [twoDigitsComing] using hd
            rw [if_pos htd]
            simp only [hr2]
            have := ih (n - 2) (by omega) f ({ s with pos := s.pos + 2 }.push
              ((s.input[s.pos] - 48) * 10 + (s.input[s.pos + 1] - 48) + 130)) hp hm
              (by simp only [St.push]; omega) (by simp only [St.push]; omega) (by omega)
            rw [this]
            simp only [St.push, St.rest, asciiEnc, hd, ↓reduceIte, List.append_assoc, List.singleton_append]
          · have htd : twoDigitsComing s.rest = false := by
              rw [hr2]; simpa [twoDigitsComing] using hd
            rw [htd]
            simp only [Bool.false_eq_true, ↓reduceIte]
            have he : s.eat = some (s.input[s.pos], { s with pos := s.pos + 1 }) := by
              simp [St.eat, List.getElem?_eq_getElem hlt]
            rw [he]
            simp only []
            have henc : asciiEnc s.rest = enc1 s.input[s.pos] ++ asciiEnc (s.input.drop (s.pos + 1)) := by
              rw [hr2, List.drop_eq_getElem_cons h2]
              simp only [asciiEnc, hd, Bool.false_eq_true, ↓reduceIte]
            split
            · rename_i hle
              have := ih (n - 1) (by omega) f ({ s with pos := s.pos + 1 }.push (s.input[s.pos] + 1)) hp hm
                (by simp only [St.push]; omega) (by simp only [St.push]; omega) (by omega)
              rw [this, henc]
              simp only [St.push, St.rest, enc1, hle, ↓reduceIte, List.append_assoc, List.singleton_append]
            · rename_i hle
              have := ih (n - 1) (by omega) f (({ s with pos := s.pos + 1 }.push 235).push (s.input[s.pos] - 128 + 1)) hp hm
                (by simp only [St.push]; omega) (by simp only [St.push]; omega) (by omega)
              rw [this, henc]
              simp only [St.push, St.rest, enc1, hle, ↓reduceIte, List.append_assoc, List.singleton_append, List.cons_append, List.nil_append]
        · -- one character left
          have hlast : s.input.drop (s.pos + 1) = [] := List.drop_eq_nil_of_le (by omega)
          have hr1 : s.rest = [s.input[s.pos]] := by rw [hr, hlast]
          have htd : twoDigitsComing s.rest = false := by rw [hr1]; rfl
          rw [htd]
          simp only [Bool.false_eq_true, ↓reduceIte]
          have he : s.eat = some (s.input[s.pos], { s with pos := s.pos + 1 }) := by
            simp [St.eat, List.getElem?_eq_getElem hlt]
          rw [he]
          simp only []
          have henc : asciiEnc s.rest = enc1 s.input[s.pos] := by rw [hr1]; rfl
          split
          · rename_i hle
            have := ih (n - 1) (by omega) f ({ s with pos := s.pos + 1 }.push (s.input[s.pos] + 1)) hp hm
              (by simp only [St.push]; omega) (by simp only [St.push]; omega) (by omega)
            rw [this, henc]
            have hnil : ({ s with pos := s.pos + 1 }.push (s.input[s.pos] + 1)).rest = [] := by
              simp only [St.push, St.rest]; exact hlast
            rw [hnil]
            simp only [St.push, enc1, hle, ↓reduceIte, asciiEnc, List.append_nil]
          · rename_i hle
            have := ih (n - 1) (by omega) f (({ s with pos := s.pos + 1 }.push 235).push (s.input[s.pos] - 128 + 1)) hp hm
              (by simp only [St.push]; omega) (by simp only [St.push]; omega) (by omega)
            rw [this, henc]
            have hnil : (({ s with pos := s.pos + 1 }.push 235).push (s.input[s.pos] - 128 + 1)).rest = [] := by
              simp only [St.push, St.rest]; exact hlast
            rw [hnil]
            simp only [St.push, enc1, hle, ↓reduceIte, asciiEnc, List.append_nil, List.append_assoc, List.singleton_append]
      · -- nothing left
        have hnil : s.rest = [] := List.drop_eq_nil_of_le (by omega)
        have htd : twoDigitsComing s.rest = false := by rw [hnil]; rfl
        rw [htd]
        simp only [Bool.false_eq_true, ↓reduceIte]
        have he : s.eat = none := by
          simp only [St.eat]
          rw [List.getElem?_eq_none (by omega)]
        rw [he, hnil]
        simp only [asciiEnc, List.append_nil]
        have : s.pos = s.input.length := by omega
        cases s
        simp only [] at this
        subst this
        rfl

/-! ### the decoder's ASCII loop inverts `asciiEnc` -/

theorem dec_enc1 (ch : Nat) (hch : ch < 256) (tail : List Nat) (e : Nat) (out : List Nat) (ecis : List (Nat × Nat)) :
    decodeAscii (enc1 ch ++ tail) e out ecis false 0 =
      decodeAscii tail (e + (enc1 ch).length) (out ++ [ch]) ecis false 0 := by
  unfold enc1
  split
  · rename_i hle
    simp only [List.singleton_append, List.length_singleton]
    rw [decodeAscii]
    simp only [ne_eq, not_true_eq_false, ↓reduceIte, Bool.false_eq_true, false_and]
    rw [if_pos (by omega)]
    simp
  · rename_i hle
    simp only [List.cons_append, List.nil_append, List.length_cons, List.length_nil]
    rw [decodeAscii]
    simp only [ne_eq, not_true_eq_false, ↓reduceIte, Bool.false_eq_true, false_and, Nat.reduceLeDiff, and_false,
      Nat.reduceEqDiff]
    rw [decodeAscii]
    simp only [ne_eq, not_true_eq_false, ↓reduceIte, true_and]
    rw [if_neg (by omega), if_pos (by omega)]
    rw [addU8_ok _ _ _ (by omega)]
    simp only []
    have : ch - 128 + 1 + 127 = ch := by omega
    rw [this]

theorem dec_pair (a b : Nat) (ha : isDigit a = true) (hb : isDigit b = true) (tail : List Nat) (e : Nat)
    (out : List Nat) (ecis : List (Nat × Nat)) :
    decodeAscii (((a - 48) * 10 + (b - 48) + 130) :: tail) e out ecis false 0 =
      decodeAscii tail (e + 1) (out ++ [a, b]) ecis false 0 := by
  simp only [isDigit, Bool.and_eq_true, decide_eq_true_eq] at ha hb
  rw [decodeAscii]
  simp only [ne_eq, not_true_eq_false, ↓reduceIte, Bool.false_eq_true, false_and]
  rw [if_neg (by omega), if_neg (by omega), if_pos (by omega)]
  have h1 : 48 + ((a - 48) * 10 + (b - 48) + 130 - 130) / 10 = a := by omega
  have h2 : 48 + ((a - 48) * 10 + (b - 48) + 130 - 130) % 10 = b := by omega
  rw [h1, h2]

theorem dec_asciiEnc : ∀ (n : Nat) (l : List Nat), l.length ≤ n → ByteList l → ∀ (tail : List Nat) (e : Nat)
    (out : List Nat) (ecis : List (Nat × Nat)),
    decodeAscii (asciiEnc l ++ tail) e out ecis false 0 =
      decodeAscii tail (e + (asciiEnc l).length) (out ++ l) ecis false 0 := by
  intro n
  induction n with
  | zero =>
    intro l hl _ tail e out ecis
    have : l = [] := List.length_eq_zero_iff.mp (by omega)
    subst this
    simp [asciiEnc]
  | succ n ih =>
    intro l hl hb tail e out ecis
    match l, hb with
    | [], _ => simp [asciiEnc]
    | [a], hb =>
      simp only [asciiEnc]
      exact dec_enc1 a hb.head tail e out ecis
    | a :: b :: t, hb =>
      simp only [asciiEnc]
      split
      · rename_i hd
        simp only [Bool.and_eq_true] at hd
        rw [List.cons_append, dec_pair a b hd.1 hd.2]
        rw [ih t (by simp only [List.length_cons] at hl; omega) hb.tail.tail]
        simp only [List.length_cons, List.append_assoc, List.cons_append, List.nil_append]
        congr 1
        omega
      · rw [List.append_assoc, dec_enc1 a hb.head]
        rw [ih (b :: t) (by simp only [List.length_cons] at hl ⊢; omega) hb.tail]
        simp only [List.length_append, List.append_assoc, List.singleton_append]
        congr 1
        omega

/-! ### padding -/

def padsFrom : Nat → Nat → List Nat
  | _, 0 => []
  | p, n + 1 => padAt p :: padsFrom (p + 1) n

theorem padsFrom_snoc : ∀ (n p : Nat), padsFrom p (n + 1) = padsFrom p n ++ [padAt (p + n)] := by
  intro n
  induction n with
  | zero => intro p; simp [padsFrom]
  | succ n ih =>
    intro p
    rw [padsFrom, ih (p + 1)]
    simp only [padsFrom, List.cons_append]
    have : p + 1 + n = p + (n + 1) := by omega
    rw [this]

theorem padFold_eq (n : Nat) (acc : List Nat) : padFold n acc = acc ++ padsFrom (acc.length + 1) n := by
  induction n with
  | zero => simp [padFold, padsFrom]
  | succ n ih =>
    rw [padFold_succ, padFold_length, ih, padsFrom_snoc, List.append_assoc]
    have : acc.length + n + 1 = acc.length + 1 + n := by omega
    rw [this]

theorem addPadding_ascii (cw : List Nat) (cap : Nat) (h : cw.length ≤ cap) :
    addPadding cw true cap =
      some (if cw.length = cap then cw else cw ++ 129 :: padsFrom (cw.length + 2) (cap - cw.length - 1)) := by
  unfold addPadding
  rw [if_neg (by omega)]
  by_cases h0 : cw.length = cap
  · simp [h0]
  · have h1 : ¬ (cap - cw.length = 0) := by omega
    have h2 : cap - cw.length > 0 := by omega
    simp only [h1, h0, if_false, Bool.not_true, Bool.false_eq_true, h2, if_true]
    have := padFold_eq (cap - cw.length - 1) (cw ++ [129])
    unfold padFold padAt at this
    simp only [] at this
    rw [this]
    simp

theorem derand_pad (pos : Nat) : derand253 (padAt pos) pos = 129 := by
  unfold derand253 padAt
  have : (149 * pos) % 253 < 253 := Nat.mod_lt _ (by omega)
  simp only
  split <;> split <;> omega

theorem checkPads_pads : ∀ (n e : Nat), checkPads (padsFrom (e + 1) n) e = .ok (e + n) := by
  intro n
  induction n with
  | zero => intro e; simp [padsFrom, checkPads]
  | succ n ih =>
    intro e
    simp only [padsFrom, checkPads, derand_pad, ne_eq, not_true_eq_false, ↓reduceIte]
    rw [ih (e + 1)]
    congr 1
    omega

/-- the decoder's ASCII loop accepts the padding area and stops -/
theorem dec_padding (cwLen cap : Nat) (h : cwLen ≤ cap) (out : List Nat) (ecis : List (Nat × Nat)) :
    ∃ e, decodeAscii (if cwLen = cap then [] else 129 :: padsFrom (cwLen + 2) (cap - cwLen - 1)) cwLen out ecis false 0
      = .ok ({ rest := [], eaten := e, out := out, ecis := ecis }, .ascii) := by
  split
  · exact ⟨cwLen, by simp [decodeAscii]⟩
  · refine ⟨cwLen + 1 + (cap - cwLen - 1), ?_⟩
    rw [decodeAscii]
    simp only [ne_eq, not_true_eq_false, ↓reduceIte, Bool.false_eq_true, false_and, Nat.reduceLeDiff, and_false]
    rw [checkPads_pads]

/-! ### the whole pipeline for an ASCII-only plan -/

/-- ASCII codewords never collide with the codewords `decode_parts` inspects first -/
theorem asciiEnc_head (l : List Nat) (hb : ByteList l) : ∀ c ∈ (asciiEnc l).head?, c ≤ 229 ∨ c = 235 := by
  intro c hc
  match l, hb with
  | [], _ => simp [asciiEnc] at hc
  | [a], hb =>
    have := hb.head
    simp only [asciiEnc, enc1] at hc
    split at hc <;> simp at hc <;> omega
  | a :: b :: t, hb =>
    have ha := hb.head
    have hb2 := hb.tail.head
    simp only [asciiEnc] at hc
    split at hc
    · rename_i hd
      simp only [isDigit, Bool.and_eq_true, decide_eq_true_eq] at hd
      simp at hc
      omega
    · simp only [enc1] at hc
      split at hc <;> simp at hc <;> omega

def startSt (list : List Sym) (body : List Nat) : St :=
  { input := body, pos := 0, mode := .ascii, plan := [(0, .ascii)], newMode := none, cw := [], list := list }

def endSt (list : List Sym) (body : List Nat) : St :=
  { input := body, pos := body.length, mode := .ascii, plan := [(0, .ascii)], newMode := none,
    cw := asciiEnc body, list := list }

theorem mainLoop_done (list : List Sym) (body : List Nat) (f k : Nat) :
    Enc.mainLoop (f + 1) (endSt list body) k = .ok (endSt list body) := by
  rw [Enc.mainLoop]
  simp [St.hasMore, endSt]

theorem mainLoop_ascii (list : List Sym) (body : List Nat) :
    Enc.mainLoop (2 * body.length + 8) (startSt list body) 0 = .ok (endSt list body) := by
  by_cases hempty : body = []
  · subst hempty
    rw [Enc.mainLoop]
    simp [St.hasMore, asciiEnc, startSt, endSt]
  · have hpos : 0 < body.length := List.length_pos_iff.mpr hempty
    rw [Enc.mainLoop]
    have hm : (startSt list body).hasMore = true := by simp [St.hasMore, startSt, hpos]
    simp only [hm, Bool.not_true, Bool.false_eq_true, ↓reduceIte]
    have hnm : (startSt list body).newMode = none := rfl
    simp only [hnm, encodeMode]
    have hmode : (startSt list body).mode = .ascii := rfl
    simp only [hmode]
    rw [asciiLoop_spec body.length ((startSt list body).charsLeft + 2) (startSt list body) rfl rfl
      (by simp [startSt]) (by simp [startSt]) (by simp [St.charsLeft, startSt])]
    simp only [startSt, St.rest, List.drop_zero, List.nil_append, List.length_nil, Nat.not_lt_zero, ↓reduceIte,
      Nat.sub_zero]
    have hd := fun f k => mainLoop_done list body f k
    unfold endSt at hd ⊢
    split
    · split
      · omega
      · exact hd _ _
    · exact hd _ _

/-- encoder side: with the plan "ASCII until the end" the data codewords are `asciiEnc body`
followed by the padding -/
theorem run_ascii (list : List Sym) (body cw : List Nat) (sym : Sym)
    (h : run list [] body [(0, .ascii)] = .ok (cw, sym)) :
    (asciiEnc body).length ≤ dataCw sym ∧
    cw = asciiEnc body ++ (if (asciiEnc body).length = dataCw sym then []
      else 129 :: padsFrom ((asciiEnc body).length + 2) (dataCw sym - (asciiEnc body).length - 1)) := by
  unfold run at h
  split at h
  · cases h
  split at h
  · cases h
  simp only [] at h
  have hloop := mainLoop_ascii list body
  unfold startSt at hloop
  rw [hloop] at h
  simp only [endSt] at h
  split at h
  · cases h
  · rename_i sym' hsym
    have hle : (asciiEnc body).length ≤ dataCw sym' := by
      unfold firstBigEnough at hsym
      have := List.find?_some hsym
      simpa using this
    have hbeq : (EMode.ascii == EMode.ascii) = true := by decide
    rw [hbeq, addPadding_ascii _ _ hle] at h
    simp only [Except.ok.injEq, Prod.mk.injEq] at h
    obtain ⟨h1, h2⟩ := h
    subst h2
    refine ⟨hle, ?_⟩
    rw [← h1]
    split <;> simp

/-- decoder side: `asciiEnc body` followed by the padding decodes to `body` -/
theorem decodeData_ascii (body : List Nat) (hb : ByteList body) (cap : Nat) (hle : (asciiEnc body).length ≤ cap) :
    decodeData (asciiEnc body ++ (if (asciiEnc body).length = cap then []
      else 129 :: padsFrom ((asciiEnc body).length + 2) (cap - (asciiEnc body).length - 1))) = .ok body := by
  generalize hpads : (if (asciiEnc body).length = cap then []
      else 129 :: padsFrom ((asciiEnc body).length + 2) (cap - (asciiEnc body).length - 1)) = pads
  have hhead : ∀ c ∈ (asciiEnc body ++ pads).head?, c ≤ 229 ∨ c = 235 := by
    intro c hc
    cases he : asciiEnc body with
    | nil =>
      rw [he] at hc
      simp only [List.nil_append] at hc
      rw [← hpads] at hc
      split at hc
      · simp at hc
      · simp at hc; omega
    | cons x xs =>
      rw [he] at hc
      simp only [List.cons_append, List.head?_cons, Option.mem_def, Option.some.injEq] at hc
      exact asciiEnc_head body hb c (by rw [he]; simpa using hc)
  unfold decodeData
  have hparts : decodeParts (asciiEnc body ++ pads) true = .ok { output := body, ecis := [], fnc1 := false } := by
    rcases decodeParts_eq (asciiEnc body ++ pads) true with ⟨t, ht, _⟩ | ⟨t, ht, _⟩ | e
    · have := hhead 236 (by rw [ht]; simp); omega
    · have := hhead 237 (by rw [ht]; simp); omega
    · rw [e]
      rw [partsBody_plain true _ (by
        intro t ht
        have := hhead 232 (by rw [ht]; simp); omega)]
      obtain ⟨e', hpad⟩ := dec_padding (asciiEnc body).length cap hle body []
      rw [hpads] at hpad
      by_cases hnil : asciiEnc body ++ pads = []
      · have h1 : asciiEnc body = [] := (List.append_eq_nil_iff.mp hnil).1
        have hbody : body = [] := by
          match body, h1 with
          | [], _ => rfl
          | [a], h1 => simp [asciiEnc, enc1] at h1; split at h1 <;> simp at h1
          | a :: b :: t, h1 => simp only [asciiEnc, enc1] at h1; split at h1 <;> (try split at h1) <;> simp at h1
        subst hbody
        rw [hnil, Dec.mainLoop]
        simp
      · rw [Dec.mainLoop]
        have hne : (asciiEnc body ++ pads).isEmpty = false := by
          cases hx : asciiEnc body ++ pads with
          | nil => exact absurd hx hnil
          | cons _ _ => rfl
        simp only [hne, Bool.false_eq_true, ↓reduceIte]
        rw [dec_asciiEnc _ body (Nat.le_refl _) hb]
        simp only [Nat.zero_add, List.nil_append]
        rw [hpad]
        simp only []
        rw [Dec.mainLoop]
        simp
  rw [hparts]
  simp

end DM.Lemmas.AsciiRT
