import DM.Lemmas.Complete
/-
Data-level round trip, encoder side: the decoder model stays in step with the encoder model.
`Sync body cw pos`: decoding `cw` from the start consumes exactly `cw`, ends in ASCII mode and has
produced the first `pos` bytes of the message — whatever (legal) codewords follow.
-/
namespace DM.Lemmas.EncRT
open DM.Model DM.Model.Enc DM.Model.Dec DM.Lemmas DM.Lemmas.DecRun DM.Lemmas.AsciiRT DM.Lemmas.Complete

/-- what may follow at an ASCII boundary: anything but a stray UNLATCH -/
def NiceTail (t : List Nat) : Prop := t.head? ≠ some 254

/-- `pre` = the codewords written before the data (FNC1 / Macro header codeword, consumed by
`decode_parts` before its main loop), `out0` = what `decode_parts` has put into the output for them -/
def Sync (pre out0 body cw : List Nat) (pos : Nat) : Prop :=
  pre.length ≤ cw.length ∧ cw.take pre.length = pre ∧
  ∀ tail, NiceTail tail →
    decRun .ascii { rest := cw.drop pre.length ++ tail, eaten := pre.length, out := out0, ecis := [] } =
    decRun .ascii { rest := tail, eaten := cw.length, out := out0 ++ body.take pos, ecis := [] }

theorem sync_init (pre out0 body : List Nat) : Sync pre out0 body pre 0 := by
  refine ⟨Nat.le_refl _, by simp, ?_⟩
  intro tail _
  simp

theorem drop_append_pre (pre cw Y : List Nat) (h : pre.length ≤ cw.length) :
    (cw ++ Y).drop pre.length = cw.drop pre.length ++ Y := by
  rw [List.drop_append_of_le_length h]

theorem take_append_pre (pre cw Y : List Nat) (h : pre.length ≤ cw.length) :
    (cw ++ Y).take pre.length = cw.take pre.length := by
  rw [List.take_append_of_le_length h]

/-- `X` is a run of ASCII codewords that decodes to `chunk` -/
def AsciiSeg (X chunk : List Nat) : Prop :=
  (∀ c ∈ X, c ≠ 254 ∧ c ≠ 129 ∧ c ≠ 232 ∧ c ≠ 236 ∧ c ≠ 237) ∧
  ∀ (tail : List Nat) (e : Nat) (out : List Nat) (ecis : List (Nat × Nat)),
    decodeAscii (X ++ tail) e out ecis false 0 = decodeAscii tail (e + X.length) (out ++ chunk) ecis false 0

theorem asciiSeg_nil : AsciiSeg [] [] := ⟨by simp, by intro tail e out ecis; simp⟩

theorem asciiSeg_append {X Y c d : List Nat} (h1 : AsciiSeg X c) (h2 : AsciiSeg Y d) : AsciiSeg (X ++ Y) (c ++ d) := by
  refine ⟨?_, ?_⟩
  · intro x hx
    rcases List.mem_append.mp hx with h | h
    · exact h1.1 x h
    · exact h2.1 x h
  · intro tail e out ecis
    rw [List.append_assoc, h1.2, h2.2]
    simp only [List.length_append, List.append_assoc]
    congr 1
    omega

theorem asciiSeg_enc1 (ch : Nat) (h : ch < 256) : AsciiSeg (enc1 ch) [ch] := by
  refine ⟨?_, fun tail e out ecis => dec_enc1 ch h tail e out ecis⟩
  intro c hc
  unfold enc1 at hc
  split at hc
  · simp only [List.mem_singleton] at hc; omega
  · simp only [List.mem_cons, List.not_mem_nil, or_false] at hc
    rcases hc with rfl | rfl <;> omega

theorem asciiSeg_pair (a b : Nat) (ha : isDigit a = true) (hb : isDigit b = true) :
    AsciiSeg [(a - 48) * 10 + (b - 48) + 130] [a, b] := by
  refine ⟨?_, fun tail e out ecis => by simpa using dec_pair a b ha hb tail e out ecis⟩
  intro c hc
  simp only [isDigit, Bool.and_eq_true, decide_eq_true_eq] at ha hb
  simp only [List.mem_singleton] at hc
  omega

/-- an ASCII run extends a synchronised prefix -/
theorem sync_ascii {pre out0 body cw X chunk : List Nat} {pos : Nat} (hs : Sync pre out0 body cw pos) (hx : AsciiSeg X chunk)
    (hc : body.take (pos + chunk.length) = body.take pos ++ chunk) : Sync pre out0 body (cw ++ X) (pos + chunk.length) := by
  obtain ⟨hpl, hpt, hs⟩ := hs
  refine ⟨by simp; omega, by rw [take_append_pre pre cw X hpl]; exact hpt, ?_⟩
  intro tail ht
  rw [drop_append_pre pre cw X hpl]
  have hnice : NiceTail (X ++ tail) := by
    unfold NiceTail at *
    cases X with
    | nil => simpa using ht
    | cons x xs => simp only [List.cons_append, List.head?_cons, ne_eq, Option.some.injEq]; exact (hx.1 x (by simp)).1
  rw [List.append_assoc, hs (X ++ tail) hnice, hc, ← List.append_assoc]
  -- one call of the decoder's ASCII loop covers `X` and whatever ASCII codewords follow
  by_cases hnil : X ++ tail = []
  · have h1 := List.append_eq_nil_iff.mp hnil
    have h0 := hx.2 [] 0 [] []
    rw [h1.1] at h0 ⊢
    simp only [List.nil_append, decodeAscii, ne_eq, not_true_eq_false, ↓reduceIte, Bool.false_eq_true, List.length_nil,
      Nat.add_zero, Except.ok.injEq, Prod.mk.injEq, and_true] at h0
    have : chunk = [] := by
      have := congrArg DSt.out h0
      simpa using this.symm
    rw [h1.2, this]
    simp
  · rw [decRun_ascii _ hnil]
    simp only []
    rw [hx.2]
    by_cases ht0 : tail = []
    · subst ht0
      rw [decRun_nil _ _ rfl]
      simp only [decodeAscii, ne_eq, not_true_eq_false, ↓reduceIte, Bool.false_eq_true, List.length_append]
      rw [decRun_nil _ _ rfl]
    · rw [decRun_ascii _ ht0]
      simp only [List.length_append]

/-! ### `maybe_switch_mode` -/

/-- the fields of the encoder state that the mode encoders never change -/
def SameRun (s s' : St) : Prop := s'.input = s.input ∧ s'.list = s.list

theorem SameRun.refl (s : St) : SameRun s s := ⟨rfl, rfl⟩
theorem SameRun.trans {a b c : St} (h1 : SameRun a b) (h2 : SameRun b c) : SameRun a c :=
  ⟨h2.1.trans h1.1, h2.2.trans h1.2⟩

theorem maybeSwitch_spec (s s1 : St) (b : Bool) (h : s.maybeSwitch = .ok (b, s1)) :
    SameRun s s1 ∧ s1.pos = s.pos ∧ s1.cw = s.cw ∧ (∀ e ∈ s1.plan, e ∈ s.plan) ∧
    (b = false → s1.mode = s.mode ∧ s1.newMode = s.newMode) ∧
    (b = true → s1.mode ≠ s.mode ∧ s.hasMore = true ∧ (∃ p, (p, s1.mode) ∈ s.plan) ∧
      s1.newMode = (match s1.mode.latch with | some l => some l | none => s.newMode)) := by
  unfold St.maybeSwitch at h
  split at h
  · cases h
  · rename_i at_ m restPlan hp
    simp only [] at h
    split at h
    · cases h
    · by_cases hc : s.charsLeft > 0 ∧ s.charsLeft = at_
      · rw [if_pos hc] at h
        simp only [] at h
        have hmore : s.hasMore = true := by
          simp only [St.hasMore, St.charsLeft] at hc ⊢
          simp; omega
        by_cases hne : m ≠ s.mode
        · rw [if_pos hne] at h
          simp only [Except.ok.injEq, Prod.mk.injEq] at h
          obtain ⟨hb, hs⟩ := h
          subst hb hs
          refine ⟨⟨rfl, rfl⟩, rfl, rfl, ?_, by simp, ?_⟩
          · intro e he; rw [hp]; exact List.mem_cons_of_mem _ he
          · intro _
            exact ⟨hne, hmore, ⟨at_, by rw [hp]; simp⟩, rfl⟩
        · rw [if_neg hne] at h
          simp only [Except.ok.injEq, Prod.mk.injEq] at h
          obtain ⟨hb, hs⟩ := h
          subst hb hs
          refine ⟨⟨rfl, rfl⟩, rfl, rfl, ?_, fun _ => ⟨rfl, rfl⟩, by simp⟩
          intro e he; rw [hp]; exact List.mem_cons_of_mem _ he
      · rw [if_neg hc] at h
        simp only [ne_eq, not_true_eq_false, ↓reduceIte] at h
        simp only [Except.ok.injEq, Prod.mk.injEq] at h
        obtain ⟨hb, hs⟩ := h
        subst hb hs
        exact ⟨⟨rfl, rfl⟩, rfl, rfl, fun e he => he, fun _ => ⟨rfl, rfl⟩, by simp⟩

/-! ### the ASCII encoder, any plan -/

/-- how a mode encoder hands control back -/
def Exit (s s' : St) : Prop :=
  (s'.hasMore = false ∧ s'.mode = s.mode ∧ s'.newMode = s.newMode) ∨
  (s'.mode ≠ s.mode ∧ s'.hasMore = true ∧ (∃ p, (p, s'.mode) ∈ s.plan) ∧
    s'.newMode = (match s'.mode.latch with | some l => some l | none => s.newMode))

theorem take_drop_cons (l : List Nat) (p q : Nat) (hp : p < l.length) (hq : p + 1 ≤ q) :
    (l.drop p).take (q - p) = l[p] :: (l.drop (p + 1)).take (q - (p + 1)) := by
  rw [List.drop_eq_getElem_cons hp]
  have : q - p = (q - (p + 1)) + 1 := by omega
  rw [this, List.take_succ_cons]

theorem asciiLoop_gen : ∀ (f : Nat) (s s' : St), asciiLoop f s = .ok s' → ByteList s.input →
    ∃ X, s'.cw = s.cw ++ X ∧ AsciiSeg X ((s.input.drop s.pos).take (s'.pos - s.pos)) ∧ s.pos ≤ s'.pos ∧
      SameRun s s' ∧ (∀ e ∈ s'.plan, e ∈ s.plan) ∧ Exit s s' := by
  intro f
  induction f with
  | zero => intro s s' h; cases h
  | succ f ih =>
    intro s s' h hb
    unfold asciiLoop at h
    cases hm : s.maybeSwitch with
    | error e => rw [hm] at h; cases h
    | ok r =>
      obtain ⟨b, s1⟩ := r
      rw [hm] at h
      obtain ⟨hsame, hpos, hcw, hplan, hf, ht⟩ := maybeSwitch_spec s s1 b hm
      cases b with
      | true =>
        simp only [Except.ok.injEq] at h
        subst h
        obtain ⟨h1, h2, h3, h4⟩ := ht rfl
        refine ⟨[], by simp [hcw], ?_, by omega, hsame, hplan, Or.inr ⟨h1, ?_, h3, h4⟩⟩
        · rw [hpos]; simpa using asciiSeg_nil
        · simpa [St.hasMore, hpos, hsame.1] using h2
      | false =>
        simp only [] at h
        obtain ⟨hmode, hnm⟩ := hf rfl
        have hb1 : ByteList s1.input := by rw [hsame.1]; exact hb
        -- a continuation `s2` of `s1` that has consumed `chunk` and written `Y`
        have step : ∀ (s2 : St) (Y chunk : List Nat), asciiLoop f s2 = .ok s' → s2.input = s1.input → s2.list = s1.list →
            s2.plan = s1.plan → s2.mode = s1.mode → s2.newMode = s1.newMode → s2.cw = s1.cw ++ Y →
            s2.pos = s1.pos + chunk.length → AsciiSeg Y chunk →
            (s1.input.drop s1.pos).take chunk.length = chunk →
            ∃ X, s'.cw = s.cw ++ X ∧ AsciiSeg X ((s.input.drop s.pos).take (s'.pos - s.pos)) ∧ s.pos ≤ s'.pos ∧
              SameRun s s' ∧ (∀ e ∈ s'.plan, e ∈ s.plan) ∧ Exit s s' := by
          intro s2 Y chunk h2 e1 e2 e3 e4 e5 e6 e7 hY hchunk
          obtain ⟨X2, c1, c2, c3, c4, c5, c6⟩ := ih s2 s' h2 (by rw [e1]; exact hb1)
          refine ⟨Y ++ X2, by rw [c1, e6, hcw, List.append_assoc], ?_, by omega,
            ⟨c4.1.trans (e1.trans hsame.1), c4.2.trans (e2.trans hsame.2)⟩,
            fun e he => hplan e (by rw [← e3]; exact c5 e he), ?_⟩
          · have hsplit : (s.input.drop s.pos).take (s'.pos - s.pos) =
                chunk ++ (s2.input.drop s2.pos).take (s'.pos - s2.pos) := by
              have key : ∀ (I : List Nat) (p q n : Nat), p + n ≤ q →
                  (I.drop p).take (q - p) = (I.drop p).take n ++ (I.drop (p + n)).take (q - (p + n)) := by
                intro I p q n hle
                have : q - p = n + (q - (p + n)) := by omega
                rw [this, List.take_add, List.drop_drop]
              rw [e1, e7, hsame.1, hpos, key s.input s.pos s'.pos chunk.length (by omega)]
              congr 1
              rw [← hsame.1, ← hpos]
              exact hchunk
            rw [hsplit]
            exact asciiSeg_append hY c2
          · rcases c6 with ⟨a1, a2, a3⟩ | ⟨a1, a2, a3, a4⟩
            · exact Or.inl ⟨a1, by rw [a2, e4, hmode], by rw [a3, e5, hnm]⟩
            · refine Or.inr ⟨by rw [← hmode, ← e4]; exact a1, a2, ?_, by rw [a4, e5, hnm]⟩
              obtain ⟨p, hp⟩ := a3
              exact ⟨p, hplan _ (by rw [← e3]; exact hp)⟩
        by_cases htd : twoDigitsComing s1.rest = true
        · rw [if_pos htd] at h
          match hr : s1.rest, htd with
          | a :: b :: t, htd =>
            rw [hr] at h
            simp only [] at h
            simp only [twoDigitsComing, Bool.and_eq_true] at htd
            have hlt : s1.pos + 1 < s1.input.length := by
              have : (s1.input.drop s1.pos).length = (a :: b :: t).length := by rw [← hr]; rfl
              simp only [List.length_drop, List.length_cons] at this
              omega
            have hchunk : (s1.input.drop s1.pos).take 2 = [a, b] := by
              have : s1.input.drop s1.pos = a :: b :: t := hr
              rw [this]; rfl
            exact step _ [(a - 48) * 10 + (b - 48) + 130] [a, b] h rfl rfl rfl rfl rfl (by simp [St.push]) (by simp [St.push])
              (asciiSeg_pair a b htd.1 htd.2) hchunk
          | [], htd => simp [twoDigitsComing] at htd
          | [_], htd => simp [twoDigitsComing] at htd
        · rw [if_neg htd] at h
          cases he : s1.eat with
          | none =>
            rw [he] at h
            simp only [Except.ok.injEq] at h
            subst h
            have hnm' : s1.hasMore = false := by
              simp only [St.eat] at he
              split at he
              · cases he
              · rename_i hnone
                simp only [St.hasMore]
                have := List.getElem?_eq_none_iff.mp hnone
                simp; omega
            refine ⟨[], by simp [hcw], ?_, by omega, hsame, hplan, Or.inl ⟨hnm', hmode, hnm⟩⟩
            rw [hpos]; simpa using asciiSeg_nil
          | some r2 =>
            obtain ⟨ch, s2⟩ := r2
            rw [he] at h
            simp only [] at h
            have hs2 : s1.pos < s1.input.length ∧ ch = s1.input[s1.pos]! ∧ s2 = { s1 with pos := s1.pos + 1 } := by
              simp only [St.eat] at he
              split at he
              · rename_i c hc
                simp only [Option.some.injEq, Prod.mk.injEq] at he
                have hlt := (List.getElem?_eq_some_iff.mp hc).1
                refine ⟨hlt, ?_, he.2.symm⟩
                rw [← he.1]
                simp [List.getElem?_eq_getElem hlt] at hc ⊢
                exact hc.symm
              · cases he
            obtain ⟨hlt, hch, hs2e⟩ := hs2
            have hgetch : s1.input[s1.pos] = ch := by rw [hch]; simp [hlt]
            have hchlt : ch < 256 := by rw [← hgetch]; exact hb1 _ (List.getElem_mem hlt)
            have hchunk : (s1.input.drop s1.pos).take 1 = [ch] := by
              rw [List.drop_eq_getElem_cons hlt, hgetch]; rfl
            subst hs2e
            split at h
            · rename_i hle
              have hY : AsciiSeg [ch + 1] [ch] := by
                have := asciiSeg_enc1 ch hchlt
                simpa [enc1, hle] using this
              exact step _ [ch + 1] [ch] h rfl rfl rfl rfl rfl (by simp [St.push]) (by simp [St.push]) hY hchunk
            · rename_i hle
              have hY : AsciiSeg [235, ch - 128 + 1] [ch] := by
                have := asciiSeg_enc1 ch hchlt
                simpa [enc1, hle] using this
              exact step _ [235, ch - 128 + 1] [ch] h rfl rfl rfl rfl rfl (by simp [St.push]) (by simp [St.push]) hY hchunk

theorem asciiLoop_pos_le : ∀ (f : Nat) (s s' : St), asciiLoop f s = .ok s' → s.pos ≤ s.input.length →
    s'.pos ≤ s.input.length := by
  intro f
  induction f with
  | zero => intro s s' h; cases h
  | succ f ih =>
    intro s s' h hle
    unfold asciiLoop at h
    cases hm : s.maybeSwitch with
    | error e => rw [hm] at h; cases h
    | ok r =>
      obtain ⟨b, s1⟩ := r
      rw [hm] at h
      obtain ⟨hsame, hpos, _, _, _, _⟩ := maybeSwitch_spec s s1 b hm
      cases b with
      | true =>
        simp only [Except.ok.injEq] at h
        subst h
        rw [hpos]; exact hle
      | false =>
        simp only [] at h
        by_cases htd : twoDigitsComing s1.rest = true
        · rw [if_pos htd] at h
          match hr : s1.rest, htd with
          | a :: b :: t, htd =>
            rw [hr] at h
            simp only [] at h
            have hlt : s1.pos + 1 < s1.input.length := by
              have : (s1.input.drop s1.pos).length = (a :: b :: t).length := by rw [← hr]; rfl
              simp only [List.length_drop, List.length_cons] at this
              omega
            have := ih _ s' h (by simp only [St.push]; omega)
            simp only [St.push] at this
            rw [← hsame.1]; exact this
          | [], htd => simp [twoDigitsComing] at htd
          | [_], htd => simp [twoDigitsComing] at htd
        · rw [if_neg htd] at h
          cases he : s1.eat with
          | none =>
            rw [he] at h
            simp only [Except.ok.injEq] at h
            subst h
            rw [hpos]; exact hle
          | some r2 =>
            obtain ⟨ch, s2⟩ := r2
            rw [he] at h
            simp only [] at h
            have hs2 : s1.pos < s1.input.length ∧ s2 = { s1 with pos := s1.pos + 1 } := by
              simp only [St.eat] at he
              split at he
              · rename_i c hc
                simp only [Option.some.injEq, Prod.mk.injEq] at he
                exact ⟨(List.getElem?_eq_some_iff.mp hc).1, he.2.symm⟩
              · cases he
            obtain ⟨hlt, hs2e⟩ := hs2
            subst hs2e
            split at h
            · have := ih _ s' h (by simp only [St.push]; omega)
              simp only [St.push] at this
              rw [← hsame.1]; exact this
            · have := ih _ s' h (by simp only [St.push]; omega)
              simp only [St.push] at this
              rw [← hsame.1]; exact this

/-! ### the X12 encoder -/

open DM.Spec.Build in
theorem x12Enc_val (ch v : Nat) (h : x12Enc ch = .ok v) : x12Val ch = some v := by
  unfold x12Enc at h
  unfold DM.Spec.Build.x12Val
  by_cases c1 : ch = 13
  · rw [if_pos c1] at h ⊢; cases h; rfl
  rw [if_neg c1] at h ⊢
  by_cases c2 : ch = 42
  · rw [if_pos c2] at h ⊢; cases h; rfl
  rw [if_neg c2] at h ⊢
  by_cases c3 : ch = 62
  · rw [if_pos c3] at h ⊢; cases h; rfl
  rw [if_neg c3] at h ⊢
  by_cases c4 : ch = 32
  · rw [if_pos c4] at h ⊢; cases h; rfl
  rw [if_neg c4] at h ⊢
  by_cases c5 : 48 ≤ ch ∧ ch ≤ 57
  · rw [if_pos c5] at h ⊢; cases h; rfl
  rw [if_neg c5] at h ⊢
  by_cases c6 : 65 ≤ ch ∧ ch ≤ 90
  · rw [if_pos c6] at h ⊢; cases h; rfl
  rw [if_neg c6] at h
  cases h

open DM.Spec.Build in
theorem writeThree_cw (s : St) (v1 v2 v3 : Nat) (h1 : v1 < 40) (h2 : v2 < 40) (h3 : v3 < 40) :
    (writeThree s v1 v2 v3).cw = s.cw ++ packTriples [v1, v2, v3] ∧ (writeThree s v1 v2 v3).pos = s.pos ∧
    (writeThree s v1 v2 v3).input = s.input ∧ (writeThree s v1 v2 v3).list = s.list ∧
    (writeThree s v1 v2 v3).plan = s.plan ∧ (writeThree s v1 v2 v3).mode = s.mode ∧
    (writeThree s v1 v2 v3).newMode = s.newMode := by
  have : (1600 * v1 + 40 * v2 + v3 + 1) % 65536 = 1600 * v1 + 40 * v2 + v3 + 1 := by omega
  simp [writeThree, St.push, packTriples, this]

open DM.Spec.Build in
theorem packTriples_append : ∀ (n : Nat) (v w : List Nat), v.length = 3 * n →
    packTriples (v ++ w) = packTriples v ++ packTriples w := by
  intro n
  induction n with
  | zero => intro v w h; have : v = [] := List.length_eq_zero_iff.mp (by omega); subst this; simp [packTriples]
  | succ n ih =>
    intro v w h
    match v, h with
    | a :: b :: c :: t, h =>
      simp only [List.cons_append, packTriples]
      rw [ih t w (by simp only [List.length_cons] at h; omega)]
    | [], h => simp at h
    | [_], h => simp at h; omega
    | [_, _], h => simp at h; omega

/-- result of the X12 triple loop -/
structure X12Run (s s' : St) (sw : Bool) (n : Nat) : Prop where
  pos : s'.pos = s.pos + 3 * n
  le : s.pos ≤ s.input.length → s'.pos ≤ s.input.length
  native : X12Native ((s.input.drop s.pos).take (3 * n))
  cw : s'.cw = s.cw ++ DM.Spec.Build.packTriples (((s.input.drop s.pos).take (3 * n)).filterMap DM.Spec.Build.x12Val)
  same : SameRun s s'
  plan : ∀ e ∈ s'.plan, e ∈ s.plan
  stay : sw = false → s'.charsLeft < 3 ∧ s'.mode = s.mode ∧ s'.newMode = s.newMode
  switch : sw = true → s'.mode ≠ s.mode ∧ s'.hasMore = true ∧ (∃ p, (p, s'.mode) ∈ s.plan) ∧
    s'.newMode = (match s'.mode.latch with | some l => some l | none => s.newMode)

open DM.Spec.Build in
theorem x12Loop_gen : ∀ (f : Nat) (s s' : St) (sw : Bool), x12Loop f s = .ok (s', sw) → ∃ n, X12Run s s' sw n := by
  intro f
  induction f with
  | zero => intro s s' sw h; cases h
  | succ f ih =>
    intro s s' sw h
    unfold x12Loop at h
    by_cases hc : s.charsLeft ≥ 3
    · rw [if_pos hc] at h
      have hlt : s.pos + 2 < s.input.length := by simp only [St.charsLeft] at hc; omega
      have hr : s.rest = s.input[s.pos] :: s.input[s.pos + 1] :: s.input[s.pos + 2] :: s.input.drop (s.pos + 3) := by
        unfold St.rest
        rw [List.drop_eq_getElem_cons (by omega), List.drop_eq_getElem_cons (by omega : s.pos + 1 < _),
          List.drop_eq_getElem_cons (by omega : s.pos + 1 + 1 < _)]
      rw [hr] at h
      simp only [] at h
      generalize s.input[s.pos] = a at *
      generalize s.input[s.pos + 1] = b at *
      generalize s.input[s.pos + 2] = c at *
      cases h1 : x12Enc a with
      | error e => rw [h1] at h; simp at h
      | ok v1 =>
        cases h2 : x12Enc b with
        | error e => rw [h1, h2] at h; simp at h
        | ok v2 =>
          cases h3 : x12Enc c with
          | error e => rw [h1, h2, h3] at h; simp at h
          | ok v3 =>
            rw [h1, h2, h3] at h
            simp only [] at h
            have hv1 := x12Enc_val a v1 h1
            have hv2 := x12Enc_val b v2 h2
            have hv3 := x12Enc_val c v3 h3
            have l1 := (x12Val_lt a v1 hv1).1
            have l2 := (x12Val_lt b v2 hv2).1
            have l3 := (x12Val_lt c v3 hv3).1
            obtain ⟨w1, w2, w3, w4, w5, w6, w7⟩ := writeThree_cw { s with pos := s.pos + 3 } v1 v2 v3 l1 l2 l3
            have htake3 : (s.input.drop s.pos).take 3 = [a, b, c] := by
              have : s.input.drop s.pos = a :: b :: c :: s.input.drop (s.pos + 3) := hr
              rw [this]; rfl
            have hnat3 : X12Native [a, b, c] := by
              intro x hx
              simp only [List.mem_cons, List.not_mem_nil, or_false] at hx
              rcases hx with rfl | rfl | rfl
              · rw [hv1]; rfl
              · rw [hv2]; rfl
              · rw [hv3]; rfl
            have hfm3 : [a, b, c].filterMap x12Val = [v1, v2, v3] := by simp [hv1, hv2, hv3]
            cases hm : (writeThree { s with pos := s.pos + 3 } v1 v2 v3).maybeSwitch with
            | error e => rw [hm] at h; cases h
            | ok r =>
              obtain ⟨b', s3⟩ := r
              rw [hm] at h
              obtain ⟨m1, m2, m3, m4, m5, m6⟩ := maybeSwitch_spec _ s3 b' hm
              cases b' with
              | true =>
                simp only [Except.ok.injEq, Prod.mk.injEq] at h
                obtain ⟨hs, hsw⟩ := h
                subst hs hsw
                obtain ⟨t1, t2, t3, t4⟩ := m6 rfl
                refine ⟨1, ⟨by rw [m2, w2], fun _ => by rw [m2, w2]; simp only []; omega, by rw [htake3]; exact hnat3,
                  by rw [m3, w1, htake3, hfm3], ⟨m1.1.trans w3, m1.2.trans w4⟩, fun e he => by rw [← w5]; exact m4 e he,
                  by simp, fun _ => ⟨by rw [← w6]; exact t1, ?_, ?_, by rw [t4, w7]⟩⟩⟩
                · simpa [St.hasMore, m2, w2, m1.1, w3] using t2
                · obtain ⟨p, hp⟩ := t3; exact ⟨p, by rw [← w5]; exact hp⟩
              | false =>
                simp only [] at h
                obtain ⟨n, r⟩ := ih s3 s' sw h
                obtain ⟨f1, f2⟩ := m5 rfl
                have hin : s3.input = s.input := m1.1.trans w3
                have hp3 : s3.pos = s.pos + 3 := by rw [m2, w2]
                have hsplit : (s.input.drop s.pos).take (3 * (n + 1)) =
                    [a, b, c] ++ (s3.input.drop s3.pos).take (3 * n) := by
                  rw [hin, hp3, ← htake3]
                  have : 3 * (n + 1) = 3 + 3 * n := by omega
                  rw [this, List.take_add, List.drop_drop]
                refine ⟨n + 1, ⟨by rw [r.pos, hp3]; omega, fun hle => by rw [← hin]; exact r.le (by rw [hin, hp3]; omega), ?_, ?_,
                  ⟨r.same.1.trans hin, r.same.2.trans (m1.2.trans w4)⟩,
                  fun e he => by rw [← w5]; exact m4 e (r.plan e he),
                  fun hs => by obtain ⟨a1, a2, a3⟩ := r.stay hs; exact ⟨a1, by rw [a2, f1, w6], by rw [a3, f2, w7]⟩,
                  fun hs => ?_⟩⟩
                · rw [hsplit]
                  intro x hx
                  rcases List.mem_append.mp hx with hx | hx
                  · exact hnat3 x hx
                  · exact r.native x hx
                · rw [r.cw, m3, w1, hsplit, List.filterMap_append, hfm3,
                    packTriples_append 1 [v1, v2, v3] _ rfl, List.append_assoc]
                · obtain ⟨a1, a2, a3, a4⟩ := r.switch hs
                  refine ⟨by rw [← w6, ← f1]; exact a1, a2, ?_, by rw [a4, f2, w7]⟩
                  obtain ⟨p, hp⟩ := a3
                  exact ⟨p, by rw [← w5]; exact m4 _ hp⟩
    · rw [if_neg hc] at h
      simp only [Except.ok.injEq, Prod.mk.injEq] at h
      obtain ⟨hs, hsw⟩ := h
      subst hs hsw
      exact ⟨0, ⟨by simp, fun h => h, by intro x hx; simp at hx, by simp [packTriples], SameRun.refl s, fun e he => he,
        fun _ => ⟨by omega, rfl, rfl⟩, by simp⟩⟩

/-! ### stepping the encoder's main loop -/

/-- the state `encodeMode` is called on: a pending latch is written first -/
def latched (s : St) : St :=
  match s.newMode with
  | some nm => { s with newMode := none }.push nm
  | none => s

theorem mainLoop_end (f : Nat) (s : St) (k : Nat) (h : s.hasMore = false) : Enc.mainLoop (f + 1) s k = .ok s := by
  rw [Enc.mainLoop]; simp [h]

theorem mainLoop_step (f : Nat) (s sEnd : St) (k : Nat) (h : Enc.mainLoop (f + 1) s k = .ok sEnd) (hm : s.hasMore = true) :
    ∃ s' k', encodeMode (latched s) = .ok s' ∧ Enc.mainLoop f s' k' = .ok sEnd := by
  rw [Enc.mainLoop] at h
  simp only [hm, Bool.not_true, Bool.false_eq_true, ↓reduceIte] at h
  have key : ∀ (sl : St), (match encodeMode sl with
      | .error e => .error e
      | .ok s' =>
        if s'.cw.length < sl.cw.length then .error (.panic "codewords.len() - len")
        else if s'.cw.length - sl.cw.length ≤ 1 then
          if k + 1 > 5 then .error (.panic "no progress in encoder") else Enc.mainLoop f s' (k + 1)
        else Enc.mainLoop f s' 0) = Except.ok sEnd →
      ∃ s' k', encodeMode sl = .ok s' ∧ Enc.mainLoop f s' k' = .ok sEnd := by
    intro sl h
    cases he : encodeMode sl with
    | error e => rw [he] at h; cases h
    | ok s' =>
      rw [he] at h
      simp only [] at h
      split at h
      · cases h
      · split at h
        · split at h
          · cases h
          · exact ⟨s', _, rfl, h⟩
        · exact ⟨s', _, rfl, h⟩
  unfold latched
  cases hn : s.newMode with
  | none => rw [hn] at h; exact key s h
  | some nm => rw [hn] at h; exact key _ h

/-- exact fit: `size_left(k) = 0` means the symbol chosen for `len + k` codewords has exactly that capacity -/
theorem sizeLeft_zero (s : St) (k : Nat) (h : s.sizeLeft k = some 0) :
    ∃ sym, firstBigEnough s.list (s.cw.length + k) = some sym ∧ dataCw sym = s.cw.length + k := by
  unfold St.sizeLeft at h
  cases hf : firstBigEnough s.list (s.cw.length + k) with
  | none => rw [hf] at h; cases h
  | some sym =>
    rw [hf] at h
    simp only [Option.some.injEq] at h
    refine ⟨sym, rfl, ?_⟩
    unfold firstBigEnough at hf
    have := List.find?_some hf
    simp only [decide_eq_true_eq] at this
    omega

theorem asciiEnc_length : ∀ (n : Nat) (l : List Nat), l.length ≤ n → (asciiEnc l).length = asciiSize l := by
  intro n
  induction n with
  | zero => intro l h; have : l = [] := List.length_eq_zero_iff.mp (by omega); subst this; rfl
  | succ n ih =>
    intro l h
    match l, h with
    | [], _ => rfl
    | [a], _ => simp only [asciiEnc, asciiSize, enc1]; split <;> rfl
    | a :: b :: t, h =>
      simp only [asciiEnc, asciiSize]
      split
      · simp only [List.length_cons]
        rw [ih t (by simp only [List.length_cons] at h; omega)]; omega
      · simp only [List.length_append, enc1]
        rw [ih (b :: t) (by simp only [List.length_cons] at h ⊢; omega)]
        split <;> simp <;> omega

end DM.Lemmas.EncRT
