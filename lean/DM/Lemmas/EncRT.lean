import DM.Lemmas.Complete
/-
Data-level round trip, encoder side: the decoder model stays in step with the encoder model.
`Sync body cw pos`: decoding `cw` from the start consumes exactly `cw`, ends in ASCII mode and has
produced the first `pos` bytes of the message — whatever (legal) codewords follow.
-/
namespace DM.Lemmas.EncRT
open DM.Model DM.Model.Enc DM.Model.Dec DM.Lemmas DM.Lemmas.DecRun DM.Lemmas.AsciiRT DM.Lemmas.Complete

/-- what may follow at an ASCII boundary: anything but a stray UNLATCH -/
def NiceTail (t : List Nat) : Prop := t.head? ≠ some 254

def Sync (body cw : List Nat) (pos : Nat) : Prop :=
  ∀ tail, NiceTail tail →
    decRun .ascii { rest := cw ++ tail, eaten := 0, out := [], ecis := [] } =
    decRun .ascii { rest := tail, eaten := cw.length, out := body.take pos, ecis := [] }

theorem sync_init (body : List Nat) : Sync body [] 0 := by
  intro tail _
  simp

/-- `X` is a run of ASCII codewords that decodes to `chunk` -/
def AsciiSeg (X chunk : List Nat) : Prop :=
  (∀ c ∈ X, c ≠ 254 ∧ c ≠ 129) ∧
  ∀ (tail : List Nat) (e : Nat) (out : List Nat) (ecis : List (Nat × Nat)),
    decodeAscii (X ++ tail) e out ecis false 0 = decodeAscii tail (e + X.length) (out ++ chunk) ecis false 0

theorem asciiSeg_nil : AsciiSeg [] [] := ⟨by simp, by intro tail e out ecis; simp⟩

theorem asciiSeg_append {X Y c d : List Nat} (h1 : AsciiSeg X c) (h2 : AsciiSeg Y d) : AsciiSeg (X ++ Y) (c ++ d) := by
  refine ⟨?_, ?_⟩
  · intro x hx
    rcases List.mem_append.mp hx with h | h
    · exact h1.1 x h
    · exact h2.1 x h
  · intro tail e out ecis
    rw [List.append_assoc, h1.2, h2.2]
    simp only [List.length_append, List.append_assoc]
    congr 1
    omega

theorem asciiSeg_enc1 (ch : Nat) (h : ch < 256) : AsciiSeg (enc1 ch) [ch] := by
  refine ⟨?_, fun tail e out ecis => dec_enc1 ch h tail e out ecis⟩
  intro c hc
  unfold enc1 at hc
  split at hc
  · simp only [List.mem_singleton] at hc; omega
  · simp only [List.mem_cons, List.not_mem_nil, or_false] at hc
    rcases hc with rfl | rfl <;> omega

theorem asciiSeg_pair (a b : Nat) (ha : isDigit a = true) (hb : isDigit b = true) :
    AsciiSeg [(a - 48) * 10 + (b - 48) + 130] [a, b] := by
  refine ⟨?_, fun tail e out ecis => by simpa using dec_pair a b ha hb tail e out ecis⟩
  intro c hc
  simp only [isDigit, Bool.and_eq_true, decide_eq_true_eq] at ha hb
  simp only [List.mem_singleton] at hc
  omega

/-- an ASCII run extends a synchronised prefix -/
theorem sync_ascii {body cw X chunk : List Nat} {pos : Nat} (hs : Sync body cw pos) (hx : AsciiSeg X chunk)
    (hc : body.take (pos + chunk.length) = body.take pos ++ chunk) : Sync body (cw ++ X) (pos + chunk.length) := by
  intro tail ht
  have hnice : NiceTail (X ++ tail) := by
    unfold NiceTail at *
    cases X with
    | nil => simpa using ht
    | cons x xs => simp only [List.cons_append, List.head?_cons, ne_eq, Option.some.injEq]; exact (hx.1 x (by simp)).1
  rw [List.append_assoc, hs (X ++ tail) hnice, hc]
  -- one call of the decoder's ASCII loop covers `X` and whatever ASCII codewords follow
  by_cases hnil : X ++ tail = []
  · have h1 := List.append_eq_nil_iff.mp hnil
    have h0 := hx.2 [] 0 [] []
    rw [h1.1] at h0 ⊢
    simp only [List.nil_append, decodeAscii, ne_eq, not_true_eq_false, ↓reduceIte, Bool.false_eq_true, List.length_nil,
      Nat.add_zero, Except.ok.injEq, Prod.mk.injEq, and_true] at h0
    have : chunk = [] := by
      have := congrArg DSt.out h0
      simpa using this.symm
    rw [h1.2, this]
    simp
  · rw [decRun_ascii _ hnil]
    simp only []
    rw [hx.2]
    by_cases ht0 : tail = []
    · subst ht0
      rw [decRun_nil _ _ rfl]
      simp only [decodeAscii, ne_eq, not_true_eq_false, ↓reduceIte, Bool.false_eq_true, List.length_append]
      rw [decRun_nil _ _ rfl]
    · rw [decRun_ascii _ ht0]
      simp only [List.length_append]

/-! ### `maybe_switch_mode` -/

/-- the fields of the encoder state that the mode encoders never change -/
def SameRun (s s' : St) : Prop := s'.input = s.input ∧ s'.list = s.list

theorem SameRun.refl (s : St) : SameRun s s := ⟨rfl, rfl⟩
theorem SameRun.trans {a b c : St} (h1 : SameRun a b) (h2 : SameRun b c) : SameRun a c :=
  ⟨h2.1.trans h1.1, h2.2.trans h1.2⟩

theorem maybeSwitch_spec (s s1 : St) (b : Bool) (h : s.maybeSwitch = .ok (b, s1)) :
    SameRun s s1 ∧ s1.pos = s.pos ∧ s1.cw = s.cw ∧ (∀ e ∈ s1.plan, e ∈ s.plan) ∧
    (b = false → s1.mode = s.mode ∧ s1.newMode = s.newMode) ∧
    (b = true → s1.mode ≠ s.mode ∧ s.hasMore = true ∧ (∃ p, (p, s1.mode) ∈ s.plan) ∧
      s1.newMode = (match s1.mode.latch with | some l => some l | none => s.newMode)) := by
  unfold St.maybeSwitch at h
  split at h
  · cases h
  · rename_i at_ m restPlan hp
    simp only [] at h
    split at h
    · cases h
    · by_cases hc : s.charsLeft > 0 ∧ s.charsLeft = at_
      · rw [if_pos hc] at h
        simp only [] at h
        have hmore : s.hasMore = true := by
          simp only [St.hasMore, St.charsLeft] at hc ⊢
          simp; omega
        by_cases hne : m ≠ s.mode
        · rw [if_pos hne] at h
          simp only [Except.ok.injEq, Prod.mk.injEq] at h
          obtain ⟨hb, hs⟩ := h
          subst hb hs
          refine ⟨⟨rfl, rfl⟩, rfl, rfl, ?_, by simp, ?_⟩
          · intro e he; rw [hp]; exact List.mem_cons_of_mem _ he
          · intro _
            exact ⟨hne, hmore, ⟨at_, by rw [hp]; simp⟩, rfl⟩
        · rw [if_neg hne] at h
          simp only [Except.ok.injEq, Prod.mk.injEq] at h
          obtain ⟨hb, hs⟩ := h
          subst hb hs
          refine ⟨⟨rfl, rfl⟩, rfl, rfl, ?_, fun _ => ⟨rfl, rfl⟩, by simp⟩
          intro e he; rw [hp]; exact List.mem_cons_of_mem _ he
      · rw [if_neg hc] at h
        simp only [ne_eq, not_true_eq_false, ↓reduceIte] at h
        simp only [Except.ok.injEq, Prod.mk.injEq] at h
        obtain ⟨hb, hs⟩ := h
        subst hb hs
        exact ⟨⟨rfl, rfl⟩, rfl, rfl, fun e he => he, fun _ => ⟨rfl, rfl⟩, by simp⟩

/-! ### the ASCII encoder, any plan -/

/-- how a mode encoder hands control back -/
def Exit (s s' : St) : Prop :=
  (s'.hasMore = false ∧ s'.mode = s.mode ∧ s'.newMode = s.newMode) ∨
  (s'.mode ≠ s.mode ∧ s'.hasMore = true ∧ (∃ p, (p, s'.mode) ∈ s.plan) ∧
    s'.newMode = (match s'.mode.latch with | some l => some l | none => s.newMode))

theorem take_drop_cons (l : List Nat) (p q : Nat) (hp : p < l.length) (hq : p + 1 ≤ q) :
    (l.drop p).take (q - p) = l[p] :: (l.drop (p + 1)).take (q - (p + 1)) := by
  rw [List.drop_eq_getElem_cons hp]
  have : q - p = (q - (p + 1)) + 1 := by omega
  rw [this, List.take_succ_cons]

theorem asciiLoop_gen : ∀ (f : Nat) (s s' : St), asciiLoop f s = .ok s' → ByteList s.input →
    ∃ X, s'.cw = s.cw ++ X ∧ AsciiSeg X ((s.input.drop s.pos).take (s'.pos - s.pos)) ∧ s.pos ≤ s'.pos ∧
      SameRun s s' ∧ (∀ e ∈ s'.plan, e ∈ s.plan) ∧ Exit s s' := by
  intro f
  induction f with
  | zero => intro s s' h; cases h
  | succ f ih =>
    intro s s' h hb
    unfold asciiLoop at h
    cases hm : s.maybeSwitch with
    | error e => rw [hm] at h; cases h
    | ok r =>
      obtain ⟨b, s1⟩ := r
      rw [hm] at h
      obtain ⟨hsame, hpos, hcw, hplan, hf, ht⟩ := maybeSwitch_spec s s1 b hm
      cases b with
      | true =>
        simp only [Except.ok.injEq] at h
        subst h
        obtain ⟨h1, h2, h3, h4⟩ := ht rfl
        refine ⟨[], by simp [hcw], ?_, by omega, hsame, hplan, Or.inr ⟨h1, ?_, h3, h4⟩⟩
        · rw [hpos]; simpa using asciiSeg_nil
        · simpa [St.hasMore, hpos, hsame.1] using h2
      | false =>
        simp only [] at h
        obtain ⟨hmode, hnm⟩ := hf rfl
        have hb1 : ByteList s1.input := by rw [hsame.1]; exact hb
        -- a continuation `s2` of `s1` that has consumed `chunk` and written `Y`
        have step : ∀ (s2 : St) (Y chunk : List Nat), asciiLoop f s2 = .ok s' → s2.input = s1.input → s2.list = s1.list →
            s2.plan = s1.plan → s2.mode = s1.mode → s2.newMode = s1.newMode → s2.cw = s1.cw ++ Y →
            s2.pos = s1.pos + chunk.length → AsciiSeg Y chunk →
            (s1.input.drop s1.pos).take chunk.length = chunk →
            ∃ X, s'.cw = s.cw ++ X ∧ AsciiSeg X ((s.input.drop s.pos).take (s'.pos - s.pos)) ∧ s.pos ≤ s'.pos ∧
              SameRun s s' ∧ (∀ e ∈ s'.plan, e ∈ s.plan) ∧ Exit s s' := by
          intro s2 Y chunk h2 e1 e2 e3 e4 e5 e6 e7 hY hchunk
          obtain ⟨X2, c1, c2, c3, c4, c5, c6⟩ := ih s2 s' h2 (by rw [e1]; exact hb1)
          refine ⟨Y ++ X2, by rw [c1, e6, hcw, List.append_assoc], ?_, by omega,
            ⟨c4.1.trans (e1.trans hsame.1), c4.2.trans (e2.trans hsame.2)⟩,
            fun e he => hplan e (by rw [← e3]; exact c5 e he), ?_⟩
          · have hsplit : (s.input.drop s.pos).take (s'.pos - s.pos) =
                chunk ++ (s2.input.drop s2.pos).take (s'.pos - s2.pos) := by
              have key : ∀ (I : List Nat) (p q n : Nat), p + n ≤ q →
                  (I.drop p).take (q - p) = (I.drop p).take n ++ (I.drop (p + n)).take (q - (p + n)) := by
                intro I p q n hle
                have : q - p = n + (q - (p + n)) := by omega
                rw [this, List.take_add, List.drop_drop]
              rw [e1, e7, hsame.1, hpos, key s.input s.pos s'.pos chunk.length (by omega)]
              congr 1
              rw [← hsame.1, ← hpos]
              exact hchunk
            rw [hsplit]
            exact asciiSeg_append hY c2
          · rcases c6 with ⟨a1, a2, a3⟩ | ⟨a1, a2, a3, a4⟩
            · exact Or.inl ⟨a1, by rw [a2, e4, hmode], by rw [a3, e5, hnm]⟩
            · refine Or.inr ⟨by rw [← hmode, ← e4]; exact a1, a2, ?_, by rw [a4, e5, hnm]⟩
              obtain ⟨p, hp⟩ := a3
              exact ⟨p, hplan _ (by rw [← e3]; exact hp)⟩
        by_cases htd : twoDigitsComing s1.rest = true
        · rw [if_pos htd] at h
          match hr : s1.rest, htd with
          | a :: b :: t, htd =>
            rw [hr] at h
            simp only [] at h
            simp only [twoDigitsComing, Bool.and_eq_true] at htd
            have hlt : s1.pos + 1 < s1.input.length := by
              have : (s1.input.drop s1.pos).length = (a :: b :: t).length := by rw [← hr]; rfl
              simp only [List.length_drop, List.length_cons] at this
              omega
            have hchunk : (s1.input.drop s1.pos).take 2 = [a, b] := by
              have : s1.input.drop s1.pos = a :: b :: t := hr
              rw [this]; rfl
            exact step _ [(a - 48) * 10 + (b - 48) + 130] [a, b] h rfl rfl rfl rfl rfl (by simp [St.push]) (by simp [St.push])
              (asciiSeg_pair a b htd.1 htd.2) hchunk
          | [], htd => simp [twoDigitsComing] at htd
          | [_], htd => simp [twoDigitsComing] at htd
        · rw [if_neg htd] at h
          cases he : s1.eat with
          | none =>
            rw [he] at h
            simp only [Except.ok.injEq] at h
            subst h
            have hnm' : s1.hasMore = false := by
              simp only [St.eat] at he
              split at he
              · cases he
              · rename_i hnone
                simp only [St.hasMore]
                have := List.getElem?_eq_none_iff.mp hnone
                simp; omega
            refine ⟨[], by simp [hcw], ?_, by omega, hsame, hplan, Or.inl ⟨hnm', hmode, hnm⟩⟩
            rw [hpos]; simpa using asciiSeg_nil
          | some r2 =>
            obtain ⟨ch, s2⟩ := r2
            rw [he] at h
            simp only [] at h
            have hs2 : s1.pos < s1.input.length ∧ ch = s1.input[s1.pos]! ∧ s2 = { s1 with pos := s1.pos + 1 } := by
              simp only [St.eat] at he
              split at he
              · rename_i c hc
                simp only [Option.some.injEq, Prod.mk.injEq] at he
                have hlt := (List.getElem?_eq_some_iff.mp hc).1
                refine ⟨hlt, ?_, he.2.symm⟩
                rw [← he.1]
                simp [List.getElem?_eq_getElem hlt] at hc ⊢
                exact hc.symm
              · cases he
            obtain ⟨hlt, hch, hs2e⟩ := hs2
            have hgetch : s1.input[s1.pos] = ch := by rw [hch]; simp [hlt]
            have hchlt : ch < 256 := by rw [← hgetch]; exact hb1 _ (List.getElem_mem hlt)
            have hchunk : (s1.input.drop s1.pos).take 1 = [ch] := by
              rw [List.drop_eq_getElem_cons hlt, hgetch]; rfl
            subst hs2e
            split at h
            · rename_i hle
              have hY : AsciiSeg [ch + 1] [ch] := by
                have := asciiSeg_enc1 ch hchlt
                simpa [enc1, hle] using this
              exact step _ [ch + 1] [ch] h rfl rfl rfl rfl rfl (by simp [St.push]) (by simp [St.push]) hY hchunk
            · rename_i hle
              have hY : AsciiSeg [235, ch - 128 + 1] [ch] := by
                have := asciiSeg_enc1 ch hchlt
                simpa [enc1, hle] using this
              exact step _ [235, ch - 128 + 1] [ch] h rfl rfl rfl rfl rfl (by simp [St.push]) (by simp [St.push]) hY hchunk

end DM.Lemmas.EncRT
