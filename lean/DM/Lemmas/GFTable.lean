import DM.Model.GF
import DM.Spec.GF256
/-
Finite facts about the regenerated LOG / ANTI_LOG tables, checked by the kernel
(`decide +kernel` over the whole domain, lifted by `allBelow_spec`).
-/
namespace DM.Lemmas
open DM.Model DM.Spec

def allBelow : Nat → (Nat → Bool) → Bool
  | 0, _ => true
  | n + 1, p => p n && allBelow n p

theorem allBelow_spec {n : Nat} {p : Nat → Bool} (h : allBelow n p = true) :
    ∀ i, i < n → p i = true := by
  induction n with
  | zero => intro i hi; omega
  | succ n ih =>
    intro i hi
    simp only [allBelow, Bool.and_eq_true] at h
    by_cases hin : i = n
    · subst hin; exact h.1
    · exact ih h.2 i (by omega)

theorem log_alog : ∀ i, i < 255 → glog (alog i) = i := by
  intro i hi
  have h : allBelow 255 (fun i => glog (alog i) == i) = true := by decide +kernel
  simpa using allBelow_spec h i hi

theorem alog_log : ∀ a, a < 256 → a ≠ 0 → alog (glog a) = a := by
  intro a ha h0
  have h : allBelow 256 (fun a => a == 0 || alog (glog a) == a) = true := by decide +kernel
  have := allBelow_spec h a ha
  simp at this
  rcases this with h | h
  · exact absurd h h0
  · exact h

theorem log_lt : ∀ a, a < 256 → glog a < 255 := by
  intro a ha
  have h : allBelow 256 (fun a => decide (glog a < 255)) = true := by decide +kernel
  simpa using allBelow_spec h a ha

theorem alog_pos : ∀ i, i < 255 → alog i ≠ 0 ∧ alog i < 256 := by
  intro i hi
  have h : allBelow 255 (fun i => alog i != 0 && decide (alog i < 256)) = true := by decide +kernel
  simpa using allBelow_spec h i hi

theorem alog_zero : alog 0 = 1 := by decide +kernel
theorem log_one : glog 1 = 0 := by decide +kernel
theorem log_two : glog 2 = 1 := by decide +kernel
theorem alog_one : alog 1 = 2 := by decide +kernel

/-- ANTI_LOG is the sequence of powers of x: each entry is `xtime` of the previous one. -/
theorem alog_succ : ∀ i, i < 254 → alog (i + 1) = xtime (alog i) := by
  intro i hi
  have h : allBelow 254 (fun i => alog (i + 1) == xtime (alog i)) = true := by decide +kernel
  simpa using allBelow_spec h i hi

/-- x^255 = 1 -/
theorem xtime_alog_254 : xtime (alog 254) = 1 := by decide +kernel

theorem xtime_lt : ∀ a, a < 256 → xtime a < 256 := by
  intro a ha
  have h : allBelow 256 (fun a => decide (xtime a < 256)) = true := by decide +kernel
  simpa using allBelow_spec h a ha

set_option maxRecDepth 100000 in
/-- multiplication by x is XOR-linear -/
theorem xtime_lin : ∀ a, a < 256 → ∀ b, b < 256 → xtime (a ^^^ b) = xtime a ^^^ xtime b := by
  intro a ha b hb
  have h : allBelow 256 (fun a => allBelow 256 fun b => xtime (a ^^^ b) == xtime a ^^^ xtime b) = true := by
    decide +kernel
  have h1 := allBelow_spec h a ha
  simpa using allBelow_spec h1 b hb

/-- table multiplication by 2 is multiplication by x -/
theorem mul2_xtime : ∀ b, b < 256 → gmul 2 b = xtime b := by
  intro b hb
  have h : allBelow 256 (fun b => gmul 2 b == xtime b) = true := by decide +kernel
  simpa using allBelow_spec h b hb

end DM.Lemmas
