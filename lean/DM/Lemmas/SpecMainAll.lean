import DM.Lemmas.SpecMainEdi
import DM.Lemmas.SpecMainX12
import DM.Lemmas.SpecMainC40
/-
One round of the encoder's main loop preserves the invariant against the reference decoder
(`SpecMain.SInv`) for *all six modes*, within `C40Gen.PlanOKE` (EDIFACT as the final stretch of the
message, over EDIFACT characters; no latch to a non-ASCII mode planned for the last four characters):
`stepB_all`, over the frame `SpecMainEdi.StepB` with the state invariant `RInvAll` (`SpecMainEdi.RInv`
without the restriction to ASCII / Base 256 / EDIFACT).

Dispatch on the current mode: ASCII `SpecMain.step_ascii`, Base 256 `SpecMain.step_b256`, X12
`SpecMainX12.step_x12_local`, C40 / Text `SpecMainC40.stepC_core`, EDIFACT `SpecMainEdi.edi_SInv`. The
pending-latch invariant (`C40Gen.Pending`: in EDIFACT mode the remaining plan names EDIFACT only and the
remaining characters are EDIFACT characters) is threaded the way `MainRT.step_MI` does it.
-/
namespace DM.Lemmas.SpecMainAll
open DM.Model DM.Lemmas DM.Lemmas.AsciiRT DM.Lemmas.SpecStep DM.Lemmas.SpecAscii DM.Lemmas.SpecB256 DM.Lemmas.Complete
open DM.Lemmas.EncRT DM.Lemmas.C40Gen DM.Lemmas.B256Gen DM.Lemmas.PlanProv DM.Lemmas.MainRT DM.Spec.Stream
open DM.Lemmas.SpecMain DM.Lemmas.SpecEdi DM.Lemmas.SpecEdiGen DM.Lemmas.EdiGen DM.Lemmas.EdiRT DM.Lemmas.SpecMainEdi
open DM.Lemmas.C40RT (latchOf modeOf)
open DM.Lemmas.SpecC40 (cmode)
open DM.Lemmas.SpecMainC40 (stepC_core)
open DM.Spec.Build (packTriples)

/-- the state invariant for all modes: the plan is `PlanOKE` for the message, and the pending latch is
consistent with the mode (`C40Gen.Pending`) -/
structure RInvAll (body : List Nat) (s : Enc.St) : Prop where
  plan : PlanOKE body s.plan
  pend : s.hasMore = true → Pending s

theorem rInvAll_of_rInv {body : List Nat} {s : Enc.St} (h : RInv body s) : RInvAll body s := ⟨h.plan, h.pend⟩

/-- the pending latch behind a C40 / Text / X12 run -/
theorem tend_pend {list : List Sym} {body : List Nat} {p0 : Nat} {c0 : List Nat} {latch : Nat} {s' : Enc.St}
    (h : TEnd list body p0 c0 latch s') (hmore : s'.hasMore = true) : Pending s' := by
  obtain ⟨X, p, un, _, _, _, _, hpos, hin, _, hctl, _⟩ := h.out
  rcases hctl with ⟨a1, _, a3⟩ | ⟨_, _, b3, _⟩ | ⟨c1, _⟩
  · exact Or.inl ⟨a1, a3⟩
  · exact b3
  · have := of_decide_eq_true hmore
    rw [hin, hpos, c1] at this
    omega

theorem pend_c40 (text : Bool) (list : List Sym) (body : List Nat) (hb : ByteList body) (s s' : Enc.St)
    (hin : s.input = body) (hli : s.list = list) (hle : s.pos ≤ body.length) (hmode : s.mode = modeOf text)
    (hnm : s.newMode = some (latchOf text)) (hpl : PlanOKE body s.plan)
    (h : Enc.encodeMode (latched s) = .ok s') (hmore : s'.hasMore = true) : Pending s' := by
  have hlatched : latched s = { s with newMode := none }.push (latchOf text) := by simp [latched, hnm]
  rw [hlatched] at h
  generalize hsL : ({ s with newMode := none }.push (latchOf text) : Enc.St) = sL at h
  have hLin : sL.input = body := by rw [← hsL]; exact hin
  have hLli : sL.list = list := by rw [← hsL]; exact hli
  have hLpos : sL.pos = s.pos := by rw [← hsL]; rfl
  have hLnm : sL.newMode = none := by rw [← hsL]; rfl
  have hLcw : sL.cw = s.cw ++ [latchOf text] := by rw [← hsL]; rfl
  have hLmode : sL.mode = modeOf text := by rw [← hsL]; exact hmode
  have hLplan : PlanOKE body sL.plan := by rw [← hsL]; exact hpl
  have hLcl : sL.charsLeft = body.length - s.pos := by simp [Enc.St.charsLeft, hLin, hLpos]
  have henc : Enc.c40Encode text sL = .ok s' := by
    cases text
    · have hm' : sL.mode = .c40 := hLmode
      simpa only [Enc.encodeMode, hm'] using h
    · have hm' : sL.mode = .text := hLmode
      simpa only [Enc.encodeMode, hm'] using h
  simp only [Enc.c40Encode] at henc
  have inv0 : Inv text list body s.pos s.cw sL [] 0 0 :=
    ⟨hLin, hLli, hLmode, hLnm, by omega, by rw [hLpos]; exact hle, by simp,
      by simp [Wb, hLpos, seg_self], by simp, by simp [Wb, hLpos, seg_self, packTriples, hLcw], by omega⟩
  have hend := c40Loop_gen text list body hb s.pos s.cw (body.length - s.pos) (sL.charsLeft + 2) sL [] 0 0 s'
    (by rw [hLpos]) (by omega) inv0 hLplan henc
  exact tend_pend (c40_to_TEnd text list body s.pos s.cw s' hend) hmore

theorem pend_x12 (list : List Sym) (body : List Nat) (s s' : Enc.St)
    (hin : s.input = body) (hli : s.list = list) (hle : s.pos ≤ body.length) (hmode : s.mode = .x12)
    (hnm : s.newMode = some 238) (hpl : PlanOKE body s.plan)
    (h : Enc.encodeMode (latched s) = .ok s') (hmore : s'.hasMore = true) : Pending s' := by
  have hlatched : latched s = { s with newMode := none }.push 238 := by simp [latched, hnm]
  rw [hlatched] at h
  generalize hsL : ({ s with newMode := none }.push 238 : Enc.St) = sL at h
  have hLin : sL.input = body := by rw [← hsL]; exact hin
  have hLli : sL.list = list := by rw [← hsL]; exact hli
  have hLpos : sL.pos = s.pos := by rw [← hsL]; rfl
  have hLnm : sL.newMode = none := by rw [← hsL]; rfl
  have hLcw : sL.cw = s.cw ++ [238] := by rw [← hsL]; rfl
  have hLmode : sL.mode = .x12 := by rw [← hsL]; exact hmode
  have hLplan : PlanOKE body sL.plan := by rw [← hsL]; exact hpl
  simp only [Enc.encodeMode, hLmode] at h
  exact tend_pend (x12Encode_gen list body s.pos s.cw sL s' hLin hLli hLpos hle hLnm hLcw hLplan h) hmore

/-- **One round of the main loop, all six modes, within `PlanOKE`.** -/
theorem stepB_all (P : Mode → Prop) (hP : ∀ m, P m) (list : List Sym) (i0 : Nat) (pre body : List Nat) (hb : ByteList body) :
    StepB P list i0 pre body (RInvAll body) := by
  intro s s' hinv r hmore he
  have hplan' : PlanOKE body s'.plan :=
    q_encodeMode (planOKE_closed body) _ _ he (q_latched (planOKE_closed body) s r.plan)
  obtain ⟨room, lo, tr, lat, mi⟩ := hinv
  have hinv : SInv P list i0 pre body s := ⟨room, lo, tr, lat, mi⟩
  have hpend := r.pend hmore
  have hnmOf : s.newMode = s.mode.latch := by
    rcases mi.ctl with ⟨_, hf⟩ | hc
    · rw [hmore] at hf; cases hf
    · exact hc
  cases hm : s.mode with
  | ascii =>
    refine ⟨step_ascii P (fun _ => True) (hP _) list i0 pre body s s' hb hinv trivial hmore hm he, hplan', fun _ => ?_⟩
    have hnm : s.newMode = none := by rw [hnmOf, hm]; rfl
    have hl : latched s = s := by simp [latched, hnm]
    rw [hl] at he
    simp only [Enc.encodeMode, hm] at he
    exact asciiLoop_pend _ s s' he hm hnm (by rw [mi.inp]; exact r.plan)
  | base256 =>
    refine ⟨step_b256 P (fun _ => True) (hP _) list i0 pre body s s' hb hinv trivial hmore hm he, hplan', fun _ => ?_⟩
    have hnm : s.newMode = some 231 := by rw [hnmOf, hm]; rfl
    have hlatched : latched s = { s with newMode := none }.push 231 := by simp [latched, hnm]
    rw [hlatched] at he
    generalize hsL : ({ s with newMode := none }.push 231 : Enc.St) = sL at he
    have hLin : sL.input = body := by rw [← hsL]; exact mi.inp
    have hLli : sL.list = list := by rw [← hsL]; exact mi.lst
    have hLpos : sL.pos = s.pos := by rw [← hsL]; rfl
    have hLnm : sL.newMode = none := by rw [← hsL]; rfl
    have hLcw : sL.cw = s.cw ++ [231] := by rw [← hsL]; rfl
    have hLmode : sL.mode = .base256 := by rw [← hsL]; exact hm
    have hLplan : PlanOKE body sL.plan := by rw [← hsL]; exact r.plan
    simp only [Enc.encodeMode, hLmode, Enc.b256Encode] at he
    have hstart : sL.cw.length = s.cw.length + 1 := by rw [hLcw]; simp
    rw [hstart] at he
    have inv0 : BInv list body s.pos s.cw (sL.push 0) :=
      ⟨hLin, hLli, hLnm, by simp [Enc.St.push, hLpos], by simp [Enc.St.push, hLpos]; exact mi.le,
        by simp [Enc.St.push, hLcw, hLpos, seg_self]⟩
    have hLcl : sL.charsLeft = body.length - s.pos := by simp [Enc.St.charsLeft, hLin, hLpos]
    have hend := b256Loop_gen list body hb s.pos s.cw (body.length - s.pos) (sL.charsLeft + 2) (sL.push 0) s'
      (by simp [Enc.St.push, hLpos]) (by omega) inv0 (by simpa [Enc.St.push] using hLplan)
      (Or.inl (by simp only [Enc.St.hasMore, Enc.St.push, hLin, hLpos]; simpa [Enc.St.hasMore, mi.inp] using hmore)) he
    obtain ⟨p, toEnd, _, _, _, _, _, _, _, _, hctl⟩ := hend.out
    rcases hctl with ⟨a1, _, a3, _⟩ | ⟨_, _, a3, _⟩
    · exact Or.inl ⟨a1, a3⟩
    · exact a3
  | edifact =>
    have hedi : (∀ e ∈ s.plan, e.2 = .edifact) ∧ EdiChars (s.input.drop (s.input.length - s.charsLeft)) := by
      rcases hpend with ⟨a, _⟩ | ⟨l, _, _, c⟩
      · rw [hm] at a; cases a
      · exact c hm
    have hpos : s.input.length - s.charsLeft = s.pos := by
      have := mi.le
      simp only [Enc.St.charsLeft, mi.inp]; omega
    rw [hpos, mi.inp] at hedi
    obtain ⟨a, b⟩ := edi_SInv P (hP _) list i0 pre body s s' hinv hmore hm hedi.1 hedi.2 he
    exact ⟨a, hplan', fun hmo => Or.inl ⟨(b hmo).1, (b hmo).2.2⟩⟩
  | c40 =>
    exact ⟨stepC_core false P (hP _) list i0 pre body s s' hb hinv r.plan hmore hm he, hplan',
      pend_c40 false list body hb s s' mi.inp mi.lst mi.le hm (by rw [hnmOf, hm]; rfl) r.plan he⟩
  | text =>
    exact ⟨stepC_core true P (hP _) list i0 pre body s s' hb hinv r.plan hmore hm he, hplan',
      pend_c40 true list body hb s s' mi.inp mi.lst mi.le hm (by rw [hnmOf, hm]; rfl) r.plan he⟩
  | x12 =>
    exact ⟨DM.Lemmas.SpecMainX12.step_x12_local P (hP _) list i0 pre body s s' hinv r.plan hmore hm he, hplan',
      pend_x12 list body s s' mi.inp mi.lst mi.le hm (by rw [hnmOf, hm]; rfl) r.plan he⟩

end DM.Lemmas.SpecMainAll
