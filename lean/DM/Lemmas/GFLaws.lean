import DM.Lemmas.GFTable
/-
Field laws of the table-driven GF(256) multiplication, derived structurally from the
finite table facts (no 256^3 enumeration).
-/
namespace DM.Lemmas
open DM.Model DM.Spec

theorem gmul_zero_left (b : Nat) : gmul 0 b = 0 := by simp [gmul]
theorem gmul_zero_right (a : Nat) : gmul a 0 = 0 := by simp [gmul]

theorem gmul_comm (a b : Nat) : gmul a b = gmul b a := by
  unfold gmul
  rw [Nat.add_comm (glog a) (glog b)]
  by_cases ha : a = 0 <;> by_cases hb : b = 0 <;> simp [ha, hb]

theorem gmul_lt {a b : Nat} (_ha : a < 256) (_hb : b < 256) : gmul a b < 256 := by
  unfold gmul
  split
  · omega
  · exact (alog_pos _ (Nat.mod_lt _ (by omega))).2

theorem gmul_ne_zero {a b : Nat} (ha : a ≠ 0) (hb : b ≠ 0) : gmul a b ≠ 0 := by
  unfold gmul
  rw [if_neg (by simp [ha, hb])]
  exact (alog_pos _ (Nat.mod_lt _ (by omega))).1

theorem gmul_of_ne {a b : Nat} (ha : a ≠ 0) (hb : b ≠ 0) :
    gmul a b = alog ((glog a + glog b) % 255) := by
  unfold gmul
  rw [if_neg (by simp [ha, hb])]

theorem log_gmul {a b : Nat} (ha : a ≠ 0) (hb : b ≠ 0) :
    glog (gmul a b) = (glog a + glog b) % 255 := by
  unfold gmul
  rw [if_neg (by simp [ha, hb])]
  exact log_alog _ (Nat.mod_lt _ (by omega))

theorem gmul_one_left {b : Nat} (hb : b < 256) : gmul 1 b = b := by
  by_cases h0 : b = 0
  · subst h0; rfl
  · unfold gmul
    rw [if_neg (by simp [h0]), log_one, Nat.zero_add, Nat.mod_eq_of_lt (log_lt b hb)]
    exact alog_log b hb h0

theorem gmul_assoc {a b c : Nat} (_ha : a < 256) (_hb : b < 256) (_hc : c < 256) :
    gmul (gmul a b) c = gmul a (gmul b c) := by
  by_cases ha0 : a = 0
  · subst ha0; simp [gmul_zero_left]
  by_cases hb0 : b = 0
  · subst hb0; simp [gmul_zero_left, gmul_zero_right]
  by_cases hc0 : c = 0
  · subst hc0; simp [gmul_zero_right]
  have hab := gmul_ne_zero ha0 hb0
  have hbc := gmul_ne_zero hb0 hc0
  have e1 := gmul_of_ne hab hc0
  have e2 := gmul_of_ne ha0 hbc
  rw [e1, e2, log_gmul ha0 hb0, log_gmul hb0 hc0]
  congr 1
  omega

/-- `n`-fold multiplication by x -/
def xtimes : Nat → Nat → Nat
  | 0, x => x
  | n + 1, x => xtime (xtimes n x)

theorem xtimes_lt (n : Nat) {x : Nat} (hx : x < 256) : xtimes n x < 256 := by
  induction n with
  | zero => exact hx
  | succ n ih => exact xtime_lt _ ih

theorem xtimes_lin (n : Nat) {a b : Nat} (ha : a < 256) (hb : b < 256) :
    xtimes n (a ^^^ b) = xtimes n a ^^^ xtimes n b := by
  induction n with
  | zero => rfl
  | succ n ih =>
    simp only [xtimes, ih]
    exact xtime_lin _ (xtimes_lt n ha) _ (xtimes_lt n hb)

theorem gmul_alog (i : Nat) (hi : i < 255) {x : Nat} (hx : x < 256) :
    gmul (alog i) x = xtimes i x := by
  induction i with
  | zero => rw [alog_zero]; exact gmul_one_left hx
  | succ i ih =>
    have hi' : i < 255 := by omega
    have hal := (alog_pos i hi').2
    rw [alog_succ i (by omega), ← mul2_xtime _ hal,
      gmul_assoc (by omega) hal hx, ih hi', mul2_xtime _ (xtimes_lt i hx)]
    rfl

theorem xor_lt_256 {a b : Nat} (ha : a < 256) (hb : b < 256) : a ^^^ b < 256 :=
  Nat.xor_lt_two_pow (n := 8) ha hb

theorem gmul_xor {a b c : Nat} (ha : a < 256) (hb : b < 256) (hc : c < 256) :
    gmul a (b ^^^ c) = gmul a b ^^^ gmul a c := by
  by_cases ha0 : a = 0
  · subst ha0; simp [gmul_zero_left]
  · have hl := log_lt a ha
    have ea := alog_log a ha ha0
    rw [← ea, gmul_alog _ hl (xor_lt_256 hb hc), gmul_alog _ hl hb, gmul_alog _ hl hc]
    exact xtimes_lin _ hb hc

/-- multiplicative inverse: `alog (255 - log a)` -/
def ginv (a : Nat) : Nat := if a = 0 then 0 else alog ((255 - glog a) % 255)

theorem ginv_lt (a : Nat) : ginv a < 256 := by
  unfold ginv
  split
  · omega
  · exact (alog_pos _ (Nat.mod_lt _ (by omega))).2

theorem gmul_ginv {a : Nat} (ha : a < 256) (h0 : a ≠ 0) : gmul a (ginv a) = 1 := by
  have hl := log_lt a ha
  have hp := alog_pos ((255 - glog a) % 255) (Nat.mod_lt _ (by omega))
  unfold ginv
  rw [if_neg h0]
  unfold gmul
  rw [if_neg (by simp [h0, hp.1]), log_alog _ (Nat.mod_lt _ (by omega))]
  have : (glog a + (255 - glog a) % 255) % 255 = 0 := by omega
  rw [this, alog_zero]

/-- `gdiv` is multiplication with the inverse -/
theorem gdiv_eq {a b : Nat} (_ha : a < 256) (hb : b < 256) (h0 : b ≠ 0) :
    gdiv a b = some (gmul a (ginv b)) := by
  unfold gdiv
  rw [if_neg h0]
  by_cases ha0 : a = 0
  · subst ha0; simp [gmul_zero_left]
  · rw [if_neg ha0]
    have hlb := log_lt b hb
    have hla := log_lt a _ha
    have hp := alog_pos ((255 - glog b) % 255) (Nat.mod_lt _ (by omega))
    unfold ginv gmul
    rw [if_neg h0, if_neg (by simp [ha0, hp.1]), log_alog _ (Nat.mod_lt _ (by omega))]
    simp only
    congr 2
    split <;> omega

end DM.Lemmas
