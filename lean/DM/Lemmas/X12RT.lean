import DM.Lemmas.EncRT
import DM.Props.C04
/-
Data-level round trip for a message planned entirely in X12 (with the end-of-data forms the
encoder chooses: single trailing ASCII codeword without UNLATCH, UNLATCH + ASCII rest, exact fit).
-/
namespace DM.Lemmas.X12RT
open DM.Model DM.Model.Enc DM.Model.Dec DM.Lemmas DM.Lemmas.DecRun DM.Lemmas.AsciiRT DM.Lemmas.Complete
open DM.Lemmas.EncRT DM.Spec.Build

/-- the three ways `x12::encode` ends when no switch is planned -/
inductive X12End (sL s3 : St) : Prop where
  /-- one ASCII codeword fits exactly: no UNLATCH, the rest goes to ASCII -/
  | early (s2 : St) (n : Nat) (run : X12Run sL s2 false n) (few : s2.charsLeft ≤ 2) (one : asciiSize s2.rest = 1)
      (fit : s2.sizeLeft 1 = some 0) (eq : s3 = s2.setAscii)
  /-- UNLATCH, the rest (if any) goes to ASCII -/
  | unlatch (s2 : St) (n : Nat) (run : X12Run sL s2 false n) (eq : s3 = s2.setAscii.push 254)
  /-- the run ends with the symbol -/
  | exact (s2 : St) (n : Nat) (run : X12Run sL s2 false n) (done : s2.hasMore = false)
      (fit : s2.sizeLeft 0 = some 0) (eq : s3 = s2)

theorem x12Encode_cases (sL s3 : St) (hmode : sL.mode = .x12) (hplan : sL.plan = [(0, .x12)])
    (h : x12Encode sL = .ok s3) : X12End sL s3 := by
  unfold x12Encode at h
  cases hl : x12Loop (sL.charsLeft + 2) sL with
  | error e => rw [hl] at h; cases h
  | ok r =>
    obtain ⟨s2, sw⟩ := r
    rw [hl] at h
    simp only [] at h
    obtain ⟨n, run⟩ := x12Loop_gen _ sL s2 sw hl
    have hsw : sw = false := by
      cases sw with
      | false => rfl
      | true =>
        obtain ⟨a1, _, ⟨p, hp⟩, _⟩ := run.switch rfl
        rw [hplan] at hp
        simp only [List.mem_singleton, Prod.mk.injEq] at hp
        exact absurd (hp.2.trans hmode.symm) a1
    subst hsw
    by_cases hone : s2.charsLeft ≤ 2 ∧ asciiSize s2.rest = 1
    · rw [if_pos hone] at h
      unfold St.sizeLeftE at h
      cases hs : s2.sizeLeft 1 with
      | none => rw [hs] at h; cases h
      | some k =>
        rw [hs] at h
        simp only [] at h
        by_cases hk : k = 0
        · subst hk
          simp only [decide_true] at h
          cases h
          exact .early s2 n run hone.1 hone.2 hs rfl
        · simp only [hk, decide_false] at h
          by_cases hm : s2.hasMore = true
          · simp only [hm, ↓reduceIte, Bool.not_false] at h
            cases h
            exact .unlatch s2 n run rfl
          · simp only [hm, Bool.false_eq_true, ↓reduceIte] at h
            cases hs0 : s2.sizeLeft 0 with
            | none => rw [hs0] at h; cases h
            | some k0 =>
              rw [hs0] at h
              simp only [] at h
              by_cases hk0 : k0 > 0
              · simp only [hk0, decide_true, Bool.not_false, ↓reduceIte] at h
                cases h
                exact .unlatch s2 n run rfl
              · simp only [hk0, decide_false] at h
                cases h
                exact .exact _ n run (by simpa using hm) (by rw [hs0]; congr 1; omega) rfl
    · rw [if_neg hone] at h
      simp only [] at h
      unfold St.sizeLeftE at h
      by_cases hm : s2.hasMore = true
      · simp only [hm, ↓reduceIte, Bool.not_false] at h
        cases h
        exact .unlatch s2 n run rfl
      · simp only [hm, Bool.false_eq_true, ↓reduceIte] at h
        cases hs0 : s2.sizeLeft 0 with
        | none => rw [hs0] at h; cases h
        | some k0 =>
          rw [hs0] at h
          simp only [] at h
          by_cases hk0 : k0 > 0
          · simp only [hk0, decide_true, Bool.not_false, ↓reduceIte] at h
            cases h
            exact .unlatch s2 n run rfl
          · simp only [hk0, decide_false] at h
            cases h
            exact .exact _ n run (by simpa using hm) (by rw [hs0]; congr 1; omega) rfl

/-! ### decoder-side glue -/

theorem decRun_asciiSeg {X chunk : List Nat} (hx : AsciiSeg X chunk) (T : List Nat) (e : Nat) (out : List Nat) :
    decRun .ascii { rest := X ++ T, eaten := e, out := out, ecis := [] } =
    decRun .ascii { rest := T, eaten := e + X.length, out := out ++ chunk, ecis := [] } := by
  by_cases hnil : X ++ T = []
  · have h1 := List.append_eq_nil_iff.mp hnil
    have h0 := hx.2 [] 0 [] []
    rw [h1.1] at h0 ⊢
    simp only [List.nil_append, decodeAscii, ne_eq, not_true_eq_false, ↓reduceIte, Bool.false_eq_true, List.length_nil,
      Nat.add_zero, Except.ok.injEq, Prod.mk.injEq, and_true] at h0
    have : chunk = [] := by
      have := congrArg DSt.out h0
      simpa using this.symm
    rw [h1.2, this]
    simp
  · rw [decRun_ascii _ hnil]
    simp only []
    rw [hx.2]
    by_cases ht0 : T = []
    · subst ht0
      rw [decRun_nil _ _ rfl]
      simp only [decodeAscii, ne_eq, not_true_eq_false, ↓reduceIte, Bool.false_eq_true]
      rw [decRun_nil _ _ rfl]
    · rw [decRun_ascii _ ht0]

theorem asciiSeg_asciiEnc (l : List Nat) (hb : ByteList l) : AsciiSeg (asciiEnc l) l := by
  refine ⟨?_, fun tail e out ecis => dec_asciiEnc l.length l (Nat.le_refl _) hb tail e out ecis⟩
  -- every ASCII codeword is at most 229 or is 235
  have : ∀ (n : Nat) (l : List Nat), l.length ≤ n → ByteList l → ∀ c ∈ asciiEnc l, c ≠ 254 ∧ c ≠ 129 ∧ c ≠ 232 ∧ c ≠ 236 ∧ c ≠ 237 := by
    intro n
    induction n with
    | zero => intro l h _ c hc; have : l = [] := List.length_eq_zero_iff.mp (by omega); subst this; simp [asciiEnc] at hc
    | succ n ih =>
      intro l h hb c hc
      match l, h, hb with
      | [], _, _ => simp [asciiEnc] at hc
      | [a], _, hb => exact (asciiSeg_enc1 a hb.head).1 c (by simpa [asciiEnc] using hc)
      | a :: b :: t, h, hb =>
        simp only [asciiEnc] at hc
        split at hc
        · rename_i hd
          simp only [Bool.and_eq_true] at hd
          rcases List.mem_cons.mp hc with rfl | hc
          · exact (asciiSeg_pair a b hd.1 hd.2).1 _ (by simp)
          · exact ih t (by simp only [List.length_cons] at h; omega) hb.tail.tail c hc
        · rcases List.mem_append.mp hc with hc | hc
          · exact (asciiSeg_enc1 a hb.head).1 c hc
          · exact ih (b :: t) (by simp only [List.length_cons] at h ⊢; omega) hb.tail c hc
  exact this l.length l (Nat.le_refl _) hb

/-- from a complete run of the decoder's main loop to `decode_data` -/
theorem decodeData_of_decRun (cw body : List Nat) (e : Nat)
    (hh : ∀ c ∈ cw.head?, c ≠ 232 ∧ c ≠ 236 ∧ c ≠ 237)
    (h : decRun .ascii { rest := cw, eaten := 0, out := [], ecis := [] } = .ok { rest := [], eaten := e, out := body, ecis := [] }) :
    decodeData cw = .ok body := by
  unfold decodeData
  rw [decodeParts_other cw true (fun t => ⟨fun ht => (hh 236 (by rw [ht]; simp)).2.1 rfl,
    fun ht => (hh 237 (by rw [ht]; simp)).2.2 rfl⟩),
    partsBody_no232 true [] cw 0 false (fun t ht => (hh 232 (by rw [ht]; simp)).1 rfl)]
  simp only [Bool.not_true, Bool.false_and, Bool.false_eq_true, ↓reduceIte]
  unfold decRun at h
  simp only [] at h
  rw [h]
  simp [partsFinish]

/-- `add_padding` in ASCII mode appends exactly the padding area the decoder accepts -/
theorem addPadding_ascii_pads (cw : List Nat) (cap : Nat) (h : cw.length ≤ cap) :
    addPadding cw true cap = some (cw ++ DM.Props.C04.padsOf cw.length (cap - cw.length)) := by
  rw [addPadding_ascii cw cap h]
  unfold DM.Props.C04.padsOf
  by_cases h0 : cw.length = cap
  · simp [h0]
  · rw [if_neg h0, if_neg (by omega)]

/-! ### the run of the encoder on a pure X12 plan -/

theorem run_unfold (list : List Sym) (body plan cw : List _) (sym : Sym)
    (h : run list [] body plan = .ok (cw, sym)) :
    ∃ sE, Enc.mainLoop (2 * body.length + 8)
        { input := body, pos := 0, mode := .ascii, plan := plan, newMode := none, cw := [], list := list } 0 = .ok sE ∧
      firstBigEnough list sE.cw.length = some sym ∧
      addPadding sE.cw (sE.mode == .ascii) (dataCw sym) = some cw := by
  unfold run at h
  split at h
  · cases h
  split at h
  · cases h
  simp only [] at h
  cases hm : Enc.mainLoop (2 * body.length + 8)
      { input := body, pos := 0, mode := .ascii, plan := plan, newMode := none, cw := [], list := list } 0 with
  | error e => rw [hm] at h; cases h
  | ok sE =>
    rw [hm] at h
    simp only [] at h
    cases hf : firstBigEnough list sE.cw.length with
    | none => rw [hf] at h; cases h
    | some sym' =>
      rw [hf] at h
      simp only [] at h
      cases ha : addPadding sE.cw (sE.mode == .ascii) (dataCw sym') with
      | none => rw [ha] at h; cases h
      | some cw' =>
        rw [ha] at h
        simp only [Except.ok.injEq, Prod.mk.injEq] at h
        obtain ⟨h1, h2⟩ := h
        subst h1 h2
        exact ⟨sE, rfl, hf, ha⟩

theorem firstBigEnough_le (list : List Sym) (n : Nat) (sym : Sym) (h : firstBigEnough list n = some sym) : n ≤ dataCw sym := by
  unfold firstBigEnough at h
  have := List.find?_some h
  simpa using this

/-- the ASCII encoder on "ASCII until the end", in the form used below -/
theorem asciiLoop_rest (s : St) (hp : s.plan = [(0, .ascii)]) (hm : s.mode = .ascii) (hpos : s.pos ≤ s.input.length) :
    asciiLoop (s.charsLeft + 2) s = .ok { s with pos := s.input.length, cw := s.cw ++ asciiEnc s.rest } :=
  asciiLoop_spec (s.input.length - s.pos) _ s hp hm hpos (Nat.le_refl _) (by simp [St.charsLeft])

def s0 (list : List Sym) (body : List Nat) : St :=
  { input := body, pos := 0, mode := .ascii, plan := [(body.length, .x12), (0, .x12)], newMode := none, cw := [], list := list }

def sL (list : List Sym) (body : List Nat) : St :=
  { input := body, pos := 0, mode := .x12, plan := [(0, .x12)], newMode := none, cw := [238], list := list }

def s1 (list : List Sym) (body : List Nat) : St :=
  { input := body, pos := 0, mode := .x12, plan := [(0, .x12)], newMode := some 238, cw := [], list := list }

/-- first iteration: the ASCII encoder only performs the planned switch to X12 -/
theorem iter1 (list : List Sym) (body : List Nat) (hne : body ≠ []) (f : Nat) :
    asciiLoop (f + 1) (s0 list body) = .ok (s1 list body) := by
  have hpos : 0 < body.length := List.length_pos_iff.mpr hne
  rw [asciiLoop]
  have : (s0 list body).maybeSwitch = .ok (true, s1 list body) := by
    simp only [St.maybeSwitch, s0, s1, St.charsLeft, Nat.sub_zero, Nat.lt_irrefl, ↓reduceIte, hpos, and_self, ne_eq,
      reduceCtorEq, not_false_eq_true, EMode.latch]
  rw [this]

/-- the codewords and the decoded bytes of the X12 part -/
theorem x12_part (list : List Sym) (body : List Nat) (s2 : St) (n : Nat) (run : X12Run (sL list body) s2 false n) :
    s2.cw = [238] ++ packTriples ((body.take (3 * n)).filterMap x12Val) ∧ s2.pos = 3 * n ∧ 3 * n ≤ body.length ∧
    s2.input = body ∧ s2.list = list ∧ s2.mode = .x12 ∧ s2.newMode = none ∧ X12Native (body.take (3 * n)) ∧
    (body.take (3 * n)).length = 3 * n := by
  have hpos := run.pos
  have hle := run.le (Nat.zero_le _)
  have hcw := run.cw
  have hnat := run.native
  obtain ⟨a1, a2, a3⟩ := run.stay rfl
  simp only [sL, List.drop_zero, Nat.zero_add] at hpos hle hcw hnat a2 a3
  refine ⟨hcw, hpos, by omega, run.same.1, run.same.2, a2, a3, hnat, ?_⟩
  rw [List.length_take]; omega

theorem pure_x12_roundtrip (list : List Sym) (body cw : List Nat) (sym : Sym) (hb : ByteList body)
    (h : run list [] body [(body.length, .x12), (0, .x12)] = .ok (cw, sym)) : decodeData cw = .ok body := by
  by_cases hne : body = []
  · -- the plan is never looked at
    subst hne
    have : run list [] [] [(([] : List Nat).length, EMode.x12), (0, .x12)] = run list [] [] [(0, .ascii)] := by
      unfold run
      simp only [List.length_nil]
      rw [Enc.mainLoop, Enc.mainLoop]
      simp [St.hasMore]
    rw [this] at h
    obtain ⟨hle, hcw⟩ := run_ascii list [] cw sym h
    rw [hcw]
    exact decodeData_ascii [] hb (dataCw sym) hle
  obtain ⟨sE, hmain, hsym, hpad⟩ := run_unfold list body _ cw sym h
  have hlen : 0 < body.length := List.length_pos_iff.mpr hne
  -- iteration 1
  have hs0 : (s0 list body).hasMore = true := by simp [St.hasMore, s0, hlen]
  obtain ⟨s1, k1, he1, hm1⟩ := mainLoop_step (2 * body.length + 7) (s0 list body) sE 0 hmain hs0
  have hl0 : latched (s0 list body) = s0 list body := rfl
  rw [hl0] at he1
  have hmode0 : (s0 list body).mode = .ascii := rfl
  simp only [encodeMode, hmode0] at he1
  rw [iter1 list body hne (St.charsLeft (s0 list body) + 1)] at he1
  simp only [Except.ok.injEq] at he1
  subst he1
  -- iteration 2
  obtain ⟨s3, k2, he2, hm2⟩ := mainLoop_step (2 * body.length + 6) _ sE k1 hm1 (by simp [St.hasMore, s1, hlen])
  have hl1 : latched (s1 list body) = sL list body := rfl
  rw [hl1] at he2
  have hmodeL : (sL list body).mode = .x12 := rfl
  simp only [encodeMode, hmodeL] at he2
  have hcases := x12Encode_cases (sL list body) s3 rfl rfl he2
  have hsplit : ∀ n, body.take (3 * n) ++ body.drop (3 * n) = body := fun n => List.take_append_drop _ _
  cases hcases with
  | exact s2 n run done fit eq =>
    subst eq
    obtain ⟨c1, c2, c3, c4, c5, c6, c7, c8, c9⟩ := x12_part list body s3 n run
    rw [mainLoop_end _ _ _ done] at hm2
    simp only [Except.ok.injEq] at hm2
    subst hm2
    obtain ⟨sym0, f1, f2⟩ := sizeLeft_zero _ 0 fit
    simp only [Nat.add_zero, c5] at f1 f2
    rw [f1] at hsym
    simp only [Option.some.injEq] at hsym
    subst hsym
    have hfull : 3 * n = body.length := by
      simp only [St.hasMore, c2, c4] at done
      simp at done; omega
    have hpadv : addPadding s3.cw (s3.mode == .ascii) (dataCw sym0) = some s3.cw := by
      unfold addPadding
      rw [if_neg (by omega)]
      simp [f2]
    rw [hpadv] at hpad
    cases hpad
    apply decodeData_of_decRun _ body (0 + (1 + 2 * n + 0))
    · rw [c1]; intro c hc; simp at hc; omega
    · rw [c1]
      have := seg_x12 (body.take (3 * n)) false [] 0 [] [] n c9 c8 ⟨by simp, fun _ => by simp⟩
      simp only [Bool.false_eq_true, ↓reduceIte, List.append_nil, List.nil_append] at this
      rw [this, decRun_nil _ _ rfl]
      congr 2
      rw [hfull]; simp
  | unlatch s2 n run eq =>
    obtain ⟨c1, c2, c3, c4, c5, c6, c7, c8, c9⟩ := x12_part list body s2 n run
    -- the rest goes to ASCII (possibly nothing)
    have hend : sE.cw = s2.cw ++ [254] ++ asciiEnc (body.drop (3 * n)) ∧ sE.mode = .ascii ∧ sE.list = list := by
      subst eq
      by_cases hmore : (s2.setAscii.push 254).hasMore = true
      · obtain ⟨s4, k3, he3, hm3⟩ := mainLoop_step (2 * body.length + 5) _ sE k2 hm2 hmore
        have hl3 : latched (s2.setAscii.push 254) = s2.setAscii.push 254 := by
          simp [latched, St.setAscii, St.push, c7]
        rw [hl3] at he3
        have hmode3 : (s2.setAscii.push 254).mode = .ascii := rfl
        simp only [encodeMode, hmode3] at he3
        rw [asciiLoop_rest _ rfl rfl (by simp [St.setAscii, St.push, c2, c4]; omega)] at he3
        simp only [Except.ok.injEq] at he3
        subst he3
        rw [mainLoop_end _ _ _ (by simp [St.hasMore, St.setAscii, St.push])] at hm3
        cases hm3
        simp [St.setAscii, St.push, St.rest, c2, c4, c5]
      · rw [mainLoop_end _ _ _ (by simpa using hmore)] at hm2
        cases hm2
        have : body.drop (3 * n) = [] := by
          simp only [St.hasMore, St.setAscii, St.push, c2, c4] at hmore
          exact List.drop_eq_nil_of_le (by simp at hmore; omega)
        simp [St.setAscii, St.push, this, asciiEnc, c5]
    obtain ⟨e1, e2, e3⟩ := hend
    have hcap := firstBigEnough_le list _ sym hsym
    rw [e2] at hpad
    have hbeq : (EMode.ascii == EMode.ascii) = true := by decide
    rw [hbeq, addPadding_ascii_pads _ _ hcap] at hpad
    cases hpad
    have hrest : ByteList (body.drop (3 * n)) := hb.drop _
    have hseg := asciiSeg_asciiEnc _ hrest
    obtain ⟨ef, hpads⟩ := DM.Props.C04.decRun_pads sE.cw.length (dataCw sym - sE.cw.length) body []
    have hlen2 : 0 + (1 + 2 * n + 1) + (asciiEnc (body.drop (3 * n))).length = sE.cw.length := by
      rw [e1, c1]
      have := packTriples_length n ((body.take (3 * n)).filterMap x12Val)
        (by rw [filterMap_native_length _ c8]; exact c9)
      simp only [List.length_append, List.length_singleton, this]
      omega
    have hpadhead : (DM.Props.C04.padsOf sE.cw.length (dataCw sym - sE.cw.length)).head? ≠ some 254 := by
      unfold DM.Props.C04.padsOf
      split <;> simp
    generalize DM.Props.C04.padsOf sE.cw.length (dataCw sym - sE.cw.length) = P at hpads hpadhead ⊢
    rw [← hlen2] at hpads
    apply decodeData_of_decRun _ body ef
    · rw [e1, c1]; intro c hc; simp at hc; omega
    · rw [e1, c1]
      have htail : TripleTail true (asciiEnc (body.drop (3 * n)) ++ P) := by
        refine ⟨?_, by simp⟩
        cases hx : asciiEnc (body.drop (3 * n)) with
        | nil => simpa using hpadhead
        | cons x xs =>
          simp only [List.cons_append, List.head?_cons, ne_eq, Option.some.injEq]
          exact (hseg.1 x (by rw [hx]; simp)).1
      have := seg_x12 (body.take (3 * n)) true _ 0 [] [] n c9 c8 htail
      simp only [↓reduceIte, List.nil_append, List.append_assoc] at this ⊢
      rw [this, decRun_asciiSeg hseg, hsplit n]
      exact hpads
  | early s2 n run few one fit eq =>
    obtain ⟨c1, c2, c3, c4, c5, c6, c7, c8, c9⟩ := x12_part list body s2 n run
    subst eq
    have hrestne : s2.rest ≠ [] := by
      intro hnil; rw [hnil] at one; simp [asciiSize] at one
    have hmore : s2.setAscii.hasMore = true := by
      simp only [St.hasMore, St.setAscii]
      simp only [St.rest] at hrestne
      have : s2.pos < s2.input.length := by
        by_cases hlt : s2.pos < s2.input.length
        · exact hlt
        · exact absurd (List.drop_eq_nil_of_le (by omega)) hrestne
      simp [this]
    obtain ⟨s4, k3, he3, hm3⟩ := mainLoop_step (2 * body.length + 5) _ sE k2 hm2 hmore
    have hl3 : latched s2.setAscii = s2.setAscii := by simp [latched, St.setAscii, c7]
    rw [hl3] at he3
    have hmode3 : s2.setAscii.mode = .ascii := rfl
    simp only [encodeMode, hmode3] at he3
    rw [asciiLoop_rest _ rfl rfl (by simp [St.setAscii, c2, c4]; omega)] at he3
    simp only [Except.ok.injEq] at he3
    subst he3
    rw [mainLoop_end _ _ _ (by simp [St.hasMore, St.setAscii])] at hm3
    cases hm3
    have hrest2 : s2.rest = body.drop (3 * n) := by simp [St.rest, c2, c4]
    have hone : (asciiEnc (body.drop (3 * n))).length = 1 := by
      rw [asciiEnc_length _ _ (Nat.le_refl _), ← hrest2]; exact one
    obtain ⟨sym0, f1, f2⟩ := sizeLeft_zero _ 1 fit
    simp only [c5] at f1 f2
    have hcwlen : (s2.cw ++ asciiEnc (body.drop (3 * n))).length = s2.cw.length + 1 := by
      simp [hone]
    simp only [St.setAscii, St.rest, c2, c4, c5] at hsym hpad
    rw [hcwlen, f1] at hsym
    simp only [Option.some.injEq] at hsym
    subst hsym
    have hbeq : (EMode.ascii == EMode.ascii) = true := by decide
    have hpadv : addPadding (s2.cw ++ asciiEnc (body.drop (3 * n))) true (dataCw sym0) =
        some (s2.cw ++ asciiEnc (body.drop (3 * n))) := by
      unfold addPadding
      rw [if_neg (by omega)]
      simp [f2, hcwlen]
    rw [hbeq, hpadv] at hpad
    cases hpad
    have hrest : ByteList (body.drop (3 * n)) := hb.drop _
    have hseg := asciiSeg_asciiEnc _ hrest
    apply decodeData_of_decRun _ body (0 + (1 + 2 * n + 0) + (asciiEnc (body.drop (3 * n))).length)
    · rw [c1]; intro c hc; simp at hc; omega
    · rw [c1]
      have htail : TripleTail false (asciiEnc (body.drop (3 * n))) := by
        refine ⟨?_, fun _ => by omega⟩
        cases hx : asciiEnc (body.drop (3 * n)) with
        | nil => simp
        | cons x xs =>
          simp only [List.head?_cons, ne_eq, Option.some.injEq]
          exact (hseg.1 x (by rw [hx]; simp)).1
      have := seg_x12 (body.take (3 * n)) false _ 0 [] [] n c9 c8 htail
      simp only [Bool.false_eq_true, ↓reduceIte, List.append_nil, List.nil_append] at this
      rw [this]
      have h2 := decRun_asciiSeg hseg [] (0 + (1 + 2 * n + 0)) (body.take (3 * n))
      simp only [List.append_nil] at h2
      rw [h2, decRun_nil _ _ rfl, hsplit n]

end DM.Lemmas.X12RT
