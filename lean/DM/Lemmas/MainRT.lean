import DM.Lemmas.B256Gen
import DM.Lemmas.EdiGen
import DM.Lemmas.PlanProv
/-
Data-level round trip for mixed plans over ASCII, C40, Text, X12, Base 256 and EDIFACT as the final
stretch of the message (`C40Gen.PlanOKE`): the invariant of the encoder's main loop and its
preservation by every mode encoder. `MI false` is the invariant for plans without EDIFACT
(`C40Gen.PlanOK`; used by `Trace` / C13), `MI true` also has the two situations behind an EDIFACT run.
-/
namespace DM.Lemmas.MainRT
open DM.Model DM.Model.Enc DM.Model.Dec DM.Gen DM.Lemmas DM.Lemmas.DecRun DM.Lemmas.AsciiRT DM.Lemmas.Complete
open DM.Lemmas.EncRT DM.Lemmas.X12RT DM.Lemmas.B256RT DM.Lemmas.EdiRT DM.Lemmas.C40RT DM.Lemmas.C40Gen DM.Lemmas.B256Gen
open DM.Lemmas.EdiGen DM.Lemmas.PlanProv
open DM.Spec.Build

/-- `X` after the latch decodes to `chunk`, with or without UNLATCH, in front of any legal tail -/
def SegDec (latch : Nat) (X chunk : List Nat) : Prop :=
  ∀ (un : Bool) (tail : List Nat) (e : Nat) (out : List Nat), TripleTail un tail →
    decRun .ascii { rest := [latch] ++ X ++ (if un then [254] else []) ++ tail, eaten := e, out := out, ecis := [] } =
    decRun .ascii { rest := tail, eaten := e + (1 + X.length + (if un then 1 else 0)), out := out ++ chunk, ecis := [] }

/-- outcome of a C40 / Text / X12 run that started at character `p0` after the codewords `c0` -/
structure TEnd (list : List Sym) (body : List Nat) (p0 : Nat) (c0 : List Nat) (latch : Nat) (s' : St) : Prop where
  out : ∃ (X : List Nat) (p : Nat) (un : Bool), SegDec latch X (seg body p0 p) ∧ p0 ≤ p ∧ p ≤ body.length ∧
    s'.cw = c0 ++ latch :: X ++ (if un then [254] else []) ∧ s'.pos = p ∧ s'.input = body ∧ s'.list = list ∧
    ((s'.mode = .ascii ∧ s'.plan = [(0, .ascii)] ∧ s'.newMode = none) ∨
     (un = true ∧ s'.hasMore = true ∧ Pending s' ∧ PlanOKE body s'.plan) ∨ (p = body.length ∧ un = false)) ∧
    (un = false → asciiSize (body.drop p) ≤ 1 ∧
      ∃ S, firstBigEnough list (s'.cw.length + asciiSize (body.drop p)) = some S ∧
        dataCw S = s'.cw.length + asciiSize (body.drop p))

theorem c40_to_TEnd (text : Bool) (list : List Sym) (body : List Nat) (p0 : Nat) (c0 : List Nat) (s' : St)
    (h : End text list body p0 c0 s') : TEnd list body p0 c0 (latchOf text) s' := by
  obtain ⟨V, n, p, un, st', hVl, hVlt, hdec, hp0, hp, hcw, hpos, hin, hli, hctl, hex⟩ := h.out
  refine ⟨packTriples V, p, un, ?_, hp0, hp, hcw, hpos, hin, hli, ?_, hex⟩
  · intro un' tail e out ht
    have := seg_c40_vals text V (seg body p0 p) st' n hVl hVlt hdec un' tail ht e out
    have hpl := packTriples_length n V hVl
    simp only [latchOf] at this ⊢
    rw [this, hpl]
  · exact hctl

/-! ### X12 from an arbitrary position -/

theorem x12Loop_plan (body : List Nat) : ∀ (f : Nat) (s s' : St) (sw : Bool), x12Loop f s = .ok (s', sw) → s.newMode = none →
    s.input = body → PlanOKE body s.plan →
    PlanOKE body s'.plan ∧ (sw = true → Pending s' ∧ (s'.charsLeft ≤ 4 → s'.newMode = none)) := by
  intro f
  induction f with
  | zero => intro s s' sw h; cases h
  | succ f ih =>
    intro s s' sw h hnm hin hpl
    unfold x12Loop at h
    by_cases hc : s.charsLeft ≥ 3
    · rw [if_pos hc] at h
      split at h
      · rename_i a b c t hr
        split at h
        · rename_i v1 v2 v3 h1 h2 h3
          simp only [] at h
          have hv1 := (x12Val_lt a v1 (x12Enc_val a v1 h1)).1
          have hv2 := (x12Val_lt b v2 (x12Enc_val b v2 h2)).1
          have hv3 := (x12Val_lt c v3 (x12Enc_val c v3 h3)).1
          obtain ⟨w1, w2, w3, w4, w5, w6, w7⟩ := writeThree_cw { s with pos := s.pos + 3 } v1 v2 v3 hv1 hv2 hv3
          cases hm : (writeThree { s with pos := s.pos + 3 } v1 v2 v3).maybeSwitch with
          | error e => rw [hm] at h; cases h
          | ok r =>
            obtain ⟨b', s3⟩ := r
            rw [hm] at h
            cases b' with
            | true =>
              simp only [Except.ok.injEq, Prod.mk.injEq] at h
              obtain ⟨hs, hsw⟩ := h
              subst hs hsw
              obtain ⟨hP, hL, hPl⟩ := switched_ok _ s3 (by rw [w7]; exact hnm) (by rw [w5, w3]; simp only []; rw [hin]; exact hpl) hm
              rw [w3] at hPl
              simp only [] at hPl
              rw [hin] at hPl
              exact ⟨hPl, fun _ => ⟨hP, hL⟩⟩
            | false =>
              simp only [] at h
              obtain ⟨m1, m2, m3, m4, m5, m6⟩ := maybeSwitch_spec _ s3 false hm
              obtain ⟨f1, f2⟩ := m5 rfl
              exact ih s3 s' sw h (by rw [f2, w7]; exact hnm) (by rw [m1.1, w3]; exact hin)
                (planOKE_maybeSwitch _ s3 false hm (by rw [w5]; exact hpl))
        · cases h
        · cases h
        · cases h
      · cases h
    · rw [if_neg hc] at h
      simp only [Except.ok.injEq, Prod.mk.injEq] at h
      obtain ⟨hs, hsw⟩ := h
      subst hs hsw
      exact ⟨hpl, by simp⟩

theorem x12Encode_gen (list : List Sym) (body : List Nat) (p0 : Nat) (c0 : List Nat) (sL s3 : St)
    (hin : sL.input = body) (hli : sL.list = list) (hpos : sL.pos = p0) (hle : p0 ≤ body.length)
    (hnm : sL.newMode = none) (hcw : sL.cw = c0 ++ [238]) (hpl : PlanOKE body sL.plan)
    (h : x12Encode sL = .ok s3) : TEnd list body p0 c0 238 s3 := by
  unfold x12Encode at h
  cases hl : x12Loop (sL.charsLeft + 2) sL with
  | error e => rw [hl] at h; cases h
  | ok r =>
    obtain ⟨s2, sw⟩ := r
    rw [hl] at h
    simp only [] at h
    obtain ⟨n, run⟩ := x12Loop_gen _ sL s2 sw hl
    obtain ⟨hPl2, hsw2⟩ := x12Loop_plan body _ sL s2 sw hl hnm hin hpl
    have hp2 : s2.pos = p0 + 3 * n := by rw [run.pos, hpos]
    have hle2 : s2.pos ≤ body.length := by rw [← hin]; exact run.le (by rw [hpos, hin]; exact hle)
    have hin2 : s2.input = body := run.same.1.trans hin
    have hli2 : s2.list = list := run.same.2.trans hli
    have hsegeq : seg body p0 s2.pos = (sL.input.drop sL.pos).take (3 * n) := by
      unfold seg
      rw [hin, hpos, hp2]
      congr 1
      omega
    have hnat : X12Native (seg body p0 s2.pos) := by rw [hsegeq]; exact run.native
    have hseglen : (seg body p0 s2.pos).length = 3 * n := by
      rw [seg_length body p0 s2.pos (by omega) hle2]; omega
    have hcw2 : s2.cw = c0 ++ 238 :: packTriples ((seg body p0 s2.pos).filterMap x12Val) := by
      rw [run.cw, hcw, hsegeq]; simp
    have hsd : SegDec 238 (packTriples ((seg body p0 s2.pos).filterMap x12Val)) (seg body p0 s2.pos) := by
      intro un tail e out ht
      have := seg_x12 (seg body p0 s2.pos) un tail e out [] n hseglen hnat ht
      have hpl := packTriples_length n _ (by rw [filterMap_native_length _ hnat]; exact hseglen)
      rw [this, hpl]
    have hnm2 : sw = false → s2.newMode = none := fun hs => by rw [(run.stay hs).2.2]; exact hnm
    -- the three endings
    have unl : ∀ s', s' = (if !sw then s2.setAscii else s2).push 254 → TEnd list body p0 c0 238 s' := by
      intro s' hs'
      subst hs'
      cases sw with
      | false =>
        exact ⟨_, s2.pos, true, hsd, by omega, hle2, by simp [St.push, St.setAscii, hcw2], rfl,
          by simp [St.push, St.setAscii, hin2], by simp [St.push, St.setAscii, hli2],
          Or.inl ⟨rfl, rfl, by simp [St.push, St.setAscii, hnm2 rfl]⟩, by simp⟩
      | true =>
        obtain ⟨a1, a2, a3, a4⟩ := run.switch rfl
        obtain ⟨hP, _⟩ := hsw2 rfl
        exact ⟨_, s2.pos, true, hsd, by omega, hle2, by simp [St.push, hcw2], rfl,
          by simp [St.push, hin2], by simp [St.push, hli2],
          Or.inr (Or.inl ⟨rfl, by simpa [St.hasMore, St.push] using a2, hP.congr rfl rfl rfl rfl rfl,
            by simpa [St.push] using hPl2⟩), by simp⟩
    have exact : s2.hasMore = false → s2.sizeLeft 0 = some 0 → TEnd list body p0 c0 238 s2 := by
      intro hmf hfit
      have hpl2 : s2.pos = body.length := by
        have := of_decide_eq_false hmf
        rw [hin2] at this
        omega
      obtain ⟨S, f1, f2⟩ := sizeLeft_zero s2 0 hfit
      refine ⟨_, s2.pos, false, hsd, by omega, hle2, by simp [hcw2], rfl, hin2, hli2, Or.inr (Or.inr ⟨hpl2, rfl⟩), fun _ => ?_⟩
      rw [hpl2, List.drop_eq_nil_of_le (Nat.le_refl _)]
      simp only [asciiSize, Nat.add_zero, Nat.zero_le, true_and]
      exact ⟨S, by rw [← hli2]; simpa using f1, by simpa using f2⟩
    by_cases hone : s2.charsLeft ≤ 2 ∧ asciiSize s2.rest = 1
    · rw [if_pos hone] at h
      unfold St.sizeLeftE at h
      cases hs : s2.sizeLeft 1 with
      | none => rw [hs] at h; cases h
      | some k =>
        rw [hs] at h
        simp only [] at h
        by_cases hk : k = 0
        · subst hk
          simp only [decide_true] at h
          simp only [Except.ok.injEq] at h
          subst h
          obtain ⟨S, f1, f2⟩ := sizeLeft_zero s2 1 hs
          have hnm3 : s2.newMode = none := by
            cases sw with
            | false => exact hnm2 rfl
            | true => exact (hsw2 rfl).2 (by omega)
          have hrest : s2.rest = body.drop s2.pos := by simp [St.rest, hin2]
          refine ⟨_, s2.pos, false, hsd, by omega, hle2, by simp [St.setAscii, hcw2], rfl, by simp [St.setAscii, hin2],
            by simp [St.setAscii, hli2], Or.inl ⟨rfl, rfl, by simp [St.setAscii, hnm3]⟩, fun _ => ?_⟩
          rw [← hrest, hone.2]
          exact ⟨Nat.le_refl _, S, by rw [← hli2]; simpa [St.setAscii] using f1, by simpa [St.setAscii] using f2⟩
        · simp only [hk, decide_false] at h
          by_cases hm : s2.hasMore = true
          · simp only [hm, ↓reduceIte] at h
            simp only [Except.ok.injEq] at h
            exact unl s3 h.symm
          · simp only [hm, Bool.false_eq_true, ↓reduceIte] at h
            cases hs0 : s2.sizeLeft 0 with
            | none => rw [hs0] at h; cases h
            | some k0 =>
              rw [hs0] at h
              simp only [] at h
              by_cases hk0 : k0 > 0
              · simp only [hk0, decide_true] at h
                simp only [Except.ok.injEq] at h
                exact unl s3 h.symm
              · simp only [hk0, decide_false] at h
                simp only [Except.ok.injEq] at h
                subst h
                exact exact (by simpa using hm) (by rw [hs0]; congr 1; omega)
    · rw [if_neg hone] at h
      simp only [] at h
      unfold St.sizeLeftE at h
      by_cases hm : s2.hasMore = true
      · simp only [hm, ↓reduceIte] at h
        simp only [Except.ok.injEq] at h
        exact unl s3 h.symm
      · simp only [hm, Bool.false_eq_true, ↓reduceIte] at h
        cases hs0 : s2.sizeLeft 0 with
        | none => rw [hs0] at h; cases h
        | some k0 =>
          rw [hs0] at h
          simp only [] at h
          by_cases hk0 : k0 > 0
          · simp only [hk0, decide_true] at h
            simp only [Except.ok.injEq] at h
            exact unl s3 h.symm
          · simp only [hk0, decide_false] at h
            simp only [Except.ok.injEq] at h
            subst h
            exact exact (by simpa using hm) (by rw [hs0]; congr 1; omega)

/-! ### the invariant of the main loop -/

/-- like `Sync`, for the end game: at most one more codeword follows -/
def SyncEnd (pre out0 body cw : List Nat) (pos : Nat) : Prop :=
  pre.length ≤ cw.length ∧ cw.take pre.length = pre ∧
  ∀ tail, tail.length ≤ 1 → NiceTail tail →
    decRun .ascii { rest := cw.drop pre.length ++ tail, eaten := pre.length, out := out0, ecis := [] } =
    decRun .ascii { rest := tail, eaten := cw.length, out := out0 ++ body.take pos, ecis := [] }

def ExactFit (list : List Sym) (n : Nat) : Prop := ∃ S, firstBigEnough list n = some S ∧ dataCw S = n

/-- the situations the encoder can be in between two calls of a mode encoder. The flag `e` says
whether EDIFACT (as the final stretch of the message) is allowed: the last two situations only
arise behind an EDIFACT run. -/
inductive Phase (e : Bool) (pre out0 : List Nat) (list : List Sym) (body : List Nat) (s : St) : Prop where
  /-- decoder and encoder in step, in ASCII mode or with a latch pending -/
  | normal (sync : Sync pre out0 body s.cw s.pos) (pend : Pending s) (plan : PlanOKE body s.plan)
      (more : s.newMode ≠ none → s.hasMore = true)
  /-- a run ended without UNLATCH: exactly one ASCII codeword is still to come and fills the symbol -/
  | endgame (more : s.hasMore = true) (sync : SyncEnd pre out0 body s.cw s.pos) (mode : s.mode = .ascii)
      (plan : s.plan = [(0, .ascii)]) (nm : s.newMode = none) (one : asciiSize (body.drop s.pos) ≤ 1)
      (fit : ExactFit list (s.cw.length + asciiSize (body.drop s.pos)))
  /-- everything is written and fills the symbol exactly -/
  | done (nomore : s.hasMore = false) (pfx : s.cw.take pre.length = pre)
      (dec : ∃ e, decRun .ascii { rest := s.cw.drop pre.length, eaten := pre.length, out := out0, ecis := [] } =
        .ok { rest := [], eaten := e, out := out0 ++ body, ecis := [] }) (fit : ExactFit list s.cw.length)
  /-- an EDIFACT run of complete quadruples handed the last (at most four) characters to ASCII: at
  most two more codewords fit into the symbol, so the decoder leaves EDIFACT mode without UNLATCH -/
  | ediAscii (he : e = true) (more : s.hasMore = true) (len : pre.length ≤ s.cw.length) (pfx : s.cw.take pre.length = pre)
      (sync : ∀ tail, tail.length ≤ 2 →
        decRun .ascii { rest := s.cw.drop pre.length ++ tail, eaten := pre.length, out := out0, ecis := [] } =
        decRun .ascii { rest := tail, eaten := s.cw.length, out := out0 ++ body.take s.pos, ecis := [] })
      (mode : s.mode = .ascii) (plan : s.plan = [(0, .ascii)]) (nm : s.newMode = none)
      (ok : AsciiEndOK list s.cw.length (body.drop s.pos))
  /-- everything is written (behind an EDIFACT run); whatever padding the symbol needs decodes well -/
  | final (he : e = true) (nomore : s.hasMore = false) (mode : s.mode = .ascii) (len : pre.length ≤ s.cw.length)
      (pfx : s.cw.take pre.length = pre)
      (dec : ∀ S, firstBigEnough list s.cw.length = some S →
        ∃ ef, decRun .ascii { rest := s.cw.drop pre.length ++ DM.Props.C04.padsOf s.cw.length (dataCw S - s.cw.length),
                              eaten := pre.length, out := out0, ecis := [] } =
          .ok { rest := [], eaten := ef, out := out0 ++ body, ecis := [] })

/-- the first codeword is not one of those `decode_parts` looks at before the main loop -/
def HeadOK (cw : List Nat) : Prop := ∀ c ∈ cw.head?, c ≠ 232 ∧ c ≠ 236 ∧ c ≠ 237

theorem headOK_append {A B : List Nat} (ha : HeadOK A) (hb : HeadOK B) : HeadOK (A ++ B) := by
  cases A with
  | nil => simpa using hb
  | cons a t => intro c hc; exact ha c (by simpa using hc)

theorem headOK_cons (c : Nat) (t : List Nat) (h : c ≠ 232 ∧ c ≠ 236 ∧ c ≠ 237) : HeadOK (c :: t) := by
  intro x hx; simp at hx; subst hx; exact h

theorem headOK_asciiSeg {X chunk : List Nat} (h : AsciiSeg X chunk) : HeadOK X := by
  intro c hc
  cases X with
  | nil => simp at hc
  | cons x t =>
    simp only [List.head?_cons, Option.mem_def, Option.some.injEq] at hc
    subst hc
    have := h.1 x (by simp)
    exact ⟨this.2.2.1, this.2.2.2.1, this.2.2.2.2⟩

/-- EDIFACT occurs nowhere in the control part of the encoder state -/
def NE : Key → Prop := fun k => (∀ x ∈ k.1, x.2 ≠ .edifact) ∧ k.2.1 ≠ .edifact ∧ k.2.2 ≠ some 240

theorem ne_closed : Closed NE := by
  refine ⟨?_, ?_, ?_⟩
  · intro k hk
    refine ⟨?_, by simp [asciiKey], hk.2.2⟩
    intro x hx
    simp only [asciiKey, List.mem_singleton] at hx
    subst hx
    simp
  · intro s s1 b h hk
    obtain ⟨h1, h2, h3⟩ := hk
    simp only [key] at h1 h2 h3 ⊢
    obtain ⟨m1, m2, m3, m4, m5, m6⟩ := maybeSwitch_spec s s1 b h
    refine ⟨fun x hx => h1 x (m4 x hx), ?_, ?_⟩
    · cases b with
      | false => rw [(m5 rfl).1]; exact h2
      | true => obtain ⟨_, _, ⟨p, hp⟩, _⟩ := m6 rfl; exact h1 _ hp
    · cases b with
      | false => rw [(m5 rfl).2]; exact h3
      | true =>
        obtain ⟨_, _, ⟨p, hp⟩, t4⟩ := m6 rfl
        rw [t4]
        have hne : s1.mode ≠ .edifact := h1 _ hp
        cases hm : s1.mode with
        | edifact => exact absurd hm hne
        | ascii => simpa [EMode.latch] using h3
        | c40 => simp [EMode.latch]
        | text => simp [EMode.latch]
        | x12 => simp [EMode.latch]
        | base256 => simp [EMode.latch]
  · intro k hk
    exact ⟨hk.1, hk.2.1, by simp⟩

theorem ne_of_planOK {plan : List (Nat × EMode)} (h : PlanOK plan) : NE (plan, .ascii, none) :=
  ⟨fun x hx => (h x hx).2, by simp, by simp⟩

/-- the admissible plans form a closed predicate on the control part of the state -/
theorem planOKE_closed (body : List Nat) : Closed (fun k : Key => PlanOKE body k.1) :=
  ⟨fun _ _ => planOKE_ascii body, fun s s1 b h hk => planOKE_maybeSwitch s s1 b h hk, fun _ hk => hk⟩

structure MI (e : Bool) (pre out0 : List Nat) (list : List Sym) (body : List Nat) (s : St) : Prop where
  inp : s.input = body
  lst : s.list = list
  le : s.pos ≤ body.length
  hd : HeadOK (s.cw.drop pre.length)
  phase : Phase e pre out0 list body s
  noE : e = false → NE (key s)

theorem niceTail_cons (c : Nat) (t : List Nat) (h : c ≠ 254) : NiceTail (c :: t) := by
  unfold NiceTail; simpa using h

/-- a C40 / Text / X12 run extends the invariant -/
theorem tend_MI (e : Bool) (pre out0 : List Nat) (list : List Sym) (body : List Nat) (p0 : Nat) (c0 : List Nat) (latch : Nat) (hl : latch ≠ 254)
    (hl2 : latch ≠ 232 ∧ latch ≠ 236 ∧ latch ≠ 237) (hc0 : HeadOK (c0.drop pre.length))
    (s' : St) (hsync : Sync pre out0 body c0 p0) (h : TEnd list body p0 c0 latch s') (hne : e = false → NE (key s')) :
    MI e pre out0 list body s' := by
  obtain ⟨X, p, un, hsd, hp0, hp, hcw, hpos, hin, hli, hctl, hex⟩ := h.out
  obtain ⟨hpl, hpt, hsync⟩ := hsync
  have hcw' : s'.cw = c0 ++ (latch :: X ++ (if un then [254] else [])) := by rw [hcw]; simp
  have hpl' : pre.length ≤ s'.cw.length := by rw [hcw']; simp; omega
  have hpt' : s'.cw.take pre.length = pre := by rw [hcw', take_append_pre pre c0 _ hpl]; exact hpt
  refine ⟨hin, hli, by rw [hpos]; exact hp,
    by rw [hcw', drop_append_pre pre c0 _ hpl]; exact headOK_append hc0 (headOK_cons latch _ hl2), ?_, hne⟩
  have hstep : ∀ tail, TripleTail un tail →
      decRun .ascii { rest := s'.cw.drop pre.length ++ tail, eaten := pre.length, out := out0, ecis := [] } =
      decRun .ascii { rest := tail, eaten := s'.cw.length, out := out0 ++ body.take s'.pos, ecis := [] } := by
    intro tail ht
    rw [hcw', drop_append_pre pre c0 _ hpl]
    have h1 := hsync ([latch] ++ X ++ (if un then [254] else []) ++ tail) (by simpa using niceTail_cons latch _ hl)
    simp only [List.append_assoc, List.singleton_append, List.cons_append, List.nil_append] at h1 ⊢
    rw [h1]
    have h2 := hsd un tail c0.length (out0 ++ body.take p0) ht
    simp only [List.append_assoc, List.singleton_append, List.cons_append, List.nil_append] at h2
    rw [h2, take_seg body p0 p hp0, hpos]
    congr 2
    simp only [List.length_append, List.length_cons]
    cases un <;> simp <;> omega
  cases un with
  | true =>
    have hs : Sync pre out0 body s'.cw s'.pos := ⟨hpl', hpt', fun tail ht => hstep tail ⟨ht, by simp⟩⟩
    rcases hctl with ⟨a1, a2, a3⟩ | ⟨_, a2, a3, a4⟩ | ⟨_, a2⟩
    · exact .normal hs (Or.inl ⟨a1, a3⟩) (by rw [a2]; exact planOKE_ascii body)
        (fun hne => absurd a3 hne)
    · exact .normal hs a3 a4 (fun _ => a2)
    · cases a2
  | false =>
    have hs : SyncEnd pre out0 body s'.cw s'.pos := ⟨hpl', hpt', fun tail hlen ht => hstep tail ⟨ht, fun _ => hlen⟩⟩
    obtain ⟨hone, hfit⟩ := hex rfl
    rw [← hpos] at hone hfit
    by_cases hmore : s'.hasMore = true
    · rcases hctl with ⟨a1, a2, a3⟩ | ⟨a1, _⟩ | ⟨a1, _⟩
      · exact .endgame hmore hs a1 a2 a3 hone hfit
      · cases a1
      · exfalso
        have := of_decide_eq_true hmore
        rw [hpos, hin, a1] at this
        omega
    · have hmf : s'.hasMore = false := by simpa using hmore
      have hposl : s'.pos = body.length := by
        have := of_decide_eq_false hmf
        rw [hin] at this
        rw [hpos] at this ⊢
        omega
      have hnil : body.drop s'.pos = [] := by rw [hposl]; exact List.drop_eq_nil_of_le (Nat.le_refl _)
      rw [hnil] at hfit
      simp only [asciiSize, Nat.add_zero] at hfit
      refine .done hmf hpt' ⟨s'.cw.length, ?_⟩ hfit
      have := hs.2.2 [] (by simp) (by simp [NiceTail])
      simp only [List.append_nil] at this
      rw [this, decRun_nil _ _ rfl, hposl, List.take_length]

/-- a Base 256 run extends the invariant -/
theorem bend_MI (e : Bool) (pre out0 : List Nat) (list : List Sym) (body : List Nat) (hb : ByteList body) (p0 : Nat) (c0 : List Nat)
    (hc0 : HeadOK (c0.drop pre.length))
    (s' : St) (hsync : Sync pre out0 body c0 p0) (h : BEnd list body p0 c0 s') (hne : e = false → NE (key s')) :
    MI e pre out0 list body s' := by
  obtain ⟨p, toEnd, hp0, hp, hcw, hpos, hin, hli, hte, htf, hctl⟩ := h.out
  obtain ⟨hpl, hpt, hsync⟩ := hsync
  have hcw' : s'.cw = c0 ++ ([231] ++ randFrom (c0.length + 2) (b256Hdr (seg body p0 p) toEnd ++ seg body p0 p)) := by
    rw [hcw]; simp
  have hpl' : pre.length ≤ s'.cw.length := by rw [hcw']; simp; omega
  have hpt' : s'.cw.take pre.length = pre := by rw [hcw', take_append_pre pre c0 _ hpl]; exact hpt
  refine ⟨hin, hli, by rw [hpos]; exact hp,
    by rw [hcw', drop_append_pre pre c0 _ hpl]; exact headOK_append hc0 (headOK_cons 231 _ (by omega)), ?_, hne⟩
  have hstep : ∀ tail, NiceTail tail → B256OK (seg body p0 p) toEnd tail →
      decRun .ascii { rest := s'.cw.drop pre.length ++ tail, eaten := pre.length, out := out0, ecis := [] } =
      decRun .ascii { rest := tail, eaten := s'.cw.length, out := out0 ++ body.take s'.pos, ecis := [] } := by
    intro tail _ hok
    rw [hcw', drop_append_pre pre c0 _ hpl]
    have h1 := hsync ([231] ++ randFrom (c0.length + 2) (b256Hdr (seg body p0 p) toEnd ++ seg body p0 p) ++ tail)
      (by simpa using niceTail_cons 231 _ (by omega))
    simp only [List.append_assoc] at h1 ⊢
    rw [h1]
    have h2 := seg_b256 (seg body p0 p) tail toEnd c0.length (out0 ++ body.take p0) [] hok
    simp only [List.append_assoc] at h2
    rw [h2, take_seg body p0 p (by omega), hpos]
    congr 2
    simp only [List.length_append, List.length_singleton, randFrom_length]
    omega
  cases toEnd with
  | false =>
    have hs : Sync pre out0 body s'.cw s'.pos := ⟨hpl', hpt', fun tail ht =>
      hstep tail ht ⟨seg_bytes body hb p0 p, by
        simp only [Bool.false_eq_true, ↓reduceIte]
        have := seg_length body p0 p (by omega) hp
        exact ⟨by omega, htf rfl⟩⟩⟩
    rcases hctl with ⟨a1, a2, a3, _⟩ | ⟨_, a2, a3, a4⟩
    · exact .normal hs (Or.inl ⟨a1, a3⟩) (by rw [a2]; exact planOKE_ascii body)
        (fun hne => absurd a3 hne)
    · exact .normal hs a3 a4 (fun _ => a2)
  | true =>
    obtain ⟨hposl, hfit⟩ := hte rfl
    have hmf : s'.hasMore = false := by simp [St.hasMore, hpos, hin, hposl]
    refine .done hmf hpt' ⟨s'.cw.length, ?_⟩ hfit
    have := hstep [] (by simp [NiceTail]) ⟨seg_bytes body hb p0 p, by simp⟩
    simp only [List.append_nil] at this
    rw [this, decRun_nil _ _ rfl, hpos, hposl, List.take_length]

/-! ### EDIFACT as the final stretch: the decoder side -/

theorem padsOf_length (a b : Nat) : (DM.Props.C04.padsOf a b).length = b := by
  unfold DM.Props.C04.padsOf
  split
  · simp; omega
  · have : ∀ p n, (padsFrom p n).length = n := by
      intro p n
      induction n generalizing p with
      | zero => rfl
      | succ n ih => simp [padsFrom, ih]
    simp [this]; omega

theorem niceTail_pads (a b : Nat) : NiceTail (DM.Props.C04.padsOf a b) := by
  unfold NiceTail DM.Props.C04.padsOf
  split <;> simp

theorem ediC_take (b : List Nat) (q : Nat) : ediC (b.take (4 * q)) q = ediC b q := by
  unfold ediC
  rw [List.take_take]
  simp

/-- complete quadruples in front of at most two more codewords -/
theorem edi_sync2 (pre out0 body c0 : List Nat) (p0 q : Nat) (hsync : Sync pre out0 body c0 p0)
    (hc : EdiChars (bE body p0)) (hq : p0 + 4 * q ≤ body.length) (tail : List Nat) (ht : tail.length ≤ 2) :
    decRun .ascii { rest := (cwE body p0 c0 q).drop pre.length ++ tail, eaten := pre.length, out := out0, ecis := [] } =
    decRun .ascii { rest := tail, eaten := (cwE body p0 c0 q).length, out := out0 ++ body.take (p0 + 4 * q), ecis := [] } := by
  obtain ⟨hpl, hpt, hs⟩ := hsync
  have hlen : 4 * q ≤ (bE body p0).length := by simp only [bE, List.length_drop]; omega
  have hcw := ediC_eq_cw ((bE body p0).take (4 * q)) q (by simp; omega) (by simp; omega) false (by simp; omega)
  simp only [Bool.false_eq_true, ↓reduceIte, List.append_nil] at hcw
  rw [ediC_take] at hcw
  unfold cwE
  rw [hcw, drop_append_pre pre c0 _ hpl]
  have h1 := hs ([240] ++ ediCw ((bE body p0).take (4 * q)) false ++ tail) (by simpa using niceTail_cons 240 _ (by omega))
  simp only [List.append_assoc, List.cons_append, List.nil_append] at h1 ⊢
  rw [h1]
  have hok : EdiOK ((bE body p0).take (4 * q)) false tail :=
    ⟨fun x hx => hc x (List.mem_of_mem_take hx), by
      simp only [Bool.false_eq_true, ↓reduceIte, List.length_take]
      exact ⟨by omega, ht⟩⟩
  have h2 := seg_edifact _ false tail c0.length (out0 ++ body.take p0) [] hok
  simp only [List.append_assoc, List.cons_append, List.nil_append] at h2
  rw [h2]
  congr 2
  · simp only [List.length_append, List.length_cons]; omega
  · rw [List.take_add]; rfl

/-- the whole stretch, the last group with the UNLATCH value, in front of enough padding -/
theorem edi_unlatch (pre out0 body c0 : List Nat) (p0 q : Nat) (hsync : Sync pre out0 body c0 p0)
    (hc : EdiChars (bE body p0)) (hq : p0 + 4 * q ≤ body.length) (hr : (restE body p0 q).length ≤ 3)
    (pads : List Nat) (hpads : (ediLast (restE body p0 q)).length + pads.length ≥ 3) :
    decRun .ascii { rest := (cwE body p0 c0 q ++ ediLast (restE body p0 q)).drop pre.length ++ pads, eaten := pre.length,
                    out := out0, ecis := [] } =
    decRun .ascii { rest := pads, eaten := (cwE body p0 c0 q ++ ediLast (restE body p0 q)).length, out := out0 ++ body,
                    ecis := [] } := by
  obtain ⟨hpl, hpt, hs⟩ := hsync
  have hblen : (bE body p0).length = body.length - p0 := by simp only [bE, List.length_drop]
  have hrl : (bE body p0).length - 4 * q ≤ 3 := by
    have := hr
    simp only [restE, List.length_drop] at this
    exact this
  have hcw := ediC_eq_cw (bE body p0) q (by omega) hrl true (by simp)
  simp only [↓reduceIte] at hcw
  have hq4 : (bE body p0).length / 4 = q := by omega
  unfold cwE
  rw [List.append_assoc]
  unfold restE at hpads ⊢
  rw [hcw, drop_append_pre pre c0 _ hpl]
  have h1 := hs ([240] ++ ediCw (bE body p0) true ++ pads) (by simpa using niceTail_cons 240 _ (by omega))
  simp only [List.append_assoc, List.cons_append, List.nil_append] at h1 ⊢
  rw [h1]
  have hok : EdiOK (bE body p0) true pads := ⟨hc, by simp only [↓reduceIte]; rw [hq4]; exact hpads⟩
  have h2 := seg_edifact _ true pads c0.length (out0 ++ body.take p0) [] hok
  simp only [List.append_assoc, List.cons_append, List.nil_append] at h2
  rw [h2]
  congr 2
  · simp only [List.length_append, List.length_cons]; omega
  · simp only [bE]; rw [List.take_append_drop]

/-- the encoder's `symbol_size_left` tests guarantee that the decoder finds three codewords from the
start of the group that holds the UNLATCH value -/
theorem unlatch_room (list : List Sym) (L : Nat) (r : List Nat) (hr : r.length ≤ 3) (hcr : EdiChars r)
    (nok : ¬ AsciiEndOK list L r)
    (room : ∃ S, firstBigEnough list (L + r.length) = some S ∧ (r.length = 0 → dataCw S - L > 2) ∧
      (r.length ≠ 0 → r.length = 3 ∨ dataCw S - (L + r.length) > 0))
    (sym : Sym) (hsym : firstBigEnough list (L + (ediLast r).length) = some sym) :
    (ediLast r).length + (dataCw sym - (L + (ediLast r).length)) ≥ 3 := by
  obtain ⟨S, hS, r0, r1⟩ := room
  have hSge := firstBigEnough_le _ _ _ hS
  match hbr : r, hr with
  | [], _ =>
    subst hbr
    simp only [List.length_nil, Nat.add_zero, ediLast, List.length_singleton] at r0 hS hsym ⊢
    have h2 := r0 trivial
    have := fbe_mono list _ (L + 1) S hS (by omega) (by omega)
    rw [this] at hsym
    simp only [Option.some.injEq] at hsym
    subst hsym
    omega
  | [x], _ =>
    subst hbr
    simp only [ediLast, List.length_cons, List.length_nil] at r1 hS hsym ⊢
    have hge3 : dataCw S - L > 2 := by
      by_cases hle : dataCw S - L ≤ 2
      · exfalso
        apply nok
        have hx := (hcr x (by simp)).2
        have hasz : asciiSize [x] = 1 := by simp [asciiSize]; omega
        exact ⟨by simp, by omega, S, by rw [hasz]; exact hS, hle⟩
      · omega
    have := fbe_mono list _ (L + (0 + 1 + 1)) S hS (by omega) (by omega)
    rw [this] at hsym
    simp only [Option.some.injEq] at hsym
    subst hsym
    omega
  | [_, _], _ => simp [ediLast]
  | [_, _, _], _ => simp [ediLast]
  | _ :: _ :: _ :: _ :: _, h => simp at h

/-- the ASCII end game behind an EDIFACT run: at most two ASCII codewords and the padding -/
theorem ascii_end_dec (pre out0 : List Nat) (list : List Sym) (body : List Nat) (hb : ByteList body) (cw cw' : List Nat) (pos : Nat)
    (hpl : pre.length ≤ cw.length)
    (sync : ∀ tail, tail.length ≤ 2 →
      decRun .ascii { rest := cw.drop pre.length ++ tail, eaten := pre.length, out := out0, ecis := [] } =
      decRun .ascii { rest := tail, eaten := cw.length, out := out0 ++ body.take pos, ecis := [] })
    (ok : AsciiEndOK list cw.length (body.drop pos)) (hcw' : cw' = cw ++ asciiEnc (body.drop pos))
    (S : Sym) (hS : firstBigEnough list cw'.length = some S) :
    ∃ ef, decRun .ascii { rest := cw'.drop pre.length ++ DM.Props.C04.padsOf cw'.length (dataCw S - cw'.length),
                          eaten := pre.length, out := out0, ecis := [] } =
      .ok { rest := [], eaten := ef, out := out0 ++ body, ecis := [] } := by
  subst hcw'
  obtain ⟨hr4, hasz, S', hS', hroom⟩ := ok
  have hrb : ByteList (body.drop pos) := hb.drop _
  have hseg := asciiSeg_asciiEnc _ hrb
  have haszlen : (asciiEnc (body.drop pos)).length = asciiSize (body.drop pos) := asciiEnc_length _ _ (Nat.le_refl _)
  have hl2 : (cw ++ asciiEnc (body.drop pos)).length = cw.length + asciiSize (body.drop pos) := by simp [haszlen]
  rw [hl2, hS'] at hS
  simp only [Option.some.injEq] at hS
  subst hS
  have hSge := firstBigEnough_le _ _ _ hS'
  obtain ⟨ef, hpads⟩ := DM.Props.C04.decRun_pads (cw ++ asciiEnc (body.drop pos)).length
    (dataCw S' - (cw ++ asciiEnc (body.drop pos)).length) (out0 ++ body) []
  refine ⟨ef, ?_⟩
  have hplen := padsOf_length (cw ++ asciiEnc (body.drop pos)).length (dataCw S' - (cw ++ asciiEnc (body.drop pos)).length)
  generalize DM.Props.C04.padsOf (cw ++ asciiEnc (body.drop pos)).length
    (dataCw S' - (cw ++ asciiEnc (body.drop pos)).length) = P at hpads hplen ⊢
  rw [drop_append_pre pre cw _ hpl, List.append_assoc, sync _ (by simp only [List.length_append, hplen, hl2, haszlen]; omega),
    decRun_asciiSeg hseg, List.append_assoc, List.take_append_drop]
  rw [hl2, ← haszlen] at hpads
  exact hpads

/-- an EDIFACT run (the final stretch of the message) extends the invariant -/
theorem eend_MI (pre out0 : List Nat) (list : List Sym) (body : List Nat) (hb : ByteList body) (p0 : Nat) (c0 : List Nat)
    (hc0 : HeadOK (c0.drop pre.length)) (s' : St) (hsync : Sync pre out0 body c0 p0) (hc : EdiChars (bE body p0))
    (h : EEnd list body p0 c0 s') : MI true pre out0 list body s' := by
  have hpl := hsync.1
  have hpt := hsync.2.1
  have hcwE : ∀ q, cwE body p0 c0 q = c0 ++ 240 :: packEdifact (((bE body p0).take (4 * q)).map (· % 64)) := fun q => rfl
  have hlenE : ∀ q (Y : List Nat), pre.length ≤ (cwE body p0 c0 q ++ Y).length := by
    intro q Y; rw [hcwE]; simp; omega
  have htakeE : ∀ q (Y : List Nat), (cwE body p0 c0 q ++ Y).take pre.length = pre := by
    intro q Y
    rw [hcwE, List.append_assoc, take_append_pre pre c0 _ hpl]; exact hpt
  have hhdE : ∀ q (Y : List Nat), HeadOK ((cwE body p0 c0 q ++ Y).drop pre.length) := by
    intro q Y
    rw [hcwE, List.append_assoc, drop_append_pre pre c0 _ hpl]
    exact headOK_append hc0 (headOK_cons 240 _ (by omega))
  cases h with
  | ascii q hq ok eq =>
    subst eq
    rw [restE_eq] at ok
    have hl := hlenE q []
    have htk := htakeE q []
    have hhd := hhdE q []
    simp only [List.append_nil] at hl htk hhd
    refine ⟨rfl, rfl, hq, hhd, ?_, fun he => by cases he⟩
    by_cases hmore : (stAscii list body (p0 + 4 * q) (cwE body p0 c0 q)).hasMore = true
    · exact .ediAscii rfl hmore hl htk (fun tail ht => edi_sync2 pre out0 body c0 p0 q hsync hc hq tail ht) rfl rfl rfl ok
    · have hmf : (stAscii list body (p0 + 4 * q) (cwE body p0 c0 q)).hasMore = false := by simpa using hmore
      refine .final rfl hmf rfl hl htk ?_
      intro S hS
      have hnil : body.drop (p0 + 4 * q) = [] := by
        have := of_decide_eq_false hmf
        simp only [stAscii] at this
        exact List.drop_eq_nil_of_le (by omega)
      exact ascii_end_dec pre out0 list body hb (cwE body p0 c0 q) _ (p0 + 4 * q) hl
        (fun tail ht => edi_sync2 pre out0 body c0 p0 q hsync hc hq tail ht) ok (by simp [stAscii, hnil, asciiEnc]) S hS
  | unlatch q hq hr nok room eq =>
    subst eq
    refine ⟨rfl, rfl, Nat.le_refl _, hhdE q _, ?_, fun he => by cases he⟩
    refine .final rfl (by simp [St.hasMore, stAscii]) rfl (hlenE q _) (htakeE q _) ?_
    intro S hS
    simp only [stAscii] at hS ⊢
    have hcr : EdiChars (restE body p0 q) := fun x hx => hc x (List.mem_of_mem_drop hx)
    have hthree := unlatch_room list (cwE body p0 c0 q).length (restE body p0 q) hr hcr nok room S
      (by rw [← List.length_append]; exact hS)
    obtain ⟨ef, hpads⟩ := DM.Props.C04.decRun_pads (cwE body p0 c0 q ++ ediLast (restE body p0 q)).length
      (dataCw S - (cwE body p0 c0 q ++ ediLast (restE body p0 q)).length) (out0 ++ body) []
    refine ⟨ef, ?_⟩
    rw [edi_unlatch pre out0 body c0 p0 q hsync hc hq hr _ (by rw [padsOf_length, List.length_append]; exact hthree)]
    exact hpads
  | exact q hq fit cw pos inp lst =>
    have hl := hlenE q []
    have htk := htakeE q []
    have hhd := hhdE q []
    simp only [List.append_nil] at hl htk hhd
    have hmf : s'.hasMore = false := by simp [St.hasMore, pos, inp]
    refine ⟨inp, lst, by rw [pos]; exact Nat.le_refl _, by rw [cw]; exact hhd, ?_, fun he => by cases he⟩
    refine .done hmf (by rw [cw]; exact htk) ⟨s'.cw.length, ?_⟩ (by rw [cw]; exact fit)
    have := edi_sync2 pre out0 body c0 p0 q hsync hc (by omega) [] (by simp)
    simp only [List.append_nil] at this
    rw [cw, this, decRun_nil _ _ rfl, hq, List.take_length]

/-! ### one call of a mode encoder preserves the invariant -/

theorem take_add_seg (body : List Nat) (p k : Nat) :
    body.take (p + ((body.drop p).take k).length) = body.take p ++ (body.drop p).take k := by
  have hl : ((body.drop p).take k).length = min k (body.length - p) := by simp
  by_cases hk : k ≤ body.length - p
  · rw [hl, Nat.min_eq_left hk, List.take_add]
  · rw [hl, Nat.min_eq_right (by omega)]
    rw [List.take_of_length_le (l := body.drop p) (by simp; omega)]
    by_cases hp : p ≤ body.length
    · rw [show p + (body.length - p) = body.length by omega, List.take_length, List.take_append_drop]
    · rw [List.take_of_length_le (by omega), List.take_of_length_le (by omega), List.drop_eq_nil_of_le (by omega)]
      simp

/-- the latch the ASCII encoder leaves pending is consistent -/
theorem asciiLoop_pend : ∀ (f : Nat) (s s' : St), asciiLoop f s = .ok s' → s.mode = .ascii → s.newMode = none →
    PlanOKE s.input s.plan → Pending s' := by
  intro f
  induction f with
  | zero => intro s s' h; cases h
  | succ f ih =>
    intro s s' h hmode hnm hok
    unfold asciiLoop at h
    cases hm : s.maybeSwitch with
    | error e => rw [hm] at h; cases h
    | ok r =>
      obtain ⟨b, s1⟩ := r
      rw [hm] at h
      obtain ⟨hsame, hpos, _, _, hf, _⟩ := maybeSwitch_spec s s1 b hm
      cases b with
      | true =>
        simp only [Except.ok.injEq] at h
        subst h
        exact (switched_ok s s1 hnm hok hm).1
      | false =>
        simp only [] at h
        obtain ⟨f1, f2⟩ := hf rfl
        have hok1 : PlanOKE s1.input s1.plan := by rw [hsame.1]; exact planOKE_maybeSwitch s s1 false hm hok
        by_cases htd : twoDigitsComing s1.rest = true
        · rw [if_pos htd] at h
          match hr : s1.rest, htd with
          | a :: b :: t, htd =>
            rw [hr] at h
            simp only [] at h
            exact ih _ s' h (f1.trans hmode) (f2.trans hnm) hok1
          | [], htd => simp [twoDigitsComing] at htd
          | [_], htd => simp [twoDigitsComing] at htd
        · rw [if_neg htd] at h
          cases he : s1.eat with
          | none =>
            rw [he] at h
            simp only [Except.ok.injEq] at h
            subst h
            exact Or.inl ⟨f1.trans hmode, f2.trans hnm⟩
          | some r2 =>
            obtain ⟨ch, s2⟩ := r2
            rw [he] at h
            simp only [] at h
            have hs2e : s2 = { s1 with pos := s1.pos + 1 } := by
              simp only [St.eat] at he
              split at he
              · simp only [Option.some.injEq, Prod.mk.injEq] at he
                exact he.2.symm
              · cases he
            subst hs2e
            split at h
            · exact ih _ s' h (f1.trans hmode) (f2.trans hnm) hok1
            · exact ih _ s' h (f1.trans hmode) (f2.trans hnm) hok1

theorem step_MI (e : Bool) (pre out0 : List Nat) (list : List Sym) (body : List Nat) (hb : ByteList body) (s s' : St)
    (mi : MI e pre out0 list body s)
    (hmore : s.hasMore = true) (h : encodeMode (latched s) = .ok s') : MI e pre out0 list body s' := by
  have hlt : s.pos < body.length := by
    have := of_decide_eq_true hmore
    rw [mi.inp] at this
    exact this
  have hne' : e = false → NE (key s') := fun he =>
    q_encodeMode ne_closed _ _ h (q_latched ne_closed s (mi.noE he))
  cases mi.phase with
  | done nomore _ _ _ => rw [hmore] at nomore; cases nomore
  | final _ nomore _ _ _ _ => rw [hmore] at nomore; cases nomore
  | ediAscii he _ len pfx sync mode plan nm ok =>
    -- the ASCII end game behind an EDIFACT run
    have hl : latched s = s := by simp [latched, nm]
    rw [hl] at h
    simp only [encodeMode, mode] at h
    rw [asciiLoop_rest s plan mode (by rw [mi.inp]; exact mi.le)] at h
    simp only [Except.ok.injEq] at h
    subst h
    have hrest : s.rest = body.drop s.pos := by simp [St.rest, mi.inp]
    have hseg := asciiSeg_asciiEnc _ (hb.drop s.pos)
    refine ⟨mi.inp, mi.lst, by simp [mi.inp],
      by simp only [hrest]; rw [drop_append_pre pre s.cw _ len]; exact headOK_append mi.hd (headOK_asciiSeg hseg),
      .final he (by simp [St.hasMore]) mode (by simp only [List.length_append]; omega)
        (by simp only []; rw [take_append_pre pre s.cw _ len]; exact pfx) ?_, hne'⟩
    intro S hS
    exact ascii_end_dec pre out0 list body hb s.cw _ s.pos len sync ok (by simp only [hrest]) S hS
  | endgame _ sync mode plan nm one fit =>
    -- the single ASCII codeword that is still to come
    have hl : latched s = s := by simp [latched, nm]
    rw [hl] at h
    simp only [encodeMode, mode] at h
    rw [asciiLoop_rest s plan mode (by rw [mi.inp]; exact mi.le)] at h
    simp only [Except.ok.injEq] at h
    subst h
    have hrest : s.rest = body.drop s.pos := by simp [St.rest, mi.inp]
    have hrb : ByteList (body.drop s.pos) := hb.drop _
    have hseg := asciiSeg_asciiEnc _ hrb
    have haszlen : (asciiEnc (body.drop s.pos)).length = asciiSize (body.drop s.pos) := asciiEnc_length _ _ (Nat.le_refl _)
    obtain ⟨spl, spt, sync⟩ := sync
    refine ⟨mi.inp, mi.lst, by simp [mi.inp],
      by simp only [hrest]; rw [drop_append_pre pre s.cw _ spl]; exact headOK_append mi.hd (headOK_asciiSeg hseg),
      .done (by simp [St.hasMore]) (by simp only []; rw [take_append_pre pre s.cw _ spl]; exact spt)
        ⟨s.cw.length + (asciiEnc (body.drop s.pos)).length, ?_⟩
      (by simpa [hrest, haszlen] using fit), hne'⟩
    simp only [hrest]
    rw [drop_append_pre pre s.cw _ spl]
    have htail : NiceTail (asciiEnc (body.drop s.pos)) := by
      unfold NiceTail
      cases hx : asciiEnc (body.drop s.pos) with
      | nil => simp
      | cons x xs =>
        simp only [List.head?_cons, ne_eq, Option.some.injEq]
        exact (hseg.1 x (by rw [hx]; simp)).1
    rw [sync _ (by rw [haszlen]; exact one) htail]
    have h2 := decRun_asciiSeg hseg [] s.cw.length (out0 ++ body.take s.pos)
    simp only [List.append_nil] at h2
    rw [h2, decRun_nil _ _ rfl, List.append_assoc, List.take_append_drop]
  | normal sync pend plan more =>
    cases hnm : s.newMode with
    | none =>
      -- ASCII
      have hmode : s.mode = .ascii := by
        rcases pend with ⟨a, _⟩ | ⟨l, _, b, _⟩
        · exact a
        · rw [hnm] at b; cases b
      have hl : latched s = s := by simp [latched, hnm]
      rw [hl] at h
      simp only [encodeMode, hmode] at h
      obtain ⟨X, c1, c2, c3, c4, c5, c6⟩ := asciiLoop_gen _ s s' h (by rw [mi.inp]; exact hb)
      have hin' : s'.input = body := c4.1.trans mi.inp
      have hle' : s'.pos ≤ body.length := by
        have := asciiLoop_pos_le _ s s' h (by rw [mi.inp]; exact mi.le)
        rw [mi.inp] at this
        exact this
      refine ⟨hin', c4.2.trans mi.lst, hle',
        by rw [c1, drop_append_pre pre s.cw _ sync.1]; exact headOK_append mi.hd (headOK_asciiSeg c2), ?_, hne'⟩
      have hchunk : body.take s'.pos = body.take s.pos ++ (s.input.drop s.pos).take (s'.pos - s.pos) := by
        rw [mi.inp]
        have : s'.pos = s.pos + (s'.pos - s.pos) := by omega
        conv => lhs; rw [this, List.take_add]
      have hlenchunk : ((s.input.drop s.pos).take (s'.pos - s.pos)).length = s'.pos - s.pos := by
        rw [mi.inp, List.length_take, List.length_drop]; omega
      have hs : Sync pre out0 body s'.cw s'.pos := by
        have := sync_ascii sync c2 (by rw [hlenchunk]; rw [show s.pos + (s'.pos - s.pos) = s'.pos by omega]; exact hchunk)
        rw [hlenchunk, show s.pos + (s'.pos - s.pos) = s'.pos by omega, ← c1] at this
        exact this
      have hplan' : PlanOKE body s'.plan := q_asciiLoop (planOKE_closed body) _ s s' h plan
      have hpend' : Pending s' := asciiLoop_pend _ s s' h hmode hnm (by rw [mi.inp]; exact plan)
      rcases c6 with ⟨a1, a2, a3⟩ | ⟨a1, a2, _, a4⟩
      · exact .normal hs hpend' hplan' (fun hne => absurd (a3.trans hnm) hne)
      · exact .normal hs hpend' hplan' (fun _ => a2)
    | some l =>
      have hpl : ∃ l', s.mode.latch = some l' ∧ s.newMode = some l' ∧
          (s.mode = .edifact → (∀ e ∈ s.plan, e.2 = .edifact) ∧ EdiChars (s.input.drop (s.input.length - s.charsLeft))) := by
        rcases pend with ⟨_, b⟩ | hp
        · rw [hnm] at b; cases b
        · exact hp
      obtain ⟨l', hlat, hnl, hedi⟩ := hpl
      have hll : l' = l := by rw [hnm] at hnl; cases hnl; rfl
      subst hll
      have hlatched : latched s = { s with newMode := none }.push l' := by simp [latched, hnm]
      rw [hlatched] at h
      generalize hsL : ({ s with newMode := none }.push l' : St) = sL at h
      have hLin : sL.input = body := by rw [← hsL]; exact mi.inp
      have hLli : sL.list = list := by rw [← hsL]; exact mi.lst
      have hLpos : sL.pos = s.pos := by rw [← hsL]; rfl
      have hLnm : sL.newMode = none := by rw [← hsL]; rfl
      have hLcw : sL.cw = s.cw ++ [l'] := by rw [← hsL]; rfl
      have hLplan : PlanOKE body sL.plan := by rw [← hsL]; exact plan
      have hLmode : sL.mode = s.mode := by rw [← hsL]; rfl
      have hLcl : sL.charsLeft = body.length - s.pos := by simp [St.charsLeft, hLin, hLpos]
      cases hm : s.mode with
      | ascii => rw [hm] at hlat; simp [EMode.latch] at hlat
      | edifact =>
        cases e with
        | false => exact absurd hm (mi.noE rfl).2.1
        | true =>
          rw [hm] at hlat hLmode
          simp only [EMode.latch, Option.some.injEq] at hlat
          subst hlat
          simp only [encodeMode, hLmode] at h
          obtain ⟨hallE, hchars⟩ := hedi hm
          have hcE : EdiChars (bE body s.pos) := by
            have : s.input.length - s.charsLeft = s.pos := by
              simp only [St.charsLeft, mi.inp]; omega
            rw [this, mi.inp] at hchars
            exact hchars
          have hend := edifactEncode_gen list body s.pos s.cw sL s' hLin hLli hLpos mi.le hLmode hLnm hLcw
            (by rw [← hsL]; exact hallE) hcE h
          exact eend_MI pre out0 list body hb s.pos s.cw mi.hd s' sync hcE hend
      | c40 =>
        rw [hm] at hlat hLmode
        simp only [EMode.latch, Option.some.injEq] at hlat
        subst hlat
        simp only [encodeMode, hLmode, c40Encode] at h
        have inv0 : Inv false list body s.pos s.cw sL [] 0 0 :=
          ⟨hLin, hLli, by simp [modeOf, hLmode], hLnm, by omega, by rw [hLpos]; exact mi.le, by simp,
            by simp [Wb, hLpos, seg_self], by simp, by simp [Wb, hLpos, seg_self, packTriples, latchOf, hLcw], by omega⟩
        have hend := c40Loop_gen false list body hb s.pos s.cw (body.length - s.pos) (sL.charsLeft + 2) sL [] 0 0 s'
          (by rw [hLpos]) (by omega) inv0 hLplan h
        exact tend_MI e pre out0 list body s.pos s.cw (latchOf false) (by simp [latchOf]) (by simp [latchOf]) mi.hd s' sync (c40_to_TEnd false list body s.pos s.cw s' hend) hne'
      | text =>
        rw [hm] at hlat hLmode
        simp only [EMode.latch, Option.some.injEq] at hlat
        subst hlat
        simp only [encodeMode, hLmode, c40Encode] at h
        have inv0 : Inv true list body s.pos s.cw sL [] 0 0 :=
          ⟨hLin, hLli, by simp [modeOf, hLmode], hLnm, by omega, by rw [hLpos]; exact mi.le, by simp,
            by simp [Wb, hLpos, seg_self], by simp, by simp [Wb, hLpos, seg_self, packTriples, latchOf, hLcw], by omega⟩
        have hend := c40Loop_gen true list body hb s.pos s.cw (body.length - s.pos) (sL.charsLeft + 2) sL [] 0 0 s'
          (by rw [hLpos]) (by omega) inv0 hLplan h
        exact tend_MI e pre out0 list body s.pos s.cw (latchOf true) (by simp [latchOf]) (by simp [latchOf]) mi.hd s' sync (c40_to_TEnd true list body s.pos s.cw s' hend) hne'
      | x12 =>
        rw [hm] at hlat hLmode
        simp only [EMode.latch, Option.some.injEq] at hlat
        subst hlat
        simp only [encodeMode, hLmode] at h
        have hend := x12Encode_gen list body s.pos s.cw sL s' hLin hLli hLpos mi.le hLnm hLcw hLplan h
        exact tend_MI e pre out0 list body s.pos s.cw 238 (by omega) (by omega) mi.hd s' sync hend hne'
      | base256 =>
        rw [hm] at hlat hLmode
        simp only [EMode.latch, Option.some.injEq] at hlat
        subst hlat
        simp only [encodeMode, hLmode, b256Encode] at h
        have hstart : sL.cw.length = s.cw.length + 1 := by rw [hLcw]; simp
        rw [hstart] at h
        have inv0 : BInv list body s.pos s.cw (sL.push 0) :=
          ⟨hLin, hLli, hLnm, by simp [St.push, hLpos], by simp [St.push, hLpos]; exact mi.le,
            by simp [St.push, hLcw, hLpos, seg_self]⟩
        have hend := b256Loop_gen list body hb s.pos s.cw (body.length - s.pos) (sL.charsLeft + 2) (sL.push 0) s'
          (by simp [St.push, hLpos]) (by omega) inv0 (by simpa [St.push] using hLplan)
          (Or.inl (by simp only [St.hasMore, St.push, hLin, hLpos]; simpa [St.hasMore, mi.inp] using hmore)) h
        exact bend_MI e pre out0 list body hb s.pos s.cw mi.hd s' sync hend hne'

/-! ### the main loop and the whole run -/

theorem mainLoop_MI (e : Bool) (pre out0 : List Nat) (list : List Sym) (body : List Nat) (hb : ByteList body) :
    ∀ (f : Nat) (s : St) (k : Nat) (sE : St), Enc.mainLoop f s k = .ok sE → MI e pre out0 list body s →
      MI e pre out0 list body sE ∧ sE.hasMore = false := by
  intro f
  induction f with
  | zero => intro s k sE h; cases h
  | succ f ih =>
    intro s k sE h mi
    by_cases hmore : s.hasMore = true
    · obtain ⟨s', k', he, hm⟩ := mainLoop_step f s sE k h hmore
      exact ih s' k' sE hm (step_MI e pre out0 list body hb s s' mi hmore he)
    · have hmf : s.hasMore = false := by simpa using hmore
      rw [mainLoop_end _ _ _ hmf] at h
      simp only [Except.ok.injEq] at h
      subst h
      exact ⟨mi, hmf⟩

theorem run_unfoldP (list : List Sym) (pre body cw : List Nat) (plan : List (Nat × EMode)) (sym : Sym)
    (h : run list pre body plan = .ok (cw, sym)) :
    ∃ sE, Enc.mainLoop (2 * body.length + 8)
        { input := body, pos := 0, mode := .ascii, plan := plan, newMode := none, cw := pre, list := list } 0 = .ok sE ∧
      firstBigEnough list sE.cw.length = some sym ∧
      addPadding sE.cw (sE.mode == .ascii) (dataCw sym) = some cw := by
  unfold run at h
  split at h
  · cases h
  split at h
  · cases h
  simp only [] at h
  cases hm : Enc.mainLoop (2 * body.length + 8)
      { input := body, pos := 0, mode := .ascii, plan := plan, newMode := none, cw := pre, list := list } 0 with
  | error e => rw [hm] at h; cases h
  | ok sE =>
    rw [hm] at h
    simp only [] at h
    cases hf : firstBigEnough list sE.cw.length with
    | none => rw [hf] at h; cases h
    | some sym' =>
      rw [hf] at h
      simp only [] at h
      cases ha : addPadding sE.cw (sE.mode == .ascii) (dataCw sym') with
      | none => rw [ha] at h; cases h
      | some cw' =>
        rw [ha] at h
        simp only [Except.ok.injEq, Prod.mk.injEq] at h
        obtain ⟨h1, h2⟩ := h
        subst h1 h2
        exact ⟨sE, rfl, hf, ha⟩

/-- the decoder's main loop, started behind the prefix codewords, returns the message
(plans in which EDIFACT may be the final stretch) -/
theorem run_decRun_E (pre out0 : List Nat) (list : List Sym) (body cw : List Nat) (plan : List (Nat × EMode)) (sym : Sym)
    (hb : ByteList body) (hplan : PlanOKE body plan) (h : run list pre body plan = .ok (cw, sym)) :
    cw.take pre.length = pre ∧ HeadOK (cw.drop pre.length) ∧
    ∃ e, decRun .ascii { rest := cw.drop pre.length, eaten := pre.length, out := out0, ecis := [] } =
      .ok { rest := [], eaten := e, out := out0 ++ body, ecis := [] } := by
  obtain ⟨sE, hmain, hsym, hpad⟩ := run_unfoldP list pre body cw plan sym h
  have mi0 : MI true pre out0 list body { input := body, pos := 0, mode := .ascii, plan := plan, newMode := none, cw := pre, list := list } :=
    ⟨rfl, rfl, Nat.zero_le _, by intro c hc; simp at hc,
      .normal (sync_init pre out0 body) (Or.inl ⟨rfl, rfl⟩) hplan (fun hne => absurd rfl hne), fun he => by cases he⟩
  obtain ⟨miE, hmf⟩ := mainLoop_MI true pre out0 list body hb _ _ 0 sE hmain mi0
  have hposl : sE.pos = body.length := by
    have := of_decide_eq_false hmf
    rw [miE.inp] at this
    have := miE.le
    omega
  have hbeq : (EMode.ascii == EMode.ascii) = true := by decide
  have hcap := firstBigEnough_le list _ sym hsym
  cases miE.phase with
  | endgame more _ _ _ _ _ _ => rw [hmf] at more; cases more
  | ediAscii _ more _ _ _ _ _ _ _ => rw [hmf] at more; cases more
  | final _ _ mode len pfx dec =>
    rw [mode, hbeq, addPadding_ascii_pads _ _ hcap] at hpad
    simp only [Option.some.injEq] at hpad
    subst hpad
    obtain ⟨ef, hdec⟩ := dec sym hsym
    refine ⟨by rw [take_append_pre pre sE.cw _ len]; exact pfx, ?_, ef, ?_⟩
    · rw [drop_append_pre pre sE.cw _ len]
      apply headOK_append miE.hd
      unfold HeadOK DM.Props.C04.padsOf
      split <;> simp
    · rw [drop_append_pre pre sE.cw _ len]
      exact hdec
  | done _ pfx dec fit =>
    obtain ⟨S, f1, f2⟩ := fit
    rw [f1] at hsym
    simp only [Option.some.injEq] at hsym
    subst hsym
    rw [addPadding_exact _ _ _ f2.symm] at hpad
    simp only [Option.some.injEq] at hpad
    subst hpad
    exact ⟨pfx, miE.hd, dec⟩
  | normal sync pend _ more =>
    obtain ⟨spl, spt, sync⟩ := sync
    have hnm : sE.newMode = none := by
      cases hn : sE.newMode with
      | none => rfl
      | some l => have := more (by rw [hn]; simp); rw [hmf] at this; cases this
    have hmode : sE.mode = .ascii := by
      rcases pend with ⟨a, _⟩ | ⟨l, _, b, _⟩
      · exact a
      · rw [hnm] at b; cases b
    rw [hmode, hbeq, addPadding_ascii_pads _ _ hcap] at hpad
    simp only [Option.some.injEq] at hpad
    subst hpad
    obtain ⟨ef, hpads⟩ := DM.Props.C04.decRun_pads sE.cw.length (dataCw sym - sE.cw.length) (out0 ++ body) []
    have hnice : NiceTail (DM.Props.C04.padsOf sE.cw.length (dataCw sym - sE.cw.length)) := niceTail_pads _ _
    refine ⟨by rw [take_append_pre pre sE.cw _ spl]; exact spt, ?_, ef, ?_⟩
    · rw [drop_append_pre pre sE.cw _ spl]
      apply headOK_append miE.hd
      unfold HeadOK DM.Props.C04.padsOf
      split <;> simp
    · rw [drop_append_pre pre sE.cw _ spl, sync _ hnice, hposl, List.take_length]
      exact hpads

/-- the decoder's main loop, started behind the prefix codewords, returns the message -/
theorem run_decRun (pre out0 : List Nat) (list : List Sym) (body cw : List Nat) (plan : List (Nat × EMode)) (sym : Sym)
    (hb : ByteList body) (hplan : PlanOK plan) (h : run list pre body plan = .ok (cw, sym)) :
    cw.take pre.length = pre ∧ HeadOK (cw.drop pre.length) ∧
    ∃ e, decRun .ascii { rest := cw.drop pre.length, eaten := pre.length, out := out0, ecis := [] } =
      .ok { rest := [], eaten := e, out := out0 ++ body, ecis := [] } :=
  run_decRun_E pre out0 list body cw plan sym hb (planOKE_of_planOK body hplan) h

/-- **Data-level round trip for mixed plans** over ASCII, C40, Text, X12, Base 256 and — as the final
stretch of the message — EDIFACT, in which no latch to a non-ASCII mode is planned for the last
four characters. -/
theorem general_roundtrip_E (list : List Sym) (body cw : List Nat) (plan : List (Nat × EMode)) (sym : Sym)
    (hb : ByteList body) (hplan : PlanOKE body plan) (h : run list [] body plan = .ok (cw, sym)) :
    decodeData cw = .ok body := by
  obtain ⟨_, hhd, e, hdec⟩ := run_decRun_E [] [] list body cw plan sym hb hplan h
  simp only [List.length_nil, List.drop_zero, List.nil_append] at hhd hdec
  exact decodeData_of_decRun _ body e hhd hdec

/-- **Data-level round trip for mixed plans** over ASCII, C40, Text, X12 and Base 256 in which no
latch to a non-ASCII mode is planned for the last four characters. -/
theorem general_roundtrip (list : List Sym) (body cw : List Nat) (plan : List (Nat × EMode)) (sym : Sym)
    (hb : ByteList body) (hplan : PlanOK plan) (h : run list [] body plan = .ok (cw, sym)) :
    decodeData cw = .ok body :=
  general_roundtrip_E list body cw plan sym hb (planOKE_of_planOK body hplan) h

/-- the same behind an FNC1 codeword in first position (GS1): the decoder returns the message -/
theorem fnc1_roundtrip_E (list : List Sym) (body cw : List Nat) (plan : List (Nat × EMode)) (sym : Sym)
    (hb : ByteList body) (hplan : PlanOKE body plan) (h : run list [232] body plan = .ok (cw, sym)) :
    decodeData cw = .ok body := by
  obtain ⟨hpfx, hhd, e, hdec⟩ := run_decRun_E [232] [] list body cw plan sym hb hplan h
  simp only [List.length_singleton, List.nil_append] at hpfx hhd hdec
  have hcw : cw = 232 :: cw.drop 1 := by
    conv => lhs; rw [← List.take_append_drop 1 cw, hpfx]
    rfl
  unfold decodeData
  rw [hcw, decodeParts_other _ true (fun t => ⟨by simp, by simp⟩), partsBody_232]
  simp only [Bool.not_true, Bool.false_and, Bool.false_eq_true, ↓reduceIte, Nat.zero_add]
  unfold decRun at hdec
  simp only [] at hdec
  rw [hdec]
  simp [partsFinish]

theorem fnc1_roundtrip (list : List Sym) (body cw : List Nat) (plan : List (Nat × EMode)) (sym : Sym)
    (hb : ByteList body) (hplan : PlanOK plan) (h : run list [232] body plan = .ok (cw, sym)) :
    decodeData cw = .ok body :=
  fnc1_roundtrip_E list body cw plan sym hb (planOKE_of_planOK body hplan) h

/-- the same behind a Macro 05 / Macro 06 codeword: the decoder re-creates header and trailer -/
theorem macro_roundtrip_E (six : Bool) (list : List Sym) (body cw : List Nat) (plan : List (Nat × EMode)) (sym : Sym)
    (hb : ByteList body) (hplan : PlanOKE body plan) (h : run list [if six then 237 else 236] body plan = .ok (cw, sym)) :
    decodeData cw = .ok ((if six then macroHead06 else macroHead05) ++ body ++ macroTrail) := by
  obtain ⟨hpfx, hhd, e, hdec⟩ := run_decRun_E [if six then 237 else 236] (if six then macroHead06 else macroHead05)
    list body cw plan sym hb hplan h
  simp only [List.length_singleton] at hpfx hhd hdec
  have hcw : cw = (if six then 237 else 236) :: cw.drop 1 := by
    conv => lhs; rw [← List.take_append_drop 1 cw, hpfx]
    rfl
  have hno : ∀ t, cw.drop 1 ≠ 232 :: t := fun t ht => (hhd 232 (by rw [ht]; simp)).1 rfl
  unfold decodeData
  rw [hcw]
  cases six with
  | false =>
    simp only [Bool.false_eq_true, ↓reduceIte] at hdec ⊢
    rw [decodeParts_236, partsBody_no232 true macroHead05 _ 1 true hno]
    simp only [Bool.not_true, Bool.false_and, Bool.false_eq_true, ↓reduceIte]
    unfold decRun at hdec
    simp only [List.length_singleton] at hdec
    rw [hdec]
    simp [partsFinish]
  | true =>
    simp only [↓reduceIte] at hdec ⊢
    rw [decodeParts_237, partsBody_no232 true macroHead06 _ 1 true hno]
    simp only [Bool.not_true, Bool.false_and, Bool.false_eq_true, ↓reduceIte]
    unfold decRun at hdec
    simp only [List.length_singleton] at hdec
    rw [hdec]
    simp [partsFinish]

theorem macro_roundtrip (six : Bool) (list : List Sym) (body cw : List Nat) (plan : List (Nat × EMode)) (sym : Sym)
    (hb : ByteList body) (hplan : PlanOK plan) (h : run list [if six then 237 else 236] body plan = .ok (cw, sym)) :
    decodeData cw = .ok ((if six then macroHead06 else macroHead05) ++ body ++ macroTrail) :=
  macro_roundtrip_E six list body cw plan sym hb (planOKE_of_planOK body hplan) h

end DM.Lemmas.MainRT
