import DM.Lemmas.B256Gen
/-
Data-level round trip for mixed plans over ASCII, C40, Text, X12 and Base 256: the invariant of
the encoder's main loop and its preservation by every mode encoder.
-/
namespace DM.Lemmas.MainRT
open DM.Model DM.Model.Enc DM.Model.Dec DM.Gen DM.Lemmas DM.Lemmas.DecRun DM.Lemmas.AsciiRT DM.Lemmas.Complete
open DM.Lemmas.EncRT DM.Lemmas.X12RT DM.Lemmas.B256RT DM.Lemmas.EdiRT DM.Lemmas.C40RT DM.Lemmas.C40Gen DM.Lemmas.B256Gen
open DM.Spec.Build

/-- `X` after the latch decodes to `chunk`, with or without UNLATCH, in front of any legal tail -/
def SegDec (latch : Nat) (X chunk : List Nat) : Prop :=
  ∀ (un : Bool) (tail : List Nat) (e : Nat) (out : List Nat), TripleTail un tail →
    decRun .ascii { rest := [latch] ++ X ++ (if un then [254] else []) ++ tail, eaten := e, out := out, ecis := [] } =
    decRun .ascii { rest := tail, eaten := e + (1 + X.length + (if un then 1 else 0)), out := out ++ chunk, ecis := [] }

/-- outcome of a C40 / Text / X12 run that started at character `p0` after the codewords `c0` -/
structure TEnd (list : List Sym) (body : List Nat) (p0 : Nat) (c0 : List Nat) (latch : Nat) (s' : St) : Prop where
  out : ∃ (X : List Nat) (p : Nat) (un : Bool), SegDec latch X (seg body p0 p) ∧ p0 ≤ p ∧ p ≤ body.length ∧
    s'.cw = c0 ++ latch :: X ++ (if un then [254] else []) ∧ s'.pos = p ∧ s'.input = body ∧ s'.list = list ∧
    ((s'.mode = .ascii ∧ s'.plan = [(0, .ascii)] ∧ s'.newMode = none) ∨
     (un = true ∧ s'.hasMore = true ∧ Pending s' ∧ PlanOK s'.plan) ∨ (p = body.length ∧ un = false)) ∧
    (un = false → asciiSize (body.drop p) ≤ 1 ∧
      ∃ S, firstBigEnough list (s'.cw.length + asciiSize (body.drop p)) = some S ∧
        dataCw S = s'.cw.length + asciiSize (body.drop p))

theorem c40_to_TEnd (text : Bool) (list : List Sym) (body : List Nat) (p0 : Nat) (c0 : List Nat) (s' : St)
    (h : End text list body p0 c0 s') : TEnd list body p0 c0 (latchOf text) s' := by
  obtain ⟨V, n, p, un, st', hVl, hVlt, hdec, hp0, hp, hcw, hpos, hin, hli, hctl, hex⟩ := h.out
  refine ⟨packTriples V, p, un, ?_, hp0, hp, hcw, hpos, hin, hli, ?_, hex⟩
  · intro un' tail e out ht
    have := seg_c40_vals text V (seg body p0 p) st' n hVl hVlt hdec un' tail ht e out
    have hpl := packTriples_length n V hVl
    simp only [latchOf] at this ⊢
    rw [this, hpl]
  · exact hctl

/-! ### X12 from an arbitrary position -/

theorem x12Loop_plan : ∀ (f : Nat) (s s' : St) (sw : Bool), x12Loop f s = .ok (s', sw) → s.newMode = none → PlanOK s.plan →
    PlanOK s'.plan ∧ (sw = true → Pending s' ∧ (s'.charsLeft ≤ 4 → s'.newMode = none)) := by
  intro f
  induction f with
  | zero => intro s s' sw h; cases h
  | succ f ih =>
    intro s s' sw h hnm hpl
    unfold x12Loop at h
    by_cases hc : s.charsLeft ≥ 3
    · rw [if_pos hc] at h
      split at h
      · rename_i a b c t hr
        split at h
        · rename_i v1 v2 v3 h1 h2 h3
          simp only [] at h
          have hv1 := (x12Val_lt a v1 (x12Enc_val a v1 h1)).1
          have hv2 := (x12Val_lt b v2 (x12Enc_val b v2 h2)).1
          have hv3 := (x12Val_lt c v3 (x12Enc_val c v3 h3)).1
          obtain ⟨w1, w2, w3, w4, w5, w6, w7⟩ := writeThree_cw { s with pos := s.pos + 3 } v1 v2 v3 hv1 hv2 hv3
          cases hm : (writeThree { s with pos := s.pos + 3 } v1 v2 v3).maybeSwitch with
          | error e => rw [hm] at h; cases h
          | ok r =>
            obtain ⟨b', s3⟩ := r
            rw [hm] at h
            cases b' with
            | true =>
              simp only [Except.ok.injEq, Prod.mk.injEq] at h
              obtain ⟨hs, hsw⟩ := h
              subst hs hsw
              obtain ⟨hP, hL, hPl⟩ := switched_ok _ s3 (by rw [w7]; exact hnm) (by rw [w5]; exact hpl) hm
              exact ⟨hPl, fun _ => ⟨hP, hL⟩⟩
            | false =>
              simp only [] at h
              obtain ⟨m1, m2, m3, m4, m5, m6⟩ := maybeSwitch_spec _ s3 false hm
              obtain ⟨f1, f2⟩ := m5 rfl
              exact ih s3 s' sw h (by rw [f2, w7]; exact hnm) (fun e he => hpl e (by rw [← w5]; exact m4 e he))
        · cases h
        · cases h
        · cases h
      · cases h
    · rw [if_neg hc] at h
      simp only [Except.ok.injEq, Prod.mk.injEq] at h
      obtain ⟨hs, hsw⟩ := h
      subst hs hsw
      exact ⟨hpl, by simp⟩

theorem x12Encode_gen (list : List Sym) (body : List Nat) (p0 : Nat) (c0 : List Nat) (sL s3 : St)
    (hin : sL.input = body) (hli : sL.list = list) (hpos : sL.pos = p0) (hle : p0 ≤ body.length)
    (hnm : sL.newMode = none) (hcw : sL.cw = c0 ++ [238]) (hpl : PlanOK sL.plan)
    (h : x12Encode sL = .ok s3) : TEnd list body p0 c0 238 s3 := by
  unfold x12Encode at h
  cases hl : x12Loop (sL.charsLeft + 2) sL with
  | error e => rw [hl] at h; cases h
  | ok r =>
    obtain ⟨s2, sw⟩ := r
    rw [hl] at h
    simp only [] at h
    obtain ⟨n, run⟩ := x12Loop_gen _ sL s2 sw hl
    obtain ⟨hPl2, hsw2⟩ := x12Loop_plan _ sL s2 sw hl hnm hpl
    have hp2 : s2.pos = p0 + 3 * n := by rw [run.pos, hpos]
    have hle2 : s2.pos ≤ body.length := by rw [← hin]; exact run.le (by rw [hpos, hin]; exact hle)
    have hin2 : s2.input = body := run.same.1.trans hin
    have hli2 : s2.list = list := run.same.2.trans hli
    have hsegeq : seg body p0 s2.pos = (sL.input.drop sL.pos).take (3 * n) := by
      unfold seg
      rw [hin, hpos, hp2]
      congr 1
      omega
    have hnat : X12Native (seg body p0 s2.pos) := by rw [hsegeq]; exact run.native
    have hseglen : (seg body p0 s2.pos).length = 3 * n := by
      rw [seg_length body p0 s2.pos (by omega) hle2]; omega
    have hcw2 : s2.cw = c0 ++ 238 :: packTriples ((seg body p0 s2.pos).filterMap x12Val) := by
      rw [run.cw, hcw, hsegeq]; simp
    have hsd : SegDec 238 (packTriples ((seg body p0 s2.pos).filterMap x12Val)) (seg body p0 s2.pos) := by
      intro un tail e out ht
      have := seg_x12 (seg body p0 s2.pos) un tail e out [] n hseglen hnat ht
      have hpl := packTriples_length n _ (by rw [filterMap_native_length _ hnat]; exact hseglen)
      rw [this, hpl]
    have hnm2 : sw = false → s2.newMode = none := fun hs => by rw [(run.stay hs).2.2]; exact hnm
    -- the three endings
    have unl : ∀ s', s' = (if !sw then s2.setAscii else s2).push 254 → TEnd list body p0 c0 238 s' := by
      intro s' hs'
      subst hs'
      cases sw with
      | false =>
        exact ⟨_, s2.pos, true, hsd, by omega, hle2, by simp [St.push, St.setAscii, hcw2], rfl,
          by simp [St.push, St.setAscii, hin2], by simp [St.push, St.setAscii, hli2],
          Or.inl ⟨rfl, rfl, by simp [St.push, St.setAscii, hnm2 rfl]⟩, by simp⟩
      | true =>
        obtain ⟨a1, a2, a3, a4⟩ := run.switch rfl
        obtain ⟨hP, _⟩ := hsw2 rfl
        exact ⟨_, s2.pos, true, hsd, by omega, hle2, by simp [St.push, hcw2], rfl,
          by simp [St.push, hin2], by simp [St.push, hli2],
          Or.inr (Or.inl ⟨rfl, by simpa [St.hasMore, St.push] using a2, by simpa [Pending, St.push] using hP,
            by simpa [St.push] using hPl2⟩), by simp⟩
    have exact : s2.hasMore = false → s2.sizeLeft 0 = some 0 → TEnd list body p0 c0 238 s2 := by
      intro hmf hfit
      have hpl2 : s2.pos = body.length := by
        have := of_decide_eq_false hmf
        rw [hin2] at this
        omega
      obtain ⟨S, f1, f2⟩ := sizeLeft_zero s2 0 hfit
      refine ⟨_, s2.pos, false, hsd, by omega, hle2, by simp [hcw2], rfl, hin2, hli2, Or.inr (Or.inr ⟨hpl2, rfl⟩), fun _ => ?_⟩
      rw [hpl2, List.drop_eq_nil_of_le (Nat.le_refl _)]
      simp only [asciiSize, Nat.add_zero, Nat.zero_le, true_and]
      exact ⟨S, by rw [← hli2]; simpa using f1, by simpa using f2⟩
    by_cases hone : s2.charsLeft ≤ 2 ∧ asciiSize s2.rest = 1
    · rw [if_pos hone] at h
      unfold St.sizeLeftE at h
      cases hs : s2.sizeLeft 1 with
      | none => rw [hs] at h; cases h
      | some k =>
        rw [hs] at h
        simp only [] at h
        by_cases hk : k = 0
        · subst hk
          simp only [decide_true] at h
          simp only [Except.ok.injEq] at h
          subst h
          obtain ⟨S, f1, f2⟩ := sizeLeft_zero s2 1 hs
          have hnm3 : s2.newMode = none := by
            cases sw with
            | false => exact hnm2 rfl
            | true => exact (hsw2 rfl).2 (by omega)
          have hrest : s2.rest = body.drop s2.pos := by simp [St.rest, hin2]
          refine ⟨_, s2.pos, false, hsd, by omega, hle2, by simp [St.setAscii, hcw2], rfl, by simp [St.setAscii, hin2],
            by simp [St.setAscii, hli2], Or.inl ⟨rfl, rfl, by simp [St.setAscii, hnm3]⟩, fun _ => ?_⟩
          rw [← hrest, hone.2]
          exact ⟨Nat.le_refl _, S, by rw [← hli2]; simpa [St.setAscii] using f1, by simpa [St.setAscii] using f2⟩
        · simp only [hk, decide_false] at h
          by_cases hm : s2.hasMore = true
          · simp only [hm, ↓reduceIte] at h
            simp only [Except.ok.injEq] at h
            exact unl s3 h.symm
          · simp only [hm, Bool.false_eq_true, ↓reduceIte] at h
            cases hs0 : s2.sizeLeft 0 with
            | none => rw [hs0] at h; cases h
            | some k0 =>
              rw [hs0] at h
              simp only [] at h
              by_cases hk0 : k0 > 0
              · simp only [hk0, decide_true] at h
                simp only [Except.ok.injEq] at h
                exact unl s3 h.symm
              · simp only [hk0, decide_false] at h
                simp only [Except.ok.injEq] at h
                subst h
                exact exact (by simpa using hm) (by rw [hs0]; congr 1; omega)
    · rw [if_neg hone] at h
      simp only [] at h
      unfold St.sizeLeftE at h
      by_cases hm : s2.hasMore = true
      · simp only [hm, ↓reduceIte] at h
        simp only [Except.ok.injEq] at h
        exact unl s3 h.symm
      · simp only [hm, Bool.false_eq_true, ↓reduceIte] at h
        cases hs0 : s2.sizeLeft 0 with
        | none => rw [hs0] at h; cases h
        | some k0 =>
          rw [hs0] at h
          simp only [] at h
          by_cases hk0 : k0 > 0
          · simp only [hk0, decide_true] at h
            simp only [Except.ok.injEq] at h
            exact unl s3 h.symm
          · simp only [hk0, decide_false] at h
            simp only [Except.ok.injEq] at h
            subst h
            exact exact (by simpa using hm) (by rw [hs0]; congr 1; omega)

end DM.Lemmas.MainRT
