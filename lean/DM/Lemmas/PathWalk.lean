import DM.Lemmas.PathGraph
/-
Totality and bookkeeping of the Hierholzer walk of `DM.Model.Path`: `walk`, `euler`, `tours`
never hit `expect` or run out of fuel on a graph in which every node has even degree, and the
micro steps they emit are a sequence of closed grid walks that uses every edge exactly once.
-/
namespace DM.Lemmas.PathP
open DM.Model.Path

/-- the invariants of the graph that every operation keeps -/
structure GOK (w h : Nat) (g : Graph) : Prop where
  wf : WF g
  box : InBoxG g
  width : g.width = w
  height : g.height = h
  hint : HintInv g

theorem GOK.removeEdge {w h : Nat} {g : Graph} (hg : GOK w h g) (p : Pos) : GOK w h (g.removeEdge p) :=
  ⟨removeEdge_WF g p hg.wf, removeEdge_InBoxG g p hg.box, by simp [hg.width], by simp [hg.height],
   removeEdge_HintInv g p hg.hint⟩

/-- the alternative continuation flag of `follow` -/
def hadAlt (g : Graph) (p : Pos) : Bool :=
  decide (([p.straight, p.turnLeft, p.turnRight].filter g.hasEdge).length ≥ 2)

theorem walk_succ (f : Nat) (g : Graph) (pos : Pos) (start : Node) (insert : Nat)
    (alts : List (Nat × Pos)) (loc : Array Micro) :
    walk (f + 1) g pos start insert alts loc =
      match g.canStep pos with
      | none => .error .expect
      | some np =>
        if np.endNode == start then
          .ok (g.removeEdge np, np, insert,
            (if hadAlt g pos then alts ++ [(insert, pos)] else alts), loc.push (.step np.endNode))
        else walk f (g.removeEdge np) np start (insert + 1)
          (if hadAlt g pos then alts ++ [(insert, pos)] else alts) (loc.push (.step np.endNode)) := by
  rfl

/-- the local loop under construction: steps only, a grid walk from `start` to `cur` -/
structure LocOK (w h : Nat) (start cur : Node) (loc : List Micro) : Prop where
  steps : allSteps loc
  chain : chainOK start loc
  last : lastNode start loc = cur
  box : ∀ m ∈ loc, inBoxN w h m.node

/-- every recorded alternative points behind a prefix of the loop that ends at its node -/
def AltsOK (base : Nat) (start : Node) (loc : List Micro) (alts : List (Nat × Pos)) : Prop :=
  ∀ a ∈ alts, ∃ pre post, loc = pre ++ post ∧ a.1 = base + pre.length ∧ lastNode start pre = a.2.endNode

theorem bxor_rearrange (a b d : Bool) : ((a ^^ b) ^^ a ^^ d) = (d ^^ b) := by
  cases a <;> cases b <;> cases d <;> rfl

theorem count_append_singleton (l : List Edge) (x e : Edge) :
    (l ++ [x]).count e = l.count e + (if x == e then 1 else 0) := by
  simp [List.count_append, List.count_cons]

theorem toNat_remove (g : Graph) (p : Pos) (hp : has g (pedge p) = true) (e : Edge) :
    (if pedge p == e then 1 else 0) + (has (g.removeEdge p) e).toNat = (has g e).toNat := by
  rw [has_removeEdge]
  by_cases he : e = pedge p
  · subst he; simp [hp]
  · have h1 : (e == pedge p) = false := by simpa using he
    have h2 : (pedge p == e) = false := by simpa using fun h => he h.symm
    simp [h1, h2]

/-- **(c)** the inner walk: from a node of odd degree it always finds a continuation, closes at
`start` before the fuel runs out, and accounts for every edge it removes -/
theorem walk_spec (w h base : Nat) (start : Node) : ∀ (f : Nat) (g : Graph) (pos : Pos) (insert : Nat)
    (alts : List (Nat × Pos)) (loc : Array Micro),
    GOK w h g → cnt g < f → has g (pedge pos) = false →
    (∀ n, par g n = ((n == pos.endNode) ^^ (n == start))) →
    pos.endNode ≠ start →
    LocOK w h start pos.endNode loc.toList →
    AltsOK base start loc.toList alts → insert = base + loc.size →
    ∃ g' pos' ins' alts' loc', walk f g pos start insert alts loc = .ok (g', pos', ins', alts', loc') ∧
      GOK w h g' ∧ cnt g' ≤ cnt g ∧ (∀ n, par g' n = false) ∧
      LocOK w h start start loc'.toList ∧ AltsOK base start loc'.toList alts' ∧
      (∀ e, (medges start loc'.toList).count e + (has g' e).toNat
          = (medges start loc.toList).count e + (has g e).toNat) := by
  intro f
  induction f with
  | zero => intro g pos insert alts loc _ hc; omega
  | succ f ih =>
    intro g pos insert alts loc hg hcnt hne hpar hns hloc halts hins
    have hodd : par g pos.endNode = true := by
      rw [hpar]
      have : (pos.endNode == start) = false := by simpa using hns
      simp [this]
    obtain ⟨np, hnp⟩ := canStep_of_odd g pos hne hodd
    obtain ⟨hhas, hstart⟩ := canStep_some g pos np hnp
    rw [walk_succ, hnp]
    simp only []
    -- the state after the step
    have hg1 : GOK w h (g.removeEdge np) := hg.removeEdge np
    have hcnt1 := cnt_removeEdge g np hhas
    have hne1 : has (g.removeEdge np) (pedge np) = false := by rw [has_removeEdge]; simp
    have hpar1 : ∀ n, par (g.removeEdge np) n = ((n == np.endNode) ^^ (n == start)) := by
      intro n
      rw [par_removeEdge g np hhas, hpar, hstart]
      exact bxor_rearrange _ _ _
    have hbox := inBox_of_has g hg.box np hhas
    rw [hg.width, hg.height] at hbox
    have hloc1 : LocOK w h start np.endNode (loc.push (.step np.endNode)).toList := by
      rw [Array.toList_push]
      refine ⟨?_, ?_, ?_, ?_⟩
      · intro m hm
        rw [List.mem_append] at hm
        rcases hm with hm | hm
        · exact hloc.steps m hm
        · simp at hm; subst hm; rfl
      · rw [chainOK_append]
        refine ⟨hloc.chain, ?_⟩
        rw [hloc.last, ← hstart]
        exact ⟨adj_pos np, trivial⟩
      · rw [lastNode_append]; rfl
      · intro m hm
        rw [List.mem_append] at hm
        rcases hm with hm | hm
        · exact hloc.box m hm
        · simp at hm; subst hm; exact hbox.2
    have halts1 : AltsOK base start (loc.push (.step np.endNode)).toList
        (if hadAlt g pos then alts ++ [(insert, pos)] else alts) := by
      rw [Array.toList_push]
      have hold : AltsOK base start (loc.toList ++ [.step np.endNode]) alts := by
        intro a ha
        obtain ⟨pre, post, h1, h2, h3⟩ := halts a ha
        exact ⟨pre, post ++ [.step np.endNode], by rw [h1, List.append_assoc], h2, h3⟩
      split
      · intro a ha
        rw [List.mem_append] at ha
        rcases ha with ha | ha
        · exact hold a ha
        · simp at ha; subst ha
          exact ⟨loc.toList, [.step np.endNode], rfl, by simp [hins], hloc.last⟩
      · exact hold
    have hacc : ∀ e, (medges start (loc.push (.step np.endNode)).toList).count e
        + (has (g.removeEdge np) e).toNat = (medges start loc.toList).count e + (has g e).toNat := by
      intro e
      rw [Array.toList_push, medges_append, hloc.last, ← hstart]
      simp only [medges, edgeOf_pos]
      rw [count_append_singleton, Nat.add_assoc, toNat_remove g np hhas e]
    by_cases hend : (np.endNode == start) = true
    · rw [if_pos hend]
      have hes : np.endNode = start := by simpa using hend
      refine ⟨_, _, _, _, _, rfl, hg1, by omega, ?_, ?_, halts1, hacc⟩
      · intro n; rw [hpar1, hes]; simp
      · rw [← hes]; rw [← hes] at hloc1; exact hes ▸ hloc1
    · rw [if_neg hend]
      have hes : np.endNode ≠ start := by simpa using hend
      obtain ⟨g', pos', ins', alts', loc', hw, h1, h2, h3, h4, h5, h6⟩ :=
        ih (g.removeEdge np) np (insert + 1) _ _ hg1 (by omega) hne1 hpar1 hes hloc1 halts1
          (by simp [hins]; omega)
      exact ⟨g', pos', ins', alts', loc', hw, h1, by omega, h3, h4, h5, fun e => by rw [h6 e, hacc e]⟩

/-- **(c)**, short form: the walk neither hits the `expect` nor runs out of fuel -/
theorem walk_total (w h base : Nat) (start : Node) (f : Nat) (g : Graph) (pos : Pos) (insert : Nat)
    (alts : List (Nat × Pos)) (loc : Array Micro)
    (hg : GOK w h g) (hf : cnt g < f) (hne : has g (pedge pos) = false)
    (hpar : ∀ n, par g n = ((n == pos.endNode) ^^ (n == start))) (hns : pos.endNode ≠ start)
    (hloc : LocOK w h start pos.endNode loc.toList) (halts : AltsOK base start loc.toList alts)
    (hins : insert = base + loc.size) :
    ∃ r, walk f g pos start insert alts loc = .ok r := by
  obtain ⟨g', pos', ins', alts', loc', hw, _⟩ :=
    walk_spec w h base start f g pos insert alts loc hg hf hne hpar hns hloc halts hins
  exact ⟨_, hw⟩

/-! ### `euler`: splicing closed loops -/

theorem splice_toList (els loc : Array Micro) (pre post : List Micro) (k : Nat)
    (h : els.toList = pre ++ post) (hk : k = pre.length) :
    (splice els k loc).toList = pre ++ loc.toList ++ post := by
  unfold splice
  have hs : els.size = pre.length + post.length := by
    rw [← Array.length_toList, h, List.length_append]
  simp only [Array.toList_append, Array.toList_extract, List.extract_eq_take_drop, h, hk, hs]
  simp

theorem euler_succ (f wf : Nat) (g : Graph) (pos : Pos) (insert : Nat) (els : Array Micro) :
    euler (f + 1) wf g pos insert els =
      match walk wf (g.removeEdge pos) pos pos.startNode (insert + 1) [] #[.step pos.endNode] with
      | .error e => .error e
      | .ok (g', _, _, alts, loc) =>
        match alts.findSome? (fun (a : Nat × Pos) => (g'.canStep a.2).map fun np => (a.1, np)) with
        | some (idx, np) => euler f wf g' np idx (splice els insert loc)
        | none => .ok (g', splice els insert loc) := by
  rfl

abbrev O : Node := (0, 0)

/-- the invariant of the outer loops: the micro steps emitted so far are a sequence of closed
grid walks inside the box, and together with the remaining edges they are the original graph -/
structure EInv (w h : Nat) (g0 g : Graph) (L : List Micro) : Prop where
  gok : GOK w h g
  even : ∀ n, par g n = false
  chain : chainOK O L
  jumps : jumpsOK O O L
  closed : lastNode O L = tstart O L
  box : ∀ m ∈ L, inBoxN w h m.node
  acc : ∀ e, (medges O L).count e + (has g e).toNat = (has g0 e).toNat

theorem bxor_comm3 (a b : Bool) : ((false ^^ a) ^^ b) = (b ^^ a) := by
  cases a <;> cases b <;> rfl

/-- splicing a closed loop of steps at a place where the walk stands at the loop's start node -/
theorem splice_inv (pre post loc : List Micro) (a : Node) (hpre : lastNode O pre = a)
    (hsteps : allSteps loc) (hlast : lastNode a loc = a) :
    (chainOK O (pre ++ post) → chainOK a loc → chainOK O (pre ++ loc ++ post)) ∧
    (jumpsOK O O (pre ++ post) → jumpsOK O O (pre ++ loc ++ post)) ∧
    (lastNode O (pre ++ loc ++ post) = lastNode O (pre ++ post)) ∧
    (tstart O (pre ++ loc ++ post) = tstart O (pre ++ post)) ∧
    (∀ e, (medges O (pre ++ loc ++ post)).count e = (medges O (pre ++ post)).count e + (medges a loc).count e) := by
  have hl : lastNode O (pre ++ loc) = a := by rw [lastNode_append, hpre, hlast]
  have ht : tstart O (pre ++ loc) = tstart O pre := by rw [tstart_append, tstart_allSteps _ _ hsteps]
  refine ⟨?_, ?_, ?_, ?_, ?_⟩
  · intro h1 h2
    rw [chainOK_append] at h1
    rw [chainOK_append, chainOK_append, hl, hpre]
    rw [hpre] at h1
    exact ⟨⟨h1.1, h2⟩, h1.2⟩
  · intro h1
    rw [jumpsOK_append] at h1
    rw [jumpsOK_append, jumpsOK_append, hl, ht]
    rw [hpre] at h1
    exact ⟨⟨h1.1, jumpsOK_allSteps _ _ _ hsteps⟩, h1.2⟩
  · rw [lastNode_append, hl, lastNode_append, hpre]
  · rw [tstart_append, ht, tstart_append]
  · intro e
    rw [medges_append, medges_append, hl, hpre, medges_append, hpre]
    simp only [List.count_append]
    omega

theorem euler_spec (w h : Nat) (g0 : Graph) (wf : Nat) : ∀ (f : Nat) (g : Graph) (pos : Pos) (insert : Nat)
    (els : Array Micro) (pre post : List Micro),
    EInv w h g0 g els.toList → els.toList = pre ++ post → insert = pre.length →
    lastNode O pre = pos.startNode → has g (pedge pos) = true → cnt g < f → cnt g < wf →
    ∃ g' els', euler f wf g pos insert els = .ok (g', els') ∧ EInv w h g0 g' els'.toList ∧ cnt g' < cnt g := by
  intro f
  induction f with
  | zero => intro g pos insert els pre post _ _ _ _ _ hc; omega
  | succ f ih =>
    intro g pos insert els pre post hinv hels hins hpre hhas hcnt hwf
    have hcnt1 := cnt_removeEdge g pos hhas
    have hbox := inBox_of_has g hinv.gok.box pos hhas
    rw [hinv.gok.width, hinv.gok.height] at hbox
    obtain ⟨g', pos', ins', alts', loc', hw, hg', hcnt', heven', hloc', halts', hacc'⟩ :=
      walk_spec w h insert pos.startNode wf (g.removeEdge pos) pos (insert + 1) [] #[.step pos.endNode]
        (hinv.gok.removeEdge pos) (by omega) (by rw [has_removeEdge]; simp)
        (by intro n; rw [par_removeEdge g pos hhas, hinv.even]; exact bxor_comm3 _ _)
        (start_ne_end pos)
        ⟨by intro m hm; simp at hm; subst hm; rfl, ⟨adj_pos pos, trivial⟩, rfl,
         by intro m hm; simp at hm; subst hm; exact hbox.2⟩
        (by intro a ha; simp at ha) (by simp)
    rw [euler_succ, hw]
    simp only []
    have hsp := splice_toList els loc' pre post insert hels hins
    obtain ⟨s1, s2, s3, s4, s5⟩ := splice_inv pre post loc'.toList pos.startNode hpre hloc'.steps hloc'.last
    have hinv' : EInv w h g0 g' (splice els insert loc').toList := by
      rw [hsp]
      have hi := hinv
      rw [hels] at hi
      refine ⟨hg', heven', s1 hi.chain hloc'.chain, s2 hi.jumps, by rw [s3, s4]; exact hi.closed, ?_, ?_⟩
      · intro m hm
        simp only [List.mem_append] at hm
        rcases hm with (hm | hm) | hm
        · exact hi.box m (by simp [hm])
        · exact hloc'.box m hm
        · exact hi.box m (by simp [hm])
      · intro e
        rw [s5 e]
        have h1 := hacc' e
        have h2 := hi.acc e
        have h3 := toNat_remove g pos hhas e
        have h4 : (medges pos.startNode (#[Micro.step pos.endNode] : Array Micro).toList).count e
            = (if pedge pos == e then 1 else 0) := by
          simp [medges, edgeOf_pos, List.count_cons]
        omega
    cases hfs : alts'.findSome? (fun (a : Nat × Pos) => (g'.canStep a.2).map fun np => (a.1, np)) with
    | none => exact ⟨g', _, rfl, hinv', by omega⟩
    | some r =>
      obtain ⟨idx, np⟩ := r
      simp only []
      obtain ⟨a, ha, hfa⟩ := List.exists_of_findSome?_eq_some hfs
      obtain ⟨np', hnp', hpair⟩ := Option.map_eq_some_iff.mp hfa
      simp only [Prod.mk.injEq] at hpair
      obtain ⟨hidx, hnpe⟩ := hpair
      subst hnpe
      obtain ⟨hhas', hstart'⟩ := canStep_some g' a.2 np' hnp'
      obtain ⟨lpre, lpost, hl1, hl2, hl3⟩ := halts' a ha
      obtain ⟨g'', els'', he, hinv'', hcnt''⟩ :=
        ih g' np' idx (splice els insert loc') (pre ++ lpre) (lpost ++ post) hinv'
          (by rw [hsp, hl1]; simp [List.append_assoc])
          (by rw [← hidx, hl2, hins, List.length_append])
          (by rw [lastNode_append, hpre, hl3, hstart'])
          hhas' (by omega) (by omega)
      exact ⟨g'', els'', he, hinv'', by omega⟩

/-! ### `tours`: one closed walk per remaining component -/

theorem tours_succ (f wf : Nat) (g : Graph) (pos : Pos) (insert : Nat) (els : Array Micro) :
    tours (f + 1) wf g pos insert els =
      match euler wf wf g pos insert els with
      | .error e => .error e
      | .ok (g', els') =>
        match g'.edgeLeft with
        | (some np, g'') => tours f wf g'' np (els'.push (.jump np.startNode)).size (els'.push (.jump np.startNode))
        | (none, _) => .ok els' := by
  rfl

theorem GOK_hint {w h : Nat} {g : Graph} (hg : GOK w h g) (k : Nat) (hk : HintInv { g with hint := k }) :
    GOK w h { g with hint := k } :=
  ⟨hg.wf, hg.box, hg.width, hg.height, hk⟩

theorem tours_spec (w h : Nat) (g0 : Graph) (wf : Nat) : ∀ (f : Nat) (g : Graph) (pos : Pos) (insert : Nat)
    (els : Array Micro),
    EInv w h g0 g els.toList → insert = els.size →
    lastNode O els.toList = pos.startNode → has g (pedge pos) = true → cnt g < f → cnt g < wf →
    ∃ els', tours f wf g pos insert els = .ok els' ∧
      ∃ g', EInv w h g0 g' els'.toList ∧ ∀ e, has g' e = false := by
  intro f
  induction f with
  | zero => intro g pos insert els _ _ _ _ hc; omega
  | succ f ih =>
    intro g pos insert els hinv hins hlast hhas hcnt hwf
    obtain ⟨g', els', he, hinv', hcnt'⟩ := euler_spec w h g0 wf wf g pos insert els els.toList []
      hinv (by simp) (by simp [hins]) hlast hhas hwf hwf
    rw [tours_succ, he]
    simp only []
    rcases hel : g'.edgeLeft with ⟨_ | np, g''⟩
    · simp only []
      exact ⟨els', rfl, g', hinv', edgeLeft_none g' hinv'.gok.wf hinv'.gok.hint g'' hel⟩
    · simp only []
      obtain ⟨hnp, k, hk, hkinv⟩ := edgeLeft_some g' hinv'.gok.wf hinv'.gok.hint np g'' hel
      subst hk
      have hbox := inBox_of_has g' hinv'.gok.box np hnp
      rw [hinv'.gok.width, hinv'.gok.height] at hbox
      have hinv'' : EInv w h g0 { g' with hint := k } (els'.push (.jump np.startNode)).toList := by
        rw [Array.toList_push]
        refine ⟨GOK_hint hinv'.gok k hkinv, hinv'.even, ?_, ?_, ?_, ?_, ?_⟩
        · rw [chainOK_append]; exact ⟨hinv'.chain, trivial⟩
        · rw [jumpsOK_append]; exact ⟨hinv'.jumps, hinv'.closed, trivial⟩
        · rw [lastNode_append, tstart_append]; rfl
        · intro m hm
          rw [List.mem_append] at hm
          rcases hm with hm | hm
          · exact hinv'.box m hm
          · simp at hm; subst hm; exact hbox.1
        · intro e
          rw [medges_append]
          simp only [medges, List.append_nil]
          exact hinv'.acc e
      exact ih { g' with hint := k } np _ _ hinv'' rfl
        (by rw [Array.toList_push, lastNode_append]; rfl) hnp
        (by have : cnt { g' with hint := k } = cnt g' := rfl
            omega)
        (by have : cnt { g' with hint := k } = cnt g' := rfl
            omega)

/-- the model `path` on an admissible bitmap with dark top-left module, unfolded -/
theorem path_eq (bits : List Bool) (w : Nat) (hw : 0 < w)
    (hdims : w + 1 ≤ 32767 ∧ bits.length / w + 1 ≤ 32767) :
    path bits w =
      match (bitsToEdgeGraph bits.toArray w (bits.length / w)).edgeLeft with
      | (none, _) => .ok []
      | (some pos, g) =>
        match tours (2 * (w + 1) * (bits.length / w + 1) + 2) (2 * (w + 1) * (bits.length / w + 1) + 2) g pos 0 #[] with
        | .error e => .error e
        | .ok els => .ok (compress els.toList) := by
  unfold path
  have h0 : w ≠ 0 := by omega
  simp only [h0, if_false]
  rw [if_neg (by omega)]
  rfl

theorem g0_edgeLeft (bits : List Bool) (w h : Nat) (hw : 0 < w) (hh : 0 < h) (htl : bits.head? = some true) :
    (bitsToEdgeGraph bits.toArray w h).edgeLeft =
      (some { i := 0, j := 0, dir := .right }, { bitsToEdgeGraph bits.toArray w h with hint := 0 }) := by
  have hpos : 0 < w * h := Nat.mul_pos hw hh
  have hhint := g0_hint bits w h hpos htl
  have htop : (bitsToEdgeGraph bits.toArray w h).top 0 0 = true := by
    rw [g0_top]
    cases bits with
    | nil => simp at htl
    | cons b r =>
      simp at htl
      subst htl
      simp [DM.Lemmas.bmGet, hw, hh]
  have ht0 : (bitsToEdgeGraph bits.toArray w h).topE.getD 0 false = true := by
    simpa [Graph.top, Graph.hasCell, Graph.idx] using htop
  have hsz : 0 < (bitsToEdgeGraph bits.toArray w h).leftE.size := by
    rw [(g0_WF _ w h).1]
    exact Nat.mul_pos (by omega) (by omega)
  unfold Graph.edgeLeft
  simp only [hhint]
  have hgo : Graph.edgeLeft.go (bitsToEdgeGraph bits.toArray w h) (bitsToEdgeGraph bits.toArray w h).leftE.size
      ((bitsToEdgeGraph bits.toArray w h).leftE.size + 1 - 0) 0 = some 0 := by
    rw [show (bitsToEdgeGraph bits.toArray w h).leftE.size + 1 - 0
        = (bitsToEdgeGraph bits.toArray w h).leftE.size + 1 from rfl]
    unfold Graph.edgeLeft.go
    rw [if_neg (by omega)]
    simp [ht0]
  rw [hgo]
  simp [ht0]

end DM.Lemmas.PathP
