import DM.Lemmas.RSSoundBase
import DM.Lemmas.BPDefs
/-
The list-based model `bjorckPereyra` (in-place updates inside nested `for` loops) computes the
abstract Björck–Pereyra algorithm `BP.bp` of `BPDefs.lean` (simultaneous updates on functions).
-/
namespace DM.Lemmas.RSSound
set_option linter.unusedSimpArgs false
set_option linter.unusedVariables false
open DM.Model DM.Model.RS DM.Lemmas DM.Lemmas.RSTotal

/-! ### generic loop rules -/

/-- A loop over `L` that overwrites entry `a` of the state for every `a` in `L`, where the new
value only depends on the initial state: the step may use that all entries whose index has not
been processed yet still have their initial value. -/
theorem Post_sweep (L : List Nat) (s0 : List Nat) (f : Nat → List Nat → R (ForInStep (List Nat)))
    (new : ℕ → GF) (n : ℕ) (hlen : s0.length = n) (hb : Bytes s0)
    (hstep : ∀ pre a rest, L = pre ++ a :: rest → ∀ s : List Nat, s.length = n → Bytes s →
      (∀ i, i ∉ pre → gf s i = gf s0 i) →
      Post (f a s) (fun r => ∃ v, r = .yield (s.set a v) ∧ v < 256 ∧ a < n ∧ GF.ofNat v = new a)) :
    Post (forIn L s0 f) (fun s => s.length = n ∧ Bytes s ∧
      ∀ i, gf s i = if i ∈ L then new i else gf s0 i) := by
  apply Safe_forIn L s0 f
    (fun rest s => ∃ pre, L = pre ++ rest ∧ s.length = n ∧ Bytes s ∧
      ∀ i, gf s i = if i ∈ pre then new i else gf s0 i)
  · exact ⟨[], rfl, hlen, hb, fun i => by simp⟩
  · intro a rest s ha hI
    obtain ⟨pre, hL, hl, hbs, hg⟩ := hI
    apply Safe_mono (hstep pre a rest hL s hl hbs (fun i hi => by rw [hg i, if_neg hi]))
    intro r hr
    obtain ⟨v, rfl, hv, han, hnew⟩ := hr
    refine ⟨pre ++ [a], by simp [hL], by simp [hl], hbs.set a hv, ?_⟩
    intro i
    by_cases hia : i = a
    · subst hia
      rw [gf_set_eq v (by omega), hnew, if_pos (by simp)]
    · rw [gf_set_ne v (Ne.symm hia), hg i]
      simp [hia]
  · intro s hI
    obtain ⟨pre, hL, hl, hbs, hg⟩ := hI
    simp only [List.append_nil] at hL
    subst hL
    exact ⟨hl, hbs, hg⟩

/-- A loop whose invariant is indexed by the number of processed elements. -/
theorem Post_forIn_idx {β} (L : List Nat) (init : β) (f : Nat → β → R (ForInStep β))
    (J : ℕ → β → Prop) (h0 : J 0 init)
    (hstep : ∀ n (hn : n < L.length) b, J n b →
      Post (f L[n] b) (fun r => ∃ b', r = .yield b' ∧ J (n + 1) b')) :
    Post (forIn L init f) (J L.length) := by
  apply Safe_forIn L init f (fun rest b => ∃ n, n ≤ L.length ∧ rest = L.drop n ∧ J n b)
  · exact ⟨0, Nat.zero_le _, rfl, h0⟩
  · intro a rest b ha hI
    obtain ⟨n, hn, hr, hJ⟩ := hI
    have hn' : n < L.length := by
      rcases Nat.lt_or_ge n L.length with h | h
      · exact h
      · rw [List.drop_eq_nil_of_le h] at hr; cases hr
    rw [List.drop_eq_getElem_cons hn'] at hr
    injection hr with h1 h2
    subst h1
    apply Safe_mono (hstep n hn' b hJ)
    intro r hr
    obtain ⟨b', rfl, hJ'⟩ := hr
    exact ⟨n + 1, hn', h2, hJ'⟩
  · intro b hI
    obtain ⟨n, hn, hr, hJ⟩ := hI
    have : n = L.length := by
      rcases Nat.lt_or_ge n L.length with h | h
      · rw [List.drop_eq_getElem_cons h] at hr; cases hr
      · omega
    subst this
    exact hJ

theorem bjorckPereyra_bridge (roots syn : List Nat) (hne : roots ≠ []) (hnd : roots.Nodup)
    (hnz : ∀ r ∈ roots, r ≠ 0 ∧ r < 256) (hlen : roots.length ≤ syn.length) (hsyn : Bytes syn) :
    Post (bjorckPereyra roots syn) (fun p =>
      p.1 = roots.map (gdivD 1) ∧ Bytes p.2 ∧ p.2.length = syn.length ∧
      ∀ l, l < roots.length →
        gf p.2 l = BP.bp roots.length (gf (roots.map (gdivD 1))) (gf syn) l) := by
  have he : roots.length ≠ 0 := by
    intro h; exact hne (List.length_eq_zero_iff.1 h)
  unfold bjorckPereyra
  simp only []
  refine Safe_bind ?_
  apply Safe_mono (Safe_forIn _ _ _
    (fun (rest : List Nat) (x : List Nat) => x ++ rest.map (gdivD 1) = roots.map (gdivD 1))
    (fun x : List Nat => x = roots.map (gdivD 1)) ?_ ?_ ?_)
  rotate_left
  · rfl
  · intro z rest x hz hI
    refine Safe_bind (Post_div' fun _ => ?_)
    apply Safe_pure
    rw [← hI]
    simp only [List.map_cons, List.append_assoc, List.singleton_append]
  · intro x hI
    simpa using hI
  intro x hx
  subst hx
  refine Safe_ite (fun h => absurd h he) (fun _ => ?_)
  refine Safe_bind ?_
  have hX : Bytes (roots.map (gdivD 1)) := by
    intro v hv
    simp only [List.mem_map] at hv
    obtain ⟨r, _, rfl⟩ := hv
    exact gdivD_lt 1 r
  -- stage 1
  apply Safe_mono (Post_forIn_idx _ _ _
    (fun n (s : List Nat) => s.length = syn.length ∧ Bytes s ∧
      gf s = BP.stage1 roots.length (gf (roots.map (gdivD 1))) n (gf syn)) ⟨rfl, hsyn, rfl⟩ ?_)
  rotate_left
  · intro n hn s hJ
    obtain ⟨hl, hbs, hg⟩ := hJ
    simp only [List.length_range] at hn
    simp only [List.getElem_range]
    refine Safe_bind ?_
    apply Safe_mono (Post_sweep _ s _
      (fun j => gf s j + gf (roots.map (gdivD 1)) n * gf s (j - 1)) syn.length hl hbs ?_)
    rotate_left
    · intro pre a rest hL t htl htb hun
      have hpw : List.Pairwise (· > ·) (pre ++ a :: rest) := by
        rw [← hL, List.pairwise_reverse]
        exact List.pairwise_lt_range.filter _
      have ha : a ∈ ((List.range roots.length).filter (· ≥ n + 1)).reverse := by
        rw [hL]; simp
      simp only [List.mem_reverse, List.mem_filter, List.mem_range, decide_eq_true_eq] at ha
      have hpre : ∀ i ∈ pre, a < i := fun i hi =>
        (List.pairwise_append.1 hpw).2.2 i hi a (by simp)
      refine Safe_bind (Post_at' fun prev h1 hprev => ?_)
      refine Safe_bind (Post_at' fun cur h2 hcur => ?_)
      apply Safe_pure
      have hp : prev < 256 := hprev ▸ htb.getD _
      have hc : cur < 256 := hcur ▸ htb.getD _
      refine ⟨_, rfl, xor_lt_256 hc (gmul_lt' _ _), by omega, ?_⟩
      rw [ofNat_gadd, ofNat_gmul' (hX.getD _) hp, hcur, hprev]
      change gf t a + gf _ n * gf t (a - 1) = _
      rw [hun a (fun h => by have := hpre a h; omega),
        hun (a - 1) (fun h => by have := hpre _ h; omega)]
    · intro t ht
      obtain ⟨htl, htb, hg'⟩ := ht
      apply Safe_pure
      refine ⟨_, rfl, htl, htb, ?_⟩
      funext i
      rw [hg' i, BP.stage1, ← hg]
      simp only [BP.s1Step, GF.sub_eq_add, List.mem_reverse, List.mem_filter, List.mem_range,
        decide_eq_true_eq, ge_iff_le, and_comm]
  intro c hc
  simp only [List.length_range] at hc
  obtain ⟨hcl, hcb, hcg⟩ := hc
  refine Safe_bind ?_
  -- stage 2
  apply Safe_mono (Post_forIn_idx _ _ _
    (fun n (s : List Nat) => s.length = syn.length ∧ Bytes s ∧
      BP.stage2 roots.length (gf (roots.map (gdivD 1))) (roots.length - 1 - n) (gf s)
        = BP.stage2 roots.length (gf (roots.map (gdivD 1))) (roots.length - 1) (gf c))
    ⟨hcl, hcb, rfl⟩ ?_)
  rotate_left
  · intro n hn s hJ
    obtain ⟨hl, hbs, hg⟩ := hJ
    simp only [List.length_reverse, List.length_range] at hn
    obtain ⟨k, hk⟩ : ∃ k, k = (List.range (roots.length - 1)).reverse[n] := ⟨_, rfl⟩
    rw [← hk]
    have hk' : k = roots.length - 2 - n := by
      rw [hk]; simp only [List.getElem_reverse, List.getElem_range, List.length_range]; omega
    clear hk
    have hkn : roots.length - 1 - n = k + 1 := by omega
    have hkn' : roots.length - 1 - (n + 1) = k := by omega
    rw [hkn, BP.stage2] at hg
    rw [hkn']
    -- first sweep
    refine Safe_bind ?_
    apply Safe_mono (Post_sweep _ s _
      (fun j => gf s j / (gf (roots.map (gdivD 1)) j - gf (roots.map (gdivD 1)) (j - k - 1)))
      syn.length hl hbs ?_)
    rotate_left
    · intro pre a rest hL t htl htb hun
      have hpw : List.Pairwise (· < ·) (pre ++ a :: rest) := by
        rw [← hL]
        exact List.pairwise_lt_range.filter _
      have ha : a ∈ (List.range roots.length).filter (· ≥ k + 1) := by
        rw [hL]; simp
      simp only [List.mem_filter, List.mem_range, decide_eq_true_eq] at ha
      have hpre : ∀ i ∈ pre, i < a := fun i hi =>
        (List.pairwise_append.1 hpw).2.2 i hi a (by simp)
      refine Safe_bind (Post_at' fun cur h2 hcur => ?_)
      refine Safe_bind (Post_div' fun hd => ?_)
      apply Safe_pure
      have hc : cur < 256 := hcur ▸ htb.getD _
      have hdl := xor_lt_256 (hX.getD a) (hX.getD (a - k - 1))
      refine ⟨_, rfl, gdivD_lt _ _, by omega, ?_⟩
      rw [ofNat_gdivD hc hdl hd, ofNat_gadd, hcur, GF.sub_eq_add]
      change gf t a / _ = _
      rw [hun a (fun h => by have := hpre a h; omega)]
      rfl
    intro t1 ht1
    obtain ⟨ht1l, ht1b, hg1⟩ := ht1
    have hg1' : gf t1 = BP.s2Div roots.length (gf (roots.map (gdivD 1))) k (gf s) := by
      funext i
      rw [hg1 i]
      simp only [BP.s2Div, List.mem_filter, List.mem_range, decide_eq_true_eq, ge_iff_le, and_comm]
    -- second sweep
    refine Safe_bind ?_
    apply Safe_mono (Post_sweep _ t1 _ (fun j => gf t1 j + gf t1 (j + 1)) syn.length ht1l ht1b ?_)
    rotate_left
    · intro pre a rest hL t htl htb hun
      have hpw : List.Pairwise (· < ·) (pre ++ a :: rest) := by
        rw [← hL]
        exact List.pairwise_lt_range.filter _
      have ha : a ∈ (List.range (roots.length - 1)).filter (· ≥ k) := by
        rw [hL]; simp
      simp only [List.mem_filter, List.mem_range, decide_eq_true_eq] at ha
      have hpre : ∀ i ∈ pre, i < a := fun i hi =>
        (List.pairwise_append.1 hpw).2.2 i hi a (by simp)
      refine Safe_bind (Post_at' fun nxt h1 hnxt => ?_)
      refine Safe_bind (Post_at' fun cur h2 hcur => ?_)
      apply Safe_pure
      have hp : nxt < 256 := hnxt ▸ htb.getD _
      have hc : cur < 256 := hcur ▸ htb.getD _
      refine ⟨_, rfl, xor_lt_256 hc hp, by omega, ?_⟩
      rw [ofNat_gadd, hcur, hnxt]
      change gf t a + gf t (a + 1) = _
      rw [hun a (fun h => by have := hpre a h; omega),
        hun (a + 1) (fun h => by have := hpre _ h; omega)]
    intro t2 ht2
    obtain ⟨ht2l, ht2b, hg2⟩ := ht2
    have hg2' : gf t2 = BP.s2Sub roots.length k (gf t1) := by
      funext i
      rw [hg2 i]
      simp only [BP.s2Sub, GF.sub_eq_add, List.mem_filter, List.mem_range, decide_eq_true_eq,
        ge_iff_le]
      by_cases hh : k ≤ i ∧ i + 1 < roots.length
      · rw [if_pos hh, if_pos ⟨by omega, hh.1⟩]
      · rw [if_neg hh, if_neg (fun h => hh ⟨h.2, by omega⟩)]
    apply Safe_pure
    refine ⟨_, rfl, ht2l, ht2b, ?_⟩
    rw [hg2', hg1']
    exact hg
  intro d hd
  simp only [List.length_reverse, List.length_range, Nat.sub_self] at hd
  obtain ⟨hdl, hdb, hdg⟩ := hd
  rw [BP.stage2] at hdg
  -- stage 3
  refine Safe_bind ?_
  apply Safe_mono (Post_sweep _ d _
    (fun j => gf d j / gf (roots.map (gdivD 1)) j) syn.length hdl hdb ?_)
  rotate_left
  · intro pre a rest hL t htl htb hun
    have hpw : List.Pairwise (· < ·) (pre ++ a :: rest) := by
      rw [← hL]
      exact List.pairwise_lt_range
    have ha : a ∈ List.range roots.length := by
      rw [hL]; simp
    simp only [List.mem_range] at ha
    have hpre : ∀ i ∈ pre, i < a := fun i hi =>
      (List.pairwise_append.1 hpw).2.2 i hi a (by simp)
    refine Safe_bind (Post_at' fun cur h2 hcur => ?_)
    refine Safe_bind (Post_div' fun hd => ?_)
    apply Safe_pure
    have hc : cur < 256 := hcur ▸ htb.getD _
    refine ⟨_, rfl, gdivD_lt _ _, by omega, ?_⟩
    rw [ofNat_gdivD hc (hX.getD a) hd, hcur]
    change gf t a / _ = _
    rw [hun a (fun h => by have := hpre a h; omega)]
    rfl
  intro r hr
  obtain ⟨hrl, hrb, hgr⟩ := hr
  apply Safe_pure
  refine ⟨rfl, hrb, hrl, ?_⟩
  intro l hl
  show gf r l = _
  rw [hgr l, if_pos (List.mem_range.2 hl), hdg, hcg]
  rfl

/-- what the abstract correctness theorem (proved elsewhere, for any field) says for GF -/
def BPAlgCorrect : Prop :=
  ∀ (e : ℕ) (x : ℕ → GF), (∀ i, i < e → ∀ j, j < e → x i = x j → i = j) → (∀ i, i < e → x i ≠ 0) →
    ∀ (b : ℕ → GF) (i : ℕ), i < e → ∑ l ∈ Finset.range e, BP.bp e x b l * x l ^ (i + 1) = b i

theorem bjorckPereyra_correct_of_alg (halg : BPAlgCorrect) (roots syn : List Nat) (hne : roots ≠ [])
    (hnd : roots.Nodup) (hnz : ∀ r ∈ roots, r ≠ 0 ∧ r < 256) (hlen : roots.length ≤ syn.length)
    (hsyn : Bytes syn) :
    Post (bjorckPereyra roots syn) (fun p =>
      p.1 = roots.map (gdivD 1) ∧ Bytes p.2 ∧ p.2.length = syn.length ∧
      ∀ j, j < roots.length →
        ∑ l ∈ Finset.range roots.length, gf p.2 l * gf p.1 l ^ (j + 1) = gf syn j) := by
  have hX : Bytes (roots.map (gdivD 1)) := by
    intro v hv
    simp only [List.mem_map] at hv
    obtain ⟨r, _, rfl⟩ := hv
    exact gdivD_lt 1 r
  have hinj : ∀ i, i < roots.length → ∀ j, j < roots.length →
      gf (roots.map (gdivD 1)) i = gf (roots.map (gdivD 1)) j → i = j := by
    intro i hi j hj h
    have h' := ofNat_inj (hX.getD i) (hX.getD j) h
    rcases Nat.lt_trichotomy i j with hij | hij | hij
    · exact absurd h' (inv_distinct roots hnd hnz i j hi hj hij)
    · exact hij
    · exact absurd h'.symm (inv_distinct roots hnd hnz j i hj hi hij)
  have hx0 : ∀ i, i < roots.length → gf (roots.map (gdivD 1)) i ≠ 0 := fun i hi =>
    ofNat_ne_zero (hX.getD i) (inv_ne_zero roots hnz i hi)
  apply Safe_mono (bjorckPereyra_bridge roots syn hne hnd hnz hlen hsyn)
  intro p hp
  obtain ⟨h1, h2, h3, h4⟩ := hp
  refine ⟨h1, h2, h3, ?_⟩
  intro j hj
  rw [h1, ← halg roots.length (gf (roots.map (gdivD 1))) hinj hx0 (gf syn) j hj]
  apply Finset.sum_congr rfl
  intro l hl
  rw [h4 l (Finset.mem_range.1 hl)]

end DM.Lemmas.RSSound
