import DM.Lemmas.RSTot
/-
The behaviour of `correctBlock` once the results of its sub-computations (locator, Chien
search, error values) are known: the block is returned with the error values added at the
positions given by the error locations.
-/
namespace DM.Lemmas.CorrectParts
set_option linter.unusedSimpArgs false
open DM.Model DM.Model.RS DM.Lemmas DM.Lemmas.RSTotal DM.Lemmas.RSTot

/-- the update of entry `i` of a block of length `n` by one (location, value) pair -/
def upd (n i : Nat) (acc : Nat) (p : Nat × Nat) : Nat :=
  if n - glog p.1 - 1 = i then gadd acc p.2 else acc

theorem getD_set (l : List Nat) (pos v i : Nat) (hpos : pos < l.length) :
    (l.set pos v).getD i 0 = if pos = i then v else l.getD i 0 := by
  rw [List.getD_eq_getElem?_getD, List.getD_eq_getElem?_getD, List.getElem?_set]
  by_cases h : pos = i
  · subst h
    simp [hpos]
  · simp [h]

theorem getD_append_left (d e : List Nat) (pos : Nat) (h : pos < d.length) :
    (d ++ e).getD pos 0 = d.getD pos 0 := by
  rw [List.getD_eq_getElem?_getD, List.getD_eq_getElem?_getD, List.getElem?_append_left h]

theorem getD_append_right (d e : List Nat) (pos : Nat) (h : d.length ≤ pos) :
    (d ++ e).getD pos 0 = e.getD (pos - d.length) 0 := by
  rw [List.getD_eq_getElem?_getD, List.getD_eq_getElem?_getD, List.getElem?_append_right h]

theorem correctBlock_of_parts (dataB errB : List Nat) (errLen : Nat)
    (syn lambda roots locs vals : List Nat)
    (hLD : levinsonDurbin syn = .ok lambda) (hCh : chienSearch lambda = .ok roots)
    (hlen : roots.length = lambda.length - 1) (hhead : roots.head? ≠ some 0)
    (hv : lambda.length - 1 ≤ errLen)
    (hmal : ∀ j, errLen / 2 ≤ j → j < errLen - (lambda.length - 1) →
      lambda.length ≤ (syn.drop j).length ∧ (List.zipWith gmul (syn.drop j) lambda).foldl gadd 0 = 0)
    (hBP : bjorckPereyra roots syn = .ok (locs, vals))
    (hloc : ∀ p ∈ locs.zip vals, p.1 ≠ 0 ∧ glog p.1 < dataB.length + errB.length) :
    ∃ d e, correctBlock dataB errB errLen syn = .ok (d, e) ∧ d.length = dataB.length ∧
      e.length = errB.length ∧
      ∀ i, i < dataB.length + errB.length →
        (d ++ e).getD i 0 = (locs.zip vals).foldl
          (fun acc p => if dataB.length + errB.length - glog p.1 - 1 = i then gadd acc p.2 else acc)
          ((dataB ++ errB).getD i 0) := by
  suffices H : Tot NoSite (correctBlock dataB errB errLen syn)
      (fun s => s.1.length = dataB.length ∧ s.2.length = errB.length ∧
        ∀ i, i < dataB.length + errB.length →
          (s.1 ++ s.2).getD i 0 = (locs.zip vals).foldl (upd (dataB.length + errB.length) i)
            ((dataB ++ errB).getD i 0)) by
    obtain ⟨⟨d, e⟩, he, h1, h2, h3⟩ := Tot_elim H
    exact ⟨d, e, he, h1, h2, h3⟩
  unfold correctBlock
  simp only []
  refine Tot_bind (Tot_of_eq hLD ?_)
  refine Tot_bind (Tot_of_eq hCh ?_)
  refine Tot_ite (fun h => absurd h (not_or.2 ⟨not_not.2 hlen, hhead⟩)) (fun _ => ?_)
  refine Tot_bind (Tot_sub' hv ?_)
  refine Tot_bind ?_
  apply Tot_mono (Tot_forIn_inv _ _ _ (fun _ => True) trivial ?_)
  rotate_left
  · intro j hj _ _
    simp only [List.mem_filter, List.mem_range, decide_eq_true_eq] at hj
    obtain ⟨h1, h2⟩ := hmal j hj.2 hj.1
    refine Tot_ite (fun h => absurd h (by omega)) (fun _ => ?_)
    refine Tot_ite (fun h => absurd h2 h) (fun _ => Tot_pure trivial)
  intro _ _
  refine Tot_bind (Tot_of_eq hBP ?_)
  simp only []
  refine Tot_bind ?_
  apply Tot_mono (Tot_forIn _ _ _
    (fun (rest : List (Nat × Nat)) (s : List Nat × List Nat) =>
      s.1.length = dataB.length ∧ s.2.length = errB.length ∧
      ∃ pre, locs.zip vals = pre ++ rest ∧ ∀ i, i < dataB.length + errB.length →
        (s.1 ++ s.2).getD i 0 = pre.foldl (upd (dataB.length + errB.length) i)
          ((dataB ++ errB).getD i 0))
    (fun s : List Nat × List Nat =>
      s.1.length = dataB.length ∧ s.2.length = errB.length ∧
      ∀ i, i < dataB.length + errB.length →
        (s.1 ++ s.2).getD i 0 = (locs.zip vals).foldl (upd (dataB.length + errB.length) i)
          ((dataB ++ errB).getD i 0)) ?_ ?_ ?_)
  · intro s hs; exact Tot_pure hs
  · exact ⟨rfl, rfl, [], rfl, fun i _ => rfl⟩
  · intro pre0 x rest s hl hI
    obtain ⟨loc, err⟩ := x
    obtain ⟨d, e⟩ := s
    obtain ⟨hd, he, pre, hpre, hval⟩ := hI
    simp only at hd he hval
    have hmem : (loc, err) ∈ locs.zip vals := by rw [hl]; simp
    obtain ⟨hloc0, hlt⟩ := hloc _ hmem
    simp only at hloc0 hlt
    have hg : glogChecked loc = some (glog loc) := by
      unfold glogChecked; rw [if_neg hloc0]
    simp only [hg]
    refine Tot_ite (fun h => absurd h (by omega)) (fun _ => ?_)
    have hfold : ∀ i, (pre ++ [(loc, err)]).foldl (upd (dataB.length + errB.length) i)
          ((dataB ++ errB).getD i 0)
        = upd (dataB.length + errB.length) i
            (pre.foldl (upd (dataB.length + errB.length) i) ((dataB ++ errB).getD i 0))
            (loc, err) := by
      intro i
      rw [List.foldl_append, List.foldl_cons, List.foldl_nil]
    have hpre' : locs.zip vals = (pre ++ [(loc, err)]) ++ rest := by
      rw [hpre]; simp
    have hposlt : dataB.length + errB.length - glog loc - 1 < (d ++ e).length := by
      rw [List.length_append, hd, he]; omega
    refine Tot_ite (fun hpos => Tot_pure ?_) (fun hpos => Tot_pure ?_)
    · refine ⟨by simp only [List.length_set]; exact hd, he, _, hpre', ?_⟩
      intro i hi
      simp only
      have hp' : dataB.length + errB.length - glog loc - 1 < d.length := by rw [hd]; exact hpos
      have hset := List.set_append (s := d) (t := e)
        (i := dataB.length + errB.length - glog loc - 1)
        (x := gadd (d.getD (dataB.length + errB.length - glog loc - 1) 0) err)
      rw [if_pos hp'] at hset
      rw [← hset, getD_set _ _ _ _ hposlt, hfold, ← hval i hi]
      unfold upd
      simp only
      by_cases hc : dataB.length + errB.length - glog loc - 1 = i
      · rw [if_pos hc, if_pos hc, ← hc, getD_append_left d e _ hp']
      · rw [if_neg hc, if_neg hc]
    · refine ⟨hd, by simp only [List.length_set]; exact he, _, hpre', ?_⟩
      intro i hi
      simp only
      have hp' : ¬ dataB.length + errB.length - glog loc - 1 < d.length := by rw [hd]; exact hpos
      have hset := List.set_append (s := d) (t := e)
        (i := dataB.length + errB.length - glog loc - 1)
        (x := gadd (e.getD (dataB.length + errB.length - glog loc - 1 - dataB.length) 0) err)
      rw [if_neg hp', hd] at hset
      rw [← hset, getD_set _ _ _ _ hposlt, hfold, ← hval i hi]
      unfold upd
      simp only
      by_cases hc : dataB.length + errB.length - glog loc - 1 = i
      · rw [if_pos hc, if_pos hc, ← hc, getD_append_right d e _ (by omega), hd]
      · rw [if_neg hc, if_neg hc]
  · intro s hI
    obtain ⟨hd, he, pre, hpre, hval⟩ := hI
    refine ⟨hd, he, ?_⟩
    rw [hpre, List.append_nil]
    exact hval

theorem foldl_miss (n i : Nat) (pairs : List (Nat × Nat)) (x0 : Nat)
    (h : ∀ p ∈ pairs, n - glog p.1 - 1 ≠ i) :
    pairs.foldl (fun acc p => if n - glog p.1 - 1 = i then gadd acc p.2 else acc) x0 = x0 := by
  induction pairs generalizing x0 with
  | nil => rfl
  | cons q ps ih =>
    rw [List.foldl_cons, if_neg (h q (List.mem_cons_self ..))]
    exact ih x0 (fun p hp => h p (List.mem_cons_of_mem _ hp))

theorem foldl_hit (n i : Nat) (pairs : List (Nat × Nat)) (x0 : Nat)
    (hnd : (pairs.map fun p => glog p.1).Nodup) (hlt : ∀ p ∈ pairs, glog p.1 < n) :
    (∀ p ∈ pairs, n - glog p.1 - 1 = i →
        pairs.foldl (fun acc p => if n - glog p.1 - 1 = i then gadd acc p.2 else acc) x0 = gadd x0 p.2) ∧
    ((∀ p ∈ pairs, n - glog p.1 - 1 ≠ i) →
        pairs.foldl (fun acc p => if n - glog p.1 - 1 = i then gadd acc p.2 else acc) x0 = x0) := by
  refine ⟨?_, foldl_miss n i pairs x0⟩
  induction pairs generalizing x0 with
  | nil => intro p hp; simp at hp
  | cons q ps ih =>
    intro p hp hpi
    rw [List.map_cons, List.nodup_cons] at hnd
    have hq := hlt q (List.mem_cons_self ..)
    have hps : ∀ p' ∈ ps, glog p'.1 < n := fun p' hp' => hlt p' (List.mem_cons_of_mem _ hp')
    rw [List.foldl_cons]
    rcases List.mem_cons.mp hp with rfl | hp'
    · rw [if_pos hpi]
      apply foldl_miss
      intro p' hp' hc
      apply hnd.1
      have := hps p' hp'
      have hg : glog p.1 = glog p'.1 := by omega
      rw [hg]
      exact List.mem_map.mpr ⟨p', hp', rfl⟩
    · have hqi : n - glog q.1 - 1 ≠ i := by
        intro hc
        apply hnd.1
        have := hps p hp'
        have hg : glog q.1 = glog p.1 := by omega
        rw [hg]
        exact List.mem_map.mpr ⟨p, hp', rfl⟩
      rw [if_neg hqi]
      exact ih x0 hnd.2 hps p hp' hpi

end DM.Lemmas.CorrectParts
