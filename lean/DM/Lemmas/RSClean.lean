import DM.Lemmas.RSBridge
import DM.Model.RSDec
import Mathlib.Algebra.BigOperators.Ring.List
import Mathlib.Data.List.Induction
/-
A word all of whose blocks are codewords passes the Reed–Solomon decoder unchanged:
the decoder's syndromes (sum form, powers from the ANTI_LOG table) are the specification's
syndromes (Horner form, table-free arithmetic).
-/
namespace DM.Lemmas
open DM.Model DM.Model.RS DM.Spec

/-- the primitive element x = 2 -/
def α : GF := GF.ofNat 2

theorem ofNat_alog_mod (m : Nat) : GF.ofNat (alog (m % 255)) = α ^ m := by
  induction m with
  | zero => simp [alog_zero]; rfl
  | succ m ih =>
    have hlt : m % 255 < 255 := Nat.mod_lt _ (by omega)
    have hb := (alog_pos (m % 255) hlt).2
    have step : alog ((m + 1) % 255) = gmul 2 (alog (m % 255)) := by
      rw [mul2_xtime _ hb]
      by_cases h : m % 255 < 254
      · have : (m + 1) % 255 = m % 255 + 1 := by omega
        rw [this, alog_succ _ h]
      · have h254 : m % 255 = 254 := by omega
        have : (m + 1) % 255 = 0 := by omega
        rw [this, h254, xtime_alog_254, alog_zero]
    rw [step, GF.ofNat_gmul (by omega) hb, ih, pow_succ, mul_comm]
    rfl

theorem ofNat_alog (m : Nat) (h : m < 255) : GF.ofNat (alog m) = α ^ m := by
  have := ofNat_alog_mod m
  rwa [Nat.mod_eq_of_lt h] at this

/-- Σ_i (reverse l)[i]·x^i -/
def sumForm (l : List GF) (x : GF) : GF :=
  ((List.range l.length).map fun i => l.reverse.getD i 0 * x ^ i).sum

theorem evalH_snoc (l : List GF) (c x : GF) : evalH (l ++ [c]) x = evalH l x * x + c := by
  rw [evalH_append, evalH_cons, evalH_nil]
  simp

theorem sumForm_snoc (l : List GF) (c x : GF) : sumForm (l ++ [c]) x = c + x * sumForm l x := by
  unfold sumForm
  rw [List.length_append, List.length_cons, List.length_nil, List.reverse_append, List.range_succ_eq_map]
  simp only [List.reverse_cons, List.reverse_nil, List.nil_append, List.map_cons, List.sum_cons, List.map_map,
    List.singleton_append]
  congr 1
  · simp
  · rw [← List.sum_map_mul_left]
    congr 1
    apply List.map_congr_left
    intro i _
    simp only [Function.comp, List.getD_cons_succ, pow_succ]
    ring

theorem evalH_eq_sumForm (l : List GF) (x : GF) : evalH l x = sumForm l x := by
  induction l using List.reverseRec with
  | nil => simp [evalH_nil, sumForm]
  | append_singleton l c ih => rw [evalH_snoc, sumForm_snoc, ih]; ring

theorem ofNat_foldl_xor (L : List Nat) (a : Nat) :
    GF.ofNat (L.foldl gadd a) = GF.ofNat a + (L.map GF.ofNat).sum := by
  induction L generalizing a with
  | nil => simp
  | cons b L ih =>
    simp only [List.foldl_cons, List.map_cons, List.sum_cons]
    rw [ih, GF.ofNat_xor]
    ring

theorem ofNat_zero : GF.ofNat 0 = 0 := rfl

theorem getD_reverse_toG (l : List Nat) (i : Nat) :
    (toG l).reverse.getD i 0 = GF.ofNat (l.reverse.getD i 0) := by
  unfold toG
  rw [← List.map_reverse, List.getD_eq_getElem?_getD, List.getD_eq_getElem?_getD, List.getElem?_map]
  cases l.reverse[i]? <;> rfl

/-- entry `j` of the decoder's syndrome vector, in the field -/
theorem ofNat_syndrome (l : List Nat) (hl : Bytes l) (j : Nat) :
    GF.ofNat (((List.range l.reverse.length).map fun i =>
        gmul (l.reverse.getD i 0) (alog ((i * (j + 1)) % 255))).foldl gadd 0)
      = evalH (toG l) (α ^ (j + 1)) := by
  rw [ofNat_foldl_xor, ofNat_zero, zero_add, evalH_eq_sumForm]
  unfold sumForm
  rw [List.map_map]
  have hlen : (toG l).length = l.reverse.length := by simp [toG]
  rw [hlen]
  congr 1
  apply List.map_congr_left
  intro i _
  simp only [Function.comp]
  have hb : l.reverse.getD i 0 < 256 := by
    rw [List.getD_eq_getElem?_getD]
    cases h : l.reverse[i]? with
    | none => simp
    | some v => simp; exact hl v (List.mem_reverse.mp (List.mem_of_getElem? h))
  have ha := (alog_pos ((i * (j + 1)) % 255) (Nat.mod_lt _ (by omega))).2
  rw [GF.ofNat_gmul hb ha, getD_reverse_toG, ofNat_alog_mod, ← pow_mul, Nat.mul_comm]

/-- the decoder's syndromes are the specification's syndromes -/
theorem syndromes_eq_spec (l : List Nat) (hl : Bytes l) (k : Nat) (hk : k < 254) :
    RS.syndromes l k = Spec.syndromes l k := by
  unfold RS.syndromes Spec.syndromes
  apply List.map_congr_left
  intro j hj
  have hj' : j < k := List.mem_range.mp hj
  -- both sides are bytes with the same image in the field
  have hx : spow2 (j + 1) < 256 := by
    rw [spow2_eq_alog _ (by omega)]; exact (alog_pos _ (by omega)).2
  have h1 := ofNat_syndrome l hl j
  have h2 := ofNat_evalN l (spow2 (j + 1)) hl hx
  rw [spow2_eq_alog _ (by omega), ofNat_alog _ (by omega)] at h2
  rw [spow2_eq_alog _ (by omega)] at hx
  have e : GF.ofNat (((List.range l.reverse.length).map fun i =>
        gmul (l.reverse.getD i 0) (alog ((i * (j + 1)) % 255))).foldl gadd 0)
      = GF.ofNat (evalN l (alog (j + 1))) := by rw [h1, h2]
  rw [evalS_eq_evalN l _ hl (by rw [spow2_eq_alog _ (by omega)]; exact hx), spow2_eq_alog _ (by omega)]
  -- injectivity of ofNat on bytes
  have b1 : ((List.range l.reverse.length).map fun i =>
        gmul (l.reverse.getD i 0) (alog ((i * (j + 1)) % 255))).foldl gadd 0 < 256 := by
    have : ∀ (L : List Nat) (a : Nat), a < 256 → (∀ x ∈ L, x < 256) → L.foldl gadd a < 256 := by
      intro L
      induction L with
      | nil => intro a ha _; exact ha
      | cons b L ih =>
        intro a ha hL
        exact ih _ (xor_lt_256 ha (hL b (List.mem_cons_self ..))) (fun x hx => hL x (List.mem_cons_of_mem _ hx))
    apply this _ _ (by omega)
    intro x hx
    simp only [List.mem_map, List.mem_range] at hx
    obtain ⟨i, _, rfl⟩ := hx
    have hb : l.reverse.getD i 0 < 256 := by
      rw [List.getD_eq_getElem?_getD]
      cases h : l.reverse[i]? with
      | none => simp
      | some v => simp; exact hl v (List.mem_reverse.mp (List.mem_of_getElem? h))
    exact gmul_lt hb (alog_pos _ (Nat.mod_lt _ (by omega))).2
  have b2 : evalN l (alog (j + 1)) < 256 := evalN_from_lt l _ 0 hl hx (by omega)
  have := congrArg GF.val e
  rw [GF.ofNat_val b1, GF.ofNat_val b2] at this
  exact this

/-- a block that is a codeword passes `decode_gen` unchanged -/
theorem decodeBlock_clean (dB eB : List Nat) (k : Nat) (hb : Bytes (dB ++ eB)) (hk1 : 1 ≤ k) (hk : k < 254)
    (hn : k < dB.length + eB.length) (hcw : isCodeword (dB ++ eB) k = true) :
    decodeBlock dB eB k = .ok (dB, eB) := by
  unfold decodeBlock
  rw [if_neg (by omega), if_neg (by omega)]
  simp only
  have hz : (RS.syndromes (dB ++ eB) k).all (· == 0) = true := by
    rw [syndromes_eq_spec _ hb k hk]
    unfold isCodeword at hcw
    unfold Spec.syndromes
    rw [List.all_map]
    exact hcw
  rw [if_pos hz]

/-- writing a block back where it was read from changes nothing -/
theorem scatter_strided (l : List Nat) (b B : Nat) : scatter l (strided l b B) b B = l := by
  unfold scatter
  have key : ∀ (ps : List (Nat × Nat)) (acc : List Nat),
      (∀ p ∈ ps, acc.getD (b + p.2 * B) 0 = p.1 ∨ acc.length ≤ b + p.2 * B) →
      ps.foldl (fun acc p => acc.set (b + p.2 * B) p.1) acc = acc := by
    intro ps
    induction ps with
    | nil => intro acc _; rfl
    | cons p ps ih =>
      intro acc h
      have hp := h p (List.mem_cons_self ..)
      have hset : acc.set (b + p.2 * B) p.1 = acc := by
        rcases hp with hp | hp
        · by_cases hlt : b + p.2 * B < acc.length
          · apply List.ext_getElem (by simp)
            intro i h1 h2
            by_cases hi : i = b + p.2 * B
            · subst hi
              simp [List.getD_eq_getElem?_getD, List.getElem?_eq_getElem hlt] at hp
              simp [hp]
            · rw [List.getElem_set_ne (Ne.symm hi)]
          · exact List.set_eq_of_length_le (by omega)
        · exact List.set_eq_of_length_le hp
      rw [List.foldl_cons, hset]
      exact ih acc (fun q hq => h q (List.mem_cons_of_mem _ hq))
  apply key
  intro p hp
  obtain ⟨v, k⟩ := p
  have := List.mem_zipIdx hp
  simp only [Nat.zero_add, Nat.sub_zero] at this
  left
  obtain ⟨_, hk, hv⟩ := this
  simp only
  rw [hv]
  unfold strided
  rw [List.getElem_map, List.getElem_range]

end DM.Lemmas
