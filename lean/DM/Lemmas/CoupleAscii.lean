import DM.Lemmas.Couple
import DM.Lemmas.EncRT
/-!
# Planner / encoder coupling: ASCII

The ASCII plan (`asciiStep`) decides once per digit run how many digits are paired (`digitsAhead`,
the even part of the run) and pre-accounts `digitsAhead / 2` codewords; the ASCII encoder
(`asciiLoop`) re-decides at every position with `twoDigitsComing`.  Both are greedy from the same
position, so they pair the same digits: the simulation `ascii_sim` walks the encoder one loop
iteration (one character, or one digit pair = two planner steps) at a time, with the invariant

  `digitsAhead` even, `digitsAhead ≤` digits coming, `cw.length + digitsAhead / 2 = ctx.written`,
  `cost - 12 * cw.length` constant.

`unlatch` succeeds only with `digitsAhead = 0`, so a planned switch is never inside a pair.
-/
namespace DM.Lemmas.CoupleAscii
open DM.Model DM.Model.Plan DM.Model.Enc DM.Lemmas DM.Lemmas.AsciiRT DM.Lemmas.PlanInv DM.Lemmas.Couple

/-! ### planner side -/

theorem twoDigits_iff (body : List Nat) (q : Nat) :
    twoDigitsComing (body.drop q) = true ↔ 2 ≤ digitsFrom body q := by
  unfold digitsFrom
  generalize body.drop q = l
  match l with
  | [] => simp [twoDigitsComing]
  | [a] =>
    simp only [twoDigitsComing, List.takeWhile_cons, List.takeWhile_nil]
    split <;> simp
  | a :: b :: t =>
    simp only [twoDigitsComing, List.takeWhile_cons]
    by_cases ha : isDigit a = true <;> by_cases hb : isDigit b = true <;> simp [ha, hb]

theorem ceil12_mul (n : Nat) : ceil12 (12 * n) = 12 * n := by
  unfold ceil12
  rw [if_pos (by omega)]

/-- one ASCII step that does not report the end of the data -/
theorem asciiStep_elim {body : List Nat} {list : List Sym} {q : Nat} (P P1 : AsciiP) (r : StepResult)
    (hc : CtxAt body list q P.ctx) (hl : P.digitsAhead ≤ digitsFrom body q)
    (hs : asciiStep P = .ok (P1, r)) (he : r.end = false) :
    q < body.length ∧ CtxAt body list (q + 1) P1.ctx ∧ P1.digitsAhead ≤ digitsFrom body (q + 1) ∧
    ((P.digitsAhead = 0 ∧ digitsFrom body q < 2 ∧ P1.digitsAhead = 0 ∧
        P1.ctx.written = P.ctx.written + (if body.getD q 0 ≤ 127 then 1 else 2) ∧
        P1.cost = P.cost + 12 * (if body.getD q 0 ≤ 127 then 1 else 2)) ∨
     (P.digitsAhead = 0 ∧ 2 ≤ digitsFrom body q ∧ P1.digitsAhead = digitsFrom body q / 2 * 2 - 1 ∧
        P1.ctx.written = P.ctx.written + digitsFrom body q / 2 ∧ P1.cost = P.cost + 6) ∨
     (0 < P.digitsAhead ∧ P1.digitsAhead = P.digitsAhead - 1 ∧ P1.ctx.written = P.ctx.written ∧
        P1.cost = P.cost + 6)) := by
  have hlt : q < body.length := by
    obtain ⟨p', r', h1, _, _, h4, _⟩ := asciiStep_spec P hc hl
    rw [hs] at h1
    simp only [Except.ok.injEq, Prod.mk.injEq] at h1
    rw [← h1.2, he] at h4
    simpa using h4.symm
  have hnx : nxt body q = q + 1 := by simp [nxt, hlt]
  have hbase : CtxAt body list (q + 1) P1.ctx ∧ P1.digitsAhead ≤ digitsFrom body (q + 1) := by
    obtain ⟨p', r', h1, h2, h3, _, _⟩ := asciiStep_spec P hc hl
    rw [hs] at h1
    simp only [Except.ok.injEq, Prod.mk.injEq] at h1
    rw [← h1.1, hnx] at h2 h3
    exact ⟨h2, h3⟩
  refine ⟨hlt, hbase.1, hbase.2, ?_⟩
  unfold asciiStep at hs
  by_cases h0 : P.digitsAhead = 0
  · simp only [h0, ↓reduceIte] at hs
    rw [rest_eq hc] at hs
    have hdf : ((body.drop q).takeWhile isDigit).length = digitsFrom body q := rfl
    rw [hdf] at hs
    have hm : (P.ctx.write (digitsFrom body q / 2 * 2 / 2)).hasMore = true := by
      rw [hasMore_iff (ctxAt_write hc _)]; simpa using hlt
    simp only [hm, Bool.not_true, Bool.false_eq_true, ↓reduceIte] at hs
    by_cases ha : digitsFrom body q / 2 * 2 > 0
    · right; left
      rw [if_pos ha] at hs
      have hdig := digitsFrom_pos hlt (by omega : 0 < digitsFrom body q)
      rw [peek_eq (ctxAt_write hc _), hdig.1] at hs
      simp only [Bool.not_true, Bool.false_eq_true, ↓reduceIte, Except.ok.injEq, Prod.mk.injEq] at hs
      obtain ⟨hs1, _⟩ := hs
      subst hs1
      refine ⟨h0, by omega, rfl, ?_, rfl⟩
      simp only [Ctx.eat, Ctx.write]
      omega
    · left
      rw [if_neg ha] at hs
      rw [peek_eq (ctxAt_write hc _)] at hs
      have hz : digitsFrom body q / 2 * 2 = 0 := by omega
      refine ⟨h0, by omega, ?_⟩
      split at hs
      · rename_i hle
        simp only [Except.ok.injEq, Prod.mk.injEq] at hs
        obtain ⟨hs1, _⟩ := hs
        subst hs1
        refine ⟨hz, ?_, ?_⟩
        · simp only [hle, ↓reduceIte, Ctx.eat, Ctx.write]; omega
        · simp only [hle, ↓reduceIte]
      · rename_i hle
        simp only [Except.ok.injEq, Prod.mk.injEq] at hs
        obtain ⟨hs1, _⟩ := hs
        subst hs1
        refine ⟨hz, ?_, ?_⟩
        · simp only [hle, ↓reduceIte, Ctx.eat, Ctx.write]; omega
        · simp only [hle, ↓reduceIte]
  · right; right
    simp only [h0, ↓reduceIte] at hs
    have hm : P.ctx.hasMore = true := by rw [hasMore_iff hc]; simpa using hlt
    simp only [hm, Bool.not_true, Bool.false_eq_true, ↓reduceIte] at hs
    have hp : P.digitsAhead > 0 := by omega
    rw [if_pos hp] at hs
    have hdig := digitsFrom_pos hlt (by omega : 0 < digitsFrom body q)
    rw [peek_eq hc, hdig.1] at hs
    simp only [Bool.not_true, Bool.false_eq_true, ↓reduceIte, Except.ok.injEq, Prod.mk.injEq] at hs
    obtain ⟨hs1, _⟩ := hs
    subst hs1
    exact ⟨hp, rfl, rfl, rfl⟩

theorem gstep_ascii {g g1 : GPlan} {P : AsciiP} {r : StepResult} (hp : g.plan = .ascii P)
    (hs : g.step = .ok (some (g1, r))) :
    ∃ P1, asciiStep P = .ok (P1, r) ∧ g1.plan = .ascii P1 ∧ g1.extra = g.extra := by
  unfold GPlan.step at hs
  rw [hp] at hs
  simp only [] at hs
  split at hs
  · cases hs
  · rename_i P1 r1 hstep
    simp only [Except.ok.injEq, Option.some.injEq, Prod.mk.injEq] at hs
    obtain ⟨h1, h2⟩ := hs
    subst h1 h2
    exact ⟨P1, hstep, rfl, rfl⟩

/-- the planner-side invariant over `k` steps -/
theorem ascii_steps_inv {body : List Nat} {list : List Sym} : ∀ (k : Nat) (g gk : GPlan) (P : AsciiP) (q : Nat),
    g.plan = .ascii P → CtxAt body list q P.ctx → P.digitsAhead ≤ digitsFrom body q → q ≤ body.length →
    StepsTo k g gk →
    ∃ Pk, gk.plan = .ascii Pk ∧ CtxAt body list (q + k) Pk.ctx ∧ Pk.digitsAhead ≤ digitsFrom body (q + k) ∧
      gk.extra = g.extra ∧ q + k ≤ body.length := by
  intro k
  induction k with
  | zero =>
    intro g gk P q hp hc hl hq hst
    have : g = gk := hst
    subst this
    exact ⟨P, hp, hc, hl, rfl, hq⟩
  | succ k ih =>
    intro g gk P q hp hc hl hq hst
    obtain ⟨g1, r, hs, he, hrest⟩ := hst
    obtain ⟨P1, hs1, hp1, hx1⟩ := gstep_ascii hp hs
    obtain ⟨hlt, hc1, hl1, _⟩ := asciiStep_elim P P1 r hc hl hs1 he
    obtain ⟨Pk, a1, a2, a3, a4, a5⟩ := ih g1 gk P1 (q + 1) hp1 hc1 hl1 (by omega) hrest
    have e : q + 1 + k = q + (k + 1) := by omega
    rw [e] at a2 a3 a5
    exact ⟨Pk, a1, a2, a3, a4.trans hx1, a5⟩

/-! ### encoder side -/

theorem maybeSwitch_stay (s : St) (at_ : Nat) (m : EMode) (rest : List (Nat × EMode))
    (hp : s.plan = (at_, m) :: rest) (h : at_ < s.charsLeft) : s.maybeSwitch = .ok (false, s) := by
  unfold St.maybeSwitch
  rw [hp]
  simp only []
  rw [if_neg (by omega)]
  have : ¬ (s.charsLeft > 0 ∧ s.charsLeft = at_) := by omega
  simp only [this, ↓reduceIte, ne_eq, not_true_eq_false]
  cases s
  simp only [] at hp
  subst hp
  rfl

/-- the planned switch fires -/
theorem maybeSwitch_fire (s : St) (m : EMode) (rest : List (Nat × EMode))
    (hp : s.plan = (s.charsLeft, m) :: rest) (h : 0 < s.charsLeft) (hm : m ≠ s.mode) (hn : s.newMode = none) :
    s.maybeSwitch = .ok (true, { s with mode := m, plan := rest, newMode := m.latch }) := by
  unfold St.maybeSwitch
  rw [hp]
  simp only []
  rw [if_neg (by omega)]
  have : (s.charsLeft > 0 ∧ s.charsLeft = s.charsLeft) := ⟨h, rfl⟩
  simp only [this, and_self, ↓reduceIte, ne_eq, hm, not_false_eq_true]
  rw [hn]
  cases m <;> rfl

/-- the segment's own entry is popped without a mode change -/
theorem maybeSwitch_pop (s : St) (rest : List (Nat × EMode))
    (hp : s.plan = (s.charsLeft, s.mode) :: rest) (h : 0 < s.charsLeft) :
    s.maybeSwitch = .ok (false, { s with plan := rest }) := by
  unfold St.maybeSwitch
  rw [hp]
  simp only []
  rw [if_neg (by omega)]
  have : (s.charsLeft > 0 ∧ s.charsLeft = s.charsLeft) := ⟨h, rfl⟩
  simp only [this, and_self, ↓reduceIte, ne_eq, not_true_eq_false]

theorem eat_some (s : St) (h : s.pos < s.input.length) :
    s.eat = some (s.input.getD s.pos 0, { s with pos := s.pos + 1 }) := by
  simp [St.eat, List.getElem?_eq_getElem h, List.getD]

/-- one iteration of the ASCII loop that encodes a digit pair -/
theorem asciiLoop_pair (s : St) (hm : s.maybeSwitch = .ok (false, s))
    (h2 : 2 ≤ digitsFrom s.input s.pos) :
    ∃ c, ∀ f, asciiLoop (f + 1) s = asciiLoop f ({ s with pos := s.pos + 2 }.push c) := by
  have htd : twoDigitsComing s.rest = true := (twoDigits_iff s.input s.pos).mpr h2
  match hr : s.rest, htd with
  | a :: b :: t, _ =>
    refine ⟨(a - 48) * 10 + (b - 48) + 130, fun f => ?_⟩
    rw [asciiLoop, hm]
    simp only []
    rw [if_pos htd]
    simp only [hr]
  | [], htd => simp [twoDigitsComing] at htd
  | [_], htd => simp [twoDigitsComing] at htd

/-- one iteration of the ASCII loop that encodes a single character -/
theorem asciiLoop_single (s : St) (hm : s.maybeSwitch = .ok (false, s))
    (h2 : digitsFrom s.input s.pos < 2) (hlt : s.pos < s.input.length) :
    ∃ X : List Nat, (∀ f, asciiLoop (f + 1) s = asciiLoop f { s with pos := s.pos + 1, cw := s.cw ++ X }) ∧
      X.length = (if s.input.getD s.pos 0 ≤ 127 then 1 else 2) := by
  have htd : ¬ twoDigitsComing s.rest = true := fun h => by
    have := (twoDigits_iff s.input s.pos).mp h
    omega
  by_cases hle : s.input.getD s.pos 0 ≤ 127
  · refine ⟨[s.input.getD s.pos 0 + 1], fun f => ?_, by rw [if_pos hle]; rfl⟩
    rw [asciiLoop, hm]
    simp only []
    rw [if_neg htd, eat_some s hlt]
    simp only [hle, ↓reduceIte, St.push]
  · refine ⟨[235, s.input.getD s.pos 0 - 128 + 1], fun f => ?_, by rw [if_neg hle]; rfl⟩
    rw [asciiLoop, hm]
    simp only []
    rw [if_neg htd, eat_some s hlt]
    simp only [hle, ↓reduceIte, St.push, List.append_assoc, List.singleton_append]

/-! ### the simulation -/

/-- The encoder's ASCII loop follows the plan: `k` planner steps that end with `digitsAhead = 0`
are `j ≤ k` loop iterations. -/
theorem ascii_sim (body : List Nat) (list : List Sym) (at_ : Nat) (m' : EMode) (rest : List (Nat × EMode)) :
    ∀ (n k : Nat), k ≤ n → ∀ (g gk : GPlan) (P Pk : AsciiP) (s : St) (q : Nat),
      g.plan = .ascii P → CtxAt body list q P.ctx → P.digitsAhead % 2 = 0 → P.digitsAhead ≤ digitsFrom body q →
      StepsTo k g gk → gk.plan = .ascii Pk → Pk.digitsAhead = 0 →
      s.input = body → s.pos = q → s.plan = (at_, m') :: rest → at_ + q + k = body.length →
      s.cw.length + P.digitsAhead / 2 = P.ctx.written →
      ∃ (sk : St) (j : Nat), j ≤ k ∧ (∀ f, asciiLoop (f + j) s = asciiLoop f sk) ∧
        sk.input = body ∧ sk.list = s.list ∧ sk.pos = q + k ∧ sk.mode = s.mode ∧ sk.plan = s.plan ∧
        sk.newMode = s.newMode ∧ sk.cw.length = Pk.ctx.written ∧
        Pk.cost + 12 * s.cw.length = P.cost + 12 * sk.cw.length := by
  intro n
  induction n with
  | zero =>
    intro k hk g gk P Pk s q hp hc hev hl hst hpk hdk hin hpos hplan hat hcw
    have hk0 : k = 0 := by omega
    subst hk0
    have : g = gk := hst
    subst this
    rw [hp] at hpk
    cases hpk
    exact ⟨s, 0, Nat.le_refl _, fun f => rfl, hin, rfl, by omega, rfl, rfl, rfl, by omega, rfl⟩
  | succ n ih =>
    intro k hk g gk P Pk s q hp hc hev hl hst hpk hdk hin hpos hplan hat hcw
    cases k with
    | zero =>
      have : g = gk := hst
      subst this
      rw [hp] at hpk
      cases hpk
      exact ⟨s, 0, Nat.le_refl _, fun f => rfl, hin, rfl, by omega, rfl, rfl, rfl, by omega, rfl⟩
    | succ k' =>
      obtain ⟨g1, r, hs, he, hrest⟩ := hst
      obtain ⟨P1, hs1, hp1, _⟩ := gstep_ascii hp hs
      obtain ⟨hlt, hc1, hl1, hcase⟩ := asciiStep_elim P P1 r hc hl hs1 he
      have hstay : s.maybeSwitch = .ok (false, s) :=
        maybeSwitch_stay s at_ m' rest hplan (by simp only [St.charsLeft, hin, hpos]; omega)
      -- a digit pair: two planner steps, one loop iteration
      have pair : 2 ≤ digitsFrom body q → 1 ≤ P1.digitsAhead → (P1.digitsAhead - 1) % 2 = 0 →
          s.cw.length + 1 + (P1.digitsAhead - 1) / 2 = P1.ctx.written → P1.cost = P.cost + 6 →
          ∃ (sk : St) (j : Nat), j ≤ k' + 1 ∧ (∀ f, asciiLoop (f + j) s = asciiLoop f sk) ∧
            sk.input = body ∧ sk.list = s.list ∧ sk.pos = q + (k' + 1) ∧ sk.mode = s.mode ∧ sk.plan = s.plan ∧
            sk.newMode = s.newMode ∧ sk.cw.length = Pk.ctx.written ∧
            Pk.cost + 12 * s.cw.length = P.cost + 12 * sk.cw.length := by
        intro h2 hd1 hev1 hcw1 hcost1
        cases k' with
        | zero =>
          have : g1 = gk := hrest
          subst this
          rw [hp1] at hpk
          cases hpk
          omega
        | succ k'' =>
          obtain ⟨g2, r2, hs', he', hrest'⟩ := hrest
          obtain ⟨P2, hs2, hp2, _⟩ := gstep_ascii hp1 hs'
          obtain ⟨hlt2, hc2, hl2, hcase2⟩ := asciiStep_elim P1 P2 r2 hc1 hl1 hs2 he'
          have h3 : P2.digitsAhead = P1.digitsAhead - 1 ∧ P2.ctx.written = P1.ctx.written ∧
              P2.cost = P1.cost + 6 := by
            rcases hcase2 with ⟨h, _⟩ | ⟨h, _⟩ | ⟨_, h⟩
            · omega
            · omega
            · exact h
          obtain ⟨c, hloop⟩ := asciiLoop_pair s hstay (by rw [hin, hpos]; exact h2)
          have e2 : q + 1 + 1 = q + 2 := rfl
          rw [e2] at hc2 hl2
          obtain ⟨sk, j, a1, a2, a3, a4, a5, a6, a7, a8, a9, a10⟩ :=
            ih k'' (by omega) g2 gk P2 Pk ({ s with pos := s.pos + 2 }.push c) (q + 2) hp2 hc2
              (by rw [h3.1]; exact hev1) hl2 hrest' hpk hdk hin (by simp only [St.push, hpos]) hplan (by omega)
              (by simp only [St.push, List.length_append, List.length_singleton]; omega)
          refine ⟨sk, j + 1, by omega, fun f => ?_, a3, a4, by omega, a6, a7, a8, a9, ?_⟩
          · rw [← a2 f]; exact hloop (f + j)
          · simp only [St.push, List.length_append, List.length_singleton] at a10
            omega
      rcases hcase with ⟨h0, hD, hd1, hw1, hcost1⟩ | ⟨h0, hD, hd1, hw1, hcost1⟩ | ⟨h0, hd1, hw1, hcost1⟩
      · -- a single character
        obtain ⟨X, hloop, hX⟩ := asciiLoop_single s hstay (by rw [hin, hpos]; exact hD) (by rw [hin, hpos]; exact hlt)
        rw [hin, hpos] at hX
        obtain ⟨sk, j, a1, a2, a3, a4, a5, a6, a7, a8, a9, a10⟩ :=
          ih k' (by omega) g1 gk P1 Pk { s with pos := s.pos + 1, cw := s.cw ++ X } (q + 1) hp1 hc1
            (by omega) hl1 hrest hpk hdk hin (by simp only [hpos]) hplan (by omega)
            (by simp only [List.length_append]; omega)
        refine ⟨sk, j + 1, by omega, fun f => ?_, a3, a4, by omega, a6, a7, a8, a9, ?_⟩
        · rw [← a2 f]; exact hloop (f + j)
        · simp only [List.length_append] at a10
          omega
      · exact pair hD (by omega) (by omega) (by omega) hcost1
      · exact pair (by omega) (by omega) (by omega) (by omega) hcost1

/-! ### the statements of `Couple.lean`, strengthened by the facts the composition asks for -/

/-- `EndSeg` with the additional conclusion `w ≤ s'.cw.length` in the ok branch -/
def EndSegW (m : EMode) : Prop :=
  ∀ (body : List Nat) (list : List Sym) (p w k : Nat) (g0 gk gE : GPlan) (r : StepResult) (s : St),
    ByteList body → p + k = body.length → (1 ≤ k ∨ m = .ascii) →
    g0.plan = newPlan m (ctxAt body list p w) →
    StepsTo k g0 gk → gk.step = .ok (some (gE, r)) → r.end = true →
    EncAt body list s p w m [(0, m)] →
    g0.extra ≤ gE.cost ∧
    ((∃ s', encodeMode s = .ok s' ∧ s'.input = body ∧ s'.list = list ∧ s'.pos ≤ body.length ∧ s'.newMode = none ∧
        (s'.hasMore = true → s'.mode = .ascii ∧ s'.plan = [(0, .ascii)]) ∧
        12 * (s'.cw.length + asciiSize s'.rest) ≤ 12 * w + ceil12 (gE.cost - g0.extra) ∧ w ≤ s'.cw.length) ∨
     (encodeMode s = .error .tooMuch ∧ firstBigEnough list (w + ceil12 (gE.cost - g0.extra) / 12) = none))

theorem endSeg_of_W {m : EMode} (h : EndSegW m) : EndSeg m := by
  intro body list p w k g0 gk gE r s hb hk hm hg0 hst hstep hend henc
  obtain ⟨h1, h2⟩ := h body list p w k g0 gk gE r s hb hk hm hg0 hst hstep hend henc
  refine ⟨h1, ?_⟩
  rcases h2 with ⟨s', a1, a2, a3, a4, a5, a6, a7, _⟩ | h2
  · exact Or.inl ⟨s', a1, a2, a3, a4, a5, a6, a7⟩
  · exact Or.inr h2

/-- the run of the ASCII encoder along a fresh ASCII plan -/
theorem ascii_run {body : List Nat} {list : List Sym} {p w k : Nat} {g0 gk : GPlan} {Pk : AsciiP}
    (at_ : Nat) (m' : EMode) (rest : List (Nat × EMode)) (s : St)
    (hg0 : g0.plan = newPlan .ascii (ctxAt body list p w)) (hst : StepsTo k g0 gk)
    (hpk : gk.plan = .ascii Pk) (hdk : Pk.digitsAhead = 0)
    (hin : s.input = body) (hpos : s.pos = p) (hcw : s.cw.length = w)
    (hplan : s.plan = (at_, m') :: rest) (hat : at_ + p + k = body.length) :
    ∃ (sk : St) (j : Nat), j ≤ k ∧ (∀ f, asciiLoop (f + j) s = asciiLoop f sk) ∧
      sk.input = body ∧ sk.list = s.list ∧ sk.pos = p + k ∧ sk.mode = s.mode ∧ sk.plan = s.plan ∧
      sk.newMode = s.newMode ∧ sk.cw.length = Pk.ctx.written ∧ Pk.cost + 12 * w = 12 * Pk.ctx.written := by
  have hc0 : CtxAt body list p (ctxAt body list p w) := ⟨rfl, rfl, rfl⟩
  obtain ⟨sk, j, a1, a2, a3, a4, a5, a6, a7, a8, a9, a10⟩ :=
    ascii_sim body list at_ m' rest k k (Nat.le_refl _) g0 gk
      { ctx := ctxAt body list p w, digitsAhead := 0, cost := 0 } Pk s p hg0 hc0 rfl (Nat.zero_le _) hst hpk hdk hin hpos
      hplan hat (by simp only [ctxAt]; omega)
  refine ⟨sk, j, a1, a2, a3, a4, a5, a6, a7, a8, a9, ?_⟩
  simp only [] at a10
  omega

theorem encodeMode_ascii (s : St) (hm : s.mode = .ascii) : encodeMode s = asciiLoop (s.charsLeft + 2) s := by
  unfold encodeMode
  rw [hm]

theorem switchSeg_ascii : SwitchSeg .ascii := by
  intro body list p w k g0 gk ac ctx' m' rest s _ hk _ hg0 hst _ hsc hunl hm' henc
  obtain ⟨hin, hlist, hpos, hcw, hmode, hplan, hnm⟩ := henc
  have hc0 : CtxAt body list p (ctxAt body list p w) := ⟨rfl, rfl, rfl⟩
  obtain ⟨Pk, hpk, hck, _, hex, _⟩ := ascii_steps_inv k g0 gk
    { ctx := ctxAt body list p w, digitsAhead := 0, cost := 0 } p hg0 hc0 (Nat.zero_le _) (by omega) hst
  -- `unlatch` succeeded: no digits pending
  have hun : Pk.digitsAhead = 0 ∧ ctx' = Pk.ctx := by
    unfold GPlan.unlatch at hunl
    rw [hpk] at hunl
    simp only [] at hunl
    split at hunl
    · cases hunl
    · rename_i h0
      simp only [Except.ok.injEq] at hunl
      exact ⟨by omega, hunl.symm⟩
  obtain ⟨hdk, hctx⟩ := hun
  have hac : ac = ceil12 Pk.cost + gk.extra := by
    unfold GPlan.switchCost at hsc
    rw [hpk] at hsc
    simp only [Option.some.injEq] at hsc
    exact hsc.symm
  obtain ⟨sk, j, a1, a2, a3, a4, a5, a6, a7, a8, a9, a10⟩ :=
    ascii_run (body.length - (p + k)) m' rest s hg0 hst hpk hdk hin hpos hcw hplan (by omega)
  have hcost : Pk.cost = 12 * (Pk.ctx.written - w) := by omega
  refine ⟨?_, ?_, Or.inl ?_⟩
  · rw [hac, hcost, ceil12_mul, hex, hctx]; omega
  · rw [hctx]; omega
  · have hcl : sk.charsLeft = body.length - (p + k) := by simp only [St.charsLeft, a3, a5]
    have hfire := maybeSwitch_fire sk m' rest (by rw [a7, hplan, hcl]) (by rw [hcl]; omega)
      (by rw [a6, hmode]; exact hm') (by rw [a8, hnm])
    have hfuel : s.charsLeft + 2 = (s.charsLeft + 2 - j - 1) + 1 + j := by
      simp only [St.charsLeft, hin, hpos]; omega
    refine ⟨{ sk with mode := m', plan := rest, newMode := m'.latch }, ?_, a3, by rw [a4, hlist], a5,
      by rw [a9, hctx], rfl, rfl, rfl⟩
    rw [encodeMode_ascii s hmode, hfuel, a2, asciiLoop, hfire]

theorem endSegW_ascii : EndSegW .ascii := by
  intro body list p w k g0 gk gE r s _ hk _ hg0 hst hstep _ henc
  obtain ⟨hin, hlist, hpos, hcw, hmode, hplan, hnm⟩ := henc
  have hc0 : CtxAt body list p (ctxAt body list p w) := ⟨rfl, rfl, rfl⟩
  obtain ⟨Pk, hpk, hck, hlk, hex, _⟩ := ascii_steps_inv k g0 gk
    { ctx := ctxAt body list p w, digitsAhead := 0, cost := 0 } p hg0 hc0 (Nat.zero_le _) (by omega) hst
  have hdk : Pk.digitsAhead = 0 := by
    have : digitsFrom body (p + k) = 0 := by
      unfold digitsFrom
      rw [List.drop_eq_nil_of_le (by omega)]
      rfl
    omega
  -- the step that reports the end does not change the cost
  obtain ⟨PE, hsE, hpE, hexE⟩ := gstep_ascii hpk hstep
  have hcostE : PE.cost = Pk.cost := by
    unfold asciiStep at hsE
    simp only [hdk, ↓reduceIte] at hsE
    have hm : (Pk.ctx.write ((Pk.ctx.rest.takeWhile isDigit).length / 2 * 2 / 2)).hasMore = false := by
      rw [hasMore_iff (ctxAt_write hck _)]
      simp only [decide_eq_false_iff_not]
      omega
    simp only [hm, Bool.not_false, ↓reduceIte, Except.ok.injEq, Prod.mk.injEq] at hsE
    rw [← hsE.1]
  have hgE : gE.cost = g0.extra + Pk.cost := by
    unfold GPlan.cost
    rw [hpE]
    simp only []
    rw [hexE, hex, hcostE]
  obtain ⟨sk, j, a1, a2, a3, a4, a5, a6, a7, a8, a9, a10⟩ :=
    ascii_run 0 .ascii [] s hg0 hst hpk hdk hin hpos hcw hplan (by omega)
  have hcost : Pk.cost = 12 * (Pk.ctx.written - w) := by omega
  refine ⟨by omega, Or.inl ?_⟩
  have hfuel : s.charsLeft + 2 = (s.charsLeft + 2 - j - 1) + 1 + j := by
    simp only [St.charsLeft, hin, hpos]; omega
  have hspec := asciiLoop_spec 0 (s.charsLeft + 2 - j - 1 + 1) sk (by rw [a7, hplan]) (by rw [a6, hmode])
    (by rw [a3, a5]; omega) (by rw [a3, a5]; omega) (by omega)
  have hrest : sk.rest = [] := by
    unfold St.rest
    rw [a3, a5]
    exact List.drop_eq_nil_of_le (by omega)
  rw [hrest] at hspec
  refine ⟨{ sk with pos := sk.input.length, cw := sk.cw ++ asciiEnc [] }, ?_, a3, by rw [a4, hlist],
    by simp only [a3]; omega, by rw [a8, hnm], ?_, ?_, ?_⟩
  · rw [encodeMode_ascii s hmode, hfuel, a2, hspec]
  · intro hmore
    simp [St.hasMore] at hmore
  · have hr : ({ sk with pos := sk.input.length, cw := sk.cw ++ asciiEnc [] } : St).rest = [] := by
      simp [St.rest]
    rw [hr, hgE]
    simp only [asciiEnc, List.append_nil, asciiSize]
    rw [Nat.add_sub_cancel_left, hcost, ceil12_mul, a9]
    omega
  · simp only [asciiEnc, List.append_nil]
    omega

theorem endSeg_ascii : EndSeg .ascii := endSeg_of_W endSegW_ascii

/-! ### the very first segment: the plan still starts with the segment's own entry -/

/-- `maybe_switch_mode` pops the segment's own entry `(chars_left, ASCII)` without changing the mode -/
theorem encodeMode_pop_own (s : St) (hm : s.mode = .ascii) (at2 : Nat) (m2 : EMode) (rest : List (Nat × EMode))
    (hp : s.plan = (s.charsLeft, .ascii) :: (at2, m2) :: rest) (h : at2 < s.charsLeft) :
    encodeMode s = encodeMode { s with plan := (at2, m2) :: rest } := by
  rw [encodeMode_ascii s hm, encodeMode_ascii { s with plan := (at2, m2) :: rest } hm]
  have h1 : s.maybeSwitch = .ok (false, { s with plan := (at2, m2) :: rest }) :=
    maybeSwitch_pop s _ (by rw [hp, hm]) (by omega)
  have h2 : ({ s with plan := (at2, m2) :: rest } : St).maybeSwitch = .ok (false, { s with plan := (at2, m2) :: rest }) :=
    maybeSwitch_stay _ at2 m2 rest rfl h
  have hcl : ({ s with plan := (at2, m2) :: rest } : St).charsLeft = s.charsLeft := rfl
  rw [hcl]
  have e : s.charsLeft + 2 = (s.charsLeft + 1) + 1 := rfl
  rw [e]
  conv => lhs; rw [asciiLoop, h1]
  conv => rhs; rw [asciiLoop, h2]

/-- Why `switchSeg_ascii_first` asks for `1 ≤ k`: with the segment's own entry still at the head and the
next switch at the same position (`k = 0`), `maybe_switch_mode` pops only the own entry, a character is
encoded in ASCII and the next call finds the switch position passed.  (The optimiser never produces
this shape: a start plan that switches away at once replaces the whole switch list, `as_start`.) -/
example : encodeMode { input := [48], pos := 0, mode := .ascii, plan := [(1, .ascii), (1, .c40), (0, .c40)],
                       newMode := none, cw := [], list := [0] } =
    .error (.panic "expected to call maybe_switch_mode earlier") := by rfl

/-- `SwitchSeg .ascii` for the first segment (`k ≥ 1`): the encoder's plan starts with the segment's own entry -/
theorem switchSeg_ascii_first :
    ∀ (body : List Nat) (list : List Sym) (p w k : Nat) (g0 gk : GPlan) (ac : Nat) (ctx' : Ctx) (m' : EMode)
      (rest : List (Nat × EMode)) (s : St),
      ByteList body → p + k < body.length → 1 ≤ k →
      g0.plan = newPlan .ascii (ctxAt body list p w) →
      StepsTo k g0 gk → SwitchPoint gk → gk.switchCost = some ac → gk.unlatch = .ok ctx' → m' ≠ .ascii →
      EncAt body list s p w .ascii ((body.length - p, .ascii) :: (body.length - (p + k), m') :: rest) →
      ac = g0.extra + 12 * (ctx'.written - w) ∧ w ≤ ctx'.written ∧
      ((∃ s', encodeMode s = .ok s' ∧ s'.input = body ∧ s'.list = list ∧ s'.pos = p + k ∧
          s'.cw.length = ctx'.written ∧ s'.mode = m' ∧ s'.plan = rest ∧ s'.newMode = m'.latch) ∨
       (encodeMode s = .error .tooMuch ∧ firstBigEnough list ctx'.written = none)) := by
  intro body list p w k g0 gk ac ctx' m' rest s hb hk hk1 hg0 hst hsp hsc hunl hm' henc
  obtain ⟨hin, hlist, hpos, hcw, hmode, hplan, hnm⟩ := henc
  have hcl : s.charsLeft = body.length - p := by simp only [St.charsLeft, hin, hpos]
  rw [encodeMode_pop_own s hmode (body.length - (p + k)) m' rest (by rw [hplan, hcl]) (by rw [hcl]; omega)]
  exact switchSeg_ascii body list p w k g0 gk ac ctx' m' rest _ hb hk (Or.inr rfl) hg0 hst hsp hsc hunl hm'
    ⟨hin, hlist, hpos, hcw, hmode, rfl, hnm⟩

/-- `EndSeg .ascii` (with `w ≤ s'.cw.length`) for the first segment (`k ≥ 1`) -/
theorem endSeg_ascii_first :
    ∀ (body : List Nat) (list : List Sym) (p w k : Nat) (g0 gk gE : GPlan) (r : StepResult) (s : St),
      ByteList body → p + k = body.length → 1 ≤ k →
      g0.plan = newPlan .ascii (ctxAt body list p w) →
      StepsTo k g0 gk → gk.step = .ok (some (gE, r)) → r.end = true →
      EncAt body list s p w .ascii [(body.length - p, .ascii), (0, .ascii)] →
      g0.extra ≤ gE.cost ∧
      ((∃ s', encodeMode s = .ok s' ∧ s'.input = body ∧ s'.list = list ∧ s'.pos ≤ body.length ∧ s'.newMode = none ∧
          (s'.hasMore = true → s'.mode = .ascii ∧ s'.plan = [(0, .ascii)]) ∧
          12 * (s'.cw.length + asciiSize s'.rest) ≤ 12 * w + ceil12 (gE.cost - g0.extra) ∧ w ≤ s'.cw.length) ∨
       (encodeMode s = .error .tooMuch ∧ firstBigEnough list (w + ceil12 (gE.cost - g0.extra) / 12) = none)) := by
  intro body list p w k g0 gk gE r s hb hk hk1 hg0 hst hstep hend henc
  obtain ⟨hin, hlist, hpos, hcw, hmode, hplan, hnm⟩ := henc
  have hcl : s.charsLeft = body.length - p := by simp only [St.charsLeft, hin, hpos]
  rw [encodeMode_pop_own s hmode 0 .ascii [] (by rw [hplan, hcl]) (by rw [hcl]; omega)]
  exact endSegW_ascii body list p w k g0 gk gE r _ hb hk (Or.inr rfl) hg0 hst hstep hend
    ⟨hin, hlist, hpos, hcw, hmode, rfl, hnm⟩

/-! ### ASCII tails (`set_ascii_until_end`) -/

theorem ascii_tail (s : St) (hm : s.mode = .ascii) (hp : s.plan = [(0, .ascii)]) (hpos : s.pos ≤ s.input.length) :
    ∃ s', encodeMode s = .ok s' ∧ s'.input = s.input ∧ s'.list = s.list ∧ s'.pos = s.input.length ∧
      s'.hasMore = false ∧ s'.cw.length = s.cw.length + asciiSize s.rest ∧ (∃ X, s'.cw = s.cw ++ X) ∧
      s'.mode = .ascii ∧ s'.plan = [(0, .ascii)] ∧ s'.newMode = s.newMode := by
  refine ⟨{ s with pos := s.input.length, cw := s.cw ++ asciiEnc s.rest }, ?_, rfl, rfl, rfl, by simp [St.hasMore],
    ?_, ⟨_, rfl⟩, hm, hp, rfl⟩
  · rw [encodeMode_ascii s hm]
    exact asciiLoop_spec (s.input.length - s.pos) (s.charsLeft + 2) s hp hm hpos (Nat.le_refl _)
      (by simp only [St.charsLeft]; omega)
  · simp only [List.length_append]
    rw [DM.Lemmas.EncRT.asciiEnc_length _ _ (Nat.le_refl _)]

end DM.Lemmas.CoupleAscii
