import DM.Model.Path
import DM.Spec.Fill
/-
Vocabulary for the proof of `path_model_ok` (C17): the list of micro steps that `tours` builds,
seen as a sequence of closed walks on the unit grid, and the unit edges it draws.

A node is `(i, j)` = (row, column) = `(y, x)`.  An edge is `(vertical?, i, j)`:
`(true, i, j)` is the left edge of cell `(i, j)`, i.e. the unit segment `{x = j} × [i, i+1]`,
`(false, i, j)` its top edge `[j, j+1] × {y = i}`.
-/
namespace DM.Model.Path

def Micro.node : Micro → Int × Int
  | .jump n => n
  | .step n => n

def Micro.isStep : Micro → Bool
  | .jump _ => false
  | .step _ => true

end DM.Model.Path

namespace DM.Lemmas.PathP
open DM.Model.Path

abbrev Node := Int × Int
abbrev Edge := Bool × Int × Int

/-- the unit edge between two adjacent nodes -/
def edgeOf (a b : Node) : Edge :=
  if a.1 = b.1 then (false, a.1, min a.2 b.2) else (true, min a.1 b.1, a.2)

/-- grid neighbours -/
def adj (a b : Node) : Prop :=
  (a.1 = b.1 ∧ (b.2 = a.2 + 1 ∨ b.2 = a.2 - 1)) ∨ (a.2 = b.2 ∧ (b.1 = a.1 + 1 ∨ b.1 = a.1 - 1))

/-- the node reached after the micro steps `l`, starting at `c` -/
def lastNode (c : Node) (l : List Micro) : Node := l.foldl (fun _ m => m.node) c

/-- the start of the current sub-path after `l`, when it was `s` before -/
def tstart (s : Node) (l : List Micro) : Node :=
  l.foldl (fun s m => match m with | .jump n => n | .step _ => s) s

/-- the unit edges drawn by the steps of `l`, starting at `c` -/
def medges : Node → List Micro → List Edge
  | _, [] => []
  | c, .step n :: r => edgeOf c n :: medges n r
  | _, .jump n :: r => medges n r

/-- every step goes to a grid neighbour -/
def chainOK : Node → List Micro → Prop
  | _, [] => True
  | c, .step n :: r => adj c n ∧ chainOK n r
  | _, .jump n :: r => chainOK n r

/-- every jump happens at the start node of the current sub-path (`s`; `c` is the current node) -/
def jumpsOK : Node → Node → List Micro → Prop
  | _, _, [] => True
  | s, _, .step n :: r => jumpsOK s n r
  | s, c, .jump n :: r => c = s ∧ jumpsOK n n r

def inBoxN (w h : Nat) (n : Node) : Prop := 0 ≤ n.1 ∧ n.1 ≤ h ∧ 0 ≤ n.2 ∧ n.2 ≤ w

def toFillSeg : Seg → DM.Spec.Fill.Seg
  | .m dx dy => .m dx dy
  | .h d => .h d
  | .v d => .v d
  | .z => .z

/-! ### append lemmas -/

theorem lastNode_append (c : Node) (a b : List Micro) :
    lastNode c (a ++ b) = lastNode (lastNode c a) b := by
  simp [lastNode, List.foldl_append]

theorem tstart_append (s : Node) (a b : List Micro) :
    tstart s (a ++ b) = tstart (tstart s a) b := by
  simp [tstart, List.foldl_append]

@[simp] theorem lastNode_nil (c : Node) : lastNode c [] = c := rfl
@[simp] theorem lastNode_cons (c : Node) (m : Micro) (r : List Micro) :
    lastNode c (m :: r) = lastNode m.node r := rfl
@[simp] theorem tstart_nil (c : Node) : tstart c [] = c := rfl
@[simp] theorem tstart_step (s n : Node) (r : List Micro) : tstart s (.step n :: r) = tstart s r := rfl
@[simp] theorem tstart_jump (s n : Node) (r : List Micro) : tstart s (.jump n :: r) = tstart n r := rfl

theorem medges_append (c : Node) (a b : List Micro) :
    medges c (a ++ b) = medges c a ++ medges (lastNode c a) b := by
  induction a generalizing c with
  | nil => rfl
  | cons m r ih =>
    cases m with
    | jump n => simpa [medges, Micro.node] using ih n
    | step n => simpa [medges, Micro.node] using ih n

theorem chainOK_append (c : Node) (a b : List Micro) :
    chainOK c (a ++ b) ↔ chainOK c a ∧ chainOK (lastNode c a) b := by
  induction a generalizing c with
  | nil => simp [chainOK]
  | cons m r ih =>
    cases m with
    | jump n => simpa [chainOK, Micro.node] using ih n
    | step n => simp [chainOK, Micro.node, ih n, and_assoc]

theorem jumpsOK_append (s c : Node) (a b : List Micro) :
    jumpsOK s c (a ++ b) ↔ jumpsOK s c a ∧ jumpsOK (tstart s a) (lastNode c a) b := by
  induction a generalizing s c with
  | nil => simp [jumpsOK]
  | cons m r ih =>
    cases m with
    | jump n => simp [jumpsOK, Micro.node, ih n n, and_assoc]
    | step n => simpa [jumpsOK, Micro.node] using ih s n

/-- a list of steps only -/
def allSteps (l : List Micro) : Prop := ∀ m ∈ l, m.isStep = true

theorem tstart_allSteps (s : Node) (l : List Micro) (h : allSteps l) : tstart s l = s := by
  induction l with
  | nil => rfl
  | cons m r ih =>
    cases m with
    | jump n => have := h (.jump n) (by simp); simp [Micro.isStep] at this
    | step n => simpa using ih (fun m hm => h m (by simp [hm]))

theorem jumpsOK_allSteps (s c : Node) (l : List Micro) (h : allSteps l) : jumpsOK s c l := by
  induction l generalizing c with
  | nil => trivial
  | cons m r ih =>
    cases m with
    | jump n => have := h (.jump n) (by simp); simp [Micro.isStep] at this
    | step n => simpa [jumpsOK] using ih n (fun m hm => h m (by simp [hm]))

end DM.Lemmas.PathP
