import DM.Lemmas.CompleteX12
/-
Decoder completeness, C40 and Text runs (shift sets, upper shift, whole triples).
-/
namespace DM.Lemmas.Complete
open DM.Model.Dec DM.Gen DM.Lemmas DM.Lemmas.DecRun DM.Spec.Build

def tabs (text : Bool) : List Nat × List Nat := if text then (baseText, shift3Text) else (baseC40, shift3C40)

/-- per byte: the decoder's value automaton turns the builder's values for `b` back into `b` and
returns to the initial state; every value is below 40 -/
def c40ByteOK (text : Bool) (b : Nat) : Bool :=
  (match c40Values (tabs text).1 (tabs text).2 (c40Vals text b) { shift := 0, upper := false } [] with
   | .ok (st, o) => st.shift == 0 && !st.upper && o == [b]
   | .error _ => false) && (c40Vals text b).all (· < 40)

theorem c40_bytes_ok : (List.range 256).all (fun b => c40ByteOK false b && c40ByteOK true b) = true := by
  decide +kernel

theorem c40Values_append (base sh3 : List Nat) : ∀ (v1 v2 : List Nat) (st : CSt) (out : List Nat),
    c40Values base sh3 (v1 ++ v2) st out =
      match c40Values base sh3 v1 st out with
      | .error e => .error e
      | .ok (st', o') => c40Values base sh3 v2 st' o' := by
  intro v1
  induction v1 with
  | nil => intro v2 st out; simp [c40Values]
  | cons v t ih =>
    intro v2 st out
    simp only [List.cons_append, c40Values]
    cases hv : c40Value base sh3 st v with
    | error e => rfl
    | ok r =>
      obtain ⟨st1, ob⟩ := r
      cases ob with
      | none => exact ih v2 st1 out
      | some b => exact ih v2 st1 (out ++ [b])

theorem c40Values_prefix (base sh3 : List Nat) : ∀ (vs : List Nat) (st : CSt) (out : List Nat),
    c40Values base sh3 vs st out =
      match c40Values base sh3 vs st [] with
      | .error e => .error e
      | .ok (st', o') => .ok (st', out ++ o') := by
  intro vs
  induction vs with
  | nil => intro st out; simp [c40Values]
  | cons v t ih =>
    intro st out
    simp only [c40Values]
    cases hv : c40Value base sh3 st v with
    | error e => rfl
    | ok r =>
      obtain ⟨st1, ob⟩ := r
      cases ob with
      | none => exact ih st1 out
      | some b =>
        simp only [List.nil_append]
        rw [ih st1 (out ++ [b]), ih st1 [b]]
        cases c40Values base sh3 t st1 [] with
        | error e => rfl
        | ok r => simp

theorem c40_byte (text : Bool) (b : Nat) (hb : b < 256) :
    c40Values (tabs text).1 (tabs text).2 (c40Vals text b) { shift := 0, upper := false } [] =
      .ok ({ shift := 0, upper := false }, [b]) ∧ ∀ v ∈ c40Vals text b, v < 40 := by
  have h := c40_bytes_ok
  rw [List.all_eq_true] at h
  have hb' := h b (List.mem_range.mpr hb)
  simp only [Bool.and_eq_true] at hb'
  have hk : c40ByteOK text b = true := by cases text; exact hb'.1; exact hb'.2
  unfold c40ByteOK at hk
  simp only [Bool.and_eq_true, List.all_eq_true, decide_eq_true_eq] at hk
  refine ⟨?_, hk.2⟩
  cases hc : c40Values (tabs text).1 (tabs text).2 (c40Vals text b) { shift := 0, upper := false } [] with
  | error e => rw [hc] at hk; simp at hk
  | ok r =>
    obtain ⟨st, o⟩ := r
    rw [hc] at hk
    simp only [Bool.and_eq_true, beq_iff_eq, Bool.not_eq_true'] at hk
    obtain ⟨⟨⟨h1, h2⟩, h3⟩, _⟩ := hk
    cases st
    simp only [] at h1 h2
    subst h1 h2 h3
    rfl

theorem c40_bytes (text : Bool) : ∀ (bs : List Nat), ByteList bs → ∀ (rest out : List Nat),
    c40Values (tabs text).1 (tabs text).2 (bs.flatMap (c40Vals text) ++ rest) { shift := 0, upper := false } out =
      c40Values (tabs text).1 (tabs text).2 rest { shift := 0, upper := false } (out ++ bs) := by
  intro bs
  induction bs with
  | nil => intro _ rest out; simp
  | cons b t ih =>
    intro hb rest out
    rw [List.flatMap_cons, List.append_assoc, c40Values_append, c40Values_prefix, (c40_byte text b hb.head).1]
    simp only []
    rw [ih hb.tail]
    simp

theorem c40_vals_lt (text : Bool) (bs : List Nat) (hb : ByteList bs) : ∀ v ∈ bs.flatMap (c40Vals text), v < 40 := by
  intro v hv
  obtain ⟨b, hbm, hvb⟩ := List.mem_flatMap.mp hv
  exact (c40_byte text b (hb b hbm)).2 v hvb

/-- the decoder's triple loop on packed values = its value automaton on the values -/
theorem decodeC40_triples (base sh3 : List Nat) : ∀ (n : Nat) (vals : List Nat), vals.length = 3 * n →
    (∀ v ∈ vals, v < 40) → ∀ (tail : List Nat) (e : Nat) (out : List Nat) (st : CSt),
      decodeC40 base sh3 (packTriples vals ++ tail) e out st =
        match c40Values base sh3 vals st out with
        | .error err => .error err
        | .ok (st', out') => decodeC40 base sh3 tail (e + 2 * n) out' st' := by
  intro n
  induction n with
  | zero =>
    intro vals hl _ tail e out st
    have : vals = [] := List.length_eq_zero_iff.mp (by omega)
    subst this
    simp [packTriples, c40Values]
  | succ n ih =>
    intro vals hl hlt tail e out st
    match vals, hl, hlt with
    | x :: y :: z :: t, hl, hlt =>
      have hx := hlt x (by simp)
      have hy := hlt y (by simp)
      have hz := hlt z (by simp)
      have ht : ∀ v ∈ t, v < 40 := fun w hw => hlt w (by simp [hw])
      have hlt' : t.length = 3 * n := by simp only [List.length_cons] at hl; omega
      obtain ⟨htup, hne⟩ := tuple_pack x y z hx hy hz
      simp only [packTriples, List.cons_append]
      rw [decodeC40, if_neg hne]
      simp only [htup]
      have happ := c40Values_append base sh3 [x, y, z] t st out
      simp only [List.cons_append, List.nil_append] at happ
      rw [happ]
      cases hv : c40Values base sh3 [x, y, z] st out with
      | error err => rfl
      | ok r =>
        obtain ⟨st1, o1⟩ := r
        simp only []
        rw [ih t hlt' ht]
        cases c40Values base sh3 t st1 o1 with
        | error err => rfl
        | ok r2 =>
          simp only []
          congr 1
          omega
    | [], hl, _ => simp at hl
    | [_], hl, _ => simp at hl; omega
    | [_, _], hl, _ => simp at hl; omega

theorem decodeC40_end (base sh3 : List Nat) (un : Bool) (tail : List Nat) (ht : TripleTail un tail) (e : Nat)
    (out : List Nat) (st : CSt) :
    decodeC40 base sh3 ((if un then [254] else []) ++ tail) e out st = .ok (tail, e + (if un then 1 else 0), out) := by
  cases un with
  | true =>
    simp only [↓reduceIte, List.singleton_append]
    match tail, ht with
    | [], _ => simp [decodeC40]
    | c :: t, ht =>
      have hc : c ≠ 254 := fun hc => ht.1 (by simp [hc])
      rw [decodeC40]
      simp [hc]
  | false =>
    simp only [Bool.false_eq_true, ↓reduceIte, List.nil_append, Nat.add_zero]
    match tail, ht with
    | [], _ => simp [decodeC40]
    | [c], ht =>
      have hc : c ≠ 254 := fun hc => ht.1 (by simp [hc])
      rw [decodeC40]
      simp [hc]
    | _ :: _ :: _, ht => have := ht.2 rfl; simp at this

def C40OK (text : Bool) (b : List Nat) (un : Bool) (tail : List Nat) : Prop :=
  ByteList b ∧ (b.flatMap (c40Vals text)).length % 3 = 0 ∧ TripleTail un tail

theorem seg_c40 (text : Bool) (b : List Nat) (un : Bool) (tail : List Nat) (e : Nat) (out : List Nat)
    (ecis : List (Nat × Nat)) (h : C40OK text b un tail) :
    decRun .ascii { rest := [if text then 239 else 230] ++ packTriples (b.flatMap (c40Vals text)) ++
                      (if un then [254] else []) ++ tail, eaten := e, out := out, ecis := ecis } =
    decRun .ascii { rest := tail,
                    eaten := e + (1 + (packTriples (b.flatMap (c40Vals text))).length + (if un then 1 else 0)),
                    out := out ++ b, ecis := ecis } := by
  obtain ⟨hb, hmod, ht⟩ := h
  generalize hn : (b.flatMap (c40Vals text)).length / 3 = n
  have hl : (b.flatMap (c40Vals text)).length = 3 * n := by omega
  have hpl := packTriples_length n _ hl
  have hlt := c40_vals_lt text b hb
  have hvals := c40_bytes text b hb [] out
  simp only [List.append_nil, c40Values] at hvals
  rw [decRun_ascii _ (by simp)]
  simp only [List.singleton_append, List.cons_append]
  rw [decodeAscii]
  by_cases hnil : packTriples (b.flatMap (c40Vals text)) ++ ((if un then [254] else []) ++ tail) = []
  · have h1 := (List.append_eq_nil_iff.mp hnil)
    have h2 := (List.append_eq_nil_iff.mp h1.2)
    have hn0 : n = 0 := by rw [h1.1] at hpl; simp at hpl; omega
    have hun : un = false := by
      cases un with
      | true => simp at h2
      | false => rfl
    have hvnil : b.flatMap (c40Vals text) = [] := List.length_eq_zero_iff.mp (by omega)
    have hbnil : b = [] := by
      match b, hvnil, hb with
      | [], _, _ => rfl
      | x :: t, hv, hb =>
        exfalso
        have h3 := (c40_byte text x hb.head).1
        rw [List.flatMap_cons] at hv
        have : c40Vals text x = [] := (List.append_eq_nil_iff.mp hv).1
        rw [this] at h3
        simp [c40Values] at h3
    subst hun hbnil
    cases text <;>
    · simp only [ne_eq, not_true_eq_false, ↓reduceIte, Bool.false_eq_true, false_and, Nat.reduceLeDiff, and_false,
        Nat.reduceEqDiff, List.nil_append]
      rw [decRun_nil _ _ (by simpa using hnil), h2.2, decRun_nil _ _ rfl]
      simp [packTriples]
  · cases text with
    | false =>
      simp only [ne_eq, not_true_eq_false, ↓reduceIte, Bool.false_eq_true, false_and, Nat.reduceLeDiff, and_false,
        Nat.reduceEqDiff, List.nil_append]
      rw [decRun_c40 _ (by simpa using hnil)]
      simp only [List.append_assoc]
      rw [decodeC40_triples baseC40 shift3C40 n _ hl hlt]
      have hv : c40Values baseC40 shift3C40 (b.flatMap (c40Vals false)) { shift := 0, upper := false } out =
          .ok ({ shift := 0, upper := false }, out ++ b) := hvals
      rw [hv]
      simp only []
      rw [decodeC40_end _ _ un tail ht]
      simp only [hpl]
      congr 2
      omega
    | true =>
      simp only [ne_eq, not_true_eq_false, ↓reduceIte, Bool.false_eq_true, false_and, Nat.reduceLeDiff, and_false,
        Nat.reduceEqDiff, List.nil_append]
      rw [decRun_text _ (by simpa using hnil)]
      simp only [List.append_assoc]
      rw [decodeC40_triples baseText shift3Text n _ hl hlt]
      have hv : c40Values baseText shift3Text (b.flatMap (c40Vals true)) { shift := 0, upper := false } out =
          .ok ({ shift := 0, upper := false }, out ++ b) := hvals
      rw [hv]
      simp only []
      rw [decodeC40_end _ _ un tail ht]
      simp only [hpl]
      congr 2
      omega

end DM.Lemmas.Complete
