import DM.Lemmas.RSTot
/-
The result of `chienSearch` on a polynomial of degree ≥ 2 with non-zero constant term:
exactly the non-zero roots (as bytes) of `Σ_j c[len-1-j]·X^j`, without repetition; and the
closed form of the linear case.
-/
namespace DM.Lemmas.ChienSpec
set_option linter.unusedSimpArgs false
open DM.Model DM.Model.RS DM.Lemmas DM.Lemmas.RSTotal DM.Lemmas.RSTot

/-- the value the Chien search tests at index `i` -/
def testV (c : List Nat) (i : Nat) : Nat :=
  ((List.range c.reverse.length).map fun j =>
    gmul (c.reverse.getD j 0) (alog ((j * i) % 255))).foldl gadd 0

theorem testV_lt (c : List Nat) (i : Nat) : testV c i < 256 := by
  unfold testV
  apply foldl_gadd_lt _ _ (by omega)
  intro x hx
  simp only [List.mem_map] at hx
  obtain ⟨j, _, rfl⟩ := hx
  exact gmul_lt' _ _

theorem getD_reverse (c : List Nat) (j : Nat) (hj : j < c.length) :
    c.reverse.getD j 0 = c.getD (c.length - 1 - j) 0 := by
  rw [List.getD_eq_getElem?_getD, List.getD_eq_getElem?_getD, List.getElem?_reverse hj]

theorem bytes_reverse {c : List Nat} (hc : Bytes c) : Bytes c.reverse :=
  fun x hx => hc x (List.mem_reverse.mp hx)

theorem ofNat_testV (c : List Nat) (hc : Bytes c) (i : Nat) :
    GF.ofNat (testV c i) =
      ∑ j ∈ Finset.range c.length, gF c (c.length - 1 - j) * (α ^ i) ^ j := by
  unfold testV
  rw [ofNat_foldl_xor, ofNat_zero, zero_add, List.map_map, list_sum_range, List.length_reverse]
  apply Finset.sum_congr rfl
  intro j hj
  have hj' : j < c.length := Finset.mem_range.mp hj
  simp only [Function.comp]
  have hb : c.reverse.getD j 0 < 256 := getD_lt (bytes_reverse hc) j
  have ha := (alog_pos ((j * i) % 255) (Nat.mod_lt _ (by omega))).2
  rw [GF.ofNat_gmul hb ha, ofNat_alog_mod, getD_reverse c j hj', ← pow_mul, Nat.mul_comm i j]
  rfl

theorem testV_eq_zero_iff (c : List Nat) (hc : Bytes c) (i : Nat) :
    testV c i = 0 ↔
      ∑ j ∈ Finset.range c.length, gF c (c.length - 1 - j) * (α ^ i) ^ j = 0 := by
  rw [← ofNat_testV c hc i]
  exact (GF.ofNat_eq_zero (testV_lt c i)).symm

theorem chienSearch_eq (c : List Nat) (hlen : 3 ≤ c.length) (hlast : c.getLast? ≠ some 0) :
    chienSearch c = .ok (((List.range 255).filter fun i => testV c i == 0).map alog) := by
  unfold chienSearch
  have hne : c.isEmpty = false := by
    cases c with
    | nil => simp at hlen
    | cons a c => rfl
  have h2 : ¬ c.length = 2 := by omega
  simp only [hne, Bool.false_eq_true, ↓reduceIte, if_neg hlast, if_neg h2, List.nil_append]
  rfl

theorem chien_general (c : List Nat) (hc : Bytes c) (hlen : 3 ≤ c.length)
    (hlast : c.getLast? ≠ some 0) :
    ∃ rs, chienSearch c = .ok rs ∧ rs.Nodup ∧
      ∀ r, r ∈ rs ↔ (r < 256 ∧ r ≠ 0 ∧
        ∑ j ∈ Finset.range c.length, gF c (c.length - 1 - j) * (GF.ofNat r) ^ j = 0) := by
  refine ⟨_, chienSearch_eq c hlen hlast, ?_, ?_⟩
  · rw [List.nodup_iff_pairwise_ne, List.pairwise_map]
    have hp : List.Pairwise (fun a b : Nat => a ≠ b)
        ((List.range 255).filter fun i => testV c i == 0) :=
      List.Pairwise.filter _ (List.nodup_iff_pairwise_ne.1 List.nodup_range)
    refine List.Pairwise.imp_of_mem ?_ hp
    intro x y hx hy hxy h
    simp only [List.mem_filter, List.mem_range] at hx hy
    exact hxy (alog_inj hx.1 hy.1 h)
  · intro r
    simp only [List.mem_map, List.mem_filter, List.mem_range, beq_iff_eq]
    constructor
    · rintro ⟨i, ⟨hi, ht⟩, rfl⟩
      have hp := alog_pos i hi
      refine ⟨hp.2, hp.1, ?_⟩
      rw [ofNat_alog i hi]
      exact (testV_eq_zero_iff c hc i).mp ht
    · rintro ⟨hr, hr0, hs⟩
      refine ⟨glog r, ⟨log_lt r hr, ?_⟩, alog_log r hr hr0⟩
      rw [testV_eq_zero_iff c hc, ← ofNat_alog _ (log_lt r hr), alog_log r hr hr0]
      exact hs

theorem chien_linear (c0 : Nat) (h : c0 ≠ 0) : chienSearch [c0, 1] = .ok [gdivD 1 c0] := by
  unfold chienSearch div'
  simp [h, gdiv_eq_some h]

end DM.Lemmas.ChienSpec
