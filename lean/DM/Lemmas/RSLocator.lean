import DM.Lemmas.RSDist
import Mathlib.LinearAlgebra.Lagrange
import Mathlib.LinearAlgebra.Matrix.NonsingularInverse
import Mathlib.LinearAlgebra.Matrix.ToLinearEquiv
/-
The algebra behind syndrome decoding, over an arbitrary field: for an error pattern with
pairwise distinct non-zero locators `x p` and non-zero values `c p` (`p ∈ I`), the syndrome
sequence `S_j = Σ_p c_p x_p^(j+1)` satisfies the linear recurrence given by the coefficients of
the locator polynomial `Π_p (X - x_p)` on every window; no monic recurrence of smaller order
holds on `|I|` consecutive windows; the monic recurrence of order `|I|` that holds on `|I|`
consecutive windows is the locator; the Hankel matrix of size `|I|` is nonsingular.
-/
namespace DM.Lemmas.Locator
set_option linter.unusedSectionVars false
open Polynomial

variable {F : Type} [Field F] [DecidableEq F]

/-- syndrome `j` of the error pattern `(I, c, x)` -/
def synd (I : Finset ℕ) (c x : ℕ → F) (j : ℕ) : F := ∑ p ∈ I, c p * x p ^ (j + 1)

/-- the error locator polynomial `Π_p (X - x_p)` -/
noncomputable def locPoly (I : Finset ℕ) (x : ℕ → F) : F[X] := ∏ p ∈ I, (X - C (x p))

/-- the polynomial with coefficients `lam 0 … lam (n-1)` -/
noncomputable def lpoly (lam : ℕ → F) (n : ℕ) : F[X] := ∑ i ∈ Finset.range n, C (lam i) * X ^ i

theorem lpoly_coeff (lam : ℕ → F) (n m : ℕ) :
    (lpoly lam n).coeff m = if m < n then lam m else 0 := by
  unfold lpoly
  rw [finsetSum_coeff]
  simp only [coeff_C_mul, coeff_X_pow]
  split
  · rename_i h
    rw [Finset.sum_eq_single m]
    · simp
    · intro b _ hb; simp [Ne.symm hb]
    · intro h'; exact absurd (Finset.mem_range.mpr h) h'
  · rename_i h
    apply Finset.sum_eq_zero
    intro i hi
    have : m ≠ i := by
      have := Finset.mem_range.mp hi
      omega
    simp [this]

theorem lpoly_eval (lam : ℕ → F) (n : ℕ) (y : F) :
    (lpoly lam n).eval y = ∑ i ∈ Finset.range n, lam i * y ^ i := by
  unfold lpoly
  rw [eval_finsetSum]
  simp

theorem locPoly_monic (I : Finset ℕ) (x : ℕ → F) : (locPoly I x).Monic :=
  monic_prod_of_monic _ _ (fun p _ => monic_X_sub_C (x p))

theorem locPoly_natDegree (I : Finset ℕ) (x : ℕ → F) : (locPoly I x).natDegree = I.card := by
  unfold locPoly
  rw [natDegree_prod_of_monic _ _ (fun p _ => monic_X_sub_C (x p))]
  simp

theorem locPoly_coeff_card (I : Finset ℕ) (x : ℕ → F) : (locPoly I x).coeff I.card = 1 := by
  have := (locPoly_monic I x).coeff_natDegree
  rwa [locPoly_natDegree] at this

theorem locPoly_eval_eq_zero_iff (I : Finset ℕ) (x : ℕ → F) (y : F) :
    (locPoly I x).eval y = 0 ↔ ∃ p ∈ I, x p = y := by
  unfold locPoly
  rw [eval_prod, Finset.prod_eq_zero_iff]
  simp only [eval_sub, eval_X, eval_C, sub_eq_zero]
  constructor
  · rintro ⟨p, hp, h⟩; exact ⟨p, hp, h.symm⟩
  · rintro ⟨p, hp, h⟩; exact ⟨p, hp, h.symm⟩

theorem locPoly_eval_sum (I : Finset ℕ) (x : ℕ → F) (y : F) :
    ∑ i ∈ Finset.range (I.card + 1), (locPoly I x).coeff i * y ^ i = (locPoly I x).eval y := by
  rw [eval_eq_sum_range, locPoly_natDegree]

/-- a window of the syndrome sequence against coefficients `lam`, sorted by error position -/
theorem window_eq (I : Finset ℕ) (c x : ℕ → F) (lam : ℕ → F) (n j : ℕ) :
    ∑ i ∈ Finset.range n, synd I c x (j + i) * lam i
      = ∑ p ∈ I, c p * (∑ i ∈ Finset.range n, lam i * x p ^ i) * x p ^ (j + 1) := by
  unfold synd
  simp_rw [Finset.sum_mul]
  rw [Finset.sum_comm]
  apply Finset.sum_congr rfl
  intro p _
  rw [Finset.mul_sum, Finset.sum_mul]
  apply Finset.sum_congr rfl
  intro i _
  ring

/-- **The locator recurrence holds on every window.** -/
theorem rec_true (I : Finset ℕ) (c x : ℕ → F) (j : ℕ) :
    ∑ i ∈ Finset.range (I.card + 1), synd I c x (j + i) * (locPoly I x).coeff i = 0 := by
  rw [window_eq]
  apply Finset.sum_eq_zero
  intro p hp
  rw [locPoly_eval_sum, (locPoly_eval_eq_zero_iff I x (x p)).mpr ⟨p, hp, rfl⟩]
  ring

/-- a recurrence that holds on at least `|I|` consecutive windows (starting at the first
syndrome) has a characteristic polynomial vanishing at every locator -/
theorem rec_forces (I : Finset ℕ) (c x : ℕ → F)
    (hinj : ∀ i ∈ I, ∀ j ∈ I, x i = x j → i = j) (hx : ∀ i ∈ I, x i ≠ 0) (hc : ∀ i ∈ I, c i ≠ 0)
    (lam : ℕ → F) (n J : ℕ) (hJ : I.card ≤ J)
    (hw : ∀ j, j < J → ∑ i ∈ Finset.range n, synd I c x (j + i) * lam i = 0) :
    ∀ p ∈ I, (lpoly lam n).eval (x p) = 0 := by
  have key := sparse_zero x J I (fun p => c p * (∑ i ∈ Finset.range n, lam i * x p ^ i)) hJ hinj hx
    (by
      intro j hj
      rw [← window_eq]
      exact hw j hj)
  intro p hp
  rw [lpoly_eval]
  rcases mul_eq_zero.mp (key p hp) with h | h
  · exact absurd h (hc p hp)
  · exact h

theorem card_image_loc (I : Finset ℕ) (x : ℕ → F) (hinj : ∀ i ∈ I, ∀ j ∈ I, x i = x j → i = j) :
    (I.image x).card = I.card :=
  Finset.card_image_of_injOn (fun i hi j hj h => hinj i hi j hj h)

/-- **No shorter recurrence.** A monic recurrence of order `v` on `|I|` windows has `|I| ≤ v`. -/
theorem order_ge (I : Finset ℕ) (c x : ℕ → F)
    (hinj : ∀ i ∈ I, ∀ j ∈ I, x i = x j → i = j) (hx : ∀ i ∈ I, x i ≠ 0) (hc : ∀ i ∈ I, c i ≠ 0)
    (lam : ℕ → F) (v : ℕ) (hlead : lam v = 1)
    (hw : ∀ j, j < I.card → ∑ i ∈ Finset.range (v + 1), synd I c x (j + i) * lam i = 0) :
    I.card ≤ v := by
  by_contra hlt
  have hroots := rec_forces I c x hinj hx hc lam (v + 1) I.card (le_refl _) hw
  have hz : lpoly lam (v + 1) = 0 := by
    apply eq_zero_of_degree_lt_of_eval_finset_eq_zero (I.image x)
    · rw [card_image_loc I x hinj, degree_lt_iff_coeff_zero]
      intro m hm
      rw [lpoly_coeff, if_neg (by omega)]
    · intro y hy
      obtain ⟨p, hp, rfl⟩ := Finset.mem_image.mp hy
      exact hroots p hp
  have := congrArg (fun q => q.coeff v) hz
  simp only [lpoly_coeff, coeff_zero] at this
  rw [if_pos (by omega), hlead] at this
  exact one_ne_zero this

/-- **Uniqueness of the order-`|I|` recurrence.** -/
theorem rec_unique (I : Finset ℕ) (c x : ℕ → F)
    (hinj : ∀ i ∈ I, ∀ j ∈ I, x i = x j → i = j) (hx : ∀ i ∈ I, x i ≠ 0) (hc : ∀ i ∈ I, c i ≠ 0)
    (lam : ℕ → F) (hlead : lam I.card = 1)
    (hw : ∀ j, j < I.card → ∑ i ∈ Finset.range (I.card + 1), synd I c x (j + i) * lam i = 0) :
    ∀ i, i ≤ I.card → lam i = (locPoly I x).coeff i := by
  have hroots := rec_forces I c x hinj hx hc lam (I.card + 1) I.card (le_refl _) hw
  have heq : lpoly lam (I.card + 1) = locPoly I x := by
    apply eq_of_degree_sub_lt_of_eval_finset_eq (I.image x)
    · rw [card_image_loc I x hinj, degree_lt_iff_coeff_zero]
      intro m hm
      rw [coeff_sub, lpoly_coeff]
      rcases Nat.eq_or_lt_of_le hm with h | h
      · rw [← h, if_pos (by omega), hlead, locPoly_coeff_card, sub_self]
      · rw [if_neg (by omega), coeff_eq_zero_of_natDegree_lt (by rw [locPoly_natDegree]; exact h),
          sub_self]
    · intro y hy
      obtain ⟨p, hp, rfl⟩ := Finset.mem_image.mp hy
      rw [hroots p hp, (locPoly_eval_eq_zero_iff I x (x p)).mpr ⟨p, hp, rfl⟩]
  intro i hi
  have := congrArg (fun q => q.coeff i) heq
  simp only [lpoly_coeff] at this
  rwa [if_pos (by omega)] at this

/-- one of the first `|I|` syndromes of a non-empty error pattern is non-zero -/
theorem first_nonzero (I : Finset ℕ) (c x : ℕ → F)
    (hinj : ∀ i ∈ I, ∀ j ∈ I, x i = x j → i = j) (hx : ∀ i ∈ I, x i ≠ 0) (hc : ∀ i ∈ I, c i ≠ 0)
    (hne : I.Nonempty) : ∃ j, j < I.card ∧ synd I c x j ≠ 0 := by
  by_contra h
  have h' : ∀ j, j < I.card → synd I c x j = 0 := by
    intro j hj
    by_contra hne'
    exact h ⟨j, hj, hne'⟩
  obtain ⟨p, hp⟩ := hne
  exact hc p hp (sparse_zero x I.card I c (le_refl _) hinj hx h' p hp)

/-- two value assignments with the same first `|I|` syndromes are equal -/
theorem values_unique (I : Finset ℕ) (c c' x : ℕ → F)
    (hinj : ∀ i ∈ I, ∀ j ∈ I, x i = x j → i = j) (hx : ∀ i ∈ I, x i ≠ 0)
    (h : ∀ j, j < I.card → synd I c x j = synd I c' x j) : ∀ p ∈ I, c p = c' p := by
  have key := sparse_zero x I.card I (fun p => c p - c' p) (le_refl _) hinj hx
    (by
      intro j hj
      have := h j hj
      unfold synd at this
      simp only [sub_mul, Finset.sum_sub_distrib, this, sub_self])
  intro p hp
  exact sub_eq_zero.mp (key p hp)

/-- the locator evaluated "from the other end" (the way the Chien search does) -/
theorem rev_eval (I : Finset ℕ) (x : ℕ → F) (y : F) (hy : y ≠ 0) :
    ∑ j ∈ Finset.range (I.card + 1), (locPoly I x).coeff (I.card - j) * y ^ j
      = y ^ I.card * (locPoly I x).eval y⁻¹ := by
  rw [← locPoly_eval_sum, Finset.mul_sum, ← Finset.sum_range_reflect]
  apply Finset.sum_congr rfl
  intro j hj
  have hj' : j ≤ I.card := by have := Finset.mem_range.mp hj; omega
  have e1 : I.card + 1 - 1 - j = I.card - j := by omega
  have e2 : I.card - (I.card - j) = j := by omega
  rw [e1, e2, inv_pow, pow_sub₀ y hy hj']
  ring

/-- **Chien search criterion.** A non-zero `y` is a root of the reversed locator iff it is the
inverse of a locator. -/
theorem rev_root_iff (I : Finset ℕ) (x : ℕ → F) (y : F) (hy : y ≠ 0) :
    ∑ j ∈ Finset.range (I.card + 1), (locPoly I x).coeff (I.card - j) * y ^ j = 0
      ↔ ∃ p ∈ I, x p = y⁻¹ := by
  rw [rev_eval I x y hy, mul_eq_zero, locPoly_eval_eq_zero_iff]
  constructor
  · rintro (h | h)
    · exact absurd (eq_zero_of_pow_eq_zero h) hy
    · exact h
  · intro h; exact Or.inr h

/-! ### the Hankel matrix -/

/-- the Hankel matrix `(S_{i+j})` of size `n` -/
def hankel (I : Finset ℕ) (c x : ℕ → F) (n : ℕ) : Matrix (Fin n) (Fin n) F :=
  fun i j => synd I c x (i.val + j.val)

/-- `H_ν u = 0` has only the trivial solution -/
theorem hankel_ker (I : Finset ℕ) (c x : ℕ → F)
    (hinj : ∀ i ∈ I, ∀ j ∈ I, x i = x j → i = j) (hx : ∀ i ∈ I, x i ≠ 0) (hc : ∀ i ∈ I, c i ≠ 0)
    (u : Fin I.card → F) (hu : (hankel I c x I.card).mulVec u = 0) : u = 0 := by
  let lam : ℕ → F := fun i => if h : i < I.card then u ⟨i, h⟩ else 0
  have hw : ∀ j, j < I.card → ∑ i ∈ Finset.range I.card, synd I c x (j + i) * lam i = 0 := by
    intro j hj
    have := congrFun hu ⟨j, hj⟩
    simp only [Matrix.mulVec, dotProduct, hankel, Pi.zero_apply] at this
    rw [← this, Finset.sum_range]
    apply Finset.sum_congr rfl
    intro i _
    simp [lam]
  have hroots := rec_forces I c x hinj hx hc lam I.card I.card (le_refl _) hw
  have hz : lpoly lam I.card = 0 := by
    apply eq_zero_of_degree_lt_of_eval_finset_eq_zero (I.image x)
    · rw [card_image_loc I x hinj, degree_lt_iff_coeff_zero]
      intro m hm
      rw [lpoly_coeff, if_neg (by omega)]
    · intro y hy
      obtain ⟨p, hp, rfl⟩ := Finset.mem_image.mp hy
      exact hroots p hp
  funext i
  have := congrArg (fun q => q.coeff i.val) hz
  simp only [lpoly_coeff, coeff_zero, i.isLt, if_true] at this
  simpa [lam] using this

/-- **The Hankel matrix of `ν` errors is nonsingular at size `ν`.** -/
theorem hankel_det_ne_zero (I : Finset ℕ) (c x : ℕ → F)
    (hinj : ∀ i ∈ I, ∀ j ∈ I, x i = x j → i = j) (hx : ∀ i ∈ I, x i ≠ 0) (hc : ∀ i ∈ I, c i ≠ 0) :
    (hankel I c x I.card).det ≠ 0 := by
  intro hdet
  obtain ⟨u, hu0, hu⟩ := Matrix.exists_mulVec_eq_zero_iff.mpr hdet
  exact hu0 (hankel_ker I c x hinj hx hc u hu)

/-- … and singular at every larger size (the locator gives a kernel vector) -/
theorem hankel_det_eq_zero (I : Finset ℕ) (c x : ℕ → F) (n : ℕ) (hn : I.card < n) :
    (hankel I c x n).det = 0 := by
  apply Matrix.exists_mulVec_eq_zero_iff.mp
  refine ⟨fun i => (locPoly I x).coeff i.val, ?_, ?_⟩
  · intro h
    have := congrFun h ⟨I.card, hn⟩
    simp only [locPoly_coeff_card, Pi.zero_apply] at this
    exact one_ne_zero this
  · funext i
    simp only [Matrix.mulVec, dotProduct, hankel, Pi.zero_apply]
    rw [← Finset.sum_range (fun j => synd I c x (i.val + j) * (locPoly I x).coeff j)]
    have hsplit : Finset.range n = Finset.range (I.card + 1) ∪ (Finset.range n \ Finset.range (I.card + 1)) := by
      rw [Finset.union_sdiff_of_subset]
      intro a ha
      have := Finset.mem_range.mp ha
      exact Finset.mem_range.mpr (by omega)
    rw [hsplit, Finset.sum_union Finset.disjoint_sdiff, rec_true, zero_add]
    apply Finset.sum_eq_zero
    intro j hj
    have hj' : I.card < j := by
      have := (Finset.mem_sdiff.mp hj).2
      simp only [Finset.mem_range, not_lt] at this
      omega
    rw [coeff_eq_zero_of_natDegree_lt (by rw [locPoly_natDegree]; exact hj'), mul_zero]

end DM.Lemmas.Locator
