import DM.Props.C09
import DM.Props.C03
import DM.Lemmas.RSTotal
/-!
# Assembling the block loop of the Reed–Solomon decoder from per-block results

`decodeBlocks_of_blocks`: if every interleaved block that the loop visits is decoded to the
corresponding block of a target word `(d, e)`, the loop ends with a word whose visited blocks are
the target's blocks and whose other blocks are untouched.  `decode_of_blocks`: hence `RS.decode`
returns `d ++ e` when every block of the received word is decoded to the block of `(d, e)`.

The list lemmas: `scatter` writes `blk[p]` at position `start + p * stride` and nothing else
(`getD_scatter_hit`, `getD_scatter_miss`), so reading the same stride back gives `blk`
(`strided_scatter_self`) and every other stride is unchanged (`strided_scatter_other`).
-/
namespace DM.Lemmas.BlocksAssemble
open DM.Gen DM.Model DM.Model.RS DM.Spec DM.Lemmas DM.Props.C09
open DM.Lemmas.RSTotal (length_scatter length_strided)

theorem scatter_snoc (l blk : List Nat) (x b B : Nat) :
    scatter l (blk ++ [x]) b B = (scatter l blk b B).set (b + blk.length * B) x := by
  unfold scatter
  rw [List.zipIdx_append, List.foldl_append]
  simp

/-- positions that are not of the form `b + p * B` with `p < blk.length` are untouched -/
theorem getD_scatter_miss (l blk : List Nat) (b B j : Nat)
    (h : ∀ p, p < blk.length → j ≠ b + p * B) :
    (scatter l blk b B).getD j 0 = l.getD j 0 := by
  induction blk using List.reverseRec with
  | nil => rfl
  | append_singleton blk x ih =>
    rw [scatter_snoc]
    have hne : b + blk.length * B ≠ j := fun e => h blk.length (by simp) e.symm
    rw [List.getD_eq_getElem?_getD, List.getElem?_set_ne hne, ← List.getD_eq_getElem?_getD]
    exact ih (fun p hp => h p (by rw [List.length_append]; omega))

/-- position `b + p * B` receives `blk[p]` -/
theorem getD_scatter_hit (l blk : List Nat) (b B p : Nat) (hB : 0 < B)
    (hp : p < blk.length) (hlt : b + p * B < l.length) :
    (scatter l blk b B).getD (b + p * B) 0 = blk.getD p 0 := by
  induction blk using List.reverseRec with
  | nil => simp at hp
  | append_singleton blk x ih =>
    rw [scatter_snoc]
    rw [List.length_append, List.length_singleton] at hp
    by_cases hpe : p = blk.length
    · subst hpe
      rw [List.getD_eq_getElem?_getD, List.getElem?_set_self (by rw [length_scatter]; exact hlt)]
      simp
    · have hp' : p < blk.length := by omega
      have hne : b + blk.length * B ≠ b + p * B := by
        intro e
        have : blk.length * B = p * B := by omega
        exact hpe (Nat.eq_of_mul_eq_mul_right hB this).symm
      rw [List.getD_eq_getElem?_getD, List.getElem?_set_ne hne, ← List.getD_eq_getElem?_getD, ih hp']
      rw [List.getD_eq_getElem?_getD, List.getD_eq_getElem?_getD, List.getElem?_append_left hp']

theorem strided_index_lt (l : List Nat) (b B m : Nat) (hB : 0 < B)
    (hm : m < (l.length - b + B - 1) / B) : b + m * B < l.length := by
  have h1 : m + 1 ≤ (l.length - b + B - 1) / B := hm
  rw [Nat.le_div_iff_mul_le hB, Nat.add_mul, Nat.one_mul] at h1
  omega

/-- reading back the stride that was written gives the written block -/
theorem strided_scatter_self (l blk : List Nat) (b B : Nat)
    (hlen : blk.length = (strided l b B).length) (hb : b < B) :
    strided (scatter l blk b B) b B = blk := by
  have hB : 0 < B := by omega
  rw [length_strided] at hlen
  unfold strided
  rw [length_scatter, ← hlen]
  conv_rhs => rw [← DM.Props.C06.map_getD_range blk blk.length rfl]
  apply List.map_congr_left
  intro m hm
  rw [List.mem_range] at hm
  exact getD_scatter_hit l blk b B m hB hm (strided_index_lt l b B m hB (by rw [← hlen]; exact hm))

/-- every other stride is unchanged -/
theorem strided_scatter_other (l blk : List Nat) (b b' B : Nat)
    (hb : b < B) (hb' : b' < B) (hne : b ≠ b') :
    strided (scatter l blk b B) b' B = strided l b' B := by
  unfold strided
  rw [length_scatter]
  apply List.map_congr_left
  intro m _
  apply getD_scatter_miss
  intro p _ e
  have h1 : (b' + m * B) % B = b' := by rw [Nat.add_mul_mod_self_right, Nat.mod_eq_of_lt hb']
  have h2 : (b + p * B) % B = b := by rw [Nat.add_mul_mod_self_right, Nat.mod_eq_of_lt hb]
  rw [e, h2] at h1
  exact hne h1

/-- **The block loop, assembled from per-block results.** -/
theorem decodeBlocks_of_blocks (B k : Nat) (hB : 0 < B) (d e : List Nat)
    (bs : List Nat) (hbs : ∀ b ∈ bs, b < B) (hnd : bs.Nodup) :
    ∀ data err : List Nat, data.length = d.length → err.length = e.length →
      B ≤ data.length → B ≤ err.length →
      (∀ b ∈ bs, decodeBlock (strided data b B) (strided err b B) k
          = .ok (strided d b B, strided e b B)) →
      ∃ data' err', decodeBlocks B k bs data err = .ok (data', err') ∧
        data'.length = d.length ∧ err'.length = e.length ∧
        (∀ b, b < B → strided data' b B = if b ∈ bs then strided d b B else strided data b B) ∧
        (∀ b, b < B → strided err' b B = if b ∈ bs then strided e b B else strided err b B) := by
  have _ := hB
  induction bs with
  | nil =>
    intro data err hd he _ _ _
    exact ⟨data, err, rfl, hd, he, fun b _ => by simp, fun b _ => by simp⟩
  | cons b bs ih =>
    intro data err hd he hBd hBe hblk
    have hb : b < B := hbs b (List.mem_cons_self ..)
    have hbs' : ∀ x ∈ bs, x < B := fun x hx => hbs x (List.mem_cons_of_mem _ hx)
    obtain ⟨hnotin, hnd'⟩ := List.nodup_cons.mp hnd
    have hne : ∀ x ∈ bs, b ≠ x := fun x hx e => hnotin (e ▸ hx)
    have hdlen : (strided d b B).length = (strided data b B).length := by
      rw [length_strided, length_strided, hd]
    have helen : (strided e b B).length = (strided err b B).length := by
      rw [length_strided, length_strided, he]
    obtain ⟨data', err', hrun, hd', he', hsd, hse⟩ :=
      ih hbs' hnd' (scatter data (strided d b B) b B) (scatter err (strided e b B) b B)
        (by rw [length_scatter]; exact hd) (by rw [length_scatter]; exact he)
        (by rw [length_scatter]; exact hBd) (by rw [length_scatter]; exact hBe)
        (by
          intro x hx
          rw [strided_scatter_other _ _ b x B hb (hbs' x hx) (hne x hx),
            strided_scatter_other _ _ b x B hb (hbs' x hx) (hne x hx)]
          exact hblk x (List.mem_cons_of_mem _ hx))
    refine ⟨data', err', ?_, hd', he', ?_, ?_⟩
    · unfold decodeBlocks
      rw [if_neg (by omega), hblk b (List.mem_cons_self ..)]
      exact hrun
    · intro x hx
      rw [hsd x hx]
      by_cases hxs : x ∈ bs
      · rw [if_pos hxs, if_pos (List.mem_cons_of_mem _ hxs)]
      · rw [if_neg hxs]
        by_cases hxb : x = b
        · subst hxb
          rw [if_pos (List.mem_cons_self ..)]
          exact strided_scatter_self data _ x B hdlen hx
        · rw [if_neg (by simp [hxb, hxs])]
          exact strided_scatter_other data _ b x B hb hx (fun e => hxb e.symm)
    · intro x hx
      rw [hse x hx]
      by_cases hxs : x ∈ bs
      · rw [if_pos hxs, if_pos (List.mem_cons_of_mem _ hxs)]
      · rw [if_neg hxs]
        by_cases hxb : x = b
        · subst hxb
          rw [if_pos (List.mem_cons_self ..)]
          exact strided_scatter_self err _ x B helen hx
        · rw [if_neg (by simp [hxb, hxs])]
          exact strided_scatter_other err _ b x B hb hx (fun e => hxb e.symm)

/-- **`decode` from per-block results**: if every interleaved block of the received word is
decoded to the corresponding block of `(d, e)`, the decoder returns `d ++ e`. -/
theorem decode_of_blocks (s : Sym) (hs : s < numSizes) (d e r : List Nat)
    (hl : d.length = dataCw s) (hel : e.length = (row s).blocks * (row s).eccPer)
    (hr : r.length = totalCw s)
    (hblock : ∀ b, b < (row s).blocks →
      decodeBlock (strided (r.take (dataCw s)) b (row s).blocks) (strided (r.drop (dataCw s)) b (row s).blocks)
        (row s).eccPer = .ok (strided d b (row s).blocks, strided e b (row s).blocks)) :
    RS.decode s r = .ok (d ++ e) := by
  obtain ⟨_, hk, _, hB, hBd⟩ := DM.Props.C06.gen_monic_roots s hs
  have hecc : eccCw s = (row s).blocks * (row s).eccPer := rfl
  have htot : totalCw s = dataCw s + eccCw s := rfl
  have hdc : dataCw s = (row s).dataCw := rfl
  have hkB : (row s).blocks ≤ (row s).blocks * (row s).eccPer := Nat.le_mul_of_pos_right _ hk
  have htl : (r.take (dataCw s)).length = d.length := by rw [List.length_take]; omega
  have hdl : (r.drop (dataCw s)).length = e.length := by rw [List.length_drop]; omega
  obtain ⟨data', err', hrun, hd', he', hsd, hse⟩ :=
    decodeBlocks_of_blocks (row s).blocks (row s).eccPer hB d e (List.range (row s).blocks)
      (fun b hb => List.mem_range.mp hb) List.nodup_range
      (r.take (dataCw s)) (r.drop (dataCw s)) htl hdl
      (by rw [htl, hl, hdc]; exact hBd) (by rw [hdl, hel]; exact hkB)
      (fun b hb => hblock b (List.mem_range.mp hb))
  have e1 : data' = d := strided_ext data' d _ hB hd' (fun b hb => by
    rw [hsd b hb, if_pos (List.mem_range.mpr hb)])
  have e2 : err' = e := strided_ext err' e _ hB he' (fun b hb => by
    rw [hse b hb, if_pos (List.mem_range.mpr hb)])
  unfold RS.decode
  have hlen : ¬ r.length < (row s).dataCw := by rw [hr, htot, hdc]; omega
  simp only [hlen, if_false]
  rw [hdc] at hrun
  rw [hrun, e1, e2]

end DM.Lemmas.BlocksAssemble
