import DM.Lemmas.RSTot
/-
Control flow of one Levinson–Durbin iteration (`ldStep`): which branch is taken and what the
new `v` is, in terms of the windows `win syn (w ++ [1]) j`.  Panics are allowed at any site
(`AnySite`); the statement is about the values returned when the step does not panic, and it
excludes the non-panic errors.
-/
namespace DM.Lemmas.RSTot
set_option linter.unusedSimpArgs false
set_option linter.unusedVariables false
open DM.Model DM.Model.RS DM.Lemmas DM.Lemmas.RSTotal

def AnySite : String → Prop := fun _ => True

/-! ### the elementary partial operations, panics allowed -/

theorem TotAny_throw_panic {α} {site : String} {P : α → Prop} :
    Tot AnySite (throw (RErr.panic site) : R α) P := trivial

theorem TotAny_at' {site : String} {l : List Nat} {i : Nat} {P : Nat → Prop}
    (h : ∀ x, P x) : Tot AnySite (at' site l i) P := by
  unfold at'
  cases l[i]? with
  | some v => exact h v
  | none => trivial

theorem TotAny_div' {site : String} {a b : Nat} {P : Nat → Prop}
    (h : ∀ x, P x) : Tot AnySite (div' site a b) P := by
  unfold div'
  cases gdiv a b with
  | some v => exact h v
  | none => trivial

theorem TotAny_sub' {site : String} {a b : Nat} {P : Nat → Prop}
    (h : ∀ x, P x) : Tot AnySite (sub' site a b) P := by
  unfold sub'
  split
  · exact h _
  · trivial

theorem TotAny_slice {site : String} {l : List Nat} {a b : Nat} {P : List Nat → Prop}
    (h : a ≤ b + 1 → b < l.length → P ((l.drop a).take (b + 1 - a))) :
    Tot AnySite (slice site l a b) P := by
  unfold slice
  split
  · rename_i hc; exact h hc.1 hc.2
  · trivial

theorem TotAny_dot {a b : List Nat} {P : Nat → Prop}
    (h : a.length = b.length → P (dotV a b)) : Tot AnySite (dot a b) P := by
  unfold dot
  split
  · trivial
  · rename_i hc
    exact h (by simpa using hc)

/-- `dot` of a slice of the right length is a window -/
theorem dotV_slice_win (syn tmp : List Nat) (j b : Nat) (h : b + 1 - j = tmp.length) :
    dotV ((syn.drop j).take (b + 1 - j)) tmp = win syn tmp j := by
  unfold win; rw [h]

/-- `dot (← slice site syn j b) tmp` with `b + 1 - j = tmp.length` -/
theorem TotAny_sliceDot {site : String} {syn tmp : List Nat} {j b : Nat} {β} {f : Nat → R β}
    {P : β → Prop} (hlen : b + 1 - j = tmp.length) (h : Tot AnySite (f (win syn tmp j)) P) :
    Tot AnySite (slice site syn j b >>= fun s => dot s tmp >>= f) P := by
  refine Tot_bind (TotAny_slice fun _ _ => ?_)
  refine Tot_bind (TotAny_dot fun _ => ?_)
  rw [dotV_slice_win _ _ _ _ hlen]
  exact h

/-- `dot (← slice site syn j b) tmp` when the value does not matter -/
theorem TotAny_sliceDot' {site : String} {syn tmp : List Nat} {j b : Nat} {β} {f : Nat → R β}
    {P : β → Prop} (h : ∀ x, Tot AnySite (f x) P) :
    Tot AnySite (slice site syn j b >>= fun s => dot s tmp >>= f) P := by
  refine Tot_bind (TotAny_slice fun _ _ => ?_)
  exact Tot_bind (TotAny_dot fun _ => h _)

/-! ### the end-of-iteration assertions -/

theorem TotAny_ldCheck (syn w y : List Nat) (v : Nat) :
    Tot AnySite (ldCheck syn w y v) (fun _ => True) := by
  unfold ldCheck
  simp only []
  refine Tot_ite (fun _ => Tot_bind TotAny_throw_panic) (fun _ => ?_)
  refine Tot_ite (fun _ => Tot_bind TotAny_throw_panic) (fun _ => ?_)
  refine Tot_bind ?_
  apply Tot_mono (Tot_forIn_inv _ _ _ (fun _ => True) trivial ?_)
  · intro _ _
    refine Tot_bind ?_
    apply Tot_mono (Tot_forIn_inv _ _ _ (fun _ => True) trivial ?_)
    · intro _ _; exact Tot_pure trivial
    · intro i hi _ _
      refine Tot_bind ?_
      apply Tot_mono (Tot_forIn_inv _ _ _ (fun _ : Nat => True) trivial ?_)
      · intro row _
        refine Tot_bind (TotAny_at' fun target => ?_)
        refine Tot_ite (fun _ => ?_) (fun _ => Tot_pure trivial)
        exact Tot_bind TotAny_throw_panic
      · intro j hj _ _
        refine Tot_bind (TotAny_at' fun s => ?_)
        exact Tot_pure trivial
  · intro i hi _ _
    refine Tot_bind ?_
    apply Tot_mono (Tot_forIn_inv _ _ _ (fun _ : Nat => True) trivial ?_)
    · intro row _
      refine Tot_ite (fun _ => ?_) (fun _ => Tot_pure trivial)
      exact Tot_bind TotAny_throw_panic
    · intro j hj _ _
      refine Tot_bind (TotAny_at' fun s => ?_)
      exact Tot_pure trivial

/-! ### one iteration -/

theorem filt_split {n : Nat} {p : Nat → Bool} {pre rest : List Nat} {a : Nat}
    (hl : (List.range n).filter p = pre ++ a :: rest) :
    a < n ∧ p a = true ∧ ∀ i, i < a → i ∉ a :: rest := by
  have hmem : a ∈ (List.range n).filter p := by rw [hl]; simp
  have hp : List.Pairwise (· < ·) ((List.range n).filter p) :=
    List.Pairwise.filter _ List.pairwise_lt_range
  rw [hl] at hp
  have h2 := (List.pairwise_append.1 hp).2.1
  have h3 := (List.pairwise_cons.1 h2).1
  simp only [List.mem_filter, List.mem_range] at hmem
  refine ⟨hmem.1, hmem.2, ?_⟩
  intro i hi hmem'
  rcases List.mem_cons.1 hmem' with rfl | h
  · omega
  · have := h3 i h; omega

theorem ldStep_flow (syn : List Nat) (t : Nat) (st : LDSt) (hw : st.w.length = st.v) :
    Tot AnySite (ldStep syn t st) (fun r =>
      (win syn (st.w ++ [1]) st.v ≠ 0 → ∃ st', r = some st' ∧ st'.v = st.v + 1) ∧
      (win syn (st.w ++ [1]) st.v = 0 →
        (∀ i, 1 ≤ i → i < t - st.v → win syn (st.w ++ [1]) (st.v + i) = 0) → r = none) ∧
      (win syn (st.w ++ [1]) st.v = 0 → ∀ m, 1 ≤ m → m < t - st.v →
        win syn (st.w ++ [1]) (st.v + m) ≠ 0 →
        (∀ i, 1 ≤ i → i < m → win syn (st.w ++ [1]) (st.v + i) = 0) →
        ∃ st', r = some st' ∧ st'.v = st.v + m + 1)) := by
  obtain ⟨v, w, y⟩ := st
  simp only at hw
  unfold ldStep
  simp only []
  have hlen : ∀ k, 2 * v + k + 1 - (v + k) = (w ++ [1]).length := by
    intro k; simp only [List.length_append, List.length_singleton]; omega
  refine TotAny_sliceDot (by have := hlen 0; simpa using this) ?_
  refine Tot_ite (fun heps => ?_) (fun heps => ?_)
  · -- the regular case
    refine TotAny_sliceDot' fun b0 => ?_
    refine Tot_bind (TotAny_div' fun beta => ?_)
    refine TotAny_sliceDot' fun gamma => ?_
    refine Tot_bind (TotAny_div' fun epsInv => ?_)
    refine Tot_bind (Tot_mono (TotAny_ldCheck _ _ _ _) fun _ _ => ?_)
    apply Tot_pure
    exact ⟨fun _ => ⟨_, rfl, rfl⟩, fun h => absurd h heps, fun h => absurd h heps⟩
  · -- the singular case
    have heps0 : win syn (w ++ [1]) v = 0 := Decidable.not_not.1 heps
    refine Tot_bind ?_
    apply Tot_mono (Tot_forIn _ _ _
      (fun (rest : List Nat) (found : Option (Nat × Nat)) =>
        (found = none ∧ ∀ i, 1 ≤ i → i < t - v → i ∉ rest → win syn (w ++ [1]) (v + i) = 0) ∨
        (∃ m, found = some (m, win syn (w ++ [1]) (v + m)) ∧ 1 ≤ m ∧ m < t - v ∧
          win syn (w ++ [1]) (v + m) ≠ 0 ∧
          ∀ i, 1 ≤ i → i < m → win syn (w ++ [1]) (v + i) = 0))
      (fun (found : Option (Nat × Nat)) =>
        (found = none ∧ ∀ i, 1 ≤ i → i < t - v → win syn (w ++ [1]) (v + i) = 0) ∨
        (∃ m, found = some (m, win syn (w ++ [1]) (v + m)) ∧ 1 ≤ m ∧ m < t - v ∧
          win syn (w ++ [1]) (v + m) ≠ 0 ∧
          ∀ i, 1 ≤ i → i < m → win syn (w ++ [1]) (v + i) = 0)) ?_ ?_ ?_)
    rotate_left
    · -- initially
      left
      refine ⟨rfl, ?_⟩
      intro i h1 h2 hn
      exfalso; apply hn
      simp only [List.mem_filter, List.mem_range, decide_eq_true_eq]
      exact ⟨h2, h1⟩
    · -- one iteration of the search
      intro pre a rest found hl hI
      obtain ⟨ha2, ha1, hsort⟩ := filt_split hl
      simp only [decide_eq_true_eq] at ha1
      refine Tot_ite (fun hnone => ?_) (fun hsome => ?_)
      · have hfn : found = none := by
          cases found with
          | none => rfl
          | some x => simp at hnone
        have hz : ∀ i, 1 ≤ i → i < t - v → i ∉ a :: rest → win syn (w ++ [1]) (v + i) = 0 := by
          rcases hI with ⟨_, h⟩ | ⟨m, h, _⟩
          · exact h
          · rw [hfn] at h; cases h
        refine TotAny_sliceDot (hlen a) ?_
        refine Tot_ite (fun hne => Tot_pure ?_) (fun he => Tot_pure ?_)
        · right
          refine ⟨a, rfl, ha1, ha2, hne, ?_⟩
          intro i h1 h2
          exact hz i h1 (by omega) (hsort i h2)
        · left
          refine ⟨hfn, ?_⟩
          intro i h1 h2 hnr
          by_cases hia : i = a
          · rw [hia]; exact Decidable.not_not.1 he
          · apply hz i h1 h2
            intro hmem
            rcases List.mem_cons.1 hmem with h | h
            · exact hia h
            · exact hnr h
      · apply Tot_pure
        right
        rcases hI with ⟨h, _⟩ | h
        · rw [h] at hsome; simp at hsome
        · exact h
    · -- at the end
      intro found hI
      rcases hI with ⟨h, hz⟩ | h
      · left
        exact ⟨h, fun i h1 h2 => hz i h1 h2 (by simp)⟩
      · right; exact h
    intro found hfound
    rcases found with _ | ⟨m, sigmaM⟩
    · apply Tot_pure
      refine ⟨fun h => absurd heps0 h, fun _ _ => rfl, ?_⟩
      intro _ m hm1 hm2 hne _
      exfalso
      rcases hfound with ⟨_, hz⟩ | ⟨m', h, _⟩
      · exact hne (hz m hm1 hm2)
      · cases h
    · have hm : 1 ≤ m ∧ m < t - v ∧ win syn (w ++ [1]) (v + m) ≠ 0 ∧
          ∀ i, 1 ≤ i → i < m → win syn (w ++ [1]) (v + i) = 0 := by
        rcases hfound with ⟨h, _⟩ | ⟨m', h, h1, h2, h3, h4⟩
        · cases h
        · cases h
          exact ⟨h1, h2, h3, h4⟩
      obtain ⟨hm1, hm2, hm3, hm4⟩ := hm
      simp only []
      -- the rest of the singular branch returns a state with `v = m + v + 1`
      suffices H : ∀ P : Option LDSt → Prop,
          (∀ st' : LDSt, st'.v = m + v + 1 → P (some st')) → Tot AnySite _ P by
        apply H
        intro st' hst'
        refine ⟨fun h => absurd heps0 h, ?_, ?_⟩
        · intro _ hall
          exact absurd (hall m hm1 hm2) hm3
        · intro _ m2 h1 h2 h3 h4
          refine ⟨st', rfl, ?_⟩
          have : m2 = m := by
            rcases Nat.lt_trichotomy m2 m with h | h | h
            · exact absurd (hm4 m2 h1 h) h3
            · exact h
            · exact absurd (h4 m hm1 h) hm3
          rw [hst', this]; omega
      intro P hP
      -- sigma
      refine Tot_bind ?_
      apply Tot_mono (Tot_forIn_inv _ _ _ (fun _ : List Nat => True) trivial ?_)
      rotate_left
      · intro k hk sigma _
        refine TotAny_sliceDot' fun x => ?_
        exact Tot_pure trivial
      intro sigma _
      refine Tot_ite (fun _ => Tot_bind TotAny_throw_panic) (fun _ => ?_)
      -- iterate w^k
      refine Tot_bind ?_
      apply Tot_mono (Tot_forIn_inv _ _ _ (fun _ : List Nat => True) trivial ?_)
      rotate_left
      · intro k hk tk _
        refine Tot_bind (TotAny_at' fun s2 => ?_)
        refine TotAny_sliceDot' fun x => ?_
        refine Tot_bind (TotAny_at' fun eta => ?_)
        exact Tot_pure trivial
      intro tk _
      refine Tot_bind (TotAny_div' fun sInv => ?_)
      refine Tot_ite (fun _ => Tot_bind TotAny_throw_panic) (fun _ => ?_)
      -- gamma
      refine Tot_bind ?_
      apply Tot_mono (Tot_forIn_inv _ _ _ (fun _ : List Nat => True) trivial ?_)
      rotate_left
      · intro i hi gam _
        refine Tot_bind (TotAny_at' fun s3 => ?_)
        refine TotAny_sliceDot' fun x => ?_
        exact Tot_pure trivial
      intro gam _
      refine Tot_bind (TotAny_at' fun sigma0 => ?_)
      refine Tot_bind ?_
      apply Tot_mono (Tot_forIn_inv _ _ _ (fun _ : List Nat => True) trivial ?_)
      rotate_left
      · intro i hi gam _
        refine Tot_bind (TotAny_at' fun gi => ?_)
        refine Tot_bind ?_
        apply Tot_mono (Tot_forIn_inv _ _ _ (fun _ : Nat => True) trivial ?_)
        · intro gi' _
          refine Tot_bind (TotAny_div' fun q => ?_)
          exact Tot_pure trivial
        · intro j hj gi' _
          refine Tot_bind (TotAny_at' fun sg => ?_)
          exact Tot_pure trivial
      intro gam _
      -- update w
      refine Tot_bind ?_
      apply Tot_mono (Tot_forIn_inv _ _ _ (fun _ : List Nat => True) trivial ?_)
      rotate_left
      · intro x hx tw _
        refine Tot_bind (TotAny_sub' fun off => ?_)
        refine Tot_ite (fun _ => Tot_bind TotAny_throw_panic) (fun _ => ?_)
        refine Tot_ite (fun _ => Tot_bind TotAny_throw_panic) (fun _ => ?_)
        exact Tot_pure trivial
      intro tw _
      refine Tot_bind (Tot_mono (TotAny_ldCheck _ _ _ _) fun _ _ => ?_)
      apply Tot_pure
      exact hP _ rfl

end DM.Lemmas.RSTot
