import DM.Lemmas.MainRT
import DM.Lemmas.PlanProv
/-
The segment structure of the encoder's output (C13 / C18, encoder side).

Along a run of the encoder model the codewords split into segments, one per call of a mode
encoder: a stretch of ASCII codewords, or the latch of a non-ASCII mode followed by what that
mode's encoder wrote.  At the start of every segment the decoder model, run on the stream so far
followed by a legal continuation, is at the top of its ASCII loop and has produced exactly the
characters encoded so far (`MainRT.Sync`); inside an ASCII segment no codeword is a latch; the
latch that opens a non-ASCII segment is the latch of a mode the plan names (`PlanProv.PV`).
-/
namespace DM.Lemmas.Trace
open DM.Model DM.Model.Enc DM.Model.Dec DM.Gen DM.Lemmas DM.Lemmas.DecRun DM.Lemmas.AsciiRT DM.Lemmas.Complete
open DM.Lemmas.EncRT DM.Lemmas.X12RT DM.Lemmas.B256RT DM.Lemmas.EdiRT DM.Lemmas.C40RT DM.Lemmas.C40Gen DM.Lemmas.B256Gen
open DM.Lemmas.MainRT DM.Lemmas.PlanProv
open DM.Spec.Build

/-- codewords the ASCII encoder can write: character + 1, digit pair, upper shift -/
def AsciiCw (c : Nat) : Prop := c ≤ 229 ∨ c = 235

theorem asciiCw_enc1 (ch : Nat) (h : ch < 256) : ∀ c ∈ enc1 ch, AsciiCw c := by
  intro c hc
  unfold enc1 at hc
  split at hc
  · simp only [List.mem_singleton] at hc; subst hc; left; omega
  · simp only [List.mem_cons, List.mem_nil_iff, or_false] at hc
    rcases hc with hc | hc
    · right; exact hc
    · subst hc; left; omega

theorem asciiCw_pair (a b : Nat) (ha : isDigit a = true) (hb : isDigit b = true) : AsciiCw ((a - 48) * 10 + (b - 48) + 130) := by
  simp only [isDigit, Bool.and_eq_true, decide_eq_true_eq] at ha hb
  left; omega

theorem asciiCw_asciiEnc : ∀ (n : Nat) (l : List Nat), l.length ≤ n → ByteList l → ∀ c ∈ asciiEnc l, AsciiCw c := by
  intro n
  induction n with
  | zero =>
    intro l h _ c hc
    have : l = [] := List.length_eq_zero_iff.mp (by omega)
    subst this
    simp [asciiEnc] at hc
  | succ n ih =>
    intro l h hb c hc
    match l, h, hb, hc with
    | [], _, _, hc => simp [asciiEnc] at hc
    | [a], _, hb, hc =>
      simp only [asciiEnc] at hc
      exact asciiCw_enc1 a (hb a (by simp)) c hc
    | a :: b :: t, h, hb, hc =>
      simp only [asciiEnc] at hc
      split at hc
      · rename_i hd
        simp only [Bool.and_eq_true] at hd
        simp only [List.mem_cons] at hc
        rcases hc with hc | hc
        · subst hc; exact asciiCw_pair a b hd.1 hd.2
        · exact ih t (by simp at h; omega) (fun x hx => hb x (by simp [hx])) c hc
      · rcases List.mem_append.mp hc with hc | hc
        · exact asciiCw_enc1 a (hb a (by simp)) c hc
        · exact ih (b :: t) (by simp at h ⊢; omega) (fun x hx => hb x (List.mem_cons_of_mem _ hx)) c hc

/-- what the ASCII loop appends consists of ASCII codewords -/
theorem asciiLoop_range : ∀ (f : Nat) (s s' : St), asciiLoop f s = .ok s' → ByteList s.input →
    ∃ X, s'.cw = s.cw ++ X ∧ ∀ c ∈ X, AsciiCw c := by
  intro f
  induction f with
  | zero => intro s s' h; cases h
  | succ f ih =>
    intro s s' h hb
    unfold asciiLoop at h
    cases hm : s.maybeSwitch with
    | error e => rw [hm] at h; cases h
    | ok r =>
      obtain ⟨b, s1⟩ := r
      rw [hm] at h
      obtain ⟨hsame, hpos, hcw, _, _, _⟩ := maybeSwitch_spec s s1 b hm
      have hb1 : ByteList s1.input := by rw [hsame.1]; exact hb
      cases b with
      | true =>
        simp only [Except.ok.injEq] at h
        subst h
        exact ⟨[], by simp [hcw], by simp⟩
      | false =>
        simp only [] at h
        have step : ∀ (s2 : St) (Y : List Nat), asciiLoop f s2 = .ok s' → s2.input = s1.input → s2.cw = s1.cw ++ Y →
            (∀ c ∈ Y, AsciiCw c) → ∃ X, s'.cw = s.cw ++ X ∧ ∀ c ∈ X, AsciiCw c := by
          intro s2 Y h2 e1 e2 hY
          obtain ⟨X2, c1, c2⟩ := ih s2 s' h2 (by rw [e1]; exact hb1)
          refine ⟨Y ++ X2, by rw [c1, e2, hcw, List.append_assoc], ?_⟩
          intro c hc
          rcases List.mem_append.mp hc with hc | hc
          · exact hY c hc
          · exact c2 c hc
        by_cases htd : twoDigitsComing s1.rest = true
        · rw [if_pos htd] at h
          match hr : s1.rest, htd with
          | a :: b :: t, htd =>
            rw [hr] at h
            simp only [] at h
            simp only [twoDigitsComing, Bool.and_eq_true] at htd
            exact step _ [(a - 48) * 10 + (b - 48) + 130] h rfl (by simp [St.push])
              (by intro c hc; simp only [List.mem_singleton] at hc; subst hc; exact asciiCw_pair a b htd.1 htd.2)
          | [], htd => simp [twoDigitsComing] at htd
          | [_], htd => simp [twoDigitsComing] at htd
        · rw [if_neg htd] at h
          cases he : s1.eat with
          | none =>
            rw [he] at h
            simp only [Except.ok.injEq] at h
            subst h
            exact ⟨[], by simp [hcw], by simp⟩
          | some r =>
            obtain ⟨ch, s2⟩ := r
            rw [he] at h
            simp only [] at h
            have heat : s2.input = s1.input ∧ s2.cw = s1.cw ∧ ch < 256 := by
              unfold St.eat at he
              split at he
              · rename_i c hc
                simp only [Option.some.injEq, Prod.mk.injEq] at he
                obtain ⟨h1, h2⟩ := he
                subst h1 h2
                exact ⟨rfl, rfl, hb1 _ (List.mem_of_getElem? hc)⟩
              · cases he
            by_cases hlo : ch ≤ 127
            · rw [if_pos hlo] at h
              exact step _ [ch + 1] h (by simp [St.push, heat.1]) (by simp [St.push, heat.2.1])
                (by intro c hc; simp only [List.mem_singleton] at hc; subst hc; left; omega)
            · rw [if_neg hlo] at h
              exact step _ [235, ch - 128 + 1] h (by simp [St.push, heat.1]) (by simp [St.push, heat.2.1])
                (by
                  intro c hc
                  simp only [List.mem_cons, List.mem_nil_iff, or_false] at hc
                  rcases hc with hc | hc
                  · right; exact hc
                  · subst hc; left; have := heat.2.2; omega)


/-! ### what one call of a mode encoder appends -/

/-- the mode encoder only appends to the codewords written so far (pending latch included), does
not move backwards in the message, and in ASCII mode writes ASCII codewords only -/
def Shape (s s' : St) : Prop :=
  ∃ X, s'.cw = (latched s).cw ++ X ∧ s.pos ≤ s'.pos ∧ (s.newMode = none → ∀ c ∈ X, AsciiCw c)

theorem shape_tend {list : List Sym} {body : List Nat} {latch : Nat} {s s' : St}
    (hn : s.newMode = some latch) (h : TEnd list body s.pos s.cw latch s') : Shape s s' := by
  obtain ⟨X, p, un, _, hp0, _, hcw, hpos, _⟩ := h.out
  refine ⟨X ++ (if un then [254] else []), ?_, by rw [hpos]; exact hp0, by rw [hn]; intro h; cases h⟩
  rw [hcw]
  simp [latched, hn, St.push]

theorem shape_bend {list : List Sym} {body : List Nat} {s s' : St}
    (hn : s.newMode = some 231) (h : BEnd list body s.pos s.cw s') : Shape s s' := by
  obtain ⟨p, toEnd, hp0, _, hcw, hpos, _⟩ := h.out
  refine ⟨randFrom (s.cw.length + 2) (b256Hdr (seg body s.pos p) toEnd ++ seg body s.pos p), ?_,
    by rw [hpos]; omega, by rw [hn]; intro h; cases h⟩
  rw [hcw]
  simp [latched, hn, St.push]

theorem step_shape (pre out0 : List Nat) (list : List Sym) (body : List Nat) (hb : ByteList body) (s s' : St)
    (mi : MI false pre out0 list body s)
    (hmore : s.hasMore = true) (h : encodeMode (latched s) = .ok s') : Shape s s' := by
  have hlt : s.pos < body.length := by
    have := of_decide_eq_true hmore
    rw [mi.inp] at this
    exact this
  cases mi.phase with
  | done nomore _ _ _ => rw [hmore] at nomore; cases nomore
  | ediAscii he _ _ _ _ _ _ _ _ => cases he
  | final he _ _ _ _ _ => cases he
  | endgame _ sync mode plan nm one fit =>
    have hl : latched s = s := by simp [latched, nm]
    rw [hl] at h
    simp only [encodeMode, mode] at h
    rw [asciiLoop_rest s plan mode (by rw [mi.inp]; exact mi.le)] at h
    simp only [Except.ok.injEq] at h
    subst h
    have hrest : s.rest = body.drop s.pos := by simp [St.rest, mi.inp]
    refine ⟨asciiEnc (body.drop s.pos), by rw [hl, hrest], by simp [mi.inp]; omega, fun _ => ?_⟩
    exact asciiCw_asciiEnc _ _ (Nat.le_refl _) (hb.drop _)
  | normal sync pend plan more =>
    cases hnm : s.newMode with
    | none =>
      have hmode : s.mode = .ascii := by
        rcases pend with ⟨a, _⟩ | ⟨l, _, b, _⟩
        · exact a
        · rw [hnm] at b; cases b
      have hl : latched s = s := by simp [latched, hnm]
      rw [hl] at h
      simp only [encodeMode, hmode] at h
      obtain ⟨X, c1, _, c3, _⟩ := asciiLoop_gen _ s s' h (by rw [mi.inp]; exact hb)
      obtain ⟨X', d1, d2⟩ := asciiLoop_range _ s s' h (by rw [mi.inp]; exact hb)
      have : X = X' := List.append_cancel_left (c1.symm.trans d1)
      subst this
      exact ⟨X, by rw [hl]; exact c1, c3, fun _ => d2⟩
    | some l =>
      have hpl : ∃ l', s.mode.latch = some l' ∧ s.newMode = some l' ∧ s.mode ≠ .edifact := by
        rcases pend with ⟨_, b⟩ | ⟨l', h1, h2, _⟩
        · rw [hnm] at b; cases b
        · exact ⟨l', h1, h2, (mi.noE rfl).2.1⟩
      obtain ⟨l', hlat, hnl, hnedi⟩ := hpl
      have hll : l' = l := by rw [hnm] at hnl; cases hnl; rfl
      subst hll
      have hlatched : latched s = { s with newMode := none }.push l' := by simp [latched, hnm]
      rw [hlatched] at h
      generalize hsL : ({ s with newMode := none }.push l' : St) = sL at h
      have hLin : sL.input = body := by rw [← hsL]; exact mi.inp
      have hLli : sL.list = list := by rw [← hsL]; exact mi.lst
      have hLpos : sL.pos = s.pos := by rw [← hsL]; rfl
      have hLnm : sL.newMode = none := by rw [← hsL]; rfl
      have hLcw : sL.cw = s.cw ++ [l'] := by rw [← hsL]; rfl
      have hLplan : PlanOKE body sL.plan := by rw [← hsL]; exact plan
      have hLmode : sL.mode = s.mode := by rw [← hsL]; rfl
      have hLcl : sL.charsLeft = body.length - s.pos := by simp [St.charsLeft, hLin, hLpos]
      cases hm : s.mode with
      | ascii => rw [hm] at hlat; simp [EMode.latch] at hlat
      | edifact => exact absurd hm hnedi
      | c40 =>
        rw [hm] at hlat hLmode
        simp only [EMode.latch, Option.some.injEq] at hlat
        subst hlat
        simp only [encodeMode, hLmode, c40Encode] at h
        have inv0 : Inv false list body s.pos s.cw sL [] 0 0 :=
          ⟨hLin, hLli, by simp [modeOf, hLmode], hLnm, by omega, by rw [hLpos]; exact mi.le, by simp,
            by simp [Wb, hLpos, seg_self], by simp, by simp [Wb, hLpos, seg_self, packTriples, latchOf, hLcw], by omega⟩
        have hend := c40Loop_gen false list body hb s.pos s.cw (body.length - s.pos) (sL.charsLeft + 2) sL [] 0 0 s'
          (by rw [hLpos]) (by omega) inv0 hLplan h
        exact shape_tend (by rw [hnm]; rfl) (c40_to_TEnd false list body s.pos s.cw s' hend)
      | text =>
        rw [hm] at hlat hLmode
        simp only [EMode.latch, Option.some.injEq] at hlat
        subst hlat
        simp only [encodeMode, hLmode, c40Encode] at h
        have inv0 : Inv true list body s.pos s.cw sL [] 0 0 :=
          ⟨hLin, hLli, by simp [modeOf, hLmode], hLnm, by omega, by rw [hLpos]; exact mi.le, by simp,
            by simp [Wb, hLpos, seg_self], by simp, by simp [Wb, hLpos, seg_self, packTriples, latchOf, hLcw], by omega⟩
        have hend := c40Loop_gen true list body hb s.pos s.cw (body.length - s.pos) (sL.charsLeft + 2) sL [] 0 0 s'
          (by rw [hLpos]) (by omega) inv0 hLplan h
        exact shape_tend (by rw [hnm]; rfl) (c40_to_TEnd true list body s.pos s.cw s' hend)
      | x12 =>
        rw [hm] at hlat hLmode
        simp only [EMode.latch, Option.some.injEq] at hlat
        subst hlat
        simp only [encodeMode, hLmode] at h
        have hend := x12Encode_gen list body s.pos s.cw sL s' hLin hLli hLpos mi.le hLnm hLcw hLplan h
        exact shape_tend hnm hend
      | base256 =>
        rw [hm] at hlat hLmode
        simp only [EMode.latch, Option.some.injEq] at hlat
        subst hlat
        simp only [encodeMode, hLmode, b256Encode] at h
        have hstart : sL.cw.length = s.cw.length + 1 := by rw [hLcw]; simp
        rw [hstart] at h
        have inv0 : BInv list body s.pos s.cw (sL.push 0) :=
          ⟨hLin, hLli, hLnm, by simp [St.push, hLpos], by simp [St.push, hLpos]; exact mi.le,
            by simp [St.push, hLcw, hLpos, seg_self]⟩
        have hend := b256Loop_gen list body hb s.pos s.cw (body.length - s.pos) (sL.charsLeft + 2) (sL.push 0) s'
          (by simp [St.push, hLpos]) (by omega) inv0 (by simpa [St.push] using hLplan)
          (Or.inl (by simp only [St.hasMore, St.push, hLin, hLpos]; simpa [St.hasMore, mi.inp] using hmore)) h
        exact shape_bend hnm hend


/-! ### segments -/

/-- one call of a mode encoder: the position in the message at which it started, the latch the
main loop wrote in front of it (none for ASCII), the codewords it wrote -/
structure Seg where
  start : Nat
  latch : Option Nat
  X : List Nat

def Seg.cw (g : Seg) : List Nat :=
  match g.latch with
  | some l => l :: g.X
  | none => g.X

def flatCw : List Seg → List Nat
  | [] => []
  | g :: t => g.cw ++ flatCw t

theorem flatCw_append (a b : List Seg) : flatCw (a ++ b) = flatCw a ++ flatCw b := by
  induction a with
  | nil => rfl
  | cons g t ih => simp [flatCw, ih]

/-- an ASCII segment holds ASCII codewords only; the latch of any other segment is the latch of a
mode the plan names -/
def SegOK (plan0 : List (Nat × EMode)) (g : Seg) : Prop :=
  match g.latch with
  | some l => ∃ p m, (p, m) ∈ plan0 ∧ m.latch = some l
  | none => ∀ c ∈ g.X, AsciiCw c

/-- `Sync` (any legal continuation) or `SyncEnd` (at most one more codeword) -/
def SyncB (b : Bool) (pre out0 body cw : List Nat) (pos : Nat) : Prop :=
  pre.length ≤ cw.length ∧ cw.take pre.length = pre ∧
  ∀ tail, (b = true → tail.length ≤ 1) → NiceTail tail →
    decRun .ascii { rest := cw.drop pre.length ++ tail, eaten := pre.length, out := out0, ecis := [] } =
    decRun .ascii { rest := tail, eaten := cw.length, out := out0 ++ body.take pos, ecis := [] }

theorem syncB_of_sync {pre out0 body cw : List Nat} {pos : Nat} (h : Sync pre out0 body cw pos) :
    SyncB false pre out0 body cw pos := ⟨h.1, h.2.1, fun tail _ ht => h.2.2 tail ht⟩

theorem syncB_of_syncEnd {pre out0 body cw : List Nat} {pos : Nat} (h : SyncEnd pre out0 body cw pos) :
    SyncB true pre out0 body cw pos := ⟨h.1, h.2.1, fun tail hl ht => h.2.2 tail (hl rfl) ht⟩

/-- the trace invariant of the main loop -/
structure TR (pre out0 : List Nat) (list : List Sym) (body : List Nat) (plan0 : List (Nat × EMode)) (s : St) (segs : List Seg) : Prop where
  cw : s.cw = pre ++ flatCw segs
  ok : ∀ g ∈ segs, SegOK plan0 g
  pv : PV plan0 (key s)
  walk : ∀ (k : Nat) (hk : k < segs.length), ∃ b, SyncB b pre out0 body (pre ++ flatCw (segs.take k)) segs[k].start ∧
    (b = true → k + 1 = segs.length ∧ segs[k].cw.length ≤ 1 ∧ s.hasMore = false ∧ ExactFit list s.cw.length)

/-- one iteration of the main loop adds the segment that starts at the current position and carries
the pending latch -/
theorem step_TR_seg (pre out0 : List Nat) (list : List Sym) (body : List Nat) (hb : ByteList body) (plan0 : List (Nat × EMode))
    (s s' : St) (segs : List Seg) (mi : MI false pre out0 list body s) (tr : TR pre out0 list body plan0 s segs)
    (hmore : s.hasMore = true) (h : encodeMode (latched s) = .ok s') :
    ∃ X, TR pre out0 list body plan0 s' (segs ++ [(⟨s.pos, s.newMode, X⟩ : Seg)]) := by
  obtain ⟨X, hX, hpos, hrange⟩ := step_shape pre out0 list body hb s s' mi hmore h
  have mi' := step_MI false pre out0 list body hb s s' mi hmore h
  have hpv' : PV plan0 (key s') := by
    have hl : PV plan0 (key (latched s)) := by
      unfold latched
      split
      · exact (pv_closed plan0).clear _ tr.pv
      · exact tr.pv
    exact q_encodeMode (pv_closed plan0) _ _ h hl
  refine ⟨X, ?_, ?_, hpv', ?_⟩
  · -- codewords
    rw [hX, flatCw_append]
    simp only [flatCw, List.append_nil, Seg.cw]
    cases hn : s.newMode with
    | none => simp [latched, hn, tr.cw]
    | some l => simp [latched, hn, St.push, tr.cw]
  · intro g hg
    rcases List.mem_append.mp hg with hg | hg
    · exact tr.ok g hg
    · simp only [List.mem_singleton] at hg
      subst hg
      unfold SegOK
      cases hn : s.newMode with
      | none => simp only []; exact hrange hn
      | some l => simp only []; exact tr.pv.2 l (by simp [key, hn])
  · intro k hk
    simp only [List.length_append, List.length_singleton] at hk
    by_cases hlt : k < segs.length
    · obtain ⟨b, hs, hb'⟩ := tr.walk k hlt
      have hbf : b = false := by
        cases b with
        | false => rfl
        | true => have := (hb' rfl).2.2.1; rw [hmore] at this; cases this
      subst hbf
      refine ⟨false, ?_, by intro h; cases h⟩
      rw [List.take_append_of_le_length (by omega), List.getElem_append_left hlt]
      exact hs
    · have hk' : k = segs.length := by omega
      subst hk'
      have htake : (segs ++ [(⟨s.pos, s.newMode, X⟩ : Seg)]).take segs.length = segs := by simp
      have hget : (segs ++ [(⟨s.pos, s.newMode, X⟩ : Seg)])[segs.length]'(by simp) = ⟨s.pos, s.newMode, X⟩ := by simp
      rw [htake, hget, ← tr.cw]
      cases mi.phase with
      | done nomore _ _ _ => rw [hmore] at nomore; cases nomore
      | ediAscii he _ _ _ _ _ _ _ _ => cases he
      | final he _ _ _ _ _ => cases he
      | normal sync _ _ _ => exact ⟨false, syncB_of_sync sync, by intro h; cases h⟩
      | endgame _ sync mode plan nm one fit =>
        refine ⟨true, syncB_of_syncEnd sync, fun _ => ⟨by simp, ?_, ?_, ?_⟩⟩
        · -- the single ASCII codeword
          have hl : latched s = s := by simp [latched, nm]
          rw [hl] at h
          simp only [encodeMode, mode] at h
          rw [asciiLoop_rest s plan mode (by rw [mi.inp]; exact mi.le)] at h
          simp only [Except.ok.injEq] at h
          subst h
          rw [hl] at hX
          have hXe : X = asciiEnc s.rest := List.append_cancel_left hX.symm
          have hrest : s.rest = body.drop s.pos := by simp [St.rest, mi.inp]
          simp only [Seg.cw, nm]
          rw [hXe, hrest, asciiEnc_length _ _ (Nat.le_refl _)]
          exact one
        · cases mi'.phase with
          | done nomore _ _ _ => exact nomore
          | ediAscii he _ _ _ _ _ _ _ _ => cases he
          | final he _ _ _ _ _ => cases he
          | normal _ _ _ _ =>
            -- after the end game everything is consumed
            have hl : latched s = s := by simp [latched, nm]
            rw [hl] at h
            simp only [encodeMode, mode] at h
            rw [asciiLoop_rest s plan mode (by rw [mi.inp]; exact mi.le)] at h
            simp only [Except.ok.injEq] at h
            subst h
            simp [St.hasMore]
          | endgame _ _ _ _ _ _ _ =>
            have hl : latched s = s := by simp [latched, nm]
            rw [hl] at h
            simp only [encodeMode, mode] at h
            rw [asciiLoop_rest s plan mode (by rw [mi.inp]; exact mi.le)] at h
            simp only [Except.ok.injEq] at h
            subst h
            simp [St.hasMore]
        · have hl : latched s = s := by simp [latched, nm]
          rw [hl] at h hX
          simp only [encodeMode, mode] at h
          rw [asciiLoop_rest s plan mode (by rw [mi.inp]; exact mi.le)] at h
          simp only [Except.ok.injEq] at h
          subst h
          have hrest : s.rest = body.drop s.pos := by simp [St.rest, mi.inp]
          simp only [List.length_append, hrest, asciiEnc_length _ _ (Nat.le_refl _)]
          exact fit

theorem step_TR (pre out0 : List Nat) (list : List Sym) (body : List Nat) (hb : ByteList body) (plan0 : List (Nat × EMode))
    (s s' : St) (segs : List Seg) (mi : MI false pre out0 list body s) (tr : TR pre out0 list body plan0 s segs)
    (hmore : s.hasMore = true) (h : encodeMode (latched s) = .ok s') :
    ∃ g, TR pre out0 list body plan0 s' (segs ++ [g]) := by
  obtain ⟨X, hX⟩ := step_TR_seg pre out0 list body hb plan0 s s' segs mi tr hmore h
  exact ⟨_, hX⟩

theorem mainLoop_TR (pre out0 : List Nat) (list : List Sym) (body : List Nat) (hb : ByteList body) (plan0 : List (Nat × EMode)) :
    ∀ (f : Nat) (s : St) (k : Nat) (sE : St) (segs : List Seg), Enc.mainLoop f s k = .ok sE → MI false pre out0 list body s →
      TR pre out0 list body plan0 s segs → ∃ segsE, TR pre out0 list body plan0 sE segsE := by
  intro f
  induction f with
  | zero => intro s k sE segs h; cases h
  | succ f ih =>
    intro s k sE segs h mi tr
    by_cases hmore : s.hasMore = true
    · obtain ⟨s', k', he, hm⟩ := mainLoop_step f s sE k h hmore
      obtain ⟨g, tr'⟩ := step_TR pre out0 list body hb plan0 s s' segs mi tr hmore he
      exact ih s' k' sE _ hm (step_MI false pre out0 list body hb s s' mi hmore he) tr'
    · have hmf : s.hasMore = false := by simpa using hmore
      rw [mainLoop_end _ _ _ hmf] at h
      simp only [Except.ok.injEq] at h
      subst h
      exact ⟨segs, tr⟩

end DM.Lemmas.Trace
