import DM.Lemmas.DecStr
/-
A fuel-free view of the data decoder's main loop: `decRun m st` runs `mainLoop` with the fuel
`decode_parts` would pass for `st.rest`; any larger fuel gives the same answer, so the loop can be
unfolded one mode segment at a time. Basis of the decoder-completeness proof (C04).
-/
namespace DM.Lemmas.DecRun
open DM.Model.Dec DM.Gen DM.Lemmas

theorem fuel_irrel : ∀ (f f' : Nat) (m : DMode) (st : DSt),
    2 * st.rest.length + (if m = .ascii then 0 else 1) < f →
    2 * st.rest.length + (if m = .ascii then 0 else 1) < f' →
    mainLoop f m st = mainLoop f' m st := by
  intro f
  induction f with
  | zero => intro f' m st h; omega
  | succ f ih =>
    intro f' m st hf hf'
    cases f' with
    | zero => omega
    | succ f' =>
      unfold mainLoop
      by_cases he : st.rest.isEmpty = true
      · rw [if_pos he, if_pos he]
      rw [if_neg he, if_neg he]
      have hne : 0 < st.rest.length := by
        cases hr : st.rest with
        | nil => simp [hr] at he
        | cons _ _ => simp
      cases m with
      | ascii =>
        simp only
        cases h : decodeAscii st.rest st.eaten st.out st.ecis false 0 with
        | error e => rfl
        | ok r =>
          obtain ⟨st', m'⟩ := r
          have := decodeAscii_rest_le _ _ _ _ _ _ _ _ h
          simp only [if_true] at hf hf'
          exact ih f' m' st' (by split <;> omega) (by split <;> omega)
      | base256 =>
        simp only
        cases h : decodeBase256 st.rest st.eaten st.out with
        | error e => rfl
        | ok r =>
          obtain ⟨r, e, o⟩ := r
          have := decodeBase256_rest_lt _ _ _ _ _ _ h
          simp only [reduceCtorEq, if_false] at hf hf'
          exact ih f' .ascii _ (by simp only [if_true]; omega) (by simp only [if_true]; omega)
      | x12 =>
        simp only
        cases h : decodeX12 st.rest st.eaten st.out with
        | error e => rfl
        | ok r =>
          obtain ⟨r, e, o⟩ := r
          have := decodeX12_rest_le _ _ (Nat.le_refl _) _ _ _ _ _ h
          simp only [reduceCtorEq, if_false] at hf hf'
          exact ih f' .ascii _ (by simp only [if_true]; omega) (by simp only [if_true]; omega)
      | edifact =>
        simp only
        have := decodeEdifact_rest_le st.rest.length st.rest st.eaten st.out
        simp only [reduceCtorEq, if_false] at hf hf'
        exact ih f' .ascii _ (by simp only [if_true]; omega) (by simp only [if_true]; omega)
      | c40 =>
        simp only
        cases h : decodeC40 baseC40 shift3C40 st.rest st.eaten st.out { shift := 0, upper := false } with
        | error e => rfl
        | ok r =>
          obtain ⟨r, e, o⟩ := r
          have := decodeC40_rest_le _ _ _ _ (Nat.le_refl _) _ _ _ _ _ _ h
          simp only [reduceCtorEq, if_false] at hf hf'
          exact ih f' .ascii _ (by simp only [if_true]; omega) (by simp only [if_true]; omega)
      | text =>
        simp only
        cases h : decodeC40 baseText shift3Text st.rest st.eaten st.out { shift := 0, upper := false } with
        | error e => rfl
        | ok r =>
          obtain ⟨r, e, o⟩ := r
          have := decodeC40_rest_le _ _ _ _ (Nat.le_refl _) _ _ _ _ _ _ h
          simp only [reduceCtorEq, if_false] at hf hf'
          exact ih f' .ascii _ (by simp only [if_true]; omega) (by simp only [if_true]; omega)

/-- the main loop with the fuel `decode_parts` passes -/
def decRun (m : DMode) (st : DSt) : R DSt := mainLoop (2 * st.rest.length + 2) m st

theorem decRun_nil (m : DMode) (st : DSt) (h : st.rest = []) : decRun m st = .ok st := by
  unfold decRun
  unfold mainLoop
  simp [h]

theorem decRun_ascii (st : DSt) (h : st.rest ≠ []) :
    decRun .ascii st =
      match decodeAscii st.rest st.eaten st.out st.ecis false 0 with
      | .error e => .error e
      | .ok (st', m) => decRun m st' := by
  unfold decRun
  rw [mainLoop]
  have he : st.rest.isEmpty = false := by
    cases hr : st.rest with
    | nil => exact absurd hr h
    | cons _ _ => rfl
  simp only [he, Bool.false_eq_true, ↓reduceIte]
  cases hd : decodeAscii st.rest st.eaten st.out st.ecis false 0 with
  | error e => rfl
  | ok r =>
    obtain ⟨st', m'⟩ := r
    have := decodeAscii_rest_le _ _ _ _ _ _ _ _ hd
    have hne : 0 < st.rest.length := List.length_pos_iff.mpr h
    exact fuel_irrel _ _ _ _ (by split <;> omega) (by split <;> omega)

theorem decRun_x12 (st : DSt) (h : st.rest ≠ []) :
    decRun .x12 st =
      match decodeX12 st.rest st.eaten st.out with
      | .error e => .error e
      | .ok (r, e, o) => decRun .ascii { st with rest := r, eaten := e, out := o } := by
  unfold decRun
  rw [mainLoop]
  have he : st.rest.isEmpty = false := by
    cases hr : st.rest with
    | nil => exact absurd hr h
    | cons _ _ => rfl
  simp only [he, Bool.false_eq_true, ↓reduceIte]
  cases hd : decodeX12 st.rest st.eaten st.out with
  | error e => rfl
  | ok r =>
    obtain ⟨r, e, o⟩ := r
    have := decodeX12_rest_le _ _ (Nat.le_refl _) _ _ _ _ _ hd
    exact fuel_irrel _ _ _ _ (by simp only [if_true]; omega) (by simp only [if_true]; omega)

theorem decRun_base256 (st : DSt) (h : st.rest ≠ []) :
    decRun .base256 st =
      match decodeBase256 st.rest st.eaten st.out with
      | .error e => .error e
      | .ok (r, e, o) => decRun .ascii { st with rest := r, eaten := e, out := o } := by
  unfold decRun
  rw [mainLoop]
  have he : st.rest.isEmpty = false := by
    cases hr : st.rest with
    | nil => exact absurd hr h
    | cons _ _ => rfl
  simp only [he, Bool.false_eq_true, ↓reduceIte]
  cases hd : decodeBase256 st.rest st.eaten st.out with
  | error e => rfl
  | ok r =>
    obtain ⟨r, e, o⟩ := r
    have := decodeBase256_rest_lt _ _ _ _ _ _ hd
    exact fuel_irrel _ _ _ _ (by simp only [if_true]; omega) (by simp only [if_true]; omega)

theorem decRun_edifact (st : DSt) (h : st.rest ≠ []) :
    decRun .edifact st =
      decRun .ascii { st with rest := (decodeEdifact st.rest.length st.rest st.eaten st.out).1,
                              eaten := (decodeEdifact st.rest.length st.rest st.eaten st.out).2.1,
                              out := (decodeEdifact st.rest.length st.rest st.eaten st.out).2.2 } := by
  unfold decRun
  conv => lhs; rw [show 2 * st.rest.length + 2 = (2 * st.rest.length + 1) + 1 from rfl, mainLoop]
  have he : st.rest.isEmpty = false := by
    cases hr : st.rest with
    | nil => exact absurd hr h
    | cons _ _ => rfl
  simp only [he, Bool.false_eq_true, ↓reduceIte]
  have := decodeEdifact_rest_le st.rest.length st.rest st.eaten st.out
  exact fuel_irrel _ _ _ _ (by simp only [if_true]; omega) (by simp only [if_true]; omega)

theorem decRun_c40 (st : DSt) (h : st.rest ≠ []) :
    decRun .c40 st =
      match decodeC40 baseC40 shift3C40 st.rest st.eaten st.out { shift := 0, upper := false } with
      | .error e => .error e
      | .ok (r, e, o) => decRun .ascii { st with rest := r, eaten := e, out := o } := by
  unfold decRun
  rw [mainLoop]
  have he : st.rest.isEmpty = false := by
    cases hr : st.rest with
    | nil => exact absurd hr h
    | cons _ _ => rfl
  simp only [he, Bool.false_eq_true, ↓reduceIte]
  cases hd : decodeC40 baseC40 shift3C40 st.rest st.eaten st.out { shift := 0, upper := false } with
  | error e => rfl
  | ok r =>
    obtain ⟨r, e, o⟩ := r
    have := decodeC40_rest_le _ _ _ _ (Nat.le_refl _) _ _ _ _ _ _ hd
    exact fuel_irrel _ _ _ _ (by simp only [if_true]; omega) (by simp only [if_true]; omega)

theorem decRun_text (st : DSt) (h : st.rest ≠ []) :
    decRun .text st =
      match decodeC40 baseText shift3Text st.rest st.eaten st.out { shift := 0, upper := false } with
      | .error e => .error e
      | .ok (r, e, o) => decRun .ascii { st with rest := r, eaten := e, out := o } := by
  unfold decRun
  rw [mainLoop]
  have he : st.rest.isEmpty = false := by
    cases hr : st.rest with
    | nil => exact absurd hr h
    | cons _ _ => rfl
  simp only [he, Bool.false_eq_true, ↓reduceIte]
  cases hd : decodeC40 baseText shift3Text st.rest st.eaten st.out { shift := 0, upper := false } with
  | error e => rfl
  | ok r =>
    obtain ⟨r, e, o⟩ := r
    have := decodeC40_rest_le _ _ _ _ (Nat.le_refl _) _ _ _ _ _ _ hd
    exact fuel_irrel _ _ _ _ (by simp only [if_true]; omega) (by simp only [if_true]; omega)

end DM.Lemmas.DecRun
