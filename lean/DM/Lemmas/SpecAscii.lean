import DM.Lemmas.SpecStep
import DM.Lemmas.MainRT
/-
The reference decoder (`DM.Spec.Stream`) on the output of the ASCII encoder: digit pairs, upper
shift, plain characters; the padding area.
-/
namespace DM.Lemmas.SpecAscii
open DM.Model DM.Lemmas DM.Lemmas.AsciiRT DM.Lemmas.SpecStep DM.Spec.Stream
open DM.Model.Enc (isDigit)

theorem steps_enc1 (cw : Array Nat) (s : St) (ch : Nat) (hch : ch < 256) (hm : s.mode = .ascii)
    (ho : Occurs cw s.i (enc1 ch)) : Steps cw 1 s (emit s (enc1 ch).length [ch] .ascii) := by
  unfold enc1 at ho ⊢
  split at ho
  · rename_i hle
    rw [if_pos hle]
    apply Steps.one
    rw [step_ascii_char cw s (ch + 1) ho.head hm (by omega), push_emit]
    simp
  · rename_i hle
    rw [if_neg hle]
    apply Steps.one
    rw [step_upper_shift cw s (ch - 128 + 1) ho.head ho.tail.head hm (by omega), push_emit]
    have : ch - 128 + 1 - 1 + 128 = ch := by omega
    rw [this]
    simp

theorem steps_pair (cw : Array Nat) (s : St) (a b : Nat) (ha : isDigit a = true) (hb : isDigit b = true)
    (hm : s.mode = .ascii) (ho : Occurs cw s.i [(a - 48) * 10 + (b - 48) + 130]) :
    Steps cw 1 s (emit s 1 [a, b] .ascii) := by
  simp only [isDigit, Bool.and_eq_true, decide_eq_true_eq] at ha hb
  apply Steps.one
  rw [step_ascii_pair cw s _ ho.head hm (by omega), push2_emit]
  have h1 : 48 + ((a - 48) * 10 + (b - 48) + 130 - 130) / 10 = a := by omega
  have h2 : 48 + ((a - 48) * 10 + (b - 48) + 130 - 130) % 10 = b := by omega
  rw [h1, h2]

/-- the reference decoder reads `asciiEnc l` back as `l`, in at most one step per codeword -/
theorem steps_asciiEnc (cw : Array Nat) : ∀ (n : Nat) (l : List Nat), l.length ≤ n → ByteList l → ∀ (s : St),
    s.mode = .ascii → Occurs cw s.i (asciiEnc l) →
    ∃ k, k ≤ (asciiEnc l).length ∧ Steps cw k s (emit s (asciiEnc l).length l .ascii) := by
  intro n
  induction n with
  | zero =>
    intro l hl _ s _ _
    have : l = [] := List.length_eq_zero_iff.mp (by omega)
    subst this
    exact ⟨0, by simp, by simp only [asciiEnc, List.length_nil]; rw [emit_zero]; exact Steps.refl cw s⟩
  | succ n ih =>
    intro l hl hb s hm ho
    match l, hb with
    | [], _ => exact ⟨0, by simp, by simp only [asciiEnc, List.length_nil]; rw [emit_zero]; exact Steps.refl cw s⟩
    | [a], hb =>
      simp only [asciiEnc] at ho ⊢
      refine ⟨1, ?_, steps_enc1 cw s a hb.head hm ho⟩
      unfold enc1; split <;> simp
    | a :: b :: t, hb =>
      simp only [asciiEnc] at ho ⊢
      split at ho
      · rename_i hd
        rw [if_pos hd]
        simp only [Bool.and_eq_true] at hd
        have h1 := steps_pair cw s a b hd.1 hd.2 hm (by intro k hk; simp at hk; subst hk; simpa using ho.head)
        obtain ⟨k, hk, h2⟩ := ih t (by simp only [List.length_cons] at hl; omega) hb.tail.tail
          (emit s 1 [a, b] .ascii) (by simpa using hm) (by simpa using ho.tail)
        refine ⟨1 + k, by simp only [List.length_cons]; omega, ?_⟩
        have := h1.trans h2
        rw [emit_emit] at this
        simpa [Nat.add_comm] using this
      · rename_i hd
        rw [if_neg hd]
        have h1 := steps_enc1 cw s a hb.head hm ho.left
        obtain ⟨k, hk, h2⟩ := ih (b :: t) (by simp only [List.length_cons] at hl ⊢; omega) hb.tail
          (emit s (enc1 a).length [a] .ascii) (by simpa using hm) (by simpa using ho.right)
        have h0 : 1 ≤ (enc1 a).length := by unfold enc1; split <;> simp
        refine ⟨1 + k, by simp only [List.length_append]; omega, ?_⟩
        have := h1.trans h2
        rw [emit_emit] at this
        simpa using this


/-! ### encoder side: the ASCII plans behind any prefix -/

def startP (list : List Sym) (pre body : List Nat) (plan : List (Nat × Enc.EMode)) : Enc.St :=
  { input := body, pos := 0, mode := .ascii, plan := plan, newMode := none, cw := pre, list := list }

def endP (list : List Sym) (pre body : List Nat) : Enc.St :=
  { input := body, pos := body.length, mode := .ascii, plan := [(0, .ascii)], newMode := none,
    cw := pre ++ asciiEnc body, list := list }

/-- the planner's form of the pure ASCII plan: the first entry is popped without a mode change -/
theorem asciiLoop_planner (f : Nat) (s : Enc.St) (hm : s.mode = .ascii) (hp : s.plan = [(s.charsLeft, .ascii), (0, .ascii)])
    (hpos : 0 < s.charsLeft) :
    Enc.asciiLoop (f + 1) s = Enc.asciiLoop (f + 1) { s with plan := [(0, .ascii)] } := by
  have h1 : s.maybeSwitch = .ok (false, { s with plan := [(0, .ascii)] }) := by
    unfold Enc.St.maybeSwitch
    rw [hp]
    simp only [Nat.lt_irrefl, ↓reduceIte, hpos, and_self, hm, ne_eq, not_true_eq_false]
  have h2 := maybeSwitch_ascii_end { s with plan := [(0, .ascii)] } rfl hm
  rw [Enc.asciiLoop, Enc.asciiLoop, h1, h2]

theorem mainLoop_asciiP (list : List Sym) (pre body : List Nat) (plan : List (Nat × Enc.EMode))
    (hplan : plan = [(0, .ascii)] ∨ plan = [(body.length, .ascii), (0, .ascii)]) :
    ∃ sE, Enc.mainLoop (2 * body.length + 8) (startP list pre body plan) 0 = .ok sE ∧
      sE.cw = pre ++ asciiEnc body ∧ sE.mode = .ascii := by
  by_cases hempty : body = []
  · subst hempty
    refine ⟨startP list pre [] plan, ?_, by simp [startP, asciiEnc], rfl⟩
    rw [Enc.mainLoop]
    simp [Enc.St.hasMore, startP]
  · have hpos : 0 < body.length := List.length_pos_iff.mpr hempty
    refine ⟨endP list pre body, ?_, rfl, rfl⟩
    rw [Enc.mainLoop]
    have hm : (startP list pre body plan).hasMore = true := by simp [Enc.St.hasMore, startP, hpos]
    simp only [hm, Bool.not_true, Bool.false_eq_true, ↓reduceIte]
    have hnm : (startP list pre body plan).newMode = none := rfl
    simp only [hnm, Enc.encodeMode]
    have hmode : (startP list pre body plan).mode = .ascii := rfl
    simp only [hmode]
    have hloop : Enc.asciiLoop ((startP list pre body plan).charsLeft + 2) (startP list pre body plan) =
        .ok (endP list pre body) := by
      have h0 := asciiLoop_spec body.length ((startP list pre body [(0, .ascii)]).charsLeft + 2)
        (startP list pre body [(0, .ascii)]) rfl rfl
        (by simp [startP]) (by simp [startP]) (by simp [Enc.St.charsLeft, startP])
      rcases hplan with rfl | rfl
      · rw [h0]; simp [startP, endP, Enc.St.rest]
      · have hc : (startP list pre body [(body.length, .ascii), (0, .ascii)]).charsLeft = body.length := by
          simp [Enc.St.charsLeft, startP]
        rw [asciiLoop_planner _ _ rfl (by rw [hc]; rfl) (by rw [hc]; exact hpos)]
        have : ({ startP list pre body [(body.length, .ascii), (0, .ascii)] with plan := [(0, .ascii)] } : Enc.St) =
            startP list pre body [(0, .ascii)] := rfl
        rw [this]
        have hc2 : (startP list pre body [(body.length, .ascii), (0, .ascii)]).charsLeft =
            (startP list pre body [(0, .ascii)]).charsLeft := rfl
        rw [hc2, h0]; simp [startP, endP, Enc.St.rest]
    rw [hloop]
    have hd : ∀ f k, Enc.mainLoop (f + 1) (endP list pre body) k = .ok (endP list pre body) := by
      intro f k
      rw [Enc.mainLoop]
      simp [Enc.St.hasMore, endP]
    simp only []
    split
    · simp only [endP, startP, List.length_append] at *
      omega
    · split
      · split
        · omega
        · exact hd _ _
      · exact hd _ _


/-! ### decoder side: ASCII codewords and the padding area -/

theorem getBang_toArray (l : List Nat) (j : Nat) : l.toArray[j]! = l.getD j 0 := by
  simp [List.getD_eq_getElem?_getD]

/-- the final state of the reference decoder on a pure ASCII stream -/
def asciiFinal (n : Nat) (body : List Nat) (padAt : Option Nat) : DM.Spec.Stream.St :=
  { i := n, out := body.toArray, trace := Array.replicate body.length .ascii, padAt := padAt }

/-- **The reference decoder on `pre ++ asciiEnc body ++ padding`, started behind `pre`.** -/
theorem spec_run_ascii (cwl pre body : List Nat) (hb : ByteList body) (L : Nat)
    (hL : L = pre.length + (asciiEnc body).length) (hlen : L ≤ cwl.length)
    (htake : cwl.take L = pre ++ asciiEnc body)
    (h129 : L < cwl.length → cwl.getD L 0 = 129)
    (hpads : ∀ i, L < i → i < cwl.length → unrand253 (cwl.getD i 0) (i + 1) = 129) :
    run cwl.toArray (3 * cwl.length + 4) { i := pre.length } =
      .ok (asciiFinal cwl.length body (if L = cwl.length then none else some L)) := by
  subst hL
  have ho := occurs_of_take cwl pre (asciiEnc body) htake
  obtain ⟨k, hk, hsteps⟩ := steps_asciiEnc cwl.toArray body.length body (Nat.le_refl _) hb { i := pre.length } rfl ho
  have hs1 : emit ({ i := pre.length } : DM.Spec.Stream.St) (asciiEnc body).length body .ascii =
      asciiFinal (pre.length + (asciiEnc body).length) body none := by
    simp [emit, asciiFinal]
  rw [hs1] at hsteps
  by_cases hfull : pre.length + (asciiEnc body).length = cwl.length
  · rw [if_pos hfull, ← hfull]
    exact hsteps.finish (step_end _ _ (by simp [asciiFinal]; omega)) (by omega)
  · rw [if_neg hfull]
    have hlt : pre.length + (asciiEnc body).length < cwl.length := by omega
    have hpad : step cwl.toArray (asciiFinal (pre.length + (asciiEnc body).length) body none) =
        .ok (some (asciiFinal cwl.length body (some (pre.length + (asciiEnc body).length)))) := by
      have hc : cwl.toArray[(asciiFinal (pre.length + (asciiEnc body).length) body none).i]? = some 129 := by
        simp only [asciiFinal, List.getElem?_toArray]
        have := h129 hlt
        rw [List.getD_eq_getElem?_getD, List.getElem?_eq_getElem hlt] at this
        rw [List.getElem?_eq_getElem hlt]
        simpa using this
      rw [step_pad _ _ hc rfl]
      · simp [asciiFinal]
      · intro j h1 h2
        rw [getBang_toArray]
        exact hpads j h1 (by simpa using h2)
    exact (hsteps.trans (Steps.one hpad)).finish (step_end _ _ (by simp [asciiFinal])) (by omega)


/-! ### ASCII stretches under arbitrary plans

`SpecSeg X chunk`: wherever the codewords `X` stand in a stream and the reference decoder arrives
there in ASCII mode, it reads them as `chunk` (all of it carried by ASCII), in at most one step
per codeword, and is in ASCII mode behind them. The counterpart of `EncRT.AsciiSeg` (which speaks
about the crate's decoder model); `asciiLoop_specGen` is `EncRT.asciiLoop_gen` for it. -/

def SpecSeg (X chunk : List Nat) : Prop :=
  (∀ c ∈ X, c ≠ 254 ∧ c ≠ 129 ∧ c ≠ 232 ∧ c ≠ 236 ∧ c ≠ 237) ∧
  ∀ (cw : Array Nat) (s : DM.Spec.Stream.St), s.mode = .ascii → Occurs cw s.i X →
    ∃ k, k ≤ X.length ∧ Steps cw k s (emit s X.length chunk .ascii)

theorem specSeg_nil : SpecSeg [] [] :=
  ⟨by simp, fun cw s _ _ => ⟨0, by simp, by rw [List.length_nil, emit_zero]; exact Steps.refl cw s⟩⟩

theorem specSeg_append {X Y c d : List Nat} (h1 : SpecSeg X c) (h2 : SpecSeg Y d) : SpecSeg (X ++ Y) (c ++ d) := by
  refine ⟨?_, ?_⟩
  · intro x hx
    rcases List.mem_append.mp hx with h | h
    · exact h1.1 x h
    · exact h2.1 x h
  · intro cw s hm ho
    obtain ⟨k1, hk1, hs1⟩ := h1.2 cw s hm ho.left
    obtain ⟨k2, hk2, hs2⟩ := h2.2 cw (emit s X.length c .ascii) (by simpa using hm) (by simpa using ho.right)
    refine ⟨k1 + k2, by simp only [List.length_append]; omega, ?_⟩
    have := hs1.trans hs2
    rw [emit_emit] at this
    simpa using this

theorem specSeg_enc1 (ch : Nat) (h : ch < 256) : SpecSeg (enc1 ch) [ch] := by
  refine ⟨?_, fun cw s hm ho => ⟨1, by unfold enc1; split <;> simp, steps_enc1 cw s ch h hm ho⟩⟩
  intro c hc
  unfold enc1 at hc
  split at hc
  · simp only [List.mem_singleton] at hc; omega
  · simp only [List.mem_cons, List.not_mem_nil, or_false] at hc
    rcases hc with rfl | rfl <;> omega

theorem specSeg_pair (a b : Nat) (ha : isDigit a = true) (hb : isDigit b = true) :
    SpecSeg [(a - 48) * 10 + (b - 48) + 130] [a, b] := by
  refine ⟨?_, fun cw s hm ho => ⟨1, by simp, steps_pair cw s a b ha hb hm ho⟩⟩
  intro c hc
  simp only [isDigit, Bool.and_eq_true, decide_eq_true_eq] at ha hb
  simp only [List.mem_singleton] at hc
  omega

open DM.Lemmas.EncRT in
/-- the ASCII encoder under any plan: what it appends is read back by the reference decoder as
the stretch of the message it consumed -/
theorem asciiLoop_specGen : ∀ (f : Nat) (s s' : Enc.St), Enc.asciiLoop f s = .ok s' → ByteList s.input →
    ∃ X, s'.cw = s.cw ++ X ∧ SpecSeg X ((s.input.drop s.pos).take (s'.pos - s.pos)) ∧ s.pos ≤ s'.pos ∧
      SameRun s s' ∧ (∀ e ∈ s'.plan, e ∈ s.plan) ∧ Exit s s' := by
  intro f
  induction f with
  | zero => intro s s' h; cases h
  | succ f ih =>
    intro s s' h hb
    unfold Enc.asciiLoop at h
    cases hm : s.maybeSwitch with
    | error e => rw [hm] at h; cases h
    | ok r =>
      obtain ⟨b, s1⟩ := r
      rw [hm] at h
      obtain ⟨hsame, hpos, hcw, hplan, hf, ht⟩ := maybeSwitch_spec s s1 b hm
      cases b with
      | true =>
        simp only [Except.ok.injEq] at h
        subst h
        obtain ⟨h1, h2, h3, h4⟩ := ht rfl
        refine ⟨[], by simp [hcw], ?_, by omega, hsame, hplan, Or.inr ⟨h1, ?_, h3, h4⟩⟩
        · rw [hpos]; simpa using specSeg_nil
        · simpa [Enc.St.hasMore, hpos, hsame.1] using h2
      | false =>
        simp only [] at h
        obtain ⟨hmode, hnm⟩ := hf rfl
        have hb1 : ByteList s1.input := by rw [hsame.1]; exact hb
        -- a continuation `s2` of `s1` that has consumed `chunk` and written `Y`
        have step : ∀ (s2 : Enc.St) (Y chunk : List Nat), Enc.asciiLoop f s2 = .ok s' → s2.input = s1.input → s2.list = s1.list →
            s2.plan = s1.plan → s2.mode = s1.mode → s2.newMode = s1.newMode → s2.cw = s1.cw ++ Y →
            s2.pos = s1.pos + chunk.length → SpecSeg Y chunk →
            (s1.input.drop s1.pos).take chunk.length = chunk →
            ∃ X, s'.cw = s.cw ++ X ∧ SpecSeg X ((s.input.drop s.pos).take (s'.pos - s.pos)) ∧ s.pos ≤ s'.pos ∧
              SameRun s s' ∧ (∀ e ∈ s'.plan, e ∈ s.plan) ∧ Exit s s' := by
          intro s2 Y chunk h2 e1 e2 e3 e4 e5 e6 e7 hY hchunk
          obtain ⟨X2, c1, c2, c3, c4, c5, c6⟩ := ih s2 s' h2 (by rw [e1]; exact hb1)
          refine ⟨Y ++ X2, by rw [c1, e6, hcw, List.append_assoc], ?_, by omega,
            ⟨c4.1.trans (e1.trans hsame.1), c4.2.trans (e2.trans hsame.2)⟩,
            fun e he => hplan e (by rw [← e3]; exact c5 e he), ?_⟩
          · have hsplit : (s.input.drop s.pos).take (s'.pos - s.pos) =
                chunk ++ (s2.input.drop s2.pos).take (s'.pos - s2.pos) := by
              have key : ∀ (I : List Nat) (p q n : Nat), p + n ≤ q →
                  (I.drop p).take (q - p) = (I.drop p).take n ++ (I.drop (p + n)).take (q - (p + n)) := by
                intro I p q n hle
                have : q - p = n + (q - (p + n)) := by omega
                rw [this, List.take_add, List.drop_drop]
              rw [e1, e7, hsame.1, hpos, key s.input s.pos s'.pos chunk.length (by omega)]
              congr 1
              rw [← hsame.1, ← hpos]
              exact hchunk
            rw [hsplit]
            exact specSeg_append hY c2
          · rcases c6 with ⟨a1, a2, a3⟩ | ⟨a1, a2, a3, a4⟩
            · exact Or.inl ⟨a1, by rw [a2, e4, hmode], by rw [a3, e5, hnm]⟩
            · refine Or.inr ⟨by rw [← hmode, ← e4]; exact a1, a2, ?_, by rw [a4, e5, hnm]⟩
              obtain ⟨p, hp⟩ := a3
              exact ⟨p, hplan _ (by rw [← e3]; exact hp)⟩
        by_cases htd : Enc.twoDigitsComing s1.rest = true
        · rw [if_pos htd] at h
          match hr : s1.rest, htd with
          | a :: b :: t, htd =>
            rw [hr] at h
            simp only [] at h
            simp only [Enc.twoDigitsComing, Bool.and_eq_true] at htd
            have hlt : s1.pos + 1 < s1.input.length := by
              have : (s1.input.drop s1.pos).length = (a :: b :: t).length := by rw [← hr]; rfl
              simp only [List.length_drop, List.length_cons] at this
              omega
            have hchunk : (s1.input.drop s1.pos).take 2 = [a, b] := by
              have : s1.input.drop s1.pos = a :: b :: t := hr
              rw [this]; rfl
            exact step _ [(a - 48) * 10 + (b - 48) + 130] [a, b] h rfl rfl rfl rfl rfl (by simp [Enc.St.push]) (by simp [Enc.St.push])
              (specSeg_pair a b htd.1 htd.2) hchunk
          | [], htd => simp [Enc.twoDigitsComing] at htd
          | [_], htd => simp [Enc.twoDigitsComing] at htd
        · rw [if_neg htd] at h
          cases he : s1.eat with
          | none =>
            rw [he] at h
            simp only [Except.ok.injEq] at h
            subst h
            have hnm' : s1.hasMore = false := by
              simp only [Enc.St.eat] at he
              split at he
              · cases he
              · rename_i hnone
                simp only [Enc.St.hasMore]
                have := List.getElem?_eq_none_iff.mp hnone
                simp; omega
            refine ⟨[], by simp [hcw], ?_, by omega, hsame, hplan, Or.inl ⟨hnm', hmode, hnm⟩⟩
            rw [hpos]; simpa using specSeg_nil
          | some r2 =>
            obtain ⟨ch, s2⟩ := r2
            rw [he] at h
            simp only [] at h
            have hs2 : s1.pos < s1.input.length ∧ ch = s1.input[s1.pos]! ∧ s2 = { s1 with pos := s1.pos + 1 } := by
              simp only [Enc.St.eat] at he
              split at he
              · rename_i c hc
                simp only [Option.some.injEq, Prod.mk.injEq] at he
                have hlt := (List.getElem?_eq_some_iff.mp hc).1
                refine ⟨hlt, ?_, he.2.symm⟩
                rw [← he.1]
                simp [List.getElem?_eq_getElem hlt] at hc ⊢
                exact hc.symm
              · cases he
            obtain ⟨hlt, hch, hs2e⟩ := hs2
            have hgetch : s1.input[s1.pos] = ch := by rw [hch]; simp [hlt]
            have hchlt : ch < 256 := by rw [← hgetch]; exact hb1 _ (List.getElem_mem hlt)
            have hchunk : (s1.input.drop s1.pos).take 1 = [ch] := by
              rw [List.drop_eq_getElem_cons hlt, hgetch]; rfl
            subst hs2e
            split at h
            · rename_i hle
              have hY : SpecSeg [ch + 1] [ch] := by
                have := specSeg_enc1 ch hchlt
                simpa [enc1, hle] using this
              exact step _ [ch + 1] [ch] h rfl rfl rfl rfl rfl (by simp [Enc.St.push]) (by simp [Enc.St.push]) hY hchunk
            · rename_i hle
              have hY : SpecSeg [235, ch - 128 + 1] [ch] := by
                have := specSeg_enc1 ch hchlt
                simpa [enc1, hle] using this
              exact step _ [235, ch - 128 + 1] [ch] h rfl rfl rfl rfl rfl (by simp [Enc.St.push]) (by simp [Enc.St.push]) hY hchunk

end DM.Lemmas.SpecAscii
