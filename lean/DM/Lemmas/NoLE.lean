import DM.Model.Encode
/-
`SymbolListEmpty` is answered only for an empty symbol list: no function of the encoder model
below `run` can produce that error (C11's "if and only if").
-/
namespace DM.Lemmas.NoLE
open DM.Model DM.Model.Enc DM.Gen

/-- the result is not the error `SymbolListEmpty` -/
def NoLE {α : Type} (r : R α) : Prop := r ≠ .error .listEmpty

theorem nole_sizeLeftE (s : St) (extra : Nat) : NoLE (s.sizeLeftE extra) := by
  intro h; unfold St.sizeLeftE at h; split at h <;> cases h

theorem nole_backup (s : St) (n : Nat) : NoLE (s.backup n) := by
  intro h; unfold St.backup at h; split at h <;> cases h

theorem nole_maybeSwitch (s : St) : NoLE s.maybeSwitch := by
  intro h; unfold St.maybeSwitch at h
  split at h
  · cases h
  · dsimp only at h
    repeat' split at h
    all_goals cases h

/-- close a leaf `h : leaf = .error .listEmpty` -/
macro "nole_leaf" : tactic => `(tactic| first
  | (cases ‹_ = Except.error EErr.listEmpty›; done)
  | (cases ‹_ = Except.error EErr.listEmpty›; first
      | exact nole_sizeLeftE _ _ (by assumption)
      | exact nole_backup _ _ (by assumption)
      | exact nole_maybeSwitch _ (by assumption)))

theorem nole_asciiLoop : ∀ (f : Nat) (s : St), NoLE (asciiLoop f s) := by
  intro f
  induction f with
  | zero => intro s h; unfold asciiLoop at h; cases h
  | succ f ih =>
    intro s h
    unfold asciiLoop at h
    repeat' split at h
    all_goals first | exact ih _ h | nole_leaf

theorem nole_b256WriteLength (s : St) (start : Nat) : NoLE (b256WriteLength s start) := by
  intro h; unfold b256WriteLength at h
  dsimp only at h
  repeat' split at h
  all_goals first | nole_leaf | skip
  all_goals (rename_i heq; repeat' split at heq)
  all_goals first | (cases heq; done) | (cases h; cases heq)

theorem nole_b256Loop (start : Nat) : ∀ (f : Nat) (s : St), NoLE (b256Loop start f s) := by
  intro f
  induction f with
  | zero => intro s h; unfold b256Loop at h; cases h
  | succ f ih =>
    intro s h
    unfold b256Loop at h
    dsimp only at h
    repeat' split at h
    all_goals first
      | exact ih _ h
      | nole_leaf
      | (cases h; exact nole_b256WriteLength _ _ (by assumption))

theorem nole_b256Encode (s : St) : NoLE (b256Encode s) := nole_b256Loop _ _ _

theorem nole_c40Low (ch : Nat) : NoLE (c40Low ch) := by
  intro h; unfold c40Low at h
  repeat' split at h
  all_goals cases h

theorem nole_textLow (ch : Nat) : NoLE (textLow ch) := nole_c40Low _

theorem nole_toVals (text : Bool) (buf : List Nat) (ch : Nat) : NoLE (toVals text buf ch) := by
  have hl : ∀ c, NoLE ((if text = true then textLow else c40Low) c) := by
    intro c
    cases text
    · exact nole_c40Low c
    · exact nole_textLow c
  intro h; unfold toVals at h
  dsimp only at h
  split at h
  · cases h
    rename_i heq
    split at heq
    · exact hl _ heq
    · split at heq
      · cases heq
      · cases heq; exact hl _ (by assumption)
  · split at h <;> cases h

theorem nole_c40HandleEnd (s : St) (lastCh : Nat) (buf : List Nat) : NoLE (c40HandleEnd s lastCh buf) := by
  intro h; unfold c40HandleEnd at h
  dsimp only at h
  split at h
  · cases h
  split at h
  · -- the early part failed
    cases h
    rename_i heq
    repeat' split at heq
    all_goals first
      | (cases heq; done)
      | (cases heq; first
          | exact nole_sizeLeftE _ _ (by assumption)
          | exact nole_backup _ _ (by assumption))
  · cases h
  · repeat' split at h
    all_goals nole_leaf

theorem nole_c40Loop (text : Bool) : ∀ (f : Nat) (s : St) (buf : List Nat) (lastCh : Nat),
    NoLE (c40Loop text f s buf lastCh) := by
  intro f
  induction f with
  | zero => intro s buf lastCh h; unfold c40Loop at h; cases h
  | succ f ih =>
    intro s buf lastCh h
    unfold c40Loop at h
    dsimp only at h
    repeat' split at h
    all_goals first
      | exact ih _ _ _ h
      | exact nole_c40HandleEnd _ _ _ h
      | nole_leaf
      | (cases h; exact nole_toVals _ _ _ (by assumption))

theorem nole_c40Encode (text : Bool) (s : St) : NoLE (c40Encode text s) := nole_c40Loop _ _ _ _ _

theorem nole_x12Enc (ch : Nat) : NoLE (x12Enc ch) := by
  intro h; unfold x12Enc at h
  repeat' split at h
  all_goals cases h

theorem nole_x12Loop : ∀ (f : Nat) (s : St), NoLE (x12Loop f s) := by
  intro f
  induction f with
  | zero => intro s h; unfold x12Loop at h; cases h
  | succ f ih =>
    intro s h
    unfold x12Loop at h
    repeat' (split at h <;> try dsimp only at h)
    all_goals first
      | exact ih _ h
      | nole_leaf
      | (cases h; exact nole_x12Enc _ (by assumption))

theorem nole_x12Encode (s : St) : NoLE (x12Encode s) := by
  intro h; unfold x12Encode at h
  split at h
  · cases h; exact nole_x12Loop _ _ (by assumption)
  · dsimp only at h
    split at h
    · cases h
      rename_i heq
      repeat' split at heq
      all_goals first | (cases heq; done) | (cases heq; exact nole_sizeLeftE _ _ (by assumption))
    · cases h
    · split at h
      · cases h
        rename_i heq
        repeat' split at heq
        all_goals first | (cases heq; done) | (cases heq; exact nole_sizeLeftE _ _ (by assumption))
      · cases h
      · cases h

theorem nole_edifactTryAsciiEnd (s : St) (sym : List Nat) : NoLE (edifactTryAsciiEnd s sym) := by
  intro h; unfold edifactTryAsciiEnd at h
  dsimp only at h
  repeat' split at h
  all_goals nole_leaf

theorem nole_edifactHandleEnd (s : St) (sym : List Nat) : NoLE (edifactHandleEnd s sym) := by
  intro h; unfold edifactHandleEnd at h
  repeat' split at h
  all_goals first
    | nole_leaf
    | (cases h; exact nole_edifactTryAsciiEnd _ _ (by assumption))

theorem nole_edifactLoop : ∀ (f : Nat) (s : St) (sym : List Nat), NoLE (edifactLoop f s sym) := by
  intro f
  induction f with
  | zero => intro s sym h; unfold edifactLoop at h; cases h
  | succ f ih =>
    intro s sym h
    unfold edifactLoop at h
    dsimp only at h
    split at h
    · cases h
      rename_i heq
      split at heq
      · exact nole_edifactTryAsciiEnd _ _ heq
      · cases heq
    · cases h
    · repeat' split at h
      all_goals first
        | exact ih _ _ h
        | exact nole_edifactHandleEnd _ _ h
        | nole_leaf

theorem nole_edifactEncode (s : St) : NoLE (edifactEncode s) := nole_edifactLoop _ _ _

theorem nole_encodeMode (s : St) : NoLE (encodeMode s) := by
  unfold encodeMode
  split
  · exact nole_asciiLoop _ _
  · exact nole_c40Encode _ _
  · exact nole_c40Encode _ _
  · exact nole_x12Encode _
  · exact nole_edifactEncode _
  · exact nole_b256Encode _

theorem nole_mainLoop : ∀ (f : Nat) (s : St) (nw : Nat), NoLE (Enc.mainLoop f s nw) := by
  intro f
  induction f with
  | zero => intro s nw h; unfold Enc.mainLoop at h; cases h
  | succ f ih =>
    intro s nw h
    unfold Enc.mainLoop at h
    dsimp only at h
    repeat' split at h
    all_goals first
      | exact ih _ _ h
      | (cases h; done)
      | (cases h; exact nole_encodeMode _ (by assumption))

end DM.Lemmas.NoLE
