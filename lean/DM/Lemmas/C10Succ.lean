import DM.Lemmas.C10AB
/-!
Where the candidates of one pass of `iteratePlans` come from and which ones are certainly there
(`iterate_sub`, `addSwitches_mem`, `addSwitches_ascii_child`), and the ASCII successor of an ASCII or
Base 256 plan under the potential `C10AB.phi` (used by `DM/Props/C10Ascii.lean`).
-/
namespace DM.Lemmas.C10Succ
open DM.Model DM.Model.Plan DM.Model.Enc DM.Lemmas DM.Lemmas.PlanInv DM.Lemmas.PlanLoop
open DM.Lemmas.CoupleAscii DM.Lemmas.C10Live DM.Lemmas.C10Pot DM.Lemmas.C10Prune DM.Lemmas.C10AB

/-- the candidate `add_switches` builds for mode `m` (before its first step) -/
def candOf (g : GPlan) (restLen : Nat) (asStart : Bool) (ac : Nat) (ctx : Ctx) (m : EMode) (ce : Nat) : GPlan :=
  { extra := ac + ce * 12, switches := if asStart then [(restLen, m)] else g.switches ++ [(restLen, m)],
    plan := newPlan m (ctx.write ce) }

theorem addSwitchesGo_mem (g : GPlan) (restLen : Nat) (asStart : Bool) (modes ac : Nat) (ctx : Ctx) :
    ∀ (t : List (EMode × Nat)) (acc : List GPlan) (n : Nat) (l : List GPlan) (n' : Nat),
      addSwitchesGo g restLen asStart modes ac ctx t acc n = .ok (l, n') →
      (∀ c ∈ acc, c ∈ l) ∧ ∀ c ∈ l, c ∈ acc ∨ ∃ m ce r, (m, ce) ∈ t ∧ g.current ≠ m ∧ enabledMode modes m = true ∧
        (candOf g restLen asStart ac ctx m ce).step = .ok (some (c, r)) := by
  intro t
  induction t with
  | nil =>
    intro acc n l n' h
    simp only [addSwitchesGo, Except.ok.injEq, Prod.mk.injEq] at h
    rw [← h.1]
    exact ⟨fun c hc => List.mem_reverse.mpr hc, fun c hc => Or.inl (List.mem_reverse.mp hc)⟩
  | cons e t ih =>
    intro acc n l n' h
    obtain ⟨m, ce⟩ := e
    have lift : ∀ c, (∃ m' ce' r, (m', ce') ∈ t ∧ g.current ≠ m' ∧ enabledMode modes m' = true ∧
        (candOf g restLen asStart ac ctx m' ce').step = .ok (some (c, r))) →
        ∃ m' ce' r, (m', ce') ∈ (m, ce) :: t ∧ g.current ≠ m' ∧ enabledMode modes m' = true ∧
        (candOf g restLen asStart ac ctx m' ce').step = .ok (some (c, r)) := by
      rintro c ⟨m', ce', r, h1, h2⟩
      exact ⟨m', ce', r, List.mem_cons_of_mem _ h1, h2⟩
    unfold addSwitchesGo at h
    split at h
    · rename_i hcond
      simp only [] at h
      split at h
      · cases h
      · obtain ⟨i1, i2⟩ := ih _ _ _ _ h
        exact ⟨i1, fun c hc => (i2 c hc).imp id (lift c)⟩
      · rename_i c0 r0 hst
        obtain ⟨i1, i2⟩ := ih _ _ _ _ h
        refine ⟨fun c hc => i1 c (List.mem_cons_of_mem _ hc), ?_⟩
        intro c hc
        rcases i2 c hc with h1 | h1
        · rcases List.mem_cons.mp h1 with rfl | h1
          · exact Or.inr ⟨m, ce, r0, List.mem_cons_self .., hcond.1, hcond.2, hst⟩
          · exact Or.inl h1
        · exact Or.inr (lift c h1)
    · obtain ⟨i1, i2⟩ := ih _ _ _ _ h
      exact ⟨i1, fun c hc => (i2 c hc).imp id (lift c)⟩

/-- every plan `add_switches` pushes is the first step of a fresh plan of another enabled mode -/
theorem addSwitches_mem {g : GPlan} {restLen : Nat} {asStart : Bool} {modes : Nat} {l : List GPlan} {n : Nat}
    (h : g.addSwitches restLen asStart modes = .ok (l, n)) :
    ∀ c ∈ l, ∃ s ctx m ce r, g.switchCost = some s ∧ g.unlatch = .ok ctx ∧ (m, ce) ∈ switchTargets ∧
      g.current ≠ m ∧ enabledMode modes m = true ∧
      (candOf g restLen asStart s ctx m ce).step = .ok (some (c, r)) := by
  intro c hc
  unfold GPlan.addSwitches at h
  split at h
  · simp only [Except.ok.injEq, Prod.mk.injEq] at h
    rw [← h.1] at hc; cases hc
  · rename_i s hs
    split at h
    · cases h
    · rename_i ctx hu
      split at h
      · split at h
        · cases h
        · simp only [Except.ok.injEq, Prod.mk.injEq] at h
          rw [← h.1] at hc; cases hc
      · rcases (addSwitchesGo_mem _ _ _ _ _ _ _ _ _ _ _ h).2 c hc with h1 | ⟨m, ce, r, h1, h2, h3, h4⟩
        · cases h1
        · exact ⟨s, ctx, m, ce, r, hs, hu, h1, h2, h3, h4⟩

/-- ... and the ASCII one is among them -/
theorem addSwitches_ascii_child {g : GPlan} {restLen : Nat} {asStart : Bool} {modes : Nat} {l : List GPlan} {n s : Nat}
    (hasc : enabledMode modes .ascii = true) (hcur : g.current ≠ .ascii) (hs : g.switchCost = some s)
    (h : g.addSwitches restLen asStart modes = .ok (l, n)) :
    ∃ ctx c r, g.unlatch = .ok ctx ∧ c ∈ l ∧ (candOf g restLen asStart s ctx .ascii 0).step = .ok (some (c, r)) := by
  unfold GPlan.addSwitches at h
  rw [hs] at h
  simp only [] at h
  split at h
  · cases h
  · rename_i ctx hu
    split at h
    · split at h
      · cases h
      · rename_i hany
        exfalso
        apply hany
        simp [switchTargets, hcur, hasc]
    · unfold switchTargets at h
      unfold addSwitchesGo at h
      rw [if_pos ⟨hcur, hasc⟩] at h
      simp only [] at h
      split at h
      · cases h
      · rename_i hst
        exfalso
        exact step_none_not_ascii hst (by simp [GPlan.current, newPlan, PlanImpl.mode])
      · rename_i c r hst
        exact ⟨ctx, c, r, hu, (addSwitchesGo_mem _ _ _ _ _ _ _ _ _ _ _ h).1 c (List.mem_cons_self ..), hst⟩

/-- what is certainly among the candidates of one pass -/
theorem iterate_sub (rc : Nat) (as : Bool) (modes : Nat) :
    ∀ (plans acc : List GPlan) (steps : Nat) (atEnd : Bool) (res : List GPlan × Nat × Bool),
      iteratePlans rc as modes plans acc steps atEnd = .ok res →
      (∀ x ∈ acc, x ∈ res.1) ∧ ∀ g ∈ plans,
        (g.step = .ok none → ∃ sw n, g.addSwitches rc as modes = .ok (sw, n) ∧ ∀ c ∈ sw, c ∈ res.1) ∧
        (∀ g' r, g.step = .ok (some (g', r)) → g' ∈ res.1 ∧
          ((!r.unbeatable) = true ∧ (!r.end) = true →
            ∃ sw n, g.addSwitches rc as modes = .ok (sw, n) ∧ ∀ c ∈ sw, c ∈ res.1)) := by
  intro plans
  induction plans with
  | nil =>
    intro acc steps atEnd res h
    simp only [iteratePlans, Except.ok.injEq] at h
    rw [← h]
    exact ⟨fun x hx => hx, fun g hg => by cases hg⟩
  | cons plan rest ih =>
    intro acc steps atEnd res h
    unfold iteratePlans at h
    split at h
    · cases h
    · rename_i hst
      split at h
      · cases h
      · rename_i sw n hsw
        obtain ⟨i1, i2⟩ := ih _ _ _ _ h
        refine ⟨fun x hx => i1 x (List.mem_append_left _ hx), ?_⟩
        intro g hg
        rcases List.mem_cons.mp hg with rfl | hg
        · refine ⟨fun _ => ⟨sw, n, hsw, fun c hc => i1 c (List.mem_append_right _ hc)⟩, ?_⟩
          intro g' r hs
          rw [hst] at hs; cases hs
        · exact i2 g hg
    · rename_i stepped result hst
      simp only [] at h
      split at h
      · cases h
      · rename_i sw n hsw
        split at h
        · cases h
        · obtain ⟨i1, i2⟩ := ih _ _ _ _ h
          refine ⟨fun x hx => i1 x (List.mem_append_left _ (List.mem_append_left _ hx)), ?_⟩
          intro g hg
          rcases List.mem_cons.mp hg with rfl | hg
          · refine ⟨fun hs => (by rw [hst] at hs; cases hs), ?_⟩
            intro g' r hs
            rw [hst] at hs
            simp only [Except.ok.injEq, Option.some.injEq, Prod.mk.injEq] at hs
            obtain ⟨rfl, rfl⟩ := hs
            refine ⟨i1 _ (List.mem_append_left _ (List.mem_append_right _ (List.mem_singleton.mpr rfl))), ?_⟩
            intro hcond
            rw [if_pos hcond] at hsw
            exact ⟨sw, n, hsw, fun c hc => i1 c (List.mem_append_right _ hc)⟩
          · exact i2 g hg

/-! ### `Norm` of the children -/

theorem targets_ascii : ∀ e ∈ switchTargets, e.1 = .ascii → e.2 = 0 := by decide
theorem targets_b256 : ∀ e ∈ switchTargets, e.1 = .base256 → e.2 = 1 := by decide

theorem allowed_of_unlatch {data list k} {g : GPlan} {ctx : Ctx} (hok : OK data list k g)
    (hu : g.unlatch = .ok ctx) : Allowed g.plan := by
  rcases hok.2.2 with hm | hm
  · obtain ⟨P, hp⟩ := plan_of_ascii hm
    unfold GPlan.unlatch at hu
    rw [hp] at hu ⊢
    simp only [] at hu
    split at hu
    · cases hu
    · rename_i h0
      simp only [Allowed]
      omega
  · obtain ⟨p, hp⟩ := plan_of_b256 hm
    rw [hp]
    trivial

theorem b256_not_unbeatable {g g' : GPlan} {r : StepResult} (hcur : g.current = .base256)
    (hs : g.step = .ok (some (g', r))) : r.unbeatable = false := by
  obtain ⟨p, hp⟩ := plan_of_b256 hcur
  unfold GPlan.step at hs
  rw [hp] at hs
  simp only [] at hs
  split at hs
  · cases hs
  · rename_i p' r' hb
    simp only [Except.ok.injEq, Option.some.injEq, Prod.mk.injEq] at hs
    rw [← hs.2]
    unfold b256Step at hb
    simp only [] at hb
    split at hb
    · simp only [Option.some.injEq, Prod.mk.injEq] at hb
      rw [← hb.2]
    · split at hb
      · cases hb
      · simp only [Option.some.injEq, Prod.mk.injEq] at hb
        rw [← hb.2]

theorem b256Cost_le (p : B256P) : b256Cost p ≤ b256SwitchCost p := by
  unfold b256Cost b256SwitchCost
  simp only []
  split <;> split <;> (try split) <;> omega

theorem norm_child {data : List Nat} {list : List Sym} {k modes : Nat} {g c : GPlan} {restLen : Nat} {asStart : Bool}
    {sw : List GPlan} {n : Nat}
    (honly : ∀ m, enabledMode modes m = true → m = .ascii ∨ m = .base256)
    (hok : OK data list k g)
    (h : g.addSwitches restLen asStart modes = .ok (sw, n)) (hc : c ∈ sw) : Norm c := by
  obtain ⟨s, ctx, m, ce, r, hs, hu, hmem, _, hen, hst⟩ := addSwitches_mem h c hc
  have hsm := norm_switchCost hok hs
  have hal : Allowed g.plan := allowed_of_unlatch hok hu
  obtain ⟨ctx', hu', hctx⟩ := unlatch_spec g hok.2.1 hal s hs
  rw [hu] at hu'
  simp only [Except.ok.injEq] at hu'
  subst hu'
  rcases honly m hen with rfl | rfl
  · have hce : ce = 0 := targets_ascii (.ascii, ce) hmem rfl
    subst hce
    obtain ⟨P1, hs1, hp1, hx1⟩ := gstep_ascii (g := candOf g restLen asStart s ctx .ascii 0)
      (P := { ctx := ctx.write 0, digitsAhead := 0, cost := 0 }) rfl hst
    refine ⟨?_, ?_⟩
    · rw [hx1]; simp only [candOf]; omega
    · rw [hp1]
      exact ascii_norm_step _ P1 r (ctxAt_write hctx 0) (Nat.zero_le _) rfl hs1
  · have hce : ce = 1 := targets_b256 (.base256, ce) hmem rfl
    subst hce
    unfold GPlan.step at hst
    simp only [candOf, newPlan] at hst
    split at hst
    · cases hst
    · rename_i p' r' hb
      simp only [Except.ok.injEq, Option.some.injEq, Prod.mk.injEq] at hst
      rw [← hst.1]
      refine ⟨by simp only []; omega, ?_⟩
      simp only []
      unfold b256Step b256New at hb
      simp only [] at hb
      split at hb
      · simp only [Option.some.injEq, Prod.mk.injEq] at hb
        rw [← hb.1]
        show 12 % 12 = 0
        decide
      · split at hb
        · cases hb
        · simp only [Option.some.injEq, Prod.mk.injEq] at hb
          rw [← hb.1]
          show (12 + 12) % 12 = 0
          decide

/-! ### the ASCII successor -/

theorem succ_ascii {data : List Nat} {list : List Sym} {k : Nat} {g g' : GPlan} {r : StepResult}
    (hok : OK data list k g) (hcur : g.current = .ascii) (hlt : k < data.length)
    (hs : g.step = .ok (some (g', r))) : phi data (k + 1) g' = phi data k g := by
  obtain ⟨_, ⟨hc, _, hl⟩, _⟩ := hok
  obtain ⟨P, hp⟩ := plan_of_ascii hcur
  obtain ⟨P1, hs1, hp1, hx1⟩ := gstep_ascii hp hs
  rw [hp] at hc hl
  obtain ⟨p', r', e1, _, _, e4, _⟩ := asciiStep_spec P hc hl
  rw [hs1] at e1
  simp only [Except.ok.injEq, Prod.mk.injEq] at e1
  have he : r.end = false := by rw [e1.2, e4]; simpa using hlt
  simp only [phi, hp, hp1]
  rw [hx1, finA_step P P1 r hc hl hs1 he]

theorem succ_b256 {data : List Nat} {list : List Sym} {k modes : Nat} {g : GPlan} {restLen : Nat} {asStart : Bool}
    {sw : List GPlan} {n : Nat} (hasc : enabledMode modes .ascii = true)
    (hok : OK data list k g) (hcur : g.current = .base256) (hlt : k < data.length)
    (h : g.addSwitches restLen asStart modes = .ok (sw, n)) :
    ∃ c ∈ sw, c.current = .ascii ∧ phi data (k + 1) c = phi data k g := by
  obtain ⟨p, hp⟩ := plan_of_b256 hcur
  have hs : g.switchCost = some (b256SwitchCost p + g.extra) := by simp [GPlan.switchCost, hp]
  obtain ⟨ctx, c, r, hu, hc, hst⟩ := addSwitches_ascii_child hasc (by rw [hcur]; decide) hs h
  have hal : Allowed g.plan := by rw [hp]; trivial
  obtain ⟨ctx', hu', hctx⟩ := unlatch_spec g hok.2.1 hal _ hs
  rw [hu] at hu'
  simp only [Except.ok.injEq] at hu'
  subst hu'
  obtain ⟨P1, hs1, hp1, hx1⟩ := gstep_ascii (g := candOf g restLen asStart _ ctx .ascii 0)
    (P := { ctx := ctx.write 0, digitsAhead := 0, cost := 0 }) rfl hst
  have hc0 : CtxAt data list k (ctx.write 0) := ctxAt_write hctx 0
  obtain ⟨p', r', e1, _, _, e4, _⟩ := asciiStep_spec (data := data) (list := list) (k := k)
    { ctx := ctx.write 0, digitsAhead := 0, cost := 0 } hc0 (Nat.zero_le _)
  rw [hs1] at e1
  simp only [Except.ok.injEq, Prod.mk.injEq] at e1
  have he : r.end = false := by rw [e1.2, e4]; simpa using hlt
  have hf := finA_step (data := data) (list := list) (k := k) _ P1 r hc0 (Nat.zero_le _) hs1 he
  refine ⟨c, hc, by simp [GPlan.current, hp1, PlanImpl.mode], ?_⟩
  simp only [phi, hp, hp1, hs, Option.getD_some]
  rw [hx1, hf]
  simp [finA, candOf]

/-! ### at the end of the data -/

theorem end_cost {data : List Nat} {list : List Sym} {k B : Nat} {g g' : GPlan} {r : StepResult}
    (hok : OK data list k g) (hk : ¬ k < data.length) (hphi : phi data k g ≤ B)
    (hs : g.step = .ok (some (g', r))) : g'.cost ≤ B := by
  obtain ⟨_, ⟨hc, hk', hl⟩, hm⟩ := hok
  have hdrop : data.drop k = [] := List.drop_eq_nil_of_le (by omega)
  rcases hm with hm | hm
  · obtain ⟨P, hp⟩ := plan_of_ascii hm
    obtain ⟨P1, hs1, hp1, hx1⟩ := gstep_ascii hp hs
    rw [hp] at hc hl
    obtain ⟨c1, _⟩ := asciiStep_end P P1 r hc hl hk hs1
    have hd0 : digitsFrom data k = 0 := by
      unfold digitsFrom
      rw [hdrop]
      rfl
    have h0 : P.digitsAhead = 0 := by simp only [Local] at hl; omega
    simp only [phi, hp, finA, h0, Nat.zero_mod, Nat.zero_ne_one, ↓reduceIte, hdrop, asciiSize] at hphi
    simp only [GPlan.cost, hp1, hx1, c1]
    omega
  · obtain ⟨p, hp⟩ := plan_of_b256 hm
    rw [hp] at hc
    simp only [pctx] at hc
    have hsc : g.switchCost = some (b256SwitchCost p + g.extra) := by simp [GPlan.switchCost, hp]
    simp only [phi, hp, hsc, Option.getD_some, hdrop, asciiSize] at hphi
    unfold GPlan.step at hs
    rw [hp] at hs
    simp only [] at hs
    split at hs
    · cases hs
    · rename_i p' r' hb
      simp only [Except.ok.injEq, Option.some.injEq, Prod.mk.injEq] at hs
      rw [← hs.1]
      unfold b256Step at hb
      have hm' : p.ctx.hasMore = false := by rw [hasMore_iff hc]; simpa using hk
      simp only [hm', Bool.not_false, ↓reduceIte, Option.some.injEq, Prod.mk.injEq] at hb
      rw [← hb.1]
      simp only [GPlan.cost]
      have := b256Cost_le p
      omega

end DM.Lemmas.C10Succ
