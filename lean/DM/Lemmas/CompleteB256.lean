import DM.Lemmas.DecRun
import DM.Spec.Build
/-
Decoder completeness, Base 256 fields (explicit one- or two-codeword length, or "to the end").
-/
namespace DM.Lemmas.Complete
open DM.Model.Dec DM.Gen DM.Lemmas DM.Lemmas.DecRun DM.Spec.Build DM.Spec.Stream

theorem derand_rand (v p : Nat) (hv : v < 256) : derand255 (randomize255 v p) p = v := by
  unfold derand255 randomize255 rand255
  have : (149 * p) % 255 < 255 := Nat.mod_lt _ (by omega)
  simp only []
  split <;> omega

/-- the randomised codewords of a field starting at 1-based position `p` -/
def randFrom : Nat → List Nat → List Nat
  | _, [] => []
  | p, v :: t => randomize255 v p :: randFrom (p + 1) t

theorem randFrom_length : ∀ (l : List Nat) (p : Nat), (randFrom p l).length = l.length := by
  intro l
  induction l with
  | nil => intro p; rfl
  | cons v t ih => intro p; simp [randFrom, ih]

theorem zipIdx_rand (s : Nat) : ∀ (l : List Nat) (n : Nat),
    (l.zipIdx n).map (fun (x : Nat × Nat) => randomize255 x.1 (s + x.2 + 1)) = randFrom (s + n + 1) l := by
  intro l
  induction l with
  | nil => intro n; rfl
  | cons v t ih =>
    intro n
    rw [List.zipIdx_cons, List.map_cons, ih (n + 1)]
    simp only [randFrom]
    congr 2

theorem derand_range : ∀ (b : List Nat) (q : Nat) (tail : List Nat), ByteList b →
    (List.range b.length).map (fun k => derand255 ((randFrom (q + 1) b ++ tail).getD k 0) (q + k + 1)) = b := by
  intro b
  induction b with
  | nil => intro q tail _; rfl
  | cons v t ih =>
    intro q tail hb
    rw [List.length_cons, List.range_succ_eq_map, List.map_cons, List.map_map]
    simp only [randFrom, List.cons_append, List.getD_cons_zero, Nat.add_zero]
    rw [derand_rand v (q + 1) hb.head]
    congr 1
    refine Eq.trans ?_ (ih (q + 1) tail hb.tail)
    apply List.map_congr_left
    intro k _
    simp only [Function.comp, List.getD_cons_succ]
    congr 2
    omega

/-- the length header of a Base 256 field -/
def b256Hdr (b : List Nat) (toEnd : Bool) : List Nat :=
  if toEnd then [0]
  else if b.length ≤ 249 then [b.length] else [b.length / 250 + 249, b.length % 250]

def B256OK (b : List Nat) (toEnd : Bool) (tail : List Nat) : Prop :=
  ByteList b ∧ (if toEnd then tail = [] else (1 ≤ b.length ∧ b.length ≤ 1555))

theorem decodeBase256_field (b tail : List Nat) (toEnd : Bool) (pos : Nat) (out : List Nat)
    (h : B256OK b toEnd tail) :
    decodeBase256 (randFrom (pos + 2) (b256Hdr b toEnd ++ b) ++ tail) (pos + 1) out =
      .ok (tail, pos + 1 + (b256Hdr b toEnd).length + b.length, out ++ b) := by
  obtain ⟨hb, hc⟩ := h
  unfold b256Hdr
  cases toEnd with
  | true =>
    simp only [↓reduceIte] at hc ⊢
    subst hc
    simp only [List.singleton_append, randFrom, List.cons_append, List.append_nil, decodeBase256, List.nil_append]
    rw [derand_rand 0 (pos + 1 + 1) (by omega)]
    simp only [↓reduceIte, randFrom_length, Nat.lt_irrefl, List.length_singleton]
    have := derand_range b (pos + 2) [] hb
    simp only [List.append_nil] at this
    have e1 : pos + 1 + 1 = pos + 2 := rfl
    rw [List.drop_eq_nil_of_le (by rw [randFrom_length]; exact Nat.le_refl _)]
    simp only [e1, this, List.nil_append]
  | false =>
    simp only [Bool.false_eq_true, ↓reduceIte] at hc ⊢
    by_cases hs : b.length ≤ 249
    · rw [if_pos hs]
      simp only [List.singleton_append, randFrom, List.cons_append, decodeBase256, List.nil_append]
      rw [derand_rand b.length (pos + 1 + 1) (by omega)]
      rw [if_neg (by omega), if_pos (by omega)]
      simp only [List.length_append, randFrom_length, List.length_singleton]
      rw [if_neg (by omega)]
      have := derand_range b (pos + 2) tail hb
      have e1 : pos + 1 + 1 = pos + 2 := rfl
      have hd : (randFrom (pos + 2 + 1) b ++ tail).drop b.length = tail := by
        rw [List.drop_append_of_le_length (by rw [randFrom_length]; exact Nat.le_refl _)]
        rw [List.drop_eq_nil_of_le (by rw [randFrom_length]; exact Nat.le_refl _)]
        rfl
      simp only [e1, this, hd, List.nil_append]
    · rw [if_neg hs]
      simp only [List.cons_append, List.nil_append, randFrom, decodeBase256]
      have hq : b.length / 250 + 249 < 256 := by omega
      rw [derand_rand _ (pos + 1 + 1) hq]
      rw [if_neg (by omega), if_neg (by omega)]
      simp only []
      rw [derand_rand _ (pos + 1 + 2) (by omega)]
      have hlen : 250 * (b.length / 250 + 249 - 249) + b.length % 250 = b.length := by omega
      rw [hlen]
      simp only [List.length_append, randFrom_length, List.length_cons, List.length_nil]
      rw [if_neg (by omega)]
      have := derand_range b (pos + 3) tail hb
      have hd : (randFrom (pos + 2 + 1 + 1) b ++ tail).drop b.length = tail := by
        rw [List.drop_append_of_le_length (by rw [randFrom_length]; exact Nat.le_refl _)]
        rw [List.drop_eq_nil_of_le (by rw [randFrom_length]; exact Nat.le_refl _)]
        rfl
      have e1 : pos + 1 + 2 = pos + 3 := rfl
      have e2 : pos + 2 + 1 + 1 = pos + 3 + 1 := rfl
      simp only [e1, e2] at hd ⊢
      simp only [this, hd, List.nil_append]

theorem seg_b256 (b tail : List Nat) (toEnd : Bool) (pos : Nat) (out : List Nat) (ecis : List (Nat × Nat))
    (h : B256OK b toEnd tail) :
    decRun .ascii { rest := [231] ++ randFrom (pos + 2) (b256Hdr b toEnd ++ b) ++ tail, eaten := pos, out := out, ecis := ecis } =
    decRun .ascii { rest := tail, eaten := pos + 1 + (b256Hdr b toEnd).length + b.length, out := out ++ b, ecis := ecis } := by
  rw [decRun_ascii _ (by simp)]
  simp only [List.singleton_append, List.cons_append]
  rw [decodeAscii]
  simp only [ne_eq, not_true_eq_false, ↓reduceIte, Bool.false_eq_true, false_and, Nat.reduceLeDiff, and_false,
    Nat.reduceEqDiff]
  have hne : randFrom (pos + 2) (b256Hdr b toEnd ++ b) ++ tail ≠ [] := by
    have : (b256Hdr b toEnd) ≠ [] := by unfold b256Hdr; split <;> (try split) <;> simp
    cases hh : b256Hdr b toEnd with
    | nil => exact absurd hh this
    | cons x xs => simp [randFrom]
  rw [decRun_base256 _ (by simpa using hne)]
  simp only [List.nil_append]
  rw [decodeBase256_field b tail toEnd pos out h]

end DM.Lemmas.Complete
