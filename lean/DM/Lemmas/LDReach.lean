import DM.Lemmas.LDFlow2
import DM.Lemmas.RSLocator
import DM.Lemmas.LDTotal
/-
The Levinson–Durbin locator search on the syndromes of `ν ≤ t` errors returns the error
locator polynomial: under the hypothesis `LDIdentities` (every iteration preserves the
algebraic invariant `LD.LDAlg`, equations (3) and (4); proved in `LDStep.lean` as
`LD.ldStep_alg`) and `LDInit` (the initial triangular solve satisfies (4); `LD.ldInitW_alg`),
the recursion reaches exactly `v = ν` and stops there.
-/
namespace DM.Lemmas.LDReach
set_option linter.unusedSimpArgs false
set_option linter.unusedVariables false
open DM.Model DM.Model.RS DM.Lemmas DM.Lemmas.RSTotal DM.Lemmas.RSTot DM.Lemmas.Locator

/-- every iteration of the Levinson–Durbin loop preserves equations (3) and (4) and does not
panic -/
def LDIdentities : Prop :=
  ∀ (syn : List Nat) (t : Nat) (st : LDSt), 2 * t ≤ syn.length → Bytes syn → LD.LDAlg syn t st →
    st.v < t → Safe NoSite (ldStep syn t st) (fun r => ∀ st', r = some st' → LD.LDAlg syn t st')

/-- the initial triangular solve does not panic and satisfies equation (4) -/
def LDInit : Prop :=
  ∀ (syn : List Nat) (v : Nat), 1 ≤ v → 2 * v ≤ syn.length → Bytes syn →
    (∀ k, k < v - 1 → syn.getD k 0 = 0) → syn.getD (v - 1) 0 ≠ 0 →
    Safe NoSite (ldInitW syn v) (fun w => w.length = v ∧ Bytes w ∧ LD.Eq4 syn v w)

theorem ldIdentities : LDIdentities :=
  fun syn t st ht hs hinv hvt => LD.ldStep_alg syn t st ht hs hinv hvt

theorem ldInit : LDInit :=
  fun syn v hv hlen hs hz hp => LD.ldInitW_alg syn v hv hlen hs hz hp

/-- the locator of the error position `p` (position counted from the end of the block) -/
def X (p : ℕ) : GF := α ^ p

/-- `syn` is the syndrome vector of the error pattern `(I, E)`: positions below 255, non-zero
values, at least one and at most `⌊|syn|/2⌋` errors -/
structure Pattern (syn : List Nat) (I : Finset ℕ) (E : ℕ → GF) : Prop where
  bytes : Bytes syn
  pos : ∀ p ∈ I, p < 255
  val : ∀ p ∈ I, E p ≠ 0
  synd : ∀ j, j < syn.length → gF syn j = Locator.synd I E X j
  card : 2 * I.card ≤ syn.length
  ne : I.Nonempty

variable {syn : List Nat} {I : Finset ℕ} {E : ℕ → GF}

theorem Pattern.inj (pat : Pattern syn I E) : ∀ i ∈ I, ∀ j ∈ I, X i = X j → i = j :=
  fun i hi j hj h => alpha_pow_inj (pat.pos i hi) (pat.pos j hj) h

theorem Pattern.x0 (pat : Pattern syn I E) : ∀ i ∈ I, X i ≠ 0 :=
  fun i _ => alpha_pow_ne_zero i

theorem Pattern.card_pos (pat : Pattern syn I E) : 1 ≤ I.card := Finset.card_pos.mpr pat.ne

/-- a window of the model in terms of the pattern's syndromes -/
theorem win_zero_iff (pat : Pattern syn I E) (lam : List Nat) (hl : Bytes lam) (j : Nat)
    (hlen : j + lam.length ≤ syn.length) :
    win syn lam j = 0 ↔
      ∑ i ∈ Finset.range lam.length, Locator.synd I E X (j + i) * gF lam i = 0 := by
  rw [win_eq_zero_iff syn lam j pat.bytes hl hlen]
  have : ∑ i ∈ Finset.range lam.length, gF syn (j + i) * gF lam i
      = ∑ i ∈ Finset.range lam.length, Locator.synd I E X (j + i) * gF lam i := by
    apply Finset.sum_congr rfl
    intro i hi
    rw [pat.synd (j + i) (by have := Finset.mem_range.mp hi; omega)]
  rw [this]

theorem gF_snoc_one (w : List Nat) : gF (w ++ [1]) w.length = 1 := by
  rw [gF_append_right _ _ _ (le_refl _), Nat.sub_self]
  rfl

theorem bytes_snoc_one {w : List Nat} (hw : Bytes w) : Bytes (w ++ [1]) :=
  Bytes.append hw (Bytes.cons (by omega) Bytes.nil)

/-- equation (4) says that `w ++ [1]` is a recurrence on the first `v` windows -/
theorem eq4_windows (w : List Nat) (v : Nat) (hw : w.length = v) (h4 : LD.Eq4 syn v w) (i : Nat)
    (hi : i < v) :
    ∑ j ∈ Finset.range (w ++ [1]).length, gF syn (i + j) * gF (w ++ [1]) j = 0 := by
  have h : ∑ j ∈ Finset.range v, gF syn (i + j) * gF w j = gF syn (v + i) := h4 i hi
  have hl : (w ++ [1]).length = v + 1 := by simp [hw]
  rw [hl, Finset.sum_range_succ]
  have e1 : ∑ j ∈ Finset.range v, gF syn (i + j) * gF (w ++ [1]) j = gF syn (v + i) := by
    rw [← h]
    apply Finset.sum_congr rfl
    intro j hj
    rw [gF_append_left _ _ _ (by rw [hw]; exact Finset.mem_range.mp hj)]
  have e2 : gF (w ++ [1]) v = 1 := by rw [← hw]; exact gF_snoc_one w
  rw [e1, e2, mul_one, Nat.add_comm i v]
  exact GF.add_self _

theorem takeWhile_le (l : List Nat) (j : Nat) (hj : j < l.length) (h : l.getD j 0 ≠ 0) :
    (l.takeWhile (· == 0)).length ≤ j := by
  by_contra hlt
  exact h (LD.getD_takeWhile_zero l j (by omega))

section reach
variable (pat : Pattern syn I E)
include pat

/-- in a state below `ν` that satisfies (4), some window with index `< ν` does not vanish -/
theorem exists_window (w : List Nat) (v : Nat) (hw : w.length = v) (hbw : Bytes w)
    (hv : v < I.card) : ∃ j, j < I.card ∧ win syn (w ++ [1]) j ≠ 0 := by
  by_contra hno
  have hall : ∀ j, j < I.card → win syn (w ++ [1]) j = 0 := by
    intro j hj
    by_contra h
    exact hno ⟨j, hj, h⟩
  have hl : (w ++ [1]).length = v + 1 := by simp [hw]
  have hcard := pat.card
  have := order_ge I E X pat.inj pat.x0 pat.val (gF (w ++ [1])) v
    (by rw [← hw]; exact gF_snoc_one w)
    (by
      intro j hj
      have := (win_zero_iff pat (w ++ [1]) (bytes_snoc_one hbw) j (by rw [hl]; omega)).mp (hall j hj)
      rwa [hl] at this)
  omega

/-- in a state at `ν` that satisfies (4), `w ++ [1]` is the locator -/
theorem at_nu_locator (w : List Nat) (hw : w.length = I.card) (hbw : Bytes w)
    (h4 : LD.Eq4 syn I.card w) :
    ∀ i, i ≤ I.card → gF (w ++ [1]) i = (locPoly I X).coeff i := by
  have hl : (w ++ [1]).length = I.card + 1 := by simp [hw]
  have hcard := pat.card
  apply rec_unique I E X pat.inj pat.x0 pat.val (gF (w ++ [1]))
    (by rw [← hw]; exact gF_snoc_one w)
  intro j hj
  have h := eq4_windows w I.card hw h4 j hj
  rw [hl] at h
  rw [← h]
  apply Finset.sum_congr rfl
  intro i hi
  rw [pat.synd (j + i) (by have := Finset.mem_range.mp hi; omega)]

/-- the locator satisfies the recurrence on every window of the model -/
theorem locator_windows (lam : List Nat) (hlen : lam.length = I.card + 1) (hb : Bytes lam)
    (hlam : ∀ i, i ≤ I.card → gF lam i = (locPoly I X).coeff i) (j : Nat)
    (hj : j + lam.length ≤ syn.length) : win syn lam j = 0 := by
  rw [win_zero_iff pat lam hb j hj, hlen, ← rec_true I E X j]
  apply Finset.sum_congr rfl
  intro i hi
  rw [hlam i (by have := Finset.mem_range.mp hi; omega)]

/-- one iteration from a state below `ν` -/
theorem step_below (hLD : LDIdentities) (st : LDSt)
    (hinv : LD.LDAlg syn (syn.length / 2) st) (hv : st.v < I.card) :
    ∃ st', ldStep syn (syn.length / 2) st = .ok (some st') ∧ st.v < st'.v ∧ st'.v ≤ I.card ∧
      LD.LDAlg syn (syn.length / 2) st' := by
  obtain ⟨⟨hv1, hvt, hw, hy⟩, hbw, hby, h3, h4⟩ := hinv
  have hcard := pat.card
  have ht : 2 * (syn.length / 2) ≤ syn.length := by omega
  have hνt : I.card ≤ syn.length / 2 := by omega
  have hl : (st.w ++ [1]).length = st.v + 1 := by simp [hw]
  have hex := exists_window pat st.w st.v hw hbw hv
  classical
  let j0 := Nat.find hex
  have hj0 : j0 < I.card ∧ win syn (st.w ++ [1]) j0 ≠ 0 := Nat.find_spec hex
  have hmin : ∀ j, j < j0 → win syn (st.w ++ [1]) j = 0 := by
    intro j hj
    by_contra h
    have hlt : j < I.card := by omega
    exact Nat.find_min hex hj ⟨hlt, h⟩
  have hlow : ∀ i, i < st.v → win syn (st.w ++ [1]) i = 0 := by
    intro i hi
    rw [win_eq_zero_iff syn _ i pat.bytes (bytes_snoc_one hbw) (by rw [hl]; omega)]
    exact eq4_windows st.w st.v hw h4 i hi
  have hj0v : st.v ≤ j0 := by
    by_contra h
    exact hj0.2 (hlow j0 (by omega))
  obtain ⟨r, hr, hflow, hsafe⟩ := Tot_Safe_elim (ldStep_flow syn (syn.length / 2) st hw)
    (hLD syn (syn.length / 2) st ht pat.bytes ⟨⟨hv1, hvt, hw, hy⟩, hbw, hby, h3, h4⟩ (by omega))
  obtain ⟨hreg, _, hsing⟩ := hflow
  rcases Nat.eq_or_lt_of_le hj0v with heq | hlt
  · -- the regular case
    obtain ⟨st', hst', hv'⟩ := hreg (by rw [heq]; exact hj0.2)
    refine ⟨st', by rw [hr, hst'], by omega, by omega, hsafe st' hst'⟩
  · -- the singular case
    have heps : win syn (st.w ++ [1]) st.v = 0 := hmin st.v hlt
    obtain ⟨st', hst', hv'⟩ := hsing heps (j0 - st.v) (by omega) (by omega)
      (by rw [Nat.add_sub_cancel' hj0v]; exact hj0.2)
      (fun i hi1 hi2 => hmin (st.v + i) (by omega))
    refine ⟨st', by rw [hr, hst'], by omega, by omega, hsafe st' hst'⟩

/-- the loop stops in a state at `ν` -/
theorem loop_at_nu (fuel : Nat) (st : LDSt) (hinv : LD.LDAlg syn (syn.length / 2) st)
    (hv : st.v = I.card) : ldLoop syn (syn.length / 2) (fuel + 1) st = .ok st := by
  obtain ⟨⟨hv1, hvt, hw, hy⟩, hbw, hby, h3, h4⟩ := hinv
  have hcard := pat.card
  unfold ldLoop
  split
  · rename_i hlt
    have hl : (st.w ++ [1]).length = I.card + 1 := by simp [hw, hv]
    have hlam := at_nu_locator pat st.w (by rw [hw, hv]) hbw (by rw [← hv]; exact h4)
    have hwin := locator_windows pat (st.w ++ [1]) hl (bytes_snoc_one hbw) hlam
    rw [ldStep_break syn (syn.length / 2) st (by omega) hv1 hlt hw
      (hwin _ (by rw [hl]; omega)) (fun i _ hi => hwin _ (by rw [hl]; omega))]
  · rfl

theorem loop_reaches (hLD : LDIdentities) (fuel : Nat) :
    ∀ st, LD.LDAlg syn (syn.length / 2) st → st.v ≤ I.card → I.card - st.v + 1 ≤ fuel →
      ∃ st', ldLoop syn (syn.length / 2) fuel st = .ok st' ∧ st'.v = I.card ∧
        LD.LDAlg syn (syn.length / 2) st' := by
  induction fuel with
  | zero => intro st _ _ h; omega
  | succ f ih =>
    intro st hinv hle hfuel
    rcases Nat.eq_or_lt_of_le hle with heq | hlt
    · exact ⟨st, loop_at_nu pat f st hinv heq, heq, hinv⟩
    · obtain ⟨st', hstep, hlt', hle', hinv'⟩ := step_below pat hLD st hinv hlt
      have hcard := pat.card
      obtain ⟨st'', hloop, hv'', hinv''⟩ := ih st' hinv' hle' (by omega)
      refine ⟨st'', ?_, hv'', hinv''⟩
      unfold ldLoop
      rw [if_pos (by omega), hstep]
      exact hloop

/-- **The locator search finds the locator polynomial of `ν ≤ t` errors.** -/
theorem levinsonDurbin_locator (hLD : LDIdentities) (hInit : LDInit) :
    ∃ lam, levinsonDurbin syn = .ok lam ∧ lam.length = I.card + 1 ∧ Bytes lam ∧
      ∀ i, i ≤ I.card → gF lam i = (locPoly I X).coeff i := by
  have hcard := pat.card
  have hpos := pat.card_pos
  obtain ⟨j, hj, hjne⟩ := first_nonzero I E X pat.inj pat.x0 pat.val pat.ne
  have hjne' : syn.getD j 0 ≠ 0 := by
    intro h
    apply hjne
    rw [← pat.synd j (by omega)]
    unfold gF
    rw [h]; rfl
  have hv0 := takeWhile_le syn j (by omega) hjne'
  have hp := getD_takeWhile_length syn (by omega)
  have hz := LD.getD_takeWhile_zero syn
  have hs := pat.bytes
  unfold levinsonDurbin
  simp only []
  rw [if_neg (by omega)]
  have hat : at' "syn[v-1]" syn ((syn.takeWhile (· == 0)).length + 1 - 1)
      = .ok (syn.getD (syn.takeWhile (· == 0)).length 0) := by
    have hlt : (syn.takeWhile (· == 0)).length < syn.length := by omega
    unfold at'
    rw [Nat.add_sub_cancel, List.getElem?_eq_getElem hlt]
    simp [List.getD_eq_getElem?_getD, List.getElem?_eq_getElem hlt]
  have hdiv : div' "1/syn[v-1]" 1 (syn.getD (syn.takeWhile (· == 0)).length 0)
      = .ok (gdivD 1 (syn.getD (syn.takeWhile (· == 0)).length 0)) := by
    unfold div'
    rw [gdiv_eq_some hp]
  obtain ⟨w, hw, _, hwl, hwb, hw4⟩ := Tot_Safe_elim (ldInitW_tot syn ((syn.takeWhile (· == 0)).length + 1))
    (hInit syn ((syn.takeWhile (· == 0)).length + 1) (by omega) (by omega) hs
      (by simpa only [Nat.add_sub_cancel] using hz)
      (by simpa only [Nat.add_sub_cancel] using hp))
  have h3 := LD.init_eq3 syn ((syn.takeWhile (· == 0)).length + 1)
    (gdivD 1 (syn.getD (syn.takeWhile (· == 0)).length 0)) (by omega) hs
    (by simpa only [Nat.add_sub_cancel] using hz)
    (by simpa only [Nat.add_sub_cancel] using hp) (by simp only [Nat.add_sub_cancel])
  simp only [Nat.add_sub_cancel] at h3
  have hinv0 : LD.LDAlg syn (syn.length / 2)
      { v := (syn.takeWhile (· == 0)).length + 1, w := w,
        y := gdivD 1 (syn.getD (syn.takeWhile (· == 0)).length 0) ::
          List.replicate ((syn.takeWhile (· == 0)).length + 1 - 1) 0 } := by
    refine ⟨⟨by simp only; omega, by simp only; omega, hwl, by simp only; lens⟩, hwb, ?_, ?_, hw4⟩
    · exact Bytes.cons (gdivD_lt _ _) (Bytes.replicate_zero _)
    · simpa only [Nat.add_sub_cancel] using h3
  obtain ⟨st', hloop, hv', hinv'⟩ := loop_reaches pat hLD (syn.length / 2 + 1) _ hinv0
    (by simp only; omega) (by simp only; omega)
  obtain ⟨⟨_, _, hw', _⟩, hbw', _, _, h4'⟩ := hinv'
  refine ⟨st'.w ++ [1], ?_, by simp [hw', hv'], bytes_snoc_one hbw',
    at_nu_locator pat st'.w (by rw [hw', hv']) hbw' (by rw [← hv']; exact h4')⟩
  simp only [hat, hdiv, hw, hloop, bind, Except.bind, pure, Except.pure]

end reach

end DM.Lemmas.LDReach
