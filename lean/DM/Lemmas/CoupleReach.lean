import DM.Lemmas.Couple
import DM.Lemmas.PlanLoop
/-!
# Planner / encoder coupling: the history of a live plan

Every plan the optimiser keeps alive has a *history*: it is the start plan, or it was created by
`add_switches` from a plan with a history at a moment where `iteratePlans` calls `add_switches`
(`SwitchPoint`), and has been stepped over a number of characters since.  `Hist g0 p w m` says that
`g0` is such a freshly created plan ("segment start"): mode `m`, first character `p`, `w` codewords
accounted for (the latch of `m` included).  Its constructors carry exactly the facts `Couple.SwitchSeg`
consumes.  `Reach k g`: `g` is a segment start stepped up to position `k`; `Final g`: `g` is the
result of the step that reports the end of the data.

`optimize_final`: the plan `optimize` returns is (up to the dropped leading ASCII entry) the switch list
of a `Final` plan, and the cost is `ceil12` of its cost.
-/
namespace DM.Lemmas.CoupleReach
open DM.Model DM.Model.Plan DM.Model.Enc DM.Lemmas.PlanInv DM.Lemmas.PlanLoop DM.Lemmas.Couple

/-- codewords `add_switches` accounts for the latch of the new mode (`cost_extra`) -/
def lcost (m : EMode) : Nat :=
  match m.latch with
  | none => 0
  | some _ => 1

theorem switchTargets_lcost : ∀ e ∈ switchTargets, e.2 = lcost e.1 := by decide

/-- the plan `optimize` starts with -/
def startPlan (body : List Nat) (list : List Sym) (W : Nat) : GPlan :=
  { extra := 0, switches := [(body.length, .ascii)], plan := newPlan .ascii (ctxAt body list 0 W) }

/-- `Hist g0 p w m`: `g0` is a freshly created plan of mode `m` (not yet stepped) whose first character
is `p`, with `w` codewords accounted for -/
inductive Hist (body : List Nat) (list : List Sym) (W : Nat) : GPlan → Nat → Nat → EMode → Prop
  | start : Hist body list W (startPlan body list W) 0 W .ascii
  | first (m : EMode) : m ≠ .ascii →
      Hist body list W { extra := lcost m * 12, switches := [(body.length, m)],
                         plan := newPlan m (ctxAt body list 0 (W + lcost m)) } 0 (W + lcost m) m
  | switch {g0 gk : GPlan} {p w k ac : Nat} {m m' : EMode} {ctx' : Ctx} :
      Hist body list W g0 p w m → p + k < body.length → 1 ≤ k → StepsTo k g0 gk → SwitchPoint gk →
      gk.switchCost = some ac → gk.unlatch = .ok ctx' → m' ≠ m →
      Hist body list W
        { extra := ac + lcost m' * 12, switches := g0.switches ++ [(body.length - (p + k), m')],
          plan := newPlan m' (ctxAt body list (p + k) (ctx'.written + lcost m')) }
        (p + k) (ctx'.written + lcost m') m'

variable {body : List Nat} {list : List Sym} {W : Nat}

theorem hist_plan {g0 : GPlan} {p w : Nat} {m : EMode} (h : Hist body list W g0 p w m) :
    g0.plan = newPlan m (ctxAt body list p w) := by
  cases h <;> rfl

theorem hist_le {g0 : GPlan} {p w : Nat} {m : EMode} (h : Hist body list W g0 p w m) : p ≤ body.length := by
  cases h with
  | start => exact Nat.zero_le _
  | first => exact Nat.zero_le _
  | switch _ hlt => omega

theorem hist_core {g0 : GPlan} {p w : Nat} {m : EMode} (h : Hist body list W g0 p w m) :
    Core body list p g0.plan ∧ g0.current = m := by
  have := newPlan_core (data := body) (list := list) (k := p) m (ctxAt body list p w) ⟨rfl, rfl, rfl⟩ (hist_le h)
  rw [← hist_plan h] at this
  exact this

/-! ### `StepsTo` -/

theorem step_some_spec {k : Nat} {g g' : GPlan} {r : StepResult} (hc : Core body list k g.plan)
    (hs : g.step = .ok (some (g', r))) :
    g'.switches = g.switches ∧ g'.extra = g.extra ∧ g'.current = g.current ∧ Core body list (nxt body k) g'.plan ∧
      r.end = decide (¬ k < body.length) ∧ (¬ Allowed g.plan → r.unbeatable = true) := by
  rcases step_spec g hc with ⟨h1, _, _⟩ | ⟨g2, r2, h1, h2, h3, h4, h5, h6, h7⟩
  · rw [h1] at hs; cases hs
  · rw [h1] at hs
    simp only [Except.ok.injEq, Option.some.injEq, Prod.mk.injEq] at hs
    obtain ⟨rfl, rfl⟩ := hs
    exact ⟨h2, h3, h4, h5, h6, h7⟩

theorem stepsTo_core : ∀ (j p : Nat) (g0 g : GPlan), StepsTo j g0 g → Core body list p g0.plan →
    Core body list (p + j) g.plan ∧ g.current = g0.current ∧ g.switches = g0.switches ∧ g.extra = g0.extra ∧
      p + j ≤ body.length := by
  intro j
  induction j with
  | zero =>
    intro p g0 g h hc
    cases h
    exact ⟨hc, rfl, rfl, rfl, hc.2.1⟩
  | succ j ih =>
    intro p g0 g h hc
    obtain ⟨g1, r, hs, hre, hrest⟩ := h
    obtain ⟨h2, h3, h4, h5, h6, _⟩ := step_some_spec hc hs
    have hlt : p < body.length := by
      rw [hre] at h6
      by_cases hlt : p < body.length
      · exact hlt
      · simp [hlt] at h6
    have hn : nxt body p = p + 1 := by simp [nxt, hlt]
    rw [hn] at h5
    obtain ⟨a, b, c, d, e⟩ := ih (p + 1) g1 g hrest h5
    refine ⟨?_, b.trans h4, c.trans h2, d.trans h3, by omega⟩
    have : p + (j + 1) = p + 1 + j := by omega
    rw [this]; exact a

theorem stepsTo_snoc : ∀ (j : Nat) (g0 g g' : GPlan) (r : StepResult), StepsTo j g0 g →
    g.step = .ok (some (g', r)) → r.end = false → StepsTo (j + 1) g0 g' := by
  intro j
  induction j with
  | zero =>
    intro g0 g g' r h hs hre
    cases h
    exact ⟨g', r, hs, hre, rfl⟩
  | succ j ih =>
    intro g0 g g' r h hs hre
    obtain ⟨g1, r1, hs1, hre1, hrest⟩ := h
    exact ⟨g1, r1, hs1, hre1, ih g1 g g' r hrest hs hre⟩

/-- a plan on which `iteratePlans` calls `add_switches` passes the assertions of `write_unlatch` -/
theorem switchPoint_allowed {k : Nat} {g : GPlan} (hc : Core body list k g.plan) (hsp : SwitchPoint g) :
    Allowed g.plan ∧ k < body.length := by
  rcases hsp with hs | ⟨g', r, hs, hu, he⟩
  · rcases step_spec g hc with ⟨_, h2, h3⟩ | ⟨g2, r2, h1, _⟩
    · exact ⟨h3, h2⟩
    · rw [h1] at hs; cases hs
  · obtain ⟨_, _, _, _, h6, h7⟩ := step_some_spec hc hs
    refine ⟨?_, ?_⟩
    · by_cases ha : Allowed g.plan
      · exact ha
      · rw [h7 ha] at hu; cases hu
    · rw [he] at h6
      by_cases hlt : k < body.length
      · exact hlt
      · simp [hlt] at h6

/-! ### live plans -/

/-- a live plan of iteration `k` (it has read `k` characters) -/
def Reach (body : List Nat) (list : List Sym) (W : Nat) (k : Nat) (g : GPlan) : Prop :=
  ∃ g0 p w m j, Hist body list W g0 p w m ∧ StepsTo j g0 g ∧ p + j = k ∧
    (1 ≤ j ∨ (k = 0 ∧ g = startPlan body list W))

/-- a plan after the step that reports the end of the data -/
def Final (body : List Nat) (list : List Sym) (W : Nat) (g : GPlan) : Prop :=
  ∃ g0 p w m j gk r, Hist body list W g0 p w m ∧ StepsTo j g0 gk ∧ p + j = body.length ∧ 1 ≤ j ∧
    gk.step = .ok (some (g, r)) ∧ r.end = true

theorem reach_core {k : Nat} {g : GPlan} (h : Reach body list W k g) : Core body list k g.plan := by
  obtain ⟨g0, p, w, m, j, hh, hst, hk, _⟩ := h
  have := (stepsTo_core j p g0 g hst (hist_core hh).1).1
  rw [hk] at this
  exact this

theorem ctx_write_eq {k : Nat} {c : Ctx} (h : CtxAt body list k c) (n : Nat) :
    c.write n = ctxAt body list k (c.written + n) := by
  obtain ⟨a, b, d⟩ := h
  cases c
  simp only [] at a b d
  subst a b d
  rfl

/-- the candidate `add_switches` builds for the mode `m'` is a segment start -/
theorem cand_hist {k : Nat} {g : GPlan} {ac : Nat} {ctx : Ctx} {m' : EMode} (hk : k < body.length)
    (hg : Reach body list W k g) (hsp : k ≠ 0 → SwitchPoint g) (hsc : g.switchCost = some ac)
    (hul : g.unlatch = .ok ctx) (hne : g.current ≠ m') :
    Hist body list W
      { extra := ac + lcost m' * 12,
        switches := if (k == 0) = true then [(body.length - k, m')] else g.switches ++ [(body.length - k, m')],
        plan := newPlan m' (ctx.write (lcost m')) } k (ctx.written + lcost m') m' := by
  obtain ⟨g0, p, w, m, j, hh, hst, hpj, hj⟩ := hg
  by_cases h0 : k = 0
  · subst h0
    have hgs : g = startPlan body list W := by
      rcases hj with hj | ⟨_, hj⟩
      · omega
      · exact hj
    subst hgs
    have hac : ac = 0 := by
      simp only [startPlan, GPlan.switchCost, newPlan, ceil12] at hsc
      simpa using hsc.symm
    have hctx : ctx = ctxAt body list 0 W := by
      simp only [startPlan, GPlan.unlatch, newPlan] at hul
      simpa using hul.symm
    subst hac hctx
    have hm : m' ≠ .ascii := fun h => hne (by rw [h]; rfl)
    have := Hist.first (body := body) (list := list) (W := W) m' hm
    simpa [Ctx.write, ctxAt] using this
  · have hj1 : 1 ≤ j := by
      rcases hj with hj | ⟨hj, _⟩
      · exact hj
      · exact absurd hj h0
    obtain ⟨hc0, hm0⟩ := hist_core hh
    obtain ⟨hc, hcur, hsw, _, _⟩ := stepsTo_core j p g0 g hst hc0
    obtain ⟨hal, _⟩ := switchPoint_allowed hc (hsp h0)
    obtain ⟨ctx2, hu2, hctx⟩ := unlatch_spec g hc hal ac hsc
    rw [hul] at hu2
    simp only [Except.ok.injEq] at hu2
    subst hu2
    rw [hpj] at hctx
    have hb : (k == 0) = false := by simpa using h0
    rw [ctx_write_eq hctx, hb, hsw]
    simp only [Bool.false_eq_true, ↓reduceIte]
    have hmm : m' ≠ m := fun h => hne (by rw [hcur, hm0, h])
    have := Hist.switch (m' := m') hh (by omega) hj1 hst (hsp h0) hsc hul hmm
    rw [hpj] at this
    exact this

theorem addSwitchesGo_reach {k : Nat} {g : GPlan} {ac : Nat} {ctx : Ctx} {modes : Nat} (hk : k < body.length)
    (hg : Reach body list W k g) (hsp : k ≠ 0 → SwitchPoint g) (hsc : g.switchCost = some ac)
    (hul : g.unlatch = .ok ctx) :
    ∀ (t : List (EMode × Nat)) (acc : List GPlan) (n : Nat) (l : List GPlan) (n' : Nat),
      (∀ e ∈ t, e.2 = lcost e.1) → (∀ c ∈ acc, Reach body list W (k + 1) c) →
      addSwitchesGo g (body.length - k) (k == 0) modes ac ctx t acc n = .ok (l, n') →
      ∀ c ∈ l, Reach body list W (k + 1) c := by
  intro t
  induction t with
  | nil =>
    intro acc n l n' _ hacc h
    simp only [addSwitchesGo, Except.ok.injEq, Prod.mk.injEq] at h
    obtain ⟨rfl, _⟩ := h
    intro c hc
    exact hacc c (List.mem_reverse.mp hc)
  | cons e t ih =>
    intro acc n l n' ht hacc h
    obtain ⟨m', ce⟩ := e
    have hce : ce = lcost m' := ht (m', ce) (List.mem_cons_self ..)
    subst hce
    have ht' : ∀ e ∈ t, e.2 = lcost e.1 := fun e he => ht e (List.mem_cons_of_mem _ he)
    unfold addSwitchesGo at h
    by_cases hcond : g.current ≠ m' ∧ enabledMode modes m' = true
    · rw [if_pos hcond] at h
      simp only [] at h
      have hh := cand_hist hk hg hsp hsc hul hcond.1
      revert h hh
      generalize GPlan.mk (ac + lcost m' * 12)
          (if (k == 0) = true then [(body.length - k, m')] else g.switches ++ [(body.length - k, m')])
          (newPlan m' (ctx.write (lcost m'))) = cand
      intro h hh
      cases hs : cand.step with
      | error e => rw [hs] at h; cases h
      | ok o =>
        rw [hs] at h
        cases o with
        | none => exact ih acc (n + 1) l n' ht' hacc h
        | some cr =>
          obtain ⟨c, r⟩ := cr
          simp only [] at h
          refine ih (c :: acc) (n + 1) l n' ht' ?_ h
          intro c' hc'
          rcases List.mem_cons.mp hc' with rfl | hc'
          · obtain ⟨_, _, _, _, h6, _⟩ := step_some_spec (hist_core hh).1 hs
            have hre : r.end = false := by rw [h6]; simp [hk]
            exact ⟨cand, k, _, m', 1, hh, ⟨c', r, hs, hre, rfl⟩, rfl, Or.inl (Nat.le_refl _)⟩
          · exact hacc c' hc'
    · rw [if_neg hcond] at h
      exact ih acc n l n' ht' hacc h

theorem addSwitches_reach {k : Nat} {g : GPlan} {modes : Nat} {l : List GPlan} {n : Nat} (hk : k < body.length)
    (hg : Reach body list W k g) (hsp : k ≠ 0 → SwitchPoint g)
    (h : g.addSwitches (body.length - k) (k == 0) modes = .ok (l, n)) :
    ∀ c ∈ l, Reach body list W (k + 1) c := by
  unfold GPlan.addSwitches at h
  cases hsc : g.switchCost with
  | none =>
    rw [hsc] at h
    simp only [Except.ok.injEq, Prod.mk.injEq] at h
    obtain ⟨rfl, _⟩ := h
    simp
  | some ac =>
    rw [hsc] at h
    simp only [] at h
    cases hul : g.unlatch with
    | error e => rw [hul] at h; cases h
    | ok ctx =>
      rw [hul] at h
      simp only [] at h
      split at h
      · split at h
        · cases h
        · simp only [Except.ok.injEq, Prod.mk.injEq] at h
          obtain ⟨rfl, _⟩ := h
          simp
      · exact addSwitchesGo_reach hk hg hsp hsc hul switchTargets [] 0 l n switchTargets_lcost (by simp) h

/-- one pass over the live plans, before the end of the data -/
theorem iterate_reach {k : Nat} {modes : Nat} (hk : k < body.length) :
    ∀ (plans acc : List GPlan) (steps : Nat) (atEnd : Bool) (acc' : List GPlan) (steps' : Nat) (atEnd' : Bool),
      (∀ g ∈ plans, Reach body list W k g) → (∀ g ∈ acc, Reach body list W (k + 1) g) →
      iteratePlans (body.length - k) (k == 0) modes plans acc steps atEnd = .ok (acc', steps', atEnd') →
      (∀ g ∈ acc', Reach body list W (k + 1) g) ∧ atEnd' = atEnd := by
  intro plans
  induction plans with
  | nil =>
    intro acc steps atEnd acc' steps' atEnd' _ hacc h
    simp only [iteratePlans, Except.ok.injEq, Prod.mk.injEq] at h
    obtain ⟨rfl, _, rfl⟩ := h
    exact ⟨hacc, rfl⟩
  | cons plan rest ih =>
    intro acc steps atEnd acc' steps' atEnd' hpl hacc h
    have hreach := hpl plan (List.mem_cons_self ..)
    have hrest : ∀ g ∈ rest, Reach body list W k g := fun g hg => hpl g (List.mem_cons_of_mem _ hg)
    have hcore := reach_core hreach
    unfold iteratePlans at h
    cases hs : plan.step with
    | error e => rw [hs] at h; cases h
    | ok o =>
      rw [hs] at h
      cases o with
      | none =>
        simp only [] at h
        cases ha : plan.addSwitches (body.length - k) (k == 0) modes with
        | error e => rw [ha] at h; cases h
        | ok sn =>
          obtain ⟨sw, n⟩ := sn
          rw [ha] at h
          simp only [] at h
          have hsw := addSwitches_reach hk hreach (fun _ => Or.inl hs) ha
          refine ih (acc ++ sw) _ atEnd acc' steps' atEnd' hrest ?_ h
          intro g hg
          rcases List.mem_append.mp hg with hg | hg
          · exact hacc g hg
          · exact hsw g hg
      | some sr =>
        obtain ⟨stepped, result⟩ := sr
        simp only [] at h
        obtain ⟨_, _, _, _, h6, _⟩ := step_some_spec hcore hs
        have hre : result.end = false := by rw [h6]; simp [hk]
        have hst : Reach body list W (k + 1) stepped := by
          obtain ⟨g0, p, w, m, j, hh, hst, hpj, _⟩ := hreach
          exact ⟨g0, p, w, m, j + 1, hh, stepsTo_snoc j g0 plan stepped result hst hs hre, by omega, Or.inl (by omega)⟩
        have hor : (atEnd || result.end) = atEnd := by rw [hre]; simp
        by_cases hcond : (!result.unbeatable) = true ∧ (!result.end) = true
        · rw [if_pos hcond] at h
          cases ha : plan.addSwitches (body.length - k) (k == 0) modes with
          | error e => rw [ha] at h; cases h
          | ok sn =>
            obtain ⟨sw, n⟩ := sn
            rw [ha] at h
            simp only [] at h
            split at h
            · cases h
            · have hsp : SwitchPoint plan := Or.inr ⟨stepped, result, hs, by simpa using hcond.1, hre⟩
              have hsw := addSwitches_reach hk hreach (fun _ => hsp) ha
              rw [hor] at h
              refine ih (acc ++ [stepped] ++ sw) _ atEnd acc' steps' atEnd' hrest ?_ h
              intro g hg
              rcases List.mem_append.mp hg with hg | hg
              · rcases List.mem_append.mp hg with hg | hg
                · exact hacc g hg
                · simp only [List.mem_singleton] at hg; subst hg; exact hst
              · exact hsw g hg
        · rw [if_neg hcond] at h
          simp only [] at h
          split at h
          · cases h
          · rw [hor] at h
            refine ih (acc ++ [stepped] ++ []) _ atEnd acc' steps' atEnd' hrest ?_ h
            intro g hg
            simp only [List.append_nil] at hg
            rcases List.mem_append.mp hg with hg | hg
            · exact hacc g hg
            · simp only [List.mem_singleton] at hg; subst hg; exact hst

/-- the pass at the end of the data: every plan is stepped once more and reports `end` -/
theorem iterate_final {modes : Nat} (hpos : 0 < body.length) (rc : Nat) (as : Bool) :
    ∀ (plans acc : List GPlan) (steps : Nat) (atEnd : Bool) (acc' : List GPlan) (steps' : Nat) (atEnd' : Bool),
      (∀ g ∈ plans, Reach body list W body.length g) → (∀ g ∈ acc, Final body list W g) →
      iteratePlans rc as modes plans acc steps atEnd = .ok (acc', steps', atEnd') →
      ∀ g ∈ acc', Final body list W g := by
  intro plans
  induction plans with
  | nil =>
    intro acc steps atEnd acc' steps' atEnd' _ hacc h
    simp only [iteratePlans, Except.ok.injEq, Prod.mk.injEq] at h
    obtain ⟨rfl, _, _⟩ := h
    exact hacc
  | cons plan rest ih =>
    intro acc steps atEnd acc' steps' atEnd' hpl hacc h
    have hreach := hpl plan (List.mem_cons_self ..)
    have hrest : ∀ g ∈ rest, Reach body list W body.length g := fun g hg => hpl g (List.mem_cons_of_mem _ hg)
    have hcore := reach_core hreach
    unfold iteratePlans at h
    cases hs : plan.step with
    | error e => rw [hs] at h; cases h
    | ok o =>
      rw [hs] at h
      cases o with
      | none =>
        exfalso
        rcases step_spec plan hcore with ⟨_, h2, _⟩ | ⟨g2, r2, h1, _⟩
        · omega
        · rw [h1] at hs; cases hs
      | some sr =>
        obtain ⟨stepped, result⟩ := sr
        simp only [] at h
        obtain ⟨_, _, _, _, h6, _⟩ := step_some_spec hcore hs
        have hre : result.end = true := by rw [h6]; simp
        have hfin : Final body list W stepped := by
          obtain ⟨g0, p, w, m, j, hh, hst, hpj, hj⟩ := hreach
          refine ⟨g0, p, w, m, j, plan, result, hh, hst, hpj, ?_, hs, hre⟩
          rcases hj with hj | ⟨hj, _⟩
          · exact hj
          · omega
        have hcond : ¬ ((!result.unbeatable) = true ∧ (!result.end) = true) := by rw [hre]; simp
        rw [if_neg hcond] at h
        simp only [] at h
        split at h
        · cases h
        · refine ih (acc ++ [stepped] ++ []) _ _ acc' steps' atEnd' hrest ?_ h
          intro g hg
          simp only [List.append_nil] at hg
          rcases List.mem_append.mp hg with hg | hg
          · exact hacc g hg
          · simp only [List.mem_singleton] at hg; subst hg; exact hfin

/-- the list handed to the encoder: a leading `(len, ASCII)` is dropped when nothing has been written -/
def finPlan (W len : Nat) (sw : List (Nat × EMode)) : List (Nat × EMode) :=
  if W = 0 ∧ sw.head? = some (len, EMode.ascii) then sw.tail else sw

theorem optLoop_final {modes : Nat} (hpos : 0 < body.length) :
    ∀ (f k : Nat) (plans : List GPlan) (perms : List (List Nat)) (steps maxLive : Nat) (o : Outcome)
      (plan : List (Nat × EMode)),
      k ≤ body.length → (∀ g ∈ plans, Reach body list W k g) →
      optLoop body W modes f k plans perms steps maxLive = .ok o → o.plan = some plan →
      ∃ best, Final body list W best ∧ plan = finPlan W body.length (best.switches ++ [(0, best.current)]) ∧
        o.cost12 = ceil12 best.cost := by
  intro f
  induction f with
  | zero => intro k plans perms steps maxLive o plan _ _ h; cases h
  | succ f ih =>
    intro k plans perms steps maxLive o plan hk hpl h hp
    unfold optLoop at h
    rw [if_neg (by omega)] at h
    simp only [] at h
    cases hit : iteratePlans (body.length - k) (k == 0) modes plans [] steps false with
    | error e => rw [hit] at h; cases h
    | ok res =>
      obtain ⟨cands, steps', atEnd⟩ := res
      rw [hit] at h
      simp only [] at h
      cases perms with
      | nil => cases h
      | cons perm perms =>
        simp only [] at h
        cases hr : removeHopelessPlans cands perm with
        | error e => rw [hr] at h; cases h
        | ok live =>
          rw [hr] at h
          simp only [] at h
          have hmem := (removeHopelessPlans_spec cands perm live hr).2
          by_cases hempty : live.isEmpty = true
          · rw [if_pos hempty] at h
            simp only [Except.ok.injEq] at h
            subst h
            cases hp
          · rw [if_neg hempty] at h
            by_cases hlt : k < body.length
            · obtain ⟨hc, hat⟩ := iterate_reach hlt plans [] steps false cands steps' atEnd hpl (by simp) hit
              subst hat
              simp only [Bool.false_eq_true, ↓reduceIte] at h
              exact ih (k + 1) live perms steps' _ o plan (by omega) (fun g hg => hc g (hmem g hg)) h hp
            · have hkl : k = body.length := by omega
              subst hkl
              have hc := iterate_final hpos _ _ plans [] steps false cands steps' atEnd hpl (by simp) hit
              by_cases hat : atEnd = true
              · rw [if_pos hat] at h
                cases hb : pickBest live with
                | none => rw [hb] at h; cases h
                | some best =>
                  rw [hb] at h
                  simp only [Except.ok.injEq] at h
                  subst h
                  simp only [Option.some.injEq] at hp
                  refine ⟨best, hc best (hmem best (pickBest_mem live best hb)), ?_, rfl⟩
                  rw [← hp]
                  rfl
              · rw [if_neg hat] at h
                exfalso
                cases f with
                | zero => cases h
                | succ f =>
                  unfold optLoop at h
                  rw [if_pos (by omega)] at h
                  cases h

/-- **The plan `optimize` returns has a history.** -/
theorem optimize_final {modes : Nat} {perms : List (List Nat)} {o : Outcome} {plan : List (Nat × EMode)}
    (hne : body ≠ []) (h : optimize body W list modes perms = .ok o) (hp : o.plan = some plan) :
    ∃ best, Final body list W best ∧ plan = finPlan W body.length (best.switches ++ [(0, best.current)]) ∧
      o.cost12 = ceil12 best.cost := by
  have hpos : 0 < body.length := List.length_pos_iff.mpr hne
  have hstart : Reach body list W 0 (startPlan body list W) :=
    ⟨_, 0, W, .ascii, 0, Hist.start, rfl, rfl, Or.inr ⟨rfl, rfl⟩⟩
  unfold optimize at h
  simp only [] at h
  split at h
  · refine optLoop_final hpos _ 0 _ perms 0 0 o plan (Nat.zero_le _) ?_ h hp
    intro g hg
    simp only [List.mem_singleton] at hg
    subst hg
    exact hstart
  · have hsp : GPlan.mk 0 [(body.length, EMode.ascii)] (newPlan .ascii (Ctx.mk body 0 W list)) = startPlan body list W := rfl
    rw [hsp] at h
    cases ha : (startPlan body list W).addSwitches body.length true modes with
    | error e => rw [ha] at h; cases h
    | ok sn =>
      obtain ⟨sw, n⟩ := sn
      rw [ha] at h
      simp only [] at h
      have hie : body.isEmpty = false := by cases body <;> simp_all
      rw [hie] at h
      simp only [Bool.false_eq_true, ↓reduceIte] at h
      have hsw := addSwitches_reach (k := 0) (modes := modes) (l := sw) (n := n) hpos hstart (fun h => absurd rfl h)
        (by simpa using ha)
      exact optLoop_final hpos _ 1 sw perms n 0 o plan hpos hsw h hp

end DM.Lemmas.CoupleReach
